(** * EmitSingletonOnce: the singleton accessor of a declared type / enum is emitted EXACTLY ONCE.

    EmitAccessors.v says what stands in the singleton PLACE of a declared item.  This file adds that
    there is no other singleton accessor for that item anywhere in the file of its module:

    - READERS: [impl_fns_of name e]: the functions of [e] if [e] is an inherent impl of the type
      [name]; [file_singleton_addrs name f]: the address literals of ALL functions of ALL inherent
      impls of [name] in the file [f] whose body reads as the struct singleton template
      ([fn_singleton_addr]); [file_enum_singleton_addrs] the same for the enum template;
    - [C15_struct_singleton_exactly_once]: everything [C15_struct_singleton_declared] states, for the
      same file, plus [file_singleton_addrs name f = [A]] when the declaration's last singleton
      attribute is [A], and [= []] when none is declared;
    - [C15_enum_singleton_exactly_once]: the same for enums.

    Ingredients: [module_file_split] (the items of one definition inside the file of its module, with
    everything before and after it coming from OTHER definitions, the extern accessors or the opaque
    text -- for any way of naming items that [build_item] respects); an inherent impl printed for a
    definition carries that definition's name ([build_item_impl_names]); the body of a wrapper or of
    the [vftable()] accessor never reads as a singleton body. *)
From Coq Require Import List NArith ZArith Bool Lia String Permutation.
From PyxisModel Require Import Base Sexp Grammar SemTypes Registry Sem SemLemmas FunctionLemmas
     VftableLemmas PlacementLemmas Emit EmitLemmas WholeBuild EmitReaders EmitShape EmitFinal EmitFind
     EmitFnReaders EmitFnShape EmitMarkers EmitMarkersEnum EmitMarkersFn FilesInput
     ConvReaders ConvShape EmitAccessors.
From PyxisModel Require FilesRead.
From PyxisModel Require Monotone.
Import ListNotations.
Local Open Scope string_scope.
Local Open Scope list_scope.

(** * 1. Readers *)
Definition impl_named (n : string) (e : sexp) : bool :=
  match inherent_impl e with Some (n', _) => String.eqb n' n | None => false end.
Definition impl_fns_of (name : string) (e : sexp) : list sexp :=
  match inherent_impl e with Some (n, fns) => if String.eqb n name then fns else [] | None => [] end.

Definition file_singleton_addrs (name : string) (f : sexp) : list N :=
  match file_items f with
  | Some items => all_somes fn_singleton_addr (flat_map (impl_fns_of name) items)
  | None => []
  end.
Definition file_enum_singleton_addrs (name : string) (f : sexp) : list N :=
  match file_items f with
  | Some items => all_somes fn_enum_singleton_addr (flat_map (impl_fns_of name) items)
  | None => []
  end.

Lemma impl_fns_of_not_named name e : impl_named name e = false -> impl_fns_of name e = [].
Proof. unfold impl_named, impl_fns_of. destruct (inherent_impl e) as [[n fns]|]; [|reflexivity]. now intros ->. Qed.

Lemma inherent_impl_kind e x : inherent_impl e = Some x -> item_kind e = Some "impl".
Proof.
  unfold inherent_impl, impl_parts. intros H.
  destruct e as [?|?|[|[k|?|?] r]]; try discriminate. cbn [item_kind].
  destruct r as [|x1 [|tr [|[?|?|[|[s|?|?] [|[nm|?|?] [|? ?]]]] items]]]; try discriminate.
  destruct (String.eqb_spec k "impl") as [->|]; [reflexivity | discriminate].
Qed.

Lemma other_kind_no_impl e k : item_kind e = Some k -> k <> "impl" -> inherent_impl e = None.
Proof.
  intros Hk Hne. destruct (inherent_impl e) as [x|] eqn:E; [|reflexivity].
  apply inherent_impl_kind in E. congruence.
Qed.

Lemma no_impl_fns name l : Forall (fun e => inherent_impl e = None) l -> flat_map (impl_fns_of name) l = [].
Proof.
  induction 1 as [|e l He _ IH]; [reflexivity|]. cbn [flat_map]. unfold impl_fns_of at 1. now rewrite He, IH.
Qed.

Lemma not_named_fns name l : Forall (fun e => impl_named name e = false) l -> flat_map (impl_fns_of name) l = [].
Proof.
  induction 1 as [|e l He _ IH]; [reflexivity|]. cbn [flat_map]. now rewrite (impl_fns_of_not_named _ _ He), IH.
Qed.

(** * 2. The bodies of wrappers and of the vftable accessor are no singleton bodies *)
Lemma read_singleton_body_unsafe l a : read_singleton_body l = Some a -> exists br, l = [Atom "unsafe"; br].
Proof.
  unfold read_singleton_body. destruct l as [|[u|?|?] [|br [|? ?]]]; try discriminate.
  destruct (String.eqb_spec u "unsafe") as [->|]; [eauto | discriminate].
Qed.
Lemma read_enum_singleton_body_unsafe l a : read_enum_singleton_body l = Some a -> exists br, l = [Atom "unsafe"; br].
Proof.
  unfold read_enum_singleton_body. destruct l as [|[u|?|?] [|br [|? ?]]]; try discriminate.
  destruct (String.eqb_spec u "unsafe") as [->|]; [eauto | discriminate].
Qed.

Lemma read_body_unsafe br : read_body [Atom "unsafe"; br] = None.
Proof. destruct br; reflexivity. Qed.
Lemma read_accessor_body_unsafe br : read_accessor_body [Atom "unsafe"; br] = None.
Proof. destruct br; reflexivity. Qed.

Lemma wrapper_not_singleton sf e : wrapper_shape sf e -> fn_singleton_addr e = None /\ fn_enum_singleton_addr e = None.
Proof.
  intros H. pose proof (ws_body _ _ H) as Hb.
  unfold fn_wrapper_body, fn_singleton_addr, fn_enum_singleton_addr in *.
  destruct (read_fn e) as [w|]; [|discriminate]. split.
  - destruct (read_singleton_body (efn_body w)) as [a|] eqn:E; [|reflexivity].
    apply read_singleton_body_unsafe in E as (br & El). rewrite El, read_body_unsafe in Hb. discriminate.
  - destruct (read_enum_singleton_body (efn_body w)) as [a|] eqn:E; [|reflexivity].
    apply read_enum_singleton_body_unsafe in E as (br & El). rewrite El, read_body_unsafe in Hb. discriminate.
Qed.

Lemma accessor_not_singleton vt e : accessor_shape vt e -> fn_singleton_addr e = None /\ fn_enum_singleton_addr e = None.
Proof.
  intros H. pose proof (ac_body _ _ H) as Hb.
  unfold fn_accessor, fn_singleton_addr, fn_enum_singleton_addr in *.
  destruct (read_fn e) as [w|]; [|discriminate]. split.
  - destruct (read_singleton_body (efn_body w)) as [a|] eqn:E; [|reflexivity].
    apply read_singleton_body_unsafe in E as (br & El). rewrite El, read_accessor_body_unsafe in Hb. discriminate.
  - destruct (read_enum_singleton_body (efn_body w)) as [a|] eqn:E; [|reflexivity].
    apply read_enum_singleton_body_unsafe in E as (br & El). rewrite El, read_accessor_body_unsafe in Hb. discriminate.
Qed.

Lemma wrappers_not_singleton : forall l out,
  mapM build_function l = Ok out ->
  all_somes fn_singleton_addr out = [] /\ all_somes fn_enum_singleton_addr out = [].
Proof.
  intros l out H. pose proof (wrappers_shape _ _ H) as F. clear H.
  induction F as [|sf e l out Hw _ [IH1 IH2]]; [split; reflexivity|].
  destruct (wrapper_not_singleton _ _ Hw) as [H1 H2]. cbn [all_somes]. now rewrite H1, H2.
Qed.

(** the two templates are distinct *)
Lemma singleton_struct_impl_fns name v a :
  exists g, inherent_impl (singleton_struct_impl name v a) = Some (name, [g]) /\
            fn_singleton_addr g = Some a /\ fn_enum_singleton_addr g = None.
Proof.
  unfold singleton_struct_impl. eexists. split; [apply inherent_impl_printed|].
  unfold fn_singleton_addr, fn_enum_singleton_addr. rewrite (read_fn_fn_sexp [] v true "get" [] _ _ [] eq_refl).
  cbn [efn_body]. split; [apply read_singleton_body_printed | reflexivity].
Qed.
Lemma enum_singleton_impl_fns name v a :
  exists g, inherent_impl (enum_singleton_impl name v a) = Some (name, [g]) /\
            fn_enum_singleton_addr g = Some a /\ fn_singleton_addr g = None.
Proof.
  unfold enum_singleton_impl. eexists. split; [apply inherent_impl_printed|].
  unfold fn_singleton_addr, fn_enum_singleton_addr. rewrite (read_fn_fn_sexp [] v true "get" [] _ _ [] eq_refl).
  cbn [efn_body]. split; [apply read_enum_singleton_body_printed | reflexivity].
Qed.

(** * 3. What the items of one definition read as *)
Lemma conv_not_inherent R fuel name td conv :
  conversions R fuel name td = Ok conv -> Forall (fun e => inherent_impl e = None) conv.
Proof.
  intros H. destruct (conversions_read _ _ _ _ _ H) as (h & _ & _ & _ & _ & _ & _ & Hall).
  eapply Forall_impl; [|exact Hall]. intros e [(ci & Hr & _)|(c & _ & _ & Hk)].
  - eapply read_as_ref_not_inherent; eauto.
  - eapply other_kind_no_impl; [exact Hk | discriminate].
Qed.

Lemma size_check_no_impl name size : Forall (fun e => inherent_impl e = None) (size_check name size).
Proof. unfold size_check. destruct (N.eqb size 0); repeat constructor. Qed.

(** an inherent impl among the items printed for a registry item carries the item's name *)
Lemma build_item_impl_names R fuel it its n e :
  build_item R fuel it = Ok its -> In e its -> impl_named n e = true -> path_last (it_path it) = Some n.
Proof.
  intros H Hin Hn. unfold impl_named in Hn. destruct (inherent_impl e) as [[n' fns]|] eqn:Ei; [|discriminate].
  apply String.eqb_eq in Hn. subst n'. unfold build_item in H.
  destruct (item_resolved it) as [rs|] eqn:Er; [|discriminate].
  destruct (it_cat it) eqn:Ec; try (inversion H; subst its; destruct Hin).
  destruct (rs_inner rs) as [td|ed] eqn:Ety.
  - destruct (build_type_parts _ _ _ _ _ _ _ _ H)
      as (name & fields & acc & assoc & vfns & conv & Hname & _ & _ & _ & _ & Hconv & ->).
    rewrite Hname. destruct Hin as [<-|Hin]; [discriminate|].
    apply in_app_or in Hin as [Hin|Hin].
    { pose proof (size_check_no_impl name (rs_size rs)) as F. rewrite Forall_forall in F. rewrite (F _ Hin) in Ei. discriminate. }
    apply in_app_or in Hin as [Hin|Hin].
    { destruct (td_singleton td); [|destruct Hin]. destruct Hin as [<-|[]].
      unfold singleton_struct_impl in Ei. rewrite inherent_impl_printed in Ei. now inversion Ei. }
    destruct Hin as [<-|Hin]; [rewrite inherent_impl_printed in Ei; now inversion Ei|].
    pose proof (conv_not_inherent _ _ _ _ _ Hconv) as F. rewrite Forall_forall in F. rewrite (F _ Hin) in Ei. discriminate.
  - destruct (build_enum_parts _ _ _ _ _ H) as (name & e0 & Hname & Hk & ->).
    rewrite Hname. destruct Hin as [<-|Hin].
    { rewrite (other_kind_no_impl _ _ Hk) in Ei; discriminate. }
    apply in_app_or in Hin as [Hin|Hin].
    { pose proof (size_check_no_impl name (rs_size rs)) as F. rewrite Forall_forall in F. rewrite (F _ Hin) in Ei. discriminate. }
    destruct (ed_singleton ed); [|destruct Hin]. destruct Hin as [<-|[]].
    unfold enum_singleton_impl in Ei. rewrite inherent_impl_printed in Ei. now inversion Ei.
Qed.

(** the functions of the inherent impls among the items of a type, and what reads as a singleton *)
Lemma build_type_singleton_addrs R fuel p size alignment v td items name :
  build_type R fuel p size alignment v td = Ok items -> path_last p = Some name ->
  all_somes fn_singleton_addr (flat_map (impl_fns_of name) items)
  = match td_singleton td with Some a => [a] | None => [] end /\
  all_somes fn_enum_singleton_addr (flat_map (impl_fns_of name) items) = [].
Proof.
  intros H Hname.
  destruct (build_type_parts _ _ _ _ _ _ _ _ H)
    as (name' & fields & acc & assoc & vfns & conv & Hname' & _ & Hacc & Hassoc & Hvfns & Hconv & ->).
  rewrite Hname in Hname'. inversion Hname'; subst name'. clear Hname'.
  cbn [flat_map]. rewrite !flat_map_app. cbn [flat_map].
  rewrite (no_impl_fns name _ (size_check_no_impl name size)),
          (no_impl_fns name _ (conv_not_inherent _ _ _ _ _ Hconv)).
  assert (impl_fns_of name (SList (Atom "struct" ::
             attrs_sexp (derive_attr [] (td_copyable td) (td_cloneable td) (td_defaultable td) ++
                         [repr_attr (td_packed td) alignment] ++ doc_attrs (td_doc td)) ::
             vis_sexp v :: Atom name :: fields)) = []) as -> by reflexivity.
  assert (impl_fns_of name (impl_sexp (Atom "notrait") name (acc ++ assoc ++ vfns)) = acc ++ assoc ++ vfns) as ->.
  { unfold impl_fns_of. now rewrite inherent_impl_printed, String.eqb_refl. }
  assert (all_somes fn_singleton_addr (acc ++ assoc ++ vfns) = [] /\
          all_somes fn_enum_singleton_addr (acc ++ assoc ++ vfns) = []) as [Hw1 Hw2].
  { rewrite !all_somes_app.
    destruct (wrappers_not_singleton _ _ Hassoc) as [A1 A2]. rewrite A1, A2.
    assert (all_somes fn_singleton_addr vfns = [] /\ all_somes fn_enum_singleton_addr vfns = []) as [V1 V2].
    { destruct (td_vftable td); [eapply wrappers_not_singleton; eauto | subst vfns; split; reflexivity]. }
    rewrite V1, V2.
    destruct (td_vftable td) as [vt|]; [|subst acc; split; reflexivity].
    destruct Hacc as (a & Ha & ->). destruct (accessor_not_singleton _ _ (vftable_accessor_shape _ _ Ha)) as [B1 B2].
    cbn [all_somes app]. now rewrite B1, B2. }
  cbn [app]. rewrite app_nil_r.
  rewrite (all_somes_app fn_singleton_addr _ (acc ++ assoc ++ vfns)),
          (all_somes_app fn_enum_singleton_addr _ (acc ++ assoc ++ vfns)), Hw1, Hw2, !app_nil_r.
  destruct (td_singleton td) as [a|]; [|split; reflexivity].
  cbn [flat_map]. rewrite app_nil_r.
  destruct (singleton_struct_impl_fns name v a) as (g & Hi & Ha & Hne).
  unfold impl_fns_of. rewrite Hi, String.eqb_refl. cbn [all_somes]. rewrite Ha, Hne. split; reflexivity.
Qed.

Lemma build_enum_singleton_addrs p size v ed items name :
  build_enum p size v ed = Ok items -> path_last p = Some name ->
  all_somes fn_enum_singleton_addr (flat_map (impl_fns_of name) items)
  = match ed_singleton ed with Some a => [a] | None => [] end /\
  all_somes fn_singleton_addr (flat_map (impl_fns_of name) items) = [].
Proof.
  intros H Hname. destruct (build_enum_parts _ _ _ _ _ H) as (name' & e0 & Hname' & Hk & ->).
  rewrite Hname in Hname'. inversion Hname'; subst name'. clear Hname'.
  cbn [flat_map]. rewrite !flat_map_app.
  rewrite (no_impl_fns name _ (size_check_no_impl name size)).
  assert (impl_fns_of name e0 = []) as -> by (unfold impl_fns_of; now rewrite (other_kind_no_impl _ _ Hk)).
  cbn [app]. destruct (ed_singleton ed) as [a|]; [|split; reflexivity].
  cbn [flat_map]. rewrite app_nil_r.
  destruct (enum_singleton_impl_fns name v a) as (g & Hi & Ha & Hne).
  unfold impl_fns_of. rewrite Hi, String.eqb_refl. cbn [all_somes]. rewrite Ha, Hne. split; reflexivity.
Qed.

(** * 4. The items of one definition inside the file of its module *)
Lemma mapM_out_in {A B} (f : A -> outcome B) : forall l out b,
  mapM f l = Ok out -> In b out -> exists a, In a l /\ f a = Ok b.
Proof.
  intros l out b H Hin. pose proof (mapM_ok _ _ _ H) as F. clear H.
  induction F as [|x y l l' Hxy _ IH]; [destruct Hin|].
  destruct Hin as [<-|Hi]; [exists x; split; [now left | exact Hxy]|].
  destruct (IH Hi) as (a & A1 & A2). exists a. split; [now right | exact A2].
Qed.

Theorem module_file_split st m f parent name p it its :
  module_file st m = Ok f ->
  keyed (st_reg st) -> NoDup (m_defpaths m) ->
  (forall q, In q (m_defpaths m) -> path_parent q = Some parent) ->
  In p (m_defpaths m) -> reg_get (st_reg st) p = Some it -> path_last p = Some name ->
  build_item (st_reg st) (S (List.length (reg_types (st_reg st)))) it = Ok its ->
  exists pre post,
    file_items f = Some (pre ++ its ++ post) /\
    forall named : string -> sexp -> bool,
      (forall it1 its1 n e,
          build_item (st_reg st) (S (List.length (reg_types (st_reg st)))) it1 = Ok its1 -> In e its1 ->
          named n e = true -> path_last (it_path it1) = Some n) ->
      (forall txt, named name (SList [Atom "opaque"; Str txt]) = false) ->
      (forall ev e, build_extern_value ev = Ok e -> named name e = false) ->
      Forall (fun e => named name e = false) pre /\ Forall (fun e => named name e = false) post.
Proof.
  intros H HK HN Hpar Hp Hg Hname Hb.
  destruct (module_file_shape _ _ _ H) as (items & evs & Hitems & Hevs & ->).
  pose proof (module_definitions_in _ _ _ _ Hp Hg) as Hin.
  pose proof (module_definitions_nodup (st_reg st) m HK HN) as Hnd.
  destruct (in_split _ _ Hin) as (l1 & l2 & Hl). rewrite Hl in Hitems, Hnd.
  destruct (mapM_app_inv _ _ _ _ _ Hitems) as (o1 & b & o2 & H1 & Hb' & H2 & ->).
  rewrite Hb in Hb'. inversion Hb'; subst b. clear Hb'.
  assert (~ In it l1) as Hnot1.
  { apply NoDup_remove_2 in Hnd. intros X. apply Hnd. apply in_or_app. now left. }
  assert (~ In it l2) as Hnot2.
  { apply NoDup_remove_2 in Hnd. intros X. apply Hnd. apply in_or_app. now right. }
  exists (SList [Atom "opaque"; Str (prologue_text m)] :: List.concat o1),
         (List.concat o2 ++ evs ++ [SList [Atom "opaque"; Str (epilogue_text m)]]).
  split.
  { unfold file_items. cbn [tagged String.eqb Ascii.eqb Bool.eqb app].
    rewrite concat_app. cbn [List.concat]. now rewrite <- !app_assoc. }
  intros named Hnames Hopq Hev.
  assert (forall l o, mapM (build_item (st_reg st) (S (List.length (reg_types (st_reg st))))) l = Ok o ->
                      (forall x, In x l -> In x (module_definitions (st_reg st) m)) -> ~ In it l ->
                      Forall (fun e => named name e = false) (List.concat o)) as Hother.
  { intros l o Hm Hsub Hnot. apply Forall_forall. intros e He. apply in_concat in He as (its1 & Hits1 & He).
    destruct (named name e) eqn:En; [exfalso|reflexivity].
    destruct (mapM_out_in _ _ _ _ Hm Hits1) as (it1 & Hit1 & Hb1).
    pose proof (Hnames _ _ _ _ Hb1 He En) as Hlast.
    destruct (module_definitions_from _ _ _ (Hsub _ Hit1)) as (q & Hq & Hgq).
    pose proof (HK _ _ Hgq) as Hkq. rewrite Hkq in Hlast.
    assert (q = p) as ->.
    { rewrite (path_parent_last _ _ _ (Hpar _ Hq) Hlast), (path_parent_last _ _ _ (Hpar _ Hp) Hname). reflexivity. }
    rewrite Hg in Hgq. inversion Hgq; subst it1. contradiction. }
  split.
  - constructor; [apply Hopq|]. apply (Hother l1 o1 H1); [|exact Hnot1].
    intros x Hx. rewrite Hl. apply in_or_app. now left.
  - apply Forall_app. split; [|apply Forall_app; split].
    + apply (Hother l2 o2 H2); [|exact Hnot2]. intros x Hx. rewrite Hl. apply in_or_app. right. now right.
    + apply Forall_forall. intros e He. destruct (mapM_out_in _ _ _ _ Hevs He) as (ev & _ & Hbe). eapply Hev; eauto.
    + constructor; [apply Hopq | constructor].
Qed.

(** the three ways of naming used below *)
Lemma struct_named_ok R fuel it1 its1 n e :
  build_item R fuel it1 = Ok its1 -> In e its1 -> is_struct_named n e = true -> path_last (it_path it1) = Some n.
Proof. apply build_item_struct_names. Qed.

Lemma extern_not_struct ev e n : build_extern_value ev = Ok e -> is_struct_named n e = false.
Proof. intros H. eapply not_struct_kind; [eapply FilesRead.build_extern_value_kind; eauto | discriminate]. Qed.
Lemma extern_not_enum ev e n : build_extern_value ev = Ok e -> is_enum_named n e = false.
Proof. intros H. eapply not_enum_kind; [eapply FilesRead.build_extern_value_kind; eauto | discriminate]. Qed.
Lemma extern_not_impl ev e n : build_extern_value ev = Ok e -> impl_named n e = false.
Proof.
  intros H. unfold impl_named.
  rewrite (other_kind_no_impl _ _ (FilesRead.build_extern_value_kind _ _ H)); [reflexivity | discriminate].
Qed.

(** * 5. STRUCT SINGLETON: exactly once *)
Theorem C15_struct_singleton_exactly_once order ptr mods st0 st files p it0 gd td0 :
  input_state ptr mods = Ok st0 -> NoDup (map fst mods) -> collision_free (st_reg st0) ->
  keeps_work order ->
  pyxis_resolve order ptr mods = BOk st -> write_all st = Ok files ->
  reg_get (st_reg st0) p = Some it0 -> it_state it0 = Unresolved gd -> gi_inner gd = GIType td0 ->
  path_parent p <> Some [] ->
  exists parent name it r f pre s sing im fns conv post,
    path_parent p = Some parent /\ parent <> [] /\ path_last p = Some name /\
    reg_get (st_reg st) p = Some it /\ it_state it = Resolved r /\
    In (out_path parent, f) files /\
    file_items f = Some (pre ++ (s :: size_check name (rs_size r) ++ sing ++ im :: conv) ++ post) /\
    find_struct name (pre ++ (s :: size_check name (rs_size r) ++ sing ++ im :: conv) ++ post) = Some s /\
    im = impl_sexp (Atom "notrait") name fns /\ Forall is_impl_or_const conv /\
    (* no inherent impl of [name] before or after the items of the type *)
    Forall (fun e => impl_named name e = false) pre /\ Forall (fun e => impl_named name e = false) post /\
    match declared_singleton (gt_attrs td0) with
    | Some A =>
      (0 <= A)%Z /\
      exists e, sing = [e] /\ e = singleton_struct_impl name (gi_vis gd) (Z.to_N A) /\
                singleton_shape name (gi_vis gd) (Z.to_N A) e
    | None => sing = []
    end /\
    (* ALL the singleton accessors the file has for [name] *)
    file_singleton_addrs name f
    = match declared_singleton (gt_attrs td0) with Some A => [Z.to_N A] | None => [] end /\
    file_enum_singleton_addrs name f = [].
Proof.
  intros Hin HN Hcf Hord Hres Hw Hg0 Hs0 Hty Hroot.
  destruct (accepted_declared_item _ _ _ _ _ _ _ _ Hin HN Hcf Hord Hres Hg0 Hs0)
    as (it & r & parent & m & Hg & Hs & Hpath & Hvis & Hcat & Hpar & Hmod & Hdef & HK & Hnd & Hparents).
  destruct (whole_build_type _ _ _ _ _ _ _ _ _ _ _ Hin Hcf Hres Hg0 Hs0 Hty Hg Hs) as (sm & sm' & _ & Hat & _).
  destruct (type_build_inv _ _ _ _ _ _ Hat) as
      (parent' & module & doc & ta & n & pending & vfs & regions & vt & size & funcs & A0 &
       _ & _ & Hta & _ & _ & _ & Hr).
  set (td := {| td_regions := regions; td_doc := doc; td_assoc := funcs; td_vftable := vt;
                td_singleton := ta_singleton ta; td_copyable := ta_copyable ta;
                td_cloneable := ta_cloneable ta; td_defaultable := ta_defaultable ta;
                td_packed := ta_packed ta |}) in *.
  assert (rs_inner r = IType td) as Hi by (rewrite Hr; reflexivity).
  assert (parent <> []) as Hne by (intros ->; contradiction).
  destruct (write_all_in _ _ _ _ Hw Hmod Hne) as (f & Hf & Hfile).
  destruct (module_file_items _ _ _ _ _ Hf Hdef Hg) as (pre0 & its & post0 & Hb & _).
  assert (item_resolved it = Some r) as Hres' by (unfold item_resolved; now rewrite Hs).
  assert (exists name, path_last p = Some name) as (name & Hname).
  { unfold build_item in Hb. rewrite Hres', Hcat, Hi, Hpath in Hb. unfold build_type in Hb.
    destruct (path_last p); [eauto | discriminate]. }
  destruct (module_file_split _ _ _ _ _ _ _ _ Hf HK Hnd Hparents Hdef Hg Hname Hb) as (pre & post & Hitems & Hsplit).
  pose proof Hb as Hbt. unfold build_item in Hbt.
  rewrite Hres', Hcat, Hi, Hpath, Hvis, (input_state_vis _ _ _ _ _ _ Hin Hg0 Hs0) in Hbt.
  destruct (build_type_parts _ _ _ _ _ _ _ _ Hbt)
    as (name' & fields & acc & assoc & vfns & conv & Hname' & _ & _ & _ & _ & Hconv & Heq).
  rewrite Hname in Hname'. inversion Hname'; subst name'. clear Hname'.
  destruct (build_type_singleton_addrs _ _ _ _ _ _ _ _ _ Hbt Hname) as [Hsa Hea].
  destruct (build_type_struct_shape _ _ _ _ _ _ _ _ Hbt) as (nm & s0 & ck0 & rest0 & Hnm & Heq0 & Hsh & _ & _).
  rewrite Hname in Hnm. inversion Hnm; subst nm. clear Hnm.
  destruct (Hsplit is_struct_named) as [Hps _];
    [intros; eapply struct_named_ok; eauto | reflexivity | intros; eapply extern_not_struct; eauto|].
  destruct (Hsplit impl_named) as [Hpi Hqi];
    [intros; eapply build_item_impl_names; eauto | reflexivity | intros; eapply extern_not_impl; eauto|].
  set (s := SList (Atom "struct" ::
                   attrs_sexp (derive_attr [] (td_copyable td) (td_cloneable td) (td_defaultable td) ++
                               [repr_attr (td_packed td) (rs_align r)] ++ doc_attrs (td_doc td)) ::
                   vis_sexp (gi_vis gd) :: Atom name :: fields)) in *.
  assert (is_struct_named name s = true) as Hsn.
  { rewrite Heq in Heq0. injection Heq0 as Hs0' _. fold s in Hs0'. rewrite <- Hs0' in Hsh. exact (struct_shape_is_named _ _ _ _ _ Hsh). }
  exists parent, name, it, r, f, pre, s,
         (match td_singleton td with Some a => [singleton_struct_impl name (gi_vis gd) a] | None => [] end),
         (impl_sexp (Atom "notrait") name (acc ++ assoc ++ vfns)), (acc ++ assoc ++ vfns), conv, post.
  rewrite Heq in Hitems.
  split; [exact Hpar|]. split; [exact Hne|]. split; [exact Hname|]. split; [exact Hg|]. split; [exact Hs|].
  split; [exact Hfile|]. split; [exact Hitems|].
  split. { unfold find_struct. rewrite (find_app_skip _ _ _ Hps). cbn [app find]. now rewrite Hsn. }
  split; [reflexivity|]. split; [eapply conversions_kind; eauto|]. split; [exact Hpi|]. split; [exact Hqi|].
  pose proof (scan_type_attrs_declared _ _ Hta) as Hd.
  assert (td_singleton td = ta_singleton ta) as Htd by reflexivity.
  split; [|split].
  - rewrite Htd. destruct (declared_singleton (gt_attrs td0)) as [A|].
    + destruct Hd as [Hz ->]. split; [exact Hz|]. eexists. split; [reflexivity|]. split; [reflexivity|].
      apply singleton_struct_impl_shape.
    + now rewrite Hd.
  - unfold file_singleton_addrs. rewrite Hitems, <- Heq, !flat_map_app, !all_somes_app.
    rewrite (not_named_fns _ _ Hpi), (not_named_fns _ _ Hqi), Hsa, app_nil_r. cbn [all_somes app]. rewrite Htd.
    destruct (declared_singleton (gt_attrs td0)) as [A|]; [destruct Hd as [_ ->] | rewrite Hd]; reflexivity.
  - unfold file_enum_singleton_addrs. rewrite Hitems, <- Heq, !flat_map_app, !all_somes_app.
    now rewrite (not_named_fns _ _ Hpi), (not_named_fns _ _ Hqi), Hea.
Qed.

(** * 6. ENUM SINGLETON: exactly once *)
Theorem C15_enum_singleton_exactly_once order ptr mods st0 st files p it0 gd ed0 :
  input_state ptr mods = Ok st0 -> NoDup (map fst mods) -> collision_free (st_reg st0) ->
  keeps_work order ->
  pyxis_resolve order ptr mods = BOk st -> write_all st = Ok files ->
  reg_get (st_reg st0) p = Some it0 -> it_state it0 = Unresolved gd -> gi_inner gd = GIEnum ed0 ->
  path_parent p <> Some [] ->
  exists parent name it r f pre e sing post,
    path_parent p = Some parent /\ path_last p = Some name /\
    reg_get (st_reg st) p = Some it /\ it_state it = Resolved r /\
    In (out_path parent, f) files /\
    file_items f = Some (pre ++ (e :: size_check name (rs_size r) ++ sing) ++ post) /\
    find_enum name (pre ++ (e :: size_check name (rs_size r) ++ sing) ++ post) = Some e /\
    Forall (fun x => impl_named name x = false) pre /\ Forall (fun x => impl_named name x = false) post /\
    match declared_singleton (ged_attrs ed0) with
    | Some A =>
      (0 <= A)%Z /\
      exists im, sing = [im] /\ im = enum_singleton_impl name (gi_vis gd) (Z.to_N A) /\
                 enum_singleton_shape name (gi_vis gd) (Z.to_N A) im
    | None => sing = []
    end /\
    file_enum_singleton_addrs name f
    = match declared_singleton (ged_attrs ed0) with Some A => [Z.to_N A] | None => [] end /\
    file_singleton_addrs name f = [].
Proof.
  intros Hin HN Hcf Hord Hres Hw Hg0 Hs0 Hty Hroot.
  destruct (accepted_declared_item _ _ _ _ _ _ _ _ Hin HN Hcf Hord Hres Hg0 Hs0)
    as (it & r & parent & m & Hg & Hs & Hpath & Hvis & Hcat & Hpar & Hmod & Hdef & HK & Hnd & Hparents).
  destruct (whole_build_enum _ _ _ _ _ _ _ _ _ _ _ Hin Hcf Hres Hg0 Hs0 Hty Hg Hs) as (sm & _ & _ & Hbuild).
  destruct (enum_build_singleton _ _ _ _ Hbuild) as (ed & ea & Hi & Hea & Hsg).
  assert (parent <> []) as Hne by (intros ->; contradiction).
  destruct (write_all_in _ _ _ _ Hw Hmod Hne) as (f & Hf & Hfile).
  destruct (module_file_items _ _ _ _ _ Hf Hdef Hg) as (pre0 & its & post0 & Hb & _).
  assert (item_resolved it = Some r) as Hres' by (unfold item_resolved; now rewrite Hs).
  pose proof Hb as Hbe. unfold build_item in Hbe.
  rewrite Hres', Hcat, Hi, Hpath, Hvis, (input_state_vis _ _ _ _ _ _ Hin Hg0 Hs0) in Hbe.
  destruct (build_enum_parts _ _ _ _ _ Hbe) as (name & e & Hname & Hk & Heq).
  destruct (module_file_split _ _ _ _ _ _ _ _ Hf HK Hnd Hparents Hdef Hg Hname Hb) as (pre & post & Hitems & Hsplit).
  destruct (build_enum_singleton_addrs _ _ _ _ _ _ Hbe Hname) as [Hsa Hst].
  destruct (build_enum_shape _ _ _ _ _ Hbe) as (nm & e0 & ck0 & rest0 & Hnm & Heq0 & Hsh & _ & _).
  rewrite Hname in Hnm. inversion Hnm; subst nm. clear Hnm.
  destruct (Hsplit is_enum_named) as [Hpe _];
    [intros; eapply build_item_enum_names; eauto | reflexivity | intros; eapply extern_not_enum; eauto|].
  destruct (Hsplit impl_named) as [Hpi Hqi];
    [intros; eapply build_item_impl_names; eauto | reflexivity | intros; eapply extern_not_impl; eauto|].
  assert (is_enum_named name e = true) as Hen.
  { rewrite Heq in Heq0. injection Heq0 as He0' _. rewrite <- He0' in Hsh.
    unfold is_enum_named. rewrite (es_name _ _ _ _ Hsh). apply String.eqb_refl. }
  exists parent, name, it, r, f, pre, e,
         (match ed_singleton ed with Some a => [enum_singleton_impl name (gi_vis gd) a] | None => [] end), post.
  rewrite Heq in Hitems.
  split; [exact Hpar|]. split; [exact Hname|]. split; [exact Hg|]. split; [exact Hs|].
  split; [exact Hfile|]. split; [exact Hitems|].
  split. { unfold find_enum. rewrite (find_app_skip _ _ _ Hpe). cbn [app find]. now rewrite Hen. }
  split; [exact Hpi|]. split; [exact Hqi|].
  pose proof (scan_enum_attrs_declared _ _ Hea) as Hd.
  split; [|split].
  - rewrite Hsg. destruct (declared_singleton (ged_attrs ed0)) as [A|].
    + destruct Hd as [Hz ->]. split; [exact Hz|]. eexists. split; [reflexivity|]. split; [reflexivity|].
      apply enum_singleton_impl_shape.
    + now rewrite Hd.
  - unfold file_enum_singleton_addrs. rewrite Hitems, <- Heq, !flat_map_app, !all_somes_app.
    rewrite (not_named_fns _ _ Hpi), (not_named_fns _ _ Hqi), Hsa, app_nil_r. cbn [all_somes app]. rewrite Hsg.
    destruct (declared_singleton (ged_attrs ed0)) as [A|]; [destruct Hd as [_ ->] | rewrite Hd]; reflexivity.
  - unfold file_singleton_addrs. rewrite Hitems, <- Heq, !flat_map_app, !all_somes_app.
    now rewrite (not_named_fns _ _ Hpi), (not_named_fns _ _ Hqi), Hst.
Qed.

(** * 7. The input-level forms *)
Theorem C15_struct_singleton_once_of_module order ptr mods st0 st files k gm d td0 :
  input_state ptr mods = Ok st0 -> NoDup (map fst mods) -> collision_free (st_reg st0) ->
  keeps_work order ->
  pyxis_resolve order ptr mods = BOk st -> write_all st = Ok files ->
  In (k, gm) mods -> k <> [] -> In d (gm_defs gm) -> gi_inner d = GIType td0 ->
  exists f,
    In (out_path k, f) files /\
    file_singleton_addrs (gi_name d) f
    = match declared_singleton (gt_attrs td0) with Some A => [Z.to_N A] | None => [] end /\
    file_enum_singleton_addrs (gi_name d) f = [].
Proof.
  intros Hin HN Hcf Hord Hres Hw Hgm Hk Hd Hty.
  destruct (input_module_facts _ _ _ _ _ Hin HN Hgm) as (m0 & Hreg).
  pose proof (mr_defs _ _ _ _ Hreg d Hd) as Hg0.
  destruct (C15_struct_singleton_exactly_once order ptr mods st0 st files _ _ d td0 Hin HN Hcf Hord Hres Hw Hg0 eq_refl Hty
              (path_parent_join_ne _ _ Hk))
    as (parent & name & it & r & f & pre & s & sing & im & fns & conv & post &
        Hpar & _ & Hname & _ & _ & Hfile & _ & _ & _ & _ & _ & _ & _ & Hall & Hnone).
  rewrite path_parent_join in Hpar. inversion Hpar; subst parent.
  rewrite Monotone.path_last_join in Hname. inversion Hname; subst name.
  exists f. auto.
Qed.

Theorem C15_enum_singleton_once_of_module order ptr mods st0 st files k gm d ed0 :
  input_state ptr mods = Ok st0 -> NoDup (map fst mods) -> collision_free (st_reg st0) ->
  keeps_work order ->
  pyxis_resolve order ptr mods = BOk st -> write_all st = Ok files ->
  In (k, gm) mods -> k <> [] -> In d (gm_defs gm) -> gi_inner d = GIEnum ed0 ->
  exists f,
    In (out_path k, f) files /\
    file_enum_singleton_addrs (gi_name d) f
    = match declared_singleton (ged_attrs ed0) with Some A => [Z.to_N A] | None => [] end /\
    file_singleton_addrs (gi_name d) f = [].
Proof.
  intros Hin HN Hcf Hord Hres Hw Hgm Hk Hd Hty.
  destruct (input_module_facts _ _ _ _ _ Hin HN Hgm) as (m0 & Hreg).
  pose proof (mr_defs _ _ _ _ Hreg d Hd) as Hg0.
  destruct (C15_enum_singleton_exactly_once order ptr mods st0 st files _ _ d ed0 Hin HN Hcf Hord Hres Hw Hg0 eq_refl Hty
              (path_parent_join_ne _ _ Hk))
    as (parent & name & it & r & f & pre & e & sing & post &
        Hpar & Hname & _ & _ & Hfile & _ & _ & _ & _ & _ & Hall & Hnone).
  rewrite path_parent_join in Hpar. inversion Hpar; subst parent.
  rewrite Monotone.path_last_join in Hname. inversion Hname; subst name.
  exists f. auto.
Qed.

Print Assumptions module_file_split.
Print Assumptions C15_struct_singleton_once_of_module.
Print Assumptions C15_enum_singleton_once_of_module.
Print Assumptions C15_struct_singleton_exactly_once.
Print Assumptions C15_enum_singleton_exactly_once.
