(** * Name resolution (C11, C13 paths, C19) *)
From Coq Require Import List NArith ZArith Bool Lia String.
From PyxisModel Require Import Base Grammar SemTypes Registry Sem SemLemmas.
Import ListNotations.

(** SPEC (from the property text): in order of precedence
    1. the type imported by name with [use path::Type], the last such import winning;
    2. a built-in type (root-level name);
    3. the type of that name defined in the same module;
    4. the type of that name in a module imported with [use path], earlier imports first. *)
Definition lookup_spec (has : path -> bool) (modpath : path) (uses : list path) (name : string)
  : option path :=
  match find (last_is name) (rev (filter has uses)) with
  | Some p => Some p
  | None =>
    if has [name] then Some [name]
    else if has (path_join modpath name) then Some (path_join modpath name)
    else find has (map (fun u => path_join u name) (filter (fun u => negb (has u)) uses))
  end.

Theorem resolve_string_spec R modpath uses name :
  reg_has R modpath = false ->
  resolve_string R (modpath :: uses) name =
  option_map TRaw (lookup_spec (reg_has R) modpath uses name).
Proof.
  intros Hm. unfold resolve_string, lookup_spec. cbn [filter]. rewrite Hm. cbn [negb].
  destruct (find (last_is name) (rev (filter (reg_has R) uses))) as [p|]; [reflexivity|].
  cbn [map find]. unfold path_join at 1. cbn [app].
  destruct (reg_has R [name]); [reflexivity|].
  destruct (reg_has R (path_join modpath name)); reflexivity.
Qed.

(** whatever a name resolves to is an entry of the registry *)
Lemma find_some_in {A} (f : A -> bool) l x : find f l = Some x -> In x l /\ f x = true.
Proof. apply find_some. Qed.

Lemma resolve_string_has R scope name p :
  resolve_string R scope name = Some (TRaw p) -> reg_has R p = true.
Proof.
  unfold resolve_string.
  destruct (find (last_is name) (rev (filter (reg_has R) scope))) as [q|] eqn:E.
  - intros H; inversion H; subst. apply find_some in E as [Hin _].
    apply in_rev, filter_In in Hin. tauto.
  - destruct (find (reg_has R) _) as [q|] eqn:E2; cbn; [|discriminate].
    intros H; inversion H; subst. apply find_some in E2. tauto.
Qed.

Lemma resolve_string_raw R scope name t : resolve_string R scope name = Some t -> exists p, t = TRaw p.
Proof.
  unfold resolve_string. destruct (find _ (rev _)); [intros H; inversion H; eauto|].
  destruct (find _ _); cbn; intros H; inversion H; eauto.
Qed.

(** every path mentioned by a resolved type is an entry of the registry (built-in, extern,
    declared or generated item) -- provided [u8] exists for the padding type *)
Fixpoint stype_paths (t : stype) : list path :=
  match t with
  | TRaw p => [p]
  | TConstPtr t' | TMutPtr t' | TArray t' _ => stype_paths t'
  | TFunction _ args ret =>
    flat_map (fun a => stype_paths (snd a)) args ++ match ret with Some r => stype_paths r | None => [] end
  end.

Theorem resolve_gtype_paths R scope : reg_has R ["u8"%string] = true -> forall t t',
  resolve_gtype R scope t = Some t' -> Forall (fun p => reg_has R p = true) (stype_paths t').
Proof.
  intros Hu8. induction t as [t IH|t IH|t IH n|s|n]; intros t' H; cbn [resolve_gtype] in H.
  - destruct (resolve_gtype R scope t) as [x|]; inversion H; subst. cbn. eauto.
  - destruct (resolve_gtype R scope t) as [x|]; inversion H; subst. cbn. eauto.
  - destruct (resolve_gtype R scope t) as [x|]; inversion H; subst. cbn. eauto.
  - destruct (resolve_string_raw _ _ _ _ H) as [p ->]. cbn. constructor; [|constructor].
    eapply resolve_string_has; eauto.
  - inversion H; subst. cbn. constructor; [exact Hu8 | constructor].
Qed.

(** ** locality and monotonicity of the registry reads (ingredients of C09's M1/M2 and of C19) *)
(** name resolution only looks at which paths exist *)
Theorem resolve_string_keys R R' scope name :
  (forall p, reg_has R p = reg_has R' p) -> resolve_string R scope name = resolve_string R' scope name.
Proof.
  intros H. unfold resolve_string.
  assert (filter (reg_has R) scope = filter (reg_has R') scope) as -> by (apply filter_ext; auto).
  assert (filter (fun p => negb (reg_has R p)) scope = filter (fun p => negb (reg_has R' p)) scope) as ->
      by (apply filter_ext; intros; now rewrite H).
  destruct (find _ (rev _)); [reflexivity|].
  f_equal. clear - H. induction (map _ _) as [|x l IH]; cbn [find]; [reflexivity|].
  rewrite H. destruct (reg_has R' x); [reflexivity | exact IH].
Qed.

Theorem resolve_gtype_keys R R' scope : (forall p, reg_has R p = reg_has R' p) ->
  forall t, resolve_gtype R scope t = resolve_gtype R' scope t.
Proof.
  intros H. induction t; cbn [resolve_gtype]; try (rewrite IHt; reflexivity); [|reflexivity].
  apply resolve_string_keys. exact H.
Qed.

(** ... and only at the names the module's scope can form: a name is looked up as an imported type
    path, at the root, in the module itself, and in the imported modules -- nowhere else *)
Definition lookup_candidates (scope : list path) (name : string) : list path :=
  scope ++ [name] :: map (fun ip => path_join ip name) scope.

Theorem resolve_string_local R R' scope name :
  (forall p, In p (lookup_candidates scope name) -> reg_has R p = reg_has R' p) ->
  resolve_string R scope name = resolve_string R' scope name.
Proof.
  intros H. unfold resolve_string, lookup_candidates in *.
  assert (Hs : forall p, In p scope -> reg_has R p = reg_has R' p) by (intros; apply H; apply in_or_app; now left).
  assert (filter (reg_has R) scope = filter (reg_has R') scope) as E1.
  { clear - Hs. induction scope as [|x l IH]; cbn [filter]; [reflexivity|].
    rewrite (Hs x) by now left. rewrite IH by (intros; apply Hs; now right). reflexivity. }
  assert (filter (fun p => negb (reg_has R p)) scope = filter (fun p => negb (reg_has R' p)) scope) as E2.
  { clear - Hs. induction scope as [|x l IH]; cbn [filter]; [reflexivity|].
    rewrite (Hs x) by now left. rewrite IH by (intros; apply Hs; now right). reflexivity. }
  rewrite E1, E2. destruct (find _ (rev _)); [reflexivity|]. f_equal.
  assert (Hj : forall p, In p ([] :: filter (fun p => negb (reg_has R' p)) scope) ->
                         reg_has R (path_join p name) = reg_has R' (path_join p name)).
  { intros p [<-|Hin]; apply H; apply in_or_app; right.
    - left. reflexivity.
    - right. apply (in_map (fun ip => path_join ip name)). apply filter_In in Hin. tauto. }
  revert Hj. generalize ([] :: filter (fun p => negb (reg_has R' p)) scope) as l.
  induction l as [|x l IH]; intros Hj; cbn [map find]; [reflexivity|].
  rewrite (Hj x) by now left. destruct (reg_has R' _); [reflexivity|]. apply IH. intros; apply Hj; now right.
Qed.

(** sizes and alignments only grow more defined: what is resolved stays what it is *)
Definition reg_extends (R R' : registry) : Prop :=
  reg_ptr R = reg_ptr R' /\
  forall p it, reg_get R p = Some it -> item_is_resolved it = true -> reg_get R' p = Some it.

Theorem size_of_mono R R' : reg_extends R R' -> forall t s, size_of R t = Some s -> size_of R' t = Some s.
Proof.
  intros [Hp He]. induction t as [p|t IH|t IH|t IH n|c args ret]; intros s H; cbn [size_of] in *;
    try (rewrite <- Hp; exact H).
  - destruct (reg_get R p) as [it|] eqn:E; [|discriminate].
    unfold item_size, item_resolved in H. destruct (it_state it) as [d|r] eqn:Es; [discriminate|].
    rewrite (He p it E); [unfold item_size, item_resolved; now rewrite Es|].
    unfold item_is_resolved. now rewrite Es.
  - destruct (size_of R t) as [s0|]; [|discriminate]. rewrite (IH s0 eq_refl). exact H.
Qed.

Theorem align_of_mono R R' : reg_extends R R' -> forall t a, align_of R t = Some a -> align_of R' t = Some a.
Proof.
  intros [Hp He]. induction t as [p|t IH|t IH|t IH n|c args ret]; intros a H; cbn [align_of] in *;
    try (rewrite <- Hp; exact H); auto.
  destruct (reg_get R p) as [it|] eqn:E; [|discriminate].
  unfold item_align, item_resolved in H. destruct (it_state it) as [d|r] eqn:Es; [discriminate|].
  rewrite (He p it E); [unfold item_align, item_resolved; now rewrite Es|].
  unfold item_is_resolved. now rewrite Es.
Qed.
