(** * Name resolution (C11, C13 paths, C19) *)
From Coq Require Import List NArith ZArith Bool Lia String.
From PyxisModel Require Import Base Grammar SemTypes Registry Sem SemLemmas.
Import ListNotations.

(** SPEC (from the property text): in order of precedence
    1. the type imported by name with [use path::Type], the last such import winning;
    2. a built-in type (root-level name);
    3. the type of that name defined in the same module;
    4. the type of that name in a module imported with [use path], earlier imports first. *)
Definition lookup_spec (has : path -> bool) (modpath : path) (uses : list path) (name : string)
  : option path :=
  match find (last_is name) (rev (filter has uses)) with
  | Some p => Some p
  | None =>
    if has [name] then Some [name]
    else if has (path_join modpath name) then Some (path_join modpath name)
    else find has (map (fun u => path_join u name) (filter (fun u => negb (has u)) uses))
  end.

Theorem resolve_string_spec R modpath uses name :
  reg_has R modpath = false ->
  resolve_string R (modpath :: uses) name =
  option_map TRaw (lookup_spec (reg_has R) modpath uses name).
Proof.
  intros Hm. unfold resolve_string, lookup_spec. cbn [filter]. rewrite Hm. cbn [negb].
  destruct (find (last_is name) (rev (filter (reg_has R) uses))) as [p|]; [reflexivity|].
  cbn [map find]. unfold path_join at 1. cbn [app].
  destruct (reg_has R [name]); [reflexivity|].
  destruct (reg_has R (path_join modpath name)); reflexivity.
Qed.

(** whatever a name resolves to is an entry of the registry *)
Lemma find_some_in {A} (f : A -> bool) l x : find f l = Some x -> In x l /\ f x = true.
Proof. apply find_some. Qed.

Lemma resolve_string_has R scope name p :
  resolve_string R scope name = Some (TRaw p) -> reg_has R p = true.
Proof.
  unfold resolve_string.
  destruct (find (last_is name) (rev (filter (reg_has R) scope))) as [q|] eqn:E.
  - intros H; inversion H; subst. apply find_some in E as [Hin _].
    apply in_rev, filter_In in Hin. tauto.
  - destruct (find (reg_has R) _) as [q|] eqn:E2; cbn; [|discriminate].
    intros H; inversion H; subst. apply find_some in E2. tauto.
Qed.

Lemma resolve_string_raw R scope name t : resolve_string R scope name = Some t -> exists p, t = TRaw p.
Proof.
  unfold resolve_string. destruct (find _ (rev _)); [intros H; inversion H; eauto|].
  destruct (find _ _); cbn; intros H; inversion H; eauto.
Qed.

(** every path mentioned by a resolved type is an entry of the registry (built-in, extern,
    declared or generated item) -- provided [u8] exists for the padding type *)
Fixpoint stype_paths (t : stype) : list path :=
  match t with
  | TRaw p => [p]
  | TConstPtr t' | TMutPtr t' | TArray t' _ => stype_paths t'
  | TFunction _ args ret =>
    flat_map (fun a => stype_paths (snd a)) args ++ match ret with Some r => stype_paths r | None => [] end
  end.

Theorem resolve_gtype_paths R scope : reg_has R ["u8"%string] = true -> forall t t',
  resolve_gtype R scope t = Some t' -> Forall (fun p => reg_has R p = true) (stype_paths t').
Proof.
  intros Hu8. induction t as [t IH|t IH|t IH n|s|n]; intros t' H; cbn [resolve_gtype] in H.
  - destruct (resolve_gtype R scope t) as [x|]; inversion H; subst. cbn. eauto.
  - destruct (resolve_gtype R scope t) as [x|]; inversion H; subst. cbn. eauto.
  - destruct (resolve_gtype R scope t) as [x|]; inversion H; subst. cbn. eauto.
  - destruct (resolve_string_raw _ _ _ _ H) as [p ->]. cbn. constructor; [|constructor].
    eapply resolve_string_has; eauto.
  - inversion H; subst. cbn. constructor; [exact Hu8 | constructor].
Qed.
