(** * ConvShape: what [conversions] emits, read back, against the hierarchy of the spec.

    C07, second half (AsRef/AsMut), part 3.  [conversions R fuel name td = Ok conv]: then, with [h]
    THE hierarchy of the spec ([HierSpec.bases_of R td [] h]):
    - [conversions_read]: the list of ALL reference conversions read from [conv]
      ([all_somes read_as_ref conv]) is [base_impls name h ++ refl_impls name]: for every
      hierarchy entry [(fp, t)] whose type occurs ONCE, in hierarchy order, the pair
      [AsRef<t>] / [AsMut<t>] for [name] whose bodies borrow the place [self.fp]; nothing for an entry
      whose type occurs more than once; at the end the reflexive pair.  The list of all conflict
      consts read from [conv] is [spec_conflicts name h]: one per entry whose type is repeated.
      Every item of [conv] is read by exactly one of the two readers (nothing else is in [conv]).
    - [conversions_unique_base] (a): for an entry [(fp, t)] whose type occurs once, the hierarchy part
      of the impls is [l1 ++ [AsRef<t> via fp; AsMut<t> via fp] ++ l2] and no impl of [l1], [l2] has
      the target tokens of [t] (exactly one of each);
    - [conversions_repeated_base] (b): for a type that occurs more than once, NO impl of the
      hierarchy part has its target tokens, and every entry of that type has its conflict const;
    - [conversions_reflexive] (c), [conversions_nothing_else] (d).
    The token-level statements use [ConvReaders.raw_tokens_inj]: hierarchy types are user types
    [TRaw p], and the tokens of an accepted [TRaw p] determine [p]. *)
From Coq Require Import List String NArith Bool Lia PeanoNat.
From PyxisModel Require Import Base Sexp Grammar SemTypes Registry Sem SemLemmas RustExec Emit EmitLemmas
     EmitReaders EmitFnReaders HierSpec ConvReaders.
Import ListNotations.
Local Open Scope string_scope.
Local Open Scope list_scope.

(** ** the spec side *)
Definition hierarchy := list (list string * stype).

(** the entries of the hierarchy whose type is [t], and how many there are *)
Definition same_type (t : stype) (h : hierarchy) : hierarchy := filter (fun x => stype_eqb (snd x) t) h.
Definition occurrences (t : stype) (h : hierarchy) : nat := List.length (same_type t h).
Definition repeated (t : stype) (h : hierarchy) : bool := Nat.leb 2 (occurrences t h).

(** the conversions of the hierarchy part: for every entry whose type is not repeated, the pair *)
Definition base_impls (name : string) (h : hierarchy) : list conv_impl :=
  flat_map (fun x => if repeated (snd x) h then []
                     else [conv_of name false (type_tokens (snd x)) (fst x);
                           conv_of name true (type_tokens (snd x)) (fst x)]) h.
(** the reflexive pair: [AsRef<Name> for Name], body [self] *)
Definition refl_impls (name : string) : list conv_impl :=
  [conv_of name false [tk name] []; conv_of name true [tk name] []].

Definition conflict_name (name : string) (fp : list string) : string :=
  "_CONFLICTING_" +++ upper name +++ "_" +++ concat_sep "_" (map upper fp).
(** the conflict consts: for every entry whose type is repeated, its name and its doc lines (which
    list the paths of all entries of that type) *)
Definition spec_conflicts (name : string) (h : hierarchy) : list (string * list string) :=
  flat_map (fun x => if repeated (snd x) h
                     then [(conflict_name name (fst x),
                            doc_lines (conflict_doc name (snd x) (map fst (same_type (snd x) h))))]
                     else []) h.

(** ** [conversions], unfolded once *)
Definition conv_items (name : string) (h : hierarchy) (x : list string * stype) : list sexp :=
  if repeated (snd x) h
  then [conflict_const (conflict_doc name (snd x) (map fst (same_type (snd x) h))) (conflict_name name (fst x))]
  else as_ref_impls name (type_tokens (snd x)) (fst x).

Lemma two_or_more {A B} (l : list A) (a b : B) :
  match l with _ :: _ :: _ => a | _ => b end = if Nat.leb 2 (List.length l) then a else b.
Proof. destruct l as [|x [|y l]]; reflexivity. Qed.

Lemma conversions_inv R fuel name td conv :
  conversions R fuel name td = Ok conv ->
  exists h, dfs_hierarchy fuel R td [] = Ok h /\
    forallb (fun x => forallb ident_ok (fst x)) h = true /\
    forallb (fun x => stype_ok (snd x)) h = true /\
    conv = flat_map (conv_items name h) h ++ as_ref_impls name [tk name] [].
Proof.
  unfold conversions. intros H. apply bind_ok in H as (h & Hh & H). exists h. split; [exact Hh|].
  destruct (forallb (fun x => forallb ident_ok (fst x)) h); [|discriminate].
  destruct (forallb (fun x => stype_ok (snd x)) h); [|discriminate].
  cbn [negb] in H. inversion H as [Hc]. repeat split. f_equal.
  apply flat_map_ext. intros x. unfold conv_items, repeated, occurrences, same_type, conflict_const, conflict_name.
  now rewrite two_or_more.
Qed.

(** ** reading [conv] back *)
Lemma all_somes_flat_map {A B C} (f : B -> option C) (g : A -> list B) l :
  all_somes f (flat_map g l) = flat_map (fun x => all_somes f (g x)) l.
Proof. induction l as [|a l IH]; cbn [flat_map all_somes]; [reflexivity|]. now rewrite all_somes_app, IH. Qed.

Lemma all_somes_in {A B} (f : A -> option B) l b :
  In b (all_somes f l) <-> exists a, In a l /\ f a = Some b.
Proof.
  induction l as [|a l IH]; cbn [all_somes].
  - split; [intros [] | intros (a & [] & _)].
  - destruct (f a) as [b'|] eqn:E.
    + split.
      * intros [<-|H]; [exists a; split; [now left | exact E]|].
        apply IH in H as (a' & Ha' & Hf). exists a'. split; [now right | exact Hf].
      * intros (a' & [<-|Ha'] & Hf); [left; congruence|]. right. apply IH. eauto.
    + split.
      * intros H. apply IH in H as (a' & Ha' & Hf). exists a'. split; [now right | exact Hf].
      * intros (a' & [<-|Ha'] & Hf); [congruence|]. apply IH. eauto.
Qed.

(** an item of the conversions: a reference-conversion impl or a conflict const, not both *)
Definition conv_item (e : sexp) : Prop :=
  (exists ci, read_as_ref e = Some ci /\ read_conflict_const e = None /\ item_kind e = Some "impl") \/
  (exists c, read_conflict_const e = Some c /\ read_as_ref e = None /\ item_kind e = Some "const").

Lemma as_ref_impls_read name target fields :
  all_somes read_as_ref (as_ref_impls name target fields)
    = [conv_of name false target fields; conv_of name true target fields] /\
  all_somes read_conflict_const (as_ref_impls name target fields) = [] /\
  Forall conv_item (as_ref_impls name target fields).
Proof.
  destruct (read_as_ref_as_ref_impls name target fields) as (e1 & e2 & -> & R1 & R2 & C1 & C2 & K1 & K2).
  cbn [all_somes]. rewrite R1, R2, C1, C2. repeat split.
  constructor; [left; eauto|]. constructor; [left; eauto | constructor].
Qed.

Lemma conv_items_read name h x :
  all_somes read_as_ref (conv_items name h x)
    = (if repeated (snd x) h then []
       else [conv_of name false (type_tokens (snd x)) (fst x); conv_of name true (type_tokens (snd x)) (fst x)]) /\
  all_somes read_conflict_const (conv_items name h x)
    = (if repeated (snd x) h
       then [(conflict_name name (fst x), doc_lines (conflict_doc name (snd x) (map fst (same_type (snd x) h))))]
       else []) /\
  Forall conv_item (conv_items name h x).
Proof.
  unfold conv_items. destruct (repeated (snd x) h).
  - destruct (read_conflict_const_printed (conflict_doc name (snd x) (map fst (same_type (snd x) h)))
                                          (conflict_name name (fst x))) as (Rc & Ra & K).
    cbn [all_somes]. rewrite Rc, Ra. repeat split. constructor; [right; eauto | constructor].
  - apply as_ref_impls_read.
Qed.

(** the main statement: what the two readers find in [conv], in order, and nothing else is there *)
Theorem conversions_read R fuel name td conv :
  conversions R fuel name td = Ok conv ->
  exists h,
    bases_of R td [] h /\ dfs_hierarchy fuel R td [] = Ok h /\
    forallb (fun x => forallb ident_ok (fst x)) h = true /\
    forallb (fun x => stype_ok (snd x)) h = true /\
    all_somes read_as_ref conv = base_impls name h ++ refl_impls name /\
    all_somes read_conflict_const conv = spec_conflicts name h /\
    Forall conv_item conv.
Proof.
  intros H. destruct (conversions_inv _ _ _ _ _ H) as (h & Hh & Hid & Hty & ->). exists h.
  split; [eapply dfs_hierarchy_sound; eauto|]. split; [exact Hh|]. split; [exact Hid|]. split; [exact Hty|].
  destruct (as_ref_impls_read name [tk name] []) as (A1 & A2 & A3).
  rewrite !all_somes_app, !all_somes_flat_map, A1, A2, app_nil_r.
  split; [|split].
  - f_equal. apply flat_map_ext. intros x. apply conv_items_read.
  - apply flat_map_ext. intros x. apply conv_items_read.
  - apply Forall_app. split; [|exact A3]. apply Forall_forall. intros e He.
    apply in_flat_map in He as (x & _ & He). destruct (conv_items_read name h x) as (_ & _ & F).
    rewrite Forall_forall in F. now apply F.
Qed.

(** ** counting *)
Lemma stype_eqb_raw_l q t : stype_eqb (TRaw q) t = true -> t = TRaw q.
Proof. destruct t as [p| | | |]; try discriminate. cbn. intros H. apply path_eqb_eq in H. now subst. Qed.
Lemma stype_eqb_raw_refl q : stype_eqb (TRaw q) (TRaw q) = true.
Proof. cbn. apply path_eqb_refl. Qed.

Lemma occurrences_app t h1 h2 : occurrences t (h1 ++ h2) = occurrences t h1 + occurrences t h2.
Proof. unfold occurrences, same_type. now rewrite filter_app, app_length. Qed.

Lemma occurrences_zero t h : occurrences t h = 0 -> forall x, In x h -> stype_eqb (snd x) t = false.
Proof.
  unfold occurrences, same_type. intros H x Hx. destruct (stype_eqb (snd x) t) eqn:E; [|reflexivity].
  assert (In x (filter (fun x => stype_eqb (snd x) t) h)) as X by (apply filter_In; auto).
  destruct (filter _ h); [destruct X | discriminate].
Qed.

(** the entries of a hierarchy are user types; an entry occurs at least once *)
Definition raw_entries (h : hierarchy) : Prop := Forall (fun x => exists bp, snd x = TRaw bp) h.

Lemma bases_of_raw R td pre h : bases_of R td pre h -> raw_entries h.
Proof.
  intros H. apply bases_regs_entries in H. revert H. apply Forall_impl.
  intros x (bp & _ & _ & E & _). eauto.
Qed.

Lemma occurrences_in h x : raw_entries h -> In x h -> 1 <= occurrences (snd x) h.
Proof.
  intros Hr Hx. destruct (in_split _ _ Hx) as (h1 & h2 & ->). rewrite occurrences_app.
  unfold occurrences at 2, same_type. cbn [filter].
  unfold raw_entries in Hr. rewrite Forall_forall in Hr. destruct (Hr _ Hx) as (bp & E). rewrite E, stype_eqb_raw_refl. cbn [List.length]. lia.
Qed.

(** an impl of the hierarchy part comes from an entry whose type is not repeated *)
Lemma base_impls_in name h' h ci :
  In ci (flat_map (fun x => if repeated (snd x) h then []
                            else [conv_of name false (type_tokens (snd x)) (fst x);
                                  conv_of name true (type_tokens (snd x)) (fst x)]) h') ->
  exists x, In x h' /\ repeated (snd x) h = false /\ ci_self ci = name /\
            ci_target ci = type_tokens (snd x) /\ ci_ret ci = type_tokens (snd x) /\ ci_path ci = fst x.
Proof.
  intros H. apply in_flat_map in H as (x & Hx & H). exists x. split; [exact Hx|].
  destruct (repeated (snd x) h); [destruct H|]. destruct H as [<-|[<-|[]]]; repeat split.
Qed.

(** equal tokens, equal types: for the entries of an accepted hierarchy *)
Lemma entry_tokens_inj (h : hierarchy) x t :
  raw_entries h -> forallb (fun x => stype_ok (snd x)) h = true -> In x h ->
  (exists bp, t = TRaw bp) -> stype_ok t = true ->
  type_tokens (snd x) = type_tokens t -> snd x = t.
Proof.
  intros Hr Hok Hx (bp & ->) Ht E. unfold raw_entries in Hr. rewrite Forall_forall in Hr. destruct (Hr _ Hx) as (q & Eq).
  rewrite forallb_forall in Hok. specialize (Hok _ Hx). cbn beta in Hok. rewrite Eq in *.
  f_equal. now apply type_tokens_raw_inj.
Qed.

(** ** (a): a base type that occurs once *)
Theorem base_impls_unique name h fp t :
  raw_entries h -> forallb (fun x => stype_ok (snd x)) h = true ->
  In (fp, t) h -> occurrences t h = 1 ->
  exists l1 l2,
    base_impls name h = l1 ++ [conv_of name false (type_tokens t) fp; conv_of name true (type_tokens t) fp] ++ l2 /\
    Forall (fun ci => ci_target ci <> type_tokens t) (l1 ++ l2).
Proof.
  intros Hr Hok Hin Hocc. destruct (in_split _ _ Hin) as (h1 & h2 & Eh).
  pose proof Hr as Hr'. unfold raw_entries in Hr'. rewrite Forall_forall in Hr'. destruct (Hr' _ Hin) as (bp & Et). cbn [snd] in Et. subst t.
  assert (stype_ok (TRaw bp) = true) as Htok.
  { rewrite forallb_forall in Hok. apply (Hok _ Hin). }
  assert (occurrences (TRaw bp) h1 = 0 /\ occurrences (TRaw bp) h2 = 0) as [Z1 Z2].
  { rewrite Eh, occurrences_app in Hocc. change ((fp, TRaw bp) :: h2) with ([(fp, TRaw bp)] ++ h2) in Hocc.
    rewrite occurrences_app in Hocc. unfold occurrences at 2, same_type in Hocc. cbn [filter snd] in Hocc.
    rewrite stype_eqb_raw_refl in Hocc. cbn [List.length] in Hocc. lia. }
  set (g := fun x : list string * stype =>
              if repeated (snd x) h then []
              else [conv_of name false (type_tokens (snd x)) (fst x); conv_of name true (type_tokens (snd x)) (fst x)]).
  exists (flat_map g h1), (flat_map g h2). split.
  - unfold base_impls. fold g. rewrite Eh at 1. rewrite flat_map_app. cbn [flat_map]. f_equal.
    unfold g at 1. cbn [fst snd]. unfold repeated. rewrite Hocc. cbn [Nat.leb]. reflexivity.
  - apply Forall_app. split; apply Forall_forall; intros ci Hci E.
    + apply base_impls_in in Hci as (x & Hx & _ & _ & Tg & _). rewrite Tg in E.
      assert (In x h) as Hxh by (rewrite Eh; apply in_or_app; now left).
      pose proof (entry_tokens_inj h x (TRaw bp) Hr Hok Hxh (ex_intro _ bp eq_refl) Htok E) as Ext.
      pose proof (occurrences_zero _ _ Z1 x Hx) as F. rewrite Ext, stype_eqb_raw_refl in F. discriminate.
    + apply base_impls_in in Hci as (x & Hx & _ & _ & Tg & _). rewrite Tg in E.
      assert (In x h) as Hxh by (rewrite Eh; apply in_or_app; right; now right).
      pose proof (entry_tokens_inj h x (TRaw bp) Hr Hok Hxh (ex_intro _ bp eq_refl) Htok E) as Ext.
      pose proof (occurrences_zero _ _ Z2 x Hx) as F. rewrite Ext, stype_eqb_raw_refl in F. discriminate.
Qed.

(** ** (b): a base type that occurs more than once *)
Lemma occurrences_witness t h : 1 <= occurrences t h -> exists x, In x h /\ stype_eqb (snd x) t = true.
Proof.
  unfold occurrences, same_type. intros H.
  destruct (filter (fun x => stype_eqb (snd x) t) h) as [|x l] eqn:E; [cbn in H; lia|].
  assert (In x (filter (fun x => stype_eqb (snd x) t) h)) as X by (rewrite E; now left).
  apply filter_In in X. eauto.
Qed.

Theorem base_impls_repeated name h t :
  raw_entries h -> forallb (fun x => stype_ok (snd x)) h = true ->
  2 <= occurrences t h ->
  Forall (fun ci => ci_target ci <> type_tokens t) (base_impls name h) /\
  forall fp, In (fp, t) h ->
    In (conflict_name name fp, doc_lines (conflict_doc name t (map fst (same_type t h)))) (spec_conflicts name h).
Proof.
  intros Hr Hok Hocc.
  assert (repeated t h = true) as Hrep by (unfold repeated; apply Nat.leb_le; exact Hocc).
  split.
  - destruct (occurrences_witness t h ltac:(lia)) as (y & Hy & Ey).
    pose proof Hr as Hr'. unfold raw_entries in Hr'. rewrite Forall_forall in Hr'.
    destruct (Hr' _ Hy) as (bp & Eb). rewrite Eb in Ey. apply stype_eqb_raw_l in Ey. subst t.
    assert (stype_ok (TRaw bp) = true) as Htok.
    { rewrite forallb_forall in Hok. specialize (Hok _ Hy). cbn beta in Hok. now rewrite Eb in Hok. }
    apply Forall_forall. intros ci Hci E. unfold base_impls in Hci.
    apply base_impls_in in Hci as (x & Hx & Hnr & _ & Tg & _). rewrite Tg in E.
    pose proof (entry_tokens_inj h x (TRaw bp) Hr Hok Hx (ex_intro _ bp eq_refl) Htok E) as Ext.
    rewrite Ext in Hnr. congruence.
  - intros fp Hin. unfold spec_conflicts. apply in_flat_map. exists (fp, t). split; [exact Hin|].
    cbn [fst snd]. rewrite Hrep. now left.
Qed.

(** a user type in a module ([crate::m::T]) never has the tokens of the reflexive target *)
Lemma raw_tokens_qualified a b r name : type_tokens (TRaw (a :: b :: r)) <> [tk name].
Proof.
  cbn [type_tokens]. unfold raw_tokens. cbn [is_void]. cbn [dcolon app]. discriminate.
Qed.

(** ** on the items of [conv] *)
Lemma readers_partition (l : list sexp) :
  Forall conv_item l ->
  List.length l = List.length (all_somes read_as_ref l) + List.length (all_somes read_conflict_const l).
Proof.
  induction 1 as [|e l He _ IH]; [reflexivity|]. cbn [all_somes List.length].
  destruct He as [(ci & -> & -> & _)|(c & -> & -> & _)]; cbn [List.length]; lia.
Qed.

Section OnConv.
  Variables (R : registry) (fuel : nat) (name : string) (td : type_def) (conv : list sexp) (h : hierarchy).
  Hypothesis Hconv : conversions R fuel name td = Ok conv.
  Hypothesis Hspec : bases_of R td [] h.

  Lemma conv_facts :
    dfs_hierarchy fuel R td [] = Ok h /\
    forallb (fun x => forallb ident_ok (fst x)) h = true /\
    forallb (fun x => stype_ok (snd x)) h = true /\
    all_somes read_as_ref conv = base_impls name h ++ refl_impls name /\
    all_somes read_conflict_const conv = spec_conflicts name h /\
    Forall conv_item conv.
  Proof.
    destruct (conversions_read _ _ _ _ _ Hconv) as (h' & Hb & Hd & Hi & Ht & A & B & C).
    assert (h' = h) as -> by (eapply bases_of_functional; eauto). auto 10.
  Qed.

  (** (a) a base sub-object whose type occurs once in the hierarchy: exactly one [AsRef] and one
      [AsMut] impl to its type, both through the field path of that sub-object *)
  Theorem conversions_unique_base fp t :
    In (fp, t) h -> occurrences t h = 1 ->
    exists l1 l2,
      all_somes read_as_ref conv
        = l1 ++ [conv_of name false (type_tokens t) fp; conv_of name true (type_tokens t) fp] ++ l2 ++ refl_impls name /\
      Forall (fun ci => ci_target ci <> type_tokens t) (l1 ++ l2) /\
      exists e1 e2, In e1 conv /\ In e2 conv /\
        read_as_ref e1 = Some (conv_of name false (type_tokens t) fp) /\
        read_as_ref e2 = Some (conv_of name true (type_tokens t) fp).
  Proof.
    intros Hin Hocc. destruct conv_facts as (_ & _ & Hok & A & _ & _).
    destruct (base_impls_unique name h fp t (bases_of_raw _ _ _ _ Hspec) Hok Hin Hocc) as (l1 & l2 & E & F).
    exists l1, l2. split; [rewrite A, E, <- !app_assoc; reflexivity|]. split; [exact F|].
    assert (forall ci, In ci [conv_of name false (type_tokens t) fp; conv_of name true (type_tokens t) fp] ->
                       exists e, In e conv /\ read_as_ref e = Some ci) as G.
    { intros ci Hci. apply all_somes_in. rewrite A, E. apply in_or_app. left. apply in_or_app. right.
      apply in_or_app. now left. }
    destruct (G _ (or_introl eq_refl)) as (e1 & I1 & R1).
    destruct (G _ (or_intror (or_introl eq_refl))) as (e2 & I2 & R2).
    exists e1, e2. auto.
  Qed.

  (** (b) a type that occurs more than once: no impl of [conv] converts to it (an impl with its
      target tokens can only be the reflexive one, when the type's tokens are the bare name of the
      implementing type itself; impossible for a type in a module), and every sub-object of that
      type has its conflict const instead *)
  Theorem conversions_repeated_base t :
    2 <= occurrences t h ->
    (forall e ci, In e conv -> read_as_ref e = Some ci -> ci_target ci = type_tokens t ->
                  In ci (refl_impls name) /\ type_tokens t = [tk name]) /\
    (forall fp, In (fp, t) h ->
       exists e, In e conv /\ read_as_ref e = None /\
         read_conflict_const e
           = Some (conflict_name name fp, doc_lines (conflict_doc name t (map fst (same_type t h))))).
  Proof.
    intros Hocc. destruct conv_facts as (_ & _ & Hok & A & B & C).
    destruct (base_impls_repeated name h t (bases_of_raw _ _ _ _ Hspec) Hok Hocc) as (F & G).
    split.
    - intros e ci He Hr Ht.
      assert (In ci (all_somes read_as_ref conv)) as X by (apply all_somes_in; eauto).
      rewrite A in X. apply in_app_or in X as [X|X].
      + rewrite Forall_forall in F. now elim (F _ X).
      + split; [exact X|]. destruct X as [<-|[<-|[]]]; cbn [conv_of ci_target] in Ht; congruence.
    - intros fp Hin. specialize (G _ Hin). rewrite <- B in G. apply all_somes_in in G as (e & He & Hr).
      exists e. split; [exact He|]. split; [|exact Hr].
      rewrite Forall_forall in C. destruct (C _ He) as [(ci & _ & N & _)|(c & _ & N & _)]; [congruence | exact N].
  Qed.

  Corollary conversions_repeated_base_qualified a b r :
    2 <= occurrences (TRaw (a :: b :: r)) h ->
    forall e ci, In e conv -> read_as_ref e = Some ci -> ci_target ci <> type_tokens (TRaw (a :: b :: r)).
  Proof.
    intros Hocc e ci He Hr Ht. destruct (conversions_repeated_base _ Hocc) as [F _].
    destruct (F _ _ He Hr Ht) as [_ X]. now apply raw_tokens_qualified in X.
  Qed.

  (** (c) the reflexive pair closes the list *)
  Theorem conversions_reflexive :
    exists pre e1 e2, conv = pre ++ [e1; e2] /\
      read_as_ref e1 = Some (conv_of name false [tk name] []) /\
      read_as_ref e2 = Some (conv_of name true [tk name] []).
  Proof.
    destruct (conversions_inv _ _ _ _ _ Hconv) as (h' & _ & _ & _ & ->).
    destruct (read_as_ref_as_ref_impls name [tk name] []) as (e1 & e2 & -> & R1 & R2 & _).
    eauto 6.
  Qed.

  (** (d) nothing else: every item is one impl or one const, and their number is the number the
      spec gives: two per base whose type occurs once, one per base whose type is repeated, two *)
  Theorem conversions_nothing_else :
    Forall conv_item conv /\
    List.length conv = List.length (base_impls name h) + 2 + List.length (spec_conflicts name h).
  Proof.
    destruct conv_facts as (_ & _ & _ & A & B & C). split; [exact C|].
    rewrite (readers_partition _ C), A, B, app_length. reflexivity.
  Qed.

  (** every impl of [conv] is for [name], returns a reference to the target type of its trait, and
      is either the reflexive one or goes through the field path of a base whose type occurs once *)
  Theorem conversions_every_impl e ci :
    In e conv -> read_as_ref e = Some ci ->
    ci_self ci = name /\ ci_ret ci = ci_target ci /\
    ((ci_path ci = [] /\ ci_target ci = [tk name]) \/
     exists t, In (ci_path ci, t) h /\ occurrences t h = 1 /\ ci_target ci = type_tokens t).
  Proof.
    intros He Hr. destruct conv_facts as (_ & _ & _ & A & _ & _).
    assert (In ci (all_somes read_as_ref conv)) as X by (apply all_somes_in; eauto).
    rewrite A in X. apply in_app_or in X as [X|X].
    - unfold base_impls in X. apply base_impls_in in X as (x & Hx & Hnr & S & T & Rt & P).
      split; [exact S|]. split; [congruence|]. right. exists (snd x). rewrite P, <- surjective_pairing.
      split; [exact Hx|]. split; [|exact T].
      pose proof (occurrences_in h x (bases_of_raw _ _ _ _ Hspec) Hx) as L.
      unfold repeated in Hnr. apply Nat.leb_gt in Hnr. lia.
    - destruct X as [<-|[<-|[]]]; cbn; auto.
  Qed.
End OnConv.

Print Assumptions conversions_read.
Print Assumptions conversions_unique_base.
Print Assumptions conversions_repeated_base.
Print Assumptions conversions_reflexive.
Print Assumptions conversions_nothing_else.
Print Assumptions conversions_every_impl.
