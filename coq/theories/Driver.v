(** * Driver: one case in (S-expression text), one result out.  The same function is run
    extracted to OCaml (bulk) and by vm_compute inside Coq (cross-check of the extraction). *)
From PyxisModel Require Import Base Sexp Grammar SemTypes Registry Sem Emit.
From PyxisModel Require C03Core.
From PyxisModel Require Import Syntax.
From PyxisModel Require WholeBuild OrderIndep.
From PyxisModel Require SyntaxItems ModuleEq.
From PyxisModel Require IntLit.
Local Open Scope string_scope.
Local Open Scope list_scope.

Definition path_sexp (p : path) : sexp := SList (Atom "path" :: map Str p).

Definition registry_dump (st : sstate) : list sexp :=
  let R := st_reg st in
  let paths := sort path_leb (flat_map (fun km => m_defpaths (snd km)) (st_modules st)) in
  flat_map (fun p =>
              match reg_get R p with
              | None => []
              | Some it =>
                match it_cat it with
                | Predefined => []
                | c =>
                  let cat := match c with Defined => "defined" | _ => "extern" end in
                  match item_resolved it with
                  | None => [SList [Atom "item"; path_sexp p; Atom cat; Atom "unresolved"; sN 0; sN 0]]
                  | Some rs =>
                    [SList [Atom "item"; path_sexp p; Atom cat;
                            Atom (match rs_inner rs with IType _ => "type" | IEnum _ => "enum" end);
                            sN (rs_size rs); sN (rs_align rs)]]
                  end
                end
              end) paths.

Definition run_model (ptr : N) (ks : list N) (mods : list (path * gmodule)) : sexp :=
  match pyxis_resolve (hook_schedule ks) ptr mods with
  | BErr m => SList [Atom "model"; SList [Atom "verdict"; SList [Atom "err"; Str m]]]
  | BPanic m => SList [Atom "model"; SList [Atom "verdict"; SList [Atom "panic"; Str m]]]
  | BFuel => SList [Atom "model"; SList [Atom "verdict"; SList [Atom "panic"; Str "model: resolution fuel exhausted"]]]
  | BNoProgress l =>
    SList [Atom "model"; SList [Atom "verdict"; SList (Atom "noprogress" :: map path_sexp (sort path_leb l))]]
  | BOk st =>
    match write_all st with
    | Ok files =>
      SList [Atom "model"; SList [Atom "verdict"; Atom "ok"];
             SList (Atom "files" :: map (fun f => SList [Atom "f"; Str (fst f); snd f]) files);
             SList (Atom "registry" :: registry_dump st)]
    | Err m => SList [Atom "model"; SList [Atom "verdict"; SList [Atom "err"; Str ("emit: " +++ m)]];
                      SList (Atom "registry" :: registry_dump st)]
    | Panic m => SList [Atom "model"; SList [Atom "verdict"; SList [Atom "panic"; Str ("emit: " +++ m)]];
                        SList (Atom "registry" :: registry_dump st)]
    | Defer => SList [Atom "model"; SList [Atom "verdict"; SList [Atom "panic"; Str "model: defer in emit"]]]
    end
  end.

(** the decidable hypotheses of the whole-build theorems (C01/C02/C08 [_whole_build]: collision_free;
    C09/C10 order independence: collision_free and clean), evaluated on the case, so that every run
    reports on how many of its inputs those theorems speak *)
Definition side_conditions (ptr : N) (mods : list (path * gmodule)) : sexp :=
  match WholeBuild.input_state ptr mods with
  | Ok st0 =>
    SList [Atom "hyps";
           SList [Atom "collision_free"; Atom (if WholeBuild.collision_freeb (st_reg st0) then "1" else "0")];
           SList [Atom "clean"; Atom (if OrderIndep.clean_stateb st0 then "1" else "0")]]
  | _ => SList [Atom "hyps"; SList [Atom "no_input_state"]]
  end.

Definition case_of_sexp (e : sexp) : option (N * list N * list (path * gmodule)) :=
  match tagged "case" e with
  | None => None
  | Some fields =>
    olet ptr <- match field "ptr" fields with Some [n] => atom_N n | _ => None end;
    olet ks <- match field "schedule" fields with Some l => omap atom_N l | None => Some [] end;
    olet mods <- match field "modules" fields with
                 | Some l => omap (fun m => match m with
                                            | SList [p; md] => olet p' <- path_of_sexp p;
                                                               olet m' <- gmodule_of_sexp md; Some (p', m')
                                            | _ => None end) l
                 | None => None
                 end;
    Some (ptr, ks, mods)
  end.

(** C03: the spec ([realisableb]) and the arithmetic core ([acceptb]) on an abstract description:
    (c03 (ptr N) (size none|N) (align none|N) (packed 0|1) (fields (ADDR SZ AL ZARR) ...)) *)
Definition optN_of_sexp (e : sexp) : option (option N) :=
  match e with Atom "none" => Some None | _ => option_map Some (atom_N e) end.
Definition c03_field_of_sexp (e : sexp) : option C03Core.field :=
  match e with
  | SList [a; s; al; z] =>
    olet a' <- optN_of_sexp a; olet s' <- atom_N s; olet al' <- atom_N al; olet z' <- atom_N z;
    Some {| C03Core.addr := a'; C03Core.sz := s'; C03Core.al := al'; C03Core.zarr := negb (N.eqb z' 0) |}
  | _ => None
  end.
Definition run_c03 (fields : list sexp) : sexp :=
  match (olet ptr <- match field "ptr" fields with Some [n] => atom_N n | _ => None end;
         olet size <- match field "size" fields with Some [n] => optN_of_sexp n | _ => None end;
         olet align <- match field "align" fields with Some [n] => optN_of_sexp n | _ => None end;
         olet packed <- match field "packed" fields with Some [n] => atom_N n | _ => None end;
         olet fs <- match field "fields" fields with Some l => omap c03_field_of_sexp l | None => None end;
         let pk := negb (N.eqb packed 0) in
         Some (C03Core.acceptb ptr fs size align pk, C03Core.realisableb ptr fs size align pk)) with
  | Some (a, r) => SList [Atom "c03"; Atom (if a then "1" else "0"); Atom (if r then "1" else "0")]
  | None => SList [Atom "c03"; Atom "bad_case"]
  end.

(** C18: the Coq parser on the token stream the real lexer produced:
    (c18 type TOK...) / (c18 attrs TOK...) with TOK = (id "s") | (int Z) | (str "s") | (p "c") | (g delim TOK...) *)
Fixpoint tok_of_sexp (fuel : nat) (e : sexp) : option tok :=
  match fuel with
  | O => None
  | S f =>
    match e with
    | SList [Atom "id"; Str s] => Some (KId s)
    | SList [Atom "int"; z] => option_map KInt (atom_Z z)
    | SList [Atom "str"; Str s] => Some (KStr s)
    | SList [Atom "p"; Str s] => Some (KPunct s)
    | SList (Atom "g" :: Atom d :: ts) =>
      olet d' <- (if String.eqb d "paren" then Some Paren else if String.eqb d "bracket" then Some Bracket
                  else if String.eqb d "brace" then Some Brace else None);
      olet ts' <- omap (tok_of_sexp f) ts; Some (KGroup d' ts')
    | _ => None
    end
  end.
Fixpoint sexp_of_gtype (t : gtype) : sexp :=
  match t with
  | GConstPtr t' => SList [Atom "cptr"; sexp_of_gtype t']
  | GMutPtr t' => SList [Atom "mptr"; sexp_of_gtype t']
  | GArray t' n => SList [Atom "array"; sexp_of_gtype t'; sN n]
  | GIdent s => SList [Atom "tid"; Str s]
  | GUnknown n => SList [Atom "unknown"; sN n]
  end.
Definition sexp_of_gexpr (e : gexpr) : sexp :=
  match e with
  | EInt z => SList [Atom "int"; sZ z] | EStr s => SList [Atom "str"; Str s] | EIdent s => SList [Atom "id"; Str s]
  end.
Definition sexp_of_gattr (a : gattr) : sexp :=
  match a with
  | AIdent n => SList [Atom "ident"; Str n]
  | AFn n args => SList (Atom "fn" :: Str n :: map sexp_of_gexpr args)
  | AAssign n e => SList [Atom "assign"; Str n; sexp_of_gexpr e]
  end.
Fixpoint sexp_depth (e : sexp) : nat :=
  match e with
  | SList l => S (fold_left Nat.max (map sexp_depth l) O)
  | _ => 1
  end.
Definition run_c18 (args : list sexp) : sexp :=
  match args with
  | Atom kind :: toks =>
    match omap (tok_of_sexp (S (sexp_depth (SList toks)))) toks with
    | None => SList [Atom "c18"; Atom "bad_tokens"]
    | Some ts =>
      if String.eqb kind "type" then
        match parse_type (S (S (List.length toks + sexp_depth (SList toks)))) ts with
        | Some (t, []) => SList [Atom "c18"; SList [Atom "ok"; sexp_of_gtype t]]
        | _ => SList [Atom "c18"; Atom "err"]
        end
      else
        match parse_attrs (S (List.length ts)) ts with
        | Some (l, []) => SList [Atom "c18"; SList [Atom "ok"; SList (Atom "attrs" :: map sexp_of_gattr l)]]
        | _ => SList [Atom "c18"; Atom "err"]
        end
    end
  | _ => SList [Atom "c18"; Atom "bad_case"]
  end.

(** C18, whole modules: the Coq module parser on the token stream of the real lexer, compared (by the
    proved-correct [gmodule_eqb]) with the AST the real parser returned:
    (c18m (toks TOK...) REAL)   REAL = the module S-expression, or [none] when the real parser refused.
    A stream with a token the model has no constructor for (float, char ... literals, which the
    grammar accepts nowhere) counts as refused. *)
Definition run_c18m (args : list sexp) : sexp :=
  match args with
  | [SList (Atom "toks" :: toks); real] =>
    match omap (tok_of_sexp (S (sexp_depth (SList toks)))) toks with
    | None => SList [Atom "c18m"; Atom "err"]
    | Some ts =>
      match SyntaxItems.parse_module ts with
      | None => SList [Atom "c18m"; Atom "err"]
      | Some m =>
        match real with
        | Atom _ => SList [Atom "c18m"; SList [Atom "ok"; Atom "unchecked"]]
        | _ =>
          match gmodule_of_sexp real with
          | Some mr => SList [Atom "c18m"; SList [Atom "ok"; Atom (if ModuleEq.gmodule_eqb m mr then "same" else "differ")]]
          | None => SList [Atom "c18m"; SList [Atom "ok"; Atom "real_unreadable"]]
          end
        end
      end
    end
  | _ => SList [Atom "c18m"; Atom "bad_case"]
  end.

(** integer literal spelling (IntLit.v), as pyxis reads a literal token with [base10_parse::<isize>] /
    [::<usize>]:   (lit isize|usize NEG "text")  ->  (lit ok VALUE) | (lit err)      NEG = 1 when a [-] precedes *)
Definition run_lit (args : list sexp) : sexp :=
  match args with
  | [Atom kind; Atom neg; Str s] =>
    let ng := String.eqb neg "1" in
    if String.eqb kind "isize" then
      match IntLit.read_isize ng s with
      | Some z => SList [Atom "lit"; Atom "ok"; sZ z]
      | None => SList [Atom "lit"; Atom "err"]
      end
    else
      match IntLit.read_usize ng s with
      | Some n => SList [Atom "lit"; Atom "ok"; sN n]
      | None => SList [Atom "lit"; Atom "err"]
      end
  | _ => SList [Atom "lit"; Atom "bad_case"]
  end.

Definition run_case_sexp (e : sexp) : sexp :=
  match tagged "lit" e with Some args => run_lit args | None =>
  match tagged "c18m" e with Some args => run_c18m args | None =>
  match tagged "c18" e with Some args => run_c18 args | None =>
  match tagged "c03" e with Some fields => run_c03 fields | None =>
  match case_of_sexp e with
  | Some (ptr, ks, mods) =>
    match run_model ptr ks mods with
    | SList l => SList (l ++ [side_conditions ptr mods])
    | x => x
    end
  | None => SList [Atom "model"; SList [Atom "bad_case"]]
  end end end end end.

(** text in, text out: one result line per case *)
Definition run_cases (input : string) : list string :=
  match parse_sexps input with
  | Some cases => map (fun c => print_sexp (run_case_sexp c)) cases
  | None => ["(model (bad_input))"]
  end.
