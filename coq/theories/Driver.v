(** * Driver: one case in (S-expression text), one result out.  The same function is run
    extracted to OCaml (bulk) and by vm_compute inside Coq (cross-check of the extraction). *)
From PyxisModel Require Import Base Sexp Grammar SemTypes Registry Sem Emit.
From PyxisModel Require C03Core.
Local Open Scope string_scope.
Local Open Scope list_scope.

Definition path_sexp (p : path) : sexp := SList (Atom "path" :: map Str p).

Definition registry_dump (st : sstate) : list sexp :=
  let R := st_reg st in
  let paths := sort path_leb (flat_map (fun km => m_defpaths (snd km)) (st_modules st)) in
  flat_map (fun p =>
              match reg_get R p with
              | None => []
              | Some it =>
                match it_cat it with
                | Predefined => []
                | c =>
                  let cat := match c with Defined => "defined" | _ => "extern" end in
                  match item_resolved it with
                  | None => [SList [Atom "item"; path_sexp p; Atom cat; Atom "unresolved"; sN 0; sN 0]]
                  | Some rs =>
                    [SList [Atom "item"; path_sexp p; Atom cat;
                            Atom (match rs_inner rs with IType _ => "type" | IEnum _ => "enum" end);
                            sN (rs_size rs); sN (rs_align rs)]]
                  end
                end
              end) paths.

Definition run_model (ptr : N) (ks : list N) (mods : list (path * gmodule)) : sexp :=
  match pyxis_resolve (hook_schedule ks) ptr mods with
  | BErr m => SList [Atom "model"; SList [Atom "verdict"; SList [Atom "err"; Str m]]]
  | BPanic m => SList [Atom "model"; SList [Atom "verdict"; SList [Atom "panic"; Str m]]]
  | BFuel => SList [Atom "model"; SList [Atom "verdict"; SList [Atom "panic"; Str "model: resolution fuel exhausted"]]]
  | BNoProgress l =>
    SList [Atom "model"; SList [Atom "verdict"; SList (Atom "noprogress" :: map path_sexp (sort path_leb l))]]
  | BOk st =>
    match write_all st with
    | Ok files =>
      SList [Atom "model"; SList [Atom "verdict"; Atom "ok"];
             SList (Atom "files" :: map (fun f => SList [Atom "f"; Str (fst f); snd f]) files);
             SList (Atom "registry" :: registry_dump st)]
    | Err m => SList [Atom "model"; SList [Atom "verdict"; SList [Atom "err"; Str ("emit: " +++ m)]];
                      SList (Atom "registry" :: registry_dump st)]
    | Panic m => SList [Atom "model"; SList [Atom "verdict"; SList [Atom "panic"; Str ("emit: " +++ m)]];
                        SList (Atom "registry" :: registry_dump st)]
    | Defer => SList [Atom "model"; SList [Atom "verdict"; SList [Atom "panic"; Str "model: defer in emit"]]]
    end
  end.

Definition case_of_sexp (e : sexp) : option (N * list N * list (path * gmodule)) :=
  match tagged "case" e with
  | None => None
  | Some fields =>
    olet ptr <- match field "ptr" fields with Some [n] => atom_N n | _ => None end;
    olet ks <- match field "schedule" fields with Some l => omap atom_N l | None => Some [] end;
    olet mods <- match field "modules" fields with
                 | Some l => omap (fun m => match m with
                                            | SList [p; md] => olet p' <- path_of_sexp p;
                                                               olet m' <- gmodule_of_sexp md; Some (p', m')
                                            | _ => None end) l
                 | None => None
                 end;
    Some (ptr, ks, mods)
  end.

(** C03: the spec ([realisableb]) and the arithmetic core ([acceptb]) on an abstract description:
    (c03 (ptr N) (size none|N) (align none|N) (packed 0|1) (fields (ADDR SZ AL ZARR) ...)) *)
Definition optN_of_sexp (e : sexp) : option (option N) :=
  match e with Atom "none" => Some None | _ => option_map Some (atom_N e) end.
Definition c03_field_of_sexp (e : sexp) : option C03Core.field :=
  match e with
  | SList [a; s; al; z] =>
    olet a' <- optN_of_sexp a; olet s' <- atom_N s; olet al' <- atom_N al; olet z' <- atom_N z;
    Some {| C03Core.addr := a'; C03Core.sz := s'; C03Core.al := al'; C03Core.zarr := negb (N.eqb z' 0) |}
  | _ => None
  end.
Definition run_c03 (fields : list sexp) : sexp :=
  match (olet ptr <- match field "ptr" fields with Some [n] => atom_N n | _ => None end;
         olet size <- match field "size" fields with Some [n] => optN_of_sexp n | _ => None end;
         olet align <- match field "align" fields with Some [n] => optN_of_sexp n | _ => None end;
         olet packed <- match field "packed" fields with Some [n] => atom_N n | _ => None end;
         olet fs <- match field "fields" fields with Some l => omap c03_field_of_sexp l | None => None end;
         let pk := negb (N.eqb packed 0) in
         Some (C03Core.acceptb ptr fs size align pk, C03Core.realisableb ptr fs size align pk)) with
  | Some (a, r) => SList [Atom "c03"; Atom (if a then "1" else "0"); Atom (if r then "1" else "0")]
  | None => SList [Atom "c03"; Atom "bad_case"]
  end.

Definition run_case_sexp (e : sexp) : sexp :=
  match tagged "c03" e with Some fields => run_c03 fields | None =>
  match case_of_sexp e with
  | Some (ptr, ks, mods) => run_model ptr ks mods
  | None => SList [Atom "model"; SList [Atom "bad_case"]]
  end end.

(** text in, text out: one result line per case *)
Definition run_cases (input : string) : list string :=
  match parse_sexps input with
  | Some cases => map (fun c => print_sexp (run_case_sexp c)) cases
  | None => ["(model (bad_input))"]
  end.
