(** * C03, the whole [type_build], for descriptions WITH a [vftable { .. }] block
    (and, as in C03Bases.v, [#[base]] fields, an impl block, the [defaultable] marker).

    What the code does with a vftable block (first statement of the type):
      1. the functions of the block are converted ([convert_functions]); this fails on a negative
         [index]/[size] value, an index below the function's position, a [size] below the slot count,
         or a function that does not convert ([fn_okb .. true]);
      2. the item [<Type>Vftable] is REGISTERED ([add_item]): the state changes, and every later
         registry read of the attempt (sizes, alignments, base definitions, the impl functions'
         types) is made in the extended registry [R'];
      3. if the first base has a vftable of its own, the block must repeat it as a prefix, and the
         pointer is shared (no new region); otherwise a private region [vftable : *const <Type>Vftable]
         of pointer size and alignment is laid out FIRST;
      4. then exactly the layout and post-processing of C03Bases.v, in [R'].

    So: accepted iff the attributes are well formed, the block converts ([vtable_okb]), the member
    list [vftable pointer (if not shared) :: fields] is [realisable], and the extras hold
    ([vft_extras_okb]: the base/prefix conditions, the impl block, the [defaultable] check -- a type
    with its own vftable pointer is never defaultable, a pointer has no default).

    The class ([class_vft_okb st p v d]) is as in C03Bases.v, with sizes read in [R']; in addition
    the pointer size is a power of two in usize and the first base is not an unresolved item.
    [vft_fresh_sizes] shows that when the generated name is fresh ([reg_has R vp = false]) the sizes
    and alignments of the fields are the ones of the registry before the attempt. *)
From Coq Require Import List NArith ZArith Bool Lia String.
From PyxisModel Require Import Base Grammar SemTypes Registry Sem RustLayout LayoutLemmas SemLemmas PlacementLemmas
     FunctionLemmas VftableLemmas ScopeLemmas EmitLemmas WholeBuild WholeBuildMore Examples
     C03Whole C03Tail C03Bases.
From PyxisModel Require C03Core C03Refine.
Import ListNotations.
Local Open Scope N_scope.
Module C := C03Core.
Module CR := C03Refine.
Arguments N.add : simpl never. Arguments N.mul : simpl never. Arguments N.sub : simpl never.
Arguments N.modulo : simpl never. Arguments N.div : simpl never. Arguments N.gcd : simpl never.

(** ** A. the "last [name(<int>)] attribute" scans, decided *)
Lemma scan_int_attr_step name acc a :
  if int_attr_ok [name] a
  then scan_int_attr name acc a = Ok (match int_attr name a with Some z => Some (Z.to_N z) | None => acc end)
  else exists msg, scan_int_attr name acc a = Err msg.
Proof.
  unfold int_attr_ok, scan_int_attr, int_attr. cbn [existsb].
  destruct a as [n|n [|[v|?|?] [|? ?]]|k e]; try reflexivity.
  rewrite orb_false_r. destruct (String.eqb n name); [|reflexivity].
  destruct (0 <=? v)%Z eqn:Ev; [rewrite (z_to_usize_ok _ Ev); reflexivity | rewrite (z_to_usize_neg _ Ev); eauto].
Qed.

Lemma scan_int_attrs_dec name : forall attrs acc,
  if forallb (int_attr_ok [name]) attrs
  then foldM (scan_int_attr name) attrs acc =
       Ok (match last_int name attrs with Some z => Some (Z.to_N z) | None => acc end)
  else exists msg, foldM (scan_int_attr name) attrs acc = Err msg.
Proof.
  induction attrs as [|a attrs IH]; intros acc; cbn [forallb foldM]; [reflexivity|].
  pose proof (scan_int_attr_step name acc a) as Hs.
  destruct (int_attr_ok [name] a); cbn [andb].
  - rewrite Hs. cbn [bind]. specialize (IH (match int_attr name a with Some z => Some (Z.to_N z) | None => acc end)).
    destruct (forallb _ attrs); [|exact IH]. rewrite IH, last_int_cons.
    destruct (last_int name attrs); [reflexivity|]. destruct (int_attr name a); reflexivity.
  - destruct Hs as [msg Hm]. rewrite Hm. cbn [bind]. eauto.
Qed.

(** ** B. the functions of the block *)
Definition fn_idx (f : gfunction) : option N := nat_attr "index" (gf_attrs f).
Definition slot_of (len : N) (f : gfunction) : N := match fn_idx f with Some i => i | None => len end.
Definition vfunc_okb (R : registry) (scope : list path) (len : N) (f : gfunction) : bool :=
  forallb (int_attr_ok ["index"%string]) (gf_attrs f) && negb (slot_of len f <? len) && fn_okb R scope true f.
Fixpoint vfuncs_okb (R : registry) (scope : list path) (len : N) (fs : list gfunction) : bool :=
  match fs with
  | [] => true
  | f :: r => vfunc_okb R scope len f && vfuncs_okb R scope (slot_of len f + 1) r
  end.
Fixpoint vfuncs_len (len : N) (fs : list gfunction) : N :=
  match fs with [] => len | f :: r => vfuncs_len (slot_of len f + 1) r end.

Lemma convert_one_dec R scope out f :
  if vfunc_okb R scope (N.of_nat (List.length out)) f
  then exists out', convert_one R scope out f = Ok out' /\
                    N.of_nat (List.length out') = slot_of (N.of_nat (List.length out)) f + 1
  else exists msg, convert_one R scope out f = Err msg.
Proof.
  unfold vfunc_okb, convert_one, scan_index_attr, slot_of, fn_idx, nat_attr.
  pose proof (scan_int_attrs_dec "index" (gf_attrs f) None) as Hs.
  destruct (forallb _ (gf_attrs f)); cbn [andb].
  2:{ destruct Hs as [msg ->]. cbn [bind]. eauto. }
  rewrite Hs. cbn [bind].
  pose proof (function_build_dec R scope true f) as Hf.
  destruct (last_int "index" (gf_attrs f)) as [z|]; cbn [option_map].
  - destruct (Z.to_N z <? N.of_nat (List.length out)) eqn:E; cbn [negb andb bind]; [eauto|].
    destruct (fn_okb R scope true f).
    + destruct Hf as (sf & -> & _). cbn [bind]. eexists. split; [reflexivity|].
      rewrite app_length. cbn [List.length]. destruct (pad_to_spec (Z.to_N z) out) as [_ Hl]. lia.
    + destruct Hf as [msg ->]. cbn [bind]. eauto.
  - rewrite N.ltb_irrefl. cbn [negb andb bind].
    destruct (fn_okb R scope true f).
    + destruct Hf as (sf & -> & _). cbn [bind]. eexists. split; [reflexivity|].
      rewrite app_length. cbn [List.length]. lia.
    + destruct Hf as [msg ->]. cbn [bind]. eauto.
Qed.

Lemma convert_fold_dec R scope : forall fs out,
  if vfuncs_okb R scope (N.of_nat (List.length out)) fs
  then exists out', foldM (convert_one R scope) fs out = Ok out' /\
                    N.of_nat (List.length out') = vfuncs_len (N.of_nat (List.length out)) fs
  else exists msg, foldM (convert_one R scope) fs out = Err msg.
Proof.
  induction fs as [|f fs IH]; intros out; cbn [vfuncs_okb vfuncs_len foldM]; [eauto|].
  pose proof (convert_one_dec R scope out f) as H1.
  destruct (vfunc_okb R scope (N.of_nat (List.length out)) f); cbn [andb].
  - destruct H1 as (out1 & -> & Hl). cbn [bind]. specialize (IH out1). rewrite Hl in IH. exact IH.
  - destruct H1 as [msg ->]. cbn [bind]. eauto.
Qed.

(** the whole block: its [size] attribute and its functions *)
Definition vtable_okb (R : registry) (scope : list path) (sattrs : list gattr) (fs : list gfunction) : bool :=
  forallb (int_attr_ok ["size"%string]) sattrs && vfuncs_okb R scope 0 fs &&
  match nat_attr "size" sattrs with Some s => negb (s <? vfuncs_len 0 fs) | None => true end.
Definition vft_first (R : registry) (scope : list path) (sattrs : list gattr) (fs : list gfunction)
  : outcome (list sfunction) :=
  do sz <- foldM scan_vftable_size_attr sattrs None; convert_functions R scope sz fs.

Theorem vtable_dec R scope sattrs fs :
  if vtable_okb R scope sattrs fs then exists out, vft_first R scope sattrs fs = Ok out
  else exists msg, vft_first R scope sattrs fs = Err msg.
Proof.
  unfold vtable_okb, vft_first, scan_vftable_size_attr, convert_functions, nat_attr.
  pose proof (scan_int_attrs_dec "size" sattrs None) as Hs.
  destruct (forallb _ sattrs); cbn [andb].
  2:{ destruct Hs as [msg ->]. cbn [bind]. eauto. }
  rewrite Hs. cbn [bind].
  pose proof (convert_fold_dec R scope fs []) as Hf. cbn [List.length N.of_nat] in Hf.
  destruct (vfuncs_okb R scope 0 fs); cbn [andb].
  2:{ destruct Hf as [msg ->]. cbn [bind]. eauto. }
  destruct Hf as (out & -> & Hl). cbn [bind]. rewrite Hl.
  destruct (last_int "size" sattrs) as [z|]; cbn [option_map]; [|eauto].
  destruct (Z.to_N z <? vfuncs_len 0 fs); cbn [negb]; eauto.
Qed.

Lemma process_vft_stmt R scope s0 gfs :
  gs_field s0 = GVftable gfs ->
  process_statement R scope (O, ([], None)) s0 =
  do out <- vft_first R scope (gs_attrs s0) gfs; Ok (1%nat, ([], Some out)).
Proof.
  intros H. unfold process_statement, vft_first. rewrite H. cbn [Nat.eqb negb].
  destruct (foldM scan_vftable_size_attr (gs_attrs s0) None); cbn [bind]; reflexivity.
Qed.

(** ** C. the vftable step with a block *)
Definition vt_ptr_ty (vp : path) : stype := TConstPtr (TRaw vp).
Definition own_region (vp : path) : region := vftable_region_of (vt_ptr_ty vp).
Definition own_vt (out : list sfunction) (vp : path) : tvftable :=
  {| vt_functions := out; vt_base_field := None; vt_type := vt_ptr_ty vp |}.

(** does the type get a vftable pointer of its own (rather than sharing its first base's) *)
Definition own_ptr (R' : registry) (fb : option region) : bool :=
  match fb with
  | Some b => match base_def R' b with
              | Some (_, td) => match td_vftable td with Some _ => false | None => true end
              | None => true
              end
  | None => true
  end.

(** [None]: the step fails *)
Definition vt_step (R' : registry) (fb : option region) (out : list sfunction) (vp : path)
  : option (option tvftable) :=
  match fb with
  | None => Some (Some (own_vt out vp))
  | Some b =>
    match base_def R' b with
    | None => None
    | Some (name, td) =>
      match td_vftable td with
      | None => Some (Some (own_vt out vp))
      | Some bvt =>
        if (List.length out <? List.length (vt_functions bvt))%nat then None
        else if negb (prefix_equal (vt_functions bvt) out) then None
        else Some (Some {| vt_functions := out; vt_base_field := Some name; vt_type := vt_ptr_ty vp |})
      end
    end
  end.

Lemma vftable_build_some_dec st owner v fb out vit st' :
  vftable_item (st_reg st) owner v out = Some vit -> add_item st vit = Ok st' ->
  (forall b, fb = Some b -> CR.known (st_reg st') b) ->
  match vt_step (st_reg st') fb out (it_path vit) with
  | Some vt => vftable_build st owner v fb (Some out) =
               Ok (st', vt, if own_ptr (st_reg st') fb then Some (own_region (it_path vit)) else None)
  | None => exists msg, vftable_build st owner v fb (Some out) = Err msg
  end.
Proof.
  intros Hvit Hadd Hk. unfold vftable_build, vt_step, own_ptr. rewrite Hvit, Hadd. cbn [bind].
  unfold opt_region_name_and_vftable. destruct fb as [b|]; [|reflexivity].
  pose proof (base_def_dec _ b (Hk b eq_refl)) as Hd.
  destruct (base_def (st_reg st') b) as [[name td]|].
  - rewrite Hd. cbn [bind]. destruct (td_vftable td) as [bvt|]; cbn [option_map]; [|reflexivity].
    destruct (_ <? _)%nat; [eauto|]. destruct (negb _); [eauto|]. reflexivity.
  - destruct Hd as [msg ->]. cbn [bind]. eauto.
Qed.

Lemma vftable_path_of p parent : path_parent p = Some parent ->
  exists name, vftable_path p = Some (path_join parent (name +++ "Vftable")).
Proof.
  unfold vftable_path, path_last, path_parent. destruct p as [|x p]; [discriminate|].
  intros H. inversion H. eexists. reflexivity.
Qed.
Lemma path_parent_join parent x : path_parent (path_join parent x) = Some parent.
Proof.
  unfold path_parent, path_join. destruct (parent ++ [x])%list eqn:E; [destruct parent; discriminate|].
  rewrite <- E, removelast_last. reflexivity.
Qed.

Definition vft_state (st : sstate) (p : path) (v : vis) (out : list sfunction) : option (sstate * path) :=
  match vftable_item (st_reg st) p v out with
  | Some vit => match add_item st vit with Ok st' => Some (st', it_path vit) | _ => None end
  | None => None
  end.

Lemma vft_state_some st p v out parent m :
  path_parent p = Some parent -> alookup parent (st_modules st) = Some m ->
  exists vit st', vftable_item (st_reg st) p v out = Some vit /\ add_item st vit = Ok st' /\
                  vft_state st p v out = Some (st', it_path vit).
Proof.
  intros Hpar Hmod. destruct (vftable_path_of _ _ Hpar) as [name Hvp].
  unfold vft_state, vftable_item. rewrite Hvp. eexists. eexists. split; [reflexivity|].
  unfold add_item. cbn [it_path]. rewrite path_parent_join, Hmod. split; reflexivity.
Qed.

(** ** D. the engine: [type_build] from the vftable step on, for any outcome of that step *)
Definition region_sized (R : registry) (r : region) : bool :=
  match size_of R (r_type r), align_of R (r_type r) with
  | Some _, Some a => C.is_pow2b a && (a <=? usize_max)
  | _, _ => false
  end.
Lemma region_sized_facts R r : region_sized R r = true -> CR.known R r /\ CR.okP (region_sa R r).
Proof.
  unfold region_sized, CR.known, CR.okP, region_sa.
  destruct (size_of R (r_type r)); [|discriminate]. destruct (align_of R (r_type r)); [|discriminate].
  intros H. apply andb_prop in H as [Hp Hl]. apply C.is_pow2b_spec in Hp. apply N.leb_le in Hl.
  cbn [fst snd]. repeat split; try discriminate; assumption.
Qed.

Definition post_okb (R' : registry) (scope : list path) (impl : option gfnblock) (dflt : bool)
           (pending : list (option N * region)) (vt : option tvftable) (rs0 : list region) : bool :=
  let bases := filter (kept_base R') (map snd pending) in
  forallb (base_okb R') bases &&
  match impl with
  | Some blk => impl_fns_okb R' scope (snd (inject_pure R' bases O ([], vt_names vt))) (gb_fns blk)
  | None => true
  end &&
  (negb dflt || (forallb (type_defaultable R') (map r_type rs0) &&
                 forallb (kept_defaultable R') (map snd pending))).

Section Engine.
  Variables (st st' : sstate) (p : path) (v : vis) (d : gtypedef) (parent : path) (m : smodule).
  Variables (doc : option string) (ta : type_attrs) (n : nat)
            (pending : list (option N * region)) (vfs : option (list sfunction)).
  Variables (vt : option tvftable) (vr : option region) (rs0 : list region) (last0 : N).
  Let R := st_reg st.
  Let R' := st_reg st'.
  Let scope := module_scope m.
  Let impl := alookup p (m_impls m).
  Let fb := find r_is_base (map snd pending).
  Hypothesis Hpar : path_parent p = Some parent.
  Hypothesis Hmod : alookup parent (st_modules st) = Some m.
  Hypothesis Hdoc : attrs_doc (gt_attrs d) = Ok doc.
  Hypothesis Hta : foldM scan_type_attr (gt_attrs d) ta_init = Ok ta.
  Hypothesis Hst : foldM (process_statement R scope) (gt_stmts d) (O, ([], None)) = Ok (n, (pending, vfs)).
  Hypothesis Hfbu : first_base_unresolved R fb = false.
  Hypothesis Hvb : vftable_build st p v fb vfs = Ok (st', vt, vr).
  Hypothesis Hacc0 : match vr with
                     | Some r => defer_opt (regions_push R' ([], 0) r)
                     | None => Ok ([], 0)
                     end = Ok (rs0, last0).
  Hypothesis Hu8 : reg_u8 R'.
  Hypothesis Hu8a : align_of R' (TRaw ["u8"%string]) = Some 1.
  Hypothesis Hk0 : Forall (CR.known R') rs0.
  Hypothesis Hok0 : Forall CR.okP (CR.absr R' rs0).
  Hypothesis Hl0 : last0 = total 0 (CR.absr R' rs0).
  Hypothesis Hk : Forall (fun q => CR.known R' (snd q)) pending.
  Hypothesis Hok : Forall (fun q => CR.okP (region_sa R' (snd q))) pending.
  Hypothesis Hfit : CR.all_fit R' last0 pending.
  Hypothesis Hts : forall t, ta_size ta = Some t -> t <= usize_max.
  Hypothesis Hu8d : ta_defaultable ta = true -> u8_dflt R' = true.

  Lemma engine_resolve :
    resolve_regions st p v (ta_size ta) pending vfs =
    do y <- resolve_tail R' (ta_size ta) pending (rs0, last0); Ok (st', fst y, vt, snd y).
  Proof.
    rewrite resolve_regions_unfold. fold fb R. rewrite Hfbu, Hvb. cbn [bind fst snd]. fold R'.
    rewrite Hacc0. reflexivity.
  Qed.

  Theorem engine_decision :
    match accept_from (CR.absr R' rs0, last0) (reg_ptr R') (map (CR.absf R') pending)
                      (ta_size ta) (ta_align ta) (ta_packed ta) with
    | Some (total, a) =>
      if post_okb R' scope impl (ta_defaultable ta) pending vt rs0
      then exists r, type_build st p v d = (st', Ok r) /\ rs_size r = total /\ rs_align r = a
      else exists msg, type_build st p v d = (st', Err msg)
    | None => exists s msg, type_build st p v d = (s, Err msg)
    end.
  Proof.
    pose proof engine_resolve as Hrr.
    pose proof (tail_refines R' Hu8 Hu8a ta pending rs0 last0 Hk0 Hok0 Hl0 Hk Hok Hfit Hts) as Hdec.
    assert (Forall (CR.known R') (map snd pending)) as Hkr by (apply Forall_map; exact Hk).
    assert (Hverdict : forall regions total,
      resolve_tail R' (ta_size ta) pending (rs0, last0) = Ok (regions, total) ->
      match compute_alignment R' ta regions total with
      | Ok a => if post_okb R' scope impl (ta_defaultable ta) pending vt rs0
                then exists r, type_build st p v d = (st', Ok r) /\ rs_size r = total /\ rs_align r = a
                else exists msg, type_build st p v d = (st', Err msg)
      | Err _ => exists msg, type_build st p v d = (st', Err msg)
      | _ => True
      end).
    { intros regions total Htail. rewrite Htail in Hrr. cbn [bind fst snd] in Hrr.
      pose proof (type_build_eval_post st p v d parent m doc ta _ pending vfs st' regions vt total
                                       Hpar Hmod Hdoc Hta Hst Hrr) as Htb.
      fold R' scope impl in Htb.
      pose proof (resolve_regions_bases _ _ _ _ _ _ _ _ _ _ Hrr) as Hbases. fold R' in Hbases.
      assert (Forall (CR.known R') (filter r_is_base regions)) as Hkb.
      { rewrite Hbases. apply Forall_forall. intros r Hr.
        apply filter_In in Hr as [Hr _]. rewrite Forall_forall in Hkr. auto. }
      pose proof (post_dec R' scope impl doc ta regions vt total Hkb) as Hp. cbv zeta in Hp.
      rewrite Hbases in Hp. rewrite Htb.
      assert ((negb (ta_defaultable ta) || forallb (type_defaultable R') (map r_type regions)) =
              (negb (ta_defaultable ta) || (forallb (type_defaultable R') (map r_type rs0) &&
                                            forallb (kept_defaultable R') (map snd pending)))) as Edflt.
      { destruct (ta_defaultable ta); [|reflexivity]. cbn [negb orb]. specialize (Hu8d eq_refl).
        destruct (resolve_tail_types R' _ _ _ _ _ _ Htail) as (T1 & T2 & T3).
        apply eq_true_iff_eq. rewrite andb_true_iff, !forallb_forall. split.
        - intros H. split.
          + intros t Ht. apply in_map_iff in Ht as (x & <- & Hx). apply H, T2, Hx.
          + intros r Hr. unfold kept_defaultable. destruct (ignored R' r) eqn:Ei; [reflexivity|]. cbn [orb].
            apply in_map_iff in Hr as (q & <- & Hq). apply H. apply T3; assumption.
        - intros [H0 H] t Ht. destruct (T1 t Ht) as [Hin|[[k ->]|(q & Hq & -> & Hi)]].
          + apply H0, Hin.
          + rewrite padding_defaultable. exact Hu8d.
          + specialize (H (snd q) (in_map snd _ _ Hq)). unfold kept_defaultable in H. rewrite Hi in H. exact H. }
      rewrite Edflt in Hp. unfold post_okb. cbv zeta.
      destruct (compute_alignment R' ta regions total) as [a| |msg|]; auto.
      - destruct (_ && _ && _).
        + destruct Hp as (r & -> & H1 & H2). eauto.
        + destruct Hp as [msg ->]. eauto.
      - destruct Hp as [msg' ->]. eauto. }
    destruct (accept_from _ _ _ _ _ _) as [[total a]|].
    - destruct Hdec as (regions & Htail & Hca). specialize (Hverdict regions total Htail).
      rewrite Hca in Hverdict. exact Hverdict.
    - destruct Hdec as [[msg Htail]|(regions & total & msg & Htail & Hca)].
      + exists st, msg. eapply type_build_regions_err; eauto. fold R scope. rewrite Hrr, Htail. reflexivity.
      + specialize (Hverdict regions total Htail). rewrite Hca in Hverdict.
        destruct Hverdict as [msg' Hm]. eauto.
  Qed.
End Engine.

(** ** E. the class and the conditions *)
Definition ptr_field (ptr : N) : C.field := {| C.addr := None; C.sz := ptr; C.al := ptr; C.zarr := false |}.

(** the statements of a description that starts with a vftable block *)
Definition vft_stmt (d : gtypedef) : option (list gattr * list gfunction * list gstatement) :=
  match gt_stmts d with
  | s0 :: rest => match gs_field s0 with
                  | GVftable gfs => Some (gs_attrs s0, gfs, rest)
                  | GField _ _ _ => None
                  end
  | [] => None
  end.

Definition vft_pending (R : registry) (scope : list path) (rest : list gstatement) : list (option N * region) :=
  map (entry R scope) rest.
Definition vft_fb (R : registry) (scope : list path) (rest : list gstatement) : option region :=
  find r_is_base (map snd (vft_pending R scope rest)).

(** the member list: the pointer (unless shared with the first base), then the fields; names
    resolved in [R] (before the attempt), sizes read in [R'] (with the vftable item) *)
Definition vft_fields_of (R R' : registry) (scope : list path) (rest : list gstatement) : list C.field :=
  (if own_ptr R' (vft_fb R scope rest) then [ptr_field (reg_ptr R')] else []) ++
  map (CR.absf R') (vft_pending R scope rest).

Definition vft_body_okb (R R' : registry) (scope : list path) (rest : list gstatement) (d : gtypedef) : bool :=
  forallb (plain_field R scope) rest && u8_ok R' &&
  C.is_pow2b (reg_ptr R') && (reg_ptr R' <=? usize_max) &&
  negb (first_base_unresolved R (vft_fb R scope rest)) &&
  forallb (region_sized R') (map snd (vft_pending R scope rest)) &&
  fields_fit 0 (vft_fields_of R R' scope rest) && size_fits (declared_size d) &&
  (negb (is_defaultable d) || u8_dflt R').

Definition vft_out (R : registry) (scope : list path) (sattrs : list gattr) (gfs : list gfunction)
  : option (list sfunction) :=
  match vft_first R scope sattrs gfs with Ok out => Some out | _ => None end.

(** the state and the generated item's path after the vftable step (when the block converts) *)
Definition vft_after (st : sstate) (p : path) (v : vis) (d : gtypedef) : option (sstate * path) :=
  match owner_module st p, vft_stmt d with
  | Some m, Some (sattrs, gfs, _) =>
    match vft_out (st_reg st) (module_scope m) sattrs gfs with
    | Some out => vft_state st p v out
    | None => None
    end
  | _, _ => None
  end.

Definition class_vft_okb (st : sstate) (p : path) (v : vis) (d : gtypedef) : bool :=
  match owner_module st p, vft_stmt d with
  | Some m, Some (sattrs, gfs, rest) =>
    match vft_out (st_reg st) (module_scope m) sattrs gfs with
    | None => true      (* the block does not convert: rejected whatever follows *)
    | Some out =>
      match vft_state st p v out with
      | Some (st', _) => vft_body_okb (st_reg st) (st_reg st') (module_scope m) rest d
      | None => false
      end
    end
  | _, _ => false
  end.

(** attributes: the type's, and those of the FIELD statements (the block's own attributes are
    read by [vtable_okb]; its [doc] is not read at all) *)
Definition attrs_vft_okb (d : gtypedef) : bool :=
  docs_ok (gt_attrs d) && type_attrs_ok (gt_attrs d) && forallb stmt_attrs_ok (tl (gt_stmts d)).

Definition vtable_okb_of (st : sstate) (p : path) (d : gtypedef) : bool :=
  match owner_module st p, vft_stmt d with
  | Some m, Some (sattrs, gfs, _) => vtable_okb (st_reg st) (module_scope m) sattrs gfs
  | _, _ => false
  end.

Definition vft_extras_of (R R' : registry) (scope : list path) (impl : option gfnblock)
           (rest : list gstatement) (d : gtypedef) (out : list sfunction) (vp : path) : bool :=
  match vt_step R' (vft_fb R scope rest) out vp with
  | Some vt => post_okb R' scope impl (is_defaultable d) (vft_pending R scope rest) vt
                        (if own_ptr R' (vft_fb R scope rest) then [own_region vp] else [])
  | None => false
  end.

Definition vft_extras_okb (st : sstate) (p : path) (v : vis) (d : gtypedef) : bool :=
  match owner_module st p, vft_stmt d with
  | Some m, Some (sattrs, gfs, rest) =>
    match vft_out (st_reg st) (module_scope m) sattrs gfs with
    | Some out =>
      match vft_state st p v out with
      | Some (st', vp) => vft_extras_of (st_reg st) (st_reg st') (module_scope m) (alookup p (m_impls m)) rest d out vp
      | None => false
      end
    | None => false
    end
  | _, _ => false
  end.

Definition vft_fields (st : sstate) (p : path) (v : vis) (d : gtypedef) : list C.field :=
  match owner_module st p, vft_stmt d, vft_after st p v d with
  | Some m, Some (_, _, rest), Some (st', _) => vft_fields_of (st_reg st) (st_reg st') (module_scope m) rest
  | _, _, _ => []
  end.
Definition vft_ptr (st : sstate) (p : path) (v : vis) (d : gtypedef) : N :=
  match vft_after st p v d with Some (st', _) => reg_ptr (st_reg st') | None => reg_ptr (st_reg st) end.

(** ** F. the decision *)
Lemma own_region_facts R' vp : C.is_pow2b (reg_ptr R') = true -> reg_ptr R' <= usize_max ->
  CR.known R' (own_region vp) /\ region_sa R' (own_region vp) = (reg_ptr R', reg_ptr R') /\
  regions_push R' ([], 0) (own_region vp) = Some ([own_region vp], reg_ptr R') /\
  type_defaultable R' (r_type (own_region vp)) = false.
Proof.
  intros Hp Hl. unfold own_region, vftable_region_of, vt_ptr_ty, CR.known, region_sa, regions_push.
  cbn [r_type size_of align_of stype_is_array fst snd]. rewrite andb_false_r.
  unfold checked_add, fits_usize. rewrite N.add_0_l. apply N.leb_le in Hl. rewrite Hl.
  repeat split; discriminate.
Qed.

Section VftSome.
  Variables (st st' : sstate) (p : path) (v : vis) (d : gtypedef) (parent : path) (m : smodule).
  Variables (s0 : gstatement) (rest : list gstatement) (gfs : list gfunction)
            (out : list sfunction) (vit : item).
  Let R := st_reg st.
  Let R' := st_reg st'.
  Let scope := module_scope m.
  Let impl := alookup p (m_impls m).
  Let vp := it_path vit.
  Hypothesis Hpar : path_parent p = Some parent.
  Hypothesis Hmod : alookup parent (st_modules st) = Some m.
  Hypothesis Hstm : gt_stmts d = s0 :: rest.
  Hypothesis Hs0 : gs_field s0 = GVftable gfs.
  Hypothesis Hout : vft_first R scope (gs_attrs s0) gfs = Ok out.
  Hypothesis Hvit : vftable_item R p v out = Some vit.
  Hypothesis Hadd : add_item st vit = Ok st'.
  Hypothesis Hbody : vft_body_okb R R' scope rest d = true.

  Let fs := vft_fields_of R R' scope rest.

  Theorem vft_decision_some :
    match (if attrs_vft_okb d && vft_extras_of R R' scope impl rest d out vp
           then C.accept (reg_ptr R') fs (declared_size d) (declared_align d) (is_packed d)
           else None) with
    | Some (total, a) =>
      exists r, type_build st p v d = (st', Ok r) /\ rs_size r = total /\ rs_align r = a
    | None => exists s msg, type_build st p v d = (s, Err msg)
    end.
  Proof.
    unfold vft_body_okb in Hbody.
    apply andb_prop in Hbody as [Hb Hu8d]. apply andb_prop in Hb as [Hb Hsf]. apply andb_prop in Hb as [Hb Hff].
    apply andb_prop in Hb as [Hb Hsz]. apply andb_prop in Hb as [Hb Hfbu]. apply andb_prop in Hb as [Hb Hpl].
    apply andb_prop in Hb as [Hb Hpp]. apply andb_prop in Hb as [Hpf Hu].
    apply negb_true_iff in Hfbu. apply N.leb_le in Hpl.
    destruct (u8_ok_sound _ Hu) as [Hu8 Hu8a].
    unfold attrs_vft_okb. rewrite Hstm. cbn [tl].
    (* documentation of the type *)
    pose proof (attrs_doc_dec (gt_attrs d)) as Hdoc.
    destruct (docs_ok (gt_attrs d)); cbn [andb].
    2:{ destruct Hdoc as [msg Hm]. exists st, msg. eapply type_build_doc_err; eauto. }
    destruct Hdoc as [doc Hdoc].
    (* attributes of the type *)
    pose proof (scan_type_attrs_spec (gt_attrs d) ta_init) as Hta.
    destruct (type_attrs_ok (gt_attrs d)); cbn [andb].
    2:{ destruct Hta as [msg Hm]. exists st, msg. eapply type_build_attr_err; eauto. }
    destruct Hta as (ta & Hta & Hsz' & Hal). cbn [ta_init ta_size ta_align] in Hsz', Hal.
    destruct (scan_type_attrs_flags _ _ _ Hta) as (_ & _ & Hdef & Hpk).
    cbn [ta_init ta_defaultable ta_packed orb] in Hdef, Hpk.
    assert (ta_size ta = declared_size d) as Esz
        by (unfold declared_size, nat_attr; rewrite Hsz'; destruct (last_int "size" (gt_attrs d)); reflexivity).
    assert (ta_align ta = declared_align d) as Eal
        by (unfold declared_align, nat_attr; rewrite Hal; destruct (last_int "align" (gt_attrs d)); reflexivity).
    assert (ta_packed ta = is_packed d) as Epk by exact Hpk.
    assert (ta_defaultable ta = is_defaultable d) as Edf by exact Hdef.
    (* statements *)
    pose proof (process_statements_spec R scope rest 1%nat [] (Some out) Hpf) as Hst.
    assert (foldM (process_statement R scope) (gt_stmts d) (O, ([], None)) =
            foldM (process_statement R scope) rest (1%nat, ([], Some out))) as Hst0.
    { rewrite Hstm. cbn [foldM]. rewrite (process_vft_stmt R scope s0 gfs Hs0), Hout. reflexivity. }
    destruct (forallb stmt_attrs_ok rest); cbn [andb].
    2:{ destruct Hst as [msg Hm]. exists st, msg. eapply type_build_stmt_err; eauto. fold R scope. rewrite Hst0. exact Hm. }
    cbn [app] in Hst. rewrite <- Hst0 in Hst. fold (vft_pending R scope rest) in Hst.
    set (pending := vft_pending R scope rest) in *.
    (* hypotheses of the refinement *)
    rewrite forallb_forall in Hsz.
    assert (Forall (fun q => CR.known R' (snd q)) pending) as Hk.
    { apply Forall_forall. intros q Hq. apply region_sized_facts, Hsz, in_map, Hq. }
    assert (Forall (fun q => CR.okP (region_sa R' (snd q))) pending) as Hok.
    { apply Forall_forall. intros q Hq. apply region_sized_facts, Hsz, in_map, Hq. }
    assert (forall t, ta_size ta = Some t -> t <= usize_max) as Hts.
    { intros t Ht. rewrite Esz in Ht. unfold size_fits in Hsf. rewrite Ht in Hsf. apply N.leb_le. exact Hsf. }
    assert (ta_defaultable ta = true -> u8_dflt R' = true) as Hu8d'.
    { intros Ht. rewrite Edf in Ht. rewrite Ht in Hu8d. exact Hu8d. }
    (* the vftable step *)
    unfold vft_fb in *. fold pending in Hfbu, fs. set (fb := find r_is_base (map snd pending)) in *.
    assert (forall b, fb = Some b -> CR.known R' b) as Hfbk.
    { intros b Hb. apply find_some in Hb as [Hin _]. apply in_map_iff in Hin as (q & <- & Hq).
      rewrite Forall_forall in Hk. auto. }
    pose proof (vftable_build_some_dec st p v fb out vit st' Hvit Hadd Hfbk) as Hvb. fold R' vp in Hvb.
    unfold vft_extras_of, vft_fb. fold pending fb.
    destruct (vt_step R' fb out vp) as [vt|].
    2:{ destruct Hvb as [msg Hm]. exists st, msg. eapply type_build_regions_err; eauto.
        rewrite resolve_regions_unfold. fold fb R. rewrite Hfbu, Hm. reflexivity. }
    (* the starting accumulator *)
    apply C.is_pow2b_spec in Hpp.
    destruct (own_region_facts R' vp (proj2 (C.is_pow2b_spec _) Hpp) Hpl) as (Hork & Horsa & Horp & Hord).
    set (rs0 := if own_ptr R' fb then [own_region vp] else []) in *.
    set (last0 := if own_ptr R' fb then reg_ptr R' else 0).
    assert (match (if own_ptr R' fb then Some (own_region vp) else None) with
            | Some r => defer_opt (regions_push R' ([], 0) r)
            | None => Ok ([], 0) end = Ok (rs0, last0)) as Hacc0.
    { unfold rs0, last0. destruct (own_ptr R' fb); [rewrite Horp|]; reflexivity. }
    assert (Forall (CR.known R') rs0) as Hk0.
    { unfold rs0. destruct (own_ptr R' fb); repeat constructor; apply Hork. }
    assert (Forall CR.okP (CR.absr R' rs0)) as Hok0.
    { unfold rs0. destruct (own_ptr R' fb); cbn [CR.absr map]; [|constructor].
      rewrite Horsa. constructor; [|constructor]. split; cbn [snd]; assumption. }
    assert (last0 = total 0 (CR.absr R' rs0)) as Hl0.
    { unfold rs0, last0. destruct (own_ptr R' fb); cbn [CR.absr map RustLayout.total]; [|reflexivity].
      rewrite Horsa. cbn [RustLayout.total]. now rewrite N.add_0_l. }
    assert (CR.all_fit R' last0 pending /\
            accept_from (CR.absr R' rs0, last0) (reg_ptr R') (map (CR.absf R') pending)
                        (declared_size d) (declared_align d) (is_packed d) =
            C.accept (reg_ptr R') fs (declared_size d) (declared_align d) (is_packed d)) as [Hfit Hacc].
    { unfold fs, vft_fields_of, vft_fb, rs0, last0. fold pending fb.
      unfold fs, vft_fields_of, vft_fb in Hff. fold pending fb in Hff.
      destruct (own_ptr R' fb); cbn [app] in *.
      - cbn [fields_fit ptr_field C.addr C.sz] in Hff. apply andb_prop in Hff as [_ Hff]. rewrite N.add_0_l in Hff.
        split; [apply fields_fit_all_fit; exact Hff|].
        cbn [CR.absr map]. rewrite Horsa. symmetry. apply (accept_cons_kept (reg_ptr R') (ptr_field (reg_ptr R'))); [reflexivity | apply andb_false_r].
      - split; [apply fields_fit_all_fit; exact Hff|]. symmetry. apply accept_from_nil. }
    pose proof (engine_decision st st' p v d parent m doc ta _ pending (Some out) vt _ rs0 last0
                  Hpar Hmod Hdoc Hta Hst Hfbu Hvb Hacc0 Hu8 Hu8a Hk0 Hok0 Hl0 Hk Hok Hfit Hts Hu8d') as Heng.
    fold R' scope impl in Heng. rewrite Esz, Eal, Epk, Edf, Hacc in Heng.
    destruct (C.accept (reg_ptr R') fs (declared_size d) (declared_align d) (is_packed d)) as [[total a]|].
    - destruct (post_okb R' scope impl (is_defaultable d) pending vt rs0); [exact Heng|].
      destruct Heng as [msg Hm]. eauto.
    - destruct (post_okb R' scope impl (is_defaultable d) pending vt rs0); exact Heng.
  Qed.
End VftSome.

(** the block does not convert: an error at the first statement *)
Lemma vft_decision_none st p v d parent m s0 rest gfs msg :
  path_parent p = Some parent -> alookup parent (st_modules st) = Some m ->
  gt_stmts d = s0 :: rest -> gs_field s0 = GVftable gfs ->
  vft_first (st_reg st) (module_scope m) (gs_attrs s0) gfs = Err msg ->
  exists msg', type_build st p v d = (st, Err msg').
Proof.
  intros Hpar Hmod Hstm Hs0 Hout.
  pose proof (attrs_doc_dec (gt_attrs d)) as Hdoc.
  destruct (docs_ok (gt_attrs d)).
  2:{ destruct Hdoc as [m' Hm]. exists m'. eapply type_build_doc_err; eauto. }
  destruct Hdoc as [doc Hdoc].
  pose proof (scan_type_attrs_spec (gt_attrs d) ta_init) as Hta.
  destruct (type_attrs_ok (gt_attrs d)).
  2:{ destruct Hta as [m' Hm]. exists m'. eapply type_build_attr_err; eauto. }
  destruct Hta as (ta & Hta & _).
  exists msg. eapply type_build_stmt_err; eauto.
  rewrite Hstm. cbn [foldM]. rewrite (process_vft_stmt _ _ s0 gfs Hs0), Hout. reflexivity.
Qed.

(** ** G. the packaged statements *)
Lemma vft_stmt_inv d sattrs gfs rest : vft_stmt d = Some (sattrs, gfs, rest) ->
  exists s0, gt_stmts d = s0 :: rest /\ gs_field s0 = GVftable gfs /\ gs_attrs s0 = sattrs.
Proof.
  unfold vft_stmt. destruct (gt_stmts d) as [|s0 rest']; [discriminate|].
  destruct (gs_field s0) eqn:E; [discriminate|]. intros H. inversion H; subst. eauto.
Qed.

Lemma owner_module_inv st p m : owner_module st p = Some m ->
  exists parent, path_parent p = Some parent /\ alookup parent (st_modules st) = Some m.
Proof. unfold owner_module. destruct (path_parent p) as [parent|]; [|discriminate]. eauto. Qed.

Theorem C03_vft_decision st p v d :
  class_vft_okb st p v d = true ->
  match (if attrs_vft_okb d && vtable_okb_of st p d && vft_extras_okb st p v d
         then C.accept (vft_ptr st p v d) (vft_fields st p v d) (declared_size d) (declared_align d) (is_packed d)
         else None) with
  | Some (total, a) =>
    exists st' vp r, vft_after st p v d = Some (st', vp) /\
                     type_build st p v d = (st', Ok r) /\ rs_size r = total /\ rs_align r = a
  | None => exists s msg, type_build st p v d = (s, Err msg)
  end.
Proof.
  unfold class_vft_okb, vtable_okb_of, vft_extras_okb, vft_fields, vft_ptr, vft_after. intros H.
  destruct (owner_module st p) as [m|] eqn:Hom; [|discriminate].
  destruct (vft_stmt d) as [[[sattrs gfs] rest]|] eqn:Hvs; [|discriminate].
  destruct (owner_module_inv _ _ _ Hom) as (parent & Hpar & Hmod).
  destruct (vft_stmt_inv _ _ _ _ Hvs) as (s0 & Hstm & Hs0 & <-).
  pose proof (vtable_dec (st_reg st) (module_scope m) (gs_attrs s0) gfs) as Hvd.
  unfold vft_out in *.
  destruct (vtable_okb (st_reg st) (module_scope m) (gs_attrs s0) gfs).
  - destruct Hvd as [out Hout]. rewrite Hout in *.
    destruct (vft_state_some st p v out parent m Hpar Hmod) as (vit & st' & Hvit & Hadd & Hvst).
    rewrite Hvst in *. rewrite andb_true_r.
    pose proof (vft_decision_some st st' p v d parent m s0 rest gfs out vit Hpar Hmod Hstm Hs0 Hout Hvit Hadd H) as Hd.
    destruct (attrs_vft_okb d && _); [|exact Hd].
    destruct (C.accept _ _ _ _ _) as [[total a]|]; [|exact Hd].
    destruct Hd as (r & Hr & H1 & H2). exists st', (it_path vit), r. auto.
  - destruct Hvd as [msg Hout]. rewrite andb_false_r. cbn [andb].
    destruct (vft_decision_none st p v d parent m s0 rest gfs msg Hpar Hmod Hstm Hs0 Hout) as [msg' Hm]. eauto.
Qed.

Lemma vft_fields_wf st p v d : class_vft_okb st p v d = true -> C.wf_fields (vft_fields st p v d).
Proof.
  unfold class_vft_okb, vft_fields, vft_after. intros H.
  destruct (owner_module st p) as [m|]; [|constructor].
  destruct (vft_stmt d) as [[[sattrs gfs] rest]|]; [|constructor].
  destruct (vft_out (st_reg st) (module_scope m) sattrs gfs) as [out|]; [|constructor].
  destruct (vft_state st p v out) as [[st' vp]|]; [|constructor].
  unfold vft_body_okb in H.
  apply andb_prop in H as [Hb _]. apply andb_prop in Hb as [Hb _]. apply andb_prop in Hb as [Hb _].
  apply andb_prop in Hb as [Hb Hsz]. apply andb_prop in Hb as [Hb _]. apply andb_prop in Hb as [Hb _].
  apply andb_prop in Hb as [_ Hpp]. apply C.is_pow2b_spec in Hpp.
  unfold vft_fields_of, C.wf_fields. apply Forall_app. split.
  - destruct (own_ptr _ _); constructor; [exact Hpp | constructor].
  - apply Forall_map, Forall_forall. intros q Hq. rewrite forallb_forall in Hsz.
    destruct (region_sized_facts _ _ (Hsz _ (in_map snd _ _ Hq))) as [_ [Hp _]]. exact Hp.
Qed.

Theorem C03_vft_type_build_iff st p v d :
  class_vft_okb st p v d = true ->
  ((exists st' r, type_build st p v d = (st', Ok r)) <->
   attrs_vft_okb d = true /\ vtable_okb_of st p d = true /\
   C.realisable (vft_ptr st p v d) (vft_fields st p v d) (declared_size d) (declared_align d) (is_packed d) /\
   vft_extras_okb st p v d = true).
Proof.
  intros H. pose proof (C03_vft_decision st p v d H) as Hd.
  rewrite <- (C.accept_iff_realisable _ _ _ _ _ (vft_fields_wf _ _ _ _ H)). split.
  - intros (st' & r & Hb).
    destruct (attrs_vft_okb d && vtable_okb_of st p d && vft_extras_okb st p v d) eqn:E.
    + apply andb_prop in E as [E E3]. apply andb_prop in E as [E1 E2].
      destruct (C.accept _ _ _ _ _) as [[total a]|]; [eauto 10|].
      destruct Hd as (s & msg & Hm). rewrite Hb in Hm. inversion Hm.
    + destruct Hd as (s & msg & Hm). rewrite Hb in Hm. inversion Hm.
  - intros (Ha & Hv & [[total a] Hacc] & He). rewrite Ha, Hv, He, Hacc in Hd. cbn [andb] in Hd.
    destruct Hd as (st' & vp & r & _ & Hr & _). eauto.
Qed.

Theorem C03_vft_type_build_size_align st p v d st' r :
  class_vft_okb st p v d = true -> type_build st p v d = (st', Ok r) ->
  (exists vp, vft_after st p v d = Some (st', vp)) /\
  C.accept (vft_ptr st p v d) (vft_fields st p v d) (declared_size d) (declared_align d) (is_packed d)
  = Some (rs_size r, rs_align r).
Proof.
  intros H Hb. pose proof (C03_vft_decision st p v d H) as Hd.
  destruct (attrs_vft_okb d && vtable_okb_of st p d && vft_extras_okb st p v d).
  - destruct (C.accept _ _ _ _ _) as [[total a]|].
    + destruct Hd as (st2 & vp & r2 & Hva & Hr & <- & <-). rewrite Hb in Hr. inversion Hr; subst. eauto.
    + destruct Hd as (s & msg & Hm). rewrite Hb in Hm. inversion Hm.
  - destruct Hd as (s & msg & Hm). rewrite Hb in Hm. inversion Hm.
Qed.

Theorem C03_vft_type_build_rejects_otherwise st p v d :
  class_vft_okb st p v d = true ->
  ~ (attrs_vft_okb d = true /\ vtable_okb_of st p d = true /\
     C.realisable (vft_ptr st p v d) (vft_fields st p v d) (declared_size d) (declared_align d) (is_packed d) /\
     vft_extras_okb st p v d = true) ->
  exists s msg, type_build st p v d = (s, Err msg).
Proof.
  intros H Hn. pose proof (C03_vft_decision st p v d H) as Hd.
  destruct (attrs_vft_okb d && vtable_okb_of st p d && vft_extras_okb st p v d) eqn:E; [|exact Hd].
  destruct (C.accept _ _ _ _ _) as [[total a]|] eqn:Ea; [|exact Hd].
  exfalso. apply Hn. apply andb_prop in E as [E E3]. apply andb_prop in E as [E1 E2].
  split; [exact E1|]. split; [exact E2|]. split; [|exact E3].
  apply (C.accept_iff_realisable _ _ _ _ _ (vft_fields_wf _ _ _ _ H)). eauto.
Qed.

(** a type with a vftable pointer of its own is never accepted as [defaultable] *)
Theorem own_vftable_never_defaultable st p v d :
  class_vft_okb st p v d = true -> is_defaultable d = true ->
  (forall m sattrs gfs rest, owner_module st p = Some m -> vft_stmt d = Some (sattrs, gfs, rest) ->
     vft_fb (st_reg st) (module_scope m) rest = None) ->
  exists s msg, type_build st p v d = (s, Err msg).
Proof.
  intros H Hdf Hnb. apply (C03_vft_type_build_rejects_otherwise _ _ _ _ H). intros (_ & _ & _ & He).
  unfold vft_extras_okb in He.
  destruct (owner_module st p) as [m|] eqn:Hom; [|discriminate].
  destruct (vft_stmt d) as [[[sattrs gfs] rest]|] eqn:Hvs; [|discriminate].
  destruct (vft_out _ _ _ _) as [out|]; [|discriminate].
  destruct (vft_state st p v out) as [[st' vp]|]; [|discriminate].
  unfold vft_extras_of in He. rewrite (Hnb m sattrs gfs rest eq_refl eq_refl) in He. cbn [vt_step own_ptr] in He.
  unfold post_okb in He. rewrite Hdf in He. cbn [negb orb map forallb] in He.
  apply andb_prop in He as [_ He]. apply andb_prop in He as [He _]. apply andb_prop in He as [He _].
  discriminate He.
Qed.

(** ** H. when the generated name is fresh, the fields have the sizes of the registry before *)
Lemma size_align_add R it : reg_has R (it_path it) = false -> forall t,
  Forall (fun q => reg_has R q = true) (stype_paths t) ->
  size_of (reg_add R it) t = size_of R t /\ align_of (reg_add R it) t = align_of R t.
Proof.
  intros Hf. induction t as [q|t IH|t IH|t IH k|c args ret]; intros Hc; cbn [size_of align_of stype_paths] in *.
  - inversion Hc; subst. assert (it_path it <> q) as Hne by (intros E; rewrite E in Hf; congruence).
    rewrite (reg_get_add_other _ _ _ Hne). auto.
  - rewrite reg_ptr_add. auto.
  - rewrite reg_ptr_add. auto.
  - destruct (IH Hc) as [-> ->]. auto.
  - rewrite reg_ptr_add. auto.
Qed.

Theorem vft_fresh_sizes st p v d m sattrs gfs rest st' vp :
  owner_module st p = Some m -> vft_stmt d = Some (sattrs, gfs, rest) ->
  vft_after st p v d = Some (st', vp) ->
  reg_has (st_reg st) ["u8"%string] = true -> reg_has (st_reg st) vp = false ->
  forallb (plain_field (st_reg st) (module_scope m)) rest = true ->
  map (CR.absf (st_reg st')) (vft_pending (st_reg st) (module_scope m) rest) =
  map (abs_field (st_reg st) (module_scope m)) rest /\ reg_ptr (st_reg st') = reg_ptr (st_reg st).
Proof.
  intros Hom Hvs Hva Hu8 Hfresh Hpl. unfold vft_after in Hva. rewrite Hom, Hvs in Hva.
  destruct (vft_out _ _ _ _) as [out|]; [|discriminate].
  unfold vft_state in Hva. destruct (vftable_item (st_reg st) p v out) as [vit|]; [|discriminate].
  destruct (add_item st vit) as [st2| | |] eqn:Hadd; try discriminate. inversion Hva; subst st2 vp.
  rewrite (add_item_reg _ _ _ Hadd). split; [|apply reg_ptr_add].
  unfold vft_pending. rewrite map_map. apply map_ext_in. intros s Hs.
  rewrite forallb_forall in Hpl. specialize (Hpl s Hs).
  unfold plain_field in Hpl. unfold CR.absf, abs_field, entry, region_sa. cbn [fst snd r_type].
  destruct (field_type (st_reg st) (module_scope m) s) as [t|] eqn:Eft; [|discriminate].
  assert (Forall (fun q => reg_has (st_reg st) q = true) (stype_paths t)) as Hc.
  { unfold field_type in Eft. destruct (gs_field s); [|discriminate]. eapply resolve_gtype_paths; eauto. }
  destruct (size_align_add _ vit Hfresh t Hc) as [-> ->].
  destruct (size_of (st_reg st) t), (align_of (st_reg st) t); reflexivity.
Qed.

Print Assumptions vtable_dec.
Print Assumptions engine_decision.
Print Assumptions C03_vft_decision.
Print Assumptions C03_vft_type_build_iff.
Print Assumptions C03_vft_type_build_size_align.
Print Assumptions C03_vft_type_build_rejects_otherwise.
Print Assumptions own_vftable_never_defaultable.
Print Assumptions vft_fresh_sizes.
