(** * ReorderReg (C20, part 1): registration of a module whose definitions are permuted.

    [reordered mods mods']: the same modules under the same paths in the same order; a module of
    [mods'] is the corresponding module of [mods] with its [gm_defs] permuted ([ast_perm]).

    Registration ([input_state]) of the two inputs succeeds or fails together, and the two input
    states are related by [srel]: registries equal as maps with the same pointer width, module
    tables with the same keys in the same order whose modules differ only in the order of
    [gm_defs] (inside [m_ast]) and in the order of [m_defpaths]. *)
From Coq Require Import List NArith ZArith Bool Lia String Permutation.
From PyxisModel Require Import Base Grammar SemTypes Registry Sem SemLemmas ScopeLemmas
     PlacementLemmas TotalityLemmas EmitLemmas WholeBuild Monotone OrderIndep SortUnique
     EmitInvariance FinalState OutputIndep Unrelated.
Import ListNotations.
Local Open Scope string_scope.
Local Open Scope list_scope.

(** ** the relation on inputs *)
Definition ast_perm (a a' : gmodule) : Prop :=
  gm_uses a = gm_uses a' /\ gm_extern_types a = gm_extern_types a' /\
  gm_extern_values a = gm_extern_values a' /\ Permutation (gm_defs a) (gm_defs a') /\
  gm_impls a = gm_impls a' /\ gm_backends a = gm_backends a' /\ gm_attrs a = gm_attrs a'.

Definition reordered (mods mods' : list (path * gmodule)) : Prop :=
  Forall2 (fun pm pm' => fst pm = fst pm' /\ ast_perm (snd pm) (snd pm')) mods mods'.

Lemma ast_perm_refl a : ast_perm a a.
Proof. repeat split; auto. Qed.
Lemma ast_perm_sym a b : ast_perm a b -> ast_perm b a.
Proof. intros (A & B & C & D & E & F & G). repeat split; auto. now apply Permutation_sym. Qed.
Lemma ast_perm_trans a b c : ast_perm a b -> ast_perm b c -> ast_perm a c.
Proof.
  intros (A & B & C & D & E & F & G) (A' & B' & C' & D' & E' & F' & G').
  repeat split; try congruence. eapply Permutation_trans; eauto.
Qed.

Lemma Forall2_refl {A} (P : A -> A -> Prop) : (forall a, P a a) -> forall l, Forall2 P l l.
Proof. intros H. induction l; constructor; auto. Qed.
Lemma Forall2_sym {A} (P : A -> A -> Prop) : (forall a b, P a b -> P b a) ->
  forall l l', Forall2 P l l' -> Forall2 P l' l.
Proof. intros H. induction 1; constructor; auto. Qed.
Lemma Forall2_trans {A} (P : A -> A -> Prop) : (forall a b c, P a b -> P b c -> P a c) ->
  forall l1 l2, Forall2 P l1 l2 -> forall l3, Forall2 P l2 l3 -> Forall2 P l1 l3.
Proof.
  intros H. induction 1 as [|a b l1 l2 Hab _ IH]; intros l3 H3; inversion H3; subst; constructor; eauto.
Qed.

Lemma reordered_refl mods : reordered mods mods.
Proof. apply Forall2_refl. intros a. split; [reflexivity | apply ast_perm_refl]. Qed.
Lemma reordered_sym mods mods' : reordered mods mods' -> reordered mods' mods.
Proof. apply Forall2_sym. intros a b [H1 H2]. split; [now symmetry | now apply ast_perm_sym]. Qed.

(** ** the relation on states *)
Definition mrel (m m' : smodule) : Prop :=
  m_path m = m_path m' /\ ast_perm (m_ast m) (m_ast m') /\ m_impls m = m_impls m' /\
  m_extern_values m = m_extern_values m' /\ m_backends m = m_backends m' /\ m_doc m = m_doc m' /\
  (forall q, In q (m_defpaths m) <-> In q (m_defpaths m')).

Definition mods_srel (ms ms' : list (path * smodule)) : Prop :=
  Forall2 (fun km km' => fst km = fst km' /\ mrel (snd km) (snd km')) ms ms'.

Definition srel (st st' : sstate) : Prop :=
  reg_same (st_reg st) (st_reg st') /\ reg_ptr (st_reg st) = reg_ptr (st_reg st') /\
  mods_srel (st_modules st) (st_modules st').

Lemma mrel_refl m : mrel m m.
Proof. repeat split; auto. Qed.
Lemma mrel_sym m m' : mrel m m' -> mrel m' m.
Proof.
  intros (A & B & C & D & E & F & G). split; [auto|]. split; [now apply ast_perm_sym|].
  repeat split; auto; apply G.
Qed.
Lemma mrel_trans a b c : mrel a b -> mrel b c -> mrel a c.
Proof.
  intros (A & B & C & D & E & F & G) (A' & B' & C' & D' & E' & F' & G').
  split; [congruence|]. split; [eapply ast_perm_trans; eauto|].
  split; [congruence|]. split; [congruence|]. split; [congruence|]. split; [congruence|].
  intros q. rewrite G. apply G'.
Qed.

Lemma mods_srel_refl ms : mods_srel ms ms.
Proof. apply Forall2_refl. intros a. split; [reflexivity | apply mrel_refl]. Qed.
Lemma mods_srel_sym ms ms' : mods_srel ms ms' -> mods_srel ms' ms.
Proof. apply Forall2_sym. intros a b [H1 H2]. split; [now symmetry | now apply mrel_sym]. Qed.
Lemma mods_srel_trans a b c : mods_srel a b -> mods_srel b c -> mods_srel a c.
Proof.
  intros H1 H2. eapply Forall2_trans; [|exact H1 | exact H2].
  intros x y z [X1 X2] [Y1 Y2]. split; [congruence | eapply mrel_trans; eauto].
Qed.

Lemma srel_refl st : srel st st.
Proof. split; [intros p; reflexivity|]. split; [reflexivity | apply mods_srel_refl]. Qed.
Lemma srel_sym st st' : srel st st' -> srel st' st.
Proof. intros (A & B & C). split; [now apply reg_same_sym|]. split; [now symmetry | now apply mods_srel_sym]. Qed.
Lemma srel_trans a b c : srel a b -> srel b c -> srel a c.
Proof.
  intros (A & B & C) (A' & B' & C'). split; [intros p; now rewrite (A p)|].
  split; [congruence | eapply mods_srel_trans; eauto].
Qed.

Lemma mods_srel_keys ms ms' : mods_srel ms ms' -> map fst ms = map fst ms'.
Proof. induction 1 as [|a b l l' [Hk _] _ IH]; cbn [map]; [reflexivity | now rewrite Hk, IH]. Qed.

Lemma mods_srel_lookup ms ms' k : mods_srel ms ms' ->
  match alookup k ms, alookup k ms' with
  | Some m, Some m' => mrel m m'
  | None, None => True
  | _, _ => False
  end.
Proof.
  induction 1 as [|[k1 m1] [k2 m2] l l' [Hk Hm] _ IH]; cbn [alookup]; [exact I|].
  cbn [fst snd] in *. subst k2. destruct (path_eqb k k1); [exact Hm | exact IH].
Qed.

Lemma mods_srel_insert ms ms' k v v' : mods_srel ms ms' -> mrel v v' ->
  mods_srel (ainsert k v ms) (ainsert k v' ms').
Proof.
  intros H Hv. induction H as [|[k1 m1] [k2 m2] l l' [Hk Hm] Hrest IH]; cbn [ainsert].
  - constructor; [split; [reflexivity | exact Hv] | constructor].
  - cbn [fst snd] in *. subst k2. destruct (path_eqb k k1).
    + constructor; [split; [reflexivity | exact Hv] | exact Hrest].
    + constructor; [split; [reflexivity | exact Hm] | exact IH].
Qed.

Lemma reg_same_add R R' it : reg_same R R' -> reg_same (reg_add R it) (reg_add R' it).
Proof.
  intros H p. destruct (path_eqb_spec (it_path it) p) as [<-|Hne].
  - now rewrite !reg_get_add_same.
  - rewrite !reg_get_add_other by exact Hne. apply H.
Qed.

Lemma mrel_add_defpath p m m' : mrel m m' -> mrel (add_defpath p m) (add_defpath p m').
Proof.
  intros (A & B & C & D & E & F & G). unfold mrel.
  assert (forall x, m_path (add_defpath p x) = m_path x /\ m_ast (add_defpath p x) = m_ast x /\
                    m_impls (add_defpath p x) = m_impls x /\
                    m_extern_values (add_defpath p x) = m_extern_values x /\
                    m_backends (add_defpath p x) = m_backends x /\ m_doc (add_defpath p x) = m_doc x) as Hf
      by (intros x; repeat split).
  destruct (Hf m) as (a1 & a2 & a3 & a4 & a5 & a6). destruct (Hf m') as (b1 & b2 & b3 & b4 & b5 & b6).
  rewrite a1, a2, a3, a4, a5, a6, b1, b2, b3, b4, b5, b6.
  repeat (split; [assumption|]). intros q. rewrite !add_defpath_in, (G q). tauto.
Qed.

(** ** registration steps respect the relation *)
Lemma add_item_srel st st' it s : srel st st' -> add_item st it = Ok s ->
  exists s', add_item st' it = Ok s' /\ srel s s'.
Proof.
  intros (HR & HP & HM) H. unfold add_item in *.
  destruct (path_parent (it_path it)) as [parent|]; [|discriminate].
  pose proof (mods_srel_lookup _ _ parent HM) as Hl.
  destruct (alookup parent (st_modules st)) as [m|]; [|discriminate].
  destruct (alookup parent (st_modules st')) as [m'|]; [|contradiction].
  inversion H; subst s; clear H. eexists. split; [reflexivity|].
  split; [|split]; cbn [st_reg st_modules].
  - now apply reg_same_add.
  - cbn [reg_add reg_ptr]. exact HP.
  - apply mods_srel_insert; [exact HM | now apply mrel_add_defpath].
Qed.

Lemma add_definition_srel mp st st' d s : srel st st' -> add_definition mp st d = Ok s ->
  exists s', add_definition mp st' d = Ok s' /\ srel s s'.
Proof.
  intros HS H. unfold add_definition in *. destruct HS as (HR & HS).
  rewrite <- (reg_has_same _ _ _ HR). destruct (reg_has (st_reg st) _); [discriminate|].
  eapply add_item_srel; [|exact H]. split; assumption.
Qed.

Lemma add_extern_type_srel mp st st' e s : srel st st' -> add_extern_type mp st e = Ok s ->
  exists s', add_extern_type mp st' e = Ok s' /\ srel s s'.
Proof.
  intros HS H. unfold add_extern_type in *. destruct (foldM scan_extern_type_attr (snd e) (None, None)) as [sa| | |];
    cbn [bind] in *; try discriminate.
  destruct sa as [[size|] [al|]]; try discriminate. destruct HS as (HR & HS).
  rewrite <- (reg_has_same _ _ _ HR). destruct (reg_has (st_reg st) _); [discriminate|].
  eapply add_item_srel; [|exact H]. split; assumption.
Qed.

Lemma foldM_srel {A} (f f' : sstate -> A -> outcome sstate) :
  (forall st st' x s, srel st st' -> f st x = Ok s -> exists s', f' st' x = Ok s' /\ srel s s') ->
  forall l st st' s, srel st st' -> foldM f l st = Ok s -> exists s', foldM f' l st' = Ok s' /\ srel s s'.
Proof.
  intros Hf. induction l as [|x l IH]; intros st st' s HS H; cbn [foldM] in *.
  - inversion H; subst. eauto.
  - inv_bind H. destruct (Hf _ _ _ _ HS Ha) as (a' & Ha' & HS'). rewrite Ha'. cbn [bind]. eauto.
Qed.

(** ** two definitions can be registered in either order *)
Lemma path_join_inj mp a b : path_join mp a = path_join mp b -> a = b.
Proof. unfold path_join. intros H. apply app_inv_head in H. now inversion H. Qed.

Lemma reg_has_add R it p : reg_has (reg_add R it) p = if path_eqb (it_path it) p then true else reg_has R p.
Proof.
  unfold reg_has, amem. fold (reg_get (reg_add R it) p). fold (reg_get R p).
  destruct (path_eqb_spec (it_path it) p) as [<-|Hne].
  - now rewrite reg_get_add_same.
  - now rewrite reg_get_add_other by exact Hne.
Qed.

Definition def_item (mp : path) (d : gitemdef) : item :=
  {| it_vis := gi_vis d; it_path := path_join mp (gi_name d); it_state := Unresolved d; it_cat := Defined |}.

Lemma add_definition_swap mp st d1 d2 a b :
  add_definition mp st d1 = Ok a -> add_definition mp a d2 = Ok b ->
  exists a2 b2, add_definition mp st d2 = Ok a2 /\ add_definition mp a2 d1 = Ok b2 /\ srel b b2.
Proof.
  unfold add_definition. fold (def_item mp d1). fold (def_item mp d2).
  set (p1 := path_join mp (gi_name d1)). set (p2 := path_join mp (gi_name d2)).
  destruct (reg_has (st_reg st) p1) eqn:H1; [discriminate|]. intros Ha.
  pose proof (add_item_reg _ _ _ Ha) as Ra.
  unfold add_item in Ha. change (it_path (def_item mp d1)) with p1 in Ha.
  unfold p1 in Ha. rewrite path_parent_join in Ha. fold p1 in Ha.
  destruct (alookup mp (st_modules st)) as [m|] eqn:Em; [|discriminate].
  inversion Ha; subst a; clear Ha. cbn [st_reg st_modules] in *.
  rewrite reg_has_add. change (it_path (def_item mp d1)) with p1.
  destruct (path_eqb_spec p1 p2) as [E|Hne]; [discriminate|].
  destruct (reg_has (st_reg st) p2) eqn:H2; [discriminate|]. intros Hb.
  unfold add_item in Hb. change (it_path (def_item mp d2)) with p2 in Hb.
  unfold p2 in Hb. rewrite path_parent_join in Hb. fold p2 in Hb. cbn [st_modules st_reg] in Hb.
  rewrite alookup_ainsert_same in Hb. inversion Hb; subst b; clear Hb.
  unfold add_item. change (it_path (def_item mp d2)) with p2. change (it_path (def_item mp d1)) with p1.
  unfold p2 at 1. rewrite path_parent_join. fold p2. rewrite Em.
  eexists. eexists. split; [reflexivity|]. cbn [st_reg st_modules].
  rewrite reg_has_add. change (it_path (def_item mp d2)) with p2.
  destruct (path_eqb_spec p2 p1) as [E|_]; [congruence|]. rewrite H1.
  unfold p1 at 1. rewrite path_parent_join. fold p1. rewrite alookup_ainsert_same.
  split; [reflexivity|]. split; [|split]; cbn [st_reg st_modules].
  - intros q. destruct (path_eqb_spec p2 q) as [<-|Hq2].
    + change p2 with (it_path (def_item mp d2)) at 1. rewrite reg_get_add_same.
      rewrite reg_get_add_other by (change (it_path (def_item mp d1)) with p1; congruence).
      change p2 with (it_path (def_item mp d2)). now rewrite reg_get_add_same.
    + rewrite (reg_get_add_other _ (def_item mp d2)) by exact Hq2.
      destruct (path_eqb_spec p1 q) as [<-|Hq1].
      * change p1 with (it_path (def_item mp d1)). now rewrite !reg_get_add_same.
      * rewrite !(reg_get_add_other _ (def_item mp d1)) by exact Hq1.
        now rewrite (reg_get_add_other _ (def_item mp d2)) by exact Hq2.
  - reflexivity.
  - assert (forall (V : Type) k (v w : V) l, ainsert k v (ainsert k w l) = ainsert k v l) as Hii.
    { intros V k v w. induction l as [|[k' v'] l IH]; cbn [ainsert].
      - now rewrite path_eqb_refl.
      - destruct (path_eqb k k') eqn:E; cbn [ainsert]; [now rewrite path_eqb_refl | now rewrite E, IH]. }
    rewrite !Hii. apply mods_srel_insert; [apply mods_srel_refl|].
    repeat split; try apply Permutation_refl; intros Hq; rewrite !add_defpath_in in *; tauto.
Qed.

Lemma foldM_add_definition_perm mp l l' : Permutation l l' ->
  forall st st' s, srel st st' -> foldM (add_definition mp) l st = Ok s ->
  exists s', foldM (add_definition mp) l' st' = Ok s' /\ srel s s'.
Proof.
  induction 1 as [|x l l' _ IH|x y l|l1 l2 l3 _ IH1 _ IH2]; intros st st' s HS H.
  - cbn [foldM] in *. inversion H; subst. eauto.
  - cbn [foldM] in *. inv_bind H. destruct (add_definition_srel _ _ _ _ _ HS Ha) as (a' & Ha' & HS').
    rewrite Ha'. cbn [bind]. eauto.
  - cbn [foldM] in H. inv_bind H. inv_bind H.
    destruct (add_definition_swap _ _ _ _ _ _ Ha Ha0) as (a2 & b2 & E1 & E2 & Hb).
    destruct (add_definition_srel _ _ _ _ _ HS E1) as (a2' & E1' & HS1).
    destruct (add_definition_srel _ _ _ _ _ HS1 E2) as (b2' & E2' & HS2).
    cbn [foldM]. rewrite E1'. cbn [bind]. rewrite E2'. cbn [bind].
    apply (foldM_srel (add_definition mp) (add_definition mp)
             (fun t t' x0 s0 X Y => add_definition_srel mp t t' x0 s0 X Y) l a0 b2' s (srel_trans _ _ _ Hb HS2) H).
  - destruct (IH1 _ _ _ (srel_refl st) H) as (s2 & H2 & HS2).
    destruct (IH2 _ _ _ HS H2) as (s3 & H3 & HS3). exists s3. split; [exact H3|]. eapply srel_trans; eauto.
Qed.

Lemma add_module_srel st st' mp ast ast' s : srel st st' -> ast_perm ast ast' ->
  add_module st mp ast = Ok s -> exists s', add_module st' mp ast' = Ok s' /\ srel s s'.
Proof.
  intros HS HA H. pose proof HA as (Hu & Het & Hev & Hd & Hi & Hb & Hat).
  unfold add_module in *. rewrite <- Hev, <- Het.
  destruct (mapM extern_value_of (gm_extern_values ast)) as [evs| | |]; cbn [bind] in *; try discriminate.
  unfold module_new in *. rewrite <- Hat.
  destruct (attrs_doc (gm_attrs ast)) as [doc| | |]; cbn [bind] in *; try discriminate.
  destruct (foldM (add_definition mp) (gm_defs ast) _) as [s2| | |] eqn:E2; cbn [bind] in H; try discriminate.
  destruct HS as (HR & HP & HM).
  match type of E2 with foldM _ _ ?x = _ => set (st1 := x) in * end.
  set (st1' := {| st_modules := ainsert mp {| m_path := mp; m_ast := ast'; m_defpaths := []; m_extern_values := evs;
                                            m_impls := merge_impls mp (gm_impls ast') [];
                                            m_backends := map (fun b => (gbk_name b, (gbk_pro b, gbk_epi b))) (gm_backends ast');
                                            m_doc := doc |} (st_modules st');
                 st_reg := st_reg st' |}).
  assert (srel st1 st1') as HS1.
  { split; [exact HR|]. split; [exact HP|]. cbn [st1 st1' st_modules]. apply mods_srel_insert; [exact HM|].
    unfold mrel. cbn [m_path m_ast m_impls m_extern_values m_backends m_doc m_defpaths].
    rewrite Hi, Hb. repeat split; auto. }
  destruct (foldM_add_definition_perm mp _ _ Hd _ _ _ HS1 E2) as (s2' & H2' & HS2).
  fold st1'.
  rewrite H2'. cbn [bind].
  apply (foldM_srel (add_extern_type mp) (add_extern_type mp)
           (fun t t' x0 s0 X Y => add_extern_type_srel mp t t' x0 s0 X Y) _ _ _ _ HS2 H).
Qed.

(** ** the two registrations *)
Lemma add_modules_srel mods mods' : reordered mods mods' -> forall a b st0, srel a b ->
  foldM (fun st pm => add_module st (fst pm) (snd pm)) mods a = Ok st0 ->
  exists st0', foldM (fun st pm => add_module st (fst pm) (snd pm)) mods' b = Ok st0' /\ srel st0 st0'.
Proof.
  induction 1 as [|[mp ast] [mp' ast'] l l' [Hk Hast] _ IH]; intros a b st0 HS H; cbn [foldM] in *.
  - inversion H; subst. eauto.
  - cbn [fst snd] in *. subst mp'. inv_bind H.
    destruct (add_module_srel _ _ _ _ _ _ HS Hast Ha) as (a1 & Ha1 & HS1). rewrite Ha1. cbn [bind].
    eapply IH; eauto.
Qed.

Theorem input_state_reordered ptr mods mods' st0 :
  reordered mods mods' -> input_state ptr mods = Ok st0 ->
  exists st0', input_state ptr mods' = Ok st0' /\ srel st0 st0'.
Proof.
  intros HR H. unfold input_state in *. inv_bind H. rewrite Ha. cbn [bind].
  eapply add_modules_srel; [exact HR | apply srel_refl | exact H].
Qed.

(** registration succeeds for both inputs or for neither *)
Corollary input_state_reordered_ok ptr mods mods' :
  reordered mods mods' -> is_ok (input_state ptr mods) = is_ok (input_state ptr mods').
Proof.
  intros HR. destruct (input_state ptr mods) as [s| | |] eqn:E.
  - destruct (input_state_reordered _ _ _ _ HR E) as (s' & -> & _). reflexivity.
  - destruct (input_state ptr mods') as [s'| | |] eqn:E'; try reflexivity.
    destruct (input_state_reordered _ _ _ _ (reordered_sym _ _ HR) E') as (s2 & E2 & _). congruence.
  - destruct (input_state ptr mods') as [s'| | |] eqn:E'; try reflexivity.
    destruct (input_state_reordered _ _ _ _ (reordered_sym _ _ HR) E') as (s2 & E2 & _). congruence.
  - destruct (input_state ptr mods') as [s'| | |] eqn:E'; try reflexivity.
    destruct (input_state_reordered _ _ _ _ (reordered_sym _ _ HR) E') as (s2 & E2 & _). congruence.
Qed.

(** the relation between any two successful registrations *)
Corollary input_states_srel ptr mods mods' st0 st0' :
  reordered mods mods' -> input_state ptr mods = Ok st0 -> input_state ptr mods' = Ok st0' -> srel st0 st0'.
Proof.
  intros HR H H'. destruct (input_state_reordered _ _ _ _ HR H) as (s & E & HS). congruence.
Qed.
