(** * C03Bases, non-vacuity: concrete descriptions with [#[base]] fields, impl blocks and the
    [defaultable] marker, in a state made by running the model.

    The state: [input_state ptr [(["m"], module)]] (= [sem_new] + [add_module]), then ONE
    [resolve_pass] over the three items the others depend on ([Base], [BaseD], [E]).  Every other
    definition of the module is then decided by the theorems of C03Bases.v.

<<
#[align(4)] pub type Base  { pub x: u32, pub y: u32 }         impl Base { #[address(64)] pub fn get(&self) -> u32; }
#[defaultable, align(4)] pub type BaseD { pub x: u32 }
pub enum E : u32 { A = 0 }

#[align(4)] pub type Derived  { #[base] pub base: Base, pub z: u32 }                  accepted: 12, 4
#[align(4)] type Mis          { #[base] pub base: Base, pub c: u8, pub w: u32 }       w at 9: misaligned
#[align(4)] type MisBase      { pub c: u8, #[base] pub base: Base }                   base at 1: misaligned
#[align(4)] type AnonBase     { #[base] _: Base, pub z: u32 }                         first base has no name
type PtrBase                  { #[base] pub b: *const Base }                          base is not a path
#[align(4)] type EnumBase     { #[base] pub e: E }                                    base is an enum
#[align(4)] type Clash        { #[base] pub base: Base, pub z: u32 }   impl Clash  { #[address(80)] pub fn get(&self); }      name taken
#[align(4)] type ImplOk       { #[base] pub base: Base, pub z: u32 }   impl ImplOk { #[address(80)] pub fn other(&self) -> *const Base; }
#[align(4)] type ImplNoAddr   { pub z: u32 }                           impl ImplNoAddr { pub fn f(&self); }                   no address
#[align(4)] type ImplTwice    { pub z: u32 }                           impl ImplTwice { #[address(1)] fn f(); #[address(2)] fn f(); }
#[defaultable, align(4)] type DfltBad { #[base] pub base: Base, pub z: u32 }          Base is not defaultable
#[defaultable, align(4)] type DfltOk  { #[base] pub base: BaseD, #[address(8)] pub z: u32, e: [E; 0] }   accepted (padding: u8)
#[defaultable] type DfltPtr   { pub p: *const u8 }                                    a pointer has no default
#[align(4)] type TwoBases     { #[base] pub base: Base, #[base] pub b2: BaseD }       accepted: 12, 4
#[align(4)] type LateAnon     { #[base] pub base: Base, #[base] _: BaseD }            accepted: the marker on [_] is dropped
#[align(4)] type ZeroArrBase  { #[base] pub base: Base, #[base] pub za: [u32; 0] }    accepted: zero-sized array dropped
#[align(4)] type ZeroArrFirst { #[base] pub za: [u32; 0], pub z: u32 }                first base is an array
>> *)
From Coq Require Import List NArith ZArith Bool Lia String.
From PyxisModel Require Import Base Grammar SemTypes Registry Sem SemLemmas PlacementLemmas
     WholeBuild WholeBuildMore Examples C03Whole C03Tail C03Bases.
From PyxisModel Require C03Core.
Import ListNotations.
Local Open Scope N_scope.
Local Open Scope string_scope.
Module C := C03Core.

Definition bx_text : string := "(module (attrs) (uses) (extern_types) (extern_values) (defs (def pub ""Base"" (type (attrs (fn ""align"" (int 4))) (field (attrs) pub ""x"" (tid ""u32"")) (field (attrs) pub ""y"" (tid ""u32"")))) (def pub ""BaseD"" (type (attrs (ident ""defaultable"") (fn ""align"" (int 4))) (field (attrs) pub ""x"" (tid ""u32"")))) (def pub ""E"" (enum (tid ""u32"") (attrs) (case (attrs) ""A"" (some (int 0))))) (def pub ""Derived"" (type (attrs (fn ""align"" (int 4))) (field (attrs (ident ""base"")) pub ""base"" (tid ""Base"")) (field (attrs) pub ""z"" (tid ""u32"")))) (def priv ""Mis"" (type (attrs (fn ""align"" (int 4))) (field (attrs (ident ""base"")) pub ""base"" (tid ""Base"")) (field (attrs) pub ""c"" (tid ""u8"")) (field (attrs) pub ""w"" (tid ""u32"")))) (def priv ""MisBase"" (type (attrs (fn ""align"" (int 4))) (field (attrs) pub ""c"" (tid ""u8"")) (field (attrs (ident ""base"")) pub ""base"" (tid ""Base"")))) (def priv ""AnonBase"" (type (attrs (fn ""align"" (int 4))) (field (attrs (ident ""base"")) priv ""_"" (tid ""Base"")) (field (attrs) pub ""z"" (tid ""u32"")))) (def priv ""PtrBase"" (type (attrs) (field (attrs (ident ""base"")) pub ""b"" (cptr (tid ""Base""))))) (def priv ""EnumBase"" (type (attrs (fn ""align"" (int 4))) (field (attrs (ident ""base"")) pub ""e"" (tid ""E"")))) (def priv ""Clash"" (type (attrs (fn ""align"" (int 4))) (field (attrs (ident ""base"")) pub ""base"" (tid ""Base"")) (field (attrs) pub ""z"" (tid ""u32"")))) (def priv ""ImplOk"" (type (attrs (fn ""align"" (int 4))) (field (attrs (ident ""base"")) pub ""base"" (tid ""Base"")) (field (attrs) pub ""z"" (tid ""u32"")))) (def priv ""ImplNoAddr"" (type (attrs (fn ""align"" (int 4))) (field (attrs) pub ""z"" (tid ""u32"")))) (def priv ""ImplTwice"" (type (attrs (fn ""align"" (int 4))) (field (attrs) pub ""z"" (tid ""u32"")))) (def priv ""DfltBad"" (type (attrs (ident ""defaultable"") (fn ""align"" (int 4))) (field (attrs (ident ""base"")) pub ""base"" (tid ""Base"")) (field (attrs) pub ""z"" (tid ""u32"")))) (def priv ""DfltOk"" (type (attrs (ident ""defaultable"") (fn ""align"" (int 4))) (field (attrs (ident ""base"")) pub ""base"" (tid ""BaseD"")) (field (attrs (fn ""address"" (int 8))) pub ""z"" (tid ""u32"")) (field (attrs) priv ""e"" (array (tid ""E"") 0)))) (def priv ""DfltPtr"" (type (attrs (ident ""defaultable"")) (field (attrs) pub ""p"" (cptr (tid ""u8""))))) (def priv ""TwoBases"" (type (attrs (fn ""align"" (int 4))) (field (attrs (ident ""base"")) pub ""base"" (tid ""Base"")) (field (attrs (ident ""base"")) pub ""b2"" (tid ""BaseD"")))) (def priv ""LateAnon"" (type (attrs (fn ""align"" (int 4))) (field (attrs (ident ""base"")) pub ""base"" (tid ""Base"")) (field (attrs (ident ""base"")) priv ""_"" (tid ""BaseD"")))) (def priv ""ZeroArrBase"" (type (attrs (fn ""align"" (int 4))) (field (attrs (ident ""base"")) pub ""base"" (tid ""Base"")) (field (attrs (ident ""base"")) pub ""za"" (array (tid ""u32"") 0)))) (def priv ""ZeroArrFirst"" (type (attrs (fn ""align"" (int 4))) (field (attrs (ident ""base"")) pub ""za"" (array (tid ""u32"") 0)) (field (attrs) pub ""z"" (tid ""u32""))))) (impls (impl ""Base"" (attrs) (func (attrs (fn ""address"" (int 64))) pub ""get"" (args cself) (some (tid ""u32"")))) (impl ""Clash"" (attrs) (func (attrs (fn ""address"" (int 80))) pub ""get"" (args cself) none)) (impl ""ImplOk"" (attrs) (func (attrs (fn ""address"" (int 80))) pub ""other"" (args cself) (some (cptr (tid ""Base""))))) (impl ""ImplNoAddr"" (attrs) (func (attrs) pub ""f"" (args cself) none)) (impl ""ImplTwice"" (attrs) (func (attrs (fn ""address"" (int 1))) priv ""f"" (args) none) (func (attrs (fn ""address"" (int 2))) priv ""f"" (args) none))) (backends))".

Definition bx_module : gmodule := Examples.module_of_text bx_text.
Definition bx_mods : list (path * gmodule) := [(["m"], bx_module)].
Definition bx_path (name : string) : path := ["m"; name].
Definition bx_def (name : string) : gtypedef :=
  match find (fun gd => String.eqb (gi_name gd) name) (gm_defs bx_module) with
  | Some gd => match gi_inner gd with GIType td => td | GIEnum _ => {| gt_stmts := []; gt_attrs := [] |} end
  | None => {| gt_stmts := []; gt_attrs := [] |}
  end.

Definition bx_dummy (ptr : N) : sstate :=
  {| st_modules := []; st_reg := {| reg_types := []; reg_ptr := ptr |} |}.
(** the input state, then one pass over the three items the others use *)
Definition bx_st (ptr : N) : sstate :=
  match input_state ptr bx_mods with
  | Ok st0 => match resolve_pass st0 [bx_path "Base"; bx_path "BaseD"; bx_path "E"] with
              | inl st1 => st1
              | inr _ => bx_dummy ptr
              end
  | _ => bx_dummy ptr
  end.

Definition bx_resolved (ptr : N) (name : string) : option (N * N) :=
  match reg_get (st_reg (bx_st ptr)) (bx_path name) with
  | Some it => option_map (fun r => (rs_size r, rs_align r)) (item_resolved it)
  | None => None
  end.

(** the module parses (20 definitions, 5 impl blocks); in the state, [Base], [BaseD], [E] are
    resolved and [Derived] is not *)
Example bx_state_shape :
  List.length (gm_defs bx_module) = 20%nat /\ List.length (gm_impls bx_module) = 5%nat /\
  forallb (fun ptr =>
    match input_state ptr bx_mods with
    | Ok st0 => match resolve_pass st0 [bx_path "Base"; bx_path "BaseD"; bx_path "E"] with
                | inl _ => true | inr _ => false end
    | _ => false
    end) [4; 8] = true /\
  bx_resolved 4 "Base" = Some (8, 4) /\ bx_resolved 4 "BaseD" = Some (4, 4) /\ bx_resolved 4 "E" = Some (4, 4) /\
  bx_resolved 4 "Derived" = None /\ bx_resolved 8 "Base" = Some (8, 4).
Proof. vm_compute. repeat split. Qed.

(** the premises of the theorems, evaluated:
    (in the class, attributes well formed, realisable, bases ok, impl ok, defaultable ok) *)
Definition bx_extras (ptr : N) (name : string) : bool * bool * bool :=
  let st := bx_st ptr in let p := bx_path name in let d := bx_def name in
  match owner_module st p with
  | Some m => (bases_okb (st_reg st) (module_scope m) d,
               impl_okb (st_reg st) (module_scope m) (alookup p (m_impls m)) d,
               dflt_okb (st_reg st) (module_scope m) d)
  | None => (false, false, false)
  end.
(* notations, not definitions: the proofs below must not ask the kernel to unfold anything *)
Local Notation bx_realisableb ptr name :=
  (C.realisableb (reg_ptr (st_reg (bx_st ptr))) (fields_of (bx_st ptr) (bx_path name) (bx_def name))
                 (declared_size (bx_def name)) (declared_align (bx_def name)) (is_packed (bx_def name))).
Local Notation bx_accept ptr name :=
  (C.accept (reg_ptr (st_reg (bx_st ptr))) (fields_of (bx_st ptr) (bx_path name) (bx_def name))
            (declared_size (bx_def name)) (declared_align (bx_def name)) (is_packed (bx_def name))).
Definition bx_verdict (ptr : N) (name : string) : bool * bool * bool * (bool * bool * bool) :=
  (class_bases_okb (bx_st ptr) (bx_path name) (bx_def name), attrs_okb (bx_def name),
   bx_realisableb ptr name, bx_extras ptr name).

Example bx_premises :
  bx_verdict 4 "Derived"      = (true, true, true,  (true,  true,  true)) /\
  bx_verdict 8 "Derived"      = (true, true, true,  (true,  true,  true)) /\
  bx_verdict 4 "Mis"          = (true, true, false, (true,  true,  true)) /\
  bx_verdict 4 "MisBase"      = (true, true, false, (true,  true,  true)) /\
  bx_verdict 4 "AnonBase"     = (true, true, true,  (false, true,  true)) /\
  bx_verdict 4 "PtrBase"      = (true, true, true,  (false, true,  true)) /\
  bx_verdict 4 "EnumBase"     = (true, true, true,  (false, true,  true)) /\
  bx_verdict 4 "Clash"        = (true, true, true,  (true,  false, true)) /\
  bx_verdict 4 "ImplOk"       = (true, true, true,  (true,  true,  true)) /\
  bx_verdict 4 "ImplNoAddr"   = (true, true, true,  (true,  false, true)) /\
  bx_verdict 4 "ImplTwice"    = (true, true, true,  (true,  false, true)) /\
  bx_verdict 4 "DfltBad"      = (true, true, true,  (true,  true,  false)) /\
  bx_verdict 4 "DfltOk"       = (true, true, true,  (true,  true,  true)) /\
  bx_verdict 4 "DfltPtr"      = (true, true, true,  (true,  true,  false)) /\
  bx_verdict 4 "TwoBases"     = (true, true, true,  (true,  true,  true)) /\
  bx_verdict 4 "LateAnon"     = (true, true, true,  (true,  true,  true)) /\
  bx_verdict 4 "ZeroArrBase"  = (true, true, true,  (true,  true,  true)) /\
  bx_verdict 4 "ZeroArrFirst" = (true, true, true,  (false, true,  true)).
Proof. vm_compute. repeat split. Qed.

(** the abstract fields of [Derived] and [Mis]: the base is one member of size 8, alignment 4 *)
Example bx_fields :
  fields_of (bx_st 4) (bx_path "Derived") (bx_def "Derived") =
  [ {| C.addr := None; C.sz := 8; C.al := 4; C.zarr := false |};
    {| C.addr := None; C.sz := 4; C.al := 4; C.zarr := false |} ] /\
  fields_of (bx_st 4) (bx_path "Mis") (bx_def "Mis") =
  [ {| C.addr := None; C.sz := 8; C.al := 4; C.zarr := false |};
    {| C.addr := None; C.sz := 1; C.al := 1; C.zarr := false |};
    {| C.addr := None; C.sz := 4; C.al := 4; C.zarr := false |} ] /\
  (** the name [get] is taken in [Clash]: forwarded from [Base] *)
  (match owner_module (bx_st 4) (bx_path "Clash") with
   | Some m => inherited_names (st_reg (bx_st 4)) (module_scope m) (bx_def "Clash")
   | None => [] end) = ["get"].
Proof. vm_compute. repeat split. Qed.

Definition bx_accepted : list (string * (N * N)) :=
  [("Derived", (12, 4)); ("ImplOk", (12, 4)); ("DfltOk", (12, 4)); ("TwoBases", (12, 4));
   ("LateAnon", (12, 4)); ("ZeroArrBase", (8, 4))].
Definition bx_rejected : list string :=
  ["Mis"; "MisBase"; "AnonBase"; "PtrBase"; "EnumBase"; "Clash"; "ImplNoAddr"; "ImplTwice";
   "DfltBad"; "DfltPtr"; "ZeroArrFirst"].

(** the theorem applied: the type with a base field is accepted, with the size and alignment of
    the layout "base at 0 (8 bytes), z at 8" ... *)
Example bx_accepted_by_theorem ptr name s a v : ptr = 4 \/ ptr = 8 -> In (name, (s, a)) bx_accepted ->
  exists r, type_build (bx_st ptr) (bx_path name) v (bx_def name) = (bx_st ptr, Ok r) /\
            rs_size r = s /\ rs_align r = a.
Proof.
  intros Hp Hin.
  assert (class_bases_okb (bx_st ptr) (bx_path name) (bx_def name) = true /\ attrs_okb (bx_def name) = true /\
          bx_realisableb ptr name = true /\ extras_okb (bx_st ptr) (bx_path name) (bx_def name) = true /\
          bx_accept ptr name = Some (s, a)) as (Hc & Ha & Hr & Hex & Hacc).
  { cbn [In bx_accepted] in Hin.
    destruct Hp as [-> | ->];
      repeat (destruct Hin as [Hin|Hin]; [inversion Hin; subst name s a; vm_compute; repeat split|]);
      destruct Hin. }
  destruct (proj2 (C03_bases_type_build_iff (bx_st ptr) _ v _ Hc)) as (st' & r & Hb).
  { split; [exact Ha|]. split; [exact (proj1 (C.realisableb_spec _ _ _ _ _) Hr) | exact Hex]. }
  destruct (C03_bases_type_build_size_align _ _ _ _ _ _ Hc Hb) as [-> Hsa].
  exists r. split; [exact Hb|]. rewrite Hsa in Hacc. inversion Hacc. auto.
Qed.

(** ... and the others are rejected with an error, the state unchanged: a member misaligned
    after the base ([Mis]), the base itself misaligned ([MisBase]), a base that is anonymous / a
    pointer / an enum / a zero-sized array, an impl function whose name is taken or that does not
    convert, a [defaultable] type with a member that is not *)
Example bx_rejected_by_theorem ptr name v : ptr = 4 \/ ptr = 8 -> In name bx_rejected ->
  exists msg, type_build (bx_st ptr) (bx_path name) v (bx_def name) = (bx_st ptr, Err msg).
Proof.
  intros Hp Hin.
  assert (class_bases_okb (bx_st ptr) (bx_path name) (bx_def name) = true /\
          attrs_okb (bx_def name) && bx_realisableb ptr name &&
          extras_okb (bx_st ptr) (bx_path name) (bx_def name) = false) as (Hc & Hn).
  { cbn [In bx_rejected] in Hin.
    destruct Hp as [-> | ->];
      repeat (destruct Hin as [<-|Hin]; [vm_compute; split; reflexivity|]); destruct Hin. }
  apply (C03_bases_type_build_rejects_otherwise _ _ _ _ Hc). intros (Ha & Hr & He).
  pose proof (proj2 (C.realisableb_spec _ _ _ _ _) Hr) as Hr'.
  rewrite Ha, Hr', He in Hn. discriminate Hn.
Qed.

(** the model itself, run on two of them (no theorem involved), agrees *)
Example bx_model_run :
  (match type_build (bx_st 4) (bx_path "Derived") Public (bx_def "Derived") with
   | (_, Ok r) => Some (rs_size r, rs_align r) | _ => None end) = Some (12, 4) /\
  (match type_build (bx_st 4) (bx_path "Mis") Private (bx_def "Mis") with
   | (_, Err msg) => Some msg | _ => None end)
  = Some "field is located at an address not divisible by its alignment" /\
  (match type_build (bx_st 4) (bx_path "AnonBase") Private (bx_def "AnonBase") with
   | (_, Err msg) => Some msg | _ => None end) = Some "a base field has no name" /\
  (match type_build (bx_st 4) (bx_path "Clash") Private (bx_def "Clash") with
   | (_, Err msg) => Some msg | _ => None end) = Some "function is already defined in type (or a base type)".
Proof. vm_compute. repeat split. Qed.

(** a whole run of [pyxis_resolve] on the accepted subset: in its FINAL state the description of
    [Derived] is in the class and accepted again, with the size the registry recorded *)
Definition bx_good_text : string := "(module (attrs) (uses) (extern_types) (extern_values) (defs (def pub ""Base"" (type (attrs (fn ""align"" (int 4))) (field (attrs) pub ""x"" (tid ""u32"")) (field (attrs) pub ""y"" (tid ""u32"")))) (def pub ""Derived"" (type (attrs (fn ""align"" (int 4))) (field (attrs (ident ""base"")) pub ""base"" (tid ""Base"")) (field (attrs) pub ""z"" (tid ""u32""))))) (impls (impl ""Base"" (attrs) (func (attrs (fn ""address"" (int 64))) pub ""get"" (args cself) (some (tid ""u32"")))) (impl ""Derived"" (attrs) (func (attrs (fn ""address"" (int 80))) pub ""other"" (args cself) none))) (backends))".
Definition bx_good_mods : list (path * gmodule) := [(["m"], Examples.module_of_text bx_good_text)].
Definition bx_final (ptr : N) : sstate :=
  match pyxis_resolve (hook_schedule []) ptr bx_good_mods with BOk st => st | _ => bx_dummy ptr end.
Definition bx_good_def (name : string) : gtypedef :=
  match find (fun gd => String.eqb (gi_name gd) name) (gm_defs (Examples.module_of_text bx_good_text)) with
  | Some gd => match gi_inner gd with GIType td => td | GIEnum _ => {| gt_stmts := []; gt_attrs := [] |} end
  | None => {| gt_stmts := []; gt_attrs := [] |}
  end.
Definition bx_final_chk (ptr : N) : bool :=
  match pyxis_resolve (hook_schedule []) ptr bx_good_mods with
  | BOk st =>
    let p := bx_path "Derived" in let d := bx_good_def "Derived" in
    class_bases_okb st p d && attrs_okb d && extras_okb st p d &&
    C.realisableb (reg_ptr (st_reg st)) (fields_of st p d) (declared_size d) (declared_align d) (is_packed d) &&
    match reg_get (st_reg st) p with
    | Some it => match item_resolved it with
                 | Some r => N.eqb (rs_size r) 12 && N.eqb (rs_align r) 4
                 | None => false end
    | None => false
    end
  | _ => false
  end.
Lemma bx_final_chk_true : bx_final_chk 4 = true /\ bx_final_chk 8 = true.
Proof. vm_compute. split; reflexivity. Qed.

Example bx_final_accepted ptr : ptr = 4 \/ ptr = 8 ->
  exists st' r, type_build (bx_final ptr) (bx_path "Derived") Public (bx_good_def "Derived") = (st', Ok r).
Proof.
  intros Hp. assert (bx_final_chk ptr = true) as Hc by (destruct Hp as [-> | ->]; [exact (proj1 bx_final_chk_true) | exact (proj2 bx_final_chk_true)]).
  unfold bx_final_chk, bx_final in *. destruct (pyxis_resolve _ ptr bx_good_mods) as [st| | | |]; try discriminate.
  cbv zeta in Hc. apply andb_prop in Hc as [Hc _]. apply andb_prop in Hc as [Hc Hr]. apply andb_prop in Hc as [Hc He].
  apply andb_prop in Hc as [Hc Ha].
  apply (proj2 (C03_bases_type_build_iff _ _ _ _ Hc)). split; [exact Ha|]. split; [exact (proj1 (C.realisableb_spec _ _ _ _ _) Hr) | exact He].
Qed.

Print Assumptions bx_accepted_by_theorem.
Print Assumptions bx_rejected_by_theorem.
Print Assumptions bx_final_accepted.
