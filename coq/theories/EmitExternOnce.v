(** * EmitExternOnce: C15 / C14 for extern values, end to end and EXACTLY ONCE.

    For every input module [(k, gm)], [k <> []], of an accepted collision-free build whose files
    are written, the extern-value accessors read back from the module's file are exactly those the
    declarations [gm_extern_values gm] ask for:

    - READERS (constructors and [String.eqb] only): [read_extern_accessor e] reads a top-level item
      as [(name, visibility, address, type tokens)] and succeeds only on
      [<vis> unsafe fn <name>() -> &'static mut <T> { unsafe { &mut *(<A> as *mut <T>) } }] with the
      SAME type tokens in both places; [is_get_fn e]: [e] is a function item whose name starts with
      [get_]; [file_extern_accessors f] / [file_get_fns f] on a whole file;
    - SPEC: [declared_accessor R k gm gev]: name [get_<name>], the declared visibility, the LAST
      [#[address(A)]] of the declaration (as [N]), the tokens of the declared type resolved in the
      scope [k :: gm_uses gm];
    - [final_extern_values]: the extern values of the final module are, literally, the image of the
      declarations ([final_extern]), every declaration has an address and a type that resolves;
    - [extern_accessors_whole] (main): one [fs] as in [FilesWhole.files_whole]; for every input
      module and its file, [file_ok] and [extern_file_ok]: the file's items are
      [prologue :: body ++ accessors ++ [epilogue]], [body] holds no [get_*] function and nothing
      that reads as an accessor, [accessors] are ALL the [get_*] functions of the file and read back
      as the declared accessors sorted by name -- hence a permutation of the declared ones, one per
      declaration, none else;
    - [declared_accessor_bound]: with [clean_stateb], the type is the one the scoping rules of C11
      select among the definitions of the INPUT;
    - [extern_without_address_rejected]: a declaration without [#[address(<int>)]] makes
      [pyxis_resolve] answer [BErr]. *)
From Coq Require Import List NArith ZArith Bool Lia String Ascii Permutation.
From PyxisModel Require Import Base Sexp Grammar SemTypes Registry Sem SemLemmas FunctionLemmas
     VftableLemmas ScopeLemmas PlacementLemmas TotalityLemmas Emit EmitLemmas WholeBuild Monotone OrderIndep
     EmitInvariance FinalState OutputIndep EmitReaders EmitShape EmitFinal EmitFind
     EmitFnReaders EmitFnShape FilesInput FilesRead FilesWhole Unrelated NoPanic BindingWhole RustExec.
Import ListNotations.
Local Open Scope string_scope.
Local Open Scope list_scope.

(** * 0. Equality of token lists (for the reader) *)
Fixpoint sexp_eqb (a b : sexp) {struct a} : bool :=
  match a, b with
  | Atom x, Atom y => String.eqb x y
  | Str x, Str y => String.eqb x y
  | SList l, SList m =>
    (fix go (l m : list sexp) {struct l} : bool :=
       match l, m with
       | [], [] => true
       | x :: l', y :: m' => sexp_eqb x y && go l' m'
       | _, _ => false
       end) l m
  | _, _ => false
  end.
Fixpoint sexps_eqb (l m : list sexp) : bool :=
  match l, m with
  | [], [] => true
  | x :: l', y :: m' => sexp_eqb x y && sexps_eqb l' m'
  | _, _ => false
  end.

Lemma sexp_eqb_refl : forall a, sexp_eqb a a = true.
Proof.
  fix IH 1. intros [x|x|l]; cbn [sexp_eqb]; try apply String.eqb_refl.
  revert l. fix IHl 1. intros [|y l]; [reflexivity|]. rewrite (IH y), (IHl l). reflexivity.
Qed.
Lemma sexps_eqb_refl : forall l, sexps_eqb l l = true.
Proof. induction l as [|x l IH]; cbn [sexps_eqb]; [reflexivity|]. now rewrite sexp_eqb_refl, IH. Qed.

Lemma sexp_eqb_eq : forall a b, sexp_eqb a b = true -> a = b.
Proof.
  fix IH 1. intros [x|x|l] [y|y|m]; cbn [sexp_eqb]; try discriminate.
  - intros H. apply String.eqb_eq in H. now subst.
  - intros H. apply String.eqb_eq in H. now subst.
  - intros H. f_equal. revert l m H. fix IHl 1. intros [|x l] [|y m]; try discriminate; [reflexivity|].
    intros H. apply andb_prop in H as [H1 H2]. f_equal; [exact (IH _ _ H1) | exact (IHl _ _ H2)].
Qed.
Lemma sexps_eqb_eq : forall l m, sexps_eqb l m = true -> l = m.
Proof.
  induction l as [|x l IH]; intros [|y m]; cbn [sexps_eqb]; try discriminate; [reflexivity|].
  intros H. apply andb_prop in H as [H1 H2]. f_equal; [now apply sexp_eqb_eq | now apply IH].
Qed.

(** * 1. The readers *)
Definition eaccessor : Type := (string * vis * N * list sexp)%type.

(** [<vis> unsafe fn <name>() -> &'static mut <T> { unsafe { &mut *(<A> as *mut <T>) } }]
    read as (name, vis, A, tokens of T); [None] for anything else *)
Definition read_extern_accessor (e : sexp) : option eaccessor :=
  match read_fn e with
  | Some w =>
    match efn_unsafe w, efn_params w, read_static_mut_ref (efn_ret w), read_extern_body (efn_body w) with
    | true, [], Some rt, Some (a, ct) =>
      if sexps_eqb rt ct then Some (efn_name w, efn_vis w, a, ct) else None
    | _, _, _, _ => None
    end
  | None => None
  end.

(** a function item whose name starts with [get_] *)
Definition is_get_fn (e : sexp) : bool :=
  match fn_name e with Some n => starts_with "get_" n | None => false end.

(** everything in the file that reads as an extern-value accessor, in file order *)
Definition file_extern_accessors (f : sexp) : list eaccessor :=
  match file_items f with Some items => all_somes read_extern_accessor items | None => [] end.
(** all the top-level [get_*] functions of the file, in file order *)
Definition file_get_fns (f : sexp) : list sexp :=
  match file_items f with Some items => filter is_get_fn items | None => [] end.

(** what a successful read means, in terms of the readers of EmitFnShape.v *)
Theorem read_extern_accessor_sound e n v a ty :
  read_extern_accessor e = Some (n, v, a, ty) ->
  item_kind e = Some "fn" /\ fn_name e = Some n /\ fn_vis e = Some v /\ fn_unsafe e = Some true /\
  fn_params e = Some [] /\ fn_ret_static_mut e = Some ty /\ fn_extern_target e = Some (a, ty).
Proof.
  unfold read_extern_accessor, fn_name, fn_vis, fn_unsafe, fn_params, fn_ret_static_mut, fn_extern_target.
  destruct (read_fn e) as [w|] eqn:Er; [|discriminate].
  assert (item_kind e = Some "fn") as Hk.
  { unfold read_fn in Er. destruct e as [?|?|[|[k|?|?] r]]; try discriminate.
    destruct r as [|x1 [|x2 [|x3 [|[n'|?|?] [|x5 [|x6 [|x7 [|x8 r]]]]]]]]; try discriminate.
    destruct (String.eqb_spec k "fn") as [->|]; [reflexivity | discriminate]. }
  cbn [option_map]. destruct (efn_unsafe w); [|discriminate]. destruct (efn_params w); [|discriminate].
  destruct (read_static_mut_ref (efn_ret w)) as [rt|]; [|discriminate].
  destruct (read_extern_body (efn_body w)) as [[a' ct]|]; [|discriminate].
  destruct (sexps_eqb rt ct) eqn:E; [|discriminate]. apply sexps_eqb_eq in E. subst rt.
  intros H. inversion H; subst. repeat split; try reflexivity; assumption.
Qed.

(** the meaning of the body (RustExec): a reference to the absolute address [A] *)
Definition extern_get_result (e : sexp) : option N :=
  option_map (fun x => extern_get (fst x)) (fn_extern_target e).
Corollary read_extern_accessor_meaning e n v a ty :
  read_extern_accessor e = Some (n, v, a, ty) -> extern_get_result e = Some a.
Proof.
  intros H. destruct (read_extern_accessor_sound _ _ _ _ _ H) as (_ & _ & _ & _ & _ & _ & Ht).
  unfold extern_get_result. now rewrite Ht.
Qed.

(** the accessor emitted for the final extern value [ev] *)
Definition accessor_of (ev : sextern) : option eaccessor :=
  option_map (fun t => ("get_" +++ ev_name ev, ev_vis ev, ev_address ev, type_tokens t)) (ev_type ev).

Lemma starts_with_get n : starts_with "get_" ("get_" +++ n) = true.
Proof.
  unfold starts_with. cbn [String.append prefix].
  repeat (match goal with |- context [ascii_dec ?a ?b] => destruct (ascii_dec a b); [|congruence] end).
  destruct n; reflexivity.
Qed.

Lemma extern_shape_read ev t e :
  extern_shape ev t e ->
  read_extern_accessor e = Some ("get_" +++ ev_name ev, ev_vis ev, ev_address ev, type_tokens t) /\
  is_get_fn e = true.
Proof.
  intros [_ Hn Hv Hu Hp Hr Ht].
  unfold fn_name, fn_vis, fn_unsafe, fn_params, fn_ret_static_mut, fn_extern_target in *.
  unfold read_extern_accessor, is_get_fn, fn_name.
  destruct (read_fn e) as [w|]; [|discriminate]. cbn [option_map] in *.
  injection Hn as Hn'. injection Hv as Hv'. injection Hu as Hu'. injection Hp as Hp'.
  rewrite Hu', Hp', Hr, Ht, sexps_eqb_refl, Hn', Hv'. split; [reflexivity | apply starts_with_get].
Qed.

Lemma build_extern_value_read ev e :
  build_extern_value ev = Ok e ->
  option_map Some (read_extern_accessor e) = Some (accessor_of ev) /\ is_get_fn e = true.
Proof.
  intros H. destruct (build_extern_value_shape _ _ H) as (t & Ht & Hsh).
  destruct (extern_shape_read _ _ _ Hsh) as [Hr Hg]. unfold accessor_of. rewrite Hr, Ht. auto.
Qed.

Lemma build_extern_values_read : forall l evs,
  mapM build_extern_value l = Ok evs ->
  map Some (all_somes read_extern_accessor evs) = map accessor_of l /\
  map read_extern_accessor evs = map accessor_of l /\
  filter is_get_fn evs = evs.
Proof.
  induction l as [|ev l IH]; intros evs H; cbn [mapM] in H.
  - inversion H; subst. repeat split.
  - inv_bind H. inv_bind H. inversion H; subst evs; clear H.
    destruct (build_extern_value_read _ _ Ha) as [Hr Hg]. destruct (IH _ Ha0) as (I1 & I2 & I3).
    cbn [all_somes map filter]. rewrite Hg, I3.
    destruct (read_extern_accessor a) as [x|]; cbn [option_map] in Hr; [|discriminate].
    inversion Hr as [Hx]. cbn [map]. now rewrite I1, I2.
Qed.

(** * 2. Nothing else in a file is, or looks like, an accessor *)
Definition not_accessor (e : sexp) : Prop := is_get_fn e = false /\ read_extern_accessor e = None.

Lemma read_fn_kind e w : read_fn e = Some w -> item_kind e = Some "fn".
Proof.
  unfold read_fn. destruct e as [?|?|[|[k|?|?] r]]; try discriminate.
  destruct r as [|x1 [|x2 [|x3 [|[n'|?|?] [|x5 [|x6 [|x7 [|x8 r]]]]]]]]; try discriminate.
  destruct (String.eqb_spec k "fn") as [->|]; [reflexivity | discriminate].
Qed.

Lemma other_kind_not_accessor e k : item_kind e = Some k -> k <> "fn" -> not_accessor e.
Proof.
  intros Hk Hne. assert (read_fn e = None) as Hr.
  { destruct (read_fn e) as [w|] eqn:E; [|reflexivity]. apply read_fn_kind in E. congruence. }
  unfold not_accessor, is_get_fn, fn_name, read_extern_accessor. rewrite Hr. split; reflexivity.
Qed.

Lemma no_kind_not_accessor e : item_kind e = None -> not_accessor e.
Proof.
  intros Hk. assert (read_fn e = None) as Hr.
  { destruct (read_fn e) as [w|] eqn:E; [|reflexivity]. apply read_fn_kind in E. congruence. }
  unfold not_accessor, is_get_fn, fn_name, read_extern_accessor. rewrite Hr. split; reflexivity.
Qed.

(** the size-check function: its name is the one [read_size_check] reads and it returns nothing *)
Lemma size_check_fn_read c fname ty n1 n2 w :
  read_size_check c = Some (fname, ty, n1, n2) -> read_fn c = Some w -> efn_name w = fname /\ efn_ret w = [].
Proof.
  unfold read_size_check, read_fn. intros H Hr.
  destruct c as [?|?|[|[k|?|?] r]]; try discriminate.
  destruct r as [|x1 [|x2 [|x3 [|[n'|?|?] [|x5 [|x6 [|x7 [|x8 r]]]]]]]]; try discriminate.
  destruct (String.eqb k "fn"); [|discriminate].
  destruct (tagged "params" x5) as [[|? ?]|]; try discriminate.
  destruct (tagged "ret" x6) as [[|? ?]|]; try discriminate.
  destruct (tagged "attrs" x1); [|discriminate]. destruct (read_vis x2); [|discriminate].
  destruct (tagged "quals" x3); [|discriminate].
  destruct (tagged "body" x7) as [bl|]; [|discriminate]. cbn [read_all] in Hr. inversion Hr; subst w.
  cbn [efn_name efn_ret]. split; [|reflexivity].
  repeat match type of H with
         | (match ?x with _ => _ end) = Some _ => destruct x; try discriminate
         end.
  now inversion H.
Qed.

Lemma size_check_not_accessor name size cs : size_check_shape name size cs -> Forall not_accessor cs.
Proof.
  intros [[_ ->]|(_ & c & -> & Hk & Hr)]; [constructor|]. constructor; [|constructor].
  unfold not_accessor, is_get_fn, fn_name, read_extern_accessor.
  destruct (read_fn c) as [w|] eqn:E; [|split; reflexivity].
  destruct (size_check_fn_read _ _ _ _ _ _ Hr E) as [Hn Hret]. cbn [option_map]. rewrite Hn, Hret. split.
  - unfold starts_with. cbn [String.append prefix]. destruct (ascii_dec "g" "_"); [discriminate | reflexivity].
  - destruct (efn_unsafe w); [|reflexivity]. destruct (efn_params w); reflexivity.
Qed.

Lemma impl_or_const_not_accessor e : is_impl_or_const e -> not_accessor e.
Proof. intros [H|H]; eapply other_kind_not_accessor; eauto; discriminate. Qed.

Theorem build_item_not_accessor R fuel it its : build_item R fuel it = Ok its -> Forall not_accessor its.
Proof.
  intros H. pose proof H as H0. unfold build_item in H.
  destruct (item_resolved it) as [rs|] eqn:Er; [|discriminate].
  destruct (it_cat it) eqn:Ec; try (inversion H; subst its; constructor).
  destruct (rs_inner rs) as [td|ed] eqn:Ei.
  - destruct (build_item_struct_shape _ _ _ _ _ _ Er Ec Ei H0) as (name & s & checks & rest & _ & -> & Hsh & Hck & Hrest).
    destruct Hsh as [Hk _ _ _ _ _ _].
    constructor; [eapply other_kind_not_accessor; [exact Hk | discriminate]|].
    apply Forall_app. split; [eapply size_check_not_accessor; eauto|].
    eapply Forall_impl; [|exact Hrest]. apply impl_or_const_not_accessor.
  - destruct (build_item_enum_shape _ _ _ _ _ _ Er Ec Ei H0) as (name & s & checks & rest & _ & -> & Hsh & Hck & Hrest).
    destruct Hsh as [Hk _ _ _ _ _ _].
    constructor; [eapply other_kind_not_accessor; [exact Hk | discriminate]|].
    apply Forall_app. split; [eapply size_check_not_accessor; eauto|].
    eapply Forall_impl; [|exact Hrest]. apply impl_or_const_not_accessor.
Qed.

Lemma build_items_not_accessor R fuel : forall l items,
  mapM (build_item R fuel) l = Ok items -> Forall not_accessor (List.concat items).
Proof.
  induction l as [|it l IH]; intros items H; cbn [mapM] in H.
  - inversion H; subst. constructor.
  - inv_bind H. inv_bind H. inversion H; subst items; clear H. cbn [List.concat].
    apply Forall_app. split; [eapply build_item_not_accessor; eauto | eauto].
Qed.

Lemma not_accessor_filter l : Forall not_accessor l -> filter is_get_fn l = [] /\ all_somes read_extern_accessor l = [].
Proof.
  induction 1 as [|e l [Hg Hr] _ [IH1 IH2]]; [split; reflexivity|]. cbn [filter all_somes]. now rewrite Hg, Hr.
Qed.

(** ** a module's file: prologue, the items of the definitions (no accessor among them), the
    accessors of the module's extern values sorted by name, epilogue *)
Theorem module_file_accessors st m f :
  module_file st m = Ok f ->
  exists body evs,
    file_items f = Some (opaque (prologue_text m) :: body ++ evs ++ [opaque (epilogue_text m)]) /\
    Forall not_accessor body /\
    file_get_fns f = evs /\
    map read_extern_accessor evs = map accessor_of (sort ev_leb (m_extern_values m)) /\
    map Some (file_extern_accessors f) = map accessor_of (sort ev_leb (m_extern_values m)).
Proof.
  intros H. destruct (module_file_shape _ _ _ H) as (items & evs & Hitems & Hevs & ->).
  pose proof (build_items_not_accessor _ _ _ _ Hitems) as Hbody.
  destruct (build_extern_values_read _ _ Hevs) as (Hr1 & Hr2 & Hr3).
  destruct (not_accessor_filter _ Hbody) as [Hf1 Hf2].
  assert (not_accessor (opaque (prologue_text m))) as Hp by (split; reflexivity).
  assert (not_accessor (opaque (epilogue_text m))) as He by (split; reflexivity).
  exists (List.concat items), evs.
  assert (file_items (SList (Atom "file" :: attrs_sexp (file_header (m_doc m)) ::
               [SList [Atom "opaque"; Str (prologue_text m)]] ++ List.concat items ++ evs ++
               [SList [Atom "opaque"; Str (epilogue_text m)]]))
          = Some (opaque (prologue_text m) :: List.concat items ++ evs ++ [opaque (epilogue_text m)])) as Hfi
      by reflexivity.
  split; [exact Hfi|]. split; [exact Hbody|]. unfold file_get_fns, file_extern_accessors. rewrite Hfi.
  split; [|split; [exact Hr2|]].
  - cbn [filter]. destruct Hp as [-> _]. rewrite !filter_app, Hf1, Hr3. cbn [filter]. destruct He as [-> _].
    now rewrite app_nil_r.
  - cbn [all_somes]. destruct Hp as [_ ->]. rewrite !all_somes_app, Hf2. cbn [all_somes app]. destruct He as [_ ->].
    now rewrite app_nil_r.
Qed.

(** * 3. SPEC: what the declarations ask for *)
Definition declared_ev_address (attrs : list gattr) : option Z := last_some (int_attr "address") attrs None.

(** the final record of the declared extern value [gev], in the registry [R] and the scope [scope] *)
Definition final_extern (R : registry) (scope : list path) (gev : gexternvalue) : sextern :=
  {| ev_vis := gev_vis gev; ev_name := gev_name gev; ev_gtype := gev_type gev;
     ev_type := resolve_gtype R scope (gev_type gev);
     ev_address := match declared_ev_address (gev_attrs gev) with Some a => Z.to_N a | None => 0%N end |}.

(** the declaration is complete: it has an address, not negative, and its type resolves *)
Definition extern_decl_ok (R : registry) (scope : list path) (gev : gexternvalue) : Prop :=
  exists a ty, declared_ev_address (gev_attrs gev) = Some a /\ (0 <= a)%Z /\
               resolve_gtype R scope (gev_type gev) = Some ty.

(** the accessor the declaration asks for *)
Definition declared_accessor (R : registry) (k : path) (gm : gmodule) (gev : gexternvalue) : option eaccessor :=
  match declared_ev_address (gev_attrs gev), resolve_gtype R (k :: gm_uses gm) (gev_type gev) with
  | Some a, Some t => Some ("get_" +++ gev_name gev, gev_vis gev, Z.to_N a, type_tokens t)
  | _, _ => None
  end.

Definition gev_leb (a b : gexternvalue) : bool :=
  match String.compare (gev_name a) (gev_name b) with Gt => false | _ => true end.

Lemma accessor_of_final R k gm gev :
  declared_ev_address (gev_attrs gev) <> None ->
  accessor_of (final_extern R (k :: gm_uses gm) gev) = declared_accessor R k gm gev.
Proof.
  unfold accessor_of, declared_accessor, final_extern. cbn [ev_type ev_name ev_vis ev_address].
  destruct (declared_ev_address (gev_attrs gev)); [|congruence]. intros _.
  destruct (resolve_gtype R (k :: gm_uses gm) (gev_type gev)); reflexivity.
Qed.

(** ** registration: [extern_value_of] *)
Lemma extern_value_of_spec gev x :
  extern_value_of gev = Ok x ->
  exists a, declared_ev_address (gev_attrs gev) = Some a /\ (0 <= a)%Z /\
    x = {| ev_vis := gev_vis gev; ev_name := gev_name gev; ev_gtype := gev_type gev;
           ev_type := None; ev_address := Z.to_N a |}.
Proof.
  unfold extern_value_of. intros H. inv_bind H.
  pose proof (scan_int_spec "address" _ _ _ Ha) as Hs. unfold declared_ev_address.
  destruct (last_some (int_attr "address") (gev_attrs gev) None) as [z|].
  - unfold z_to_usize in Hs. destruct (Z.ltb_spec z 0) as [E|E]; cbn [option_map] in Hs; [discriminate|].
    inversion Hs; subst a. inversion H; subst x. exists z. auto.
  - subst a. discriminate.
Qed.

Lemma last_some_none {A B} (f : A -> option B) : forall l, last_some f l None = None -> Forall (fun a => f a = None) l.
Proof.
  unfold last_some. induction l as [|a l IH]; intros H; [constructor|]. cbn [fold_left] in H.
  destruct (f a) as [b|] eqn:E.
  - exfalso. exact (last_some_acc f l b H).
  - constructor; [exact E | exact (IH H)].
Qed.

(** without an [address(<int>)] attribute: the registration error *)
Lemma extern_value_of_no_address gev :
  declared_ev_address (gev_attrs gev) = None ->
  extern_value_of gev = Err "failed to find address attribute for extern value".
Proof.
  unfold declared_ev_address, extern_value_of. intros H. apply last_some_none in H.
  assert (forall acc, foldM scan_ev_attr (gev_attrs gev) acc = Ok acc) as ->; [|reflexivity].
  induction H as [|a l Ha _ IH]; intros acc; cbn [foldM]; [reflexivity|].
  assert (scan_ev_attr acc a = Ok acc) as ->; [|cbn [bind]; apply IH].
  unfold scan_ev_attr, scan_int_attr, int_attr in *.
  destruct a as [?|n [|[v|?|?] [|? ?]]|? ?]; try reflexivity.
  destruct (String.eqb n "address"); [discriminate | reflexivity].
Qed.

(** registration then resolution of a list of declarations *)
Lemma externs_registered_resolved R scope : forall gevs evs0 evs',
  Forall2 (fun g x => extern_value_of g = Ok x) gevs evs0 ->
  Forall2 (fun ev ev' =>
             match resolve_gtype R scope (ev_gtype ev) with
             | Some t => Ok {| ev_vis := ev_vis ev; ev_name := ev_name ev; ev_gtype := ev_gtype ev;
                               ev_type := Some t; ev_address := ev_address ev |}
             | None => Err "failed to resolve type for extern value"
             end = Ok ev') evs0 evs' ->
  evs' = map (final_extern R scope) gevs /\ Forall (extern_decl_ok R scope) gevs.
Proof.
  intros gevs evs0 evs' F0. revert evs'.
  induction F0 as [|g x gevs evs0 Hg _ IH]; intros evs' F1; inversion F1 as [|? ev' ? l' Hx Hrest]; subst.
  - split; [reflexivity | constructor].
  - destruct (IH _ Hrest) as [-> Hall].
    destruct (extern_value_of_spec _ _ Hg) as (a & Ha & Hz & ->). cbn [ev_gtype ev_vis ev_name ev_address] in Hx.
    destruct (resolve_gtype R scope (gev_type g)) as [t|] eqn:Et; [|discriminate].
    inversion Hx; subst ev'. split.
    + cbn [map]. f_equal. unfold final_extern. now rewrite Ha, Et.
    + constructor; [|exact Hall]. exists a, t. auto.
Qed.

(** ** the input state keeps, for every input module, its path, its syntax and the registered
    extern values *)
Lemma add_module_externs st k gm st' :
  add_module st k gm = Ok st' ->
  exists m, alookup k (st_modules st') = Some m /\ m_path m = k /\ m_ast m = gm /\
            mapM extern_value_of (gm_extern_values gm) = Ok (m_extern_values m).
Proof.
  unfold add_module. intros H. inv_bind H. rename a into evs, Ha into Hevs.
  inv_bind H. rename a into mnew, Ha into Hnew. inv_bind H. rename a into st2, Ha into Hdefs.
  set (st1 := {| st_modules := ainsert k mnew (st_modules st); st_reg := st_reg st |}) in *.
  assert (alookup k (st_modules st1) = Some mnew) as Hm1 by apply alookup_ainsert_same.
  destruct (fresh_fold (add_definition k) gi_name (fun d it => it = def_item k d) k) with
      (l := gm_defs gm) (st := st1) (st' := st2) (m := mnew)
    as (m2 & Hm2 & Hsame2 & _); [|exact Hdefs|exact Hm1|].
  { intros s d s' Hd. unfold add_definition in Hd. destruct (reg_has _ _) eqn:Eh; [discriminate|].
    split; [reflexivity|]. eexists. split; [|split; [reflexivity | exact Hd]]. reflexivity. }
  destruct (fresh_fold (add_extern_type k) (fun e : string * list gattr => fst e)
                       (fun e it => it_cat it = Extern /\ item_is_resolved it = true) k) with
      (l := gm_extern_types gm) (st := st2) (st' := st') (m := m2)
    as (m3 & Hm3 & Hsame3 & _); [|exact H|exact Hm2|].
  { intros s e s' He. unfold add_extern_type in He. inv_bind He.
    destruct a as [[size|] [al|]]; try discriminate.
    destruct (reg_has _ _) eqn:Eh; [discriminate|].
    split; [reflexivity|]. eexists. split; [|split; [|exact He]]; [reflexivity | split; reflexivity]. }
  exists m3. split; [exact Hm3|].
  destruct Hsame3 as (P3 & A3 & _ & E3 & _). destruct Hsame2 as (P2 & A2 & _ & E2 & _).
  unfold module_new in Hnew. inv_bind Hnew. inversion Hnew; subst mnew. cbn [m_path m_ast m_extern_values] in *.
  rewrite P3, P2, A3, A2, E3, E2. auto.
Qed.

Theorem input_module_externs ptr mods st0 k gm :
  input_state ptr mods = Ok st0 -> NoDup (map fst mods) -> In (k, gm) mods ->
  exists m0, alookup k (st_modules st0) = Some m0 /\ m_path m0 = k /\ m_ast m0 = gm /\
             mapM extern_value_of (gm_extern_values gm) = Ok (m_extern_values m0).
Proof.
  intros H HN Hin. destruct (in_split _ _ Hin) as (l1 & l2 & ->).
  unfold input_state in H. inv_bind H. rewrite foldM_app in H. inv_bind H. cbn [foldM fst snd] in H. inv_bind H.
  rename a1 into stb, Ha1 into Hb.
  destruct (add_module_externs _ _ _ _ Hb) as (m & Hl & Hp & Ha' & He).
  pose proof (add_modules_ext _ _ _ H) as [_ _ Hmods].
  assert (~ In k (map fst l2)) as Hk.
  { rewrite map_app in HN. cbn [map fst] in HN. apply NoDup_remove_2 in HN.
    intros X. apply HN. apply in_or_app. now right. }
  exists m. rewrite (Hmods k Hk). auto.
Qed.

(** ** the final state: the extern values of the final module are those of the declarations *)
Theorem final_extern_values order ptr mods st0 st k gm m' :
  input_state ptr mods = Ok st0 -> NoDup (map fst mods) -> collision_free (st_reg st0) ->
  pyxis_resolve order ptr mods = BOk st ->
  In (k, gm) mods -> In (k, m') (st_modules st) ->
  m_extern_values m' = map (final_extern (st_reg st) (k :: gm_uses gm)) (gm_extern_values gm) /\
  Forall (extern_decl_ok (st_reg st) (k :: gm_uses gm)) (gm_extern_values gm).
Proof.
  intros Hin HN Hcf Hres Hgm Hm'.
  destruct (accepted_loop _ _ _ _ _ Hin Hcf Hres) as (s & F & (HI & HK & [HKeys HDm]) & HM).
  rewrite (finish_build_reg _ _ F).
  pose proof (mapM_ok _ _ _ (finish_build_mods _ _ F)) as F2.
  destruct (FilesRead.Forall2_in_r _ _ _ _ F2 Hm') as ([k' ms] & Hms & Hg). cbn [fst snd] in Hg.
  inv_bind Hg. inversion Hg; subst k' a; clear Hg.
  destruct (input_state_wf _ _ _ Hin) as [_ [HND _]].
  assert (alookup k (st_modules s) = Some ms) as Hl.
  { apply in_alookup_nodup; [rewrite HKeys; exact HND | exact Hms]. }
  destruct (HDm _ _ Hl) as (m0 & Hm0 & (Hp & Hast & _ & Hev & _) & _).
  destruct (input_module_externs _ _ _ _ _ Hin HN Hgm) as (m0' & Hm0' & Hp0 & Ha0 & He0).
  rewrite Hm0 in Hm0'. inversion Hm0'; subst m0'. clear Hm0'.
  unfold resolve_extern_values in Ha. inv_bind Ha. inversion Ha; subst m'. clear Ha. cbn [m_extern_values].
  assert (module_scope ms = k :: gm_uses gm) as Hscope by (unfold module_scope; rewrite Hp, Hast, Hp0, Ha0; reflexivity).
  pose proof (mapM_ok _ _ _ Ha1) as F1. rewrite Hscope, Hev in F1.
  exact (externs_registered_resolved _ _ _ _ _ (mapM_ok _ _ _ He0) F1).
Qed.

(** * 4. Sorting commutes with the map *)
Lemma insert_sorted_map {A B} (g : A -> B) (leb : A -> A -> bool) (leb' : B -> B -> bool) :
  (forall a b, leb' (g a) (g b) = leb a b) ->
  forall x l, insert_sorted leb' (g x) (map g l) = map g (insert_sorted leb x l).
Proof.
  intros Hg x. induction l as [|y l IH]; cbn [map insert_sorted]; [reflexivity|].
  rewrite Hg. destruct (leb y x); cbn [map]; [now rewrite IH | reflexivity].
Qed.

Lemma sort_map {A B} (g : A -> B) (leb : A -> A -> bool) (leb' : B -> B -> bool) :
  (forall a b, leb' (g a) (g b) = leb a b) ->
  forall l, sort leb' (map g l) = map g (sort leb l).
Proof.
  intros Hg l. unfold sort. change (@nil B) with (map g []). generalize (@nil A) as acc.
  induction l as [|x l IH]; intros acc; cbn [map fold_left]; [reflexivity|].
  rewrite (insert_sorted_map g leb leb' Hg). apply IH.
Qed.

(** * 5. The file of an input module *)
Record extern_file_ok (R : registry) (k : path) (gm : gmodule) (f : sexp) : Prop := {
  (* every declaration has an address (not negative) and a type that resolves in the module's scope *)
  xf_decls : Forall (extern_decl_ok R (k :: gm_uses gm)) (gm_extern_values gm);
  (* the file: prologue, a body without any get_* function or accessor, then ALL the get_* functions, epilogue *)
  xf_place : exists body,
      file_items f = Some (opaque (rust_prologue gm) :: body ++ file_get_fns f ++ [opaque (rust_epilogue gm)]) /\
      Forall not_accessor body;
  (* each get_* function reads as the accessor of one declaration: those of the declarations sorted by name, in order *)
  xf_each : map read_extern_accessor (file_get_fns f)
            = map (declared_accessor R k gm) (sort gev_leb (gm_extern_values gm));
  (* what the whole file reads as: exactly the declared accessors, sorted by name *)
  xf_sorted : map Some (file_extern_accessors f)
              = map (declared_accessor R k gm) (sort gev_leb (gm_extern_values gm));
  (* hence a permutation of the declared ones: one per declaration, none else *)
  xf_perm : Permutation (map Some (file_extern_accessors f))
                        (map (declared_accessor R k gm) (gm_extern_values gm)) }.

Lemma Forall_map_ext_in {A B} (P : A -> Prop) (f g : A -> B) l :
  Forall P l -> (forall a, P a -> f a = g a) -> map f l = map g l.
Proof. induction 1 as [|a l Ha _ IH]; intros H; cbn [map]; [reflexivity|]. now rewrite (H a Ha), IH. Qed.

Theorem extern_accessors_whole order ptr mods st0 st files :
  input_state ptr mods = Ok st0 -> NoDup (map fst mods) -> collision_free (st_reg st0) ->
  keeps_work order -> pyxis_resolve order ptr mods = BOk st -> write_all st = Ok files ->
  exists fs : list (path * sexp),
    Permutation files (map file_of fs) /\
    map fst fs = filter nonroot (map fst mods) /\
    forall k gm f, In (k, gm) mods -> In (k, f) fs ->
      file_ok gm f /\ extern_file_ok (st_reg st) k gm f.
Proof.
  intros Hin HN Hcf Hord Hres Hw.
  destruct (write_all_struct _ _ Hw) as (fs & Hperm & F).
  destruct (final_modules order ptr mods st0 st Hin Hcf Hres) as (_ & _ & _ & Hkeys & Hmods).
  exists fs. split; [exact Hperm|]. split.
  { rewrite (Forall2_fst_eq _ _ _ (fun a b H => proj1 H) F). unfold nonroot_mod.
    rewrite filter_map_fst, Hkeys, (input_state_keys _ _ _ Hin HN). cbn [filter nonroot]. apply filter_idem. }
  intros k gm f Hgm Hf. destruct (FilesRead.Forall2_in_l _ _ _ _ F Hf) as ([k' m] & Hm & Hk & Hfile).
  cbn [fst snd] in *. subst k'. apply filter_In in Hm as [Hm _].
  destruct (input_module_facts _ _ _ _ _ Hin HN Hgm) as (m0 & Hreg).
  destruct (Hmods _ _ Hm) as (m0' & Hm0' & Hbk & _).
  rewrite (mr_lookup _ _ _ _ Hreg) in Hm0'. inversion Hm0'; subst m0'.
  destruct (rust_text_of_backends m gm) as [Hp He]; [rewrite Hbk; apply (mr_backends _ _ _ _ Hreg)|].
  split.
  { (* C14 part, as in files_whole *)
    destruct (module_file_read _ _ _ Hfile) as (body & Hitems & Hno & Hdecls).
    rewrite Hp, He in Hitems.
    constructor; [eauto|]. destruct (file_readers _ _ _ _ Hitems Hno) as (-> & _). rewrite Hdecls.
    eapply final_module_decls; eauto. }
  destruct (final_extern_values _ _ _ _ _ _ _ _ Hin HN Hcf Hres Hgm Hm) as [Hevs Hdecls].
  destruct (module_file_accessors _ _ _ Hfile) as (body & evs & Hitems & Hbody & Hget & Heach & Hall).
  rewrite Hp, He in Hitems.
  assert (map accessor_of (sort ev_leb (m_extern_values m))
          = map (declared_accessor (st_reg st) k gm) (sort gev_leb (gm_extern_values gm))) as Hspec.
  { rewrite Hevs, (sort_map (final_extern (st_reg st) (k :: gm_uses gm)) gev_leb ev_leb) by reflexivity.
    rewrite map_map. apply (Forall_map_ext_in (extern_decl_ok (st_reg st) (k :: gm_uses gm))).
    - rewrite Forall_forall in *. intros g Hg. apply Hdecls. eapply Permutation_in; [apply Permutation_sym, sort_perm | exact Hg].
    - intros g (a & ty & Ha & _). apply accessor_of_final. congruence. }
  constructor.
  - exact Hdecls.
  - exists body. rewrite Hget. auto.
  - rewrite Hget, Heach. exact Hspec.
  - rewrite Hall. exact Hspec.
  - rewrite Hall, Hspec. apply Permutation_map, Permutation_sym, sort_perm.
Qed.

(** the module's file exists, by name *)
Corollary extern_accessors_for_module order ptr mods st0 st files k gm :
  input_state ptr mods = Ok st0 -> NoDup (map fst mods) -> collision_free (st_reg st0) ->
  keeps_work order -> pyxis_resolve order ptr mods = BOk st -> write_all st = Ok files ->
  In (k, gm) mods -> k <> [] ->
  exists f, In (out_path k, f) files /\ file_ok gm f /\ extern_file_ok (st_reg st) k gm f.
Proof.
  intros Hin HN Hcf Hord Hres Hw Hgm Hk.
  destruct (extern_accessors_whole _ _ _ _ _ _ Hin HN Hcf Hord Hres Hw) as (fs & Hperm & Hkeys & Hall).
  assert (In k (map fst fs)) as Hkin.
  { rewrite Hkeys. apply filter_In. split; [apply in_map_iff; exists (k, gm); auto | destruct k; [congruence | reflexivity]]. }
  apply in_map_iff in Hkin as ([k' f] & E & Hf). cbn [fst] in E. subst k'.
  destruct (Hall _ _ _ Hgm Hf) as [H1 H2]. exists f. split; [|auto].
  eapply Permutation_in; [apply Permutation_sym, Hperm|]. apply in_map_iff. exists (k, f). auto.
Qed.

(** every file is the file of an input module: no accessor is emitted anywhere else *)
Corollary extern_accessors_no_other order ptr mods st0 st files name f :
  input_state ptr mods = Ok st0 -> NoDup (map fst mods) -> collision_free (st_reg st0) ->
  keeps_work order -> pyxis_resolve order ptr mods = BOk st -> write_all st = Ok files ->
  In (name, f) files ->
  exists k gm, In (k, gm) mods /\ k <> [] /\ name = out_path k /\ file_ok gm f /\ extern_file_ok (st_reg st) k gm f.
Proof.
  intros Hin HN Hcf Hord Hres Hw Hf.
  destruct (extern_accessors_whole _ _ _ _ _ _ Hin HN Hcf Hord Hres Hw) as (fs & Hperm & Hkeys & Hall).
  eapply Permutation_in in Hf; [|exact Hperm]. apply in_map_iff in Hf as ([k f'] & E & Hkf).
  unfold file_of in E. cbn [fst snd] in E. inversion E; subst name f'. clear E.
  assert (In k (filter nonroot (map fst mods))) as Hk.
  { rewrite <- Hkeys. apply in_map_iff. exists (k, f). auto. }
  apply filter_In in Hk as [Hk Hnr]. apply in_map_iff in Hk as ([k' gm] & E & Hgm). cbn [fst] in E. subst k'.
  destruct (Hall _ _ _ Hgm Hkf) as [H1 H2].
  exists k, gm. split; [exact Hgm|]. split; [destruct k; discriminate|]. auto.
Qed.

(** ** one declaration, spelled out: its accessor is in the file, with everything the property asks *)
Theorem C15_extern_accessor_of_declaration order ptr mods st0 st files k gm gev :
  input_state ptr mods = Ok st0 -> NoDup (map fst mods) -> collision_free (st_reg st0) ->
  keeps_work order -> pyxis_resolve order ptr mods = BOk st -> write_all st = Ok files ->
  In (k, gm) mods -> k <> [] -> In gev (gm_extern_values gm) ->
  exists f items e A ty,
    In (out_path k, f) files /\ file_items f = Some items /\ In e items /\
    declared_ev_address (gev_attrs gev) = Some A /\ (0 <= A)%Z /\
    resolve_gtype (st_reg st) (k :: gm_uses gm) (gev_type gev) = Some ty /\
    item_kind e = Some "fn" /\ fn_name e = Some ("get_" +++ gev_name gev) /\ fn_vis e = Some (gev_vis gev) /\
    fn_unsafe e = Some true /\ fn_params e = Some [] /\
    fn_ret_static_mut e = Some (type_tokens ty) /\
    fn_extern_target e = Some (Z.to_N A, type_tokens ty) /\
    extern_get_result e = Some (Z.to_N A).
Proof.
  intros Hin HN Hcf Hord Hres Hw Hgm Hk Hgev.
  destruct (extern_accessors_for_module _ _ _ _ _ _ _ _ Hin HN Hcf Hord Hres Hw Hgm Hk) as (f & Hf & _ & Hx).
  destruct Hx as [Hdecls (body & Hitems & _) Heach _ _].
  rewrite Forall_forall in Hdecls. destruct (Hdecls _ Hgev) as (A & ty & HA & Hz & Hty).
  assert (In (declared_accessor (st_reg st) k gm gev)
             (map read_extern_accessor (file_get_fns f))) as Hin'.
  { rewrite Heach. apply in_map. eapply Permutation_in; [apply sort_perm | exact Hgev]. }
  apply in_map_iff in Hin' as (e & He & Hein).
  unfold declared_accessor in He. rewrite HA, Hty in He.
  destruct (read_extern_accessor_sound _ _ _ _ _ He) as (H1 & H2 & H3 & H4 & H5 & H6 & H7).
  exists f. eexists. exists e, A, ty. split; [exact Hf|]. split; [exact Hitems|]. split.
  { right. apply in_or_app. right. apply in_or_app. now left. }
  repeat (split; [assumption|]). unfold extern_get_result. now rewrite H7.
Qed.

(** * 6. With [clean_stateb]: the type is the one the scoping rules select in the INPUT (C11) *)
Definition declared_accessor_spec (R0 : registry) (k : path) (gm : gmodule) (gev : gexternvalue) : option eaccessor :=
  match declared_ev_address (gev_attrs gev),
        bind_gtype (lookup_spec (reg_has R0) k (gm_uses gm)) (gev_type gev) with
  | Some a, Some t => Some ("get_" +++ gev_name gev, gev_vis gev, Z.to_N a, type_tokens t)
  | _, _ => None
  end.

Theorem declared_accessor_bound order ptr mods st0 st k gm gev :
  input_state ptr mods = Ok st0 -> NoDup (map fst mods) -> collision_free (st_reg st0) ->
  clean_stateb st0 = true -> pyxis_resolve order ptr mods = BOk st ->
  In (k, gm) mods -> In gev (gm_extern_values gm) -> reg_has (st_reg st0) k = false ->
  resolve_gtype (st_reg st) (k :: gm_uses gm) (gev_type gev)
  = bind_gtype (lookup_spec (reg_has (st_reg st0)) k (gm_uses gm)) (gev_type gev) /\
  declared_accessor (st_reg st) k gm gev = declared_accessor_spec (st_reg st0) k gm gev.
Proof.
  intros Hin HN Hcf Hcl Hres Hgm Hgev Hk.
  destruct (build_registries_reach _ _ _ _ _ Hin Hcf Hres) as (HRf & _ & _).
  destruct (input_module_externs _ _ _ _ _ Hin HN Hgm) as (m0 & Hm0 & Hp0 & Ha0 & He0).
  destruct (alookup_in _ _ _ Hm0) as (k' & Hin0 & ->).
  destruct (clean_stateb_sound _ Hcl) as [Hclm _]. specialize (Hclm _ Hin0). cbn [snd] in Hclm.
  pose proof (clean_module_scope _ Hclm) as Hcs. unfold module_scope in Hcs. rewrite Hp0, Ha0 in Hcs.
  assert (clean_gtype (gev_type gev) = true) as Hct.
  { unfold clean_module in Hclm. apply andb_prop in Hclm as [_ Hc]. apply andb_prop in Hc as [_ Hc].
    rewrite forallb_forall in Hc.
    destruct (FilesRead.Forall2_in_l _ _ _ _ (mapM_ok _ _ _ He0) Hgev) as (x & Hx & Hxv).
    destruct (extern_value_of_spec _ _ Hxv) as (a & _ & _ & ->). exact (Hc _ Hx). }
  assert (resolve_gtype (st_reg st) (k :: gm_uses gm) (gev_type gev)
          = bind_gtype (lookup_spec (reg_has (st_reg st0)) k (gm_uses gm)) (gev_type gev)) as E
      by (apply (binding_stable_gtype_spec (st_reg st0)); assumption).
  split; [exact E|]. unfold declared_accessor, declared_accessor_spec. now rewrite E.
Qed.

(** the file of the module, read against the INPUT registry: with [clean_stateb], and when the module
    path is not itself an item path, the accessors are those of the declarations with the types bound
    by the four scoping rules ([lookup_spec]) among the definitions of the input *)
Theorem extern_accessors_bound order ptr mods st0 st files k gm :
  input_state ptr mods = Ok st0 -> NoDup (map fst mods) -> collision_free (st_reg st0) ->
  clean_stateb st0 = true ->
  keeps_work order -> pyxis_resolve order ptr mods = BOk st -> write_all st = Ok files ->
  In (k, gm) mods -> k <> [] -> reg_has (st_reg st0) k = false ->
  exists f,
    In (out_path k, f) files /\ file_ok gm f /\ extern_file_ok (st_reg st) k gm f /\
    map Some (file_extern_accessors f)
    = map (declared_accessor_spec (st_reg st0) k gm) (sort gev_leb (gm_extern_values gm)) /\
    Permutation (map Some (file_extern_accessors f))
                (map (declared_accessor_spec (st_reg st0) k gm) (gm_extern_values gm)).
Proof.
  intros Hin HN Hcf Hcl Hord Hres Hw Hgm Hk Hreg.
  destruct (extern_accessors_for_module _ _ _ _ _ _ _ _ Hin HN Hcf Hord Hres Hw Hgm Hk) as (f & Hf & Hok & Hx).
  exists f. split; [exact Hf|]. split; [exact Hok|]. split; [exact Hx|].
  assert (forall l, (forall g, In g l -> In g (gm_extern_values gm)) ->
                    map (declared_accessor (st_reg st) k gm) l = map (declared_accessor_spec (st_reg st0) k gm) l) as E.
  { intros l Hl. apply map_ext_in. intros g Hg.
    exact (proj2 (declared_accessor_bound _ _ _ _ _ _ _ _ Hin HN Hcf Hcl Hres Hgm (Hl _ Hg) Hreg)). }
  split.
  - rewrite (xf_sorted _ _ _ _ Hx). apply E. intros g Hg.
    eapply Permutation_in; [apply Permutation_sym, sort_perm | exact Hg].
  - rewrite <- (E (gm_extern_values gm)) by auto. exact (xf_perm _ _ _ _ Hx).
Qed.

(** * 7. An extern value without an address is rejected *)
Lemma mapM_err_in {A B} (f : A -> outcome B) (msg : string) : (forall a, oe (f a)) ->
  forall l a, In a l -> f a = Err msg -> exists msg', mapM f l = Err msg'.
Proof.
  intros Hoe. induction l as [|x l IH]; intros a Hin Ha; [destruct Hin|]. cbn [mapM].
  destruct Hin as [->|Hin].
  - rewrite Ha. cbn [bind]. eauto.
  - specialize (Hoe x). destruct (f x) as [y| | |] eqn:E; cbn [bind]; try contradiction; [|eauto].
    destruct (IH _ Hin Ha) as (msg' & ->). cbn [bind]. eauto.
Qed.

Lemma foldM_err_in {A S} (f : S -> A -> outcome S) : (forall s a, oe (f s a)) ->
  forall l a, In a l -> (forall s, exists msg, f s a = Err msg) -> forall s, exists msg, foldM f l s = Err msg.
Proof.
  intros Hoe. induction l as [|x l IH]; intros a Hin Ha s; [destruct Hin|]. cbn [foldM].
  destruct Hin as [->|Hin].
  - destruct (Ha s) as (msg & ->). cbn [bind]. eauto.
  - specialize (Hoe s x). destruct (f s x) as [s1| | |] eqn:E; cbn [bind]; try contradiction; [|eauto].
    exact (IH _ Hin Ha s1).
Qed.

Theorem add_module_without_address st k gm gev :
  In gev (gm_extern_values gm) -> declared_ev_address (gev_attrs gev) = None ->
  exists msg, add_module st k gm = Err msg.
Proof.
  intros Hin Hn. unfold add_module.
  destruct (mapM_err_in extern_value_of _ extern_value_of_oe _ _ Hin (extern_value_of_no_address _ Hn)) as (msg & ->).
  cbn [bind]. eauto.
Qed.

Theorem extern_without_address_rejected order ptr mods k gm gev :
  In (k, gm) mods -> In gev (gm_extern_values gm) -> declared_ev_address (gev_attrs gev) = None ->
  exists msg, input_state ptr mods = Err msg /\ pyxis_resolve order ptr mods = BErr msg.
Proof.
  intros Hgm Hgev Hn.
  assert (exists msg, input_state ptr mods = Err msg) as (msg & E).
  { unfold input_state.
    assert (oe (sem_new ptr)) as Hs by (unfold sem_new; apply oe_foldM; intros; apply add_item_oe).
    destruct (sem_new ptr) as [s0| | |]; cbn [bind]; try contradiction; [|eauto].
    apply (foldM_err_in (fun st pm => add_module st (fst pm) (snd pm))) with (a := (k, gm)).
    - intros s a. apply add_module_oe.
    - exact Hgm.
    - intros s. cbn [fst snd]. eapply add_module_without_address; eauto. }
  exists msg. split; [exact E|]. unfold pyxis_resolve. unfold input_state in E. now rewrite E.
Qed.

Corollary extern_without_address_not_accepted order ptr mods k gm gev st :
  In (k, gm) mods -> In gev (gm_extern_values gm) -> declared_ev_address (gev_attrs gev) = None ->
  pyxis_resolve order ptr mods <> BOk st.
Proof.
  intros Hgm Hgev Hn. destruct (extern_without_address_rejected order ptr _ _ _ _ Hgm Hgev Hn) as (msg & _ & ->).
  discriminate.
Qed.

Print Assumptions read_extern_accessor_sound.
Print Assumptions module_file_accessors.
Print Assumptions final_extern_values.
Print Assumptions extern_accessors_whole.
Print Assumptions extern_accessors_for_module.
Print Assumptions extern_accessors_no_other.
Print Assumptions C15_extern_accessor_of_declaration.
Print Assumptions declared_accessor_bound.
Print Assumptions extern_accessors_bound.
Print Assumptions extern_without_address_rejected.
