(** * EmitLayout: the layout theorems, stated about the EMITTED struct.

    [emitted_struct_layout] is the Rust Reference's repr(C) / packed algorithm (RustLayout.v)
    computed from what is READ BACK from the emitted struct item: its field list and its [repr]
    attribute.  The sizes and alignments of the field types are an input (one pair per field, in
    order); the theorems instantiate them with [size_of] / [align_of] of the final registry on the
    types whose tokens the emitted fields carry.

    [emitted_struct_whole_build]: for every struct the input declares, in every accepted,
    [collision_free] build whose files are written, the file of the declaring module contains the
    struct item; the layout computed from that item gives the struct the resolved size and
    alignment, the size is the literal of the emitted size check, and every declared named field
    that is kept sits at its declared offset. *)
From Coq Require Import List NArith ZArith Bool Lia String Permutation.
From PyxisModel Require Import Base Sexp Grammar SemTypes Registry Sem SemLemmas RustLayout LayoutLemmas
     PlacementLemmas Emit EmitLemmas WholeBuild FinalState EmitReaders EmitShape EmitFinal EmitFind.
Import ListNotations.
Local Open Scope string_scope.
Local Open Scope list_scope.
Local Open Scope N_scope.

(** ** the layout of an emitted struct *)
Definition repr_layout (rp : repr) (fs : list sa) : list N * N * N :=
  match rp with
  | ReprPacked => packed_layout fs
  | ReprAlign a => struct_layout a fs
  end.

(** (field name, offset) for every field, the size and the alignment of the struct; [field_sas] is
    the (size, alignment) of each field's type, in field order *)
Definition emitted_struct_layout (field_sas : list sa) (s : sexp) : option (list (string * N) * N * N) :=
  match struct_fields s, struct_repr s with
  | Some efs, Some rp =>
    if Nat.eqb (List.length efs) (List.length field_sas) then
      let '(offs, sz, al) := repr_layout rp field_sas in
      Some (combine (map ef_name efs) offs, sz, al)
    else None
  | _, _ => None
  end.

(** the size and alignment the registry gives to a type ([0] when unknown, as in [region_sa]) *)
Definition type_sa (R : registry) (t : stype) : sa :=
  (match size_of R t with Some s => s | None => 0 end,
   match align_of R t with Some a => a | None => 0 end).

Lemma region_sa_type_sa R rs : map (region_sa R) rs = map (type_sa R) (map r_type rs).
Proof. rewrite map_map. reflexivity. Qed.

(** ** from the shape of the emitted struct to its layout *)
Lemma Forall2_length' {A B} (P : A -> B -> Prop) l1 l2 : Forall2 P l1 l2 -> List.length l1 = List.length l2.
Proof. induction 1; cbn; congruence. Qed.

Lemma fields_tokens regions efs :
  Forall2 field_of_region regions efs -> map ef_ty efs = map type_tokens (map r_type regions).
Proof. induction 1 as [|r f rs fs (_ & Ht & _) _ IH]; cbn [map]; [reflexivity|]. now rewrite Ht, IH. Qed.

Lemma fields_names regions efs :
  Forall2 field_of_region regions efs -> map r_name regions = map (fun f => Some (ef_name f)) efs.
Proof. induction 1 as [|r f rs fs (Hn & _) _ IH]; cbn [map]; [reflexivity|]. now rewrite Hn, IH. Qed.

Lemma combine_fst_eq {A B} : forall (a : list A) (b : list B),
  List.length a = List.length b -> map fst (combine a b) = a.
Proof.
  induction a as [|x a IH]; intros [|y b] H; cbn in *; try discriminate; [reflexivity|].
  f_equal. apply IH. congruence.
Qed.

(** offsets by region and offsets by emitted field name agree *)
Lemma combine_names : forall regions efs, Forall2 field_of_region regions efs ->
  forall (offs : list N) off r nm, In (off, r) (combine offs regions) -> r_name r = Some nm ->
  In (nm, off) (combine (map ef_name efs) offs).
Proof.
  induction 1 as [|r0 f regions efs (Hn & _) _ IH]; intros offs off r nm Hin Hnm.
  - destruct offs; destruct Hin.
  - destruct offs as [|o offs]; [destruct Hin|]. cbn [combine map] in *. destruct Hin as [E|Hin].
    + inversion E; subst. left. rewrite Hn in Hnm. now inversion Hnm.
    + right. eapply IH; eauto.
Qed.

Theorem emitted_layout_of_shape R name v td s size alignment :
  struct_shape name alignment v td s ->
  let fs := map (region_sa R) (td_regions td) in
  (td_packed td = false -> struct_layout alignment fs = (prefix_sums 0 fs, size, alignment)) ->
  (td_packed td = true -> alignment = 1 /\ packed_layout fs = (prefix_sums 0 fs, size, 1)) ->
  exists efs, struct_fields s = Some efs /\ Forall2 field_of_region (td_regions td) efs /\
    emitted_struct_layout (map (type_sa R) (map r_type (td_regions td))) s
    = Some (combine (map ef_name efs) (field_offsets (td_packed td) alignment fs), size, alignment) /\
    field_offsets (td_packed td) alignment fs = prefix_sums 0 fs.
Proof.
  intros Hsh fs Hnp Hp. destruct Hsh as [_ _ _ (efs & Hfields & Hfs) Hrepr _ _].
  exists efs. split; [exact Hfields|]. split; [exact Hfs|].
  unfold emitted_struct_layout. rewrite Hfields, Hrepr, <- region_sa_type_sa. fold fs.
  assert (List.length fs = List.length efs) as ->
      by (unfold fs; rewrite map_length; eapply Forall2_length'; eauto).
  rewrite Nat.eqb_refl.
  unfold field_offsets. destruct (td_packed td) eqn:E; cbn [repr_layout].
  - destruct (Hp eq_refl) as [-> ->]. split; reflexivity.
  - rewrite (Hnp eq_refl). split; reflexivity.
Qed.

(** ** Part 2: end to end, about the emitted file *)
Theorem emitted_struct_whole_build order ptr mods st0 st files p it0 gd td0 :
  input_state ptr mods = Ok st0 -> NoDup (map fst mods) -> collision_free (st_reg st0) ->
  keeps_work order ->
  pyxis_resolve order ptr mods = BOk st -> write_all st = Ok files ->
  reg_get (st_reg st0) p = Some it0 -> it_state it0 = Unresolved gd -> gi_inner gd = GIType td0 ->
  path_parent p <> Some [] ->
  exists parent name it r td f pre s checks rest post efs noffs,
    (* the item, resolved, in the final registry *)
    path_parent p = Some parent /\ path_last p = Some name /\
    reg_get (st_reg st) p = Some it /\ it_state it = Resolved r /\ rs_inner r = IType td /\
    (* the file of its module holds the struct item, then its size check, then impls *)
    In (out_path parent, f) files /\
    file_items f = Some (pre ++ (s :: checks ++ rest) ++ post) /\
    find_struct name (pre ++ (s :: checks ++ rest) ++ post) = Some s /\
    struct_shape name (rs_align r) (it_vis it0) td s /\
    size_check_shape name (rs_size r) checks /\
    Forall is_impl_or_const rest /\
    (* the layout computed from the emitted struct *)
    let R := st_reg st in
    let tys := map r_type (td_regions td) in
    struct_fields s = Some efs /\ map ef_ty efs = map type_tokens tys /\
    emitted_struct_layout (map (type_sa R) tys) s = Some (noffs, rs_size r, rs_align r) /\
    map fst noffs = map ef_name efs /\
    (* every declared named field that is kept is at its declared offset *)
    exists R_mid module n pending vfs start,
      ext (st_reg st0) (st_reg st0) R_mid /\ ext (st_reg st0) R_mid R /\
      foldM (process_statement R_mid (module_scope module)) (gt_stmts td0) (O, ([], None))
        = Ok (n, (pending, vfs)) /\
      (start = 0 \/ (start = reg_ptr R /\
                     exists ty, hd_error (td_regions td) = Some (vftable_region_of (TConstPtr ty)))) /\
      Forall (fun x => forall nm, r_name (snd x) = Some nm -> In (nm, fst x) noffs)
             (declared_offsets R start pending).
Proof.
  intros Hin HN Hcf Hord Hres Hw Hg0 Hs0 Hty Hroot.
  destruct (accepted_declared_item _ _ _ _ _ _ _ _ Hin HN Hcf Hord Hres Hg0 Hs0)
    as (it & r & parent & m & Hg & Hs & Hpath & Hvis & Hcat & Hpar & Hmod & Hdef & HK & Hnd & Hparents).
  destruct (whole_build_layout _ _ _ _ _ _ _ _ _ _ _ Hin Hcf Hres Hg0 Hs0 Hty Hg Hs)
    as (td & Hi & _ & _ & Hnp & Hp).
  destruct (whole_build_offsets _ _ _ _ _ _ _ _ _ _ _ Hin Hcf Hres Hg0 Hs0 Hty Hg Hs)
    as (td' & R_mid & module & n & pending & vfs & start & Hi' & He1 & He2 & Hstm & Hstart & Hoffs).
  rewrite Hi in Hi'. inversion Hi'; subst td'. clear Hi'. cbn zeta in Hnp, Hp, Hstart, Hoffs.
  assert (parent <> []) as Hne by (intros ->; contradiction).
  destruct (write_all_in _ _ _ _ Hw Hmod Hne) as (f & Hf & Hfile).
  destruct (module_file_items _ _ _ _ _ Hf Hdef Hg) as (pre0 & its & post0 & Hb & _).
  assert (item_resolved it = Some r) as Hr by (unfold item_resolved; now rewrite Hs).
  destruct (build_item_struct_shape _ _ _ _ _ _ Hr Hcat Hi Hb)
    as (name & s & checks & rest & Hname & -> & Hshape & Hcheck & Hrest).
  rewrite Hpath in Hname. rewrite Hvis in Hshape.
  destruct (module_file_find_struct _ _ _ _ _ _ _ _ _ Hf HK Hnd Hparents Hdef Hg Hname Hb
              (struct_shape_is_named _ _ _ _ _ Hshape)) as (pre & post & Hitems & _ & Hfind).
  destruct (emitted_layout_of_shape (st_reg st) _ _ _ _ (rs_size r) _ Hshape) as (efs & Hfields & Hfs & Hlay & Hfo).
  { intros E. destruct (Hnp E) as [-> _]. reflexivity. }
  { exact Hp. }
  exists parent, name, it, r, td, f, pre, s, checks, rest, post, efs.
  eexists. split; [exact Hpar|]. split; [exact Hname|]. split; [exact Hg|]. split; [exact Hs|].
  split; [exact Hi|]. split; [exact Hfile|]. split; [exact Hitems|]. split; [exact Hfind|]. split; [exact Hshape|].
  split; [exact Hcheck|]. split; [exact Hrest|]. cbn zeta.
  split; [exact Hfields|]. split; [now apply fields_tokens|]. split; [exact Hlay|].
  split.
  { rewrite Hfo. apply combine_fst_eq. rewrite prefix_sums_length, !map_length. symmetry. eapply Forall2_length'; eauto. }
  exists R_mid, module, n, pending, vfs, start.
  split; [exact He1|]. split; [exact He2|]. split; [exact Hstm|]. split; [exact Hstart|].
  eapply Forall_impl; [|exact Hoffs]. intros [off rg] Hx nm Hnm. cbn [fst snd] in *.
  eapply combine_names; [exact Hfs | | exact Hnm]. apply Hx. congruence.
Qed.

Print Assumptions emitted_struct_whole_build.

(** the same with the decidable side condition and a permutation-valued order function (the
    hypotheses of OutputIndep.v) *)
Corollary emitted_struct_whole_build_b order ptr mods st0 st files p it0 gd td0 :
  input_state ptr mods = Ok st0 -> NoDup (map fst mods) -> collision_freeb (st_reg st0) = true ->
  (forall l, Permutation (order l) l) ->
  pyxis_resolve order ptr mods = BOk st -> write_all st = Ok files ->
  reg_get (st_reg st0) p = Some it0 -> it_state it0 = Unresolved gd -> gi_inner gd = GIType td0 ->
  path_parent p <> Some [] ->
  exists parent name it r td f items s noffs,
    path_parent p = Some parent /\ path_last p = Some name /\
    reg_get (st_reg st) p = Some it /\ it_state it = Resolved r /\ rs_inner r = IType td /\
    In (out_path parent, f) files /\ file_items f = Some items /\ find_struct name items = Some s /\
    struct_shape name (rs_align r) (it_vis it0) td s /\
    emitted_struct_layout (map (type_sa (st_reg st)) (map r_type (td_regions td))) s
    = Some (noffs, rs_size r, rs_align r) /\
    (rs_size r <> 0 -> exists c fn, In c items /\ read_size_check c = Some (fn, name, rs_size r, rs_size r)).
Proof.
  intros Hin HN Hcf Hord Hres Hw Hg0 Hs0 Hty Hroot.
  destruct (emitted_struct_whole_build order ptr mods st0 st files p it0 gd td0 Hin HN
              (collision_freeb_sound _ Hcf) (perm_keeps_work _ Hord) Hres Hw Hg0 Hs0 Hty Hroot)
    as (parent & name & it & r & td & f & pre & s & checks & rest & post & efs & noffs &
        Hpar & Hname & Hg & Hs & Hi & Hfile & Hitems & Hfind & Hshape & Hcheck & _ & _ & _ & Hlay & _).
  exists parent, name, it, r, td, f, (pre ++ (s :: checks ++ rest) ++ post), s, noffs.
  repeat (split; [assumption|]).
  intros Hne. destruct Hcheck as [[E _]|(_ & c & -> & _ & Hc)]; [contradiction|].
  exists c, ("_" +++ name +++ "_size_check"). split; [|exact Hc].
  apply in_or_app. right. apply in_or_app. left. right. now left.
Qed.
