(** * EmitVftLayout: the Reference layout of the EMITTED [<T>Vftable] struct (C02 and C04 for the
    generated structs).

    For the structs the input DECLARES, [EmitLayout.emitted_struct_whole_build] says that the
    Rust Reference's repr(C) algorithm ([RustLayout.struct_layout]), run on what is read back from
    the emitted struct item, gives the resolved size / alignment and the declared offsets.  For the
    GENERATED vftable structs the registry record ([Sem.vftable_item]: size [n * ptr], alignment
    [ptr]) was so far only "true by definition".  This file closes that gap:

    - Part 1 (pure [RustLayout]): [n] fields of size = alignment = [ptr] under [repr(C, align(ptr))]
      are at [0, ptr, 2*ptr, ..]; the struct has size [n * ptr] and alignment [ptr] -- for every
      [n >= 0] and EVERY [ptr] (no power-of-two / non-zero hypothesis is needed by the arithmetic);
    - Part 2 ([vftable_item_emitted_layout]): the struct emitted for [vftable_item R owner v fs]:
      every field type is a fn pointer, the layout computed from the emitted item is
      (slot names paired with [k * ptr], [n * ptr], [ptr]), these are the [rs_size] / [rs_align]
      the registry records for the generated item, and the emitted size check carries [n * ptr];
    - Part 3 ([emitted_vftable_layout_whole_build]): the same for the [<T>Vftable] struct found in
      the module's file of an accepted collision-free build, against the generated item of the
      FINAL registry; [emitted_indexed_slot_whole_build]: a virtual function declared in the block
      sits at byte offset [pos * ptr], [pos] its position in the slot plan ([#[index(i)]] => [i]). *)
From Coq Require Import List NArith ZArith Bool Lia String Permutation.
From PyxisModel Require Import Base Sexp Grammar SemTypes Registry Sem SemLemmas FunctionLemmas
     VftableLemmas RustLayout LayoutLemmas PlacementLemmas Emit EmitLemmas WholeBuild Monotone FinalState
     EmitReaders EmitShape EmitFinal EmitFind EmitLayout EmitFnReaders EmitFnShape EmitFnFinal.
Import ListNotations.
Local Open Scope string_scope.
Local Open Scope list_scope.
Local Open Scope N_scope.

(** * Part 1: the Reference's algorithm on [n] pointer-sized, pointer-aligned fields *)

(** the offsets [start * ptr, (start+1) * ptr, ..] ([n] of them) *)
Definition slot_offsets (ptr : N) (start n : nat) : list N :=
  map (fun k => N.of_nat k * ptr) (seq start n).

Lemma slot_offsets_length ptr start n : List.length (slot_offsets ptr start n) = n.
Proof. unfold slot_offsets. now rewrite map_length, seq_length. Qed.

Lemma slot_offsets_nth ptr n k : (k < n)%nat ->
  nth_error (slot_offsets ptr 0 n) k = Some (N.of_nat k * ptr).
Proof.
  intros Hk. unfold slot_offsets.
  apply (map_nth_error (fun j => N.of_nat j * ptr) k (seq 0 n)).
  rewrite (nth_error_nth' (seq 0 n) O) by (now rewrite seq_length).
  now rewrite seq_nth.
Qed.

(** a multiple of [a] needs no padding to be [a]-aligned (also for [a = 0]: [0 mod 0 = 0]) *)
Lemma round_up_mul k a : round_up (k * a) a = k * a.
Proof.
  unfold round_up. destruct (N.eq_dec a 0) as [->|Ha].
  - now rewrite N.mul_0_r.
  - now rewrite N.mod_mul, N.eqb_refl by exact Ha.
Qed.

Lemma place_fnptrs ptr : forall n k,
  place (N.of_nat k * ptr) ptr (repeat (ptr, ptr) n)
  = (slot_offsets ptr k n, N.of_nat (k + n) * ptr, ptr).
Proof.
  induction n as [|n IH]; intros k; cbn [repeat place].
  - unfold slot_offsets. cbn [seq map]. now rewrite Nat.add_0_r.
  - rewrite round_up_mul, N.max_id.
    replace (N.of_nat k * ptr + ptr) with (N.of_nat (S k) * ptr) by lia.
    rewrite IH. unfold slot_offsets. cbn [seq map].
    replace (S k + n)%nat with (k + S n)%nat by lia. reflexivity.
Qed.

(** [#[repr(C, align(ptr))] struct { f0: fnptr, .., f(n-1): fnptr }]: offsets, size, alignment.
    [n = 0]: no field, size [0], alignment [ptr] (from the [align] modifier alone). *)
Theorem struct_layout_fnptrs ptr n :
  struct_layout ptr (repeat (ptr, ptr) n) = (slot_offsets ptr 0 n, N.of_nat n * ptr, ptr).
Proof.
  unfold struct_layout. pose proof (place_fnptrs ptr n 0) as H.
  rewrite N.mul_0_l in H. rewrite H. cbn [Nat.add]. now rewrite round_up_mul.
Qed.

(** the alignment attribute matters only for the empty table: without it ([align(1)], the
    neutral value) [n >= 1] pointer fields still give alignment [ptr] *)
Lemma struct_layout_fnptrs_noattr ptr n : (0 < n)%nat -> 1 <= ptr ->
  struct_layout 1 (repeat (ptr, ptr) n) = (slot_offsets ptr 0 n, N.of_nat n * ptr, ptr).
Proof.
  intros Hn Hp. destruct n as [|n]; [lia|]. unfold struct_layout. cbn [repeat place].
  change (round_up 0 ptr) with 0. rewrite N.add_0_l, (N.max_r 1 ptr) by exact Hp.
  pose proof (place_fnptrs ptr n 1) as H. change (N.of_nat 1) with 1 in H. rewrite N.mul_1_l in H.
  rewrite H. rewrite round_up_mul. unfold slot_offsets. cbn [seq map Nat.add]. now rewrite N.mul_0_l.
Qed.

(** * Part 2: the struct emitted for a generated vftable item *)

(** the types of the slot fields, in slot order: [function_to_region] makes each a [TFunction] *)
Definition slot_types (owner : path) (fs : list sfunction) : list stype :=
  map r_type (map (function_to_region owner) fs).

Definition is_fnptr_type (t : stype) : Prop := exists c args ret, t = TFunction c args ret.

Lemma slot_types_fnptr owner fs : Forall is_fnptr_type (slot_types owner fs).
Proof.
  unfold slot_types. induction fs as [|f fs IH]; cbn [map]; constructor; [|exact IH].
  unfold function_to_region. cbn [r_type]. unfold is_fnptr_type. eauto.
Qed.

Lemma slot_types_length owner fs : List.length (slot_types owner fs) = List.length fs.
Proof. unfold slot_types. now rewrite !map_length. Qed.

(** a fn pointer has size = alignment = the pointer width, whatever the registry holds *)
Lemma type_sa_fnptr R t : is_fnptr_type t -> type_sa R t = (reg_ptr R, reg_ptr R).
Proof. intros (c & a & r & ->). reflexivity. Qed.

Lemma size_align_fnptr R t : is_fnptr_type t ->
  size_of R t = Some (reg_ptr R) /\ align_of R t = Some (reg_ptr R).
Proof. intros (c & a & r & ->). split; reflexivity. Qed.

Lemma slot_types_sa R owner fs :
  map (type_sa R) (slot_types owner fs) = repeat (reg_ptr R, reg_ptr R) (List.length fs).
Proof.
  pose proof (slot_types_fnptr owner fs) as H. rewrite <- (slot_types_length owner fs).
  induction H as [|t ts Ht _ IH]; cbn [map repeat List.length]; [reflexivity|].
  now rewrite (type_sa_fnptr R t Ht), IH.
Qed.

(** names and type tokens of the emitted slot fields *)
Lemma slot_fields_names owner fs efs :
  Forall2 (slot_of_function owner) fs efs -> map ef_name efs = map sf_name fs.
Proof. induction 1 as [|f ef fs efs H _ IH]; cbn [map]; [reflexivity|]. now rewrite (sl_name _ _ _ H), IH. Qed.

(** (slot name, byte offset) for a table of [fs] at pointer width [ptr] *)
Definition slot_layout (ptr : N) (fs : list sfunction) : list (string * N) :=
  combine (map sf_name fs) (slot_offsets ptr 0 (List.length fs)).

Lemma nth_error_combine {A B} : forall (a : list A) (b : list B) k x y,
  nth_error a k = Some x -> nth_error b k = Some y -> nth_error (combine a b) k = Some (x, y).
Proof.
  induction a as [|a0 a IH]; intros [|b0 b] [|k] x y Ha Hb; cbn in *; try discriminate.
  - now inversion Ha; inversion Hb.
  - now apply IH.
Qed.

(** slot [k] is the [k]-th entry, at byte offset [k * ptr] *)
Lemma slot_layout_nth ptr fs k f :
  nth_error fs k = Some f -> nth_error (slot_layout ptr fs) k = Some (sf_name f, N.of_nat k * ptr).
Proof.
  intros H. unfold slot_layout. apply nth_error_combine.
  - now apply map_nth_error.
  - apply slot_offsets_nth. apply nth_error_Some. congruence.
Qed.

Lemma slot_layout_in ptr fs k f :
  nth_error fs k = Some f -> In (sf_name f, N.of_nat k * ptr) (slot_layout ptr fs).
Proof. intros H. eapply nth_error_In. now apply slot_layout_nth. Qed.

Lemma slot_layout_fst ptr fs : map fst (slot_layout ptr fs) = map sf_name fs.
Proof. unfold slot_layout. apply combine_fst_eq. now rewrite slot_offsets_length, map_length. Qed.

Lemma slot_layout_length ptr fs : List.length (slot_layout ptr fs) = List.length fs.
Proof. rewrite <- (map_length fst), slot_layout_fst. apply map_length. Qed.

(** from the shape of the emitted struct to its layout: any struct item with [repr(C, align(ptr))]
    and one field per slot function, laid out with [n] pointer-sized, pointer-aligned field types *)
Theorem vftable_layout_of_fields ptr owner fs s efs :
  struct_repr s = Some (ReprAlign ptr) -> struct_fields s = Some efs ->
  Forall2 (slot_of_function owner) fs efs ->
  emitted_struct_layout (repeat (ptr, ptr) (List.length fs)) s
  = Some (slot_layout ptr fs, N.of_nat (List.length fs) * ptr, ptr).
Proof.
  intros Hrepr Hfields Hall. unfold emitted_struct_layout. rewrite Hfields, Hrepr, repeat_length.
  rewrite <- (Forall2_length' _ _ _ Hall), Nat.eqb_refl. cbn [repr_layout].
  rewrite struct_layout_fnptrs. unfold slot_layout. now rewrite (slot_fields_names _ _ _ Hall).
Qed.

(** ** the registry's record of the generated item *)
Theorem vftable_item_resolved R owner v fs vit :
  vftable_item R owner v fs = Some vit ->
  exists rs td,
    item_resolved vit = Some rs /\ it_cat vit = Defined /\ it_vis vit = v /\
    vftable_path owner = Some (it_path vit) /\
    rs_size rs = N.of_nat (List.length fs) * reg_ptr R /\ rs_align rs = reg_ptr R /\
    rs_inner rs = IType td /\ td_regions td = map (function_to_region owner) fs /\
    td_packed td = false /\ td_vftable td = None /\ td_assoc td = [] /\ td_singleton td = None.
Proof.
  unfold vftable_item. intros H. destruct (vftable_path owner) as [vp|]; [|discriminate].
  inversion H; subst vit; clear H. eexists _, _. cbn. rewrite map_length. repeat split; reflexivity.
Qed.

(** ** the emitted item *)
Theorem vftable_item_emitted_layout R R' fuel owner v fs vit items :
  vftable_item R owner v fs = Some vit -> build_item R' fuel vit = Ok items ->
  reg_ptr R' = reg_ptr R ->
  let ptr := reg_ptr R in
  let n := N.of_nat (List.length fs) in
  let tys := slot_types owner fs in
  exists tname s checks rest efs rs,
    path_last owner = Some tname /\ items = s :: checks ++ rest /\
    (* the struct item: name, visibility, alignment attribute, one fn-pointer field per slot *)
    item_kind s = Some "struct" /\ struct_name s = Some (tname +++ "Vftable") /\ struct_vis s = Some v /\
    struct_repr s = Some (ReprAlign ptr) /\
    struct_fields s = Some efs /\ Forall2 (slot_of_function owner) fs efs /\
    map ef_ty efs = map type_tokens tys /\ Forall is_fnptr_type tys /\
    map (type_sa R') tys = repeat (ptr, ptr) (List.length fs) /\
    (* the Reference layout of the emitted item *)
    emitted_struct_layout (map (type_sa R') tys) s = Some (slot_layout ptr fs, n * ptr, ptr) /\
    (* the registry's record: the same size and alignment *)
    item_resolved vit = Some rs /\ rs_size rs = n * ptr /\ rs_align rs = ptr /\
    emitted_struct_layout (map (type_sa R') tys) s = Some (slot_layout ptr fs, rs_size rs, rs_align rs) /\
    (* the size check carries the same number; nothing else but impls / consts follows *)
    size_check_shape (tname +++ "Vftable") (n * ptr) checks /\ Forall is_impl_or_const rest.
Proof.
  intros Hvi Hb Hptr ptr n tys.
  destruct (vftable_item_resolved _ _ _ _ _ Hvi)
    as (rs & td & Hr & Hcat & Hvis & Hvp & Hsz & Hal & Hi & Hregs & Hnp & _).
  destruct (vftable_item_struct_shape _ _ _ _ _ _ _ _ Hvi Hb)
    as (parent & tname & vp & s & rest0 & efs & _ & Htn & _ & Hvpeq & Hpath & Hitems & Hk & Hname & Hv & Hrepr & Hfields & Hall).
  destruct (build_item_struct_shape _ _ _ _ _ _ Hr Hcat Hi Hb)
    as (name & s' & checks & rest & Hname' & Hitems' & Hshape & Hcheck & Hrest).
  rewrite Hitems in Hitems'. inversion Hitems'; subst s' rest0. clear Hitems'.
  assert (name = tname +++ "Vftable") as ->.
  { pose proof (ss_name _ _ _ _ _ Hshape) as E. rewrite Hname in E. now inversion E. }
  assert (map ef_ty efs = map type_tokens tys) as Htoks.
  { destruct (ss_fields _ _ _ _ _ Hshape) as (efs' & Hfields' & Hfs). rewrite Hfields in Hfields'.
    inversion Hfields'; subst efs'. rewrite Hregs in Hfs. now apply fields_tokens. }
  assert (map (type_sa R') tys = repeat (ptr, ptr) (List.length fs)) as Hsas
      by (unfold tys, ptr; rewrite slot_types_sa, Hptr; reflexivity).
  assert (emitted_struct_layout (map (type_sa R') tys) s = Some (slot_layout ptr fs, n * ptr, ptr)) as Hlay
      by (rewrite Hsas; eapply vftable_layout_of_fields; eauto).
  exists tname, s, checks, rest, efs, rs.
  split; [exact Htn|]. split; [exact Hitems|]. split; [exact Hk|]. split; [exact Hname|].
  split; [exact Hv|]. split; [exact Hrepr|]. split; [exact Hfields|]. split; [exact Hall|].
  split; [exact Htoks|]. split; [apply slot_types_fnptr|]. split; [exact Hsas|]. split; [exact Hlay|].
  split; [exact Hr|]. split; [exact Hsz|]. split; [exact Hal|].
  split; [rewrite Hsz, Hal; exact Hlay|]. split; [rewrite Hsz in Hcheck; exact Hcheck | exact Hrest].
Qed.

(** slot [k] of the emitted struct: the [k]-th field, named after the [k]-th slot function, whose
    type reads back as a fn pointer, at byte offset [k * ptr] *)
Corollary vftable_item_emitted_slot R R' fuel owner v fs vit items k f :
  vftable_item R owner v fs = Some vit -> build_item R' fuel vit = Ok items ->
  reg_ptr R' = reg_ptr R -> nth_error fs k = Some f ->
  exists s rest efs ef noffs sz al,
    items = s :: rest /\ struct_fields s = Some efs /\ nth_error efs k = Some ef /\
    slot_of_function owner f ef /\
    emitted_struct_layout (map (type_sa R') (slot_types owner fs)) s = Some (noffs, sz, al) /\
    nth_error noffs k = Some (ef_name ef, N.of_nat k * reg_ptr R).
Proof.
  intros Hvi Hb Hptr Hk.
  destruct (vftable_item_emitted_layout _ _ _ _ _ _ _ _ Hvi Hb Hptr)
    as (tname & s & checks & rest & efs & rs & _ & -> & _ & _ & _ & _ & Hfields & Hall & _ & _ & _ & Hlay & _).
  assert (exists ef, nth_error efs k = Some ef /\ slot_of_function owner f ef) as (ef & Hef & Hsl).
  { clear -Hall Hk. revert k Hk. induction Hall as [|f0 ef0 fs efs H0 _ IH]; intros [|k] Hk; cbn in *; try discriminate.
    - inversion Hk; subst. eauto.
    - now apply IH. }
  exists s, (checks ++ rest), efs, ef. eexists _, _, _. split; [reflexivity|]. split; [exact Hfields|].
  split; [exact Hef|]. split; [exact Hsl|]. split; [exact Hlay|].
  rewrite (sl_name _ _ _ Hsl). now apply slot_layout_nth.
Qed.

(** * Part 3: whole build *)

(** ** the pointer width of an accepted build is the one given to [sem_new]: no step changes it *)
Lemma add_item_ptr st it st' : add_item st it = Ok st' -> reg_ptr (st_reg st') = reg_ptr (st_reg st).
Proof. intros H. rewrite (add_item_reg _ _ _ H). apply reg_ptr_add. Qed.

Lemma sem_new_ptr ptr st : sem_new ptr = Ok st -> reg_ptr (st_reg st) = ptr.
Proof.
  unfold sem_new. apply (foldM_preserves (fun s => reg_ptr (st_reg s) = ptr)); [|reflexivity].
  intros s ns s' Hs H. now rewrite (add_item_ptr _ _ _ H).
Qed.

Lemma add_module_ptr st mp ast st' : add_module st mp ast = Ok st' -> reg_ptr (st_reg st') = reg_ptr (st_reg st).
Proof.
  unfold add_module. intros H. inv_bind H. inv_bind H. inv_bind H.
  eapply (foldM_preserves (fun s => reg_ptr (st_reg s) = reg_ptr (st_reg st))); [| |exact H].
  - intros s e s' Hs He. unfold add_extern_type in He. inv_bind He.
    destruct a2 as [[size|] [al|]]; try discriminate.
    destruct (reg_has _ _); [discriminate|]. now rewrite (add_item_ptr _ _ _ He).
  - eapply (foldM_preserves (fun s => reg_ptr (st_reg s) = reg_ptr (st_reg st))); [| |exact Ha1].
    + intros s d s' Hs Hd. unfold add_definition in Hd. destruct (reg_has _ _); [discriminate|].
      now rewrite (add_item_ptr _ _ _ Hd).
    + reflexivity.
Qed.

Lemma input_state_ptr ptr mods st0 : input_state ptr mods = Ok st0 -> reg_ptr (st_reg st0) = ptr.
Proof.
  unfold input_state. intros H. inv_bind H.
  eapply (foldM_preserves (fun s => reg_ptr (st_reg s) = ptr)); [| |exact H].
  - intros s pm s2 Hs Hpm. cbn beta in Hpm. now rewrite (add_module_ptr _ _ _ _ Hpm).
  - eapply sem_new_ptr; eauto.
Qed.

Lemma accepted_build_ptr order ptr mods st0 st :
  input_state ptr mods = Ok st0 -> collision_free (st_reg st0) ->
  pyxis_resolve order ptr mods = BOk st -> reg_ptr (st_reg st) = ptr.
Proof.
  intros Hin Hcf Hres. destruct (pyxis_resolve_items _ _ _ _ _ Hin Hcf Hres) as ([Hp _] & _).
  rewrite <- Hp. eapply input_state_ptr; eauto.
Qed.

(** ** the slot plan of a converted vftable block, on the whole table (with the [#[size]] padding) *)
Lemma slot_plan_nth : forall idxs next positions e j,
  slot_plan idxs next = Some (positions, e) ->
  forall i, nth_error idxs j = Some (Some i) -> nth_error positions j = Some i.
Proof.
  induction idxs as [|i0 idxs IH]; intros next positions e j H i Hj; [destruct j; discriminate|].
  cbn [slot_plan] in H. destruct (_ <? next); [discriminate|].
  destruct (slot_plan idxs _) as [[ps e']|] eqn:E; [|discriminate]. inversion H; subst positions e'. clear H.
  destruct j as [|j]; cbn [nth_error] in *.
  - inversion Hj; subst i0. reflexivity.
  - eapply IH; eauto.
Qed.

Lemma slot_plan_length : forall idxs next positions e,
  slot_plan idxs next = Some (positions, e) -> List.length positions = List.length idxs.
Proof.
  induction idxs as [|i0 idxs IH]; intros next positions e H; cbn [slot_plan] in H.
  - now inversion H.
  - destruct (_ <? next); [discriminate|]. destruct (slot_plan idxs _) as [[ps e']|] eqn:E; [|discriminate].
    inversion H; subst. cbn [List.length]. f_equal. eauto.
Qed.

Lemma Forall2_weaken {A B} (P Q : A -> B -> Prop) l1 l2 :
  (forall a b, P a b -> Q a b) -> Forall2 P l1 l2 -> Forall2 Q l1 l2.
Proof. intros HPQ. induction 1; constructor; auto. Qed.

(** every entry of the converted table is either a declared function, at the position the plan
    gives it, or the placeholder of its own position *)
Theorem convert_functions_plan R scope sz gfs fs :
  convert_functions R scope sz gfs = Ok fs ->
  exists idxs positions e,
    map fn_index gfs = map Some idxs /\ slot_plan idxs 0 = Some (positions, e) /\
    e <= N.of_nat (List.length fs) /\
    Forall2 (fun gf pos => exists sf, function_build R scope true gf = Ok sf /\
                                      nth_error fs (N.to_nat pos) = Some sf) gfs positions /\
    (forall k, (k < List.length fs)%nat -> ~ In (N.of_nat k) positions ->
               nth_error fs k = Some (padding_fn (N.of_nat k))).
Proof.
  unfold convert_functions. intros H. inv_bind H. rename a into out.
  destruct (convert_functions_slots R scope gfs [] out Ha) as (idxs & ps & e & A & B & C & _ & D & E).
  assert (exists pad, fs = out ++ map padding_fn (nseq (N.of_nat (List.length out)) pad)) as (pad & ->).
  { destruct sz as [s|].
    - destruct (s <? _); [discriminate|]. inversion H; subst fs. destruct (pad_to_spec s out) as [-> _]. eauto.
    - inversion H; subst fs. exists O. cbn. now rewrite app_nil_r. }
  exists idxs, ps, e. split; [exact A|]. split; [exact B|].
  split; [rewrite app_length; lia|]. split.
  - eapply Forall2_weaken; [|exact D]. intros gf pos (sf & Hsf & Hn). exists sf. split; [exact Hsf|].
    rewrite nth_error_app1; [exact Hn|]. apply nth_error_Some. congruence.
  - intros k Hk Hnin. destruct (Nat.lt_ge_cases k (List.length out)) as [Hlt|Hge].
    + rewrite nth_error_app1 by exact Hlt. apply E; [cbn; lia | exact Hnin].
    + rewrite nth_error_app2 by exact Hge. rewrite app_length, map_length, nseq_length in Hk.
      rewrite nth_error_map, nth_error_nseq by lia. cbn [option_map]. f_equal. f_equal. lia.
Qed.

(** ** the emitted [<T>Vftable] struct of an accepted build: its Reference layout is the
    (size, alignment) the final registry records for the generated item (C02), slot [k] is the
    field at byte offset [k * ptr] (C04), and the slots are those of the slot plan *)
Theorem emitted_vftable_layout_whole_build order ptr mods st0 st files p it0 gd td0 it r parent stm rest gfs :
  input_state ptr mods = Ok st0 -> collision_free (st_reg st0) ->
  pyxis_resolve order ptr mods = BOk st -> write_all st = Ok files ->
  reg_get (st_reg st0) p = Some it0 -> it_state it0 = Unresolved gd -> gi_inner gd = GIType td0 ->
  reg_get (st_reg st) p = Some it -> it_state it = Resolved r ->
  path_parent p = Some parent -> parent <> [] -> alookup parent (st_modules st0) <> None ->
  gt_stmts td0 = stm :: rest -> gs_field stm = GVftable gfs ->
  let R := st_reg st in
  exists tname vp vit rs fs td vt file pre s checks more post efs,
    path_last p = Some tname /\ vftable_path p = Some vp /\
    (* the slot list: the type's own vftable descriptor carries it *)
    rs_inner r = IType td /\ td_vftable td = Some vt /\ vt_functions vt = fs /\
    vt_type vt = TConstPtr (TRaw vp) /\
    (* the generated item [vp], in the FINAL registry, and its resolved record *)
    reg_get R vp = Some vit /\ vftable_item R p (gi_vis gd) fs = Some vit /\
    item_resolved vit = Some rs /\ reg_ptr R = ptr /\
    (* the file of the module holds the struct <T>Vftable, then its size check, then impls *)
    In (out_path parent, file) files /\
    file_items file = Some (pre ++ (s :: checks ++ more) ++ post) /\
    find_struct (tname +++ "Vftable") (pre ++ (s :: checks ++ more) ++ post) = Some s /\
    struct_name s = Some (tname +++ "Vftable") /\ struct_vis s = Some (gi_vis gd) /\
    struct_repr s = Some (ReprAlign ptr) /\
    struct_fields s = Some efs /\ Forall2 (slot_of_function p) fs efs /\
    let tys := slot_types p fs in
    map ef_ty efs = map type_tokens tys /\ Forall is_fnptr_type tys /\
    (* C02: the layout computed from the emitted struct = the resolved size and alignment *)
    emitted_struct_layout (map (type_sa R) tys) s = Some (slot_layout ptr fs, rs_size rs, rs_align rs) /\
    rs_size rs = N.of_nat (List.length fs) * ptr /\ rs_align rs = ptr /\
    size_check_shape (tname +++ "Vftable") (rs_size rs) checks /\ Forall is_impl_or_const more /\
    (* C04: slot k is the k-th field, named after the k-th slot function, at byte offset k * ptr *)
    (forall k f, nth_error fs k = Some f ->
                 nth_error (slot_layout ptr fs) k = Some (sf_name f, N.of_nat k * ptr)) /\
    (* the slot plan of the declared block: every declared function is the field at
       [position * ptr], every other field is the placeholder of its position *)
    exists R_mid scope sz idxs positions e,
      ext (st_reg st0) (st_reg st0) R_mid /\ ext (st_reg st0) R_mid R /\
      foldM scan_vftable_size_attr (gs_attrs stm) None = Ok sz /\
      convert_functions R_mid scope sz gfs = Ok fs /\
      map fn_index gfs = map Some idxs /\ slot_plan idxs 0 = Some (positions, e) /\
      Forall2 (fun gf pos => nth_error (slot_layout ptr fs) (N.to_nat pos) = Some (gf_name gf, pos * ptr))
              gfs positions /\
      (forall k, (k < List.length fs)%nat -> ~ In (N.of_nat k) positions ->
                 nth_error (slot_layout ptr fs) k
                 = Some ("_vfunc_" +++ dec_of_N (N.of_nat k), N.of_nat k * ptr)).
Proof.
  intros Hin Hcf Hres Hw Hg0 Hs0 Hty Hg Hs Hpar Hne Hm0 Hst Hfld R.
  destruct (whole_build_vftable _ _ _ _ _ _ _ _ _ _ _ _ _ _ Hin Hcf Hres Hg0 Hs0 Hty Hg Hs Hst Hfld)
    as (R_mid & scope & sz & fs & vp & vit & td & vt & He1 & He2 & Hsz & Hconv & Hvp & Hvit & Hgv & Hi & Hvt & Hfs & Hvty).
  pose proof (accepted_build_ptr _ _ _ _ _ Hin Hcf Hres) as Hptr. fold R in Hptr, Hvit, Hgv, He2.
  assert (path_parent vp = Some parent /\ exists tname, path_last p = Some tname /\ path_last vp = Some (tname +++ "Vftable"))
    as (Hvpar & tname & Htn & Hvlast).
  { unfold vftable_path in Hvp. rewrite Hpar in Hvp. destruct (path_last p) as [tname|]; [|discriminate].
    inversion Hvp; subst vp. split; [apply path_parent_join|]. exists tname. split; [reflexivity | apply path_last_join]. }
  assert (reg_get (st_reg st0) vp = None) as Hv0 by (apply (Hcf p); [congruence | exact Hvp]).
  destruct (accepted_generated_path _ _ _ _ _ _ _ Hin Hcf Hres Hv0 ltac:(fold R; congruence) Hvpar Hm0)
    as (m & Hmod & Hdef & HK & Hnd & Hparents).
  destruct (write_all_in _ _ _ _ Hw Hmod Hne) as (file & Hf & Hfile).
  destruct (module_file_items _ _ _ _ _ Hf Hdef Hgv) as (pre0 & its & post0 & Hb & _).
  destruct (vftable_item_emitted_layout _ _ _ _ _ _ _ _ Hvit Hb eq_refl)
    as (tname' & s & checks & more & efs & rs & Htn' & -> & Hk & Hname & Hvis & Hrepr & Hfields & Hall &
        Htoks & Hfn & _ & _ & Hr & Hrsz & Hral & Hlay & Hcheck & Hmore).
  rewrite Htn in Htn'. inversion Htn'; subst tname'. clear Htn'.
  fold R in Hrepr, Hlay, Hcheck, Hrsz, Hral. rewrite Hptr in Hrepr, Hlay, Hcheck, Hrsz, Hral.
  assert (is_struct_named (tname +++ "Vftable") s = true) as Hnamed
      by (unfold is_struct_named; rewrite Hname; apply String.eqb_refl).
  destruct (module_file_find_struct _ _ _ _ _ _ _ _ _ Hf HK Hnd Hparents Hdef Hgv Hvlast Hb Hnamed)
    as (pre & post & Hitems & _ & Hfind).
  destruct (convert_functions_plan _ _ _ _ _ Hconv) as (idxs & positions & e & Hidx & Hplan & _ & Hpos & Hpad).
  exists tname, vp, vit, rs, fs, td, vt, file, pre, s, checks, more, post, efs.
  split; [exact Htn|]. split; [exact Hvp|]. split; [exact Hi|]. split; [exact Hvt|]. split; [exact Hfs|].
  split; [exact Hvty|]. split; [exact Hgv|]. split; [exact Hvit|]. split; [exact Hr|]. split; [exact Hptr|].
  split; [exact Hfile|]. split; [exact Hitems|]. split; [exact Hfind|]. split; [exact Hname|].
  split; [exact Hvis|]. split; [exact Hrepr|]. split; [exact Hfields|]. split; [exact Hall|].
  cbn zeta. split; [exact Htoks|]. split; [exact Hfn|]. split; [exact Hlay|].
  split; [exact Hrsz|]. split; [exact Hral|].
  split; [rewrite Hrsz; exact Hcheck|]. split; [exact Hmore|].
  split; [intros k f0 Hk0; now apply slot_layout_nth|].
  exists R_mid, scope, sz, idxs, positions, e.
  split; [exact He1|]. split; [exact He2|]. split; [exact Hsz|]. split; [exact Hconv|].
  split; [exact Hidx|]. split; [exact Hplan|]. split.
  - eapply Forall2_weaken; [|exact Hpos]. intros gf pos (sf & Hsf & Hn). cbn beta.
    destruct (function_build_spec _ _ _ _ _ Hsf) as (Hnm & _).
    rewrite (slot_layout_nth ptr fs _ _ Hn), Hnm, N2Nat.id. reflexivity.
  - intros k Hk0 Hnin. rewrite (slot_layout_nth ptr fs _ _ (Hpad k Hk0 Hnin)). reflexivity.
Qed.

(** ** corollaries, in the vocabulary of the properties *)
Lemma Forall2_nth {A B} (P : A -> B -> Prop) : forall l1 l2, Forall2 P l1 l2 ->
  forall j a b, nth_error l1 j = Some a -> nth_error l2 j = Some b -> P a b.
Proof.
  induction 1 as [|x y l1 l2 Hxy _ IH]; intros [|j] a b Ha Hb; cbn in *; try discriminate.
  - inversion Ha; inversion Hb; subst. exact Hxy.
  - eapply IH; eauto.
Qed.

(** C02 for the generated struct: (size, alignment) computed by the Reference's algorithm from the
    emitted [<T>Vftable] item = (size, alignment) of the generated item in the final registry;
    the emitted size check (present iff the table is not empty) asserts that size *)
Corollary emitted_vftable_size_align_whole_build order ptr mods st0 st files p it0 gd td0 it r parent stm rest gfs :
  input_state ptr mods = Ok st0 -> collision_free (st_reg st0) ->
  pyxis_resolve order ptr mods = BOk st -> write_all st = Ok files ->
  reg_get (st_reg st0) p = Some it0 -> it_state it0 = Unresolved gd -> gi_inner gd = GIType td0 ->
  reg_get (st_reg st) p = Some it -> it_state it = Resolved r ->
  path_parent p = Some parent -> parent <> [] -> alookup parent (st_modules st0) <> None ->
  gt_stmts td0 = stm :: rest -> gs_field stm = GVftable gfs ->
  exists tname vp vit rs fs file items s noffs,
    path_last p = Some tname /\ vftable_path p = Some vp /\
    reg_get (st_reg st) vp = Some vit /\ item_resolved vit = Some rs /\
    In (out_path parent, file) files /\ file_items file = Some items /\
    find_struct (tname +++ "Vftable") items = Some s /\
    emitted_struct_layout (map (type_sa (st_reg st)) (slot_types p fs)) s
    = Some (noffs, rs_size rs, rs_align rs) /\
    size_of (st_reg st) (TRaw vp) = Some (rs_size rs) /\ align_of (st_reg st) (TRaw vp) = Some (rs_align rs) /\
    rs_size rs = N.of_nat (List.length fs) * ptr /\ rs_align rs = ptr /\
    (rs_size rs <> 0 -> exists c fn, In c items /\
        read_size_check c = Some (fn, tname +++ "Vftable", rs_size rs, rs_size rs)).
Proof.
  intros Hin Hcf Hres Hw Hg0 Hs0 Hty Hg Hs Hpar Hne Hm0 Hst Hfld.
  destruct (emitted_vftable_layout_whole_build _ _ _ _ _ _ _ _ _ _ _ _ _ _ _ _
              Hin Hcf Hres Hw Hg0 Hs0 Hty Hg Hs Hpar Hne Hm0 Hst Hfld)
    as (tname & vp & vit & rs & fs & td & vt & file & pre & s & checks & more & post & efs &
        Htn & Hvp & _ & _ & _ & _ & Hgv & _ & Hr & _ & Hfile & Hitems & Hfind & _ & _ & _ & _ & _ &
        _ & _ & Hlay & Hsz & Hal & Hcheck & _).
  exists tname, vp, vit, rs, fs, file, (pre ++ (s :: checks ++ more) ++ post), s, (slot_layout ptr fs).
  repeat (split; [assumption|]).
  split; [cbn [size_of]; unfold item_size; now rewrite Hgv, Hr|].
  split; [cbn [align_of]; unfold item_align; now rewrite Hgv, Hr|].
  split; [exact Hsz|]. split; [exact Hal|].
  intros Hnz. destruct Hcheck as [[E _]|(_ & c & -> & _ & Hc)]; [contradiction|].
  exists c, ("_" +++ (tname +++ "Vftable") +++ "_size_check"). split; [|exact Hc].
  apply in_or_app. right. apply in_or_app. left. right. now left.
Qed.

(** C04 on the emitted struct, in terms of the DECLARATION: the [j]-th function of the vftable
    block sits at byte offset [pos * ptr], [pos] the [j]-th position of the slot plan; a function
    that declares [#[index(i)]] is the field at byte offset [i * ptr] *)
Corollary emitted_declared_slot_whole_build order ptr mods st0 st files p it0 gd td0 it r parent stm rest gfs j gf :
  input_state ptr mods = Ok st0 -> collision_free (st_reg st0) ->
  pyxis_resolve order ptr mods = BOk st -> write_all st = Ok files ->
  reg_get (st_reg st0) p = Some it0 -> it_state it0 = Unresolved gd -> gi_inner gd = GIType td0 ->
  reg_get (st_reg st) p = Some it -> it_state it = Resolved r ->
  path_parent p = Some parent -> parent <> [] -> alookup parent (st_modules st0) <> None ->
  gt_stmts td0 = stm :: rest -> gs_field stm = GVftable gfs ->
  nth_error gfs j = Some gf ->
  exists tname fs file items s efs noffs idxs positions e pos ef,
    path_last p = Some tname /\
    In (out_path parent, file) files /\ file_items file = Some items /\
    find_struct (tname +++ "Vftable") items = Some s /\ struct_fields s = Some efs /\
    emitted_struct_layout (map (type_sa (st_reg st)) (slot_types p fs)) s
    = Some (noffs, N.of_nat (List.length fs) * ptr, ptr) /\
    map fn_index gfs = map Some idxs /\ slot_plan idxs 0 = Some (positions, e) /\
    nth_error positions j = Some pos /\
    (forall i, fn_index gf = Some (Some i) -> pos = i) /\
    (* the field: the [pos]-th one, a fn pointer named like the declared function, at pos * ptr *)
    nth_error efs (N.to_nat pos) = Some ef /\ ef_name ef = gf_name gf /\
    fnptr_abi (ef_ty ef) <> None /\
    nth_error noffs (N.to_nat pos) = Some (gf_name gf, pos * ptr).
Proof.
  intros Hin Hcf Hres Hw Hg0 Hs0 Hty Hg Hs Hpar Hne Hm0 Hst Hfld Hj.
  destruct (emitted_vftable_layout_whole_build _ _ _ _ _ _ _ _ _ _ _ _ _ _ _ _
              Hin Hcf Hres Hw Hg0 Hs0 Hty Hg Hs Hpar Hne Hm0 Hst Hfld)
    as (tname & vp & vit & rs & fs & td & vt & file & pre & s & checks & more & post & efs &
        Htn & _ & _ & _ & _ & _ & _ & _ & _ & _ & Hfile & Hitems & Hfind & _ & _ & _ & Hfields & Hall &
        _ & _ & Hlay & Hsz & Hal & _ & _ & _ &
        R_mid & scope & sz & idxs & positions & e & _ & _ & _ & _ & Hidx & Hplan & Hpos & _).
  rewrite Hsz, Hal in Hlay.
  assert (exists pos, nth_error positions j = Some pos) as (pos & Hp).
  { assert (j < List.length positions)%nat as Hlt.
    { rewrite <- (Forall2_length' _ _ _ Hpos). apply nth_error_Some. congruence. }
    destruct (nth_error positions j) eqn:E; [eauto|]. apply nth_error_None in E. lia. }
  pose proof (Forall2_nth _ _ _ Hpos _ _ _ Hj Hp) as Hoff. cbn beta in Hoff.
  assert (exists ef, nth_error efs (N.to_nat pos) = Some ef /\ ef_name ef = gf_name gf /\ fnptr_abi (ef_ty ef) <> None)
    as (ef & Hef & Hefn & Hefa).
  { assert (exists f, nth_error fs (N.to_nat pos) = Some f /\ sf_name f = gf_name gf) as (f & Hf & Hfn).
    { assert (N.to_nat pos < List.length fs)%nat as Hlt.
      { rewrite <- (slot_layout_length ptr fs). apply nth_error_Some. congruence. }
      destruct (nth_error fs (N.to_nat pos)) as [f|] eqn:E; [|apply nth_error_None in E; lia].
      exists f. split; [reflexivity|]. rewrite (slot_layout_nth ptr fs _ _ E) in Hoff. now inversion Hoff. }
    assert (N.to_nat pos < List.length efs)%nat as Hlt.
    { rewrite <- (Forall2_length' _ _ _ Hall). apply nth_error_Some. congruence. }
    destruct (nth_error efs (N.to_nat pos)) as [ef|] eqn:E; [|apply nth_error_None in E; lia].
    pose proof (Forall2_nth _ _ _ Hall _ _ _ Hf E) as Hsl.
    exists ef. split; [reflexivity|]. split; [rewrite (sl_name _ _ _ Hsl); exact Hfn|].
    rewrite (sl_abi _ _ _ Hsl). discriminate. }
  exists tname, fs, file, (pre ++ (s :: checks ++ more) ++ post), s, efs, (slot_layout ptr fs), idxs, positions, e, pos, ef.
  repeat (split; [assumption|]).
  split.
  { intros i Hi. assert (nth_error idxs j = Some (Some i)) as Hij.
    { pose proof (map_nth_error fn_index _ _ Hj) as E. rewrite Hidx, Hi in E.
      destruct (nth_error idxs j) as [x|] eqn:Ex.
      - rewrite (map_nth_error Some _ _ Ex) in E. now inversion E.
      - apply nth_error_None in Ex. assert (nth_error (map Some idxs) j = None) as E'
            by (apply nth_error_None; now rewrite map_length).
        congruence. }
    pose proof (slot_plan_nth _ _ _ _ _ Hplan _ Hij) as E. congruence. }
  repeat (split; [assumption|]). exact Hoff.
Qed.

Print Assumptions struct_layout_fnptrs.
Print Assumptions vftable_item_emitted_layout.
Print Assumptions vftable_item_emitted_slot.
Print Assumptions convert_functions_plan.
Print Assumptions emitted_vftable_layout_whole_build.
Print Assumptions emitted_vftable_size_align_whole_build.
Print Assumptions emitted_declared_slot_whole_build.
