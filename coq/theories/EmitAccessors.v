(** * EmitAccessors: C15 for singletons, end to end from the DECLARATION to the emitted text.

    The existing chain stops at the registry records: [EmitFnFinal.emitted_wrappers_whole_build]
    states the singleton part in terms of [td_singleton] of the FINAL type description and only for
    types that have an impl block; nothing says where [td_singleton] / [ed_singleton] come from.
    This file closes both gaps:

    - [declared_singleton attrs]: the value of the LAST [#[singleton(<int>)]] attribute (SPEC side:
      a function of the syntax only, like [FunctionLemmas.declared_address]);
    - [scan_type_attrs_singleton] / [scan_enum_attrs_singleton]: an accepted attribute scan stores
      exactly that value, and it is not negative;
    - Part 1 [C15_struct_singleton_declared]: for every type the input declares, in every accepted
      collision-free build whose files are written: the file of the declaring module holds, right
      after the struct (the one [find_struct] finds) and its size check, the inherent impl
      [singleton_struct_impl name vis A] exactly when the declaration's last singleton attribute is
      [A], and nothing in that place when no singleton attribute is declared;
    - Part 2 [C15_enum_singleton_declared]: the same for enums ([enum_singleton_impl]);
    - the meaning of the two bodies: [struct_get_result] / [enum_get_result] tie the address read
      back from the emitted tokens to [RustExec.singleton_get] / [RustExec.enum_singleton_get];
    - a negative value is never accepted ([singleton_values_nonneg_type] / [_enum]);
    - the input-level forms ([.._of_module]) start from [In (k, gm) mods], [In d (gm_defs gm)]. *)
From Coq Require Import List NArith ZArith Bool Lia String Permutation.
From PyxisModel Require Import Base Sexp Grammar SemTypes Registry Sem SemLemmas FunctionLemmas
     VftableLemmas PlacementLemmas Emit EmitLemmas WholeBuild EmitReaders EmitShape EmitFinal EmitFind
     EmitFnReaders EmitFnShape EmitMarkers EmitMarkersEnum EmitMarkersFn FilesInput RustExec.
From PyxisModel Require Monotone.
Import ListNotations.
Local Open Scope string_scope.
Local Open Scope list_scope.

(** * 0. SPEC: what the attributes of a type / an enum say *)
(** the last [singleton(<int>)] attribute wins; an attribute [singleton] with another argument
    shape ([singleton("x")], [singleton(1, 2)], a bare [singleton]) is ignored, as in the scan *)
Definition declared_singleton (attrs : list gattr) : option Z := last_some (int_attr "singleton") attrs None.

(** ** the type attribute scan *)
Lemma scan_type_attr_singleton_step ta a ta1 :
  scan_type_attr ta a = Ok ta1 ->
  match int_attr "singleton" a with
  | Some z => option_map Some (z_to_usize z) = Some (ta_singleton ta1)
  | None => ta_singleton ta1 = ta_singleton ta
  end.
Proof.
  unfold scan_type_attr, int_attr. intros H.
  destruct a as [n|n [|[v|s|i] [|x r]]|k e]; try (inversion H; reflexivity).
  destruct (String.eqb n "size") eqn:Es.
  { apply String.eqb_eq in Es. subst n. cbn [String.eqb Ascii.eqb Bool.eqb].
    destruct (z_to_usize v); inversion H. reflexivity. }
  destruct (String.eqb n "singleton") eqn:Eg.
  { destruct (z_to_usize v); inversion H. reflexivity. }
  destruct (String.eqb n "align"); [destruct (z_to_usize v)|]; inversion H; reflexivity.
Qed.

Lemma scan_type_attrs_singleton : forall attrs ta ta',
  foldM scan_type_attr attrs ta = Ok ta' ->
  match declared_singleton attrs with
  | Some z => option_map Some (z_to_usize z) = Some (ta_singleton ta')
  | None => ta_singleton ta' = ta_singleton ta
  end.
Proof.
  assert (G : forall attrs ta ta' (ia : option Z),
    foldM scan_type_attr attrs ta = Ok ta' ->
    match ia with Some z => option_map Some (z_to_usize z) = Some (ta_singleton ta) | None => True end ->
    match last_some (int_attr "singleton") attrs ia with
    | Some z => option_map Some (z_to_usize z) = Some (ta_singleton ta')
    | None => ta_singleton ta' = ta_singleton ta
    end).
  { induction attrs as [|a attrs IH]; intros ta ta' ia H Hia; cbn [foldM] in H.
    - inversion H; subst. unfold last_some. cbn [fold_left]. destruct ia; auto.
    - inv_bind H. rename a0 into ta1. pose proof (scan_type_attr_singleton_step _ _ _ Ha) as Hstep.
      unfold last_some in *. cbn [fold_left].
      destruct (int_attr "singleton" a) as [z|] eqn:Ei.
      + specialize (IH ta1 ta' (Some z) H Hstep).
        pose proof (last_some_acc (int_attr "singleton") attrs z) as K. unfold last_some in K.
        destruct (fold_left _ attrs (Some z)); [exact IH | congruence].
      + assert (match ia with Some z => option_map Some (z_to_usize z) = Some (ta_singleton ta1) | None => True end) as Hia'
          by (destruct ia; [now rewrite Hstep | exact I]).
        specialize (IH ta1 ta' ia H Hia').
        destruct (fold_left _ attrs ia); [exact IH | now rewrite IH]. }
  intros attrs ta ta' H. exact (G attrs ta ta' None H I).
Qed.

Lemma usize_some z n : option_map Some (z_to_usize z) = Some (Some n) -> (0 <= z)%Z /\ n = Z.to_N z.
Proof.
  unfold z_to_usize. destruct (Z.ltb_spec z 0) as [E|E]; cbn [option_map]; [discriminate|].
  intros H. inversion H. split; [exact E | reflexivity].
Qed.
Lemma usize_not_none z : option_map Some (z_to_usize z) <> Some (@None N).
Proof. destruct (z_to_usize z); cbn [option_map]; congruence. Qed.

(** the accepted scan, from [ta_init]: the stored address IS the declared one *)
Corollary scan_type_attrs_declared attrs ta :
  foldM scan_type_attr attrs ta_init = Ok ta ->
  match declared_singleton attrs with
  | Some z => (0 <= z)%Z /\ ta_singleton ta = Some (Z.to_N z)
  | None => ta_singleton ta = None
  end.
Proof.
  intros H. pose proof (scan_type_attrs_singleton _ _ _ H) as Hs.
  destruct (declared_singleton attrs) as [z|]; [|exact Hs].
  destruct (ta_singleton ta) as [n|]; [|now apply usize_not_none in Hs].
  destruct (usize_some _ _ Hs) as [Hz ->]. auto.
Qed.

(** no negative value anywhere in the list (not only the last one) *)
Lemma scan_type_attrs_nonneg z : forall attrs ta ta',
  foldM scan_type_attr attrs ta = Ok ta' -> In (AFn "singleton" [EInt z]) attrs -> (0 <= z)%Z.
Proof.
  induction attrs as [|a attrs IH]; intros ta ta' H Hin; [destruct Hin|].
  cbn [foldM] in H. inv_bind H. destruct Hin as [->|Hin]; [|eauto].
  pose proof (scan_type_attr_singleton_step _ _ _ Ha) as Hs. cbn in Hs.
  destruct (ta_singleton a0) as [n|]; [|now apply usize_not_none in Hs]. now apply usize_some in Hs.
Qed.

(** ** the enum attribute scan *)
Definition ea_init : Sem.enum_attrs :=
  {| ea_singleton := None; ea_copyable := false; ea_cloneable := false; ea_defaultable := false |}.

Lemma scan_enum_attr_singleton_step ea a ea1 :
  scan_enum_attr ea a = Ok ea1 ->
  match int_attr "singleton" a with
  | Some z => option_map Some (z_to_usize z) = Some (ea_singleton ea1)
  | None => ea_singleton ea1 = ea_singleton ea
  end.
Proof.
  unfold scan_enum_attr, int_attr. intros H.
  destruct a as [n|n [|[v|s|i] [|x r]]|k e]; try (inversion H; reflexivity).
  destruct (String.eqb n "singleton"); [destruct (z_to_usize v)|]; inversion H; reflexivity.
Qed.

Lemma scan_enum_attrs_singleton : forall attrs ea ea',
  foldM scan_enum_attr attrs ea = Ok ea' ->
  match declared_singleton attrs with
  | Some z => option_map Some (z_to_usize z) = Some (ea_singleton ea')
  | None => ea_singleton ea' = ea_singleton ea
  end.
Proof.
  assert (G : forall attrs ea ea' (ia : option Z),
    foldM scan_enum_attr attrs ea = Ok ea' ->
    match ia with Some z => option_map Some (z_to_usize z) = Some (ea_singleton ea) | None => True end ->
    match last_some (int_attr "singleton") attrs ia with
    | Some z => option_map Some (z_to_usize z) = Some (ea_singleton ea')
    | None => ea_singleton ea' = ea_singleton ea
    end).
  { induction attrs as [|a attrs IH]; intros ea ea' ia H Hia; cbn [foldM] in H.
    - inversion H; subst. unfold last_some. cbn [fold_left]. destruct ia; auto.
    - inv_bind H. rename a0 into ea1. pose proof (scan_enum_attr_singleton_step _ _ _ Ha) as Hstep.
      unfold last_some in *. cbn [fold_left].
      destruct (int_attr "singleton" a) as [z|] eqn:Ei.
      + specialize (IH ea1 ea' (Some z) H Hstep).
        pose proof (last_some_acc (int_attr "singleton") attrs z) as K. unfold last_some in K.
        destruct (fold_left _ attrs (Some z)); [exact IH | congruence].
      + assert (match ia with Some z => option_map Some (z_to_usize z) = Some (ea_singleton ea1) | None => True end) as Hia'
          by (destruct ia; [now rewrite Hstep | exact I]).
        specialize (IH ea1 ea' ia H Hia').
        destruct (fold_left _ attrs ia); [exact IH | now rewrite IH]. }
  intros attrs ea ea' H. exact (G attrs ea ea' None H I).
Qed.

Corollary scan_enum_attrs_declared attrs ea :
  foldM scan_enum_attr attrs ea_init = Ok ea ->
  match declared_singleton attrs with
  | Some z => (0 <= z)%Z /\ ea_singleton ea = Some (Z.to_N z)
  | None => ea_singleton ea = None
  end.
Proof.
  intros H. pose proof (scan_enum_attrs_singleton _ _ _ H) as Hs.
  destruct (declared_singleton attrs) as [z|]; [|exact Hs].
  destruct (ea_singleton ea) as [n|]; [|now apply usize_not_none in Hs].
  destruct (usize_some _ _ Hs) as [Hz ->]. auto.
Qed.

Lemma scan_enum_attrs_nonneg z : forall attrs ea ea',
  foldM scan_enum_attr attrs ea = Ok ea' -> In (AFn "singleton" [EInt z]) attrs -> (0 <= z)%Z.
Proof.
  induction attrs as [|a attrs IH]; intros ea ea' H Hin; [destruct Hin|].
  cbn [foldM] in H. inv_bind H. destruct Hin as [->|Hin]; [|eauto].
  pose proof (scan_enum_attr_singleton_step _ _ _ Ha) as Hs. cbn in Hs.
  destruct (ea_singleton a0) as [n|]; [|now apply usize_not_none in Hs]. now apply usize_some in Hs.
Qed.

(** the accepted attempt on an enum: its singleton field is the scan's *)
Lemma enum_build_singleton st owner d r :
  enum_build st owner d = Ok r ->
  exists ed ea, rs_inner r = IEnum ed /\ foldM scan_enum_attr (ged_attrs d) ea_init = Ok ea /\
                ed_singleton ed = ea_singleton ea.
Proof.
  unfold enum_build. intros H.
  destruct (path_parent owner) as [parent|]; [|discriminate].
  destruct (alookup parent (st_modules st)) as [module|]; [|discriminate].
  destruct (resolve_gtype _ _ _) as [ty|]; [|discriminate].
  destruct (size_of _ ty) as [size|]; [|discriminate].
  inv_bind H. rename a into cases. inv_bind H. rename a into doc. inv_bind H. rename a into ea.
  destruct (ea_defaultable ea); destruct (snd cases); try discriminate;
    (destruct (align_of _ ty) as [al|]; [|discriminate]; inversion H; subst r;
     eexists _, ea; split; [reflexivity | split; [exact Ha1 | reflexivity]]).
Qed.

(** * 1. What the accessor bodies mean (RustExec), read off the emitted tokens *)
(** the result of running the emitted [get] of a struct singleton in a memory [mem]: defined when the
    body is the singleton template; then it is [RustExec.singleton_get] at the address literal the
    body contains: the word stored there, [None] when that word is null *)
Definition struct_get_result (mem : N -> N) (g : sexp) : option (option N) :=
  option_map (singleton_get mem) (fn_singleton_addr g).
(** the emitted [get] of an enum singleton: the value stored at the address literal *)
Definition enum_get_result (mem : N -> N) (g : sexp) : option N :=
  option_map (enum_singleton_get mem) (fn_enum_singleton_addr g).

(** the [get] function of a singleton impl *)
Definition singleton_get_fn (e : sexp) : option sexp :=
  match inherent_impl e with Some (_, [g]) => Some g | _ => None end.

Theorem struct_singleton_meaning name v a e :
  singleton_shape name v a e ->
  exists g, singleton_get_fn e = Some g /\ inherent_impl e = Some (name, [g]) /\
    fn_singleton_addr g = Some a /\
    forall mem, struct_get_result mem g = Some (if N.eqb (mem a) 0 then None else Some (mem a)).
Proof.
  intros [_ (g & Him & _ & _ & _ & _ & _ & _ & Ha)]. exists g.
  unfold singleton_get_fn, struct_get_result. rewrite Him, Ha. repeat split.
Qed.

Theorem enum_singleton_meaning name v a e :
  enum_singleton_shape name v a e ->
  exists g, singleton_get_fn e = Some g /\ inherent_impl e = Some (name, [g]) /\
    fn_enum_singleton_addr g = Some a /\
    forall mem, enum_get_result mem g = Some (mem a).
Proof.
  intros [_ (g & Him & _ & _ & _ & _ & _ & _ & Ha)]. exists g.
  unfold singleton_get_fn, enum_get_result. rewrite Him, Ha. repeat split.
Qed.

(** * 2. What the model prints for an enum singleton (the F18 fix: the value is read through a raw
    pointer, [unsafe { (<A> as *const Self).read() }], not by dereferencing a reference) *)
Definition enum_singleton_impl (name : string) (v : vis) (a : N) : sexp :=
  impl_sexp (Atom "notrait") name
    [fn_sexp [] v true "get" [] [tk "Self"]
       [tk "unsafe"; brace [paren ([tint a "-"] ++ tks ["as"; "*"; "const"; "Self"]);
                            tk "."; tk "read"; paren []]]].

Theorem enum_singleton_impl_shape name v a : enum_singleton_shape name v a (enum_singleton_impl name v a).
Proof.
  unfold enum_singleton_impl. constructor; [reflexivity|].
  eexists. split; [apply inherent_impl_printed|].
  unfold fn_name, fn_vis, fn_unsafe, fn_params, fn_ret, fn_enum_singleton_addr.
  rewrite (read_fn_fn_sexp [] v true "get" [] _ _ [] eq_refl).
  cbn [option_map efn_name efn_vis efn_unsafe efn_params efn_ret efn_body].
  repeat (split; [reflexivity|]). apply read_enum_singleton_body_printed.
Qed.

(** [build_enum], taken apart: the enum item, the size check, the singleton impl *)
Lemma build_enum_parts p size v ed items :
  build_enum p size v ed = Ok items ->
  exists name e,
    path_last p = Some name /\ item_kind e = Some "enum" /\
    items = e :: size_check name size ++
            match ed_singleton ed with Some a => [enum_singleton_impl name v a] | None => [] end.
Proof.
  unfold build_enum. intros H. destruct (path_last p) as [name|]; [|discriminate].
  destruct (negb (ident_ok name)); [discriminate|]. destruct (negb (stype_ok _)); [discriminate|].
  destruct (negb (ident_ok _)); [discriminate|]. inv_bind H. inversion H; subst items; clear H.
  eexists name, _. split; [reflexivity|]. split; [|cbn [app]; reflexivity]. reflexivity.
Qed.

(** * 3. Part 1: STRUCT SINGLETON, from the declaration to the file *)
Theorem C15_struct_singleton_declared order ptr mods st0 st files p it0 gd td0 :
  input_state ptr mods = Ok st0 -> NoDup (map fst mods) -> collision_free (st_reg st0) ->
  keeps_work order ->
  pyxis_resolve order ptr mods = BOk st -> write_all st = Ok files ->
  reg_get (st_reg st0) p = Some it0 -> it_state it0 = Unresolved gd -> gi_inner gd = GIType td0 ->
  path_parent p <> Some [] ->
  exists parent name it r f pre s sing im fns conv post,
    path_parent p = Some parent /\ parent <> [] /\ path_last p = Some name /\
    reg_get (st_reg st) p = Some it /\ it_state it = Resolved r /\
    (* the file of the declaring module: ..., struct, size check, SINGLETON PART, the impl, conversions, ... *)
    In (out_path parent, f) files /\
    file_items f = Some (pre ++ (s :: size_check name (rs_size r) ++ sing ++ im :: conv) ++ post) /\
    find_struct name (pre ++ (s :: size_check name (rs_size r) ++ sing ++ im :: conv) ++ post) = Some s /\
    im = impl_sexp (Atom "notrait") name fns /\ Forall is_impl_or_const conv /\
    (* the singleton part is decided by the declaration alone *)
    match declared_singleton (gt_attrs td0) with
    | Some A =>
      (0 <= A)%Z /\
      exists e, sing = [e] /\ e = singleton_struct_impl name (gi_vis gd) (Z.to_N A) /\
                singleton_shape name (gi_vis gd) (Z.to_N A) e
    | None => sing = []
    end.
Proof.
  intros Hin HN Hcf Hord Hres Hw Hg0 Hs0 Hty Hroot.
  destruct (emitted_type_items _ _ _ _ _ _ _ _ _ _ Hin HN Hcf Hord Hres Hw Hg0 Hs0 Hty Hroot)
    as (parent & name & it & r & td & f & pre & s & sing & im & conv & post & acc & assoc & vfns &
        Hpar & Hne & Hname & Hg & Hs & Hi & Hfile & Hitems & Hfind & _ & Hsing & Him & _ & _ & _ & Hconv).
  destruct (whole_build_type _ _ _ _ _ _ _ _ _ _ _ Hin Hcf Hres Hg0 Hs0 Hty Hg Hs) as (sm & sm' & _ & Hat & _).
  destruct (type_build_inv _ _ _ _ _ _ Hat) as
      (parent' & module & doc & ta & n & pending & vfs & regions & vt & size & funcs & A0 &
       _ & _ & Hta & _ & _ & _ & Hr).
  assert (td_singleton td = ta_singleton ta) as Htd.
  { rewrite Hr in Hi. cbn [rs_inner] in Hi. inversion Hi. reflexivity. }
  exists parent, name, it, r, f, pre, s, sing, im, (acc ++ assoc ++ vfns), conv, post.
  repeat (split; [assumption|]).
  split; [eapply conversions_kind; eauto|].
  pose proof (scan_type_attrs_declared _ _ Hta) as Hd. rewrite Hsing, Htd.
  destruct (declared_singleton (gt_attrs td0)) as [A|].
  - destruct Hd as [Hz ->]. split; [exact Hz|]. eexists. split; [reflexivity|]. split; [reflexivity|].
    apply singleton_struct_impl_shape.
  - now rewrite Hd.
Qed.

(** the same, with the reader-level facts about the [get] function spelled out, and its meaning *)
Corollary C15_struct_singleton_get order ptr mods st0 st files p it0 gd td0 A :
  input_state ptr mods = Ok st0 -> NoDup (map fst mods) -> collision_free (st_reg st0) ->
  keeps_work order ->
  pyxis_resolve order ptr mods = BOk st -> write_all st = Ok files ->
  reg_get (st_reg st0) p = Some it0 -> it_state it0 = Unresolved gd -> gi_inner gd = GIType td0 ->
  path_parent p <> Some [] ->
  declared_singleton (gt_attrs td0) = Some A ->
  exists parent name f items e g,
    path_parent p = Some parent /\ path_last p = Some name /\
    In (out_path parent, f) files /\ file_items f = Some items /\ In e items /\
    item_kind e = Some "impl" /\ inherent_impl e = Some (name, [g]) /\
    item_kind g = Some "fn" /\ fn_name g = Some "get" /\ fn_vis g = Some (gi_vis gd) /\
    fn_unsafe g = Some true /\ fn_params g = Some [] /\
    fn_ret g = Some (tks ["Option"; "<"; "&"; "'"; "static"; "mut"; "Self"; ">"]) /\
    (0 <= A)%Z /\ fn_singleton_addr g = Some (Z.to_N A) /\
    forall mem, struct_get_result mem g
                = Some (if N.eqb (mem (Z.to_N A)) 0 then None else Some (mem (Z.to_N A))).
Proof.
  intros Hin HN Hcf Hord Hres Hw Hg0 Hs0 Hty Hroot HA.
  destruct (C15_struct_singleton_declared _ _ _ _ _ _ _ _ _ _ Hin HN Hcf Hord Hres Hw Hg0 Hs0 Hty Hroot)
    as (parent & name & it & r & f & pre & s & sing & im & fns & conv & post &
        Hpar & _ & Hname & _ & _ & Hfile & Hitems & _ & _ & _ & Hd).
  rewrite HA in Hd. destruct Hd as (Hz & e & -> & _ & Hsh).
  destruct Hsh as [Hk (g & Him & Hgk & Hn & Hv & Hu & Hp & Hr & Ha)].
  exists parent, name, f. eexists. exists e, g. split; [exact Hpar|]. split; [exact Hname|]. split; [exact Hfile|].
  split; [exact Hitems|]. split.
  { apply in_or_app. right. apply in_or_app. left. right. apply in_or_app. right. now left. }
  repeat (split; [assumption|]). unfold struct_get_result. now rewrite Ha.
Qed.

(** conversely: whatever stands in the singleton place comes from a declaration *)
Corollary C15_struct_singleton_converse order ptr mods st0 st files p it0 gd td0 :
  input_state ptr mods = Ok st0 -> NoDup (map fst mods) -> collision_free (st_reg st0) ->
  keeps_work order ->
  pyxis_resolve order ptr mods = BOk st -> write_all st = Ok files ->
  reg_get (st_reg st0) p = Some it0 -> it_state it0 = Unresolved gd -> gi_inner gd = GIType td0 ->
  path_parent p <> Some [] ->
  exists parent name r f pre s sing im conv post,
    path_parent p = Some parent /\ path_last p = Some name /\ In (out_path parent, f) files /\
    file_items f = Some (pre ++ (s :: size_check name (rs_size r) ++ sing ++ im :: conv) ++ post) /\
    find_struct name (pre ++ (s :: size_check name (rs_size r) ++ sing ++ im :: conv) ++ post) = Some s /\
    (exists fns, inherent_impl im = Some (name, fns)) /\
    forall e, In e sing ->
      exists A g, declared_singleton (gt_attrs td0) = Some A /\ (0 <= A)%Z /\ sing = [e] /\
                  inherent_impl e = Some (name, [g]) /\ fn_singleton_addr g = Some (Z.to_N A).
Proof.
  intros Hin HN Hcf Hord Hres Hw Hg0 Hs0 Hty Hroot.
  destruct (C15_struct_singleton_declared _ _ _ _ _ _ _ _ _ _ Hin HN Hcf Hord Hres Hw Hg0 Hs0 Hty Hroot)
    as (parent & name & it & r & f & pre & s & sing & im & fns & conv & post &
        Hpar & _ & Hname & _ & _ & Hfile & Hitems & Hfind & Him & _ & Hd).
  exists parent, name, r, f, pre, s, sing, im, conv, post. repeat (split; [assumption|]).
  split; [exists fns; rewrite Him; apply inherent_impl_printed|].
  intros e He. destruct (declared_singleton (gt_attrs td0)) as [A|]; [|subst sing; destruct He].
  destruct Hd as (Hz & e' & -> & _ & Hsh). destruct He as [<-|[]].
  destruct Hsh as [_ (g & Hi & _ & _ & _ & _ & _ & _ & Ha)]. exists A, g. auto.
Qed.

(** a negative [singleton] value, anywhere in the attribute list, is never accepted *)
Theorem singleton_values_nonneg_type order ptr mods st0 st p it0 gd td0 z :
  input_state ptr mods = Ok st0 -> NoDup (map fst mods) -> collision_free (st_reg st0) ->
  keeps_work order -> pyxis_resolve order ptr mods = BOk st ->
  reg_get (st_reg st0) p = Some it0 -> it_state it0 = Unresolved gd -> gi_inner gd = GIType td0 ->
  In (AFn "singleton" [EInt z]) (gt_attrs td0) -> (0 <= z)%Z.
Proof.
  intros Hin HN Hcf Hord Hres Hg0 Hs0 Hty Hz.
  destruct (accepted_declared_item _ _ _ _ _ _ _ _ Hin HN Hcf Hord Hres Hg0 Hs0)
    as (it & r & parent & m & Hg & Hs & _).
  destruct (whole_build_type _ _ _ _ _ _ _ _ _ _ _ Hin Hcf Hres Hg0 Hs0 Hty Hg Hs) as (sm & sm' & _ & Hat & _).
  destruct (type_build_inv _ _ _ _ _ _ Hat) as
      (parent' & module & doc & ta & n & pending & vfs & regions & vt & size & funcs & A0 &
       _ & _ & Hta & _).
  eapply scan_type_attrs_nonneg; eauto.
Qed.

(** * 4. Part 2: ENUM SINGLETON *)
Theorem C15_enum_singleton_declared order ptr mods st0 st files p it0 gd ed0 :
  input_state ptr mods = Ok st0 -> NoDup (map fst mods) -> collision_free (st_reg st0) ->
  keeps_work order ->
  pyxis_resolve order ptr mods = BOk st -> write_all st = Ok files ->
  reg_get (st_reg st0) p = Some it0 -> it_state it0 = Unresolved gd -> gi_inner gd = GIEnum ed0 ->
  path_parent p <> Some [] ->
  exists parent name it r f pre e sing post,
    path_parent p = Some parent /\ path_last p = Some name /\
    reg_get (st_reg st) p = Some it /\ it_state it = Resolved r /\
    (* the file of the declaring module: ..., the enum, its size check, SINGLETON PART, ... *)
    In (out_path parent, f) files /\
    file_items f = Some (pre ++ (e :: size_check name (rs_size r) ++ sing) ++ post) /\
    find_enum name (pre ++ (e :: size_check name (rs_size r) ++ sing) ++ post) = Some e /\
    match declared_singleton (ged_attrs ed0) with
    | Some A =>
      (0 <= A)%Z /\
      exists im, sing = [im] /\ im = enum_singleton_impl name (gi_vis gd) (Z.to_N A) /\
                 enum_singleton_shape name (gi_vis gd) (Z.to_N A) im
    | None => sing = []
    end.
Proof.
  intros Hin HN Hcf Hord Hres Hw Hg0 Hs0 Hty Hroot.
  destruct (emitted_enum_master _ _ _ _ _ _ _ _ _ _ Hin HN Hcf Hord Hres Hw Hg0 Hs0 Hty Hroot)
    as (parent & name & it & r & ed & f & pre & e & rest & post &
        Hpar & Hname & Hg & Hs & Hi & _ & _ & Hb & Hfile & Hitems & Hfind & _).
  destruct (whole_build_enum _ _ _ _ _ _ _ _ _ _ _ Hin Hcf Hres Hg0 Hs0 Hty Hg Hs) as (sm & _ & _ & Hbuild).
  destruct (enum_build_singleton _ _ _ _ Hbuild) as (ed' & ea & Hi' & Hea & Hsg).
  rewrite Hi in Hi'. inversion Hi'; subst ed'. clear Hi'.
  destruct (build_enum_parts _ _ _ _ _ Hb) as (name' & e' & Hname' & _ & Heq).
  rewrite Hname in Hname'. inversion Hname'; subst name'. clear Hname'.
  inversion Heq as [[He Hrest]]. rewrite Hrest in Hitems, Hfind.
  exists parent, name, it, r, f, pre, e,
         (match ed_singleton ed with Some a => [enum_singleton_impl name (gi_vis gd) a] | None => [] end), post.
  repeat (split; [assumption|]).
  pose proof (scan_enum_attrs_declared _ _ Hea) as Hd. rewrite Hsg.
  destruct (declared_singleton (ged_attrs ed0)) as [A|].
  - destruct Hd as [Hz ->]. split; [exact Hz|]. eexists. split; [reflexivity|]. split; [reflexivity|].
    apply enum_singleton_impl_shape.
  - now rewrite Hd.
Qed.

Corollary C15_enum_singleton_get order ptr mods st0 st files p it0 gd ed0 A :
  input_state ptr mods = Ok st0 -> NoDup (map fst mods) -> collision_free (st_reg st0) ->
  keeps_work order ->
  pyxis_resolve order ptr mods = BOk st -> write_all st = Ok files ->
  reg_get (st_reg st0) p = Some it0 -> it_state it0 = Unresolved gd -> gi_inner gd = GIEnum ed0 ->
  path_parent p <> Some [] ->
  declared_singleton (ged_attrs ed0) = Some A ->
  exists parent name f items e g,
    path_parent p = Some parent /\ path_last p = Some name /\
    In (out_path parent, f) files /\ file_items f = Some items /\ In e items /\
    item_kind e = Some "impl" /\ inherent_impl e = Some (name, [g]) /\
    item_kind g = Some "fn" /\ fn_name g = Some "get" /\ fn_vis g = Some (gi_vis gd) /\
    fn_unsafe g = Some true /\ fn_params g = Some [] /\ fn_ret g = Some [Atom "Self"] /\
    (* what the model prints as the body: a read through a raw pointer *)
    fn_body g = Some [tk "unsafe"; brace [paren ([tint (Z.to_N A) "-"] ++ tks ["as"; "*"; "const"; "Self"]);
                                          tk "."; tk "read"; paren []]] /\
    (0 <= A)%Z /\ fn_enum_singleton_addr g = Some (Z.to_N A) /\
    forall mem, enum_get_result mem g = Some (mem (Z.to_N A)).
Proof.
  intros Hin HN Hcf Hord Hres Hw Hg0 Hs0 Hty Hroot HA.
  destruct (C15_enum_singleton_declared _ _ _ _ _ _ _ _ _ _ Hin HN Hcf Hord Hres Hw Hg0 Hs0 Hty Hroot)
    as (parent & name & it & r & f & pre & e & sing & post &
        Hpar & Hname & _ & _ & Hfile & Hitems & _ & Hd).
  rewrite HA in Hd. destruct Hd as (Hz & im & -> & Himeq & Hsh).
  destruct Hsh as [Hk (g & Him & Hgk & Hn & Hv & Hu & Hp & Hr & Ha)].
  exists parent, name, f. eexists. exists im, g. split; [exact Hpar|]. split; [exact Hname|]. split; [exact Hfile|].
  split; [exact Hitems|]. split.
  { apply in_or_app. right. apply in_or_app. left. right. apply in_or_app. right. now left. }
  repeat (split; [assumption|]). split.
  { subst im. unfold enum_singleton_impl in Him. rewrite inherent_impl_printed in Him.
    inversion Him; subst g. unfold fn_body. now rewrite (read_fn_fn_sexp [] _ true "get" [] _ _ [] eq_refl). }
  split; [exact Hz|]. split; [exact Ha|]. intros mem. unfold enum_get_result. now rewrite Ha.
Qed.

Theorem singleton_values_nonneg_enum order ptr mods st0 st p it0 gd ed0 z :
  input_state ptr mods = Ok st0 -> NoDup (map fst mods) -> collision_free (st_reg st0) ->
  keeps_work order -> pyxis_resolve order ptr mods = BOk st ->
  reg_get (st_reg st0) p = Some it0 -> it_state it0 = Unresolved gd -> gi_inner gd = GIEnum ed0 ->
  In (AFn "singleton" [EInt z]) (ged_attrs ed0) -> (0 <= z)%Z.
Proof.
  intros Hin HN Hcf Hord Hres Hg0 Hs0 Hty Hz.
  destruct (accepted_declared_item _ _ _ _ _ _ _ _ Hin HN Hcf Hord Hres Hg0 Hs0)
    as (it & r & parent & m & Hg & Hs & _).
  destruct (whole_build_enum _ _ _ _ _ _ _ _ _ _ _ Hin Hcf Hres Hg0 Hs0 Hty Hg Hs) as (sm & _ & _ & Hbuild).
  destruct (enum_build_singleton _ _ _ _ Hbuild) as (ed & ea & _ & Hea & _).
  eapply scan_enum_attrs_nonneg; eauto.
Qed.

(** * 5. The input-level forms: a definition [d] of an input module [(k, gm)], [k <> []] *)
Lemma path_parent_join_ne k n : k <> [] -> path_parent (path_join k n) <> Some [].
Proof. intros Hk. rewrite path_parent_join. congruence. Qed.

Theorem C15_struct_singleton_of_module order ptr mods st0 st files k gm d td0 :
  input_state ptr mods = Ok st0 -> NoDup (map fst mods) -> collision_free (st_reg st0) ->
  keeps_work order ->
  pyxis_resolve order ptr mods = BOk st -> write_all st = Ok files ->
  In (k, gm) mods -> k <> [] -> In d (gm_defs gm) -> gi_inner d = GIType td0 ->
  exists r f pre s sing im fns conv post,
    In (out_path k, f) files /\
    file_items f = Some (pre ++ (s :: size_check (gi_name d) (rs_size r) ++ sing ++ im :: conv) ++ post) /\
    find_struct (gi_name d) (pre ++ (s :: size_check (gi_name d) (rs_size r) ++ sing ++ im :: conv) ++ post) = Some s /\
    im = impl_sexp (Atom "notrait") (gi_name d) fns /\ Forall is_impl_or_const conv /\
    match declared_singleton (gt_attrs td0) with
    | Some A =>
      (0 <= A)%Z /\
      exists e, sing = [e] /\ e = singleton_struct_impl (gi_name d) (gi_vis d) (Z.to_N A) /\
                singleton_shape (gi_name d) (gi_vis d) (Z.to_N A) e
    | None => sing = []
    end.
Proof.
  intros Hin HN Hcf Hord Hres Hw Hgm Hk Hd Hty.
  destruct (input_module_facts _ _ _ _ _ Hin HN Hgm) as (m0 & Hreg).
  pose proof (mr_defs _ _ _ _ Hreg d Hd) as Hg0.
  destruct (C15_struct_singleton_declared order ptr mods st0 st files _ _ d td0 Hin HN Hcf Hord Hres Hw Hg0 eq_refl Hty
              (path_parent_join_ne _ _ Hk))
    as (parent & name & it & r & f & pre & s & sing & im & fns & conv & post &
        Hpar & _ & Hname & _ & _ & Hfile & Hitems & Hfind & Him & Hconv & Hdecl).
  rewrite path_parent_join in Hpar. inversion Hpar; subst parent.
  rewrite Monotone.path_last_join in Hname. inversion Hname; subst name.
  exists r, f, pre, s, sing, im, fns, conv, post. auto 10.
Qed.

Theorem C15_enum_singleton_of_module order ptr mods st0 st files k gm d ed0 :
  input_state ptr mods = Ok st0 -> NoDup (map fst mods) -> collision_free (st_reg st0) ->
  keeps_work order ->
  pyxis_resolve order ptr mods = BOk st -> write_all st = Ok files ->
  In (k, gm) mods -> k <> [] -> In d (gm_defs gm) -> gi_inner d = GIEnum ed0 ->
  exists r f pre e sing post,
    In (out_path k, f) files /\
    file_items f = Some (pre ++ (e :: size_check (gi_name d) (rs_size r) ++ sing) ++ post) /\
    find_enum (gi_name d) (pre ++ (e :: size_check (gi_name d) (rs_size r) ++ sing) ++ post) = Some e /\
    match declared_singleton (ged_attrs ed0) with
    | Some A =>
      (0 <= A)%Z /\
      exists im, sing = [im] /\ im = enum_singleton_impl (gi_name d) (gi_vis d) (Z.to_N A) /\
                 enum_singleton_shape (gi_name d) (gi_vis d) (Z.to_N A) im
    | None => sing = []
    end.
Proof.
  intros Hin HN Hcf Hord Hres Hw Hgm Hk Hd Hty.
  destruct (input_module_facts _ _ _ _ _ Hin HN Hgm) as (m0 & Hreg).
  pose proof (mr_defs _ _ _ _ Hreg d Hd) as Hg0.
  destruct (C15_enum_singleton_declared order ptr mods st0 st files _ _ d ed0 Hin HN Hcf Hord Hres Hw Hg0 eq_refl Hty
              (path_parent_join_ne _ _ Hk))
    as (parent & name & it & r & f & pre & e & sing & post &
        Hpar & Hname & _ & _ & Hfile & Hitems & Hfind & Hdecl).
  rewrite path_parent_join in Hpar. inversion Hpar; subst parent.
  rewrite Monotone.path_last_join in Hname. inversion Hname; subst name.
  exists r, f, pre, e, sing, post. auto 10.
Qed.

(** a declaration with a negative singleton value makes the whole input unacceptable *)
Theorem negative_singleton_rejected_build order ptr mods st0 k gm d z :
  input_state ptr mods = Ok st0 -> NoDup (map fst mods) -> collision_free (st_reg st0) ->
  keeps_work order ->
  In (k, gm) mods -> In d (gm_defs gm) ->
  In (AFn "singleton" [EInt z]) (match gi_inner d with GIType td0 => gt_attrs td0 | GIEnum ed0 => ged_attrs ed0 end) ->
  (z < 0)%Z ->
  forall st, pyxis_resolve order ptr mods <> BOk st.
Proof.
  intros Hin HN Hcf Hord Hgm Hd Hz Hneg st Hres.
  destruct (input_module_facts _ _ _ _ _ Hin HN Hgm) as (m0 & Hreg).
  pose proof (mr_defs _ _ _ _ Hreg d Hd) as Hg0.
  destruct (gi_inner d) as [td0|ed0] eqn:Ety.
  - pose proof (singleton_values_nonneg_type order ptr mods st0 st _ _ d td0 z Hin HN Hcf Hord Hres Hg0 eq_refl Ety Hz). lia.
  - pose proof (singleton_values_nonneg_enum order ptr mods st0 st _ _ d ed0 z Hin HN Hcf Hord Hres Hg0 eq_refl Ety Hz). lia.
Qed.

Print Assumptions scan_type_attrs_declared.
Print Assumptions scan_enum_attrs_declared.
Print Assumptions C15_struct_singleton_declared.
Print Assumptions C15_struct_singleton_get.
Print Assumptions C15_struct_singleton_converse.
Print Assumptions C15_enum_singleton_declared.
Print Assumptions C15_enum_singleton_get.
Print Assumptions C15_struct_singleton_of_module.
Print Assumptions C15_enum_singleton_of_module.
Print Assumptions negative_singleton_rejected_build.
