(** * RefutedWitnessesOrder: the open findings about names ending in "Vftable" (F4b, F7b), as
    machine-checked facts about the MODEL.

    The whole-build theorems of C01 / C02 / C04 / C14 assume [collision_free] (no input item is named like
    the vftable struct generated for an input type); the order-independence theorems of C09 assume
    [collision_free] and [clean_stateb] (nothing written in the input ends in "Vftable").  Both side
    conditions are NECESSARY: the witnesses below are accepted inputs outside them on which the
    conclusions fail.  Replayed on the implementation (findings/F04b, findings/F07b) they are the
    known findings F4b and F7b.

    Positive counterparts (proved elsewhere, under the side conditions):
    [C02_whole_build], [EmitLayout.emitted_struct_whole_build] (C01/C02: the emitted struct has the
    resolved size), [C14_files_whole] / [C14_declared_names_distinct] (every declared item once),
    [C09_pyxis_resolve_order_independent], [C09_output_order_independent]. *)
From Coq Require Import List String NArith ZArith Bool Permutation.
From PyxisModel Require Import Base Sexp Grammar SemTypes Registry Sem Emit WholeBuild OrderIndep
     EmitReaders EmitFnReaders RustLayout EmitLayout FilesRead RefutedInputs.
Import ListNotations.
Local Open Scope string_scope.
Local Open Scope list_scope.

(** ** F4b: a user type named [FooVftable] beside [type Foo { vftable {..} }]

    Pointer width 8, schedule [FooVftable; User; Foo] (the hook's permutation number 4 of the three
    sorted paths): the user's [FooVftable] (16 bytes) is resolved first, [User] is resolved against
    it (16 bytes), then [Foo] is resolved and its generated vftable struct REPLACES the item at path
    [a::FooVftable] (8 bytes). *)
Definition f4b_sched : list N := [0; 0; 0; 4]%N.
Definition f4b_st0 : sstate := st0_of 8 f4b_mods.
Definition f4b_st : sstate := st_of f4b_sched 8 f4b_mods.
Definition f4b_files : files_t := files_of f4b_st.
Definition p_Foo : path := ["a"; "Foo"].
Definition p_FooVftable : path := ["a"; "FooVftable"].
Definition p_User : path := ["a"; "User"].

Lemma f4b_schedule_is : hook_schedule f4b_sched [p_Foo; p_FooVftable; p_User] = [p_FooVftable; p_User; p_Foo].
Proof. vm_compute. reflexivity. Qed.

Lemma f4b_accepted : accepted_check f4b_sched 8 f4b_mods = true.
Proof. vm_compute. reflexivity. Qed.
Lemma f4b_built : built f4b_sched 8 f4b_mods f4b_st0 f4b_st f4b_files.
Proof. exact (built_of _ _ _ f4b_accepted). Qed.

Lemma f4b_cfb : collision_freeb (st_reg f4b_st0) = false.
Proof. vm_compute. reflexivity. Qed.
Lemma f4b_has_owner : issome (reg_get (st_reg f4b_st0) p_Foo) = true.
Proof. vm_compute. reflexivity. Qed.
Lemma f4b_has_clash : issome (reg_get (st_reg f4b_st0) p_FooVftable) = true.
Proof. vm_compute. reflexivity. Qed.
Lemma f4b_vpath : vftable_path p_Foo = Some p_FooVftable.
Proof. vm_compute. reflexivity. Qed.

Lemma f4b_not_collision_free : ~ collision_free (st_reg f4b_st0).
Proof.
  intros H. pose proof (H p_Foo p_FooVftable (issome_not_none _ f4b_has_owner) f4b_vpath) as E.
  pose proof f4b_has_clash as C. rewrite E in C. discriminate C.
Qed.

(** the declared definition of [a::FooVftable] *)
Definition f4b_user_def : gitemdef := ty_ [] Private "FooVftable" [fld Private "a" u64; fld Private "b" u64].
Lemma f4b_declared : option_map it_state (reg_get (st_reg f4b_st0) p_FooVftable) = Some (Unresolved f4b_user_def).
Proof. vm_compute. reflexivity. Qed.

(** in the final registry the path holds the vftable struct generated for [Foo] *)
Definition generated_vftable_item (st : sstate) (owner : path) (v : vis) : option item :=
  thenr (typedef_at st owner) (fun td =>
    thenr (td_vftable td) (fun vt => vftable_item (st_reg st) owner v (vt_functions vt))).
Lemma f4b_replaced :
  issome (reg_get (st_reg f4b_st) p_FooVftable) = true /\
  reg_get (st_reg f4b_st) p_FooVftable = generated_vftable_item f4b_st p_Foo Private.
Proof. vm_compute. split; reflexivity. Qed.
Lemma f4b_sizes :
  size_at f4b_st p_FooVftable = Some 8%N /\ size_at f4b_st p_User = Some 16%N /\
  option_map (map (fun r => (r_name r, r_type r))) (regions_at f4b_st p_User) = Some [(Some "x", TRaw p_FooVftable)].
Proof. vm_compute. repeat split; reflexivity. Qed.

(** the file: one struct [FooVftable] -- the generated one; the declared one is not emitted *)
Lemma f4b_file :
  option_map file_decls (file_named f4b_files "a.rs") =
  Some [("struct", "Foo"); ("struct", "FooVftable"); ("struct", "User")] /\
  option_map (map ef_name) (thenr (struct_of f4b_files "a.rs" "FooVftable") struct_fields) = Some ["f"].
Proof. vm_compute. split; reflexivity. Qed.

(** the emitted [User]: laid out by the Reference's algorithm from the sizes the FINAL registry
    gives to its field types, it has 8 bytes; its resolved size and its size check say 16 *)
Lemma f4b_user_layout :
  thenr (struct_of f4b_files "a.rs" "User")
        (emitted_struct_layout (map (type_sa (st_reg f4b_st)) [TRaw p_FooVftable])) = Some ([("x", 0%N)], 8%N, 8%N) /\
  size_check_of f4b_files "a.rs" "User" = Some (16%N, 16%N).
Proof. vm_compute. split; reflexivity. Qed.

(** C14 / C02 / C01 on F4b.  The build is accepted and written; the input is NOT [collision_free];
    - (C14) the input declares [a::FooVftable { a: u64, b: u64 }], but in the final registry that
      path holds the struct generated for [Foo]'s vftable (one pointer), and the file has exactly
      one struct [FooVftable], with the single field [f]: the declared item is not emitted;
    - (C02/C01) [User { x: FooVftable }] keeps the size it got from the replaced definition: its
      resolved size and the literal of its emitted size check are 16, while the emitted struct
      [User], laid out by [RustLayout] from the final registry's size of its field type, has 8
      bytes (the conclusion of [EmitLayout.emitted_struct_whole_build] fails). *)
Theorem C14_C02_vftable_named_type_replaced_refuted_F4b :
  exists st0 st files,
    built f4b_sched 8 f4b_mods st0 st files /\
    collision_freeb (st_reg st0) = false /\ ~ collision_free (st_reg st0) /\
    option_map it_state (reg_get (st_reg st0) p_FooVftable) = Some (Unresolved f4b_user_def) /\
    reg_get (st_reg st) p_FooVftable <> None /\
    reg_get (st_reg st) p_FooVftable = generated_vftable_item st p_Foo Private /\
    size_at st p_FooVftable = Some 8%N /\
    option_map file_decls (file_named files "a.rs") =
      Some [("struct", "Foo"); ("struct", "FooVftable"); ("struct", "User")] /\
    option_map (map ef_name) (thenr (struct_of files "a.rs" "FooVftable") struct_fields) = Some ["f"] /\
    size_at st p_User = Some 16%N /\
    option_map (map (fun r => (r_name r, r_type r))) (regions_at st p_User) = Some [(Some "x", TRaw p_FooVftable)] /\
    thenr (struct_of files "a.rs" "User")
          (emitted_struct_layout (map (type_sa (st_reg st)) [TRaw p_FooVftable])) = Some ([("x", 0%N)], 8%N, 8%N) /\
    size_check_of files "a.rs" "User" = Some (16%N, 16%N).
Proof.
  exists f4b_st0, f4b_st, f4b_files.
  destruct f4b_replaced as [R1 R2]. destruct f4b_sizes as (S1 & S2 & S3). destruct f4b_file as [F1 F2].
  destruct f4b_user_layout as [L1 L2].
  split; [exact f4b_built|]. split; [exact f4b_cfb|]. split; [exact f4b_not_collision_free|].
  split; [exact f4b_declared|]. split; [exact (issome_not_none _ R1)|]. split; [exact R2|]. split; [exact S1|].
  split; [exact F1|]. split; [exact F2|]. split; [exact S2|]. split; [exact S3|]. split; [exact L1 | exact L2].
Qed.
Print Assumptions C14_C02_vftable_named_type_replaced_refuted_F4b.

(** ** C09 on F4b: the result depends on the schedule.
    (a) pointer width 4 (where [u64] needs alignment 8 and the user's [FooVftable] is rejected when
        it is attempted before [Foo] replaces it): two hook schedules, one accepted, one in error;
    (b) pointer width 8: two hook schedules, both accepted, different files (the size check of
        [User] says 8 or 16). *)
Definition f4b_sched_err : list N := [0; 0; 0; 1]%N.
Definition f4b_st0_32 : sstate := st0_of 4 f4b_mods.
Definition f4b_st_32 : sstate := st_of [] 4 f4b_mods.
Definition f4b_st_sorted : sstate := st_of [] 8 f4b_mods.
Definition f4b_files_sorted : files_t := files_of f4b_st_sorted.

Lemma f4b_sched_err_is : hook_schedule f4b_sched_err [p_Foo; p_FooVftable; p_User] = [p_FooVftable; p_Foo; p_User].
Proof. vm_compute. reflexivity. Qed.

Lemma f4b_accepted_32 : accepted_check [] 4 f4b_mods = true.
Proof. vm_compute. reflexivity. Qed.
Lemma f4b_rejected_32 :
  pyxis_resolve (hook_schedule f4b_sched_err) 4 f4b_mods = BErr "alignment is less than minimum required alignment".
Proof. vm_compute. reflexivity. Qed.
Lemma f4b_accepted_sorted : accepted_check [] 8 f4b_mods = true.
Proof. vm_compute. reflexivity. Qed.
Lemma f4b_check_sorted : size_check_of f4b_files_sorted "a.rs" "User" = Some (8%N, 8%N).
Proof. vm_compute. reflexivity. Qed.

Lemma f4b_built_sorted : built [] 8 f4b_mods (st0_of 8 f4b_mods) f4b_st_sorted f4b_files_sorted.
Proof. exact (built_of _ _ _ f4b_accepted_sorted). Qed.

(** (stated for variables, then instantiated: closed terms are never destructed or inverted) *)
Lemma write_all_differ (s1 s2 : sstate) (l1 l2 : files_t) :
  write_all s1 = Ok l1 -> write_all s2 = Ok l2 -> l1 <> l2 -> write_all s1 <> write_all s2.
Proof. intros W1 W2 D E. rewrite W1, W2 in E. apply D. now inversion E. Qed.

Lemma f4b_files_differ : f4b_files_sorted <> f4b_files.
Proof.
  intros E. pose proof f4b_check_sorted as H1. destruct f4b_user_layout as [_ H2].
  rewrite E in H1. rewrite H1 in H2. discriminate H2.
Qed.

Theorem C09_order_dependence_F4b_refuted :
  (* (a) the verdict *)
  (exists ks1 ks2 st0 st1 msg,
     (forall l, Permutation (hook_schedule ks1 l) l) /\ (forall l, Permutation (hook_schedule ks2 l) l) /\
     input_state 4 f4b_mods = Ok st0 /\
     pyxis_resolve (hook_schedule ks1) 4 f4b_mods = BOk st1 /\
     pyxis_resolve (hook_schedule ks2) 4 f4b_mods = BErr msg /\
     ~ same_build st0 (pyxis_resolve (hook_schedule ks1) 4 f4b_mods) (pyxis_resolve (hook_schedule ks2) 4 f4b_mods)) /\
  (* (b) the files *)
  (exists ks1 ks2 st1 st2 files1 files2,
     (forall l, Permutation (hook_schedule ks1 l) l) /\ (forall l, Permutation (hook_schedule ks2 l) l) /\
     pyxis_resolve (hook_schedule ks1) 8 f4b_mods = BOk st1 /\ write_all st1 = Ok files1 /\
     pyxis_resolve (hook_schedule ks2) 8 f4b_mods = BOk st2 /\ write_all st2 = Ok files2 /\
     size_check_of files1 "a.rs" "User" = Some (8%N, 8%N) /\
     size_check_of files2 "a.rs" "User" = Some (16%N, 16%N) /\
     write_all st1 <> write_all st2).
Proof.
  split.
  - destruct (built_of _ _ _ f4b_accepted_32) as (E0 & E1 & _).
    exists [], f4b_sched_err, f4b_st0_32, f4b_st_32, "alignment is less than minimum required alignment".
    split; [apply hook_schedule_perm|]. split; [apply hook_schedule_perm|].
    split; [exact E0|]. split; [exact E1|]. split; [exact f4b_rejected_32|].
    rewrite E1, f4b_rejected_32. intros H. exact H.
  - destruct f4b_built_sorted as (_ & E1 & W1).
    destruct f4b_built as (_ & E2 & W2). destruct f4b_user_layout as [_ L2].
    exists [], f4b_sched, f4b_st_sorted, f4b_st, f4b_files_sorted, f4b_files.
    split; [apply hook_schedule_perm|]. split; [apply hook_schedule_perm|].
    split; [exact E1|]. split; [exact W1|]. split; [exact E2|]. split; [exact W2|].
    split; [exact f4b_check_sorted|]. split; [exact L2|].
    exact (write_all_differ _ _ _ _ W1 W2 f4b_files_differ).
Qed.
Print Assumptions C09_order_dependence_F4b_refuted.

(** ** F7b: a signature naming the GENERATED type [AVftable]
    [collision_free] holds (no input item is called [AVftable]); [clean_stateb] does not (the impl
    function's argument type is written [*const AVftable]).  The item [a::AVftable] exists only once
    [A] has been resolved: attempted first, [B] is in error; attempted after [A], it is accepted. *)
Definition f7b_sched_err : list N := [0; 0; 1]%N.
Definition f7b_st0 : sstate := st0_of 4 f7b_mods.
Definition f7b_st : sstate := st_of [] 4 f7b_mods.
Definition p_A : path := ["a"; "A"].
Definition p_B : path := ["a"; "B"].

Lemma f7b_schedules :
  hook_schedule [] [p_A; p_B] = [p_A; p_B] /\ hook_schedule f7b_sched_err [p_A; p_B] = [p_B; p_A].
Proof. vm_compute. split; reflexivity. Qed.
Lemma f7b_accepted : accepted_check [] 4 f7b_mods = true.
Proof. vm_compute. reflexivity. Qed.
Lemma f7b_rejected : pyxis_resolve (hook_schedule f7b_sched_err) 4 f7b_mods = BErr "failed to resolve type of field".
Proof. vm_compute. reflexivity. Qed.
Lemma f7b_side : collision_freeb (st_reg f7b_st0) = true /\ clean_stateb f7b_st0 = false.
Proof. vm_compute. split; reflexivity. Qed.

Theorem C09_order_dependence_F7b_refuted :
  exists ks1 ks2 st0 st1 files1 msg,
    (forall l, Permutation (hook_schedule ks1 l) l) /\ (forall l, Permutation (hook_schedule ks2 l) l) /\
    input_state 4 f7b_mods = Ok st0 /\
    collision_free (st_reg st0) /\ clean_stateb st0 = false /\
    pyxis_resolve (hook_schedule ks1) 4 f7b_mods = BOk st1 /\ write_all st1 = Ok files1 /\
    pyxis_resolve (hook_schedule ks2) 4 f7b_mods = BErr msg /\
    ~ same_build st0 (pyxis_resolve (hook_schedule ks1) 4 f7b_mods) (pyxis_resolve (hook_schedule ks2) 4 f7b_mods).
Proof.
  destruct (built_of _ _ _ f7b_accepted) as (E0 & E1 & W1). destruct f7b_side as [S1 S2].
  exists [], f7b_sched_err, f7b_st0, f7b_st, (files_of f7b_st), "failed to resolve type of field".
  split; [apply hook_schedule_perm|]. split; [apply hook_schedule_perm|].
  split; [exact E0|]. split; [exact (collision_freeb_sound _ S1)|]. split; [exact S2|].
  split; [exact E1|]. split; [exact W1|]. split; [exact f7b_rejected|].
  rewrite E1, f7b_rejected. intros H. exact H.
Qed.
Print Assumptions C09_order_dependence_F7b_refuted.
