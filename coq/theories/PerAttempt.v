(** * Per-attempt facts that both the property files (C06) and the whole-build liftings use *)
From Coq Require Import List NArith ZArith Bool String Lia.
From PyxisModel Require Import Base Grammar SemTypes Registry Sem SemLemmas PlacementLemmas InheritLemmas.
Import ListNotations.

Theorem prefix_positionwise : forall base derived,
  prefix_equal base derived = true -> (List.length base <= List.length derived)%nat ->
  forall k b, nth_error base k = Some b ->
  exists d, nth_error derived k = Some d /\
    sf_name b = sf_name d /\ sf_cc b = sf_cc d /\ sf_vis b = sf_vis d /\
    list_eqb sarg_eqb (sf_args b) (sf_args d) = true /\
    opt_eqb stype_eqb (sf_ret b) (sf_ret d) = true.
Proof.
  intros base derived H Hl k b Hk.
  destruct (prefix_equal_nth _ _ H Hl k b Hk) as (d & Hd & He).
  exists d. split; [exact Hd|]. apply sfunction_eqb_proj. exact He.
Qed.

Theorem own_pointer_first : forall st owner v ts pending vfs st' regions vt size,
  resolve_regions st owner v ts pending vfs = Ok (st', regions, vt, size) ->
  reg_u8 (st_reg st') ->
  (forall x, vt = Some x -> vt_base_field x = None) -> vt <> None ->
  exists ty fs, hd_error regions = Some (vftable_region_of (TConstPtr ty)) /\
    vt = Some {| vt_functions := fs; vt_base_field := None; vt_type := TConstPtr ty |} /\
    Forall (fun x => r_name (snd x) <> None -> In x (offsets_of (st_reg st') 0 regions))
           (declared_offsets (st_reg st') (reg_ptr (st_reg st')) pending).
Proof.
  intros st owner v ts pending vfs st' regions vt size H Hu Hown Hsome.
  destruct (resolve_regions_offsets _ _ _ _ _ _ _ _ _ _ H Hu) as (start & [[-> Hb]|(-> & ty & fs & Hhd & Hvt)] & Hall).
  - destruct vt as [x|]; [|congruence]. exfalso. apply (Hb x eq_refl). apply Hown. reflexivity.
  - exists ty, fs. auto.
Qed.
