(** * RefutedInputs: the minimal inputs of the OPEN known findings (known_findings.json, findings/Fxx/),
    translated by hand into [gmodule] values, and the closed runners the witness theorems of
    RefutedWitnesses*.v are stated with.

    Every input is a closed Gallina term (no parser in between); the .pyxis text it transcribes is
    quoted in front of it.  The runners are closed too: [vm_compute] is only ever run on closed
    boolean tests; the [exists ...] statements are derived from the booleans by [run_exists] /
    [run_exists_sched], which are proved for variables and then instantiated (as
    [NoPanicEmit.check_exists]). *)
From Coq Require Import List String NArith ZArith Bool.
From PyxisModel Require Import Base Sexp Grammar SemTypes Registry Sem Emit WholeBuild OrderIndep EmitReaders
     EmitFnReaders EmitMarkersEnum.
Import ListNotations.
Local Open Scope string_scope.
Local Open Scope list_scope.

(** ** building inputs *)
Definition fld (v : vis) (n : string) (t : gtype) : gstatement := {| gs_field := GField v n t; gs_attrs := [] |}.
Definition fld_a (a : list gattr) (v : vis) (n : string) (t : gtype) : gstatement :=
  {| gs_field := GField v n t; gs_attrs := a |}.
Definition vft (fs : list gfunction) : gstatement := {| gs_field := GVftable fs; gs_attrs := [] |}.
Definition fn_ (a : list gattr) (v : vis) (n : string) (args : list garg) (r : option gtype) : gfunction :=
  {| gf_vis := v; gf_name := n; gf_attrs := a; gf_args := args; gf_ret := r |}.
Definition ty_ (a : list gattr) (v : vis) (n : string) (stmts : list gstatement) : gitemdef :=
  {| gi_vis := v; gi_name := n; gi_inner := GIType {| gt_stmts := stmts; gt_attrs := a |} |}.
Definition case_ (n : string) (e : option Z) : genumstmt :=
  {| ge_name := n; ge_expr := option_map EInt e; ge_attrs := [] |}.
Definition enum_ (v : vis) (n : string) (base : gtype) (cases : list genumstmt) : gitemdef :=
  {| gi_vis := v; gi_name := n; gi_inner := GIEnum {| ged_type := base; ged_stmts := cases; ged_attrs := [] |} |}.
Definition impl_ (n : string) (fs : list gfunction) : gfnblock := {| gb_name := n; gb_fns := fs; gb_attrs := [] |}.
Definition mod_ (uses : list path) (defs : list gitemdef) (impls : list gfnblock) : gmodule :=
  {| gm_uses := uses; gm_extern_types := []; gm_extern_values := []; gm_defs := defs;
     gm_impls := impls; gm_backends := []; gm_attrs := [] |}.
Definition address (n : Z) : gattr := AFn "address" [EInt n].
Definition u8 := GIdent "u8".
Definition u32 := GIdent "u32".
Definition u64 := GIdent "u64".

(** ** the inputs *)

(** F4b  findings/F04b/a.pyxis
<<
type FooVftable { a: u64, b: u64 }
type Foo { vftable { pub fn f(&self); } }
type User { x: FooVftable }
>> *)
Definition f4b_module : gmodule :=
  mod_ [] [ty_ [] Private "FooVftable" [fld Private "a" u64; fld Private "b" u64];
           ty_ [] Private "Foo" [vft [fn_ [] Public "f" [GConstSelf] None]];
           ty_ [] Private "User" [fld Private "x" (GIdent "FooVftable")]] [].
Definition f4b_mods : list (path * gmodule) := [(["a"], f4b_module)].

(** F7b  findings/F07b/a.pyxis
<<
type A { vftable { pub fn f(&self); } }
type B { x: u32 }
impl B { #[address(0x10)] pub fn g(&self, t: *const AVftable); }
>> *)
Definition f7b_module : gmodule :=
  mod_ [] [ty_ [] Private "A" [vft [fn_ [] Public "f" [GConstSelf] None]];
           ty_ [] Private "B" [fld Private "x" u32]]
          [impl_ "B" [fn_ [address 16] Public "g" [GConstSelf; GNamed "t" (GConstPtr (GIdent "AVftable"))] None]].
Definition f7b_mods : list (path * gmodule) := [(["a"], f7b_module)].

(** F9  findings/F09/a.pyxis
<<
#[packed]
type T { a: void, b: u8 }
>> *)
Definition f9_module : gmodule :=
  mod_ [] [ty_ [AIdent "packed"] Private "T" [fld Private "a" (GIdent "void"); fld Private "b" u8]] [].
Definition f9_mods : list (path * gmodule) := [(["a"], f9_module)].

(** F10  findings/F10/a.pyxis
<<
type B { x: u32 }
impl B { #[address(0x10)] pub fn create(x: u32) -> u32; }
type D { #[base] pub b: B }
>> *)
Definition f10_module : gmodule :=
  mod_ [] [ty_ [] Private "B" [fld Private "x" u32];
           ty_ [] Private "D" [fld_a [AIdent "base"] Public "b" (GIdent "B")]]
          [impl_ "B" [fn_ [address 16] Public "create" [GNamed "x" u32] (Some u32)]].
Definition f10_mods : list (path * gmodule) := [(["a"], f10_module)].

(** F12a  [enum E: u8 {}] *)
Definition f12a_module : gmodule := mod_ [] [enum_ Private "E" u8 []] [].
Definition f12a_mods : list (path * gmodule) := [(["a"], f12a_module)].

(** F12b  [type S { a: u8 }  enum E: S { A }] *)
Definition f12b_module : gmodule :=
  mod_ [] [ty_ [] Private "S" [fld Private "a" u8]; enum_ Private "E" (GIdent "S") [case_ "A" None]] [].
Definition f12b_mods : list (path * gmodule) := [(["a"], f12b_module)].

(** F12c  [enum E: u8 { A = 1, B = 1 }] *)
Definition f12c_module : gmodule := mod_ [] [enum_ Private "E" u8 [case_ "A" (Some 1%Z); case_ "B" (Some 1%Z)]] [].
Definition f12c_mods : list (path * gmodule) := [(["a"], f12c_module)].

(** F13  findings/F13/a.pyxis
<<
type I { a: u32 }
#[packed]
type P { x: u8, i: I }
>> *)
Definition f13_module : gmodule :=
  mod_ [] [ty_ [] Private "I" [fld Private "a" u32];
           ty_ [AIdent "packed"] Private "P" [fld Private "x" u8; fld Private "i" (GIdent "I")]] [].
Definition f13_mods : list (path * gmodule) := [(["a"], f13_module)].

(** F14  [type D { vftable { pub fn f(&self); }, pub vftable: u32 }] *)
Definition f14_module : gmodule :=
  mod_ [] [ty_ [] Private "D" [vft [fn_ [] Public "f" [GConstSelf] None]; fld Public "vftable" u32]] [].
Definition f14_mods : list (path * gmodule) := [(["a"], f14_module)].

(** F19  findings/F19/m/base.pyxis, findings/F19/m/derived.pyxis
<<
// m/base.pyxis
pub type Base { vftable { fn hidden(&self); pub fn shown(&self); } }
// m/derived.pyxis
use m::base::Base;
pub type Derived { #[base] pub base: Base }
>> *)
Definition f19_base_module : gmodule :=
  mod_ [] [ty_ [] Public "Base" [vft [fn_ [] Private "hidden" [GConstSelf] None;
                                     fn_ [] Public "shown" [GConstSelf] None]]] [].
Definition f19_derived_module : gmodule :=
  mod_ [["m"; "base"; "Base"]] [ty_ [] Public "Derived" [fld_a [AIdent "base"] Public "base" (GIdent "Base")]] [].
Definition f19_mods : list (path * gmodule) :=
  [(["m"; "base"], f19_base_module); (["m"; "derived"], f19_derived_module)].

(** F21  findings/F21/a.pyxis
<<
type T { vftable { pub fn f(a: u32) -> u32; }, pub x: u32 }
>> *)
Definition f21_module : gmodule :=
  mod_ [] [ty_ [] Private "T" [vft [fn_ [] Public "f" [GNamed "a" u32] (Some u32)]; fld Public "x" u32]] [].
Definition f21_mods : list (path * gmodule) := [(["a"], f21_module)].

(** F24  findings/F24/a.pyxis
<<
pub type A { pub x: u32 }
impl A { #[address(0x10)] pub fn f(&self); }
pub type B { pub y: u32 }
impl B { #[address(0x20)] pub fn f(&self); }
pub type Mid { #[base] pub a: A, #[base] pub b: B }
pub type D { #[base] pub x: Mid, #[base] pub b: B }
>> *)
Definition f24_module : gmodule :=
  mod_ [] [ty_ [] Public "A" [fld Public "x" u32];
           ty_ [] Public "B" [fld Public "y" u32];
           ty_ [] Public "Mid" [fld_a [AIdent "base"] Public "a" (GIdent "A"); fld_a [AIdent "base"] Public "b" (GIdent "B")];
           ty_ [] Public "D" [fld_a [AIdent "base"] Public "x" (GIdent "Mid"); fld_a [AIdent "base"] Public "b" (GIdent "B")]]
          [impl_ "A" [fn_ [address 16] Public "f" [GConstSelf] None];
           impl_ "B" [fn_ [address 32] Public "f" [GConstSelf] None]].
Definition f24_mods : list (path * gmodule) := [(["a"], f24_module)].

(** ** running the model (closed terms only) *)
Definition files_t := list (string * sexp).

(** an accepted build whose files are written: the initial state, the final state, the files *)
Definition run_check (sched : list N) (ptr : N) (mods : list (path * gmodule))
           (f : sstate -> sstate -> files_t -> bool) : bool :=
  match input_state ptr mods, pyxis_resolve (hook_schedule sched) ptr mods with
  | Ok st0, BOk st => match write_all st with Ok files => f st0 st files | _ => false end
  | _, _ => false
  end.

Lemma run_exists_gen (a : outcome sstate) (b : build_result) (w : sstate -> outcome files_t)
      (f : sstate -> sstate -> files_t -> bool) :
  match a, b with
  | Ok st0, BOk st => match w st with Ok files => f st0 st files | _ => false end
  | _, _ => false
  end = true ->
  exists st0 st files, a = Ok st0 /\ b = BOk st /\ w st = Ok files /\ f st0 st files = true.
Proof.
  destruct a as [st0| | |]; try discriminate. destruct b as [st| | | |]; try discriminate.
  destruct (w st) as [files| | |] eqn:E; try discriminate. intros H. exists st0, st, files. auto.
Qed.

Lemma run_exists sched ptr mods f :
  run_check sched ptr mods f = true ->
  exists st0 st files,
    input_state ptr mods = Ok st0 /\ pyxis_resolve (hook_schedule sched) ptr mods = BOk st /\
    write_all st = Ok files /\ f st0 st files = true.
Proof. apply run_exists_gen. Qed.

(** the verdict of a run, as a class *)
Inductive verdict : Type := VOk | VErr (m : string) | VNoProgress (l : list path) | VPanic (m : string) | VFuel.
Definition verdict_of (b : build_result) : verdict :=
  match b with
  | BOk _ => VOk | BErr m => VErr m | BNoProgress l => VNoProgress l | BPanic m => VPanic m | BFuel => VFuel
  end.
Definition is_bok (b : build_result) : bool := match b with BOk _ => true | _ => false end.
Definition is_berr (b : build_result) : bool := match b with BErr _ => true | _ => false end.

Lemma is_bok_exists b : is_bok b = true -> exists st, b = BOk st.
Proof. destruct b; try discriminate. eauto. Qed.
Lemma is_berr_exists b : is_berr b = true -> exists m, b = BErr m.
Proof. destruct b; try discriminate. eauto. Qed.

(** ** reading the files *)
Definition thenr {A B} (x : option A) (f : A -> option B) : option B :=
  match x with Some a => f a | None => None end.
Definition file_named (files : files_t) (name : string) : option sexp :=
  option_map snd (find (fun kf => String.eqb (fst kf) name) files).
Definition items_of (files : files_t) (name : string) : option (list sexp) := thenr (file_named files name) file_items.
Definition struct_of (files : files_t) (file name : string) : option sexp :=
  thenr (items_of files file) (find_struct name).
Definition enum_of (files : files_t) (file name : string) : option sexp :=
  thenr (items_of files file) (find_enum name).
(** the functions of the inherent impl blocks of [name], block by block *)
Definition impls_of (name : string) (items : list sexp) : list (list sexp) :=
  all_somes (fun e => match inherent_impl e with
                      | Some (n, fns) => if String.eqb n name then Some fns else None
                      | None => None
                      end) items.
Definition impl_fns (files : files_t) (file name : string) : option (list sexp) :=
  thenr (items_of files file) (fun items => match impls_of name items with [fns] => Some fns | _ => None end).

(** the resolved value of a path in a state *)
Definition resolved_at (st : sstate) (p : path) : option resolved :=
  match reg_get (st_reg st) p with Some it => item_resolved it | None => None end.
Definition size_at (st : sstate) (p : path) : option N := option_map rs_size (resolved_at st p).
Definition align_at (st : sstate) (p : path) : option N := option_map rs_align (resolved_at st p).
Definition regions_at (st : sstate) (p : path) : option (list region) :=
  match resolved_at st p with
  | Some r => match rs_inner r with IType td => Some (td_regions td) | _ => None end
  | None => None
  end.

(** decidable equalities used to turn boolean tests into equations *)
Definition oN_eqb (a b : option N) : bool :=
  match a, b with Some x, Some y => N.eqb x y | None, None => true | _, _ => false end.
Lemma oN_eqb_eq a b : oN_eqb a b = true -> a = b.
Proof. destruct a, b; cbn; try discriminate; [|reflexivity]. intros H. apply N.eqb_eq in H. now subst. Qed.

(** ** closed witnesses
    [st0_of] / [st_of] / [files_of] are the states and files of a run, as closed terms (a dummy when
    the run does not get there); [built_of] derives, from the closed boolean [run_check .. = true],
    that they ARE the states and the files of an accepted build.  Facts about them are closed
    equations, checked by [vm_compute] one at a time. *)
Definition built (sched : list N) (ptr : N) (mods : list (path * gmodule)) (st0 st : sstate) (files : files_t) : Prop :=
  input_state ptr mods = Ok st0 /\
  pyxis_resolve (hook_schedule sched) ptr mods = BOk st /\
  write_all st = Ok files.

Definition dummy_state : sstate := {| st_modules := []; st_reg := {| reg_types := []; reg_ptr := 0 |} |}.
Definition st0_of (ptr : N) (mods : list (path * gmodule)) : sstate :=
  match input_state ptr mods with Ok s => s | _ => dummy_state end.
Definition st_of (sched : list N) (ptr : N) (mods : list (path * gmodule)) : sstate :=
  match pyxis_resolve (hook_schedule sched) ptr mods with BOk s => s | _ => dummy_state end.
Definition files_of (st : sstate) : files_t := match write_all st with Ok l => l | _ => [] end.

Definition accepted_check (sched : list N) (ptr : N) (mods : list (path * gmodule)) : bool :=
  run_check sched ptr mods (fun _ _ _ => true).

Lemma built_of sched ptr mods :
  accepted_check sched ptr mods = true ->
  built sched ptr mods (st0_of ptr mods) (st_of sched ptr mods) (files_of (st_of sched ptr mods)).
Proof.
  unfold accepted_check, run_check, built, st0_of, st_of, files_of.
  destruct (input_state ptr mods) as [st0| | |]; try discriminate.
  destruct (pyxis_resolve (hook_schedule sched) ptr mods) as [st| | | |]; try discriminate.
  destruct (write_all st) as [files| | |]; try discriminate. intros _. repeat split.
Qed.

(** the side conditions of the whole-build and order-independence theorems, on the initial state *)
Definition side_ok (st0 : sstate) : bool := collision_freeb (st_reg st0) && clean_stateb st0.

(** ** more readers *)
Definition issome {A} (o : option A) : bool := match o with Some _ => true | None => false end.
Lemma issome_not_none {A} (o : option A) : issome o = true -> o <> None.
Proof. destruct o; [discriminate | discriminate]. Qed.

Definition typedef_at (st : sstate) (p : path) : option type_def :=
  match resolved_at st p with
  | Some r => match rs_inner r with IType td => Some td | _ => None end
  | None => None
  end.
Definition enumdef_at (st : sstate) (p : path) : option enum_def :=
  match resolved_at st p with
  | Some r => match rs_inner r with IEnum ed => Some ed | _ => None end
  | None => None
  end.

(** the two literals of the size check emitted for type [name] in a file *)
Definition size_check_of (files : files_t) (file name : string) : option (N * N) :=
  thenr (items_of files file)
        (first_some (fun c => match read_size_check c with
                              | Some (_, n, a, b) => if String.eqb n name then Some (a, b) else None
                              | None => None
                              end)).

(** does a token tree mention the atom [a] (at any depth)? *)
Fixpoint mentions (a : string) (e : sexp) : bool :=
  match e with
  | Atom s => String.eqb s a
  | Str _ => false
  | SList l => (fix go (l : list sexp) : bool := match l with [] => false | x :: r => mentions a x || go r end) l
  end.
Definition tokens_mention (a : string) (l : list sexp) : bool := existsb (mentions a) l.

(** does a parameter list have a receiver ([self] / [&self] / [&mut self])? *)
Definition is_receiver (p : eparam) : bool := match p with EPSelf | EPMutSelf => true | EPNamed _ _ => false end.
Definition has_receiver (ps : list eparam) : bool := existsb is_receiver ps.

(** a list with two equal neighbours is not duplicate-free *)
Lemma not_nodup_pair {A} (x : A) (pre post : list A) : ~ NoDup (pre ++ x :: x :: post).
Proof.
  intros H. apply NoDup_remove_2 in H. apply H. apply in_or_app. right. now left.
Qed.
