(** * RewriteLift (C20, local rewrites, part 6): the semantic side conditions only have to be checked
    in ONE reference state.

    [field_offset_in st p v td j off] and [natural_size_in st p v td sz] (RewriteSem.v) speak about one
    state.  Both are monotone: if [st'] knows every resolved input item of [st] ([below]), what holds
    in [st] holds in [st'].  Hence a side condition "every offset the fold reaches is [A]" checked in
    a reference state above all the states the resolution loop visits holds in each of them.

    Functional versions ([field_offset_of], [natural_size_of]) make the conditions checkable by
    computation on closed inputs. *)
From Coq Require Import List NArith ZArith Bool Lia String Permutation.
From PyxisModel Require Import Base Grammar SemTypes Registry Sem SemLemmas PlacementLemmas FunctionLemmas
     VftableLemmas RewriteLemmas WholeBuild Monotone OrderIndep RewriteLocal RewriteSem.
Import ListNotations.
Local Open Scope string_scope.
Local Open Scope list_scope.

Section Lift.
  Variable R0 : registry.
  Hypothesis Hcf : collision_free R0.
  Hypothesis Hu8 : user R0 ["u8"].

  (** [st'] knows at least the resolved input items of [st]; both are reachable from [R0] *)
  Definition below (st st' : sstate) (p : path) : Prop :=
    usub R0 (st_reg st) (st_reg st') /\ mods_agree (st_modules st) (st_modules st') /\
    present R0 (st_reg st) /\ chas R0 (st_reg st) /\ chas R0 (st_reg st') /\ user R0 p /\
    (forall parent m, path_parent p = Some parent -> alookup parent (st_modules st) = Some m -> clean_module m = true).

  (** the first phase is the same in the two states, and its pending regions name input items by value *)
  Lemma type_pre_below st st' p td parent module :
    below st st' p -> forallb clean_stmt (gt_stmts td) = true ->
    path_parent p = Some parent -> alookup parent (st_modules st) = Some module ->
    exists module', alookup parent (st_modules st') = Some module' /\
      type_pre (st_reg st') (module_scope module') td = type_pre (st_reg st) (module_scope module) td /\
      forall doc ta pending vfs, type_pre (st_reg st) (module_scope module) td = Ok (doc, ta, (pending, vfs)) ->
        Forall (fun q => rbu R0 (snd q)) pending.
  Proof.
    intros (Hus & Hm & HP & HC & HC' & Hup & Hcm) Hcd Hpar Hmod.
    specialize (Hm parent) as Hmp. rewrite Hmod in Hmp.
    destruct (alookup parent (st_modules st')) as [module'|] eqn:Emod'; [|contradiction].
    destruct Hmp as (Hmpath & Hmast & Hmimpls & Hmevs).
    assert (module_scope module' = module_scope module) as Hscope by (unfold module_scope; congruence).
    specialize (Hcm parent module Hpar Hmod). unfold clean_module in Hcm. apply andb_prop in Hcm as [Hcm _].
    apply andb_prop in Hcm as [Hcs Hci].
    exists module'. split; [reflexivity|]. rewrite Hscope. unfold type_pre.
    rewrite (process_statements_reach R0 (st_reg st') HC' _ Hcs _ _ Hcd).
    rewrite (process_statements_reach R0 (st_reg st) HC _ Hcs _ _ Hcd). split; [reflexivity|].
    intros doc ta pending vfs Epre. inv_bind Epre. inv_bind Epre. inv_bind Epre. destruct a1 as [n [pending1 vfs1]].
    inversion Epre; subst.
    eapply (process_statements_rbu R0 R0); [intros c _; reflexivity | exact Hu8 | exact Hcs | exact Hcd | constructor | exact Ha1].
  Qed.

  Theorem natural_size_mono st st' p v td sz :
    below st st' p -> forallb clean_stmt (gt_stmts td) = true ->
    natural_size_in st p v td sz -> natural_size_in st' p v td sz.
  Proof.
    intros Hb Hcd (parent & module & doc & ta & pending & vfs & st1 & regions & vt & Hpar & Hmod & Hpre & Hrr).
    destruct (type_pre_below st st' p td parent module Hb Hcd Hpar Hmod) as (module' & Hmod' & Hpre' & Hrbu).
    pose proof Hb as (Hus & Hm & HP & HC & HC' & Hup & Hcm).
    pose proof (resolve_regions_mono R0 Hcf Hu8 st st' p v None pending vfs _ Hus Hm HP Hup (Hrbu _ _ _ _ Hpre) Hrr
                  ltac:(discriminate)) as ((st1' & Hrr' & _) & _).
    exists parent, module', doc, ta, pending, vfs, st1', regions, vt. rewrite Hpre'. auto.
  Qed.

  Lemma reach_offset_mono st st' p v pending vfs pp qq off :
    below st st' p -> Forall (fun q => rbu R0 (snd q)) pending -> pending = pp ++ qq ->
    reach_offset st p v pending vfs pp off -> reach_offset st' p v pending vfs pp off.
  Proof.
    intros (Hus & Hm & HP & HC & HC' & Hup & Hcm) Hpend Hsplit (Ef & st1 & vt & vr & acc0 & accp & Hvb & Hacc0 & Hfold & Hoff).
    set (fb := find r_is_base (map snd pending)) in *.
    assert (forall b, fb = Some b -> rbu R0 b) as Hfb.
    { intros b Eb. subst fb. apply find_some in Eb as [Hin _]. apply in_map_iff in Hin as (q & <- & Hin).
      rewrite Forall_forall in Hpend. auto. }
    assert (first_base_unresolved (st_reg st') fb = false) as Ef'.
    { destruct fb as [b|] eqn:Eb; [|reflexivity].
      pose proof (Hfb b eq_refl) as Hb. unfold first_base_unresolved.
      destruct (r_type b) as [q| | | |] eqn:Et; try reflexivity.
      destruct (fbu_false_resolved R0 _ _ HP Ef Hb q Et) as (it & Hg & Hr).
      unfold rbu in Hb. rewrite Et in Hb. cbn in Hb.
      destruct Hus as [_ He]. rewrite (He _ _ Hb Hg Hr). now rewrite Hr. }
    pose proof (vftable_build_mono R0 Hcf st st' p v fb vfs _ Hus Hm HP Hup Ef Hfb Hvb) as (st1' & Hvb' & Hus1 & _).
    split; [exact Ef'|]. exists st1', vt, vr, acc0, accp. split; [exact Hvb'|]. split; [|split; [|exact Hoff]].
    - destruct vr as [r|]; [|exact Hacc0]. apply defer_opt_ok in Hacc0.
      destruct (vftable_build_region _ _ _ _ _ _ _ _ Hvb) as (ty & -> & _).
      assert (rbu R0 (vftable_region_of (TConstPtr ty))) as Hr by exact I.
      now rewrite (regions_push_mono R0 _ _ Hus1 _ _ _ Hr Hacc0).
    - apply (foldM_mono (push_pending (st_reg st1)) (push_pending (st_reg st1')) (fun q => rbu R0 (snd q))
               (fun a s o Pa => push_pending_mono R0 _ _ Hus1 Hu8 s a o Pa) pp acc0 _); [|exact Hfold | discriminate].
      subst pending. apply Forall_app in Hpend. tauto.
  Qed.

  Theorem field_offset_mono st st' p v td j off :
    below st st' p -> forallb clean_stmt (gt_stmts td) = true ->
    field_offset_in st p v td j off -> field_offset_in st' p v td j off.
  Proof.
    intros Hb Hcd (parent & module & doc & ta & pending & vfs & pp & x & qq & Hpar & Hmod & Hpre & Hsplit & Hlen & Hreach).
    destruct (type_pre_below st st' p td parent module Hb Hcd Hpar Hmod) as (module' & Hmod' & Hpre' & Hrbu).
    exists parent, module', doc, ta, pending, vfs, pp, x, qq. rewrite Hpre'.
    repeat (split; [assumption|]). eapply reach_offset_mono; eauto.
  Qed.

  Lemma usub_refl R : usub R0 R R.
  Proof. split; [reflexivity | auto]. Qed.
  Lemma usub_trans R1 R2 R3 : usub R0 R1 R2 -> usub R0 R2 R3 -> usub R0 R1 R3.
  Proof.
    intros [P1 H1] [P2 H2]. split; [congruence|]. intros p it Hu Hg Hr. eapply H2; eauto.
  Qed.
End Lift.

(** ** the conditions as functions (for closed inputs) *)
Definition field_offset_of (st : sstate) (p : path) (v : vis) (td : gtypedef) (j : nat) : option N :=
  match path_parent p with
  | None => None
  | Some parent =>
    match alookup parent (st_modules st) with
    | None => None
    | Some module =>
      match type_pre (st_reg st) (module_scope module) td with
      | Ok (_, _, (pending, vfs)) =>
        let fb := find r_is_base (map snd pending) in
        if first_base_unresolved (st_reg st) fb then None else
        match vftable_build st p v fb vfs with
        | Ok (st', _, vr) =>
          match (match vr with Some r => defer_opt (regions_push (st_reg st') ([], 0%N) r) | None => Ok ([], 0%N) end) with
          | Ok acc0 =>
            match foldM (push_pending (st_reg st')) (firstn j pending) acc0 with
            | Ok accp => Some (snd accp)
            | _ => None
            end
          | _ => None
          end
        | _ => None
        end
      | _ => None
      end
    end
  end.

Lemma field_offset_of_sound st p v td j off :
  field_offset_in st p v td j off -> field_offset_of st p v td j = Some off.
Proof.
  intros (parent & module & doc & ta & pending & vfs & pp & x & qq & Hpar & Hmod & Hpre & Hsplit & Hlen &
          Ef & st1 & vt & vr & acc0 & accp & Hvb & Hacc0 & Hfold & Hoff).
  unfold field_offset_of. rewrite Hpar, Hmod, Hpre, Ef, Hvb, Hacc0.
  assert (firstn j pending = pp) as ->.
  { subst pending j. rewrite firstn_app, Nat.sub_diag, firstn_all. cbn. now rewrite app_nil_r. }
  now rewrite Hfold, Hoff.
Qed.

Definition natural_size_of (st : sstate) (p : path) (v : vis) (td : gtypedef) : option N :=
  match path_parent p with
  | None => None
  | Some parent =>
    match alookup parent (st_modules st) with
    | None => None
    | Some module =>
      match type_pre (st_reg st) (module_scope module) td with
      | Ok (_, _, (pending, vfs)) =>
        match resolve_regions st p v None pending vfs with
        | Ok (_, _, _, sz) => Some sz
        | _ => None
        end
      | _ => None
      end
    end
  end.

Lemma natural_size_of_sound st p v td sz :
  natural_size_in st p v td sz -> natural_size_of st p v td = Some sz.
Proof.
  intros (parent & module & doc & ta & pending & vfs & st1 & regions & vt & Hpar & Hmod & Hpre & Hrr).
  unfold natural_size_of. now rewrite Hpar, Hmod, Hpre, Hrr.
Qed.
