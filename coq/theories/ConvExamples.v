(** * ConvExamples: the reference conversions of a diamond, read from the real emitted file.

<<
    // module d
    type Root  { x: u32 }
    type Left  { pad: u32, #[base] root: Root }
    type Right { #[base] root: Root, y: u32 }
    type Solo  { s: u32 }
    type D     { a: u32, #[base] left: Left, #[base] right: Right, #[base] solo: Solo }
>>
    The hierarchy of [D]: left: Left, left.root: Root, right: Right, right.root: Root, solo: Solo.
    [Root] occurs twice: two [_CONFLICTING_] consts and NO [AsRef<Root>]/[AsMut<Root>] for [D];
    [Left], [Right], [Solo] occur once: one pair each, borrowing [self.left], [self.right], [self.solo];
    the reflexive pair closes the list.  Offsets (pointer width 4, every field a [u32]):
    left 4, left.root 8, right 12, right.root 12, solo 20. *)
From Coq Require Import List String NArith ZArith Bool Permutation.
From PyxisModel Require Import Base Sexp Grammar SemTypes Registry Sem Emit Driver Examples RustLayout
     RustExec PlacementLemmas WholeBuild OrderIndep EmitReaders EmitShape EmitFinal EmitLayout EmitShapeExamples
     EmitFnReaders HierSpec ConvReaders ConvShape ConvOffset ConvFinal.
Import ListNotations.
Local Open Scope string_scope.
Local Open Scope list_scope.

Definition dia_text : string := "(module (attrs) (uses) (extern_types) (extern_values) (defs (def pub ""Root"" (type (attrs) (field (attrs) pub ""x"" (tid ""u32"")))) (def pub ""Left"" (type (attrs) (field (attrs) pub ""pad"" (tid ""u32"")) (field (attrs (ident ""base"")) pub ""root"" (tid ""Root"")))) (def pub ""Right"" (type (attrs) (field (attrs (ident ""base"")) pub ""root"" (tid ""Root"")) (field (attrs) pub ""y"" (tid ""u32"")))) (def pub ""Solo"" (type (attrs) (field (attrs) pub ""s"" (tid ""u32"")))) (def pub ""D"" (type (attrs) (field (attrs) pub ""a"" (tid ""u32"")) (field (attrs (ident ""base"")) pub ""left"" (tid ""Left"")) (field (attrs (ident ""base"")) pub ""right"" (tid ""Right"")) (field (attrs (ident ""base"")) pub ""solo"" (tid ""Solo""))))) (impls) (backends))".
Definition dia_mods : list (path * gmodule) := [(["d"], module_of_text dia_text)].

Definition dia_state : option sstate :=
  match pyxis_resolve (hook_schedule []) 4 dia_mods with BOk st => Some st | _ => None end.
Definition dia_items : option (list sexp) :=
  bindo dia_state (fun st =>
    match write_all st with
    | Ok files => bindo (option_map snd (find (fun kf => String.eqb (fst kf) "d.rs") files)) file_items
    | _ => None
    end).
Definition dia_td (name : string) : option (registry * type_def) :=
  bindo dia_state (fun st => bindo (typedef_of (st_reg st) ["d"; name]) (fun td => Some (st_reg st, td))).

Definition crate_d (n : string) : list sexp := tks ["crate"; ":"; ":"; "d"; ":"; ":"; n].
Definition rd (n : string) : stype := TRaw ["d"; n].

(** the build is accepted and the file written *)
Example dia_accepted : match dia_items with Some _ => true | None => false end = true.
Proof. vm_compute. reflexivity. Qed.

(** ** the hierarchy of [D] in the final registry: the emitter's walk = the list of the spec *)
Definition dia_hier : hierarchy :=
  [(["left"], rd "Left"); (["left"; "root"], rd "Root"); (["right"], rd "Right"); (["right"; "root"], rd "Root");
   (["solo"], rd "Solo")].

Example dia_dfs :
  option_map (fun x => dfs_hierarchy (S (List.length (reg_types (fst x)))) (fst x) (snd x) []) (dia_td "D")
  = Some (Ok dia_hier).
Proof. vm_compute. reflexivity. Qed.

Example dia_occurrences :
  map (fun x => occurrences (snd x) dia_hier) dia_hier = [1; 2; 1; 2; 1]%nat.
Proof. vm_compute. reflexivity. Qed.

(** what the spec says [D] gets *)
Example dia_spec_impls :
  map (fun ci => (ci_mut ci, ci_target ci, ci_path ci)) (base_impls "D" dia_hier ++ refl_impls "D") =
  [(false, crate_d "Left", ["left"]); (true, crate_d "Left", ["left"]);
   (false, crate_d "Right", ["right"]); (true, crate_d "Right", ["right"]);
   (false, crate_d "Solo", ["solo"]); (true, crate_d "Solo", ["solo"]);
   (false, [Atom "D"], []); (true, [Atom "D"], [])].
Proof. vm_compute. reflexivity. Qed.

(** ** what is read from the emitted file *)
Definition impls_for (name : string) (items : list sexp) : list conv_impl :=
  filter (fun ci => String.eqb (ci_self ci) name) (all_somes read_as_ref items).

Example dia_D_impls :
  option_map (fun items => map (fun ci => (ci_mut ci, ci_target ci, ci_ret ci, ci_path ci)) (impls_for "D" items)) dia_items =
  Some [(false, crate_d "Left", crate_d "Left", ["left"]); (true, crate_d "Left", crate_d "Left", ["left"]);
        (false, crate_d "Right", crate_d "Right", ["right"]); (true, crate_d "Right", crate_d "Right", ["right"]);
        (false, crate_d "Solo", crate_d "Solo", ["solo"]); (true, crate_d "Solo", crate_d "Solo", ["solo"]);
        (false, [Atom "D"], [Atom "D"], []); (true, [Atom "D"], [Atom "D"], [])].
Proof. vm_compute. reflexivity. Qed.

(** the file agrees with the spec, impl by impl *)
Example dia_D_impls_spec :
  option_map (impls_for "D") dia_items = Some (base_impls "D" dia_hier ++ refl_impls "D").
Proof. vm_compute. reflexivity. Qed.

(** no conversion of [D] to the repeated [Root] *)
Example dia_D_no_root :
  option_map (fun items => existsb (fun ci => match ci_target ci with
                                               | [_; _; _; _; _; _; Atom n] => String.eqb n "Root"
                                               | _ => false
                                               end) (impls_for "D" items)) dia_items = Some false.
Proof. vm_compute. reflexivity. Qed.

(** the conflict consts (of the whole file: only [D] has a repeated base type) *)
Example dia_conflicts :
  option_map (fun items => map fst (all_somes read_conflict_const items)) dia_items =
  Some ["_CONFLICTING_D_LEFT_ROOT"; "_CONFLICTING_D_RIGHT_ROOT"].
Proof. vm_compute. reflexivity. Qed.

Example dia_conflicts_spec :
  option_map (all_somes read_conflict_const) dia_items = Some (spec_conflicts "D" dia_hier).
Proof. vm_compute. reflexivity. Qed.

(** the doc comment of a conflict const names both paths *)
Example dia_conflict_doc :
  option_map (fun items => map snd (firstn 1 (all_somes read_conflict_const items))) dia_items =
  Some [["`AsRef` and `AsMut` implementations were not generated for `D` to `crate :: d :: Root`,";
         "as there are multiple implementations of the same type in the hierarchy:";
         "  - `left.root`"; "  - `right.root`"]].
Proof. vm_compute. reflexivity. Qed.

(** [Left] and [Right] each convert to their own (unique) [Root] *)
Example dia_Left_Right_impls :
  option_map (fun items => map (fun ci => (ci_self ci, ci_mut ci, ci_target ci, ci_path ci))
                               (impls_for "Left" items ++ impls_for "Right" items)) dia_items =
  Some [("Left", false, crate_d "Root", ["root"]); ("Left", true, crate_d "Root", ["root"]);
        ("Left", false, [Atom "Left"], []); ("Left", true, [Atom "Left"], []);
        ("Right", false, crate_d "Root", ["root"]); ("Right", true, crate_d "Root", ["root"]);
        ("Right", false, [Atom "Right"], []); ("Right", true, [Atom "Right"], [])].
Proof. vm_compute. reflexivity. Qed.

(** every item of the file is a struct, a size check, an inherent impl, or a conversion item:
    5 structs, 5 size checks, 5 inherent impls, 2*3 + 2*1 + 2*1 + 5*2 impls, 2 consts, 2 opaque *)
Example dia_item_counts :
  option_map (fun items => (List.length items, List.length (all_somes read_as_ref items),
                            List.length (all_somes read_conflict_const items))) dia_items
  = Some (39, 20, 2)%nat.
Proof. vm_compute. reflexivity. Qed.

(** ** offsets: the place every conversion of [D] borrows *)
Example dia_hier_ok :
  option_map (fun x => hier_okb 5 (fst x) (td_regions (snd x))) (dia_td "D") = Some true.
Proof. vm_compute. reflexivity. Qed.

Example dia_place_offsets :
  option_map (fun x => map (fun e => place_offset (fst x) (snd x) (fst e)) dia_hier) (dia_td "D") =
  Some [Some (4, Some (rd "Left")); Some (8, Some (rd "Root")); Some (12, Some (rd "Right"));
        Some (12, Some (rd "Root")); Some (20, Some (rd "Solo"))]%N.
Proof. vm_compute. reflexivity. Qed.

(** the prefix-sum offsets of the regions of [D], [Left], [Right]: 8 = 4 + 4, 12 = 12 + 0 *)
Example dia_region_offsets :
  option_map (fun x => map (fun o => (fst o, r_name (snd o))) (offsets_of (fst x) 0 (td_regions (snd x)))) (dia_td "D")
    = Some [(0, Some "a"); (4, Some "left"); (12, Some "right"); (20, Some "solo")]%N /\
  option_map (fun x => map (fun o => (fst o, r_name (snd o))) (offsets_of (fst x) 0 (td_regions (snd x)))) (dia_td "Left")
    = Some [(0, Some "pad"); (4, Some "root")]%N /\
  option_map (fun x => map (fun o => (fst o, r_name (snd o))) (offsets_of (fst x) 0 (td_regions (snd x)))) (dia_td "Right")
    = Some [(0, Some "root"); (4, Some "y")]%N.
Proof. vm_compute. repeat split; reflexivity. Qed.

(** the address [&self.left.root] of a [D] at 1000 *)
Example dia_place_addr :
  option_map (fun x => place_addr (fst x) (snd x) 1000 ["left"; "root"]) (dia_td "D") = Some (Some 1008%N).
Proof. vm_compute. reflexivity. Qed.

(** ** the hypotheses of [emitted_conversions_whole_build] hold for [d::D] *)
Definition dia_hyps_check : bool :=
  match input_state 4 dia_mods, pyxis_resolve (hook_schedule []) 4 dia_mods with
  | Ok st0, BOk st =>
    collision_freeb (st_reg st0) && is_ok (write_all st) &&
    match reg_get (st_reg st0) ["d"; "D"] with
    | Some it0 => match it_state it0 with
                  | Unresolved gd => match gi_inner gd with GIType _ => true | GIEnum _ => false end
                  | Resolved _ => false
                  end
    | None => false
    end
  | _, _ => false
  end.

Example dia_hypotheses :
  dia_hyps_check = true /\ NoDup (map fst dia_mods) /\ keeps_work (hook_schedule []) /\
  path_parent ["d"; "D"] <> Some [].
Proof.
  split; [vm_compute; reflexivity|]. split; [repeat constructor; intros []|].
  split; [apply perm_keeps_work; intros l; apply hook_schedule_perm | discriminate].
Qed.
