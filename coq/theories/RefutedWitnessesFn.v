(** * RefutedWitnessesFn: open findings about emitted functions (F10, F21, F24, F19), as
    machine-checked facts about the MODEL.

    Every input is accepted by the model and meets the side conditions of the whole-build theorems
    ([side_ok]); the emitted inherent impl blocks are read back with the readers of EmitFnReaders.v
    ([read_fn]: name, visibility, parameters, body tokens; [read_body]: which wrapper template).
    Pointer width 4, schedule [hook_schedule []] throughout.

    Positive counterparts (what IS proved): EmitFnFinal.v / C05, C06, C07 -- every emitted function
    has the declared signature and one of the three body templates, forwarded functions name the
    base field they come from ([EBField]); those theorems say nothing about whether rustc accepts
    the template in a function WITHOUT receiver (F10, F21), whether the names of one impl block are
    distinct (F24: the one-step renaming [<field>_<name>] is modelled as is), or whether the field
    a wrapper reads is visible from the module it is emitted in (F19). *)
From Coq Require Import List String NArith ZArith Bool.
From PyxisModel Require Import Base Sexp Grammar SemTypes Registry Sem Emit WholeBuild OrderIndep
     EmitReaders EmitFnReaders FilesRead EmitPaths RefutedInputs.
Import ListNotations.
Local Open Scope string_scope.
Local Open Scope list_scope.

(** what is read back from one emitted function: name, visibility, parameters, the wrapper
    template, and whether the body tokens mention [self] (at any depth) *)
Definition fn_view (f : sexp) : option string * option vis * option (list eparam) * option ebody * option bool :=
  (fn_name f, fn_vis f, fn_params f, fn_wrapper_body f, option_map (tokens_mention "self") (fn_body f)).

(** ** F24: one-step clash renaming
    [Mid { #[base] a: A, #[base] b: B }] exposes [f] (from [a]) and [b_f] (from [b], renamed);
    [D { #[base] x: Mid, #[base] b: B }] inherits [f] and [b_f] from [x], and [B::f] through [b]:
    [f] is taken, it is renamed [b_f] -- which is taken as well (rustc E0592). *)
Definition f24_st0 : sstate := st0_of 4 f24_mods.
Definition f24_st : sstate := st_of [] 4 f24_mods.
Definition f24_files : files_t := files_of f24_st.
Lemma f24_accepted : accepted_check [] 4 f24_mods = true.
Proof. vm_compute. reflexivity. Qed.
Lemma f24_built : built [] 4 f24_mods f24_st0 f24_st f24_files.
Proof. exact (built_of _ _ _ f24_accepted). Qed.
Definition f24_D_fns : list (option string * option vis * option (list eparam) * option ebody * option bool) :=
  [(Some "f", Some Public, Some [EPSelf], Some (EBField "x" "f" []), Some true);
   (Some "b_f", Some Public, Some [EPSelf], Some (EBField "x" "b_f" []), Some true);
   (Some "b_f", Some Public, Some [EPSelf], Some (EBField "b" "f" []), Some true)].
Lemma f24_facts :
  side_ok f24_st0 = true /\
  option_map (fun td => map (fun f => (sf_name f, sf_body f)) (td_assoc td)) (typedef_at f24_st ["a"; "D"]) =
    Some [("f", BField "x" "f"); ("b_f", BField "x" "b_f"); ("b_f", BField "b" "f")] /\
  option_map (map fn_view) (impl_fns f24_files "a.rs" "D") = Some f24_D_fns.
Proof. vm_compute. repeat split; reflexivity. Qed.

Theorem C07_C13_inherited_rename_collides_refuted_F24 :
  exists st0 st files fns,
    built [] 4 f24_mods st0 st files /\ side_ok st0 = true /\
    (* the resolved type D has two associated functions called b_f *)
    option_map (fun td => map (fun f => (sf_name f, sf_body f)) (td_assoc td)) (typedef_at st ["a"; "D"]) =
      Some [("f", BField "x" "f"); ("b_f", BField "x" "b_f"); ("b_f", BField "b" "f")] /\
    (* and so has the one inherent impl block emitted for D *)
    option_map (map fn_view) (impl_fns files "a.rs" "D") = Some fns /\
    map (fun v => (fst (fst (fst (fst v))), snd (fst v))) fns =
      [(Some "f", Some (EBField "x" "f" [])); (Some "b_f", Some (EBField "x" "b_f" []));
       (Some "b_f", Some (EBField "b" "f" []))] /\
    ~ NoDup (map (fun v => fst (fst (fst (fst v)))) fns).
Proof.
  exists f24_st0, f24_st, f24_files, f24_D_fns. destruct f24_facts as (A & B & C).
  split; [exact f24_built|]. split; [exact A|]. split; [exact B|]. split; [exact C|].
  split; [reflexivity|]. exact (not_nodup_pair (Some "b_f") [Some "f"] []).
Qed.
Print Assumptions C07_C13_inherited_rename_collides_refuted_F24.

(** ** F10: a receiver-less base function is forwarded through [self]
    [impl B { #[address(0x10)] pub fn create(x: u32) -> u32; }  type D { #[base] pub b: B }]: the
    function emitted for [D] has the parameters [(x: u32)] -- no receiver -- and the body
    [self.b.create(x)] (rustc E0424). *)
Definition f10_st0 : sstate := st0_of 4 f10_mods.
Definition f10_st : sstate := st_of [] 4 f10_mods.
Definition f10_files : files_t := files_of f10_st.
Lemma f10_accepted : accepted_check [] 4 f10_mods = true.
Proof. vm_compute. reflexivity. Qed.
Lemma f10_built : built [] 4 f10_mods f10_st0 f10_st f10_files.
Proof. exact (built_of _ _ _ f10_accepted). Qed.
Definition f10_body : list sexp := tks ["self"; "."; "b"; "."; "create"] ++ [SList [Atom "paren"; Atom "x"]].
Lemma f10_facts :
  side_ok f10_st0 = true /\
  option_map (map fn_view) (impl_fns f10_files "a.rs" "D") =
    Some [(Some "create", Some Public, Some [EPNamed "x" [Atom "u32"]], Some (EBField "b" "create" [CAName "x"]), Some true)] /\
  option_map (map fn_body) (impl_fns f10_files "a.rs" "D") = Some [Some f10_body].
Proof. vm_compute. repeat split; reflexivity. Qed.

Theorem C07_C13_receiverless_forward_refuted_F10 :
  exists st0 st files f params body,
    built [] 4 f10_mods st0 st files /\ side_ok st0 = true /\
    impl_fns files "a.rs" "D" = Some [f] /\
    fn_name f = Some "create" /\ fn_params f = Some params /\ fn_body f = Some body /\
    has_receiver params = false /\
    fn_wrapper_body f = Some (EBField "b" "create" [CAName "x"]) /\
    In (Atom "self") body /\ tokens_mention "self" body = true.
Proof.
  destruct f10_facts as (A & B & C).
  (* the single function, as a variable: nothing below computes on the closed file *)
  destruct (impl_fns f10_files "a.rs" "D") as [[|f [|g r]]|] eqn:E; try discriminate B.
  exists f10_st0, f10_st, f10_files, f, [EPNamed "x" [Atom "u32"]], f10_body.
  cbn [option_map map] in B, C. unfold fn_view in B.
  injection B as B1 B2 B3 B4 B5. injection C as C1.
  split; [exact f10_built|]. split; [exact A|]. split; [exact E|]. split; [exact B1|]. split; [exact B3|].
  split; [exact C1|]. split; [reflexivity|]. split; [exact B4|]. split; [now left | reflexivity].
Qed.
Print Assumptions C07_C13_receiverless_forward_refuted_F10.

(** ** F21: a virtual function declared without receiver
    [type T { vftable { pub fn f(a: u32) -> u32; }, pub x: u32 }]: the wrapper emitted in [impl T]
    has the parameters [(a: u32)] -- no receiver -- and the vftable template, which loads the slot
    through [self.vftable()] (rustc E0424). *)
Definition f21_st0 : sstate := st0_of 4 f21_mods.
Definition f21_st : sstate := st_of [] 4 f21_mods.
Definition f21_files : files_t := files_of f21_st.
Lemma f21_accepted : accepted_check [] 4 f21_mods = true.
Proof. vm_compute. reflexivity. Qed.
Lemma f21_built : built [] 4 f21_mods f21_st0 f21_st f21_files.
Proof. exact (built_of _ _ _ f21_accepted). Qed.
Lemma f21_facts :
  side_ok f21_st0 = true /\
  option_map (map fn_view) (impl_fns f21_files "a.rs" "T") =
    Some [(Some "vftable", Some Public, Some [EPSelf], None, Some true);
          (Some "f", Some Public, Some [EPNamed "a" [Atom "u32"]], Some (EBVftable "f" [CAName "a"]), Some true)].
Proof. vm_compute. split; reflexivity. Qed.

Theorem C13_receiverless_virtual_refuted_F21 :
  exists st0 st files acc f params body,
    built [] 4 f21_mods st0 st files /\ side_ok st0 = true /\
    impl_fns files "a.rs" "T" = Some [acc; f] /\
    fn_name f = Some "f" /\ fn_params f = Some params /\ fn_body f = Some body /\
    has_receiver params = false /\
    fn_wrapper_body f = Some (EBVftable "f" [CAName "a"]) /\
    tokens_mention "self" body = true.
Proof.
  destruct f21_facts as (A & B).
  destruct (impl_fns f21_files "a.rs" "T") as [[|acc [|f [|g r]]]|] eqn:E; try discriminate B.
  cbn [option_map map] in B. unfold fn_view in B. injection B as _ _ _ _ _ B1 B2 B3 B4 B5.
  destruct (fn_body f) as [body|] eqn:Eb; [|discriminate B5]. cbn [option_map] in B5. injection B5 as B5.
  exists f21_st0, f21_st, f21_files, acc, f, [EPNamed "a" [Atom "u32"]], body.
  split; [exact f21_built|]. split; [exact A|]. split; [exact E|]. split; [exact B1|]. split; [exact B3|].
  split; [exact Eb|]. split; [reflexivity|]. split; [exact B4 | exact B5].
Qed.
Print Assumptions C13_receiverless_virtual_refuted_F21.

(** ** F19: a private virtual function re-exposed in another module
    [m::base]: [pub type Base { vftable { fn hidden(&self); pub fn shown(&self); } }];
    [m::derived]: [pub type Derived { #[base] pub base: Base }].  The file of [m::derived] has a
    wrapper [hidden] in [impl Derived] that loads the slot [hidden] from the table returned by
    [Derived::vftable()], of type [*const crate::m::base::BaseVftable]; in the file of [m::base]
    the struct [BaseVftable] declares the field [hidden] WITHOUT [pub] (rustc E0616: field
    [hidden] of struct [BaseVftable] is private). *)
Definition f19_st0 : sstate := st0_of 4 f19_mods.
Definition f19_st : sstate := st_of [] 4 f19_mods.
Definition f19_files : files_t := files_of f19_st.
Lemma f19_accepted : accepted_check [] 4 f19_mods = true.
Proof. vm_compute. reflexivity. Qed.
Lemma f19_built : built [] 4 f19_mods f19_st0 f19_st f19_files.
Proof. exact (built_of _ _ _ f19_accepted). Qed.
Lemma f19_facts :
  side_ok f19_st0 = true /\
  map fst f19_files = ["m/base.rs"; "m/derived.rs"] /\
  option_map file_decls (file_named f19_files "m/derived.rs") = Some [("struct", "Derived")] /\
  option_map (map fn_view) (impl_fns f19_files "m/derived.rs" "Derived") =
    Some [(Some "vftable", Some Public, Some [EPSelf], None, Some true);
          (Some "hidden", Some Private, Some [EPSelf], Some (EBVftable "hidden" [CASelfConst]), Some true);
          (Some "shown", Some Public, Some [EPSelf], Some (EBVftable "shown" [CASelfConst]), Some true)] /\
  option_map (map (fun f => (fn_name f, option_map type_paths (fn_ret f)))) (impl_fns f19_files "m/derived.rs" "Derived") =
    Some [(Some "vftable", Some [["m"; "base"; "BaseVftable"]]); (Some "hidden", Some []); (Some "shown", Some [])] /\
  thenr (struct_of f19_files "m/base.rs" "BaseVftable") struct_vis = Some Public /\
  option_map (map (fun ef => (ef_vis ef, ef_name ef))) (thenr (struct_of f19_files "m/base.rs" "BaseVftable") struct_fields) =
    Some [(Private, "hidden"); (Public, "shown")].
Proof. vm_compute. repeat split; reflexivity. Qed.

Theorem C13_private_slot_read_across_modules_refuted_F19 :
  exists st0 st files,
    built [] 4 f19_mods st0 st files /\ side_ok st0 = true /\
    (* two modules, two files; the vftable struct is defined in m/base.rs only *)
    map fst files = ["m/base.rs"; "m/derived.rs"] /\
    option_map file_decls (file_named files "m/derived.rs") = Some [("struct", "Derived")] /\
    (* impl Derived, in m/derived.rs: the accessor returns *const crate::m::base::BaseVftable and the
       wrapper [hidden] reads the field [hidden] of what the accessor points to *)
    option_map (map fn_view) (impl_fns files "m/derived.rs" "Derived") =
      Some [(Some "vftable", Some Public, Some [EPSelf], None, Some true);
            (Some "hidden", Some Private, Some [EPSelf], Some (EBVftable "hidden" [CASelfConst]), Some true);
            (Some "shown", Some Public, Some [EPSelf], Some (EBVftable "shown" [CASelfConst]), Some true)] /\
    option_map (map (fun f => (fn_name f, option_map type_paths (fn_ret f)))) (impl_fns files "m/derived.rs" "Derived") =
      Some [(Some "vftable", Some [["m"; "base"; "BaseVftable"]]); (Some "hidden", Some []); (Some "shown", Some [])] /\
    (* in m/base.rs that field is private *)
    thenr (struct_of files "m/base.rs" "BaseVftable") struct_vis = Some Public /\
    option_map (map (fun ef => (ef_vis ef, ef_name ef))) (thenr (struct_of files "m/base.rs" "BaseVftable") struct_fields) =
      Some [(Private, "hidden"); (Public, "shown")].
Proof.
  exists f19_st0, f19_st, f19_files. destruct f19_facts as (A & B & C & D & E & F & G).
  split; [exact f19_built|]. split; [exact A|]. split; [exact B|]. split; [exact C|]. split; [exact D|].
  split; [exact E|]. split; [exact F | exact G].
Qed.
Print Assumptions C13_private_slot_read_across_modules_refuted_F19.
