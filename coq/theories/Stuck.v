(** * Items that can never be resolved (C10, "only if"): an undefined field type or a by-value
    cycle keeps the model's build from being accepted, under every schedule.

    Instantiates [stuck_stays] of Confluence.v: N1 for the model's real attempt ([att_N1]: a
    successful attempt means every field type resolved and every by-value dependency was already
    resolved). *)
From Coq Require Import List NArith ZArith Bool Lia String Permutation.
From PyxisModel Require Import Base Grammar SemTypes Registry Sem SemLemmas PlacementLemmas ScopeLemmas
     TotalityLemmas EmitLemmas WholeBuild Monotone OrderIndep Locality Examples.
From PyxisModel Require Confluence.
Import ListNotations.
Local Open Scope string_scope.
Local Open Scope list_scope.

(** by-value positions of a resolved type *)
Fixpoint byval_paths (t : stype) : list path :=
  match t with
  | TRaw p => [p]
  | TArray t' _ => byval_paths t'
  | _ => []
  end.

Lemma sized_byval_resolved R : forall t, size_of R t <> None ->
  forall d, In d (byval_paths t) -> exists it, reg_get R d = Some it /\ item_is_resolved it = true.
Proof.
  induction t as [p|t IH|t IH|t IH n|c args ret]; cbn [byval_paths size_of]; intros Hs d Hd; try destruct Hd.
  - subst d. destruct (reg_get R p) as [it|]; [|congruence]. exists it. split; [reflexivity|].
    unfold item_size, item_resolved, item_is_resolved in *. destruct (it_state it); [cbn in Hs; congruence | reflexivity].
  - destruct H.
  - apply IH; [|exact Hd]. destruct (size_of R t); congruence.
Qed.

(** the declared field types of an item, resolved in registry [R] *)
Definition stmt_types (R : registry) (scope : list path) (stmts : list gstatement) : list (option stype) :=
  flat_map (fun s => match gs_field s with
                     | GField _ _ t => [resolve_gtype R scope t]
                     | GVftable _ => []
                     end) stmts.

Definition def_types (R : registry) (scope : list path) (gd : gitemdef) : list (option stype) :=
  match gi_inner gd with
  | GIType td => stmt_types R scope (gt_stmts td)
  | GIEnum ed => [resolve_gtype R scope (ged_type ed)]
  end.

Lemma process_statements_types R scope : forall stmts idx pending vfs n pending' vfs',
  foldM (process_statement R scope) stmts (idx, (pending, vfs)) = Ok (n, (pending', vfs')) ->
  exists new, pending' = pending ++ new /\
              stmt_types R scope stmts = map (fun p => Some (r_type (snd p))) new.
Proof.
  induction stmts as [|s stmts IH]; intros idx pending vfs n pending' vfs' H; cbn [foldM] in H.
  - inversion H; subst. exists []. now rewrite app_nil_r.
  - inv_bind H. destruct a as [idx1 [pending1 vfs1]].
    destruct (IH _ _ _ _ _ _ H) as (new & -> & Hn).
    unfold process_statement in Ha. cbn [stmt_types flat_map]. fold (stmt_types R scope stmts).
    destruct (gs_field s) as [v name t|gfs].
    + inv_bind Ha. inv_bind Ha. destruct (resolve_gtype R scope t) as [t'|]; [|discriminate].
      inversion Ha; subst. eexists. split; [rewrite <- app_assoc; reflexivity|]. cbn [app map snd r_type]. now rewrite Hn.
    + destruct (negb _); [discriminate|]. inv_bind Ha. inv_bind Ha. inversion Ha; subst. exists new. auto.
Qed.

Section Stuck.
  Variable st0 : sstate.
  Let R0 := st_reg st0.
  Hypothesis Hcf : collision_free R0.
  Hypothesis Hu8 : user R0 ["u8"].
  Hypothesis Hclean_mods : forall km, In km (st_modules st0) -> clean_module (snd km) = true.
  Hypothesis Hclean_defs : forall p it gd, reg_get R0 p = Some it -> it_state it = Unresolved gd -> clean_def gd = true.
  Hypothesis HK0 : keyed R0.
  Hypothesis HND : NoDup (map fst (reg_types R0)).

  Definition item_scope (k : path) : option (list path) :=
    match path_parent k with
    | Some parent => option_map module_scope (alookup parent (st_modules st0))
    | None => None
    end.

  Definition item_types (k : path) : list (option stype) :=
    match reg_get R0 k, item_scope k with
    | Some it, Some scope => match it_state it with
                             | Unresolved gd => def_types R0 scope gd
                             | Resolved _ => []
                             end
    | _, _ => []
    end.

  (** an item is "undefined" when one of its field types (or its enum base type) names nothing *)
  Definition undefinedb (k : path) : bool :=
    existsb (fun o => match o with None => true | Some _ => false end) (item_types k).
  (** its by-value dependencies *)
  Definition deps (k : path) : list path :=
    flat_map (fun o => match o with Some t => byval_paths t | None => [] end) (item_types k).

  Lemma mark_resolved_means_marked A d it :
    In d (items st0) -> reg_get (mark R0 A) d = Some it -> item_is_resolved it = true -> A d <> None.
  Proof.
    intros Hd Hg Hr. destruct (items_spec st0 HND d Hd) as (it0 & gd & Hg0 & Hs0 & _).
    rewrite reg_get_mark in Hg. fold R0 in Hg0. rewrite Hg0 in Hg. cbn [option_map] in Hg. inversion Hg; subst it.
    unfold mark_item in Hr. cbn [fst snd] in Hr. rewrite Hs0 in Hr. destruct (A d); [discriminate|].
    cbn [snd] in Hr. unfold item_is_resolved in Hr. rewrite Hs0 in Hr. discriminate.
  Qed.

  Lemma all_some_not_undefined (l : list stype) :
    existsb (fun o : option stype => match o with None => true | Some _ => false end) (map Some l) = false.
  Proof. induction l; cbn; auto. Qed.

  Lemma scope_clean k parent m : path_parent k = Some parent -> alookup parent (st_modules st0) = Some m ->
    forallb clean_path (module_scope m) = true.
  Proof.
    intros _ Hm. destruct (alookup_in _ _ _ Hm) as (k' & Hin & _). pose proof (Hclean_mods _ Hin) as Hc.
    unfold clean_module in Hc. cbn [snd] in Hc. apply andb_prop in Hc as [Hc _]. now apply andb_prop in Hc as [Hc _].
  Qed.

  (** N1 for the model's real attempt *)
  Theorem att_N1 A k v : att st0 A k = Confluence.Done _ v ->
    undefinedb k = false /\ forall d, In d (deps k) -> In d (items st0) -> A d <> None.
  Proof.
    unfold att. fold R0. destruct (reg_get R0 k) as [it|] eqn:Eg; [|discriminate].
    destruct (it_state it) as [gd|r0] eqn:Es; [|discriminate]. intros H.
    assert (snd (attempt (conc st0 A) k gd) = Ok v) as Hat.
    { destruct (snd (attempt (conc st0 A) k gd)); cbn [classify] in H; try discriminate. now inversion H. }
    clear H. pose proof (Hclean_defs _ _ _ Eg Es) as Hcd. unfold clean_def in Hcd.
    unfold undefinedb, deps, item_types, item_scope. fold R0. rewrite Eg, Es.
    unfold attempt in Hat. unfold def_types. destruct (gi_inner gd) as [td|ed] eqn:Ety.
    - destruct (type_build (conc st0 A) k (gi_vis gd) td) as [st1 o] eqn:Etb. cbn [snd] in Hat. subst o.
      destruct (type_build_inv _ _ _ _ _ _ Etb) as
          (parent & module & doc & ta & n & pending & vfs & regions & vt & size & funcs & Al &
           Hpar & Hmod & Hta & Hstm & Hrr & Hca & Hr).
      cbn [conc st_modules st_reg] in Hmod, Hstm. rewrite Hpar, Hmod. cbn [option_map].
      pose proof (scope_clean _ _ _ Hpar Hmod) as Hcs.
      rewrite (process_statements_reach R0 _ (chas_mark st0 A) _ Hcs _ _ Hcd) in Hstm.
      destruct (process_statements_types _ _ _ _ _ _ _ _ _ Hstm) as (new & Hnew & Htypes).
      cbn [app] in Hnew. subst new. fold R0. rewrite Htypes.
      split; [rewrite <- (map_map (fun p : option N * region => r_type (snd p)) Some); apply all_some_not_undefined|].
      intros d Hd Hdi. apply in_flat_map in Hd as (o & Ho & Hd). apply in_map_iff in Ho as (p & <- & Hp).
      pose proof (resolve_regions_pending_sized _ _ _ _ _ _ _ _ _ _ Hrr) as Hsized.
      rewrite Forall_forall in Hsized. specialize (Hsized _ Hp).
      destruct (sized_byval_resolved _ _ Hsized d Hd) as (itd & Hgd & Hrd).
      assert (reg_get (st_reg st1) d = reg_get (mark R0 A) d) as Hsame.
      { destruct (resolve_regions_step _ _ _ _ _ _ _ _ _ _ Hrr) as [->|(fs & vit & _ & Hvi & Hadd)]; [reflexivity|].
        rewrite (add_item_reg _ _ _ Hadd). cbn [conc st_reg]. apply reg_get_add_other.
        destruct (vftable_item_facts _ _ _ _ _ Hvi) as (Hvp & _).
        destruct (items_spec st0 HND d Hdi) as (it0 & gd0 & Hg0 & _). fold R0 in Hg0.
        intros E. rewrite E in Hvp. pose proof (Hcf k d) as Hn. fold R0 in Hn. rewrite Hg0 in Hn.
        assert (Some it0 = None) as X; [|discriminate]. apply Hn; [congruence | exact Hvp]. }
      rewrite Hsame in Hgd. eapply mark_resolved_means_marked; eauto.
    - cbn [snd] in Hat. unfold enum_build in Hat. cbn [conc st_modules st_reg] in Hat. cbn zeta in Hat.
      destruct (path_parent k) as [parent|] eqn:Hpar; [|discriminate].
      destruct (alookup parent (st_modules st0)) as [module|] eqn:Hmod; [|discriminate]. cbn [option_map].
      pose proof (scope_clean _ _ _ Hpar Hmod) as Hcs.
      rewrite (resolve_gtype_reach R0 _ _ (chas_mark st0 A) Hcs _ Hcd) in Hat. fold R0.
      revert Hat. destruct (resolve_gtype R0 (module_scope module) (ged_type ed)) as [ty|]; [|discriminate]. intros Hat.
      cbn [existsb flat_map orb app]. split; [reflexivity|]. rewrite app_nil_r.
      fold R0 in Hat. revert Hat. destruct (size_of (mark R0 A) ty) as [size|] eqn:Esz; [|discriminate]. intros Hat.
      intros d Hd Hdi. assert (size_of (mark R0 A) ty <> None) as Hs by congruence.
      destruct (sized_byval_resolved _ _ Hs d Hd) as (itd & Hgd & Hrd).
      eapply mark_resolved_means_marked; eauto.
  Qed.

  (** ** a self-supporting set of items keeps every schedule from accepting the input *)
  Theorem stuck_set_never_accepted (S : path -> Prop) k0 order fuel :
    S k0 -> Confluence.self_supporting path (items st0) deps undefinedb S ->
    (forall l, Permutation (order l) l) ->
    forall st, resolve_loop order fuel st0 <> BOk st.
  Proof.
    intros Hk0 HS Hperm st Hres.
    pose proof (loop_sim st0 Hcf Hu8 Hclean_mods Hclean_defs HK0 HND order Hperm fuel st0 _ (sim_init st0 HK0)) as Hsim.
    rewrite Hres in Hsim.
    destruct (Confluence.loop path resolved path_eqb (att st0) (items st0) order true fuel (fun _ => None)) as [A|A| |] eqn:El;
      cbn [abs_result] in Hsim; try contradiction.
    destruct (strict_ok_steps path resolved path_eqb (att st0) (items st0) order fuel _ _ Hperm El) as [Hsteps Hun].
    assert (A k0 = None) as Hn.
    { eapply (Confluence.stuck_stays path resolved path_eqb path_eqb_spec (att st0) (items st0) deps undefinedb);
        [intros R k v Hd; eapply att_N1; eauto | exact Hsteps | exact HS | reflexivity | exact Hk0]. }
    destruct (HS _ Hk0) as [Hin _].
    assert (In k0 (Confluence.unres path resolved (items st0) A)) as X by (apply Confluence.unres_in; tauto).
    rewrite Hun in X. destruct X.
  Qed.
End Stuck.

(** ** for the inputs of pyxis *)
Theorem pyxis_stuck_never_accepted ptr mods st0 (S : path -> Prop) k0 order :
  input_state ptr mods = Ok st0 -> collision_free (st_reg st0) -> clean_stateb st0 = true ->
  S k0 -> Confluence.self_supporting path (items st0) (deps st0) (undefinedb st0) S ->
  (forall l, Permutation (order l) l) ->
  forall st, pyxis_resolve order ptr mods <> BOk st.
Proof.
  intros Hin Hcf Hcl Hk0 HS Hperm st Hres. destruct (clean_stateb_sound _ Hcl) as [Hm Hd].
  assert (pyxis_resolve order ptr mods = sem_build order st0) as E.
  { unfold pyxis_resolve. unfold input_state in Hin. now rewrite Hin. }
  rewrite E in Hres. unfold sem_build in Hres.
  destruct (resolve_loop order _ st0) as [st1| | | |] eqn:El; try discriminate.
  eapply (stuck_set_never_accepted st0 Hcf); eauto.
  - apply reg_u8_user. eapply input_state_u8; eauto.
  - eapply input_state_keyed; eauto.
  - eapply input_state_nodup; eauto.
Qed.

(** non-vacuity: two types that embed each other by value *)
Definition cycle_text : string := "(module (attrs) (uses) (extern_types) (extern_values) (defs (def pub ""A"" (type (attrs) (field (attrs) pub ""b"" (tid ""B"")))) (def pub ""B"" (type (attrs) (field (attrs) pub ""a"" (tid ""A""))))) (impls) (backends))".
Definition cycle_mods : list (path * gmodule) := [(["m"], Examples.module_of_text cycle_text)].

Example cycle_is_stuck :
  exists st0, input_state 4 cycle_mods = Ok st0 /\ collision_freeb (st_reg st0) = true /\ clean_stateb st0 = true /\
    items st0 = [["m"; "A"]; ["m"; "B"]] /\
    deps st0 ["m"; "A"] = [["m"; "B"]] /\ deps st0 ["m"; "B"] = [["m"; "A"]].
Proof. vm_compute. eexists. repeat split; reflexivity. Qed.

Example cycle_never_accepted order : (forall l, Permutation (order l) l) ->
  forall st, pyxis_resolve order 4 cycle_mods <> BOk st.
Proof.
  intros Hperm. destruct cycle_is_stuck as (st0 & Hin & Hcf & Hcl & Hitems & HdA & HdB).
  apply (pyxis_stuck_never_accepted 4 cycle_mods st0 (fun k => k = ["m"; "A"] \/ k = ["m"; "B"]) ["m"; "A"] order Hin
           (collision_freeb_sound _ Hcf) Hcl (or_introl eq_refl)); [|exact Hperm].
  intros k [->| ->]; (split; [rewrite Hitems; cbn; auto|]); right.
  - exists ["m"; "B"]. rewrite HdA. split; [now left | now right].
  - exists ["m"; "A"]. rewrite HdB. split; [now left | now left].
Qed.
