(** * SyntaxItems: token-level printer and recursive-descent parser for the whole .pyxis module
    grammar (mirror of src/parser/mod.rs: [impl Parse for Argument / Function / TypeField /
    TypeStatement / EnumStatement / ItemPath / Module], [parse_type_definition],
    [parse_enum_definition], [parse_item_definition], [parse_backend]).
    Builds on Syntax.v (types, expressions, attribute lists).  Tokens are those of Syntax.v:
    punctuation arrives one character per token, with two exceptions made by the token dump of
    the harness: a [:] with joint spacing followed by [:] is the ONE token [KPunct "::"], and a [-]
    with joint spacing followed by [>] is the ONE token [KPunct "->"] (what syn's [Token![::]] and
    [Token![->]] require).  A pair that is not joint stays two tokens and is not a [::] / [->]. *)
From Coq Require Import List NArith ZArith Bool String Ascii Lia.
From PyxisModel Require Import Base Grammar Syntax.
Import ListNotations.
Local Open Scope string_scope.
Local Open Scope list_scope.

(** ** small token primitives ([input.peek(..)], [input.parse::<Token![..]>()]) *)
Definition peek_kw (s : string) (ts : list tok) : bool :=
  match ts with KId p :: _ => String.eqb p s | _ => false end.
Definition peek_punct (s : string) (ts : list tok) : bool :=
  match ts with KPunct p :: _ => String.eqb p s | _ => false end.
Definition eat_kw (s : string) (ts : list tok) : option (list tok) :=
  match ts with KId p :: r => if String.eqb p s then Some r else None | _ => None end.
Definition eat_punct (s : string) (ts : list tok) : option (list tok) :=
  match ts with KPunct p :: r => if String.eqb p s then Some r else None | _ => None end.
Definition is_punct (s : string) (t : tok) : bool :=
  match t with KPunct p => String.eqb p s | _ => false end.

(** [impl Parse for Ident]: [_] or a [syn::Ident] *)
Definition parse_ident (ts : list tok) : option (string * list tok) :=
  match ts with KId s :: r => if pyxis_ident s then Some (s, r) else None | _ => None end.

(** [impl Parse for Visibility]: an optional [pub]; never fails *)
Definition parse_vis (ts : list tok) : vis * list tok :=
  match ts with
  | KId p :: r => if String.eqb p "pub" then (Public, r) else (Private, ts)
  | _ => (Private, ts)
  end.
Definition print_vis (v : vis) : list tok := match v with Public => [KId "pub"] | Private => [] end.

(** [MAX_TYPE_NESTING]: the real parser refuses types nested more than 64 deep; [parse_type]'s fuel
    is exactly that counter *)
Definition type_fuel : nat := 64.
Definition parse_ty (ts : list tok) : option (gtype * list tok) := parse_type type_fuel ts.

(** [Attribute::parse_many(input, false)] with enough fuel for every [#[..]] in [ts] *)
Definition attrs_of (ts : list tok) : option (list gattr * list tok) :=
  parse_attrs (S (List.length ts)) ts.

(** [Punctuated::parse_terminated(p, sep)] on the contents of a group: elements separated by
    [sep], an optional trailing [sep], until the group is exhausted *)
Fixpoint parse_terminated {A : Type} (p : list tok -> option (A * list tok)) (sep : string)
    (fuel : nat) (ts : list tok) : option (list A) :=
  match fuel with
  | O => None
  | S f =>
    match ts with
    | [] => Some []
    | _ =>
      match p ts with
      | Some (a, []) => Some [a]
      | Some (a, c :: r) =>
        if is_punct sep c then option_map (cons a) (parse_terminated p sep f r) else None
      | None => None
      end
    end
  end.
Definition parse_group {A : Type} (p : list tok -> option (A * list tok)) (sep : string)
    (inner : list tok) : option (list A) :=
  parse_terminated p sep (S (List.length inner)) inner.

(** every element followed by the separator (the style of the README: [fn f();], [a: u32,]) *)
Fixpoint term_by (sep : tok) (l : list (list tok)) : list tok :=
  match l with
  | [] => []
  | x :: r => x ++ sep :: term_by sep r
  end.

(** ** [str::trim] on the UTF-8 bytes of a string (Unicode White_Space) *)
Definition ws1 (a : N) : bool := ((9 <=? a) && (a <=? 13) || (a =? 32))%N.
Definition ws2 (a b : N) : bool := ((a =? 194) && ((b =? 133) || (b =? 160)))%N.
Definition ws3 (a b c : N) : bool :=
  ((a =? 225) && (b =? 154) && (c =? 128)
   || (a =? 226) && (b =? 128) && ((128 <=? c) && (c <=? 138) || (c =? 168) || (c =? 169) || (c =? 175))
   || (a =? 226) && (b =? 129) && (c =? 159)
   || (a =? 227) && (b =? 128) && (c =? 128))%N.
Fixpoint trim_start_bytes (l : list N) : list N :=
  match l with
  | a :: r =>
    if ws1 a then trim_start_bytes r else
    match r with
    | b :: r2 =>
      if ws2 a b then trim_start_bytes r2 else
      match r2 with
      | c :: r3 => if ws3 a b c then trim_start_bytes r3 else l
      | [] => l
      end
    | [] => l
    end
  | [] => []
  end.
(** the same on the reversed byte list: the last byte comes first *)
Fixpoint trim_end_rev (l : list N) : list N :=
  match l with
  | c :: r =>
    if ws1 c then trim_end_rev r else
    match r with
    | b :: r2 =>
      if ws2 b c then trim_end_rev r2 else
      match r2 with
      | a :: r3 => if ws3 a b c then trim_end_rev r3 else l
      | [] => l
      end
    | [] => l
    end
  | [] => []
  end.
Definition str_trim (s : string) : string :=
  string_of_list (map ascii_of_N
    (rev (trim_end_rev (rev (trim_start_bytes (map N_of_ascii (list_of_string s))))))).

(** ** printers *)
Definition print_arg (a : garg) : list tok :=
  match a with
  | GConstSelf => [KPunct "&"; KId "self"]
  | GMutSelf => [KPunct "&"; KId "mut"; KId "self"]
  | GNamed n t => KId n :: KPunct ":" :: print_type t
  end.

Definition print_ret (r : option gtype) : list tok :=
  match r with Some t => KPunct "->" :: print_type t | None => [] end.

Definition print_function (f : gfunction) : list tok :=
  print_attrs (gf_attrs f) ++ print_vis (gf_vis f) ++
  KId "fn" :: KId (gf_name f) ::
  KGroup Paren (sep_by (KPunct ",") (map print_arg (gf_args f))) :: print_ret (gf_ret f).

Definition print_field (f : gtypefield) : list tok :=
  match f with
  | GField v n t => print_vis v ++ KId n :: KPunct ":" :: print_type t
  | GVftable fs => [KId "vftable"; KGroup Brace (term_by (KPunct ";") (map print_function fs))]
  end.
Definition print_statement (s : gstatement) : list tok :=
  print_attrs (gs_attrs s) ++ print_field (gs_field s).

(** [type Name;] for a type without statements, [type Name { s, s, }] otherwise; the attributes
    and the name are printed by [print_itemdef] *)
Definition print_typedef_body (td : gtypedef) : list tok :=
  match gt_stmts td with
  | [] => [KPunct ";"]
  | l => [KGroup Brace (term_by (KPunct ",") (map print_statement l))]
  end.

Definition print_enumstmt (s : genumstmt) : list tok :=
  print_attrs (ge_attrs s) ++ KId (ge_name s) ::
  match ge_expr s with Some e => KPunct "=" :: print_expr e | None => [] end.
Definition print_enumdef_body (ed : genumdef) : list tok :=
  KPunct ":" :: print_type (ged_type ed) ++
  [KGroup Brace (term_by (KPunct ",") (map print_enumstmt (ged_stmts ed)))].

Definition inner_attrs (i : gitem_inner) : list gattr :=
  match i with GIType td => gt_attrs td | GIEnum ed => ged_attrs ed end.
Definition print_itemdef (d : gitemdef) : list tok :=
  print_attrs (inner_attrs (gi_inner d)) ++ print_vis (gi_vis d) ++
  match gi_inner d with
  | GIType td => KId "type" :: KId (gi_name d) :: print_typedef_body td
  | GIEnum ed => KId "enum" :: KId (gi_name d) :: print_enumdef_body ed
  end.

Definition print_impl (b : gfnblock) : list tok :=
  print_attrs (gb_attrs b) ++
  [KId "impl"; KId (gb_name b); KGroup Brace (term_by (KPunct ";") (map print_function (gb_fns b)))].

Definition print_extern_type (e : string * list gattr) : list tok :=
  print_attrs (snd e) ++ [KId "extern"; KId "type"; KId (fst e); KPunct ";"].

Definition print_extern_value (e : gexternvalue) : list tok :=
  print_attrs (gev_attrs e) ++ print_vis (gev_vis e) ++
  KId "extern" :: KId (gev_name e) :: KPunct ":" :: print_type (gev_type e) ++ [KPunct ";"].

Fixpoint print_path (p : path) : list tok :=
  match p with
  | [] => []
  | [s] => [KId s]
  | s :: r => KId s :: KPunct "::" :: print_path r
  end.
Definition print_use (p : path) : list tok := KId "use" :: print_path p ++ [KPunct ";"].

Definition print_block (kw : string) (s : option string) : list tok :=
  match s with Some x => [KId kw; KStr x; KPunct ";"] | None => [] end.
Definition print_backend (b : gbackend) : list tok :=
  [KId "backend"; KId (gbk_name b);
   KGroup Brace (print_block "prologue" (gbk_pro b) ++ print_block "epilogue" (gbk_epi b))].

(** module attributes are [#![..]], one per attribute *)
Definition print_mod_attrs (l : list gattr) : list tok :=
  flat_map (fun a => [KPunct "#"; KPunct "!"; KGroup Bracket (print_attr_part a)]) l.

(** canonical order: uses, extern types, extern values, definitions, impls, backends *)
Definition print_module (m : gmodule) : list tok :=
  print_mod_attrs (gm_attrs m) ++
  flat_map print_use (gm_uses m) ++
  flat_map print_extern_type (gm_extern_types m) ++
  flat_map print_extern_value (gm_extern_values m) ++
  flat_map print_itemdef (gm_defs m) ++
  flat_map print_impl (gm_impls m) ++
  flat_map print_backend (gm_backends m).

(** ** parsers *)
(** [impl Parse for Argument] *)
Definition parse_arg (ts : list tok) : option (garg * list tok) :=
  match ts with
  | KPunct p :: r =>
    if String.eqb p "&" then
      match r with
      | KId k :: r' =>
        if String.eqb k "mut" then olet r'' <- eat_kw "self" r'; Some (GMutSelf, r'')
        else if String.eqb k "self" then Some (GConstSelf, r')
        else None
      | _ => None
      end
    else None
  | KId n :: r =>
    (* [lookahead.peek(syn::Ident)]: [_] is not accepted here *)
    if syn_ident n then
      olet r1 <- eat_punct ":" r;
      olet tr <- parse_ty r1;
      Some (GNamed n (fst tr), snd tr)
    else None
  | _ => None
  end.

(** the optional [-> Type]; [->] is the single joint token *)
Definition parse_ret (ts : list tok) : option (option gtype * list tok) :=
  match ts with
  | KPunct a :: r =>
    if String.eqb a "->" then olet tr <- parse_ty r; Some (Some (fst tr), snd tr)
    else Some (None, ts)
  | _ => Some (None, ts)
  end.

(** [impl Parse for Function] *)
Definition parse_function (ts : list tok) : option (gfunction * list tok) :=
  olet ar <- attrs_of ts;
  let vr := parse_vis (snd ar) in
  olet r2 <- eat_kw "fn" (snd vr);
  olet nr <- parse_ident r2;
  match snd nr with
  | KGroup Paren inner :: r4 =>
    olet args <- parse_group parse_arg "," inner;
    olet rr <- parse_ret r4;
    Some ({| gf_vis := fst vr; gf_name := fst nr; gf_attrs := fst ar; gf_args := args;
             gf_ret := fst rr |}, snd rr)
  | _ => None
  end.

(** [impl Parse for TypeField] *)
Definition parse_field (ts : list tok) : option (gtypefield * list tok) :=
  if peek_kw "vftable" ts then
    match ts with
    | _ :: KGroup Brace inner :: r =>
      olet fs <- parse_group parse_function ";" inner; Some (GVftable fs, r)
    | _ => None
    end
  else
    let vr := parse_vis ts in
    olet nr <- parse_ident (snd vr);
    olet r3 <- eat_punct ":" (snd nr);
    olet tr <- parse_ty r3;
    Some (GField (fst vr) (fst nr) (fst tr), snd tr).

(** [impl Parse for TypeStatement] *)
Definition parse_statement (ts : list tok) : option (gstatement * list tok) :=
  olet ar <- attrs_of ts;
  olet fr <- parse_field (snd ar);
  Some ({| gs_field := fst fr; gs_attrs := fst ar |}, snd fr).

(** [parse_type_definition] *)
Definition parse_typedef_body (attrs : list gattr) (ts : list tok) : option (gtypedef * list tok) :=
  match ts with
  | KPunct p :: r =>
    if String.eqb p ";" then Some ({| gt_stmts := []; gt_attrs := attrs |}, r) else None
  | KGroup Brace inner :: r =>
    olet st <- parse_group parse_statement "," inner;
    Some ({| gt_stmts := st; gt_attrs := attrs |}, r)
  | _ => None
  end.

(** [impl Parse for EnumStatement] *)
Definition parse_enumstmt (ts : list tok) : option (genumstmt * list tok) :=
  olet ar <- attrs_of ts;
  olet nr <- parse_ident (snd ar);
  if peek_punct "=" (snd nr) then
    olet er <- parse_expr (tl (snd nr));
    Some ({| ge_name := fst nr; ge_expr := Some (fst er); ge_attrs := fst ar |}, snd er)
  else Some ({| ge_name := fst nr; ge_expr := None; ge_attrs := fst ar |}, snd nr).

(** [parse_enum_definition] *)
Definition parse_enumdef_body (attrs : list gattr) (ts : list tok) : option (genumdef * list tok) :=
  olet r1 <- eat_punct ":" ts;
  olet tr <- parse_ty r1;
  match snd tr with
  | KGroup Brace inner :: r =>
    olet st <- parse_group parse_enumstmt "," inner;
    Some ({| ged_type := fst tr; ged_stmts := st; ged_attrs := attrs |}, r)
  | _ => None
  end.

(** [parse_item_definition] *)
Definition parse_itemdef (v : vis) (attrs : list gattr) (ts : list tok) : option (gitemdef * list tok) :=
  match ts with
  | KId k :: r =>
    if String.eqb k "type" then
      olet nr <- parse_ident r;
      olet dr <- parse_typedef_body attrs (snd nr);
      Some ({| gi_vis := v; gi_name := fst nr; gi_inner := GIType (fst dr) |}, snd dr)
    else if String.eqb k "enum" then
      olet nr <- parse_ident r;
      olet dr <- parse_enumdef_body attrs (snd nr);
      Some ({| gi_vis := v; gi_name := fst nr; gi_inner := GIEnum (fst dr) |}, snd dr)
    else None
  | _ => None
  end.

(** [impl Parse for ItemPath]: type identifiers (with the generics hack) and [::] (the single
    joint token) in any mixture *)
Fixpoint parse_path (fuel : nat) (ts : list tok) : option (path * list tok) :=
  match fuel with
  | O => None
  | S f =>
    match ts with
    | KId s :: r =>
      if syn_ident s then
        let nr := type_ident_tail r s in
        olet pr <- parse_path f (snd nr); Some (fst nr :: fst pr, snd pr)
      else Some ([], ts)
    | KPunct a :: r => if String.eqb a "::" then parse_path f r else Some ([], ts)
    | _ => Some ([], ts)
    end
  end.

(** [parse_block] inside [parse_backend]: [None] = error, [Some None] = keyword not there *)
Definition parse_block (kw : string) (ts : list tok) : option (option (string * list tok)) :=
  if peek_kw kw ts then
    match ts with
    | _ :: KStr s :: KPunct p :: r => if String.eqb p ";" then Some (Some (str_trim s, r)) else None
    | _ => None
    end
  else Some None.

(** [format!("{old}\n{new}")] *)
Definition join_block (old : option string) (new : string) : option string :=
  Some (match old with Some o => o +++ String newline new | None => new end).

Fixpoint parse_backend_body (fuel : nat) (ts : list tok) (pro epi : option string)
    : option (option string * option string) :=
  match fuel with
  | O => None
  | S f =>
    match ts with
    | [] => Some (pro, epi)
    | _ =>
      match parse_block "prologue" ts with
      | None => None
      | Some (Some (s, r)) => parse_backend_body f r (join_block pro s) epi
      | Some None =>
        match parse_block "epilogue" ts with
        | None => None
        | Some (Some (s, r)) => parse_backend_body f r pro (join_block epi s)
        | Some None => None
        end
      end
    end
  end.

(** [parse_backend], after the [backend] keyword has been seen *)
Definition parse_backend (ts : list tok) : option (gbackend * list tok) :=
  olet r1 <- eat_kw "backend" ts;
  olet nr <- parse_ident r1;
  match parse_block "prologue" (snd nr) with
  | None => None
  | Some (Some (s, r)) => Some ({| gbk_name := fst nr; gbk_pro := Some s; gbk_epi := None |}, r)
  | Some None =>
    match parse_block "epilogue" (snd nr) with
    | None => None
    | Some (Some (s, r)) => Some ({| gbk_name := fst nr; gbk_pro := None; gbk_epi := Some s |}, r)
    | Some None =>
      match snd nr with
      | KGroup Brace inner :: r =>
        olet pe <- parse_backend_body (S (List.length inner)) inner None None;
        Some ({| gbk_name := fst nr; gbk_pro := fst pe; gbk_epi := snd pe |}, r)
      | _ => None
      end
    end
  end.

(** [Attribute::parse_many(input, true)]: while the next two tokens are [#] [!] *)
Fixpoint parse_mod_attrs (fuel : nat) (ts : list tok) : option (list gattr * list tok) :=
  match fuel with
  | O => None
  | S f =>
    match ts with
    | KPunct p :: KPunct q :: rest =>
      if String.eqb p "#" && String.eqb q "!" then
        match rest with
        | KGroup Bracket inner :: r =>
          olet parts <- parse_attr_parts (S (List.length inner)) inner;
          olet mr <- parse_mod_attrs f r;
          Some (parts ++ fst mr, snd mr)
        | _ => None
        end
      else Some ([], ts)
    | _ => Some ([], ts)
    end
  end.

(** one iteration of the loop in [impl Parse for Module] *)
Inductive item : Type :=
| IUse (p : path)
| IBackend (b : gbackend)
| IExternType (e : string * list gattr)
| IImpl (b : gfnblock)
| IExternValue (e : gexternvalue)
| IDef (d : gitemdef).

Definition parse_item (ts : list tok) : option (item * list tok) :=
  if peek_kw "use" ts then
    olet pr <- parse_path (S (List.length ts)) (tl ts);
    olet r <- eat_punct ";" (snd pr);
    Some (IUse (fst pr), r)
  else if peek_kw "backend" ts then
    olet br <- parse_backend ts; Some (IBackend (fst br), snd br)
  else
    olet ar <- attrs_of ts;
    let attrs := fst ar in
    let r0 := snd ar in
    if peek_kw "extern" r0 && peek_kw "type" (tl r0) then
      (* [parse_type_ident]: a [syn::Ident], then the generics hack *)
      match tl (tl r0) with
      | KId s :: r =>
        if syn_ident s then
          let nr := type_ident_tail r s in
          olet r' <- eat_punct ";" (snd nr);
          Some (IExternType (fst nr, attrs), r')
        else None
      | _ => None
      end
    else if peek_kw "impl" r0 then
      olet nr <- parse_ident (tl r0);
      match snd nr with
      | KGroup Brace inner :: r =>
        olet fs <- parse_group parse_function ";" inner;
        Some (IImpl {| gb_name := fst nr; gb_fns := fs; gb_attrs := attrs |}, r)
      | _ => None
      end
    else
      let vr := parse_vis r0 in
      let r1 := snd vr in
      if peek_kw "extern" r1 then
        olet nr <- parse_ident (tl r1);
        olet r2 <- eat_punct ":" (snd nr);
        olet tr <- parse_ty r2;
        olet r3 <- eat_punct ";" (snd tr);
        Some (IExternValue {| gev_vis := fst vr; gev_name := fst nr; gev_type := fst tr;
                              gev_attrs := attrs |}, r3)
      else if peek_kw "type" r1 || peek_kw "enum" r1 then
        olet dr <- parse_itemdef (fst vr) attrs r1; Some (IDef (fst dr), snd dr)
      else None.

Definition add_item (i : item) (m : gmodule) : gmodule :=
  match i with
  | IUse p =>
    {| gm_uses := p :: gm_uses m; gm_extern_types := gm_extern_types m;
       gm_extern_values := gm_extern_values m; gm_defs := gm_defs m; gm_impls := gm_impls m;
       gm_backends := gm_backends m; gm_attrs := gm_attrs m |}
  | IBackend b =>
    {| gm_uses := gm_uses m; gm_extern_types := gm_extern_types m;
       gm_extern_values := gm_extern_values m; gm_defs := gm_defs m; gm_impls := gm_impls m;
       gm_backends := b :: gm_backends m; gm_attrs := gm_attrs m |}
  | IExternType e =>
    {| gm_uses := gm_uses m; gm_extern_types := e :: gm_extern_types m;
       gm_extern_values := gm_extern_values m; gm_defs := gm_defs m; gm_impls := gm_impls m;
       gm_backends := gm_backends m; gm_attrs := gm_attrs m |}
  | IImpl b =>
    {| gm_uses := gm_uses m; gm_extern_types := gm_extern_types m;
       gm_extern_values := gm_extern_values m; gm_defs := gm_defs m; gm_impls := b :: gm_impls m;
       gm_backends := gm_backends m; gm_attrs := gm_attrs m |}
  | IExternValue e =>
    {| gm_uses := gm_uses m; gm_extern_types := gm_extern_types m;
       gm_extern_values := e :: gm_extern_values m; gm_defs := gm_defs m; gm_impls := gm_impls m;
       gm_backends := gm_backends m; gm_attrs := gm_attrs m |}
  | IDef d =>
    {| gm_uses := gm_uses m; gm_extern_types := gm_extern_types m;
       gm_extern_values := gm_extern_values m; gm_defs := d :: gm_defs m; gm_impls := gm_impls m;
       gm_backends := gm_backends m; gm_attrs := gm_attrs m |}
  end.

(** the [while !input.is_empty()] loop: the item read first is filed first (the Rust code pushes
    at the back while going forward; here the rest is read first and the item is put in front) *)
Fixpoint parse_items (fuel : nat) (ts : list tok) : option gmodule :=
  match fuel with
  | O => None
  | S f =>
    match ts with
    | [] => Some empty_module
    | _ =>
      olet ir <- parse_item ts;
      olet m <- parse_items f (snd ir);
      Some (add_item (fst ir) m)
    end
  end.

Definition set_attrs (a : list gattr) (m : gmodule) : gmodule :=
  {| gm_uses := gm_uses m; gm_extern_types := gm_extern_types m;
     gm_extern_values := gm_extern_values m; gm_defs := gm_defs m; gm_impls := gm_impls m;
     gm_backends := gm_backends m; gm_attrs := a |}.

(** [impl Parse for Module] *)
Definition parse_module (ts : list tok) : option gmodule :=
  olet ar <- parse_mod_attrs (S (List.length ts)) ts;
  olet m <- parse_items (S (List.length (snd ar))) (snd ar);
  Some (set_attrs (fst ar) m).

(** ** an executable check of the round-trip precondition ([wf_module] in SyntaxItemsLemmas.v;
    [wf_module_b_sound] there relates the two) *)
Fixpoint wf_type_b (t : gtype) : bool :=
  match t with
  | GArray t' n => wf_type_b t' && (n <=? 18446744073709551615)%N
  | GConstPtr t' | GMutPtr t' => wf_type_b t'
  | GIdent s => syn_ident s && negb (String.eqb s "unknown")
  | GUnknown n => (n <=? 18446744073709551615)%N
  end.
Definition wf_ty_b (t : gtype) : bool := wf_type_b t && (type_depth t <=? type_fuel)%nat.
Definition wf_expr_b (e : gexpr) : bool :=
  match e with EIdent s => syn_ident s | EInt z => isize_ok z | EStr _ => true end.
Definition wf_attr_b (a : gattr) : bool :=
  match a with
  | AIdent n => pyxis_ident n
  | AFn n args => pyxis_ident n && forallb wf_expr_b args
  | AAssign n e => pyxis_ident n && wf_expr_b e
  end.
Definition wf_attrs_b (l : list gattr) : bool := forallb wf_attr_b l.
Definition wf_arg_b (a : garg) : bool :=
  match a with GNamed n t => syn_ident n && wf_ty_b t | _ => true end.
Definition wf_function_b (f : gfunction) : bool :=
  wf_attrs_b (gf_attrs f) && pyxis_ident (gf_name f) && forallb wf_arg_b (gf_args f) &&
  match gf_ret f with Some t => wf_ty_b t | None => true end.
Definition wf_field_b (f : gtypefield) : bool :=
  match f with
  | GField v n t =>
    pyxis_ident n && wf_ty_b t &&
    match v with Private => negb (String.eqb n "vftable") | Public => true end
  | GVftable fs => forallb wf_function_b fs
  end.
Definition wf_statement_b (s : gstatement) : bool := wf_attrs_b (gs_attrs s) && wf_field_b (gs_field s).
Definition wf_enumstmt_b (s : genumstmt) : bool :=
  wf_attrs_b (ge_attrs s) && pyxis_ident (ge_name s) &&
  match ge_expr s with Some e => wf_expr_b e | None => true end.
Definition wf_itemdef_b (d : gitemdef) : bool :=
  pyxis_ident (gi_name d) &&
  match gi_inner d with
  | GIType td => wf_attrs_b (gt_attrs td) && forallb wf_statement_b (gt_stmts td)
  | GIEnum ed => wf_attrs_b (ged_attrs ed) && wf_ty_b (ged_type ed) && forallb wf_enumstmt_b (ged_stmts ed)
  end.
Definition wf_impl_b (b : gfnblock) : bool :=
  wf_attrs_b (gb_attrs b) && pyxis_ident (gb_name b) && forallb wf_function_b (gb_fns b).
Definition wf_extern_type_b (e : string * list gattr) : bool := syn_ident (fst e) && wf_attrs_b (snd e).
Definition wf_extern_value_b (e : gexternvalue) : bool :=
  wf_attrs_b (gev_attrs e) && pyxis_ident (gev_name e) && wf_ty_b (gev_type e).
Definition trimmed_b (s : option string) : bool :=
  match s with Some x => String.eqb (str_trim x) x | None => true end.
Definition wf_backend_b (b : gbackend) : bool :=
  pyxis_ident (gbk_name b) && trimmed_b (gbk_pro b) && trimmed_b (gbk_epi b).
Definition wf_module_b (m : gmodule) : bool :=
  wf_attrs_b (gm_attrs m) && forallb (forallb syn_ident) (gm_uses m) &&
  forallb wf_extern_type_b (gm_extern_types m) && forallb wf_extern_value_b (gm_extern_values m) &&
  forallb wf_itemdef_b (gm_defs m) && forallb wf_impl_b (gm_impls m) &&
  forallb wf_backend_b (gm_backends m).

(** ** items in any order: the printer of one item, for the general form of the module theorem *)
Definition print_item (i : item) : list tok :=
  match i with
  | IUse p => print_use p
  | IBackend b => print_backend b
  | IExternType e => print_extern_type e
  | IImpl b => print_impl b
  | IExternValue e => print_extern_value e
  | IDef d => print_itemdef d
  end.
