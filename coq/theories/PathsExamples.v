(** * PathsExamples: C13 (paths resolve) on concrete inputs.

    - the two-module input of FilesExamples.v (module [a]: extern type [Ext], enum [E], [Base]
      with a vftable block, [Plain]; module [b::c], which uses [a]: [User { p : Plain }]):
      the paths read by [type_paths] from every struct field / enum repr / function signature /
      extern-value accessor of the two REALLY emitted files, and the alternative of [path_ok] each of
      them satisfies, computed by a boolean classifier ([path_kind]) that is proved sound;
      the cross-module reference [crate :: a :: Plain] in "b/c.rs" is an item of "a.rs";
    - [Examples.ex_state 4] (one module [m]: arrays, padding, a base sub-object, inherited
      functions, a pointer to an extern type in a vftable slot);
    - the theorems of PathsWhole.v instantiated on the first input (their hypotheses are checked
      there), so they are not vacuous. *)
From Coq Require Import List NArith ZArith Bool String Permutation.
From PyxisModel Require Import Base Sexp Grammar SemTypes Registry Sem Emit Driver Examples
     WholeBuild OrderIndep EmitReaders EmitFnReaders EmitFnShape EmitFinal FilesInput FilesRead FilesWhole
     FilesExamples EmitPaths PathsClosed PathsWhole.
Import ListNotations.
Local Open Scope string_scope.
Local Open Scope list_scope.

(** ** readers over a whole file *)
(** (struct name, field name, the paths its type mentions), for every field of every struct item *)
Definition file_field_paths (f : sexp) : list (string * string * list path) :=
  match file_items f with
  | Some items =>
    flat_map (fun s => match struct_name s, struct_fields s with
                       | Some n, Some efs => map (fun ef => (n, ef_name ef, type_paths (ef_ty ef))) efs
                       | _, _ => []
                       end) items
  | None => []
  end.
(** (enum name, the paths of its repr type) *)
Definition file_enum_paths (f : sexp) : list (string * list path) :=
  match file_items f with
  | Some items =>
    flat_map (fun e => match enum_name e, enum_repr e with
                       | Some n, Some toks => [(n, type_paths toks)]
                       | _, _ => []
                       end) items
  | None => []
  end.
(** (impl's type, function name, the paths of its parameter and return types), for every function
    of every inherent impl *)
Definition file_fn_paths (f : sexp) : list (string * option string * list path) :=
  match file_items f with
  | Some items =>
    flat_map (fun im => match inherent_impl im with
                        | Some (n, fns) => map (fun e => (n, fn_name e, flat_map type_paths (fn_sig_types e))) fns
                        | None => []
                        end) items
  | None => []
  end.
(** the paths in the accessors of extern values (top-level functions with an extern target) *)
Definition file_extern_paths (f : sexp) : list (option string * list path) :=
  match file_items f with
  | Some items =>
    flat_map (fun e => match fn_extern_target e with
                       | Some (_, toks) => [(fn_name e, type_paths toks)]
                       | None => []
                       end) items
  | None => []
  end.

(** ** a boolean classifier for [path_ok], and its soundness *)
Definition in_decls (f : sexp) (name : string) : bool :=
  existsb (fun kn => String.eqb (snd kn) name) (file_decls f).

Definition path_kind (mods : list (path * gmodule)) (files : list (string * sexp)) (p : path) : string :=
  if match p with [n] => existsb (String.eqb n) rust_builtins | _ => false end then "builtin"
  else if existsb (fun kg => existsb (fun e => path_eqb p (path_join (fst kg) (fst e)))
                                     (gm_extern_types (snd kg))) mods then "extern"
  else if existsb (fun kg => match fst kg, path_parent p, path_last p with
                             | _ :: _, Some k', Some name =>
                               path_eqb (fst kg) k' &&
                               existsb (fun nf => String.eqb (fst nf) (out_path (fst kg)) && in_decls (snd nf) name) files
                             | _, _, _ => false
                             end) mods then "item"
  else "UNRESOLVED".

Definition all_resolved (mods : list (path * gmodule)) (files : list (string * sexp)) (ps : list path) : bool :=
  forallb (fun p => negb (String.eqb (path_kind mods files p) "UNRESOLVED")) ps.

(** ** the two-module input *)
Definition f_a : sexp := match f_file "a.rs" with Some f => f | None => Atom "" end.
Definition f_bc : sexp := match f_file "b/c.rs" with Some f => f | None => Atom "" end.

Example f_a_field_paths :
  file_field_paths f_a =
  [("Base", "vftable", [["a"; "BaseVftable"]]); ("Base", "x", [["u32"]]);
   ("BaseVftable", "f", [["a"; "Base"]]);
   ("Plain", "e", [["a"; "E"]]); ("Plain", "pad", [["u16"]]); ("Plain", "x", [["a"; "Ext"]])].
Proof. vm_compute. reflexivity. Qed.

(** the cross-module reference *)
Example f_bc_field_paths : file_field_paths f_bc = [("User", "p", [["a"; "Plain"]])].
Proof. vm_compute. reflexivity. Qed.

Example f_a_enum_paths : file_enum_paths f_a = [("E", [["i16"]])].
Proof. vm_compute. reflexivity. Qed.

Example f_a_fn_paths :
  file_fn_paths f_a = [("Base", Some "vftable", [["a"; "BaseVftable"]]); ("Base", Some "f", [])] /\
  file_fn_paths f_bc = [].
Proof. vm_compute. split; reflexivity. Qed.

Example f_a_extern_paths : file_extern_paths f_a = [(Some "get_counter", [["u32"]])].
Proof. vm_compute. reflexivity. Qed.

(** every path read from the two files, and the alternative of [path_ok] it falls under *)
Definition f_all_paths : list path :=
  flat_map snd (file_field_paths f_a) ++ flat_map snd (file_field_paths f_bc) ++
  flat_map snd (file_enum_paths f_a) ++ flat_map snd (file_fn_paths f_a) ++ flat_map snd (file_fn_paths f_bc) ++
  flat_map snd (file_extern_paths f_a).

Example f_all_kinds :
  map (fun p => (p, path_kind f_mods f_files_list p)) f_all_paths =
  [(["a"; "BaseVftable"], "item"); (["u32"], "builtin"); (["a"; "Base"], "item"); (["a"; "E"], "item");
   (["u16"], "builtin"); (["a"; "Ext"], "extern");
   (["a"; "Plain"], "item");                        (* read in b/c.rs, an item of a.rs *)
   (["i16"], "builtin");
   (["a"; "BaseVftable"], "item");
   (["u32"], "builtin")].
Proof. vm_compute. reflexivity. Qed.

Example f_all_resolved : all_resolved f_mods f_files_list f_all_paths = true.
Proof. vm_compute. reflexivity. Qed.

(** a name that is nowhere: the classifier (and [path_ok]) rejects it *)
Example f_unresolved_rejected :
  path_kind f_mods f_files_list ["a"; "Nowhere"] = "UNRESOLVED" /\
  path_kind f_mods f_files_list ["Plain"] = "UNRESOLVED" /\       (* the bare name is not the item [a::Plain] *)
  path_kind f_mods f_files_list ["b"; "c"; "Plain"] = "UNRESOLVED".
Proof. vm_compute. repeat split. Qed.

(** the struct [User] of "b/c.rs" and its field [p], as closed terms *)
Definition f_bc_items : list sexp := match file_items f_bc with Some l => l | None => [] end.
Definition f_bc_user : sexp := nth 1 f_bc_items (Atom "").
Definition f_bc_user_fields : list efield := match struct_fields f_bc_user with Some l => l | None => [] end.
Definition f_bc_user_p : efield :=
  nth 0 f_bc_user_fields {| ef_docs := []; ef_vis := Private; ef_name := ""; ef_ty := [] |}.

Lemma f_no_extern_plain :
  forallb (fun kg : path * gmodule =>
             forallb (fun e : string * list gattr => negb (path_eqb (path_join (fst kg) (fst e)) ["a"; "Plain"]))
                     (gm_extern_types (snd kg))) f_mods = true.
Proof. vm_compute. reflexivity. Qed.

(** ** the theorems apply to this input *)
Section OnInput.
  Let Hin := f_input.
  Let Hres := f_accepted.
  Let Hw := f_written.
  Let Hcf := f_collision_free.
  Let HN := f_paths_distinct.
  Let Hord := f_keeps_work.

  (** every struct item of the two files: every path in a field type is [path_ok] *)
  Example f_struct_fields_ok : forall name f items s efs ef p,
    In (name, f) f_files_list -> file_items f = Some items -> In s items -> item_kind s = Some "struct" ->
    struct_fields s = Some efs -> In ef efs -> In p (type_paths (ef_ty ef)) -> path_ok f_mods f_files_list p.
  Proof. exact (C13_struct_field_paths _ _ _ _ _ Hin HN Hcf Hord Hres _ Hw). Qed.

  Example f_enum_repr_ok : forall name f items e toks p,
    In (name, f) f_files_list -> file_items f = Some items -> In e items -> item_kind e = Some "enum" ->
    enum_repr e = Some toks -> In p (type_paths toks) -> path_ok f_mods f_files_list p.
  Proof. exact (C13_enum_repr_paths _ _ _ _ _ Hin HN Hcf Hord Hres _ Hw). Qed.

  Example f_impl_fns_ok : forall name f items s,
    In (name, f) f_files_list -> file_items f = Some items -> In s items -> item_kind s = Some "struct" ->
    exists n checks sing im conv fns,
      struct_name s = Some n /\ incl (s :: checks ++ sing ++ im :: conv) items /\
      item_kind im = Some "impl" /\ inherent_impl im = Some (n, fns) /\
      forall e toks p, In e fns -> In toks (fn_sig_types e) -> In p (type_paths toks) -> path_ok f_mods f_files_list p.
  Proof. exact (C13_impl_fn_paths _ _ _ _ _ Hin HN Hcf Hord Hres _ Hw). Qed.

  (** the instance for the cross-module reference: the field [p] of [User] in "b/c.rs" mentions
      [a::Plain]; the theorem gives [path_ok]; since [a::Plain] is neither a built-in nor an extern
      type nor of the root module, it is the third alternative: a struct of the file "a.rs" *)
  Example f_cross_module :
    exists f kind, In ("a.rs", f) f_files_list /\ file_ok fa_module f /\ In (kind, "Plain") (file_decls f).
  Proof.
    assert (path_ok f_mods f_files_list ["a"; "Plain"]) as H.
    { eapply (f_struct_fields_ok "b/c.rs" f_bc f_bc_items f_bc_user f_bc_user_fields f_bc_user_p).
      - vm_compute. right. left. reflexivity.
      - vm_compute. reflexivity.
      - vm_compute. right. left. reflexivity.
      - vm_compute. reflexivity.
      - vm_compute. reflexivity.
      - vm_compute. left. reflexivity.
      - vm_compute. left. reflexivity. }
    destruct H as [(n & E & _)|[(k & gm & e & Hm & He & E)|[(k & gm & f & kind & name & Hm & Hk & E & Hf & Hok & Hd)|(gm & kind & name & Hm & E & _)]]].
    - discriminate E.
    - exfalso. pose proof f_no_extern_plain as Hx. rewrite forallb_forall in Hx. specialize (Hx _ Hm).
      cbn [fst snd] in Hx. rewrite forallb_forall in Hx. specialize (Hx _ He).
      rewrite <- E, path_eqb_refl in Hx. discriminate Hx.
    - change ["a"; "Plain"] with (path_join ["a"] "Plain") in E. unfold path_join in E.
      apply app_inj_tail in E as [Ek En]. subst k name.
      destruct Hm as [Hm|[Hm|[]]].
      + apply (f_equal snd) in Hm. cbn [snd] in Hm. subst gm. exists f, kind.
        split; [exact Hf|]. split; [exact Hok | exact Hd].
      + apply (f_equal fst) in Hm. cbn [fst] in Hm. discriminate Hm.
    - discriminate E.
  Qed.

  (** the final registry of this build is closed (PathsClosed.final_closed) *)
  Example f_registry_closed : forall p it, reg_get (st_reg f_st) p = Some it -> item_closed (st_reg f_st) it.
  Proof. apply (final_closed _ _ _ _ _ Hin Hres). Qed.
End OnInput.

(** ** [Examples.ex_state 4]: one module [m] *)
Definition ex_files : list (string * sexp) :=
  match ex_state 4 with
  | Some st => match write_all st with Ok files => files | _ => [] end
  | None => []
  end.
Definition ex_m : sexp := match ex_files with [(_, f)] => f | _ => Atom "" end.

Example ex_field_paths :
  file_field_paths ex_m =
  [("Base", "vftable", [["m"; "BaseVftable"]]); ("Base", "x", [["u32"]]);
   ("BaseVftable", "f", [["m"; "Base"]; ["u32"]; ["u32"]]);
   ("BaseVftable", "_vfunc_1", [["m"; "Base"]]); ("BaseVftable", "_vfunc_2", [["m"; "Base"]]);
   ("BaseVftable", "g", [["m"; "Base"]; ["m"; "Ext"]]);
   ("P", "a", [["u8"]]); ("P", "b", [["u32"]]); ("P", "c", [["m"; "T"]]);
   ("T", "a", [["u32"]]); ("T", "_field_4", [["u8"]]); ("T", "b", [["u16"]]); ("T", "_field_c", [["u8"]]);
   ("T", "c", [["m"; "E"]]); ("T", "base", [["m"; "Base"]]); ("T", "e", [["m"; "Ext"]])].
Proof. vm_compute. reflexivity. Qed.

(** signatures: the accessor, the own function [meth], the virtual functions, and what [T]
    inherits from its base *)
Example ex_fn_paths :
  file_fn_paths ex_m =
  [("Base", Some "vftable", [["m"; "BaseVftable"]]); ("Base", Some "meth", [["u32"]; ["m"; "E"]]);
   ("Base", Some "f", [["u32"]; ["u32"]]); ("Base", Some "g", [["m"; "Ext"]]);
   ("T", Some "vftable", [["m"; "BaseVftable"]]); ("T", Some "meth", [["u32"]; ["m"; "E"]]);
   ("T", Some "f", [["u32"]; ["u32"]]); ("T", Some "g", [["m"; "Ext"]])].
Proof. vm_compute. reflexivity. Qed.

Example ex_enum_paths : file_enum_paths ex_m = [("E", [["i16"]])].
Proof. vm_compute. reflexivity. Qed.

Example ex_all_resolved :
  all_resolved ex_mods ex_files
    (flat_map snd (file_field_paths ex_m) ++ flat_map snd (file_enum_paths ex_m) ++ flat_map snd (file_fn_paths ex_m)) = true.
Proof. vm_compute. reflexivity. Qed.

Example ex_kinds :
  map (path_kind ex_mods ex_files) [["m"; "BaseVftable"]; ["m"; "Ext"]; ["u64"]; ["m"; "T"]; ["m"; "Q"]] =
  ["item"; "extern"; "builtin"; "item"; "UNRESOLVED"].
Proof. vm_compute. reflexivity. Qed.

Print Assumptions f_struct_fields_ok.
Print Assumptions f_cross_module.
