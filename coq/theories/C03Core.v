(** * C03 core: acceptance of a single type description  <->  declarative realisability.
   [accept] is the arithmetic skeleton of resolve_regions + the alignment checks of
   type_definition/mod.rs (regions as (size, alignment) pairs); [realisable] is the SPEC written from
   the property text.  Field sizes and alignments are parameters; arithmetic is unbounded N (no
   overflow is reachable for descriptions whose offsets fit in usize). *)
From Coq Require Import List NArith ZArith Lia Bool ZifyBool ZifyN.
Import ListNotations.
Local Open Scope N_scope.
Ltac Zify.zify_post_hook ::= Z.div_mod_to_equations.
Arguments N.add : simpl never. Arguments N.sub : simpl never. Arguments N.mul : simpl never.
Arguments N.modulo : simpl never. Arguments N.div : simpl never. Arguments N.ltb : simpl never.
Arguments N.eqb : simpl never. Arguments N.leb : simpl never. Arguments N.gcd : simpl never.

Record field := { addr : option N; sz : N; al : N; zarr : bool }.
Definition region := (N * N)%type.            (* size, alignment *)

(* ---------------- model of the code (resolve_regions + alignment checks) ---------------- *)
Definition push (st : list region * N) (r : region) (isarr : bool) : list region * N :=
  if (fst r =? 0) && isarr then st else (fst st ++ [r], snd st + fst r).
Definition step (st : list region * N) (f : field) : option (list region * N) :=
  match addr f with
  | Some a => if a <? snd st then None
              else Some (push (push st (a - snd st, 1) true) (sz f, al f) (zarr f))
  | None => Some (push st (sz f, al f) (zarr f))
  end.
Fixpoint steps (st : list region * N) (fs : list field) : option (list region * N) :=
  match fs with [] => Some st | f :: r => match step st f with None => None | Some st' => steps st' r end end.
Definition finish (st : list region * N) (size : option N) : option (list region * N) :=
  match size with
  | None => Some st
  | Some s => let st' := if snd st <? s then push st (s - snd st, 1) true else st in
              if snd st' =? s then Some st' else None
  end.
Fixpoint aligned_from (cur : N) (rs : list region) : bool :=
  match rs with [] => true | (s, a) :: r => (cur mod a =? 0) && aligned_from (cur + s) r end.
Definition lcm2 (a b : N) : N := a * b / N.gcd a b.
Definition lcml (rs : list region) : N := fold_left (fun acc r => lcm2 acc (snd r)) rs 1.
Definition choose_align (ptr : N) (align : option N) (rs : list region) : N :=
  match align with Some a => a | None => match rs with [r] => snd r | _ => ptr end end.
Definition is_pow2b (n : N) : bool :=
  match n with 0 => false | Npos p => N.eqb (N.pos p) (2 ^ N.log2 (N.pos p)) end.
Definition accept (ptr : N) (fs : list field) (size align : option N) (packed : bool) : option (N * N) :=
  match steps ([], 0) fs with
  | None => None
  | Some st =>
    match finish st size with
    | None => None
    | Some (rs, total) =>
      if packed then match align with Some _ => None | None => Some (total, 1) end
      else let a := choose_align ptr align rs in
           if negb (is_pow2b a) then None
           else if a <? lcml rs then None
           else if negb (aligned_from 0 rs) then None
           else if negb (total mod a =? 0) then None
           else Some (total, a)
    end
  end.

(* ---------------- declarative spec ---------------- *)
Record member := { m_off : N; m_sz : N; m_al : N }.
Definition ignored (f : field) : bool := zarr f && (sz f =? 0).
Definition off_of (prev_end : N) (f : field) : N := match addr f with Some a => a | None => prev_end end.
(* members contributed by one field placed after prev_end *)
Definition field_members (prev_end : N) (f : field) : list member :=
  let off := off_of prev_end f in
  (if prev_end <? off then [{| m_off := prev_end; m_sz := off - prev_end; m_al := 1 |}] else []) ++
  (if ignored f then [] else [{| m_off := off; m_sz := sz f; m_al := al f |}]).
Fixpoint layout (prev_end : N) (fs : list field) : option (list member * N) :=
  match fs with
  | [] => Some ([], prev_end)
  | f :: r => let off := off_of prev_end f in
              if off <? prev_end then None
              else match layout (off + sz f) r with
                   | None => None
                   | Some (ms, e) => Some (field_members prev_end f ++ ms, e)
                   end
  end.
Definition tail_gap (e total : N) : list member :=
  if e <? total then [{| m_off := e; m_sz := total - e; m_al := 1 |}] else [].
Definition eff_align (ptr : N) (align : option N) (ms : list member) : N :=
  match align with Some a => a | None => match ms with [m] => m_al m | _ => ptr end end.

Definition realisable (ptr : N) (fs : list field) (size align : option N) (packed : bool) : Prop :=
  exists ms e, layout 0 fs = Some (ms, e) /\
    let total := match size with Some s => s | None => e end in
    e <= total /\
    let all := ms ++ tail_gap e total in
    if packed then align = None
    else let a := eff_align ptr align all in
         (exists k, a = 2 ^ k) /\ Forall (fun m => m_al m <= a /\ m_off m mod m_al m = 0) all /\ total mod a = 0.

(* ---------------- proof ---------------- *)
Definition reg_of (m : member) : region := (m_sz m, m_al m).
Definition pow2 (x : N) := exists k, x = 2 ^ k.

Lemma push_pad st n : push st (n, 1) true = if n =? 0 then st else (fst st ++ [(n, 1)], snd st + n).
Proof. unfold push. cbn [fst]. rewrite andb_true_r. reflexivity. Qed.

Lemma step_spec rs last f :
  step (rs, last) f =
  if off_of last f <? last then None
  else Some (rs ++ map reg_of (field_members last f), off_of last f + sz f).
Proof.
  assert (forall x y : list region * N, fst x = fst y -> snd x = snd y -> Some x = Some y) as PE
    by (intros [? ?] [? ?]; cbn; congruence).
  unfold step, off_of, field_members, off_of, ignored. destruct (addr f) as [a|]; cbn [snd fst].
  - destruct (a <? last) eqn:E; [reflexivity|]. rewrite push_pad. cbn [fst snd].
    destruct (last <? a) eqn:E2.
    + assert ((a - last =? 0) = false) as -> by lia. unfold push. cbn [fst snd].
      rewrite (andb_comm (sz f =? 0)). destruct (zarr f && (sz f =? 0)) eqn:E3;
        apply PE; cbn [fst snd map app reg_of m_sz m_al]; rewrite <- ?app_assoc; cbn [app]; [reflexivity | lia | reflexivity | lia].
    + assert ((a - last =? 0) = true) as -> by lia. unfold push. cbn [fst snd].
      rewrite (andb_comm (sz f =? 0)). destruct (zarr f && (sz f =? 0)) eqn:E3;
        apply PE; cbn [fst snd map app reg_of m_sz m_al]; rewrite ?app_nil_r; [reflexivity | lia | reflexivity | lia].
  - assert ((last <? last) = false) as -> by lia. unfold push. cbn [fst snd].
    rewrite (andb_comm (sz f =? 0)). destruct (zarr f && (sz f =? 0)) eqn:E3;
      apply PE; cbn [fst snd map app reg_of m_sz m_al]; rewrite ?app_nil_r; [reflexivity | lia | reflexivity | lia].
Qed.

Lemma steps_layout : forall fs rs last,
  steps (rs, last) fs = match layout last fs with
                        | None => None
                        | Some (ms, e) => Some (rs ++ map reg_of ms, e)
                        end.
Proof.
  induction fs as [|f r IH]; intros rs last; cbn [steps layout].
  - cbn [map]. rewrite app_nil_r. reflexivity.
  - rewrite step_spec. destruct (off_of last f <? last); [reflexivity|].
    rewrite IH. destruct (layout (off_of last f + sz f) r) as [[ms e]|]; [|reflexivity].
    rewrite map_app, app_assoc. reflexivity.
Qed.

(* members produced by layout are contiguous: offsets are the prefix sums, starting at prev_end *)
Fixpoint contiguous (cur : N) (ms : list member) : Prop :=
  match ms with [] => True | m :: r => m_off m = cur /\ contiguous (cur + m_sz m) r end.
Fixpoint end_of (cur : N) (ms : list member) : N :=
  match ms with [] => cur | m :: r => end_of (cur + m_sz m) r end.

Lemma contiguous_app cur a b : contiguous cur (a ++ b) <-> contiguous cur a /\ contiguous (end_of cur a) b.
Proof. revert cur. induction a as [|m a IH]; intros cur; cbn; [tauto|]. rewrite IH. tauto. Qed.
Lemma end_of_app cur a b : end_of cur (a ++ b) = end_of (end_of cur a) b.
Proof. revert cur. induction a as [|m a IH]; intros cur; cbn; [reflexivity|]. apply IH. Qed.

Lemma field_members_contig last f : off_of last f <? last = false ->
  contiguous last (field_members last f) /\ end_of last (field_members last f) = off_of last f + sz f.
Proof.
  intros H. unfold field_members. destruct (last <? off_of last f) eqn:E; destruct (ignored f) eqn:I; cbn.
  - unfold ignored in I. split; [tauto | lia].
  - split; [repeat split; lia | lia].
  - unfold ignored in I. split; [tauto | lia].
  - split; [repeat split; lia | lia].
Qed.

Lemma layout_contig : forall fs last ms e, layout last fs = Some (ms, e) ->
  contiguous last ms /\ end_of last ms = e.
Proof.
  induction fs as [|f r IH]; intros last ms e; cbn [layout].
  - intros H; inversion H; subst; cbn; tauto.
  - destruct (off_of last f <? last) eqn:E; [discriminate|].
    destruct (layout (off_of last f + sz f) r) as [[ms' e']|] eqn:L; [|discriminate].
    intros H; inversion H; subst. destruct (field_members_contig _ _ E) as [C1 E1].
    destruct (IH _ _ _ L) as [C2 E2]. rewrite contiguous_app, end_of_app, E1. tauto.
Qed.

Lemma aligned_contig : forall ms cur, contiguous cur ms -> Forall (fun m => 0 < m_al m) ms ->
  (aligned_from cur (map reg_of ms) = true <-> Forall (fun m => m_off m mod m_al m = 0) ms).
Proof.
  induction ms as [|m r IH]; intros cur C P; cbn [map aligned_from].
  - split; auto.
  - cbn [contiguous] in C. destruct C as [C1 C2]. apply Forall_cons_iff in P as [P1 P2]. unfold reg_of at 1. cbn [fst snd].
    rewrite andb_true_iff, (IH _ C2 P2), N.eqb_eq, Forall_cons_iff, C1. tauto.
Qed.

(* lcm of powers of two is their max *)
Lemma lcm2_pow2 a b : pow2 a -> pow2 b -> lcm2 a b = N.max a b.
Proof.
  intros [i ->] [j ->]. unfold lcm2.
  destruct (N.le_ge_cases i j) as [L|L].
  - assert (N.gcd (2^i) (2^j) = 2^i) as ->.
    { apply N.divide_gcd_iff'. exists (2^(j-i)). rewrite <- N.pow_add_r. f_equal. lia. }
    rewrite N.mul_comm, N.div_mul by (apply N.pow_nonzero; lia).
    rewrite N.max_r; [reflexivity | apply N.pow_le_mono_r; lia].
  - assert (N.gcd (2^i) (2^j) = 2^j) as ->.
    { rewrite N.gcd_comm. apply N.divide_gcd_iff'. exists (2^(i-j)). rewrite <- N.pow_add_r. f_equal. lia. }
    rewrite N.div_mul by (apply N.pow_nonzero; lia).
    rewrite N.max_l; [reflexivity | apply N.pow_le_mono_r; lia].
Qed.
Lemma pow2_max a b : pow2 a -> pow2 b -> pow2 (N.max a b).
Proof. intros. destruct (N.max_spec a b) as [[_ ->]|[_ ->]]; assumption. Qed.
Lemma pow2_1 : pow2 1. Proof. exists 0. reflexivity. Qed.

Lemma lcml_le : forall (rs : list region) acc a, pow2 acc -> Forall (fun r : region => pow2 (snd r)) rs ->
  (fold_left (fun acc (r : region) => lcm2 acc (snd r)) rs acc <= a <-> acc <= a /\ Forall (fun r : region => snd r <= a) rs).
Proof.
  induction rs as [|r rs IH]; intros acc a Pa P; cbn [fold_left].
  - split; [auto | tauto].
  - inversion P as [|? ? P1 P2]; subst. rewrite (lcm2_pow2 _ _ Pa P1).
    rewrite (IH _ _ (pow2_max _ _ Pa P1) P2). split.
    + intros [A B]. split; [lia|]. constructor; [lia | exact B].
    + intros [A B]. inversion B; subst. split; [lia | assumption].
Qed.

Lemma Forall_map_reg (P : N -> Prop) ms : Forall (fun r : region => P (snd r)) (map reg_of ms) <-> Forall (fun m => P (m_al m)) ms.
Proof. rewrite Forall_map. reflexivity. Qed.

Lemma choose_eff ptr align ms : choose_align ptr align (map reg_of ms) = eff_align ptr align ms.
Proof. unfold choose_align, eff_align. destruct align; [reflexivity|]. destruct ms as [|m [|m' r]]; reflexivity. Qed.

Lemma finish_spec rs e size :
  finish (rs, e) size =
  match size with
  | None => Some (rs, e)
  | Some s => if e <=? s then Some (rs ++ map reg_of (tail_gap e s), s) else None
  end.
Proof.
  unfold finish, tail_gap. destruct size as [s|]; [|reflexivity]. cbn [snd].
  destruct (e <? s) eqn:E.
  - rewrite push_pad. assert ((s - e =? 0) = false) as -> by lia. cbn [snd fst map].
    assert ((e + (s - e) =? s) = true) as -> by lia. assert ((e <=? s) = true) as -> by lia.
    f_equal. f_equal. lia.
  - cbn [snd map]. rewrite app_nil_r. destruct (e =? s) eqn:E2.
    + assert ((e <=? s) = true) as -> by lia. f_equal. f_equal. lia.
    + assert ((e <=? s) = false) as -> by lia. reflexivity.
Qed.

Definition wf_fields (fs : list field) := Forall (fun f => pow2 (al f)) fs.

Lemma field_members_pow2 last f : pow2 (al f) -> Forall (fun m => pow2 (m_al m)) (field_members last f).
Proof.
  intros P. unfold field_members. apply Forall_app. split.
  - destruct (last <? off_of last f); constructor; [apply pow2_1 | constructor].
  - destruct (ignored f); constructor; [exact P | constructor].
Qed.
Lemma layout_pow2 : forall fs last ms e, wf_fields fs -> layout last fs = Some (ms, e) ->
  Forall (fun m => pow2 (m_al m)) ms.
Proof.
  induction fs as [|f r IH]; intros last ms e W; cbn [layout].
  - intros H; inversion H; constructor.
  - inversion W; subst. destruct (off_of last f <? last); [discriminate|].
    destruct (layout (off_of last f + sz f) r) as [[ms' e']|] eqn:L; [|discriminate].
    intros H; inversion H; subst. apply Forall_app. split; [apply field_members_pow2; assumption | eauto].
Qed.
Lemma pow2_pos x : pow2 x -> 0 < x.
Proof. intros [k ->]. apply N.neq_0_lt_0, N.pow_nonzero. lia. Qed.

Lemma is_pow2b_spec a : is_pow2b a = true <-> pow2 a.
Proof.
  unfold is_pow2b, pow2. destruct a as [|p].
  - split; [discriminate|]. intros [k Hk]. symmetry in Hk. apply N.pow_nonzero in Hk; [contradiction|lia].
  - split.
    + intros H. apply N.eqb_eq in H. eexists. exact H.
    + intros [k Hk]. apply N.eqb_eq. rewrite Hk at 2. rewrite N.log2_pow2 by lia. exact Hk.
Qed.

Theorem accept_iff_realisable ptr fs size align packed : wf_fields fs ->
  (exists r, accept ptr fs size align packed = Some r) <-> realisable ptr fs size align packed.
Proof.
  intros W. unfold accept, realisable. rewrite steps_layout. cbn [app].
  destruct (layout 0 fs) as [[ms e]|] eqn:L.
  2:{ split; [intros [r H]; discriminate | intros [ms [e [H _]]]; discriminate]. }
  pose proof (layout_contig _ _ _ _ L) as [C E]. pose proof (layout_pow2 _ _ _ _ W L) as P.
  rewrite finish_spec.
  assert (forall total, e <= total ->
    let all := ms ++ tail_gap e total in
    contiguous 0 all /\ Forall (fun m => pow2 (m_al m)) all) as ALL.
  { intros total Ht. split.
    - rewrite contiguous_app, E. split; [exact C|]. unfold tail_gap. destruct (e <? total); cbn; tauto.
    - apply Forall_app. split; [exact P|]. unfold tail_gap. destruct (e <? total); constructor; [apply pow2_1 | constructor]. }
  assert (forall total, e <= total ->
    ((exists r, (if packed then match align with Some _ => None | None => Some (total, 1) end
       else let a := choose_align ptr align (map reg_of (ms ++ tail_gap e total)) in
            if negb (is_pow2b a) then None
            else if a <? lcml (map reg_of (ms ++ tail_gap e total)) then None
            else if negb (aligned_from 0 (map reg_of (ms ++ tail_gap e total))) then None
            else if negb (total mod a =? 0) then None else Some (total, a)) = Some r)
     <-> (if packed then align = None
          else let a := eff_align ptr align (ms ++ tail_gap e total) in
               pow2 a /\ Forall (fun m => m_al m <= a /\ m_off m mod m_al m = 0) (ms ++ tail_gap e total) /\ total mod a = 0))) as CORE.
  { intros total Ht. destruct (ALL total Ht) as [CA PA]. set (all := ms ++ tail_gap e total) in *.
    destruct packed.
    - destruct align; split; try (intros [r H]; discriminate); try discriminate; eauto.
    - cbn zeta. rewrite choose_eff. set (a := eff_align ptr align all).
      assert (Forall (fun m => 0 < m_al m) all) as POS by (eapply Forall_impl; [|exact PA]; intros; apply pow2_pos; assumption).
      pose proof (lcml_le (map reg_of all) 1 a pow2_1) as LL. rewrite Forall_map_reg in LL. specialize (LL PA).
      rewrite Forall_map in LL. cbn [snd reg_of] in LL. fold (lcml (map reg_of all)) in LL.
      split.
      + intros [r H]. destruct (is_pow2b a) eqn:E0; cbn [negb] in H; [|discriminate].
        apply is_pow2b_spec in E0.
        destruct (a <? lcml (map reg_of all)) eqn:E1; [discriminate|].
        destruct (aligned_from 0 (map reg_of all)) eqn:E2; [|discriminate]. cbn [negb] in H.
        destruct (total mod a =? 0) eqn:E3; [|discriminate].
        assert (lcml (map reg_of all) <= a) as LE by lia. apply LL in LE as [L1 L2].
        split; [exact E0|]. split; [|lia]. apply (aligned_contig all 0 CA POS) in E2. rewrite Forall_forall in *. intros m Hm. split; [apply L2, Hm | apply E2, Hm].
      + intros [A [B D]]. pose proof (pow2_pos _ A) as Apos.
        apply is_pow2b_spec in A. rewrite A. cbn [negb].
        assert (lcml (map reg_of all) <= a) as LE.
        { apply LL. split; [lia|]. eapply Forall_impl; [|exact B]. cbn. tauto. }
        assert ((a <? lcml (map reg_of all)) = false) as -> by lia.
        assert (aligned_from 0 (map reg_of all) = true) as ->.
        { apply (aligned_contig all 0 CA POS). eapply Forall_impl; [|exact B]. cbn. tauto. }
        assert ((total mod a =? 0) = true) as -> by (apply N.eqb_eq; exact D). cbn [negb]. eauto. }
  destruct size as [s|].
  - destruct (e <=? s) eqn:ES.
    + rewrite <- map_app. specialize (CORE s ltac:(lia)). rewrite CORE. split.
      * intros H. exists ms, e. split; [reflexivity|]. split; [lia | exact H].
      * intros [ms' [e' [H1 [H2 H3]]]]. inversion H1; subst. exact H3.
    + split; [intros [r H]; discriminate|]. intros [ms' [e' [H1 [H2 _]]]]. inversion H1; subst. lia.
  - specialize (CORE e ltac:(lia)).
    assert (tail_gap e e = []) as TG by (unfold tail_gap; rewrite N.ltb_irrefl; reflexivity).
    rewrite TG, app_nil_r in CORE. rewrite CORE. split.
    + intros H. exists ms, e. split; [reflexivity|]. split; [lia|]. cbn zeta. rewrite TG, app_nil_r. exact H.
    + intros [ms' [e' [H1 [H2 H3]]]]. inversion H1; subst. cbn zeta in H3. rewrite TG, app_nil_r in H3. exact H3.
Qed.

(** boolean twin of the spec (what the correspondence check evaluates) *)
Definition realisableb (ptr : N) (fs : list field) (size align : option N) (packed : bool) : bool :=
  match layout 0 fs with
  | None => false
  | Some (ms, e) =>
    let total := match size with Some s => s | None => e end in
    (e <=? total) &&
    let all := ms ++ tail_gap e total in
    if packed then match align with None => true | Some _ => false end
    else let a := eff_align ptr align all in
         is_pow2b a && forallb (fun m => (m_al m <=? a) && (m_off m mod m_al m =? 0)) all && (total mod a =? 0)
  end.

Lemma realisableb_spec ptr fs size align packed :
  realisableb ptr fs size align packed = true <-> realisable ptr fs size align packed.
Proof.
  unfold realisableb, realisable. destruct (layout 0 fs) as [[ms e]|].
  2:{ split; [discriminate|]. intros (ms & e & H & _). discriminate. }
  split.
  - intros H. exists ms, e. split; [reflexivity|]. cbn zeta in *.
    apply andb_prop in H as [H1 H2]. split; [lia|].
    destruct packed.
    + destruct align; [discriminate | reflexivity].
    + apply andb_prop in H2 as [H2 H3]. apply andb_prop in H2 as [H2 H4].
      apply is_pow2b_spec in H2. split; [exact H2|]. split; [|lia].
      apply Forall_forall. intros m Hm. rewrite forallb_forall in H4. specialize (H4 m Hm). lia.
  - intros (ms' & e' & E & H1 & H2). inversion E; subst ms' e'. cbn zeta in *.
    apply andb_true_intro. split; [lia|].
    destruct packed.
    + subst align. reflexivity.
    + destruct H2 as (P & F & M). apply is_pow2b_spec in P. rewrite P. cbn [andb].
      apply andb_true_intro. split; [|lia].
      apply forallb_forall. intros m Hm. rewrite Forall_forall in F. specialize (F m Hm). lia.
Qed.

Definition acceptb (ptr : N) (fs : list field) (size align : option N) (packed : bool) : bool :=
  match accept ptr fs size align packed with Some _ => true | None => false end.

Theorem acceptb_realisableb ptr fs size align packed : wf_fields fs ->
  acceptb ptr fs size align packed = realisableb ptr fs size align packed.
Proof.
  intros W. pose proof (accept_iff_realisable ptr fs size align packed W) as H.
  pose proof (realisableb_spec ptr fs size align packed) as H2.
  unfold acceptb. destruct (accept ptr fs size align packed) as [r|].
  - symmetry. apply H2, H. eauto.
  - destruct (realisableb ptr fs size align packed); [|reflexivity].
    destruct H as [_ H]. destruct (H (proj1 H2 eq_refl)) as [r Hr]. discriminate.
Qed.
