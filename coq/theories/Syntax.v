(** * Syntax: token-level printer and recursive-descent parser for the type, expression and
    attribute sub-languages of .pyxis (mirror of src/parser/mod.rs: [impl Parse for Type],
    [parse_type_ident], [impl Parse for Expr], [Attribute::parse_many]).
    Tokens are what proc_macro2/syn deliver: identifiers, integer literals (with their sign),
    string literals (decoded), punctuation, delimited groups.  Lexing itself (whitespace, comments,
    literal spellings) is below this model; the correspondence check covers it. *)
From Coq Require Import List NArith ZArith Bool String Lia.
From PyxisModel Require Import Base Grammar.
Import ListNotations.
Local Open Scope string_scope.
Local Open Scope list_scope.

Inductive delim : Type := Paren | Bracket | Brace.
Inductive tok : Type :=
| KId (s : string)
| KInt (z : Z)
| KStr (s : string)
| KPunct (s : string)
| KGroup (d : delim) (ts : list tok).

(** ** printer *)
Fixpoint print_type (t : gtype) : list tok :=
  match t with
  | GConstPtr t' => KPunct "*" :: KId "const" :: print_type t'
  | GMutPtr t' => KPunct "*" :: KId "mut" :: print_type t'
  | GArray t' n => [KGroup Bracket (print_type t' ++ [KPunct ";"; KInt (Z.of_N n)])]
  | GIdent s => [KId s]
  | GUnknown n => [KId "unknown"; KPunct "<"; KInt (Z.of_N n); KPunct ">"]
  end.

Definition print_expr (e : gexpr) : list tok :=
  match e with EInt z => [KInt z] | EStr s => [KStr s] | EIdent s => [KId s] end.

Fixpoint sep_by (sep : tok) (l : list (list tok)) : list tok :=
  match l with
  | [] => []
  | [x] => x
  | x :: r => x ++ sep :: sep_by sep r
  end.

Definition print_attr_part (a : gattr) : list tok :=
  match a with
  | AIdent n => [KId n]
  | AFn n args => [KId n; KGroup Paren (sep_by (KPunct ",") (map print_expr args))]
  | AAssign n e => KId n :: KPunct "=" :: print_expr e
  end.
(** one [#[...]] per attribute *)
Definition print_attrs (l : list gattr) : list tok :=
  flat_map (fun a => [KPunct "#"; KGroup Bracket (print_attr_part a)]) l.

(** ** identifiers as syn sees them: [syn::Ident] excludes keywords and [_]; pyxis's own [Ident]
    additionally accepts [_] *)
Definition keywords : list string :=
  ["abstract"; "as"; "async"; "await"; "become"; "box"; "break"; "const"; "continue"; "crate"; "do"; "dyn";
   "else"; "enum"; "extern"; "false"; "final"; "fn"; "for"; "if"; "impl"; "in"; "let"; "loop"; "macro";
   "match"; "mod"; "move"; "mut"; "override"; "priv"; "pub"; "ref"; "return"; "Self"; "self"; "static";
   "struct"; "super"; "trait"; "true"; "try"; "type"; "typeof"; "unsafe"; "unsized"; "use"; "virtual";
   "where"; "while"; "yield"].
Definition syn_ident (s : string) : bool := negb (existsb (String.eqb s) keywords) && negb (String.eqb s "_").
Definition pyxis_ident (s : string) : bool := String.eqb s "_" || syn_ident s.

(** ** parser *)
(** [parse_type_ident]: an identifier, then greedily any run of [<], identifiers and [>] glued on *)
Fixpoint type_ident_tail (ts : list tok) (acc : string) : string * list tok :=
  match ts with
  | KPunct p :: r =>
    if String.eqb p "<" then type_ident_tail r (acc +++ "<")
    else if String.eqb p ">" then type_ident_tail r (acc +++ ">")
    else (acc, ts)
  | KId s :: r => if syn_ident s then type_ident_tail r (acc +++ s) else (acc, ts)
  | _ => (acc, ts)
  end.

(** [LitInt::base10_parse::<usize>] / [::<isize>]: out-of-range literals are parse errors *)
Definition usize_of (z : Z) : option N :=
  if (z <? 0)%Z || (18446744073709551615 <? z)%Z then None else Some (Z.to_N z).
Definition isize_ok (z : Z) : bool := ((-9223372036854775808 <=? z) && (z <=? 9223372036854775807))%Z.

Fixpoint parse_type (fuel : nat) (ts : list tok) : option (gtype * list tok) :=
  match fuel with
  | O => None
  | S f =>
    match ts with
    | KId s :: r =>
      if negb (syn_ident s) then None else
      if String.eqb s "unknown" then
        match r with
        | KPunct a :: KInt z :: KPunct b :: r' =>
          if String.eqb a "<" && String.eqb b ">" then
            match usize_of z with Some n => Some (GUnknown n, r') | None => None end
          else None
        | _ => None
        end
      else let '(name, r') := type_ident_tail r s in Some (GIdent name, r')
    | KPunct p :: KId k :: r =>
      if String.eqb p "*" then
        if String.eqb k "const" then
          match parse_type f r with Some (t, r') => Some (GConstPtr t, r') | None => None end
        else if String.eqb k "mut" then
          match parse_type f r with Some (t, r') => Some (GMutPtr t, r') | None => None end
        else None
      else None
    | KGroup Bracket inner :: r =>
      match parse_type f inner with
      | Some (t, [KPunct p; KInt z]) =>
        if String.eqb p ";" then
          match usize_of z with Some n => Some (GArray t n, r) | None => None end
        else None
      | _ => None
      end
    | _ => None
    end
  end.

Definition parse_expr (ts : list tok) : option (gexpr * list tok) :=
  match ts with
  | KId s :: r => if syn_ident s then Some (EIdent s, r) else None
  | KInt z :: r => if isize_ok z then Some (EInt z, r) else None
  | KStr s :: r => Some (EStr s, r)
  | _ => None
  end.

Definition is_comma (t : tok) : bool := match t with KPunct p => String.eqb p "," | _ => false end.

(** [Punctuated::parse_terminated(Expr::parse, Token![,])]: expressions separated by commas, an
    optional trailing comma, until the group is exhausted *)
Fixpoint parse_exprs (fuel : nat) (ts : list tok) : option (list gexpr) :=
  match fuel with
  | O => None
  | S f =>
    match ts with
    | [] => Some []
    | _ =>
      match parse_expr ts with
      | Some (e, []) => Some [e]
      | Some (e, c :: r) => if is_comma c then option_map (cons e) (parse_exprs f r) else None
      | None => None
      end
    end
  end.

Definition parse_attr_part (ts : list tok) : option (gattr * list tok) :=
  match ts with
  | KId n :: _ => if negb (pyxis_ident n) then None else
  match ts with
  | KId n :: KGroup Paren inner :: r =>
    match parse_exprs (S (List.length inner)) inner with
    | Some args => Some (AFn n args, r)
    | None => None
    end
  | KId n :: KPunct p :: r =>
    if String.eqb p "=" then
      match parse_expr r with Some (e, r') => Some (AAssign n e, r') | None => None end
    else Some (AIdent n, KPunct p :: r)
  | KId n :: r => Some (AIdent n, r)
  | _ => None
  end
  | _ => None
  end.

Fixpoint parse_attr_parts (fuel : nat) (ts : list tok) : option (list gattr) :=
  match fuel with
  | O => None
  | S f =>
    match ts with
    | [] => Some []
    | _ =>
      match parse_attr_part ts with
      | Some (a, []) => Some [a]
      | Some (a, c :: r) => if is_comma c then option_map (cons a) (parse_attr_parts f r) else None
      | None => None
      end
    end
  end.

(** [Attribute::parse_many(input, false)]: while the next token is [#], a bracketed list of parts *)
Fixpoint parse_attrs (fuel : nat) (ts : list tok) : option (list gattr * list tok) :=
  match fuel with
  | O => None
  | S f =>
    match ts with
    | KPunct p :: rest =>
      if String.eqb p "#" then
        match rest with
        | KGroup Bracket inner :: r =>
          match parse_attr_parts (S (List.length inner)) inner with
          | Some parts =>
            match parse_attrs f r with
            | Some (more, r') => Some (parts ++ more, r')
            | None => None
            end
          | None => None
          end
        | _ => None
        end
      else Some ([], ts)
    | _ => Some ([], ts)
    end
  end.

(** ** well-formedness: what the printer's output must look like for the parser to read it back *)
Definition plain_name (s : string) : Prop :=
  s <> "unknown" /\ s <> "const" /\ s <> "mut".
Fixpoint wf_type (t : gtype) : Prop :=
  match t with
  | GArray t' n => wf_type t' /\ (n <= 18446744073709551615)%N
  | GConstPtr t' | GMutPtr t' => wf_type t'
  | GIdent s => syn_ident s = true /\ s <> "unknown"
  | GUnknown n => (n <= 18446744073709551615)%N
  end.
Definition wf_expr (e : gexpr) : Prop :=
  match e with EIdent s => syn_ident s = true | EInt z => isize_ok z = true | EStr _ => True end.
Definition wf_attr (a : gattr) : Prop :=
  match a with
  | AIdent n => pyxis_ident n = true
  | AFn n args => pyxis_ident n = true /\ Forall wf_expr args
  | AAssign n e => pyxis_ident n = true /\ wf_expr e
  end.
(** the token after a type must not be one the generics hack would swallow *)
Definition stops_type_ident (rest : list tok) : Prop :=
  match rest with
  | KPunct p :: _ => p <> "<" /\ p <> ">"
  | KId _ :: _ => False
  | _ => True
  end.
Fixpoint type_depth (t : gtype) : nat :=
  match t with
  | GConstPtr t' | GMutPtr t' | GArray t' _ => S (type_depth t')
  | _ => 1
  end.
