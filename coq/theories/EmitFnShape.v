(** * EmitFnShape: the functions and function-pointer types the back end emits, read back.

    C04, C05, C15 and C16 are proved about the REGISTRY records ([sf_cc], [sf_body], [ev_address],
    ...).  This file proves the step to the EMITTED text, with the readers of EmitFnReaders.v:
    - Part 1: the ABI string of a printed fn-pointer type is the convention's name; every field of
      the struct emitted for a generated [<T>Vftable] item is a fn pointer carrying the convention,
      the parameters and the return type of the function in that slot;
    - Part 2: [build_function_shape]: the wrapper emitted for an associated / virtual function has
      its name, visibility, [unsafe], parameters and return type, and its body is the template
      selected by [sf_body] with the declared address (by value), the convention's name inside the
      transmuted fn-pointer type, and the arguments in order;
    - Part 3: the accessors: struct singleton [get()], enum singleton [get()], [get_<name>()] of an
      extern value, the [vftable()] accessor;
    - Part 4 (first half): all the items [build_type] emits for a type, in order: struct, size check,
      singleton impl, the inherent impl with accessor + wrappers, conversions. *)
From Coq Require Import List String Ascii NArith ZArith Bool Lia.
From PyxisModel Require Import Base Sexp Grammar SemTypes Registry Sem SemLemmas FunctionLemmas Emit
     EmitLemmas EmitReaders EmitShape EmitFnReaders.
Import ListNotations.
Local Open Scope string_scope.
Local Open Scope list_scope.

(** * Part 1: function-pointer types and vftable structs *)

(** the three readers on a printed fn-pointer type (restated from EmitFnReaders.v) *)
Theorem fnptr_abi_correct c args ret :
  fnptr_abi (type_tokens (TFunction c args ret)) = Some (cc_to_string c) /\
  fnptr_cc (type_tokens (TFunction c args ret)) = Some c.
Proof. split; [apply fnptr_abi_type_tokens | apply fnptr_cc_type_tokens]. Qed.

(** how a parameter of the function appears in its slot's fn-pointer type: the receiver is [this],
    a raw pointer to the owner type *)
Definition slot_arg (owner : path) (a : sarg) : string * list sexp :=
  match a with
  | SConstSelf => ("this", type_tokens (TConstPtr (TRaw owner)))
  | SMutSelf => ("this", type_tokens (TMutPtr (TRaw owner)))
  | SField n t => (n, type_tokens t)
  end.

(** the emitted field [ef] is the slot of the function [f] *)
Record slot_of_function (owner : path) (f : sfunction) (ef : efield) : Prop := {
  sl_name : ef_name ef = sf_name f;
  sl_vis : ef_vis ef = sf_vis f;
  sl_docs : ef_docs ef = doc_lines (sf_doc f);
  sl_abi : fnptr_abi (ef_ty ef) = Some (cc_to_string (sf_cc f));
  sl_cc : fnptr_cc (ef_ty ef) = Some (sf_cc f);
  sl_type : read_fnptr (ef_ty ef)
            = Some {| fp_abi := cc_to_string (sf_cc f);
                      fp_args := map (slot_arg owner) (sf_args f);
                      fp_ret := option_map type_tokens (sf_ret f) |} }.

Lemma region_field_type_ok r f : region_field r = Ok f -> stype_ok (r_type r) = true.
Proof.
  unfold region_field. destruct (r_name r); [|discriminate]. destruct (negb (ident_ok _)); [discriminate|].
  destruct (stype_ok (r_type r)); [reflexivity | discriminate].
Qed.

Lemma build_type_fields_ok R fuel p size alignment v td items :
  build_type R fuel p size alignment v td = Ok items ->
  Forall (fun r => stype_ok (r_type r) = true) (td_regions td).
Proof.
  unfold build_type. intros H. destruct (path_last p); [|discriminate]. destruct (negb _); [discriminate|].
  inv_bind H. clear H. apply mapM_ok in Ha. induction Ha as [|r f rs fs Hrf _ IH]; constructor; [|exact IH].
  eapply region_field_type_ok; eauto.
Qed.

Lemma slot_of_function_region owner f ef :
  stype_ok (r_type (function_to_region owner f)) = true ->
  field_of_region (function_to_region owner f) ef -> slot_of_function owner f ef.
Proof.
  intros Hok (Hn & Ht & Hv & Hd). cbn [function_to_region r_name r_type r_vis r_doc] in *.
  inversion Hn as [Hn']. constructor; auto; rewrite Ht.
  - apply fnptr_abi_type_tokens.
  - apply fnptr_cc_type_tokens.
  - rewrite (read_fnptr_type_tokens _ _ _ Hok). rewrite map_map. f_equal. f_equal.
    apply map_ext. intros [| |n t]; reflexivity.
Qed.

(** the struct emitted for a vftable built from the slot list [fs]: one field per slot, in order,
    each a fn pointer with the slot function's convention *)
Theorem vftable_struct_shape R fuel owner size alignment v td fs vp items :
  td_regions td = map (function_to_region owner) fs ->
  build_type R fuel vp size alignment v td = Ok items ->
  exists name s rest efs,
    path_last vp = Some name /\ items = s :: rest /\
    struct_shape name alignment v td s /\
    struct_fields s = Some efs /\ Forall2 (slot_of_function owner) fs efs.
Proof.
  intros Hregs H. pose proof (build_type_fields_ok _ _ _ _ _ _ _ _ H) as Hok.
  destruct (build_type_struct_shape _ _ _ _ _ _ _ _ H) as (name & s & checks & rest & Hname & -> & Hsh & _ & _).
  destruct (ss_fields _ _ _ _ _ Hsh) as (efs & Hfields & Hall).
  exists name, s, (checks ++ rest), efs. repeat (split; [assumption || reflexivity|]).
  rewrite Hregs in Hall, Hok. clear -Hall Hok. revert efs Hall.
  induction fs as [|f fs IH]; intros efs Hall; inversion Hall as [|? ef ? efs' Hf Hrest]; subst; [constructor|].
  inversion Hok as [|? ? Hokf Hokr]; subst.
  constructor; [now apply slot_of_function_region | now apply IH].
Qed.

(** the same for the registry item [vftable_item] registers under [<T>Vftable] *)
Theorem vftable_item_struct_shape R R' fuel owner v fs vit items :
  vftable_item R owner v fs = Some vit -> build_item R' fuel vit = Ok items ->
  exists parent tname vp s rest efs,
    path_parent owner = Some parent /\ path_last owner = Some tname /\
    vftable_path owner = Some vp /\ vp = path_join parent (tname +++ "Vftable") /\
    it_path vit = vp /\ items = s :: rest /\
    item_kind s = Some "struct" /\ struct_name s = Some (tname +++ "Vftable") /\ struct_vis s = Some v /\
    struct_repr s = Some (ReprAlign (reg_ptr R)) /\
    struct_fields s = Some efs /\ Forall2 (slot_of_function owner) fs efs.
Proof.
  unfold vftable_item, vftable_path. intros Hvi Hb.
  destruct (path_last owner) as [tname|] eqn:El; [|discriminate].
  destruct (path_parent owner) as [parent|] eqn:Ep; [|discriminate].
  inversion Hvi; subst vit; clear Hvi.
  unfold build_item in Hb. cbn [item_resolved it_state it_cat rs_inner it_path rs_size rs_align it_vis] in Hb.
  destruct (fun E => vftable_struct_shape _ _ owner _ _ _ _ fs _ _ E Hb) as (name & s & rest & efs & Hname & -> & Hsh & Hf & Hall); [reflexivity|].
  assert (name = tname +++ "Vftable") as ->.
  { unfold path_last, path_join in Hname. destruct (parent ++ [tname +++ "Vftable"]) eqn:E; [destruct parent; discriminate|].
    rewrite <- E, last_last in Hname. now inversion Hname. }
  exists parent, tname, (path_join parent (tname +++ "Vftable")), s, rest, efs.
  destruct Hsh as [Hk Hn Hv _ Hr _ _]. cbn [td_packed] in Hr.
  repeat (split; [assumption || reflexivity|]). exact Hall.
Qed.

(** * Part 2: wrappers *)

(** what the wrapper of [f] passes on: everything for an address or vftable call; the receiver is
    implicit ([self.<base>.<fn>(..)]) when it forwards to a base field *)
Definition passed_args (f : sfunction) : list sarg :=
  match sf_body f with
  | BField _ _ => filter (fun a => negb (sarg_is_self a)) (sf_args f)
  | _ => sf_args f
  end.

(** the fn-pointer type an address wrapper transmutes its address to *)
Definition wrapper_fnptr (f : sfunction) : efnptr :=
  {| fp_abi := cc_to_string (sf_cc f);
     fp_args := map lam_of_arg (sf_args f);
     fp_ret := option_map type_tokens (sf_ret f) |}.

(** the body of the wrapper of [f], as the reader sees it *)
Definition body_of (f : sfunction) : ebody :=
  match sf_body f with
  | BAddress a => EBAddress (wrapper_fnptr f) a (map callarg_of_arg (passed_args f))
  | BVftable slot => EBVftable slot (map callarg_of_arg (passed_args f))
  | BField base g => EBField base g (map callarg_of_arg (passed_args f))
  end.

(** the S-expression [e] is the wrapper emitted for the function record [f] *)
Record wrapper_shape (f : sfunction) (e : sexp) : Prop := {
  ws_kind : item_kind e = Some "fn";
  ws_name : fn_name e = Some (sf_name f);
  ws_vis : fn_vis e = Some (sf_vis f);
  ws_unsafe : fn_unsafe e = Some true;
  ws_docs : fn_docs e = Some (doc_lines (sf_doc f));
  ws_params : fn_params e = Some (map param_of_arg (sf_args f));
  ws_ret : fn_ret e = Some (match sf_ret f with Some t => type_tokens t | None => [] end);
  ws_body : fn_wrapper_body e = Some (body_of f) }.

Lemma call_args_passed f : call_args f = passed_args f.
Proof.
  unfold call_args, passed_args. destruct (sf_body f); cbn [fbody_is_field negb orb]; try reflexivity;
    (induction (sf_args f) as [|x l IH]; cbn [filter]; [reflexivity | now rewrite IH]).
Qed.

Lemma passed_args_names f : forallb arg_name_ok (sf_args f) = true -> forallb arg_name_ok (passed_args f) = true.
Proof.
  intros H. unfold passed_args. destruct (sf_body f); try exact H.
  apply forallb_forall. intros a Ha. apply filter_In in Ha as [Ha _]. rewrite forallb_forall in H. auto.
Qed.

Lemma read_body_function_body_tokens f :
  forallb arg_name_ok (sf_args f) = true -> forallb arg_type_ok (sf_args f) = true ->
  read_body (function_body_tokens f) = Some (body_of f).
Proof.
  intros Hn Ht. pose proof (read_call_args_printed _ (passed_args_names f Hn)) as Hc.
  unfold function_body_tokens, body_of. rewrite call_args_passed. destruct (sf_body f) as [a|base g|slot].
  - unfold read_body.
    replace (map lambda_arg (sf_args f))
      with (map (fun g : string * list sexp => tk (fst g) :: tk ":" :: snd g) (map lam_of_arg (sf_args f)))
      by (rewrite map_map; apply map_ext; intros x; symmetry; apply lambda_arg_lam).
    match goal with |- match ?X with _ => _ end = _ =>
      assert (X = Some (EBAddress (wrapper_fnptr f) a (map callarg_of_arg (passed_args f)))) as ->; [|reflexivity]
    end.
    apply (read_body_address_printed (cc_to_string (sf_cc f)) (map lam_of_arg (sf_args f)) (sf_ret f) a);
      [|exact Hc].
    apply Forall_forall. intros x Hx. apply in_map_iff in Hx as (y & <- & Hy).
    rewrite forallb_forall in Hn, Ht. apply lam_of_arg_free; auto.
  - now apply read_body_field_printed.
  - now apply read_body_vftable_printed.
Qed.

Theorem build_function_shape f e : build_function f = Ok e -> wrapper_shape f e.
Proof.
  unfold build_function. intros H.
  destruct (names_ok f) eqn:En; cbn [negb] in H; [|discriminate].
  destruct (fn_types_ok f) eqn:Et; cbn [negb] in H; [|discriminate].
  inversion H; subst e; clear H.
  unfold names_ok in En. apply andb_true_iff in En as [En _]. apply andb_true_iff in En as [_ En].
  unfold fn_types_ok in Et. apply andb_true_iff in Et as [Et _].
  pose proof (read_fn_fn_sexp (doc_attrs (sf_doc f)) (sf_vis f) true (sf_name f) _
                (match sf_ret f with Some t => type_tokens t | None => [] end)
                (function_body_tokens f) _ (read_params_printed (sf_args f))) as Hr.
  constructor; unfold fn_name, fn_vis, fn_unsafe, fn_docs, fn_params, fn_ret, fn_wrapper_body; rewrite ?Hr;
    cbn [option_map efn_name efn_vis efn_unsafe efn_docs efn_params efn_ret efn_body]; try reflexivity.
  - now rewrite docs_read.
  - now apply read_body_function_body_tokens.
Qed.

(** ** the three templates, spelled out *)

(** address-bound wrapper (C05, C16): one transmute of the literal [a] -- the [BAddress] value -- to
    [unsafe extern "<cc>" fn(this: *.. Self, name: type, ..) -> ret], called with the receiver cast
    to a raw pointer and the named parameters, in the order of [sf_args] *)
Corollary build_function_address f e a :
  build_function f = Ok e -> sf_body f = BAddress a ->
  exists ty args,
    fn_wrapper_body e = Some (EBAddress ty a args) /\
    fp_abi ty = cc_to_string (sf_cc f) /\ cc_of_string (fp_abi ty) = Some (sf_cc f) /\
    fp_args ty = map lam_of_arg (sf_args f) /\
    fp_ret ty = option_map type_tokens (sf_ret f) /\
    args = map callarg_of_arg (sf_args f).
Proof.
  intros H Hb. pose proof (ws_body _ _ (build_function_shape _ _ H)) as Hw.
  unfold body_of, passed_args in Hw. rewrite Hb in Hw.
  exists (wrapper_fnptr f), (map callarg_of_arg (sf_args f)). split; [exact Hw|].
  cbn [wrapper_fnptr fp_abi fp_args fp_ret]. repeat split. apply cc_of_string_to_string.
Qed.

(** virtual wrapper (C04): loads the entry [slot] of [self.vftable()] and calls it with all the
    arguments; its ABI is that of the slot's field in the vftable struct (Part 1) *)
Corollary build_function_vftable f e slot :
  build_function f = Ok e -> sf_body f = BVftable slot ->
  fn_wrapper_body e = Some (EBVftable slot (map callarg_of_arg (sf_args f))).
Proof.
  intros H Hb. pose proof (ws_body _ _ (build_function_shape _ _ H)) as Hw.
  unfold body_of, passed_args in Hw. now rewrite Hb in Hw.
Qed.

(** forwarding wrapper (inherited functions): calls method [g] of the base field with the named
    parameters; the receiver is the base sub-object *)
Corollary build_function_field f e base g :
  build_function f = Ok e -> sf_body f = BField base g ->
  fn_wrapper_body e
  = Some (EBField base g (map callarg_of_arg (filter (fun a => negb (sarg_is_self a)) (sf_args f)))).
Proof.
  intros H Hb. pose proof (ws_body _ _ (build_function_shape _ _ H)) as Hw.
  unfold body_of, passed_args in Hw. now rewrite Hb in Hw.
Qed.

(** the receiver first: a function whose first parameter is the receiver and whose others are
    named passes the cast receiver, then the names in order *)
Lemma callargs_receiver_first (named : list (string * stype)) recv :
  sarg_is_self recv = true ->
  map callarg_of_arg (recv :: map (fun x => SField (fst x) (snd x)) named)
  = callarg_of_arg recv :: map (fun x => CAName (fst x)) named.
Proof. intros _. cbn [map]. f_equal. rewrite map_map. reflexivity. Qed.

(** wrapper and slot agree (C16): for a virtual function, the convention printed in the slot of the
    vftable struct is the function's, and so is the one an address wrapper would transmute to *)
Corollary slot_and_wrapper_abi owner f ef :
  slot_of_function owner f ef -> fnptr_abi (ef_ty ef) = Some (fp_abi (wrapper_fnptr f)).
Proof. intros H. exact (sl_abi _ _ _ H). Qed.

(** * Part 3: accessors *)
Lemma head_eq {A} (x z : A) y w : [x] ++ y = z :: w -> x = z /\ y = w.
Proof. intros H. inversion H. auto. Qed.

Definition fn_singleton_addr (e : sexp) : option N :=
  match read_fn e with Some w => read_singleton_body (efn_body w) | None => None end.
Definition fn_enum_singleton_addr (e : sexp) : option N :=
  match read_fn e with Some w => read_enum_singleton_body (efn_body w) | None => None end.
Definition fn_extern_target (e : sexp) : option (N * list sexp) :=
  match read_fn e with Some w => read_extern_body (efn_body w) | None => None end.
Definition fn_ret_static_mut (e : sexp) : option (list sexp) :=
  match read_fn e with Some w => read_static_mut_ref (efn_ret w) | None => None end.

(** [impl Name { <vis> unsafe fn get() -> Option<&'static mut Self>
                  { unsafe { let ptr: *mut Self = *(<addr>usize as *mut *mut Self); ptr.as_mut() } } }] *)
Record singleton_shape (name : string) (v : vis) (addr : N) (e : sexp) : Prop := {
  sg_kind : item_kind e = Some "impl";
  sg_get : exists g, inherent_impl e = Some (name, [g]) /\
    item_kind g = Some "fn" /\ fn_name g = Some "get" /\ fn_vis g = Some v /\ fn_unsafe g = Some true /\
    fn_params g = Some [] /\
    fn_ret g = Some (tks ["Option"; "<"; "&"; "'"; "static"; "mut"; "Self"; ">"]) /\
    fn_singleton_addr g = Some addr }.

Theorem singleton_struct_impl_shape name v addr : singleton_shape name v addr (singleton_struct_impl name v addr).
Proof.
  unfold singleton_struct_impl. constructor; [reflexivity|].
  eexists. split; [apply inherent_impl_printed|].
  unfold fn_name, fn_vis, fn_unsafe, fn_params, fn_ret, fn_singleton_addr.
  rewrite (read_fn_fn_sexp [] v true "get" [] _ _ [] eq_refl).
  cbn [option_map efn_name efn_vis efn_unsafe efn_params efn_ret efn_body].
  repeat (split; [reflexivity|]). apply read_singleton_body_printed.
Qed.

(** [<vis> unsafe fn get_<name>() -> &'static mut <T> { unsafe { &mut *(<addr> as *mut <T>) } }] *)
Record extern_shape (ev : sextern) (t : stype) (e : sexp) : Prop := {
  xs_kind : item_kind e = Some "fn";
  xs_name : fn_name e = Some ("get_" +++ ev_name ev);
  xs_vis : fn_vis e = Some (ev_vis ev);
  xs_unsafe : fn_unsafe e = Some true;
  xs_params : fn_params e = Some [];
  xs_ret : fn_ret_static_mut e = Some (type_tokens t);
  xs_target : fn_extern_target e = Some (ev_address ev, type_tokens t) }.

Theorem build_extern_value_shape ev e :
  build_extern_value ev = Ok e -> exists t, ev_type ev = Some t /\ extern_shape ev t e.
Proof.
  unfold build_extern_value. intros H. destruct (ev_type ev) as [t|]; [|discriminate].
  destruct (negb (ident_ok _)); [discriminate|]. destruct (negb (stype_ok t)); [discriminate|].
  inversion H; subst e; clear H. exists t. split; [reflexivity|].
  constructor; unfold fn_name, fn_vis, fn_unsafe, fn_params, fn_ret_static_mut, fn_extern_target;
    rewrite ?(read_fn_fn_sexp [] (ev_vis ev) true ("get_" +++ ev_name ev) [] _ _ [] eq_refl);
    cbn [option_map efn_name efn_vis efn_unsafe efn_params efn_ret efn_body]; try reflexivity.
  apply read_extern_body_printed.
Qed.

(** the enum singleton: [impl Name { <vis> unsafe fn get() -> Self { unsafe { (<addr> as *const Self).read() } } }] *)
Record enum_singleton_shape (name : string) (v : vis) (addr : N) (e : sexp) : Prop := {
  esg_kind : item_kind e = Some "impl";
  esg_get : exists g, inherent_impl e = Some (name, [g]) /\
    item_kind g = Some "fn" /\ fn_name g = Some "get" /\ fn_vis g = Some v /\ fn_unsafe g = Some true /\
    fn_params g = Some [] /\ fn_ret g = Some [Atom "Self"] /\
    fn_enum_singleton_addr g = Some addr }.

Theorem build_enum_singleton_shape p size v ed items :
  build_enum p size v ed = Ok items ->
  exists name e checks sing,
    path_last p = Some name /\ items = e :: checks ++ sing /\
    enum_shape name v ed e /\ size_check_shape name size checks /\
    match ed_singleton ed with
    | Some a => exists im, sing = [im] /\ enum_singleton_shape name v a im
    | None => sing = []
    end.
Proof.
  intros H. destruct (build_enum_shape _ _ _ _ _ H) as (name & e & checks & rest & Hname & Hitems & Hsh & Hck & _).
  unfold build_enum in H. rewrite Hname in H. destruct (negb (ident_ok name)); [discriminate|].
  destruct (negb (stype_ok _)); [discriminate|]. destruct (negb (ident_ok _)); [discriminate|].
  inv_bind H. inversion H as [Hi]; clear H. rewrite <- Hi in Hitems.
  apply head_eq in Hitems as [He _]. subst e.
  eexists name, _, (size_check name size), _. split; [exact Hname|]. split; [reflexivity|].
  split; [exact Hsh|]. split; [apply size_check_shape_holds|].
  destruct (ed_singleton ed) as [a0|]; [|reflexivity].
  eexists. split; [reflexivity|]. constructor; [reflexivity|].
  eexists. split; [apply inherent_impl_printed|].
  unfold fn_name, fn_vis, fn_unsafe, fn_params, fn_ret, fn_enum_singleton_addr.
  rewrite (read_fn_fn_sexp [] v true "get" [] _ _ [] eq_refl).
  cbn [option_map efn_name efn_vis efn_unsafe efn_params efn_ret efn_body].
  repeat (split; [reflexivity|]). apply read_enum_singleton_body_printed.
Qed.

(** the vftable accessor: [pub fn vftable(&self) -> <ty> { self.vftable as <ty> }] for a type that
    owns its vftable pointer, [{ self.<base>.vftable() as <ty> }] for one that inherits it *)
Definition read_accessor_body (l : list sexp) : option (option string * list sexp) :=
  match l with
  | Atom s :: Atom d :: Atom x :: Atom y :: rest =>
    if String.eqb s "self" && String.eqb d "." then
      if String.eqb x "vftable" && String.eqb y "as" then Some (None, rest)
      else match rest with
           | Atom vf :: call :: Atom a :: ty =>
             if String.eqb y "." && String.eqb vf "vftable" && String.eqb a "as" then
               match tagged "paren" call with Some [] => Some (Some x, ty) | _ => None end
             else None
           | _ => None
           end
    else None
  | _ => None
  end.
Definition fn_accessor (e : sexp) : option (option string * list sexp) :=
  match read_fn e with Some w => read_accessor_body (efn_body w) | None => None end.

Record accessor_shape (vt : tvftable) (e : sexp) : Prop := {
  ac_kind : item_kind e = Some "fn";
  ac_name : fn_name e = Some "vftable";
  ac_vis : fn_vis e = Some Public;
  ac_unsafe : fn_unsafe e = Some false;
  ac_params : fn_params e = Some [EPSelf];
  ac_ret : fn_ret e = Some (type_tokens (vt_type vt));
  ac_body : fn_accessor e = Some (vt_base_field vt, type_tokens (vt_type vt)) }.

Theorem vftable_accessor_shape vt e : vftable_accessor vt = Ok e -> accessor_shape vt e.
Proof.
  unfold vftable_accessor. intros H. destruct (negb (stype_ok _)); [discriminate|].
  destruct (vt_base_field vt) as [b|] eqn:Eb.
  - destruct (negb (ident_ok b)) eqn:Ei; [discriminate|]. inversion H; subst e; clear H.
    constructor; unfold fn_name, fn_vis, fn_unsafe, fn_params, fn_ret, fn_accessor;
      rewrite ?(read_fn_fn_sexp [] Public false "vftable" [Atom "self"] _ _ [EPSelf] eq_refl);
      cbn [option_map efn_name efn_vis efn_unsafe efn_params efn_ret efn_body]; try reflexivity.
    rewrite Eb. unfold read_accessor_body. cbn [app tk String.eqb Ascii.eqb Bool.eqb andb].
    (* [b] might be "vftable": then the fourth token "." is not "as" *)
    destruct (String.eqb b "vftable"); cbn [andb tagged paren String.eqb Ascii.eqb Bool.eqb]; reflexivity.
  - inversion H; subst e; clear H.
    constructor; unfold fn_name, fn_vis, fn_unsafe, fn_params, fn_ret, fn_accessor;
      rewrite ?(read_fn_fn_sexp [] Public false "vftable" [Atom "self"] _ _ [EPSelf] eq_refl);
      cbn [option_map efn_name efn_vis efn_unsafe efn_params efn_ret efn_body]; rewrite ?Eb; reflexivity.
Qed.

(** * Part 4 (first half): everything [build_type] emits for a type, in order *)
Definition emitted_fns (l : list sfunction) : list sfunction := filter (fun f => negb (sf_is_internal f)) l.

Lemma wrappers_shape : forall l out, mapM build_function l = Ok out -> Forall2 wrapper_shape l out.
Proof.
  intros l out H. apply mapM_ok in H. induction H as [|f e l out Hf _ IH]; constructor; [|exact IH].
  now apply build_function_shape.
Qed.

Theorem build_type_items_shape R fuel p size alignment v td items :
  build_type R fuel p size alignment v td = Ok items ->
  exists name s checks sing im conv acc assoc vfns,
    path_last p = Some name /\
    items = s :: checks ++ sing ++ im :: conv /\
    struct_shape name alignment v td s /\
    size_check_shape name size checks /\
    match td_singleton td with
    | Some a => exists g, sing = [g] /\ singleton_shape name v a g
    | None => sing = []
    end /\
    item_kind im = Some "impl" /\ inherent_impl im = Some (name, acc ++ assoc ++ vfns) /\
    match td_vftable td with
    | Some vt => exists a, acc = [a] /\ accessor_shape vt a
    | None => acc = []
    end /\
    Forall2 wrapper_shape (emitted_fns (td_assoc td)) assoc /\
    Forall2 wrapper_shape (match td_vftable td with Some vt => emitted_fns (vt_functions vt) | None => [] end) vfns /\
    Forall is_impl_or_const conv.
Proof.
  intros H. destruct (build_type_struct_shape _ _ _ _ _ _ _ _ H) as (name & s & checks0 & rest0 & Hname & Hitems & Hsh & _ & _).
  unfold build_type in H. rewrite Hname in H. destruct (negb (ident_ok name)); [discriminate|].
  inv_bind H. rename a into fields. destruct (negb (ident_ok _)); [discriminate|].
  inv_bind H. rename a into acc, Ha0 into Hacc. inv_bind H. rename a into assoc, Ha0 into Hassoc.
  inv_bind H. rename a into vfns, Ha0 into Hvfns. inv_bind H. rename a into conv, Ha0 into Hconv.
  inversion H as [Hi]; clear H. rewrite <- Hi in Hitems. apply head_eq in Hitems as [Hs _]. subst s.
  eexists name, _, (size_check name size),
          (match td_singleton td with Some a => [singleton_struct_impl name v a] | None => [] end),
          (impl_sexp (Atom "notrait") name (acc ++ assoc ++ vfns)), conv, acc, assoc, vfns.
  split; [exact Hname|]. split; [cbn [app]; reflexivity|]. split; [exact Hsh|].
  split; [apply size_check_shape_holds|].
  split; [destruct (td_singleton td) as [a|]; [|reflexivity]; eexists; split; [reflexivity|]; apply singleton_struct_impl_shape|].
  split; [reflexivity|]. split; [apply inherent_impl_printed|].
  split.
  { destruct (td_vftable td) as [vt|]; [|now inversion Hacc]. inv_bind Hacc. inversion Hacc; subst acc.
    eexists. split; [reflexivity|]. now apply vftable_accessor_shape. }
  split; [now apply wrappers_shape|]. split.
  { destruct (td_vftable td) as [vt|]; [now apply wrappers_shape | inversion Hvfns; constructor]. }
  eapply conversions_kind; eauto.
Qed.

(** the wrapper of a given (non-internal) associated function is one of the functions of the
    type's inherent impl *)
Lemma Forall2_in_l {A B} (P : A -> B -> Prop) l1 l2 a :
  Forall2 P l1 l2 -> In a l1 -> exists b, In b l2 /\ P a b.
Proof.
  induction 1 as [|x y l1 l2 Hxy _ IH]; intros Hin; [destruct Hin|].
  destruct Hin as [->|Hin]; [exists y; split; [now left | exact Hxy]|].
  destruct (IH Hin) as (b & Hb & Hp). exists b. split; [now right | exact Hp].
Qed.

Corollary build_type_wrapper R fuel p size alignment v td items sf :
  build_type R fuel p size alignment v td = Ok items ->
  In sf (td_assoc td) -> sf_is_internal sf = false ->
  exists name im fns e,
    path_last p = Some name /\ In im items /\ inherent_impl im = Some (name, fns) /\
    In e fns /\ wrapper_shape sf e.
Proof.
  intros H Hin Hint.
  destruct (build_type_items_shape _ _ _ _ _ _ _ _ H)
    as (name & s & checks & sing & im & conv & acc & assoc & vfns & Hname & -> & _ & _ & _ & _ & Him & _ & Hassoc & _).
  assert (In sf (emitted_fns (td_assoc td))) as Hin' by (apply filter_In; split; [exact Hin | now rewrite Hint]).
  destruct (Forall2_in_l _ _ _ _ Hassoc Hin') as (e & He & Hw).
  exists name, im, (acc ++ assoc ++ vfns), e. split; [exact Hname|]. split.
  { right. apply in_or_app. right. apply in_or_app. right. now left. }
  split; [exact Him|]. split; [|exact Hw]. apply in_or_app. right. apply in_or_app. now left.
Qed.

Print Assumptions fnptr_abi_correct.
Print Assumptions vftable_item_struct_shape.
Print Assumptions build_function_shape.
Print Assumptions singleton_struct_impl_shape.
Print Assumptions build_extern_value_shape.
Print Assumptions build_enum_singleton_shape.
Print Assumptions build_type_items_shape.
