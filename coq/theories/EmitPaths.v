(** * EmitPaths: the paths a printed type mentions, read back from its tokens (C13, first clause).

    READER.  [type_paths : list sexp -> list path] scans the token list of a printed type (the
    [ty] member of an emitted field, the [ret] member of an emitted function, ...) and returns, in
    order of occurrence, every path it mentions that is not a global ([::std::...]) path:
    - [crate :: a :: b :: T] is returned as [["a"; "b"; "T"]] (the [crate] prefix is how the back
      end writes a registry path of two or more segments);
    - a bare name [T] (one segment, no prefix) is returned as [["T"]] -- Rust primitives such as
      [u32] included, they are classified afterwards ([PathsWhole.path_ok]);
    - a global path [:: std :: ffi :: c_void] (how [void] is written) is NOT returned;
    - the tokens of one segment that carries the "generics" hack ([Shared < Foo >]) are glued back
      into the segment [Shared<Foo>] (the registry key of such an extern type);
    - pointers [* const T] / [* mut T], arrays [(bracket T ; n)] and function pointers
      [unsafe extern "abi" fn (paren n1 : T1 , n2 : T2) - > R] are descended into; parameter NAMES
      are not paths.
    The reader is a deterministic automaton ([pmode], [step_atom], [step_list]) written with
    constructors and [String.eqb] only; it does not mention the printers of Emit.v.

    LEMMA.  [type_paths_type_tokens]: for every type the back end accepts ([stype_ok t = true],
    which [region_field], [build_function], [build_enum], [build_extern_value], [vftable_accessor]
    all check before printing),
    [type_paths (type_tokens t) = printed_paths t], where [printed_paths t] are the paths of
    [ScopeLemmas.stype_paths t] other than [["void"]]. *)
From Coq Require Import List String Ascii NArith Bool Lia.
From PyxisModel Require Import Base Sexp Grammar SemTypes Registry Sem SemLemmas ScopeLemmas Emit
     EmitLemmas EmitReaders EmitFnReaders ConvReaders.
Import ListNotations.
Local Open Scope string_scope.
Local Open Scope list_scope.

(** ** the reader *)
Inductive pmode : Type :=
| MType                                   (* a type starts here *)
| MPtr                                    (* after [*]: [const] or [mut] *)
| MFnExtern | MFnAbi | MFnKw | MFnParen   (* after [unsafe]: [extern], the ABI literal, [fn], the parameter list *)
| MAfterFn                                (* after the parameter list: [- >] or the end of the type *)
| MArrow                                  (* after [-]: [>] *)
| MAfter                                  (* a type is complete: [,] (next parameter), [;] (array length) or the end *)
| MArgs                                   (* a parameter starts here: its name *)
| MColon                                  (* after the parameter name: [:] *)
| MSeg (user : bool) (pre : list string) (cur : string)   (* inside a path: finished segments, the segment being read *)
| MSep0 (user : bool) (pre : list string)  (* expecting the first [:] of a [::] *)
| MSep (user : bool) (pre : list string)   (* expecting the second [:] of a [::] *)
| MSegStart (user : bool) (pre : list string)  (* a segment starts here *)
| MIgnore                                 (* not a type position (or not the printed grammar): read nothing more *)
| MSkip1 (next : pmode).                  (* skip the tag of a token group *)

Definition list_tag (x : sexp) : string := match x with SList (Atom k :: _) => k | _ => "" end.
Definition next_is (s : string) (r : list sexp) : bool :=
  match r with Atom b :: _ => String.eqb b s | _ => false end.
Definition emit (user : bool) (p : path) : list path := if user then [p] else [].
Definition after (a : string) : pmode := if String.eqb a "," then MArgs else MIgnore.

(** the paths finished by the end of the token list *)
Definition finish (m : pmode) : list path :=
  match m with MSeg u pre cur => emit u (pre ++ [cur]) | _ => [] end.

(** one atom [a] (followed by [r], looked at but not consumed): the paths finished, the next mode *)
Definition step_atom (m : pmode) (a : string) (r : list sexp) : list path * pmode :=
  match m with
  | MType =>
    if String.eqb a "*" then ([], MPtr)
    else if String.eqb a ":" then ([], MSep false [])
    else if String.eqb a "unsafe" && next_is "extern" r then ([], MFnExtern)
    else if String.eqb a "crate" && next_is ":" r then ([], MSep0 true [])
    else ([], MSeg true [] a)
  | MPtr => if String.eqb a "const" || String.eqb a "mut" then ([], MType) else ([], MIgnore)
  | MFnExtern => if String.eqb a "extern" then ([], MFnAbi) else ([], MIgnore)
  | MFnAbi => ([], MIgnore)
  | MFnKw => if String.eqb a "fn" then ([], MFnParen) else ([], MIgnore)
  | MFnParen => ([], MIgnore)
  | MAfterFn => if String.eqb a "-" then ([], MArrow) else ([], after a)
  | MArrow => if String.eqb a ">" then ([], MType) else ([], MIgnore)
  | MAfter => ([], after a)
  | MArgs => ([], MColon)
  | MColon => if String.eqb a ":" then ([], MType) else ([], MIgnore)
  | MSeg u pre cur =>
    if String.eqb a ":" then ([], MSep u (pre ++ [cur]))
    else if String.eqb a "," || String.eqb a ";" then (emit u (pre ++ [cur]), after a)
    else ([], MSeg u pre (cur +++ a))
  | MSep0 u pre => if String.eqb a ":" then ([], MSep u pre) else ([], MIgnore)
  | MSep u pre => if String.eqb a ":" then ([], MSegStart u pre) else ([], MIgnore)
  | MSegStart u pre => ([], MSeg u pre a)
  | MIgnore => ([], MIgnore)
  | MSkip1 next => ([], next)
  end.

(** one token group [x]: the paths finished, the mode its members are read in (if at all), the
    next mode *)
Definition step_list (m : pmode) (x : sexp) : list path * option pmode * pmode :=
  match m with
  | MType => if String.eqb (list_tag x) "bracket" then ([], Some (MSkip1 MType), MAfter) else ([], None, MIgnore)
  | MFnAbi => ([], None, MFnKw)
  | MFnParen => if String.eqb (list_tag x) "paren" then ([], Some (MSkip1 MArgs), MAfterFn) else ([], None, MIgnore)
  | MSkip1 next => ([], None, next)
  | _ => (finish m, None, MIgnore)
  end.

Fixpoint sx_paths (m : pmode) (s : sexp) {struct s} : list path :=
  match s with
  | SList l =>
    (fix go (m : pmode) (l : list sexp) {struct l} : list path :=
       match l with
       | [] => finish m
       | x :: r =>
         match x with
         | Atom a => let '(out, m') := step_atom m a r in out ++ go m' r
         | Str _ => finish m ++ go MIgnore r
         | SList _ =>
           let '(out, inner, m') := step_list m x in
           out ++ match inner with Some mi => sx_paths mi x | None => [] end ++ go m' r
         end
       end) m l
  | _ => []
  end.

(** the token list [l], read in mode [m] *)
Definition scan (m : pmode) (l : list sexp) : list path := sx_paths m (SList l).

(** THE READER: the non-global paths mentioned by the tokens of a printed type *)
Definition type_paths (l : list sexp) : list path := scan MType l.

(** ** its equations *)
Lemma scan_nil m : scan m [] = finish m.
Proof. reflexivity. Qed.
Lemma scan_atom m a r :
  scan m (Atom a :: r) = fst (step_atom m a r) ++ scan (snd (step_atom m a r)) r.
Proof. unfold scan. cbn [sx_paths]. destruct (step_atom m a r) as [out m']. reflexivity. Qed.
Lemma scan_str m s r : scan m (Str s :: r) = finish m ++ scan MIgnore r.
Proof. reflexivity. Qed.
Lemma scan_list m l r :
  scan m (SList l :: r) =
  fst (fst (step_list m (SList l))) ++
  match snd (fst (step_list m (SList l))) with Some mi => scan mi l | None => [] end ++
  scan (snd (step_list m (SList l))) r.
Proof. unfold scan. cbn [sx_paths]. destruct (step_list m (SList l)) as [[out inner] m']. reflexivity. Qed.

Lemma scan_ignore : forall l, scan MIgnore l = [].
Proof.
  induction l as [|x l IH]; [reflexivity|]. destruct x as [a|s|l'].
  - rewrite scan_atom. cbn [step_atom fst snd app]. exact IH.
  - rewrite scan_str. cbn [finish app]. exact IH.
  - rewrite scan_list. cbn [step_list finish fst snd app]. exact IH.
Qed.

(** ** the specification side *)
Definition printed_paths (t : stype) : list path := filter (fun p => negb (is_void p)) (stype_paths t).

(** what may follow a complete type inside a printed type *)
Definition terminated (rest : list sexp) : Prop :=
  rest = [] \/ exists r, rest = Atom "," :: r \/ rest = Atom ";" :: r.

Lemma terminated_nil : terminated [].
Proof. now left. Qed.
Lemma terminated_comma r : terminated (Atom "," :: r).
Proof. right. exists r. now left. Qed.
Lemma terminated_semi r : terminated (Atom ";" :: r).
Proof. right. exists r. now right. Qed.

Lemma scan_seg_end u pre cur rest :
  terminated rest -> scan (MSeg u pre cur) rest = emit u (pre ++ [cur]) ++ scan MAfter rest.
Proof.
  intros [->|(r & [->| ->])].
  - rewrite !scan_nil. cbn [finish]. now rewrite app_nil_r.
  - rewrite !scan_atom. reflexivity.
  - rewrite !scan_atom. reflexivity.
Qed.

Lemma scan_afterfn_end rest : terminated rest -> scan MAfterFn rest = scan MAfter rest.
Proof.
  intros [->|(r & [->| ->])]; [reflexivity| |]; rewrite !scan_atom; reflexivity.
Qed.

Lemma next_is_end s rest : terminated rest -> s <> "," -> s <> ";" -> next_is s rest = false.
Proof.
  intros [->|(r & [->| ->])] H1 H2; [reflexivity| |]; cbn [next_is]; apply String.eqb_neq; congruence.
Qed.

(** ** the tokens of one segment *)
Definition seg_tok (a : string) : bool := ident_ok a || String.eqb a "<" || String.eqb a ">".
Definition is_br (a : string) : bool := String.eqb a "<" || String.eqb a ">".

Lemma seg_tok_not a s : seg_tok s = false -> seg_tok a = true -> a <> s.
Proof. intros Hs Ha E. subst. congruence. Qed.

Lemma seg_tok_colon a : seg_tok a = true -> String.eqb a ":" = false.
Proof. intros H. apply String.eqb_neq. eapply seg_tok_not; [|exact H]. reflexivity. Qed.
Lemma seg_tok_comma a : seg_tok a = true -> String.eqb a "," = false.
Proof. intros H. apply String.eqb_neq. eapply seg_tok_not; [|exact H]. reflexivity. Qed.
Lemma seg_tok_semi a : seg_tok a = true -> String.eqb a ";" = false.
Proof. intros H. apply String.eqb_neq. eapply seg_tok_not; [|exact H]. reflexivity. Qed.
Lemma seg_tok_star a : seg_tok a = true -> String.eqb a "*" = false.
Proof. intros H. apply String.eqb_neq. eapply seg_tok_not; [|exact H]. reflexivity. Qed.

(** the tokens of a segment are atoms; after a token that is not [<] / [>] comes [<] or [>] *)
Definition atoms_of (l : list string) : list sexp := map Atom l.
Definition alternates (ws : list string) : Prop :=
  match ws with w :: b :: _ => is_br w = true \/ is_br b = true | _ => True end.

Lemma seg_tokens_aux_atoms : forall s cur,
  exists ws, seg_tokens_aux s cur = atoms_of ws /\ alternates ws.
Proof.
  induction s as [|c s IH]; intros cur; cbn [seg_tokens_aux].
  - destruct cur as [|c0 cur]; [exists []; split; [reflexivity | exact I]|].
    exists [string_of_list (rev (c0 :: cur))]. split; [reflexivity | exact I].
  - destruct (Ascii.eqb c "<" || Ascii.eqb c ">") eqn:Ebr.
    + destruct (IH []) as (ws & -> & _).
      assert (is_br (String c "") = true) as Hbr.
      { unfold is_br. apply orb_true_iff in Ebr as [E|E]; apply Ascii.eqb_eq in E; subst c; reflexivity. }
      destruct cur as [|c0 cur].
      * exists (String c "" :: ws). split; [reflexivity|]. cbn [alternates]. destruct ws; [exact I | now left].
      * exists (string_of_list (rev (c0 :: cur)) :: String c "" :: ws). split; [reflexivity|]. cbn [alternates]. now right.
    + apply IH.
Qed.

Lemma seg_tokens_shape s :
  seg_ok s = true ->
  exists w ws, seg_tokens s = atoms_of (w :: ws) /\ Forall (fun a => seg_tok a = true) (w :: ws) /\
               alternates (w :: ws).
Proof.
  unfold seg_ok, seg_tokens. destruct (seg_tokens_aux_atoms (list_of_string s) []) as (ws & E & Halt).
  rewrite E. destruct ws as [|w ws]; [discriminate|]. cbn [atoms_of map]. intros H.
  exists w, ws. split; [reflexivity|]. split; [|exact Halt].
  change (Atom w :: map Atom ws) with (map Atom (w :: ws)) in H.
  rewrite forallb_forall in H. apply Forall_forall. intros a Ha. apply (H (Atom a)). now apply in_map.
Qed.

Lemma join_atoms_atoms_cons w ws : join_atoms (atoms_of (w :: ws)) = w +++ join_atoms (atoms_of ws).
Proof. reflexivity. Qed.

(** reading on through the remaining tokens of a segment *)
Lemma scan_seg_tokens u pre : forall ws cur rest,
  Forall (fun a => seg_tok a = true) ws ->
  scan (MSeg u pre cur) (atoms_of ws ++ rest) = scan (MSeg u pre (cur +++ join_atoms (atoms_of ws))) rest.
Proof.
  induction ws as [|w ws IH]; intros cur rest H; cbn [atoms_of map app].
  - cbn [join_atoms]. now rewrite sapp_nil_r.
  - apply Forall_cons_iff in H as [Hw Hws]. rewrite scan_atom. cbn [step_atom].
    rewrite (seg_tok_colon _ Hw), (seg_tok_comma _ Hw), (seg_tok_semi _ Hw). cbn [orb fst snd app].
    change (map Atom ws) with (atoms_of ws). rewrite (IH _ _ Hws).
    cbn [join_atoms atom_str]. now rewrite sapp_assoc.
Qed.

(** a whole segment, from its first token *)
Lemma scan_segment u pre s rest :
  seg_ok s = true ->
  scan (MSegStart u pre) (seg_tokens s ++ rest) = scan (MSeg u pre s) rest.
Proof.
  intros Hs. destruct (seg_tokens_shape _ Hs) as (w & ws & E & Hall & _).
  pose proof (seg_tokens_join s) as Hj. rewrite E in Hj |- *. cbn [atoms_of map app].
  rewrite scan_atom. cbn [step_atom fst snd app]. apply Forall_cons_iff in Hall as [Hw Hws].
  change (map Atom ws) with (atoms_of ws). rewrite scan_seg_tokens by exact Hws.
  rewrite join_atoms_atoms_cons in Hj. now rewrite Hj.
Qed.

(** ** a path, from the start of its first segment *)
Lemma scan_path : forall p, p <> [] -> forallb seg_ok p = true -> forall u pre rest,
  terminated rest ->
  scan (MSegStart u pre) (path_tokens p ++ rest) = emit u (pre ++ p) ++ scan MAfter rest.
Proof.
  induction p as [|s p IH]; intros Hne Hok u pre rest Hrest; [congruence|].
  cbn [forallb] in Hok. apply andb_true_iff in Hok as [Hs Hp].
  destruct p as [|s' p].
  - cbn [path_tokens]. rewrite scan_segment by exact Hs. now apply scan_seg_end.
  - rewrite path_tokens_cons, <- app_assoc. rewrite scan_segment by exact Hs.
    cbn [app]. unfold tk. rewrite scan_atom. cbn [step_atom String.eqb Ascii.eqb Bool.eqb fst snd app].
    rewrite scan_atom. cbn [step_atom String.eqb Ascii.eqb Bool.eqb fst snd app].
    rewrite (IH ltac:(discriminate) Hp u (pre ++ [s]) rest Hrest). now rewrite <- app_assoc.
Qed.

(** ** a raw type *)
Lemma is_void_spec p : is_void p = true -> p = ["void"].
Proof.
  unfold is_void. destruct p as [|s [|? ?]]; try discriminate. intros H. apply String.eqb_eq in H. now subst.
Qed.

Lemma scan_raw p rest :
  p <> [] -> forallb seg_ok p = true -> terminated rest ->
  scan MType (raw_tokens p ++ rest) = emit (negb (is_void p)) p ++ scan MAfter rest.
Proof.
  intros Hne Hok Hrest. unfold raw_tokens. destruct (is_void p) eqn:Ev.
  - (* [:: std :: ffi :: c_void]: a global path *)
    change (dcolon ++ [tk "std"] ++ dcolon ++ [tk "ffi"] ++ dcolon ++ [tk "c_void"])
      with (Atom ":" :: Atom ":" :: path_tokens ["std"; "ffi"; "c_void"]).
    cbn [app]. rewrite scan_atom. cbn [step_atom String.eqb Ascii.eqb Bool.eqb fst snd app].
    rewrite scan_atom. cbn [step_atom String.eqb Ascii.eqb Bool.eqb fst snd app].
    rewrite scan_path; [reflexivity | discriminate | reflexivity | exact Hrest].
  - cbn [negb]. destruct p as [|s [|s' p]]; [congruence| |].
    + (* a bare name *)
      cbn [path_tokens]. cbn [forallb] in Hok. apply andb_true_iff in Hok as [Hs _].
      destruct (seg_tokens_shape _ Hs) as (w & ws & E & Hall & Halt).
      pose proof (seg_tokens_join s) as Hj. rewrite E in Hj |- *. cbn [atoms_of map app].
      apply Forall_cons_iff in Hall as [Hw Hws].
      assert (String.eqb w "unsafe" && next_is "extern" (map Atom ws ++ rest) = false) as N1.
      { destruct ws as [|b ws]; cbn [map app].
        - rewrite (next_is_end "extern" rest Hrest) by discriminate. apply andb_false_r.
        - cbn [next_is]. destruct Halt as [Hb|Hb].
          + destruct (String.eqb_spec w "unsafe") as [->|]; [discriminate | reflexivity].
          + destruct (String.eqb_spec b "extern") as [->|]; [discriminate | apply andb_false_r]. }
      assert (String.eqb w "crate" && next_is ":" (map Atom ws ++ rest) = false) as N2.
      { destruct ws as [|b ws]; cbn [map app].
        - rewrite (next_is_end ":" rest Hrest) by discriminate. apply andb_false_r.
        - cbn [next_is]. destruct Halt as [Hb|Hb].
          + destruct (String.eqb_spec w "crate") as [->|]; [discriminate | reflexivity].
          + destruct (String.eqb_spec b ":") as [->|]; [discriminate | apply andb_false_r]. }
      rewrite scan_atom. cbn [step_atom]. rewrite (seg_tok_star _ Hw), (seg_tok_colon _ Hw), N1, N2.
      cbn [fst snd app]. change (map Atom ws) with (atoms_of ws). rewrite scan_seg_tokens by exact Hws.
      rewrite join_atoms_atoms_cons in Hj. rewrite Hj. now apply scan_seg_end.
    + (* [crate :: ...] *)
      cbn [app]. unfold tk at 1. rewrite scan_atom. unfold dcolon, tk at 1.
      cbn [step_atom String.eqb Ascii.eqb Bool.eqb next_is app andb fst snd].
      unfold tk at 1. rewrite scan_atom. cbn [step_atom String.eqb Ascii.eqb Bool.eqb fst snd app].
      unfold tk at 1. rewrite scan_atom. cbn [step_atom String.eqb Ascii.eqb Bool.eqb fst snd app].
      now apply scan_path.
Qed.

(** ** every type *)
Definition arg_tokens (a : string * stype) : list sexp := tk (fst a) :: tk ":" :: type_tokens (snd a).

Lemma commas_cons2 (x y : list sexp) l : commas (x :: y :: l) = x ++ tk "," :: commas (y :: l).
Proof. reflexivity. Qed.

Lemma filter_app_paths (f : path -> bool) a b : filter f (a ++ b) = filter f a ++ filter f b.
Proof. apply filter_app. Qed.

Lemma filter_flat_map {A} (f : path -> bool) (g : A -> list path) l :
  filter f (flat_map g l) = flat_map (fun a => filter f (g a)) l.
Proof. induction l as [|a l IH]; cbn [flat_map]; [reflexivity|]. now rewrite filter_app, IH. Qed.

Theorem scan_type : forall t, stype_ok t = true -> forall rest, terminated rest ->
  scan MType (type_tokens t ++ rest) = printed_paths t ++ scan MAfter rest.
Proof.
  fix IH 1. intros [p|t|t|t n|c args ret] Hok rest Hrest.
  - cbn [type_tokens stype_ok] in *. unfold printed_paths. cbn [stype_paths filter].
    assert (p <> []) as Hne by (destruct p; [discriminate | discriminate]).
    assert (forallb seg_ok p = true) as Hp by (destruct p; [discriminate | exact Hok]).
    rewrite (scan_raw _ _ Hne Hp Hrest). unfold emit. now destruct (negb (is_void p)).
  - cbn [type_tokens stype_ok app] in *. unfold tk. rewrite scan_atom. cbn [step_atom String.eqb Ascii.eqb Bool.eqb fst snd app].
    rewrite scan_atom. cbn [step_atom String.eqb Ascii.eqb Bool.eqb orb fst snd app].
    apply (IH t Hok rest Hrest).
  - cbn [type_tokens stype_ok app] in *. unfold tk. rewrite scan_atom. cbn [step_atom String.eqb Ascii.eqb Bool.eqb fst snd app].
    rewrite scan_atom. cbn [step_atom String.eqb Ascii.eqb Bool.eqb orb fst snd app].
    apply (IH t Hok rest Hrest).
  - cbn [type_tokens stype_ok app] in *. unfold bracket. rewrite scan_list.
    cbn [step_list list_tag String.eqb Ascii.eqb Bool.eqb fst snd app].
    rewrite scan_atom. cbn [step_atom fst snd app].
    rewrite (IH t Hok _ (terminated_semi _)). unfold tk. rewrite scan_atom.
    cbn [step_atom after String.eqb Ascii.eqb Bool.eqb fst snd app]. rewrite scan_ignore, app_nil_r. reflexivity.
  - cbn [type_tokens stype_ok] in Hok |- *. apply andb_true_iff in Hok as [Hargs Hret]. unfold tk, tstr, paren.
    assert (scan MArgs (commas (map (fun a => tk (fst a) :: tk ":" :: type_tokens (snd a)) args))
            = flat_map (fun a => printed_paths (snd a)) args) as Hparams.
    { clear Hret. induction args as [|[n ta] args IHa]; [reflexivity|].
      cbn [forallb fst snd] in Hargs. apply andb_true_iff in Hargs as [Ha Hargs].
      apply andb_true_iff in Ha as [_ Hta]. cbn [map flat_map fst snd].
      destruct args as [|b args].
      - cbn [map commas flat_map]. unfold tk. rewrite scan_atom. cbn [step_atom fst snd app].
        rewrite scan_atom. cbn [step_atom String.eqb Ascii.eqb Bool.eqb fst snd app].
        rewrite <- (app_nil_r (type_tokens ta)). rewrite (IH ta Hta [] terminated_nil).
        rewrite scan_nil. cbn [finish]. reflexivity.
      - cbn [map]. rewrite commas_cons2. cbn [app]. unfold tk. rewrite scan_atom. cbn [step_atom fst snd app].
        unfold tk. rewrite scan_atom. cbn [step_atom String.eqb Ascii.eqb Bool.eqb fst snd app].
        unfold tk. rewrite (IH ta Hta _ (terminated_comma _)). rewrite scan_atom.
        cbn [step_atom after String.eqb Ascii.eqb Bool.eqb fst snd app].
        f_equal. apply (IHa Hargs). }
    unfold tk in Hparams. unfold printed_paths. cbn [stype_paths]. rewrite filter_app, filter_flat_map.
    cbn [app]. unfold tk. rewrite scan_atom. cbn [step_atom String.eqb Ascii.eqb Bool.eqb next_is andb fst snd app].
    unfold tk. rewrite scan_atom. cbn [step_atom String.eqb Ascii.eqb Bool.eqb fst snd app].
    unfold tstr. rewrite scan_list. cbn [step_list fst snd app].
    unfold tk. rewrite scan_atom. cbn [step_atom String.eqb Ascii.eqb Bool.eqb fst snd app].
    unfold paren. rewrite scan_list. cbn [step_list list_tag String.eqb Ascii.eqb Bool.eqb fst snd].
    rewrite scan_atom. cbn [step_atom fst snd app]. rewrite Hparams. unfold printed_paths.
    rewrite <- app_assoc. f_equal.
    destruct ret as [r|].
    + cbn [app]. unfold tk. rewrite scan_atom. cbn [step_atom String.eqb Ascii.eqb Bool.eqb fst snd app].
      unfold tk. rewrite scan_atom. cbn [step_atom String.eqb Ascii.eqb Bool.eqb fst snd app].
      apply (IH r Hret rest Hrest).
    + cbn [app filter]. now apply scan_afterfn_end.
Qed.

(** THE LEMMA: the reader, on the tokens of an accepted type, returns the type's paths other than
    [void], as registry paths *)
Theorem type_paths_type_tokens t : stype_ok t = true -> type_paths (type_tokens t) = printed_paths t.
Proof.
  intros H. unfold type_paths. rewrite <- (app_nil_r (type_tokens t)).
  rewrite (scan_type t H [] terminated_nil). rewrite scan_nil. cbn [finish]. apply app_nil_r.
Qed.

Lemma printed_paths_in t p : In p (printed_paths t) <-> In p (stype_paths t) /\ is_void p = false.
Proof. unfold printed_paths. rewrite filter_In, negb_true_iff. reflexivity. Qed.

(** ** closed examples *)
Example type_paths_ex1 :
  type_paths (type_tokens (TArray (TConstPtr (TRaw ["a"; "b"; "T"])) 4)) = [["a"; "b"; "T"]].
Proof. vm_compute. reflexivity. Qed.
Example type_paths_ex2 :
  type_paths (type_tokens (TFunction CC_Thiscall
     [("this", TMutPtr (TRaw ["m"; "Base"])); ("x", TRaw ["u32"]); ("v", TConstPtr (TRaw ["void"]))]
     (Some (TRaw ["m"; "Shared<Foo>"]))))
  = [["m"; "Base"]; ["u32"]; ["m"; "Shared<Foo>"]].
Proof. vm_compute. reflexivity. Qed.
Example type_paths_ex3 : type_paths (type_tokens (TRaw ["crate"])) = [["crate"]].
Proof. vm_compute. reflexivity. Qed.
Example type_paths_ex4 : type_paths (type_tokens (TRaw ["unsafe<extern>"])) = [["unsafe<extern>"]].
Proof. vm_compute. reflexivity. Qed.

Print Assumptions scan_type.
Print Assumptions type_paths_type_tokens.
