(** * SortUnique: the insertion sort of Base.v gives one result for all duplicate-free permutations.

    [path_compare] is a total order (antisymmetric, transitive); [Base.sort] by a total transitive
    relation yields a strongly sorted list; two strongly sorted permutations of each other, under a
    relation that is antisymmetric on their elements, are equal. *)
From Coq Require Import List String Ascii NArith Bool Lia Permutation Sorted.
From PyxisModel Require Import Base EmitLemmas.
Import ListNotations.
Local Open Scope list_scope.

(** ** [String.compare] *)
Lemma ascii_compare_lt_trans a b c :
  Ascii.compare a b = Lt -> Ascii.compare b c = Lt -> Ascii.compare a c = Lt.
Proof.
  unfold Ascii.compare. rewrite !N.compare_lt_iff. lia.
Qed.

Lemma string_compare_refl s : String.compare s s = Eq.
Proof.
  induction s as [|c s IH]; cbn [String.compare]; [reflexivity|].
  unfold Ascii.compare. now rewrite N.compare_refl.
Qed.

Lemma string_compare_lt_trans : forall a b c,
  String.compare a b = Lt -> String.compare b c = Lt -> String.compare a c = Lt.
Proof.
  induction a as [|x a IH]; intros [|y b] [|z c] H1 H2; cbn [String.compare] in *; try congruence.
  destruct (Ascii.compare x y) eqn:Exy; try discriminate.
  - apply Ascii.compare_eq_iff in Exy. subst y.
    destruct (Ascii.compare x z) eqn:Exz; try congruence. eapply IH; eauto.
  - destruct (Ascii.compare y z) eqn:Eyz; try discriminate.
    + apply Ascii.compare_eq_iff in Eyz. subst z. now rewrite Exy.
    + now rewrite (ascii_compare_lt_trans _ _ _ Exy Eyz).
Qed.

(** ** [path_compare] *)
Lemma path_compare_antisym : forall a b, path_compare a b = CompOpp (path_compare b a).
Proof.
  induction a as [|x a IH]; intros [|y b]; cbn [path_compare CompOpp]; try reflexivity.
  rewrite (String.compare_antisym x y).
  destruct (String.compare y x); cbn [CompOpp]; auto.
Qed.

Lemma path_compare_eq : forall a b, path_compare a b = Eq -> a = b.
Proof.
  induction a as [|x a IH]; intros [|y b]; cbn [path_compare]; try congruence.
  destruct (String.compare x y) eqn:E; try discriminate.
  intros H. apply String.compare_eq_iff in E. subst y. f_equal. auto.
Qed.

Lemma path_compare_refl a : path_compare a a = Eq.
Proof. induction a as [|x a IH]; cbn [path_compare]; [reflexivity|]. now rewrite string_compare_refl. Qed.

Lemma path_compare_lt_trans : forall a b c,
  path_compare a b = Lt -> path_compare b c = Lt -> path_compare a c = Lt.
Proof.
  induction a as [|x a IH]; intros [|y b] [|z c] H1 H2; cbn [path_compare] in *; try congruence.
  destruct (String.compare x y) eqn:Exy; try discriminate.
  - apply String.compare_eq_iff in Exy. subst y.
    destruct (String.compare x z) eqn:Exz; try congruence. eapply IH; eauto.
  - destruct (String.compare y z) eqn:Eyz; try discriminate.
    + apply String.compare_eq_iff in Eyz. subst z. now rewrite Exy.
    + now rewrite (string_compare_lt_trans _ _ _ Exy Eyz).
Qed.

Lemma path_leb_total a b : path_leb a b = false -> path_leb b a = true.
Proof.
  unfold path_leb. rewrite (path_compare_antisym b a). destruct (path_compare a b); cbn [CompOpp]; congruence.
Qed.

Lemma path_leb_antisym a b : path_leb a b = true -> path_leb b a = true -> a = b.
Proof.
  unfold path_leb. rewrite (path_compare_antisym b a). destruct (path_compare a b) eqn:E; cbn [CompOpp]; try congruence.
  intros _ _. now apply path_compare_eq.
Qed.

Lemma path_leb_trans a b c : path_leb a b = true -> path_leb b c = true -> path_leb a c = true.
Proof.
  unfold path_leb. destruct (path_compare a b) eqn:E1; try discriminate; intros _.
  - apply path_compare_eq in E1. now subst b.
  - destruct (path_compare b c) eqn:E2; try discriminate; intros _.
    + apply path_compare_eq in E2. subst c. now rewrite E1.
    + now rewrite (path_compare_lt_trans _ _ _ E1 E2).
Qed.

(** ** the insertion sort *)
Section SortFacts.
  Context {A : Type} (leb : A -> A -> bool).
  Hypothesis leb_total : forall a b, leb a b = false -> leb b a = true.
  Hypothesis leb_trans : forall a b c, leb a b = true -> leb b c = true -> leb a c = true.

  Definition lebP (a b : A) : Prop := leb a b = true.

  Lemma insert_sorted_in x : forall l y, In y (insert_sorted leb x l) -> y = x \/ In y l.
  Proof.
    induction l as [|z l IH]; cbn [insert_sorted]; intros y H.
    - destruct H as [<-|[]]; auto.
    - destruct (leb z x).
      + destruct H as [<-|H]; [right; now left|]. destruct (IH _ H); auto. right; now right.
      + destruct H as [<-|H]; auto.
  Qed.

  Lemma insert_sorted_sorted x : forall l, StronglySorted lebP l -> StronglySorted lebP (insert_sorted leb x l).
  Proof.
    induction l as [|z l IH]; cbn [insert_sorted]; intros H.
    - constructor; constructor.
    - inversion H as [|? ? Hs Hf]; subst. destruct (leb z x) eqn:E.
      + constructor; [auto|]. rewrite Forall_forall in *. intros y Hy.
        destruct (insert_sorted_in _ _ _ Hy) as [->|Hin]; [exact E | apply Hf; exact Hin].
      + constructor; [exact H|]. apply leb_total in E. constructor; [exact E|].
        rewrite Forall_forall in *. intros y Hy. eapply leb_trans; [exact E | apply Hf; exact Hy].
  Qed.

  Lemma sort_sorted l : StronglySorted lebP (sort leb l).
  Proof.
    unfold sort.
    assert (G : forall l acc, StronglySorted lebP acc ->
                              StronglySorted lebP (fold_left (fun acc x => insert_sorted leb x acc) l acc)).
    { clear l. induction l as [|x l IH]; intros acc Hacc; cbn [fold_left]; [exact Hacc|].
      apply IH. now apply insert_sorted_sorted. }
    apply G. constructor.
  Qed.
End SortFacts.

Lemma sorted_perm_unique {A} (R : A -> A -> Prop) : forall l1 l2,
  StronglySorted R l1 -> StronglySorted R l2 -> Permutation l1 l2 ->
  (forall a b, In a l1 -> In b l1 -> R a b -> R b a -> a = b) ->
  l1 = l2.
Proof.
  induction l1 as [|a l1 IH]; intros l2 H1 H2 HP Hanti.
  - apply Permutation_nil in HP. now subst.
  - destruct l2 as [|b l2]; [apply Permutation_sym, Permutation_nil in HP; discriminate|].
    inversion H1 as [|? ? Hs1 Hf1]; subst. inversion H2 as [|? ? Hs2 Hf2]; subst.
    assert (a = b) as ->.
    { assert (In a (b :: l2)) as Ha by (eapply Permutation_in; [exact HP | now left]).
      assert (In b (a :: l1)) as Hb by (eapply Permutation_in; [apply Permutation_sym; exact HP | now left]).
      destruct Ha as [->|Ha]; [reflexivity|]. destruct Hb as [->|Hb]; [reflexivity|].
      rewrite Forall_forall in Hf1, Hf2. apply Hanti; [now left | now right | auto | auto]. }
    f_equal. apply IH; auto.
    + eapply Permutation_cons_inv; eauto.
    + intros x y Hx Hy. apply Hanti; now right.
Qed.

(** the form used by the emitter: sorting by a key *)
Theorem sort_perm_unique {A} (leb : A -> A -> bool) (l1 l2 : list A) :
  (forall a b, leb a b = false -> leb b a = true) ->
  (forall a b c, leb a b = true -> leb b c = true -> leb a c = true) ->
  (forall a b, In a l1 -> In b l1 -> leb a b = true -> leb b a = true -> a = b) ->
  Permutation l1 l2 -> sort leb l1 = sort leb l2.
Proof.
  intros Htot Htr Hanti HP.
  apply (sorted_perm_unique (lebP leb)).
  - now apply sort_sorted.
  - now apply sort_sorted.
  - eapply Permutation_trans; [apply Permutation_sym, sort_perm|].
    eapply Permutation_trans; [exact HP | apply sort_perm].
  - intros a b Ha Hb. pose proof (Permutation_sym (sort_perm leb l1)) as P.
    apply Hanti; eapply Permutation_in; eauto.
Qed.
