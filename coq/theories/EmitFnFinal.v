(** * EmitFnFinal: the wrappers and vftable structs of an accepted build, in the emitted files.

    Part 4 of EmitFnShape.v, second half.  For every type the input declares, in every accepted,
    [collision_free] build whose files are written:
    - [emitted_wrappers_whole_build]: the file of the declaring module holds, after the struct of
      the type (the one [find_struct] finds), its size check and the optional singleton impl, the
      inherent [impl] of the type, and that impl holds, for every function declared in the type's
      impl block, the wrapper with the shape of [build_function_shape] for the record
      [function_build] made of the declaration;
    - [emitted_impl_function_whole_build]: the same in terms of the DECLARATION: the wrapper has the
      declared name and visibility, transmutes the declared address (by value) to a fn pointer
      whose ABI string names [cc_spec] of the declaration (C05, C16 on the emitted text);
    - [emitted_vftable_whole_build]: for a type that declares a vftable block, a file of the module
      holds the struct [<T>Vftable] with one fn-pointer field per slot, each carrying the slot
      function's convention (C04, C16 on the emitted text). *)
From Coq Require Import List NArith ZArith Bool Lia String Permutation.
From PyxisModel Require Import Base Sexp Grammar SemTypes Registry Sem SemLemmas FunctionLemmas
     ScopeLemmas PlacementLemmas TotalityLemmas Emit EmitLemmas WholeBuild Monotone OrderIndep
     EmitInvariance FinalState OutputIndep EmitReaders EmitShape EmitFinal EmitFind
     EmitFnReaders EmitFnShape.
Import ListNotations.
Local Open Scope string_scope.
Local Open Scope list_scope.

(** ** impl functions *)
Theorem emitted_wrappers_whole_build order ptr mods st0 st files p it0 gd td0 parent module0 blk :
  input_state ptr mods = Ok st0 -> NoDup (map fst mods) -> collision_free (st_reg st0) ->
  keeps_work order ->
  pyxis_resolve order ptr mods = BOk st -> write_all st = Ok files ->
  reg_get (st_reg st0) p = Some it0 -> it_state it0 = Unresolved gd -> gi_inner gd = GIType td0 ->
  path_parent p = Some parent -> parent <> [] ->
  alookup parent (st_modules st0) = Some module0 -> alookup p (m_impls module0) = Some blk ->
  exists name it r td R_mid inherited own f pre s checks sing im conv post fns,
    (* the item, resolved, in the final registry; its associated functions *)
    path_last p = Some name /\
    reg_get (st_reg st) p = Some it /\ it_state it = Resolved r /\ rs_inner r = IType td /\
    ext (st_reg st0) R_mid (st_reg st) /\ td_assoc td = inherited ++ own /\
    Forall2 (fun gf sf => function_build R_mid (module_scope module0) false gf = Ok sf) (gb_fns blk) own /\
    (* the file of its module: struct, size check, singleton impl, THE impl, conversions *)
    In (out_path parent, f) files /\
    file_items f = Some (pre ++ (s :: checks ++ sing ++ im :: conv) ++ post) /\
    find_struct name (pre ++ (s :: checks ++ sing ++ im :: conv) ++ post) = Some s /\
    struct_shape name (rs_align r) (it_vis it0) td s /\
    size_check_shape name (rs_size r) checks /\
    match td_singleton td with
    | Some a => exists g, sing = [g] /\ singleton_shape name (it_vis it0) a g
    | None => sing = []
    end /\
    item_kind im = Some "impl" /\ inherent_impl im = Some (name, fns) /\
    (* every declared function that is not internal has its wrapper in that impl *)
    Forall2 (fun gf sf => sf_is_internal sf = false -> exists e, In e fns /\ wrapper_shape sf e)
            (gb_fns blk) own.
Proof.
  intros Hin HN Hcf Hord Hres Hw Hg0 Hs0 Hty Hpar0 Hne Hmod0 Hblk.
  destruct (accepted_declared_item _ _ _ _ _ _ _ _ Hin HN Hcf Hord Hres Hg0 Hs0)
    as (it & r & parent' & m & Hg & Hs & Hpath & Hvis & Hcat & Hpar & Hmod & Hdef & HK & Hnd & Hparents).
  rewrite Hpar0 in Hpar. inversion Hpar; subst parent'. clear Hpar.
  destruct (whole_build_impl_functions _ _ _ _ _ _ _ _ _ _ _ _ _ _ Hin Hcf Hres Hg0 Hs0 Hty Hg Hs Hpar0 Hmod0 Hblk)
    as (td & R_mid & inherited & own & Hi & Hext & Hassoc & Hown).
  destruct (write_all_in _ _ _ _ Hw Hmod Hne) as (f & Hf & Hfile).
  destruct (module_file_items _ _ _ _ _ Hf Hdef Hg) as (pre0 & its & post0 & Hb & _).
  assert (item_resolved it = Some r) as Hr by (unfold item_resolved; now rewrite Hs).
  pose proof Hb as Hb'. unfold build_item in Hb'. rewrite Hr, Hcat, Hi in Hb'.
  destruct (build_type_items_shape _ _ _ _ _ _ _ _ Hb')
    as (name & s & checks & sing & im & conv & acc & assoc & vfns &
        Hname & -> & Hshape & Hcheck & Hsing & Hkind & Him & _ & Hwr & _ & _).
  rewrite Hpath in Hname. rewrite Hvis in Hshape, Hsing.
  destruct (module_file_find_struct _ _ _ _ _ _ _ _ _ Hf HK Hnd Hparents Hdef Hg Hname Hb
              (struct_shape_is_named _ _ _ _ _ Hshape)) as (pre & post & Hitems & _ & Hfind).
  exists name, it, r, td, R_mid, inherited, own, f, pre, s, checks, sing, im, conv, post, (acc ++ assoc ++ vfns).
  repeat (split; [assumption|]).
  (* the wrappers *)
  assert (forall sf, In sf own -> sf_is_internal sf = false ->
                     exists e, In e (acc ++ assoc ++ vfns) /\ wrapper_shape sf e) as Hall.
  { intros sf Hsf Hint.
    assert (In sf (emitted_fns (td_assoc td))) as Hin'.
    { apply filter_In. split; [rewrite Hassoc; apply in_or_app; now right | now rewrite Hint]. }
    destruct (Forall2_in_l _ _ _ _ Hwr Hin') as (e & He & Hsh). exists e. split; [|exact Hsh].
    apply in_or_app. right. apply in_or_app. now left. }
  clear -Hown Hall. induction Hown as [|gf sf gfs sfs _ _ IH]; constructor.
  - intros Hint. apply Hall; [now left | exact Hint].
  - apply IH. intros sf' Hsf'. apply Hall. now right.
Qed.

(** in terms of the declaration: C05 and C16, on the emitted wrapper *)
Theorem emitted_impl_function_whole_build order ptr mods st0 st files p it0 gd td0 parent module0 blk gf :
  input_state ptr mods = Ok st0 -> NoDup (map fst mods) -> collision_free (st_reg st0) ->
  keeps_work order ->
  pyxis_resolve order ptr mods = BOk st -> write_all st = Ok files ->
  reg_get (st_reg st0) p = Some it0 -> it_state it0 = Unresolved gd -> gi_inner gd = GIType td0 ->
  path_parent p = Some parent -> parent <> [] ->
  alookup parent (st_modules st0) = Some module0 -> alookup p (m_impls module0) = Some blk ->
  In gf (gb_fns blk) -> starts_with "_" (gf_name gf) = false ->
  exists name f items s im fns e sf ty a n c,
    path_last p = Some name /\ In (out_path parent, f) files /\ file_items f = Some items /\
    find_struct name items = Some s /\ In im items /\ inherent_impl im = Some (name, fns) /\
    In e fns /\ wrapper_shape sf e /\
    (* name, visibility, parameters: the declared ones *)
    fn_name e = Some (gf_name gf) /\ fn_vis e = Some (gf_vis gf) /\ fn_unsafe e = Some true /\
    List.length (sf_args sf) = List.length (gf_args gf) /\
    fn_params e = Some (map param_of_arg (sf_args sf)) /\
    (* body: the address template, with the declared address and the declared / default convention *)
    fn_wrapper_body e = Some (EBAddress ty n (map callarg_of_arg (sf_args sf))) /\
    declared_address (gf_attrs gf) = Some a /\ z_to_usize a = Some n /\
    cc_spec gf = Some c /\ fp_abi ty = cc_to_string c /\
    fp_args ty = map lam_of_arg (sf_args sf) /\ fp_ret ty = option_map type_tokens (sf_ret sf).
Proof.
  intros Hin HN Hcf Hord Hres Hw Hg0 Hs0 Hty Hpar0 Hne Hmod0 Hblk Hgf Hnint.
  destruct (emitted_wrappers_whole_build _ _ _ _ _ _ _ _ _ _ _ _ _ Hin HN Hcf Hord Hres Hw Hg0 Hs0 Hty Hpar0 Hne Hmod0 Hblk)
    as (name & it & r & td & R_mid & inherited & own & f & pre & s & checks & sing & im & conv & post & fns &
        Hname & _ & _ & _ & _ & _ & Hown & Hfile & Hitems & Hfind & _ & _ & _ & _ & Him & Hall).
  assert (exists sf, function_build R_mid (module_scope module0) false gf = Ok sf /\
                     (sf_is_internal sf = false -> exists e, In e fns /\ wrapper_shape sf e)) as (sf & Hfb & Hwr).
  { clear -Hown Hall Hgf. induction Hown as [|g sf gfs sfs Hb _ IH]; [destruct Hgf|].
    inversion Hall as [|? ? ? ? Hh Ht]; subst. destruct Hgf as [->|Hgf]; [eauto | now apply IH]. }
  destruct (function_build_spec _ _ _ _ _ Hfb) as (Hn & Hv & _ & Hargs & _ & Hcc & (a & n & Ha & Hz & Hbody)).
  destruct Hwr as (e & He & Hsh); [unfold sf_is_internal; now rewrite Hn|].
  assert (build_ok : fn_wrapper_body e = Some (body_of sf)) by apply Hsh.
  unfold body_of, passed_args in build_ok. rewrite Hbody in build_ok.
  exists name, f, (pre ++ (s :: checks ++ sing ++ im :: conv) ++ post), s, im, fns, e, sf, (wrapper_fnptr sf), a, n, (sf_cc sf).
  split; [exact Hname|]. split; [exact Hfile|]. split; [exact Hitems|]. split; [exact Hfind|].
  split. { apply in_or_app. right. apply in_or_app. left. right. apply in_or_app. right. apply in_or_app. right. now left. }
  split; [exact Him|]. split; [exact He|]. split; [exact Hsh|].
  split; [rewrite <- Hn; apply Hsh|]. split; [rewrite <- Hv; apply Hsh|]. split; [apply Hsh|].
  split. { clear -Hargs. induction Hargs; cbn [List.length]; congruence. }
  split; [apply Hsh|]. split; [exact build_ok|].
  repeat (split; [assumption || reflexivity|]). reflexivity.
Qed.

(** ** generated items: the vftable struct *)
(** the final module of a path the build generated (not an input item) lists it *)
Lemma accepted_generated_path order ptr mods st0 st q parent :
  input_state ptr mods = Ok st0 -> collision_free (st_reg st0) ->
  pyxis_resolve order ptr mods = BOk st ->
  reg_get (st_reg st0) q = None -> reg_get (st_reg st) q <> None -> path_parent q = Some parent ->
  alookup parent (st_modules st0) <> None ->
  exists m, In (parent, m) (st_modules st) /\ In q (m_defpaths m) /\
            keyed (st_reg st) /\ NoDup (m_defpaths m) /\
            (forall q', In q' (m_defpaths m) -> path_parent q' = Some parent).
Proof.
  intros Hin Hcf Hres Hq0 Hq Hpar Hm0.
  destruct (pyxis_resolve_input _ _ _ _ Hres) as (st0' & Hin' & Hb).
  rewrite Hin in Hin'. inversion Hin'; subst st0'. clear Hin'.
  unfold sem_build in Hb.
  destruct (resolve_loop order _ st0) as [s| | | |] eqn:El; try discriminate.
  pose proof (input_state_keyed _ _ _ Hin) as HK0.
  destruct (input_state_wf _ _ _ Hin) as [HU HW].
  pose proof (LInv_init st0 HK0 HW) as HL0.
  pose proof (resolve_loop_LInv st0 Hcf order _ _ _ HL0 El) as (HI & HK & HD).
  rewrite (finish_build_reg _ _ Hb) in *.
  destruct HD as [HKeys HDm].
  assert (alookup parent (st_modules s) <> None) as Hsome.
  { apply alookup_some_in_keys. rewrite HKeys. now apply alookup_some_in_keys. }
  destruct (alookup parent (st_modules s)) as [m|] eqn:Em; [|congruence].
  destruct (HDm _ _ Em) as (m0 & Hm0' & _ & Hnd & Hset).
  destruct (finish_build_module _ _ _ _ Hb Em) as (m' & Hin' & Hdef).
  exists m'. rewrite Hdef. split; [exact Hin'|]. split.
  { apply Hset. right. repeat split; assumption. }
  split; [exact HK|]. split; [exact Hnd|].
  intros q' Hq'. apply Hset in Hq' as [Hq'|(_ & _ & Hq')]; [|exact Hq'].
  eapply (input_state_defs_parent _ _ _ Hin); eauto.
Qed.

Theorem emitted_vftable_whole_build order ptr mods st0 st files p it0 gd td0 it r parent stm rest gfs :
  input_state ptr mods = Ok st0 -> collision_free (st_reg st0) ->
  pyxis_resolve order ptr mods = BOk st -> write_all st = Ok files ->
  reg_get (st_reg st0) p = Some it0 -> it_state it0 = Unresolved gd -> gi_inner gd = GIType td0 ->
  reg_get (st_reg st) p = Some it -> it_state it = Resolved r ->
  path_parent p = Some parent -> parent <> [] -> alookup parent (st_modules st0) <> None ->
  gt_stmts td0 = stm :: rest -> gs_field stm = GVftable gfs ->
  exists tname vp fs td vt f items s efs,
    path_last p = Some tname /\ vftable_path p = Some vp /\
    (* the slot list: the type's own vftable descriptor carries it *)
    rs_inner r = IType td /\ td_vftable td = Some vt /\ vt_functions vt = fs /\
    vt_type vt = TConstPtr (TRaw vp) /\
    (* a file of the module holds the struct <T>Vftable *)
    In (out_path parent, f) files /\ file_items f = Some items /\
    find_struct (tname +++ "Vftable") items = Some s /\
    struct_name s = Some (tname +++ "Vftable") /\ struct_vis s = Some (gi_vis gd) /\
    struct_repr s = Some (ReprAlign (reg_ptr (st_reg st))) /\
    (* one fn-pointer field per slot, in slot order, with the slot function's convention *)
    struct_fields s = Some efs /\ Forall2 (slot_of_function p) fs efs.
Proof.
  intros Hin Hcf Hres Hw Hg0 Hs0 Hty Hg Hs Hpar Hne Hm0 Hst Hfld.
  destruct (whole_build_vftable _ _ _ _ _ _ _ _ _ _ _ _ _ _ Hin Hcf Hres Hg0 Hs0 Hty Hg Hs Hst Hfld)
    as (R_mid & scope & sz & fs & vp & vit & td & vt & _ & _ & _ & _ & Hvp & Hvit & Hgv & Hi & Hvt & Hfs & Hvty).
  assert (path_parent vp = Some parent /\ exists tname, path_last p = Some tname /\ path_last vp = Some (tname +++ "Vftable"))
    as (Hvpar & tname & Htn & Hvlast).
  { unfold vftable_path in Hvp. rewrite Hpar in Hvp. destruct (path_last p) as [tname|]; [|discriminate].
    inversion Hvp; subst vp. split; [apply path_parent_join|]. exists tname. split; [reflexivity | apply path_last_join]. }
  assert (reg_get (st_reg st0) vp = None) as Hv0 by (apply (Hcf p); [congruence | exact Hvp]).
  destruct (accepted_generated_path _ _ _ _ _ _ _ Hin Hcf Hres Hv0 ltac:(congruence) Hvpar Hm0)
    as (m & Hmod & Hdef & HK & Hnd & Hparents).
  destruct (write_all_in _ _ _ _ Hw Hmod Hne) as (f & Hf & Hfile).
  destruct (module_file_items _ _ _ _ _ Hf Hdef Hgv) as (pre0 & its & post0 & Hb & _).
  destruct (vftable_item_struct_shape _ _ _ _ _ _ _ _ Hvit Hb)
    as (parent' & tname' & vp' & s & rest' & efs & _ & Htn' & _ & _ & _ & -> & Hk & Hname & Hvis & Hrepr & Hfields & Hall).
  rewrite Htn in Htn'. inversion Htn'; subst tname'. clear Htn'.
  assert (is_struct_named (tname +++ "Vftable") s = true) as Hnamed
      by (unfold is_struct_named; rewrite Hname; apply String.eqb_refl).
  destruct (module_file_find_struct _ _ _ _ _ _ _ _ _ Hf HK Hnd Hparents Hdef Hgv Hvlast Hb Hnamed)
    as (pre & post & Hitems & _ & Hfind).
  exists tname, vp, fs, td, vt, f, (pre ++ (s :: rest') ++ post), s, efs.
  repeat (split; [assumption|]). exact Hall.
Qed.

(** ** extern values: every extern value of a module has its accessor in the module's file *)
Theorem emitted_extern_value st m f ev :
  module_file st m = Ok f -> In ev (m_extern_values m) ->
  exists items e t, file_items f = Some items /\ In e items /\ ev_type ev = Some t /\ extern_shape ev t e.
Proof.
  intros H Hin. destruct (module_file_shape _ _ _ H) as (items & evs & _ & Hevs & ->).
  assert (In ev (sort ev_leb (m_extern_values m))) as Hin' by (eapply Permutation_in; [apply sort_perm | exact Hin]).
  destruct (mapM_in _ _ _ _ Hevs Hin') as (e & He & Hout).
  destruct (build_extern_value_shape _ _ He) as (t & Ht & Hsh).
  eexists _, e, t. split; [reflexivity|]. split; [|split; [exact Ht | exact Hsh]].
  right. change (In e (List.concat items ++ evs ++ [SList [Atom "opaque"; Str (epilogue_text m)]])).
  apply in_or_app. right. apply in_or_app. left. exact Hout.
Qed.

Print Assumptions emitted_wrappers_whole_build.
Print Assumptions emitted_impl_function_whole_build.
Print Assumptions emitted_vftable_whole_build.
Print Assumptions emitted_extern_value.
