(** * EmitFnExamples: the readers of EmitFnReaders.v on real emitted files.

    - the input of Examples.v at pointer width 4 (type [Base]: a vftable block [f], [#[index(3)] g],
      an impl function [#[address(0x78)] meth]; type [T] has [Base] as a base);
    - a second input with a struct singleton, an enum singleton, an extern value and impl functions
      with and without receiver / calling convention;
    - the hypotheses of the whole-build theorems of EmitFnFinal.v on the first input. *)
From Coq Require Import List String NArith ZArith Bool Permutation.
From PyxisModel Require Import Base Sexp Grammar SemTypes Registry Sem Emit Driver Examples RustLayout
     WholeBuild OrderIndep EmitReaders EmitShape EmitFinal EmitLayout EmitShapeExamples
     EmitFnReaders EmitFnShape EmitFnFinal.
Import ListNotations.
Local Open Scope string_scope.
Local Open Scope list_scope.

(** the functions of the inherent impls of [name] among a list of items, impl by impl *)
Definition impls_of (name : string) (items : list sexp) : list (list sexp) :=
  all_somes (fun e => match inherent_impl e with
                      | Some (n, fns) => if String.eqb n name then Some fns else None
                      | None => None
                      end) items.
Definition ex_impl (ptr : N) (name : string) : option (list sexp) :=
  bindo (ex_items ptr) (fun items => match impls_of name items with [fns] => Some fns | _ => None end).
Definition ex_fn (ptr : N) (ty name : string) : option sexp := bindo (ex_impl ptr ty) (find_fn name).

Definition crate_m (n : string) : list sexp := tks ["crate"; ":"; ":"; "m"; ":"; ":"; n].

(** ** Part 1: the struct [BaseVftable]: four slots (two placeholders), all thiscall *)
Example ex_vftable_abis :
  option_map (map (fun f => (ef_name f, fnptr_abi (ef_ty f), fnptr_cc (ef_ty f))))
             (bindo (ex_struct 4 "BaseVftable") struct_fields) =
  Some [("f", Some "thiscall", Some CC_Thiscall); ("_vfunc_1", Some "thiscall", Some CC_Thiscall);
        ("_vfunc_2", Some "thiscall", Some CC_Thiscall); ("g", Some "thiscall", Some CC_Thiscall)].
Proof. vm_compute. reflexivity. Qed.

(** the whole fn-pointer type of the slots [f] and [g] *)
Example ex_vftable_slot_types :
  option_map (map (fun f => read_fnptr (ef_ty f))) (bindo (ex_struct 4 "BaseVftable") struct_fields) =
  Some [Some {| fp_abi := "thiscall";
                fp_args := [("this", tks ["*"; "const"] ++ crate_m "Base"); ("x", [Atom "u32"])];
                fp_ret := Some [Atom "u32"] |};
        Some {| fp_abi := "thiscall"; fp_args := [("this", tks ["*"; "mut"] ++ crate_m "Base")]; fp_ret := None |};
        Some {| fp_abi := "thiscall"; fp_args := [("this", tks ["*"; "mut"] ++ crate_m "Base")]; fp_ret := None |};
        Some {| fp_abi := "thiscall";
                fp_args := [("this", tks ["*"; "mut"] ++ crate_m "Base");
                            ("p", tks ["*"; "const"] ++ crate_m "Ext")];
                fp_ret := None |}].
Proof. vm_compute. reflexivity. Qed.

(** ** Part 2: the inherent impl of [Base]: accessor, the impl function, the two virtual wrappers
    (the placeholders [_vfunc_k] are internal: no wrapper) *)
Example ex_Base_impl_names :
  option_map (map fn_name) (ex_impl 4 "Base") = Some [Some "vftable"; Some "meth"; Some "f"; Some "g"].
Proof. vm_compute. reflexivity. Qed.

(** [#[address(0x78)] pub fn meth(&mut self, t: u32) -> E]: header *)
Example ex_meth_header :
  bindo (ex_fn 4 "Base" "meth") fn_name = Some "meth" /\ bindo (ex_fn 4 "Base" "meth") fn_vis = Some Public /\
  bindo (ex_fn 4 "Base" "meth") fn_unsafe = Some true /\
  bindo (ex_fn 4 "Base" "meth") fn_params = Some [EPMutSelf; EPNamed "t" [Atom "u32"]] /\
  bindo (ex_fn 4 "Base" "meth") fn_ret = Some (crate_m "E").
Proof. vm_compute. repeat split; reflexivity. Qed.

(** ... and body: address template, literal 120 = 0x78, thiscall, receiver first *)
Example ex_meth_body :
  bindo (ex_fn 4 "Base" "meth") fn_wrapper_body =
  Some (EBAddress {| fp_abi := "thiscall";
                     fp_args := [("this", tks ["*"; "mut"; "Self"]); ("t", [Atom "u32"])];
                     fp_ret := Some (crate_m "E") |}
                  120 [CASelfMut; CAName "t"]).
Proof. vm_compute. reflexivity. Qed.

(** the virtual wrappers: the slot they load and what they pass *)
Example ex_virtual_bodies :
  bindo (ex_fn 4 "Base" "f") fn_wrapper_body = Some (EBVftable "f" [CASelfConst; CAName "x"]) /\
  bindo (ex_fn 4 "Base" "g") fn_wrapper_body = Some (EBVftable "g" [CASelfMut; CAName "p"]) /\
  bindo (ex_fn 4 "Base" "f") fn_params = Some [EPSelf; EPNamed "x" [Atom "u32"]] /\
  bindo (ex_fn 4 "Base" "g") fn_params = Some [EPMutSelf; EPNamed "p" (tks ["*"; "const"] ++ crate_m "Ext")].
Proof. vm_compute. repeat split; reflexivity. Qed.

(** the accessor of a type that owns its vftable pointer: [self.vftable as *const BaseVftable] *)
Example ex_Base_accessor :
  bindo (ex_fn 4 "Base" "vftable") fn_accessor = Some (None, tks ["*"; "const"] ++ crate_m "BaseVftable") /\
  bindo (ex_fn 4 "Base" "vftable") fn_unsafe = Some false /\
  bindo (ex_fn 4 "Base" "vftable") fn_params = Some [EPSelf].
Proof. vm_compute. repeat split; reflexivity. Qed.

(** [T] has [Base] as a base field: [meth] is forwarded to the base field (the receiver is not
    passed explicitly) *)
Example ex_T_forwarding :
  option_map (map fn_name) (ex_impl 4 "T") = Some [Some "vftable"; Some "meth"; Some "f"; Some "g"] /\
  bindo (ex_fn 4 "T" "meth") fn_wrapper_body = Some (EBField "base" "meth" [CAName "t"]) /\
  bindo (ex_fn 4 "T" "meth") fn_params = Some [EPMutSelf; EPNamed "t" [Atom "u32"]].
Proof. vm_compute. repeat split; reflexivity. Qed.

(** ** Part 3: singletons and extern values
<<
#[singleton(0x1000)] pub type World { pub tick: u32 }
#[singleton(0x2000)] pub enum Mode: u8 { A, B }
#[address(0x3000)]   pub extern counter: *mut u32;
impl World {
  #[address(0x140), calling_convention("cdecl")] pub fn step(&mut self, n: u32);
  #[address(0x150)] pub fn make() -> *mut World;
}
>> *)
Definition ex2_module_text : string := "(module (attrs) (uses) (extern_types) (extern_values (evalue (attrs (fn ""address"" (int 12288))) pub ""counter"" (mptr (tid ""u32"")))) (defs (def pub ""World"" (type (attrs (fn ""singleton"" (int 4096))) (field (attrs) pub ""tick"" (tid ""u32"")))) (def pub ""Mode"" (enum (tid ""u8"") (attrs (fn ""singleton"" (int 8192))) (case (attrs) ""A"" none) (case (attrs) ""B"" none)))) (impls (impl ""World"" (attrs) (func (attrs (fn ""address"" (int 320)) (fn ""calling_convention"" (str ""cdecl""))) pub ""step"" (args mself (named ""n"" (tid ""u32""))) none) (func (attrs (fn ""address"" (int 336))) pub ""make"" (args) (some (mptr (tid ""World"")))))) (backends))".
Definition ex2_mods : list (path * gmodule) := [(["w"], module_of_text ex2_module_text)].
Definition ex2_items (ptr : N) : option (list sexp) :=
  match pyxis_resolve (hook_schedule []) ptr ex2_mods with
  | BOk st => match write_all st with
              | Ok files => bindo (option_map snd (find (fun kf => String.eqb (fst kf) "w.rs") files)) file_items
              | _ => None
              end
  | _ => None
  end.

Example ex2_item_kinds :
  option_map (map item_kind) (ex2_items 8) =
  Some [Some "opaque";
        Some "enum"; Some "fn"; Some "impl";                                        (* Mode *)
        Some "struct"; Some "fn"; Some "impl"; Some "impl"; Some "impl"; Some "impl"; (* World *)
        Some "fn";                                                                   (* get_counter *)
        Some "opaque"].
Proof. vm_compute. reflexivity. Qed.

(** [World]: the singleton impl comes first, then the impl with the wrappers *)
Example ex2_World_singleton :
  option_map (fun items => map (map (fun g => (fn_name g, fn_vis g, fn_unsafe g, fn_params g, fn_singleton_addr g)))
                               (impls_of "World" items)) (ex2_items 8) =
  Some [[(Some "get", Some Public, Some true, Some [], Some 4096%N)];
        [(Some "step", Some Public, Some true, Some [EPMutSelf; EPNamed "n" [Atom "u32"]], None);
         (Some "make", Some Public, Some true, Some [], None)]].
Proof. vm_compute. reflexivity. Qed.

Example ex2_World_get_ret :
  option_map (fun items => map (map fn_ret) (firstn 1 (impls_of "World" items))) (ex2_items 8) =
  Some [[Some (tks ["Option"; "<"; "&"; "'"; "static"; "mut"; "Self"; ">"])]].
Proof. vm_compute. reflexivity. Qed.

(** the wrappers of [World]: a declared convention, and the defaults (thiscall needs a receiver:
    [make] has none and is [system]) *)
Example ex2_World_wrappers :
  option_map (fun items => map (map fn_wrapper_body) (skipn 1 (impls_of "World" items))) (ex2_items 8) =
  Some [[Some (EBAddress {| fp_abi := "cdecl";
                            fp_args := [("this", tks ["*"; "mut"; "Self"]); ("n", [Atom "u32"])];
                            fp_ret := None |} 320 [CASelfMut; CAName "n"]);
         Some (EBAddress {| fp_abi := "system"; fp_args := [];
                            fp_ret := Some (tks ["*"; "mut"; "crate"; ":"; ":"; "w"; ":"; ":"; "World"]) |}
                         336 [])]].
Proof. vm_compute. reflexivity. Qed.

(** the enum singleton *)
Example ex2_Mode_singleton :
  option_map (fun items => map (map (fun g => (fn_name g, fn_vis g, fn_ret g, fn_enum_singleton_addr g)))
                               (impls_of "Mode" items)) (ex2_items 8) =
  Some [[(Some "get", Some Public, Some [Atom "Self"], Some 8192%N)]].
Proof. vm_compute. reflexivity. Qed.

(** the extern value *)
Example ex2_extern_value :
  option_map (fun items => map (fun g => (fn_name g, fn_vis g, fn_unsafe g, fn_params g,
                                          fn_ret_static_mut g, fn_extern_target g))
                               (filter (is_fn_named "get_counter") items)) (ex2_items 8) =
  Some [(Some "get_counter", Some Public, Some true, Some [],
         Some (tks ["*"; "mut"; "u32"]), Some (12288%N, tks ["*"; "mut"; "u32"]))].
Proof. vm_compute. reflexivity. Qed.

(** ** the hypotheses of the whole-build theorems are met by the first input *)
Definition ex_fn_hyps_check : bool :=
  match input_state 4 ex_mods, pyxis_resolve (hook_schedule []) 4 ex_mods with
  | Ok st0, BOk st =>
    collision_freeb (st_reg st0) && is_ok (write_all st) &&
    match reg_get (st_reg st0) ["m"; "Base"], alookup ["m"] (st_modules st0) with
    | Some it0, Some module0 =>
      match it_state it0, alookup ["m"; "Base"] (m_impls module0) with
      | Unresolved gd, Some blk =>
        match gi_inner gd with
        | GIType td0 =>
          match gt_stmts td0 with
          | stm :: _ => match gs_field stm with GVftable gfs => Nat.eqb (List.length gfs) 2 | _ => false end
          | [] => false
          end &&
          match gb_fns blk with
          | [gf] => String.eqb (gf_name gf) "meth" && negb (starts_with "_" (gf_name gf))
          | _ => false
          end
        | GIEnum _ => false
        end
      | _, _ => false
      end
    | _, _ => false
    end
  | _, _ => false
  end.

(** [emitted_wrappers_whole_build], [emitted_impl_function_whole_build] (function [meth]) and
    [emitted_vftable_whole_build] apply to [m::Base] *)
Example ex_fn_hypotheses :
  ex_fn_hyps_check = true /\ NoDup (map fst ex_mods) /\ keeps_work (hook_schedule []) /\
  path_parent ["m"; "Base"] = Some ["m"] /\ ["m"] <> ([] : path).
Proof.
  split; [vm_compute; reflexivity|]. split; [repeat constructor; intros []|].
  split; [apply perm_keeps_work; intros l; apply hook_schedule_perm|]. split; [reflexivity | discriminate].
Qed.
