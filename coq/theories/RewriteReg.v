(** * RewriteReg (C20, local rewrites, part 1): registration of two inputs whose definitions are
    related one by one.

    [rewritten_gen D mods mods']: the same modules under the same paths in the same order, with the
    same uses, extern types, extern values, impl blocks, backends and attributes; the definitions of
    a module of [mods'] are, one by one and in the same order, related to those of [mods] by
    [def_rel]: same name, same visibility, and [D p d d'] at the item's path [p].

    Registration ([input_state]) of the two inputs succeeds or fails together, and the two input
    states are related by [xrel]: the registries have the same keys in the same order, with items
    that differ only in the description an unresolved item carries (related by [D]); the module
    tables differ only in [m_ast] (same [gm_uses]). *)
From Coq Require Import List NArith ZArith Bool Lia String Permutation.
From PyxisModel Require Import Base Grammar SemTypes Registry Sem SemLemmas ScopeLemmas
     PlacementLemmas TotalityLemmas EmitLemmas WholeBuild Monotone OrderIndep SortUnique
     EmitInvariance FinalState OutputIndep Unrelated ReorderReg.
Import ListNotations.
Local Open Scope string_scope.
Local Open Scope list_scope.

(** ** association lists related position by position *)
Definition arel {V} (Q : V -> V -> Prop) (l l' : list (path * V)) : Prop :=
  Forall2 (fun kv kv' => fst kv = fst kv' /\ Q (snd kv) (snd kv')) l l'.

Lemma arel_keys {V} (Q : V -> V -> Prop) l l' : arel Q l l' -> map fst l = map fst l'.
Proof. induction 1 as [|a b l l' [Hk _] _ IH]; cbn [map]; [reflexivity | now rewrite Hk, IH]. Qed.

Lemma arel_lookup {V} (Q : V -> V -> Prop) l l' k : arel Q l l' ->
  match alookup k l, alookup k l' with
  | Some v, Some v' => Q v v'
  | None, None => True
  | _, _ => False
  end.
Proof.
  induction 1 as [|[k1 m1] [k2 m2] l l' [Hk Hm] _ IH]; cbn [alookup]; [exact I|].
  cbn [fst snd] in *. subst k2. destruct (path_eqb k k1); [exact Hm | exact IH].
Qed.

Lemma arel_insert {V} (Q : V -> V -> Prop) l l' k v v' : arel Q l l' -> Q v v' ->
  arel Q (ainsert k v l) (ainsert k v' l').
Proof.
  intros H Hv. induction H as [|[k1 m1] [k2 m2] l l' [Hk Hm] Hrest IH]; cbn [ainsert].
  - constructor; [split; [reflexivity | exact Hv] | constructor].
  - cbn [fst snd] in *. subst k2. destruct (path_eqb k k1).
    + constructor; [split; [reflexivity | exact Hv] | exact Hrest].
    + constructor; [split; [reflexivity | exact Hm] | exact IH].
Qed.

Lemma arel_refl {V} (Q : V -> V -> Prop) : (forall v, Q v v) -> forall l, arel Q l l.
Proof. intros H. induction l; constructor; auto. Qed.

Lemma arel_sym {V} (Q Q' : V -> V -> Prop) : (forall a b, Q a b -> Q' b a) ->
  forall l l', arel Q l l' -> arel Q' l' l.
Proof. intros H. induction 1 as [|a b l l' [Hk Hq] _ IH]; constructor; auto. Qed.

Lemma arel_mem {V} (Q : V -> V -> Prop) l l' k : arel Q l l' -> amem k l = amem k l'.
Proof.
  intros H. pose proof (arel_lookup Q l l' k H) as Hl. unfold amem.
  destruct (alookup k l), (alookup k l'); try contradiction; reflexivity.
Qed.

Section Reg.
  (** the relation between the two descriptions of the item at a path *)
  Variable D : path -> gitemdef -> gitemdef -> Prop.
  Hypothesis D_refl : forall p d, D p d d.

  Definition def_rel (mp : path) (d d' : gitemdef) : Prop :=
    gi_name d = gi_name d' /\ gi_vis d = gi_vis d' /\ D (path_join mp (gi_name d)) d d'.

  Definition ast_rel (mp : path) (a a' : gmodule) : Prop :=
    gm_uses a = gm_uses a' /\ gm_extern_types a = gm_extern_types a' /\
    gm_extern_values a = gm_extern_values a' /\ Forall2 (def_rel mp) (gm_defs a) (gm_defs a') /\
    gm_impls a = gm_impls a' /\ gm_backends a = gm_backends a' /\ gm_attrs a = gm_attrs a'.

  Definition rewritten_gen (mods mods' : list (path * gmodule)) : Prop :=
    Forall2 (fun pm pm' => fst pm = fst pm' /\ ast_rel (fst pm) (snd pm) (snd pm')) mods mods'.

  (** ** the relation on states *)
  Definition state_rel (p : path) (s s' : item_state) : Prop :=
    match s, s' with
    | Resolved r, Resolved r' => r = r'
    | Unresolved d, Unresolved d' => D p d d'
    | _, _ => False
    end.
  Definition item_rel (it it' : item) : Prop :=
    it_vis it = it_vis it' /\ it_path it = it_path it' /\ it_cat it = it_cat it' /\
    state_rel (it_path it) (it_state it) (it_state it').

  Definition mrelx (m m' : smodule) : Prop :=
    m_path m = m_path m' /\ gm_uses (m_ast m) = gm_uses (m_ast m') /\ m_defpaths m = m_defpaths m' /\
    m_extern_values m = m_extern_values m' /\ m_impls m = m_impls m' /\ m_backends m = m_backends m' /\
    m_doc m = m_doc m'.

  Definition xrel (st st' : sstate) : Prop :=
    arel item_rel (reg_types (st_reg st)) (reg_types (st_reg st')) /\
    reg_ptr (st_reg st) = reg_ptr (st_reg st') /\
    arel mrelx (st_modules st) (st_modules st').

  Lemma item_rel_refl it : item_rel it it.
  Proof. repeat split. unfold state_rel. destruct (it_state it); [apply D_refl | reflexivity]. Qed.
  Lemma mrelx_refl m : mrelx m m.
  Proof. repeat split. Qed.
  Lemma xrel_refl st : xrel st st.
  Proof. split; [apply arel_refl, item_rel_refl|]. split; [reflexivity | apply arel_refl, mrelx_refl]. Qed.

  Lemma mrelx_add_defpath p m m' : mrelx m m' -> mrelx (add_defpath p m) (add_defpath p m').
  Proof.
    intros (A & B & C & E & F & G & H). unfold mrelx, add_defpath.
    cbn [m_path m_ast m_defpaths m_extern_values m_impls m_backends m_doc].
    rewrite C. repeat split; assumption.
  Qed.

  (** ** registration steps respect the relation *)
  Lemma add_item_xrel st st' it it' s : xrel st st' -> item_rel it it' -> add_item st it = Ok s ->
    exists s', add_item st' it' = Ok s' /\ xrel s s'.
  Proof.
    intros (HR & HP & HM) Hit H. pose proof Hit as (_ & Hpath & _). unfold add_item in *. rewrite <- Hpath.
    destruct (path_parent (it_path it)) as [parent|]; [|discriminate].
    pose proof (arel_lookup _ _ _ parent HM) as Hl.
    destruct (alookup parent (st_modules st)) as [m|]; [|discriminate].
    destruct (alookup parent (st_modules st')) as [m'|]; [|contradiction].
    inversion H; subst s; clear H. eexists. split; [reflexivity|].
    split; [|split]; cbn [st_reg st_modules reg_add reg_types reg_ptr].
    - rewrite <- Hpath. now apply arel_insert.
    - exact HP.
    - apply arel_insert; [exact HM | now apply mrelx_add_defpath].
  Qed.

  Lemma xrel_reg_has st st' p : xrel st st' -> reg_has (st_reg st) p = reg_has (st_reg st') p.
  Proof. intros (HR & _). unfold reg_has. eapply arel_mem; eauto. Qed.

  Lemma add_definition_xrel mp st st' d d' s : xrel st st' -> def_rel mp d d' ->
    add_definition mp st d = Ok s -> exists s', add_definition mp st' d' = Ok s' /\ xrel s s'.
  Proof.
    intros HS (Hn & Hv & Hd) H. unfold add_definition in *. rewrite <- Hn, <- Hv.
    rewrite <- (xrel_reg_has _ _ _ HS). destruct (reg_has (st_reg st) _); [discriminate|].
    eapply add_item_xrel; [exact HS | | exact H]. repeat split; cbn [it_vis it_path it_cat it_state state_rel]. exact Hd.
  Qed.

  Lemma add_extern_type_xrel mp st st' e s : xrel st st' -> add_extern_type mp st e = Ok s ->
    exists s', add_extern_type mp st' e = Ok s' /\ xrel s s'.
  Proof.
    intros HS H. unfold add_extern_type in *.
    destruct (foldM scan_extern_type_attr (snd e) (None, None)) as [sa| | |]; cbn [bind] in *; try discriminate.
    destruct sa as [[size|] [al|]]; try discriminate.
    rewrite <- (xrel_reg_has _ _ _ HS). destruct (reg_has (st_reg st) _); [discriminate|].
    eapply add_item_xrel; [exact HS | apply item_rel_refl | exact H].
  Qed.

  Lemma foldM_xrel2 {A} (P : A -> A -> Prop) (f : sstate -> A -> outcome sstate) :
    (forall st st' x x' s, xrel st st' -> P x x' -> f st x = Ok s -> exists s', f st' x' = Ok s' /\ xrel s s') ->
    forall l l', Forall2 P l l' -> forall st st' s, xrel st st' -> foldM f l st = Ok s ->
    exists s', foldM f l' st' = Ok s' /\ xrel s s'.
  Proof.
    intros Hf. induction 1 as [|x x' l l' Hx _ IH]; intros st st' s HS H; cbn [foldM] in *.
    - inversion H; subst. eauto.
    - inv_bind H. destruct (Hf _ _ _ _ _ HS Hx Ha) as (a' & Ha' & HS'). rewrite Ha'. cbn [bind]. eauto.
  Qed.

  Lemma Forall2_eq_refl {A} (l : list A) : Forall2 eq l l.
  Proof. induction l; constructor; auto. Qed.

  Lemma add_module_xrel st st' mp ast ast' s : xrel st st' -> ast_rel mp ast ast' ->
    add_module st mp ast = Ok s -> exists s', add_module st' mp ast' = Ok s' /\ xrel s s'.
  Proof.
    intros HS HA H. pose proof HA as (Hu & Het & Hev & Hd & Hi & Hb & Hat).
    unfold add_module in *. rewrite <- Hev, <- Het.
    destruct (mapM extern_value_of (gm_extern_values ast)) as [evs| | |]; cbn [bind] in *; try discriminate.
    unfold module_new in *. rewrite <- Hat.
    destruct (attrs_doc (gm_attrs ast)) as [doc| | |]; cbn [bind] in *; try discriminate.
    destruct (foldM (add_definition mp) (gm_defs ast) _) as [s2| | |] eqn:E2; cbn [bind] in H; try discriminate.
    destruct HS as (HR & HP & HM).
    match type of E2 with foldM _ _ ?x = _ => set (st1 := x) in * end.
    set (st1' := {| st_modules := ainsert mp {| m_path := mp; m_ast := ast'; m_defpaths := []; m_extern_values := evs;
                                              m_impls := merge_impls mp (gm_impls ast') [];
                                              m_backends := map (fun b => (gbk_name b, (gbk_pro b, gbk_epi b))) (gm_backends ast');
                                              m_doc := doc |} (st_modules st');
                   st_reg := st_reg st' |}).
    assert (xrel st1 st1') as HS1.
    { split; [exact HR|]. split; [exact HP|]. cbn [st1 st1' st_modules]. apply arel_insert; [exact HM|].
      unfold mrelx. cbn [m_path m_ast m_impls m_extern_values m_backends m_doc m_defpaths].
      rewrite Hi, Hb. repeat split; auto. }
    destruct (foldM_xrel2 (def_rel mp) (add_definition mp)
                (fun a b x x' s0 X Y Z => add_definition_xrel mp a b x x' s0 X Y Z) _ _ Hd _ _ _ HS1 E2) as (s2' & H2' & HS2).
    fold st1'. rewrite H2'. cbn [bind].
    apply (foldM_xrel2 eq (add_extern_type mp)
             (fun a b x x' s0 X (Y : x = x') Z => eq_ind x (fun y => exists s', add_extern_type mp b y = Ok s' /\ xrel s0 s')
                                                     (add_extern_type_xrel mp a b x s0 X Z) x' Y)
             _ _ (Forall2_eq_refl _) _ _ _ HS2 H).
  Qed.

  Lemma add_modules_xrel mods mods' : rewritten_gen mods mods' -> forall a b st0, xrel a b ->
    foldM (fun st pm => add_module st (fst pm) (snd pm)) mods a = Ok st0 ->
    exists st0', foldM (fun st pm => add_module st (fst pm) (snd pm)) mods' b = Ok st0' /\ xrel st0 st0'.
  Proof.
    induction 1 as [|[mp ast] [mp' ast'] l l' [Hk Hast] _ IH]; intros a b st0 HS H; cbn [foldM] in *.
    - inversion H; subst. eauto.
    - cbn [fst snd] in *. subst mp'. inv_bind H.
      destruct (add_module_xrel _ _ _ _ _ _ HS Hast Ha) as (a1 & Ha1 & HS1). rewrite Ha1. cbn [bind].
      eapply IH; eauto.
  Qed.

  Theorem input_state_rewritten ptr mods mods' st0 :
    rewritten_gen mods mods' -> input_state ptr mods = Ok st0 ->
    exists st0', input_state ptr mods' = Ok st0' /\ xrel st0 st0'.
  Proof.
    intros HR H. unfold input_state in *. inv_bind H. rewrite Ha. cbn [bind].
    eapply add_modules_xrel; [exact HR | apply xrel_refl | exact H].
  Qed.
End Reg.

(** the converse relation *)
Definition flipD (D : path -> gitemdef -> gitemdef -> Prop) : path -> gitemdef -> gitemdef -> Prop :=
  fun p d d' => D p d' d.

Lemma rewritten_gen_flip (D : path -> gitemdef -> gitemdef -> Prop) mods mods' : rewritten_gen D mods mods' -> rewritten_gen (flipD D) mods' mods.
Proof.
  induction 1 as [|[mp a] [mp' a'] l l' [Hk (A & B & C & E & F & G & H)] _ IH]; constructor; [|exact IH].
  cbn [fst snd] in *. subst mp'. split; [reflexivity|]. unfold ast_rel. repeat split; try (symmetry; assumption).
  clear - E. induction E as [|d d' l l' (Hn & Hv & Hd) _ IH]; constructor; [|exact IH].
  unfold def_rel, flipD. rewrite <- Hn. repeat split; auto.
Qed.

(** registration succeeds for both inputs or for neither *)
Theorem input_state_rewritten_ok (D : path -> gitemdef -> gitemdef -> Prop) ptr mods mods' :
  (forall p d, D p d d) -> rewritten_gen D mods mods' ->
  is_ok (input_state ptr mods) = is_ok (input_state ptr mods').
Proof.
  intros Hrefl HR.
  assert (forall p d, flipD D p d d) as Hrefl' by (intros; apply Hrefl).
  pose proof (rewritten_gen_flip _ _ _ HR) as HR'.
  destruct (input_state ptr mods) as [s| | |] eqn:E.
  - destruct (input_state_rewritten D Hrefl _ _ _ _ HR E) as (s' & -> & _). reflexivity.
  - destruct (input_state ptr mods') as [s'| | |] eqn:E'; try reflexivity.
    destruct (input_state_rewritten _ Hrefl' _ _ _ _ HR' E') as (s2 & E2 & _). congruence.
  - destruct (input_state ptr mods') as [s'| | |] eqn:E'; try reflexivity.
    destruct (input_state_rewritten _ Hrefl' _ _ _ _ HR' E') as (s2 & E2 & _). congruence.
  - destruct (input_state ptr mods') as [s'| | |] eqn:E'; try reflexivity.
    destruct (input_state_rewritten _ Hrefl' _ _ _ _ HR' E') as (s2 & E2 & _). congruence.
Qed.
