(** * Grammar: the abstract syntax of .pyxis modules (mirror of src/grammar.rs)
    and its reading from the S-expressions written by the harness. *)
From PyxisModel Require Import Base Sexp.
Local Open Scope string_scope.

Inductive gtype : Type :=
| GConstPtr (t : gtype)
| GMutPtr (t : gtype)
| GArray (t : gtype) (n : N)
| GIdent (s : string)
| GUnknown (n : N).

Inductive gexpr : Type := EInt (z : Z) | EStr (s : string) | EIdent (s : string).
Inductive gattr : Type :=
| AIdent (s : string)
| AFn (s : string) (args : list gexpr)
| AAssign (s : string) (e : gexpr).
Inductive vis : Type := Public | Private.
Inductive garg : Type := GConstSelf | GMutSelf | GNamed (name : string) (t : gtype).

Record gfunction := {
  gf_vis : vis; gf_name : string; gf_attrs : list gattr;
  gf_args : list garg; gf_ret : option gtype }.
Inductive gtypefield : Type :=
| GField (v : vis) (name : string) (t : gtype)
| GVftable (fs : list gfunction).
Record gstatement := { gs_field : gtypefield; gs_attrs : list gattr }.
Record gtypedef := { gt_stmts : list gstatement; gt_attrs : list gattr }.
Record genumstmt := { ge_name : string; ge_expr : option gexpr; ge_attrs : list gattr }.
Record genumdef := { ged_type : gtype; ged_stmts : list genumstmt; ged_attrs : list gattr }.
Inductive gitem_inner : Type := GIType (td : gtypedef) | GIEnum (ed : genumdef).
Record gitemdef := { gi_vis : vis; gi_name : string; gi_inner : gitem_inner }.
Record gfnblock := { gb_name : string; gb_fns : list gfunction; gb_attrs : list gattr }.
Record gbackend := { gbk_name : string; gbk_pro : option string; gbk_epi : option string }.
Record gexternvalue := {
  gev_vis : vis; gev_name : string; gev_type : gtype; gev_attrs : list gattr }.
Record gmodule := {
  gm_uses : list path;
  gm_extern_types : list (string * list gattr);
  gm_extern_values : list gexternvalue;
  gm_defs : list gitemdef;
  gm_impls : list gfnblock;
  gm_backends : list gbackend;
  gm_attrs : list gattr }.

Definition empty_module : gmodule :=
  {| gm_uses := []; gm_extern_types := []; gm_extern_values := []; gm_defs := [];
     gm_impls := []; gm_backends := []; gm_attrs := [] |}.

(** ** Attributes::doc (src/grammar.rs), after the empty-line fix:
    [None] when no doc attribute; error when a doc attribute is not a string *)
Fixpoint attrs_doc_aux (l : list gattr) (acc : option string) : outcome (option string) :=
  match l with
  | [] => Ok acc
  | AAssign k v :: r =>
    if String.eqb k "doc" then
      match v with
      | EStr s => attrs_doc_aux r (Some (match acc with Some d => d ++ String newline s | None => s end))
      | _ => Err "doc attribute must be a string literal"
      end
    else attrs_doc_aux r acc
  | _ :: r => attrs_doc_aux r acc
  end.
Definition attrs_doc (l : list gattr) : outcome (option string) := attrs_doc_aux l None.

(** ** Reading from S-expressions *)
Definition obind {A B} (x : option A) (f : A -> option B) : option B :=
  match x with Some a => f a | None => None end.
Notation "'olet' x <- e ; k" := (obind e (fun x => k)) (at level 200, x pattern, e at level 100, k at level 200).
Fixpoint omap {A B} (f : A -> option B) (l : list A) : option (list B) :=
  match l with
  | [] => Some []
  | a :: r => olet b <- f a; olet bs <- omap f r; Some (b :: bs)
  end.

Fixpoint gtype_of_sexp (e : sexp) : option gtype :=
  match e with
  | SList [Atom "cptr"; t] => option_map GConstPtr (gtype_of_sexp t)
  | SList [Atom "mptr"; t] => option_map GMutPtr (gtype_of_sexp t)
  | SList [Atom "array"; t; n] => olet t' <- gtype_of_sexp t; olet n' <- atom_N n; Some (GArray t' n')
  | SList [Atom "tid"; Str s] => Some (GIdent s)
  | SList [Atom "unknown"; n] => option_map GUnknown (atom_N n)
  | _ => None
  end.
Definition gexpr_of_sexp (e : sexp) : option gexpr :=
  match e with
  | SList [Atom "int"; z] => option_map EInt (atom_Z z)
  | SList [Atom "str"; Str s] => Some (EStr s)
  | SList [Atom "id"; Str s] => Some (EIdent s)
  | _ => None
  end.
Definition gattr_of_sexp (e : sexp) : option gattr :=
  match e with
  | SList [Atom "ident"; Str s] => Some (AIdent s)
  | SList (Atom "fn" :: Str s :: args) => option_map (AFn s) (omap gexpr_of_sexp args)
  | SList [Atom "assign"; Str s; v] => option_map (AAssign s) (gexpr_of_sexp v)
  | _ => None
  end.
Definition gattrs_of_sexp (e : sexp) : option (list gattr) :=
  olet l <- tagged "attrs" e; omap gattr_of_sexp l.
Definition vis_of_sexp (e : sexp) : option vis :=
  match e with Atom "pub" => Some Public | Atom "priv" => Some Private | _ => None end.
Definition opt_of_sexp {A} (f : sexp -> option A) (e : sexp) : option (option A) :=
  match e with
  | Atom "none" => Some None
  | SList [Atom "some"; x] => option_map Some (f x)
  | _ => None
  end.
Definition garg_of_sexp (e : sexp) : option garg :=
  match e with
  | Atom "cself" => Some GConstSelf
  | Atom "mself" => Some GMutSelf
  | SList [Atom "named"; Str n; t] => option_map (GNamed n) (gtype_of_sexp t)
  | _ => None
  end.
Definition gfunction_of_sexp (e : sexp) : option gfunction :=
  match e with
  | SList [Atom "func"; a; v; Str n; SList (Atom "args" :: args); r] =>
    olet a' <- gattrs_of_sexp a; olet v' <- vis_of_sexp v; olet args' <- omap garg_of_sexp args;
    olet r' <- opt_of_sexp gtype_of_sexp r;
    Some {| gf_vis := v'; gf_name := n; gf_attrs := a'; gf_args := args'; gf_ret := r' |}
  | _ => None
  end.
Definition path_of_sexp (e : sexp) : option path :=
  olet l <- tagged "path" e; omap get_str l.
Definition gstatement_of_sexp (e : sexp) : option gstatement :=
  match e with
  | SList [Atom "field"; a; v; Str n; t] =>
    olet a' <- gattrs_of_sexp a; olet v' <- vis_of_sexp v; olet t' <- gtype_of_sexp t;
    Some {| gs_field := GField v' n t'; gs_attrs := a' |}
  | SList (Atom "vftable" :: a :: fs) =>
    olet a' <- gattrs_of_sexp a; olet fs' <- omap gfunction_of_sexp fs;
    Some {| gs_field := GVftable fs'; gs_attrs := a' |}
  | _ => None
  end.
Definition genumstmt_of_sexp (e : sexp) : option genumstmt :=
  match e with
  | SList [Atom "case"; a; Str n; x] =>
    olet a' <- gattrs_of_sexp a; olet x' <- opt_of_sexp gexpr_of_sexp x;
    Some {| ge_name := n; ge_expr := x'; ge_attrs := a' |}
  | _ => None
  end.
Definition gitemdef_of_sexp (e : sexp) : option gitemdef :=
  match e with
  | SList [Atom "def"; v; Str n; SList (Atom "type" :: a :: stmts)] =>
    olet v' <- vis_of_sexp v; olet a' <- gattrs_of_sexp a; olet st <- omap gstatement_of_sexp stmts;
    Some {| gi_vis := v'; gi_name := n; gi_inner := GIType {| gt_stmts := st; gt_attrs := a' |} |}
  | SList [Atom "def"; v; Str n; SList (Atom "enum" :: t :: a :: stmts)] =>
    olet v' <- vis_of_sexp v; olet t' <- gtype_of_sexp t; olet a' <- gattrs_of_sexp a;
    olet st <- omap genumstmt_of_sexp stmts;
    Some {| gi_vis := v'; gi_name := n;
            gi_inner := GIEnum {| ged_type := t'; ged_stmts := st; ged_attrs := a' |} |}
  | _ => None
  end.
Definition gmodule_of_sexp (e : sexp) : option gmodule :=
  match e with
  | SList [Atom "module"; a; SList (Atom "uses" :: uses); SList (Atom "extern_types" :: ets);
           SList (Atom "extern_values" :: evs); SList (Atom "defs" :: defs);
           SList (Atom "impls" :: impls); SList (Atom "backends" :: bks)] =>
    olet a' <- gattrs_of_sexp a;
    olet uses' <- omap path_of_sexp uses;
    olet ets' <- omap (fun e => match e with
                                | SList [Atom "etype"; Str n; at_] => option_map (pair n) (gattrs_of_sexp at_)
                                | _ => None end) ets;
    olet evs' <- omap (fun e => match e with
                                | SList [Atom "evalue"; at_; v; Str n; t] =>
                                  olet at' <- gattrs_of_sexp at_; olet v' <- vis_of_sexp v;
                                  olet t' <- gtype_of_sexp t;
                                  Some {| gev_vis := v'; gev_name := n; gev_type := t'; gev_attrs := at' |}
                                | _ => None end) evs;
    olet defs' <- omap gitemdef_of_sexp defs;
    olet impls' <- omap (fun e => match e with
                                  | SList (Atom "impl" :: Str n :: at_ :: fs) =>
                                    olet at' <- gattrs_of_sexp at_; olet fs' <- omap gfunction_of_sexp fs;
                                    Some {| gb_name := n; gb_fns := fs'; gb_attrs := at' |}
                                  | _ => None end) impls;
    olet bks' <- omap (fun e => match e with
                                | SList [Atom "backend"; Str n; p; ep] =>
                                  olet p' <- opt_of_sexp get_str p; olet ep' <- opt_of_sexp get_str ep;
                                  Some {| gbk_name := n; gbk_pro := p'; gbk_epi := ep' |}
                                | _ => None end) bks;
    Some {| gm_uses := uses'; gm_extern_types := ets'; gm_extern_values := evs'; gm_defs := defs';
            gm_impls := impls'; gm_backends := bks'; gm_attrs := a' |}
  | _ => None
  end.
