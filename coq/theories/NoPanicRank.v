(** * NoPanicRank: the [#[base]] hierarchy of every registry of a build is well-founded, with depth
    bounded by the number of resolved entries.

    [RankInv R]: there is a rank on paths, below the number of resolved entries of [R] on resolved
    items, strictly decreasing from a resolved struct to the (resolved) type of each of its base
    regions.  It holds of input states (their resolved items have no region), is kept by adding a
    resolved item whose base types are resolved already ([rank_add]: a new entry takes the next
    rank; a replaced resolved entry -- only the generated vftable struct, which has no base region --
    keeps its own), hence by every attempt ([KInv_step]: a base region is held by value, so
    [resolve_regions_sizes] gives that its type was resolved when the deriving type was built).
    (b): [dfs_hierarchy] with fuel [S (length (reg_types R))] never reports exhausted fuel. *)
From Coq Require Import List NArith ZArith Bool Lia String Ascii.
From PyxisModel Require Import Base Sexp Grammar SemTypes Registry Sem SemLemmas PlacementLemmas TotalityLemmas Emit
     NoPanic WholeBuild FinalState NoPanicBase NoPanicNames.
Import ListNotations.
Local Open Scope string_scope.
Local Open Scope list_scope.

(** ** the number of resolved entries *)
Definition res_kv (kv : path * item) : bool := item_is_resolved (snd kv).
Definition nres (R : registry) : nat := List.length (filter res_kv (reg_types R)).

Lemma filter_length_le' {A} (f : A -> bool) l : (List.length (filter f l) <= List.length l)%nat.
Proof. induction l as [|a l IH]; cbn; [lia|]. destruct (f a); cbn; lia. Qed.

Lemma nres_le R : (nres R <= List.length (reg_types R))%nat.
Proof. apply filter_length_le'. Qed.

Lemma nres_pos R p it : reg_get R p = Some it -> item_is_resolved it = true -> (0 < nres R)%nat.
Proof.
  unfold reg_get, nres. intros Hg Hr. destruct (alookup_in _ _ _ Hg) as (k & Hin & _).
  assert (In (k, it) (filter res_kv (reg_types R))) as X by (apply filter_In; split; [exact Hin | exact Hr]).
  destruct (filter res_kv (reg_types R)); [destruct X | cbn; lia].
Qed.

Lemma ainsert_count k v : item_is_resolved v = true -> forall l,
  List.length (filter res_kv (ainsert k v l)) =
  match alookup k l with
  | Some old => if item_is_resolved old then List.length (filter res_kv l) else S (List.length (filter res_kv l))
  | None => S (List.length (filter res_kv l))
  end.
Proof.
  intros Hv. induction l as [|[k' v'] l IH]; cbn [ainsert alookup].
  - cbn [filter]. change (res_kv (k, v)) with (item_is_resolved v). rewrite Hv. reflexivity.
  - destruct (path_eqb k k'); cbn [filter]; change (res_kv (k', v')) with (item_is_resolved v').
    + change (res_kv (k, v)) with (item_is_resolved v). rewrite Hv. destruct (item_is_resolved v'); reflexivity.
    + destruct (item_is_resolved v'); cbn [List.length]; rewrite IH;
        destruct (alookup k l) as [old|]; try destruct (item_is_resolved old); reflexivity.
Qed.

Lemma nres_add R it : item_is_resolved it = true ->
  nres (reg_add R it) =
  match reg_get R (it_path it) with
  | Some old => if item_is_resolved old then nres R else S (nres R)
  | None => S (nres R)
  end.
Proof. intros H. unfold nres, reg_add, reg_get. cbn [reg_types]. now apply ainsert_count. Qed.

(** ** the [#[base]] hierarchy is ranked *)
Definition is_res (R : registry) (q : path) : Prop := exists it, reg_get R q = Some it /\ item_is_resolved it = true.

Definition ranked (R : registry) (rank : path -> nat) : Prop :=
  (forall p it rs td r q, reg_get R p = Some it -> item_resolved it = Some rs -> rs_inner rs = IType td ->
     In r (td_regions td) -> r_is_base r = true -> r_type r = TRaw q ->
     is_res R q /\ (rank q < rank p)%nat) /\
  (forall p, is_res R p -> (rank p < nres R)%nat).
Definition RankInv (R : registry) : Prop := exists rank, ranked R rank.

Lemma item_resolved_is it rs : item_resolved it = Some rs -> item_is_resolved it = true.
Proof. unfold item_resolved, item_is_resolved. destruct (it_state it); [discriminate | reflexivity]. Qed.

Lemma is_res_add R it q : item_is_resolved it = true -> is_res R q -> is_res (reg_add R it) q.
Proof.
  intros Hr (it' & Hg & Hr'). destruct (path_eqb_spec (it_path it) q) as [<-|Hne].
  - exists it. split; [apply reg_get_add_same | exact Hr].
  - exists it'. split; [rewrite reg_get_add_other by exact Hne; exact Hg | exact Hr'].
Qed.

(** bases of the new item: resolved already *)
Definition bases_resolved (R : registry) (rs : resolved) : Prop :=
  forall td r q, rs_inner rs = IType td -> In r (td_regions td) -> r_is_base r = true -> r_type r = TRaw q ->
    is_res R q.
Definition no_bases (rs : resolved) : Prop :=
  forall td r, rs_inner rs = IType td -> In r (td_regions td) -> r_is_base r = false.

Lemma rank_add R it rs :
  RankInv R -> item_resolved it = Some rs -> bases_resolved R rs ->
  (~ is_res R (it_path it) \/ no_bases rs) ->
  RankInv (reg_add R it).
Proof.
  intros (rank & H1 & H2) Hrs Hb Hor. pose proof (item_resolved_is _ _ Hrs) as Hres.
  set (p0 := it_path it).
  assert (is_res R p0 \/ ~ is_res R p0) as [Hold|Hnew].
  { unfold is_res. destruct (reg_get R p0) as [old|]; [|right; intros (x & E & _); discriminate].
    destruct (item_is_resolved old) eqn:Eo; [left; eauto|]. right. intros (x & E & Hx). inversion E; subst. congruence. }
  - (* an already resolved entry is replaced: it has no base region *)
    destruct Hor as [Hn|Hnb]; [contradiction|].
    assert (nres (reg_add R it) = nres R) as Hn.
    { rewrite (nres_add _ _ Hres). fold p0. destruct Hold as (old & -> & ->). reflexivity. }
    exists rank. split.
    + intros p it' rs' td r q Hg Hr' Hi Hin Hbase Hty.
      destruct (path_eqb_spec p0 p) as [<-|Hne].
      * unfold p0 in Hg. rewrite reg_get_add_same in Hg. inversion Hg; subst it'. rewrite Hrs in Hr'. inversion Hr'; subst rs'.
        rewrite (Hnb _ _ Hi Hin) in Hbase. discriminate.
      * rewrite reg_get_add_other in Hg by exact Hne.
        destruct (H1 _ _ _ _ _ _ Hg Hr' Hi Hin Hbase Hty) as [Hq Hlt]. split; [now apply is_res_add | exact Hlt].
    + intros p (it' & Hg & Hr'). rewrite Hn. apply H2.
      destruct (path_eqb_spec p0 p) as [<-|Hne]; [exact Hold|].
      rewrite reg_get_add_other in Hg by exact Hne. exists it'. auto.
  - (* a new resolved entry: it gets the next rank *)
    assert (nres (reg_add R it) = S (nres R)) as Hn.
    { rewrite (nres_add _ _ Hres). fold p0. destruct (reg_get R p0) as [old|] eqn:Eo; [|reflexivity].
      destruct (item_is_resolved old) eqn:Er; [|reflexivity]. exfalso. apply Hnew. exists old. auto. }
    exists (fun x => if path_eqb x p0 then nres R else rank x). split.
    + intros p it' rs' td r q Hg Hr' Hi Hin Hbase Hty.
      destruct (path_eqb_spec p0 p) as [<-|Hne].
      * unfold p0 in Hg. rewrite reg_get_add_same in Hg. inversion Hg; subst it'. rewrite Hrs in Hr'. inversion Hr'; subst rs'.
        pose proof (Hb _ _ _ Hi Hin Hbase Hty) as Hq. split; [now apply is_res_add|].
        rewrite path_eqb_refl. destruct (path_eqb_spec q p0) as [->|Hq']; [contradiction|]. now apply H2.
      * rewrite reg_get_add_other in Hg by exact Hne.
        destruct (H1 _ _ _ _ _ _ Hg Hr' Hi Hin Hbase Hty) as [Hq Hlt]. split; [now apply is_res_add|].
        destruct (path_eqb_spec p p0) as [->|_]; [congruence|].
        destruct (path_eqb_spec q p0) as [->|_]; [contradiction | exact Hlt].
    + intros p (it' & Hg & Hr'). rewrite Hn. destruct (path_eqb_spec p p0) as [->|Hne]; [lia|].
      rewrite reg_get_add_other in Hg by (intros E; apply Hne; symmetry; exact E). assert (rank p < nres R)%nat; [|lia]. apply H2. exists it'. auto.
Qed.

Lemma vftable_path_neq p vp : vftable_path p = Some vp -> vp <> p.
Proof.
  intros Hvp E. rewrite E in Hvp. apply vftable_path_some in Hvp as [Hne Hvp].
  rewrite (app_removelast_last "" Hne) in Hvp at 1. apply app_inj_tail in Hvp as [_ Hvp].
  apply (f_equal String.length) in Hvp. rewrite string_length_app in Hvp. cbn in Hvp. lia.
Qed.

Lemma attempt_keeps_owner st p it gd st' o :
  reg_get (st_reg st) p = Some it -> attempt st p gd = (st', o) -> reg_get (st_reg st') p = Some it.
Proof.
  intros Hg H. unfold attempt in H. destruct (gi_inner gd) as [td|ed]; [|inversion H; subst; exact Hg].
  destruct (type_build_step _ _ _ _ _ _ H) as [->|v fs vit _ Hvi Hadd]; [exact Hg|].
  rewrite (add_item_reg _ _ _ Hadd). rewrite reg_get_add_other; [exact Hg|].
  destruct (vftable_item_facts _ _ _ _ _ Hvi) as (Hvp & _). eapply vftable_path_neq; eauto.
Qed.

Lemma vftable_item_no_bases R owner v fs vit :
  vftable_item R owner v fs = Some vit -> exists rs, item_resolved vit = Some rs /\ no_bases rs.
Proof.
  unfold vftable_item. destruct (vftable_path owner); [|discriminate]. intros H; inversion H; subst; clear H.
  eexists. split; [reflexivity|]. intros td r Hi Hin. cbn [rs_inner] in Hi. inversion Hi; subst td. cbn [td_regions] in Hin.
  apply in_map_iff in Hin as (f & <- & _). reflexivity.
Qed.

Lemma sized_is_res R q : size_of R (TRaw q) <> None -> is_res R q.
Proof.
  cbn [size_of]. destruct (reg_get R q) as [it|] eqn:E; [|congruence]. intros H. exists it. split; [exact E|].
  unfold item_size, item_resolved, item_is_resolved in *. destruct (it_state it); [cbn in H; congruence | reflexivity].
Qed.

(** a base region is held by value: its type was resolved when the deriving type was built *)
Lemma type_build_bases_resolved st p v d st' r :
  type_build st p v d = (st', Ok r) -> bases_resolved (st_reg st') r.
Proof.
  intros H. destruct (type_build_inv _ _ _ _ _ _ H) as
      (parent & module & doc & ta & n & pending & vfs & regions & vt & size & funcs & A & _ & _ & _ & _ & Hrr & _ & ->).
  pose proof (resolve_regions_sizes _ _ _ _ _ _ _ _ _ _ Hrr) as Hsized.
  intros td reg q Hi Hin _ Hty. cbn [rs_inner] in Hi. inversion Hi; subst td. cbn [td_regions] in Hin.
  rewrite Forall_forall in Hsized. specialize (Hsized _ Hin). rewrite Hty in Hsized. now apply sized_is_res.
Qed.

Lemma enum_build_is_enum st p d r : enum_build st p d = Ok r -> exists ed, rs_inner r = IEnum ed.
Proof.
  unfold enum_build. intros H. destruct (path_parent p); [|discriminate].
  destruct (alookup _ _); [|discriminate]. cbn zeta in H.
  destruct (resolve_gtype _ _ _) as [ty|]; [|discriminate]. destruct (size_of _ ty); [|discriminate].
  inv_bind H. inv_bind H. inv_bind H.
  destruct (ea_defaultable a1), (snd a); try discriminate; destruct (align_of _ ty); try discriminate;
    inversion H; subst; eexists; reflexivity.
Qed.

Definition KInv (st : sstate) : Prop := keyed (st_reg st) /\ RankInv (st_reg st).

Lemma KInv_step st p it gd st' o :
  KInv st -> reg_get (st_reg st) p = Some it -> it_state it = Unresolved gd -> attempt st p gd = (st', o) ->
  match o with Ok r => KInv (set_resolved st' p r) | Defer => KInv st' | _ => True end.
Proof.
  intros [HK HR] Hg Hs H. pose proof (attempt_keeps_owner _ _ _ _ _ _ Hg H) as Hg'.
  assert (KInv st' /\ forall r, o = Ok r -> bases_resolved (st_reg st') r) as ([HK' HR'] & Hb).
  { unfold attempt in H. destruct (gi_inner gd) as [td|ed].
    - split.
      + destruct (type_build_step _ _ _ _ _ _ H) as [->|v fs vit _ Hvi Hadd]; [split; assumption|].
        split; [eapply add_item_keyed; eauto|]. rewrite (add_item_reg _ _ _ Hadd).
        destruct (vftable_item_no_bases _ _ _ _ _ Hvi) as (rs & Hrs & Hnb).
        eapply rank_add; [exact HR | exact Hrs | | right; exact Hnb].
        intros td' r q Hi Hin Hbase _. rewrite (Hnb _ _ Hi Hin) in Hbase. discriminate.
      + intros r ->. eapply type_build_bases_resolved; eauto.
    - inversion H; subst. split; [split; assumption|]. intros r E.
      destruct (enum_build_is_enum _ _ _ _ E) as (ed' & Hed). intros td r0 q Hi. congruence. }
  destruct o as [r| | |]; auto; [|split; assumption].
  unfold set_resolved. rewrite Hg'. cbn [st_reg]. split; [now apply keyed_add|].
  eapply rank_add; [exact HR' | reflexivity | cbn [rs_inner]; apply Hb; reflexivity|].
  left. cbn [it_path]. rewrite (HK' _ _ Hg'). intros (x & E & Hx). rewrite Hg' in E. inversion E; subst x.
  unfold item_is_resolved in Hx. rewrite Hs in Hx. discriminate.
Qed.

Lemma RankInv_init R : trivial_resolved R -> RankInv R.
Proof.
  intros HT. exists (fun _ => O). split.
  - intros p it rs td r q Hg Hr Hi Hin. destruct (HT _ _ _ Hg Hr) as (_ & td' & Hi' & Hregs & _).
    rewrite Hi in Hi'. inversion Hi'; subst td'. rewrite Hregs in Hin. destruct Hin.
  - intros p (it & Hg & Hr). eapply nres_pos; eauto.
Qed.

Theorem rank_final order ptr mods st0 st :
  input_state ptr mods = Ok st0 -> pyxis_resolve order ptr mods = BOk st -> RankInv (st_reg st).
Proof.
  intros Hin H. destruct (pyxis_resolve_input _ _ _ _ H) as (st0' & Hin' & Hb).
  rewrite Hin in Hin'. inversion Hin'; subst st0'. unfold sem_build in Hb.
  destruct (resolve_loop order _ st0) as [s| | | |] eqn:El; try discriminate.
  rewrite (finish_build_reg _ _ Hb).
  refine (proj2 (resolve_loop_lift KInv KInv_step order _ _ _ _ El)).
  split; [eapply input_state_keyed; eauto | apply RankInv_init; eapply input_state_trivial; eauto].
Qed.

(** ** (b) the hierarchy walk of the emitter never runs out of fuel *)
Lemma dfs_hierarchy_np R rank : ranked R rank ->
  forall fuel p it rs td fields,
    reg_get R p = Some it -> item_resolved it = Some rs -> rs_inner rs = IType td -> (rank p < fuel)%nat ->
    np (dfs_hierarchy fuel R td fields).
Proof.
  intros [H1 H2]. induction fuel as [|fu IH]; intros p it rs td fields Hg Hr Hi Hlt; [lia|].
  cbn [dfs_hierarchy]. apply np_foldM_in. intros out r Hin.
  destruct (r_is_base r) eqn:Hbase; cbn [negb]; [|apply np_ok].
  apply np_bind; [apply oe_np, region_name_and_typedef_oe|]. intros [[name btd]|] Hx; [|apply np_ok].
  destruct (region_name_and_typedef_some _ _ _ _ Hx) as (_ & q & itq & rsq & Hty & Hgq & Hrq & Hiq).
  destruct (H1 _ _ _ _ _ _ Hg Hr Hi Hin Hbase Hty) as [_ Hq].
  apply np_bind; [|intros; apply np_ok]. eapply IH; eauto. lia.
Qed.

Theorem dfs_hierarchy_fuel_suffices R p it rs td fields :
  RankInv R -> reg_get R p = Some it -> item_resolved it = Some rs -> rs_inner rs = IType td ->
  np (dfs_hierarchy (S (List.length (reg_types R))) R td fields).
Proof.
  intros (rank & Hrk) Hg Hr Hi. eapply dfs_hierarchy_np; eauto.
  pose proof (proj2 Hrk p) as H2. pose proof (nres_le R).
  assert (rank p < nres R)%nat; [|lia]. apply H2. exists it. split; [exact Hg | eapply item_resolved_is; eauto].
Qed.
