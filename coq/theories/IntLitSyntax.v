(** * IntLitSyntax: the literal spellings of [IntLit.v] under the token model of [Syntax.v].

    [Syntax.v] starts from the token stream; an integer literal is there a token [KInt z] and the
    two readers are [isize_ok] ([base10_parse::<isize>()], in [parse_expr]) and [usize_of]
    ([base10_parse::<usize>()], in [parse_type]).  This file connects them with the readers of the
    literal TEXT: whatever the spelling of a number (base, case, underscores, integer suffix), the
    token is the same and the token-level readers agree with the text-level ones - with one
    exception, [-0] read as a [usize], which the [Z]-valued token cannot express. *)
From Coq Require Import String List ZArith NArith Bool Lia.
From PyxisModel Require Import Base Grammar Syntax IntLit.
Import ListNotations.
Local Open Scope string_scope.

Lemma isize_in_range_is_isize_ok z : isize_in_range z = isize_ok z.
Proof. reflexivity. Qed.

(** the token of a literal text [s], preceded or not by the [-] that syn glues to it *)
Definition int_token (neg : bool) (s : string) : option tok :=
  match lit_value s with Some (n, _) => Some (KInt (signed neg n)) | None => None end.

(** [parse_expr] on the token = [base10_parse::<isize>()] on the text *)
Theorem parse_expr_int_token neg s t r :
  int_token neg s = Some t ->
  parse_expr (t :: r) = match read_isize neg s with Some z => Some (EInt z, r) | None => None end.
Proof.
  unfold int_token, read_isize. destruct (lit_value s) as [[n sfx]|]; [|discriminate].
  intros H. injection H as <-. cbn [parse_expr]. change (isize_in_range (signed neg n)) with (isize_ok (signed neg n)).
  destruct (isize_ok (signed neg n)); reflexivity.
Qed.

(** [usize_of] on the token = [base10_parse::<usize>()] on the text, except for [-0] *)
Theorem usize_of_read neg s n sfx :
  lit_value s = Some (n, sfx) -> (neg = true -> n <> 0%N) ->
  usize_of (signed neg n) = read_usize neg s.
Proof.
  intros H Hz. unfold read_usize, usize_of, signed, fits_usize, usize_max. rewrite H. destruct neg.
  - assert (n <> 0%N) by auto. replace (- Z.of_N n <? 0)%Z with true by (symmetry; apply Z.ltb_lt; lia).
    reflexivity.
  - replace (Z.of_N n <? 0)%Z with false by (symmetry; apply Z.ltb_ge; lia). cbn [orb].
    destruct (N.leb_spec n 18446744073709551615) as [Hle | Hgt].
    + replace (18446744073709551615 <? Z.of_N n)%Z with false by (symmetry; apply Z.ltb_ge; lia).
      rewrite N2Z.id. reflexivity.
    + replace (18446744073709551615 <? Z.of_N n)%Z with true by (symmetry; apply Z.ltb_lt; lia).
      reflexivity.
Qed.

(** the exception: [unknown<-0>] and [[T; -0]] are parse errors in pyxis ([usize::from_str]
    accepts no sign), but the token [KInt 0] does not remember the sign *)
Example usize_of_minus_zero :
  int_token true "0" = Some (KInt 0) /\ usize_of 0 = Some 0%N /\ read_usize true "0" = None.
Proof. repeat split. Qed.

(** C20 under the token model: every spelling of [n] is the same token *)
Theorem int_token_spelling neg up lead mask base n sfx :
  valid_base base = true -> lead_ok base lead = true -> suffix_ok base sfx = true ->
  int_token neg (with_underscores_gen lead mask (spell_case up base n) +++ sfx) = Some (KInt (signed neg n)).
Proof. intros Hb Hl Hs. unfold int_token. rewrite lit_value_general by assumption. reflexivity. Qed.

Corollary int_token_spelling_irrelevant neg n up1 up2 b1 b2 l1 l2 m1 m2 s1 s2 :
  valid_base b1 = true -> valid_base b2 = true -> lead_ok b1 l1 = true -> lead_ok b2 l2 = true ->
  suffix_ok b1 s1 = true -> suffix_ok b2 s2 = true ->
  int_token neg (with_underscores_gen l1 m1 (spell_case up1 b1 n) +++ s1) =
  int_token neg (with_underscores_gen l2 m2 (spell_case up2 b2 n) +++ s2).
Proof. intros. rewrite !int_token_spelling by assumption. reflexivity. Qed.

(** C18 under the token model: the text printed for a non-negative [KInt] ([dec_of_N]) is read
    back as the same token *)
Corollary int_token_printed n : int_token false (dec_of_N n) = Some (KInt (Z.of_N n)).
Proof. unfold int_token. rewrite lit_value_dec_of_N. reflexivity. Qed.
Corollary int_token_printed_neg n : int_token true (dec_of_N n) = Some (KInt (- Z.of_N n)).
Proof. unfold int_token. rewrite lit_value_dec_of_N. reflexivity. Qed.

Print Assumptions parse_expr_int_token.
Print Assumptions usize_of_read.
Print Assumptions int_token_spelling_irrelevant.
Print Assumptions int_token_printed.
