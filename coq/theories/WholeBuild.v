(** * From one attempt to the whole build.

    The per-item theorems (C01, C02, C04, C05, C08, ...) speak about one call of [type_build] /
    [enum_build] in an arbitrary registry.  This file proves what connects them to an accepted
    build: every item of the final registry was produced by exactly such a call, in an
    intermediate state whose resolved sizes and alignments are those of the final registry.

    Side condition ([collision_free]): no item of the input is named like the vftable struct that
    pyxis generates for a type of the input.  Without it the statement is false of the model and
    of pyxis (open finding F4b: the generated item replaces the user's). *)
From Coq Require Import List NArith ZArith Bool Lia ZifyBool ZifyN String.
From PyxisModel Require Import Base Grammar SemTypes Registry Sem RustLayout LayoutLemmas SemLemmas
     PlacementLemmas ScopeLemmas VftableLemmas TotalityLemmas.
Import ListNotations.
Local Open Scope string_scope.
Local Open Scope list_scope.
Local Open Scope N_scope.
Arguments N.add : simpl never. Arguments N.mul : simpl never. Arguments N.sub : simpl never.

(** ** association lists *)
Section AssocFacts.
  Context {V : Type}.
  Lemma alookup_ainsert_same k (v : V) l : alookup k (ainsert k v l) = Some v.
  Proof.
    induction l as [|[k' v'] l IH]; cbn [ainsert alookup].
    - now rewrite path_eqb_refl.
    - destruct (path_eqb k k') eqn:E; cbn [alookup]; rewrite ?path_eqb_refl, ?E; auto.
  Qed.
  Lemma alookup_ainsert_other k k' (v : V) l : k <> k' -> alookup k' (ainsert k v l) = alookup k' l.
  Proof.
    intros Hne. induction l as [|[k2 v2] l IH]; cbn [ainsert alookup].
    - destruct (path_eqb k' k) eqn:E; [apply path_eqb_eq in E; congruence | reflexivity].
    - destruct (path_eqb k k2) eqn:E; cbn [alookup].
      + apply path_eqb_eq in E. subst k2.
        destruct (path_eqb k' k) eqn:E2; [apply path_eqb_eq in E2; congruence | reflexivity].
      + destruct (path_eqb k' k2); auto.
  Qed.
End AssocFacts.

Lemma reg_get_add_same R it : reg_get (reg_add R it) (it_path it) = Some it.
Proof. unfold reg_get, reg_add. cbn [reg_types]. apply alookup_ainsert_same. Qed.
Lemma reg_get_add_other R it p : it_path it <> p -> reg_get (reg_add R it) p = reg_get R p.
Proof. unfold reg_get, reg_add. cbn [reg_types]. apply alookup_ainsert_other. Qed.
Lemma reg_ptr_add R it : reg_ptr (reg_add R it) = reg_ptr R.
Proof. reflexivity. Qed.

(** ** the number of slots of a generated vftable is a function of the description alone *)
Lemma map_Some_inj {A} (l l' : list A) : map Some l = map Some l' -> l = l'.
Proof.
  revert l'; induction l as [|a l IH]; intros [|b l'] H; cbn in H; try discriminate; [reflexivity|].
  inversion H; subst. f_equal. auto.
Qed.

Lemma convert_fold_length_indep R R' scope scope' fs out out' :
  foldM (convert_one R scope) fs [] = Ok out -> foldM (convert_one R' scope') fs [] = Ok out' ->
  List.length out = List.length out'.
Proof.
  intros H H'.
  destruct (convert_functions_slots _ _ _ _ _ H) as (idxs & pos & e & Hi & Hp & He & _).
  destruct (convert_functions_slots _ _ _ _ _ H') as (idxs' & pos' & e' & Hi' & Hp' & He' & _).
  rewrite Hi in Hi'. apply map_Some_inj in Hi'. subst idxs'. rewrite Hp in Hp'. inversion Hp'; subst.
  lia.
Qed.

Lemma convert_functions_length_indep R R' scope scope' sz fs out out' :
  convert_functions R scope sz fs = Ok out -> convert_functions R' scope' sz fs = Ok out' ->
  List.length out = List.length out'.
Proof.
  unfold convert_functions. intros H H'. inv_bind H. inv_bind H'.
  pose proof (convert_fold_length_indep _ _ _ _ _ _ _ Ha Ha0) as Hl.
  destruct sz as [s|].
  - destruct (s <? N.of_nat (List.length a)) eqn:E; [discriminate|].
    destruct (s <? N.of_nat (List.length a0)) eqn:E0; [discriminate|].
    inversion H; inversion H'; subst.
    destruct (pad_to_spec s a) as [_ H1]. destruct (pad_to_spec s a0) as [_ H2]. cbn zeta in *. lia.
  - inversion H; inversion H'; subst. exact Hl.
Qed.

(** the vftable block of a type description: it has to be the first statement *)
Definition vft_len_of (d : gtypedef) (n : nat) : Prop :=
  exists s rest gfs R scope sz fs,
    gt_stmts d = s :: rest /\ gs_field s = GVftable gfs /\
    foldM scan_vftable_size_attr (gs_attrs s) None = Ok sz /\
    convert_functions R scope sz gfs = Ok fs /\ n = List.length fs.

Lemma vft_len_unique d n n' : vft_len_of d n -> vft_len_of d n' -> n = n'.
Proof.
  intros (s & rest & gfs & R & scope & sz & fs & Hs & Hf & Hsz & Hc & ->)
         (s' & rest' & gfs' & R' & scope' & sz' & fs' & Hs' & Hf' & Hsz' & Hc' & ->).
  rewrite Hs in Hs'. inversion Hs'; subst s' rest'. rewrite Hf in Hf'. inversion Hf'; subst gfs'.
  rewrite Hsz in Hsz'. inversion Hsz'; subst sz'.
  eapply convert_functions_length_indep; eauto.
Qed.

(** statements after the first never set the vftable; a [Some] result comes from the first *)
Lemma process_rest_keeps_vfs R scope : forall stmts idx pending vfs n pending' vfs',
  idx <> O ->
  foldM (process_statement R scope) stmts (idx, (pending, vfs)) = Ok (n, (pending', vfs')) ->
  vfs' = vfs.
Proof.
  induction stmts as [|s stmts IH]; intros idx pending vfs n pending' vfs' Hidx H; cbn [foldM] in H.
  - inversion H; reflexivity.
  - inv_bind H. destruct a as [idx1 [pending1 vfs1]].
    assert (vfs1 = vfs /\ idx1 <> O) as [-> Hidx1].
    { unfold process_statement in Ha. destruct (gs_field s) as [v name t|gfs].
      - inv_bind Ha. inv_bind Ha. destruct (resolve_gtype R scope t); [|discriminate].
        inversion Ha; subst. split; [reflexivity | discriminate].
      - destruct idx; [congruence|]. cbn in Ha. discriminate. }
    eapply IH; eauto.
Qed.

Lemma process_statements_vfs R scope stmts n pending fs :
  foldM (process_statement R scope) stmts (O, ([], None)) = Ok (n, (pending, Some fs)) ->
  exists s rest gfs sz, stmts = s :: rest /\ gs_field s = GVftable gfs /\
    foldM scan_vftable_size_attr (gs_attrs s) None = Ok sz /\ convert_functions R scope sz gfs = Ok fs.
Proof.
  destruct stmts as [|s rest]; cbn [foldM]; [intros H; inversion H|].
  intros H. inv_bind H. destruct a as [idx1 [pending1 vfs1]].
  unfold process_statement in Ha. destruct (gs_field s) as [v name t|gfs] eqn:Ef.
  - inv_bind Ha. inv_bind Ha. destruct (resolve_gtype R scope t); [|discriminate].
    inversion Ha; subst. apply process_rest_keeps_vfs in H; [discriminate | discriminate].
  - cbn [Nat.eqb negb] in Ha. inv_bind Ha. inv_bind Ha. inversion Ha; subst.
    apply process_rest_keeps_vfs in H; [|discriminate]. inversion H; subst.
    exists s, rest, gfs, a. repeat split; auto.
Qed.

(** ** what one attempt may do to the state: nothing, or (re-)register the vftable item of its
    owner *)
Inductive vstep (owner : path) (d : gtypedef) (st st' : sstate) : Prop :=
| vs_same : st' = st -> vstep owner d st st'
| vs_vft v fs vit :
    vft_len_of d (List.length fs) -> vftable_item (st_reg st) owner v fs = Some vit ->
    add_item st vit = Ok st' -> vstep owner d st st'.

Lemma vftable_build_step st owner v fb vfs st' vt vr :
  vftable_build st owner v fb vfs = Ok (st', vt, vr) ->
  st' = st \/ exists fs vit, vfs = Some fs /\ vftable_item (st_reg st) owner v fs = Some vit /\
                             add_item st vit = Ok st'.
Proof.
  unfold vftable_build. destruct vfs as [fs|].
  - destruct (vftable_item (st_reg st) owner v fs) as [vit|] eqn:Ei; [|intros H; inversion H; auto].
    intros H. inv_bind H. rename a into st1. inv_bind H. right. exists fs, vit.
    assert (st' = st1) as ->.
    { destruct a as [[bn bv]|].
      - destruct (_ <? _)%nat; [discriminate|]. destruct (negb _); [discriminate|]. now inversion H.
      - now inversion H. }
    auto.
  - intros H. inv_bind H. destruct a as [[bn bv]|]; inversion H; auto.
Qed.

Lemma resolve_regions_step st owner v ts pending vfs st' regions vt size :
  resolve_regions st owner v ts pending vfs = Ok (st', regions, vt, size) ->
  st' = st \/ exists fs vit, vfs = Some fs /\ vftable_item (st_reg st) owner v fs = Some vit /\
                             add_item st vit = Ok st'.
Proof.
  unfold resolve_regions. intros H. destruct (first_base_unresolved _ _); [discriminate|].
  inv_bind H. destruct a as [[st1 vt1] vr1]. inv_bind H. inv_bind H. inv_bind H. inv_bind H.
  destruct a2 as [named sz]. cbn [fst snd] in *.
  assert (st' = st1) as ->.
  { destruct ts as [t|]; [destruct (negb (sz =? t)%N); [discriminate|]|]; inversion H; auto. }
  eapply vftable_build_step; eauto.
Qed.

Lemma type_build_step st p v d st' o : type_build st p v d = (st', o) -> vstep p d st st'.
Proof.
  unfold type_build. intros H.
  destruct (path_parent p) as [parent|]; [|inversion H; now constructor].
  destruct (alookup parent (st_modules st)) as [module|]; [|inversion H; now constructor].
  match type of H with context [match ?pre with Ok _ => _ | Defer => _ | Err _ => _ | Panic _ => _ end] =>
    destruct pre as [[[doc ta] [pending vfs]]| | |] eqn:Epre end; try (inversion H; now constructor).
  inv_bind Epre. inv_bind Epre. inv_bind Epre. destruct a1 as [n [pending' vfs']].
  inversion Epre; subst doc ta pending' vfs'. clear Epre.
  assert (forall fs vit, vfs = Some fs -> vftable_item (st_reg st) p v fs = Some vit ->
                         add_item st vit = Ok st' -> vstep p d st st') as Hv.
  { intros fs vit -> Hi Hadd. econstructor 2; eauto.
    destruct (process_statements_vfs _ _ _ _ _ _ Ha1) as (s & rest & gfs & sz & Hs & Hf & Hsz & Hc).
    exists s, rest, gfs, (st_reg st), (module_scope module), sz, fs. repeat split; auto. }
  destruct (resolve_regions st p v (ta_size a0) pending vfs) as [[[[st1 regions] vt] size]| | |] eqn:Err;
    try (inversion H; now constructor).
  - inversion H; subst st1. destruct (resolve_regions_step _ _ _ _ _ _ _ _ _ _ Err) as [->|(fs & vit & Hvfs & Hi & Hadd)];
      [now constructor | eauto].
  - destruct (first_base_unresolved _ _); [inversion H; now constructor|].
    destruct (vftable_build st p v _ vfs) as [[[st2 vt2] vr2]| | |] eqn:Ev; inversion H; subst; try now constructor.
    destruct (vftable_build_step _ _ _ _ _ _ _ _ Ev) as [->|(fs & vit & Hvfs & Hi & Hadd)];
      [now constructor | eauto].
Qed.

(** ** the generated name determines its owner *)
Lemma string_length_append a b : String.length (a +++ b) = (String.length a + String.length b)%nat.
Proof. induction a as [|c a IH]; cbn; [reflexivity | now rewrite IH]. Qed.

Lemma append_cancel_r s : forall a b, a +++ s = b +++ s -> a = b.
Proof.
  induction a as [|c a IH]; intros [|c' b] H; cbn in H.
  - reflexivity.
  - apply (f_equal String.length) in H. cbn in H. rewrite string_length_append in H. lia.
  - apply (f_equal String.length) in H. cbn in H. rewrite string_length_append in H. lia.
  - inversion H; subst. f_equal. auto.
Qed.

Lemma vftable_path_some p vp :
  vftable_path p = Some vp -> p <> [] /\ vp = removelast p ++ [last p "" +++ "Vftable"].
Proof.
  unfold vftable_path, path_last, path_parent, path_join. destruct p as [|p0 p']; [discriminate|].
  intros H. inversion H. split; [discriminate | reflexivity].
Qed.

Lemma vftable_path_inj a b vp : vftable_path a = Some vp -> vftable_path b = Some vp -> a = b.
Proof.
  intros Ha Hb. apply vftable_path_some in Ha as [Hna Ha]. apply vftable_path_some in Hb as [Hnb Hb].
  rewrite Ha in Hb. apply app_inj_tail in Hb as [Hrl Hl]. apply append_cancel_r in Hl.
  rewrite (app_removelast_last "" Hna), (app_removelast_last "" Hnb). now rewrite Hrl, Hl.
Qed.

Lemma vftable_item_facts R owner v fs vit :
  vftable_item R owner v fs = Some vit ->
  vftable_path owner = Some (it_path vit) /\
  exists rs, item_resolved vit = Some rs /\
    rs_size rs = N.of_nat (List.length fs) * reg_ptr R /\ rs_align rs = reg_ptr R.
Proof.
  unfold vftable_item. destruct (vftable_path owner) as [vp|]; [|discriminate].
  intros H; inversion H; subst; clear H. cbn [it_path]. split; [reflexivity|].
  eexists. split; [reflexivity|]. cbn [rs_size rs_align]. rewrite map_length. auto.
Qed.

Lemma add_item_reg st it st' : add_item st it = Ok st' -> st_reg st' = reg_add (st_reg st) it.
Proof.
  unfold add_item. destruct (path_parent (it_path it)); [|discriminate].
  destruct (alookup _ _); [|discriminate]. intros H; inversion H; reflexivity.
Qed.

(** ** invariant of a build that started from registry [R0] *)
Section Whole.
  Variable R0 : registry.

  (** no input item carries the name of the vftable struct generated for an input item *)
  Definition collision_free : Prop :=
    forall owner vp, reg_get R0 owner <> None -> vftable_path owner = Some vp -> reg_get R0 vp = None.

  (** [R'] knows every resolved item of [R] with the same size and alignment; items of the input
      are literally unchanged once resolved *)
  Definition ext (R R' : registry) : Prop :=
    reg_ptr R = reg_ptr R' /\
    (forall p it rs, reg_get R p = Some it -> item_resolved it = Some rs ->
      exists it' rs', reg_get R' p = Some it' /\ item_resolved it' = Some rs' /\
        rs_size rs' = rs_size rs /\ rs_align rs' = rs_align rs /\
        (reg_get R0 p <> None -> it' = it)) /\
    (* the generated vftable struct of an input item that is already resolved is final *)
    (forall owner vp ito it, reg_get R0 owner <> None -> vftable_path owner = Some vp ->
       reg_get R owner = Some ito -> item_is_resolved ito = true ->
       reg_get R vp = Some it -> reg_get R' vp = Some it).

  Lemma ext_refl R : ext R R.
  Proof.
    split; [reflexivity|]. split; [|auto]. intros p it rs H Hr. exists it, rs. repeat split; auto.
  Qed.

  Lemma ext_trans R1 R2 R3 : ext R1 R2 -> ext R2 R3 -> ext R1 R3.
  Proof.
    intros (Hp1 & H1 & G1) (Hp2 & H2 & G2). split; [congruence|]. split.
    - intros p it rs Hg Hr.
      destruct (H1 _ _ _ Hg Hr) as (it2 & rs2 & Hg2 & Hr2 & Hs2 & Ha2 & He2).
      destruct (H2 _ _ _ Hg2 Hr2) as (it3 & rs3 & Hg3 & Hr3 & Hs3 & Ha3 & He3).
      exists it3, rs3. repeat split; try congruence. intros Hk. rewrite (He3 Hk). auto.
    - intros owner vp ito it Hu Hvp Hgo Hro Hgv.
      assert (reg_get R2 owner = Some ito) as Hgo2.
      { unfold item_is_resolved in Hro. destruct (it_state ito) as [d|r] eqn:Es; [discriminate|].
        destruct (H1 owner ito r Hgo) as (it2 & rs2 & Hg2 & _ & _ & _ & He2); [unfold item_resolved; now rewrite Es|].
        now rewrite (He2 Hu) in Hg2. }
      eapply G2; eauto.
  Qed.

  Lemma size_of_ext R R' : ext R R' -> forall t s, size_of R t = Some s -> size_of R' t = Some s.
  Proof.
    intros (Hp & He & _). induction t as [p|t IH|t IH|t IH n|c args ret]; intros s H; cbn [size_of] in *;
      try (rewrite <- Hp; exact H).
    - destruct (reg_get R p) as [it|] eqn:E; [|discriminate].
      unfold item_size in H. destruct (item_resolved it) as [rs|] eqn:Er; [|discriminate].
      destruct (He _ _ _ E Er) as (it' & rs' & -> & Hr' & Hs & _). unfold item_size. rewrite Hr'.
      cbn in *. congruence.
    - destruct (size_of R t) as [s0|]; [|discriminate]. rewrite (IH s0 eq_refl). exact H.
  Qed.

  Lemma align_of_ext R R' : ext R R' -> forall t a, align_of R t = Some a -> align_of R' t = Some a.
  Proof.
    intros (Hp & He & _). induction t as [p|t IH|t IH|t IH n|c args ret]; intros a H; cbn [align_of] in *;
      try (rewrite <- Hp; exact H); auto.
    destruct (reg_get R p) as [it|] eqn:E; [|discriminate].
    unfold item_align in H. destruct (item_resolved it) as [rs|] eqn:Er; [|discriminate].
    destruct (He _ _ _ E Er) as (it' & rs' & -> & Hr' & _ & Ha & _). unfold item_align. rewrite Hr'.
    cbn in *. congruence.
  Qed.

  (** an item that is not of the input is the generated vftable struct of an input type *)
  Definition gen_item (vp : path) (it : item) : Prop :=
    exists owner it0 gd td n rs,
      reg_get R0 owner = Some it0 /\ it_state it0 = Unresolved gd /\ gi_inner gd = GIType td /\
      vftable_path owner = Some vp /\ vft_len_of td n /\
      item_resolved it = Some rs /\ rs_size rs = N.of_nat n * reg_ptr R0 /\ rs_align rs = reg_ptr R0.

  Definition Inv (R : registry) : Prop :=
    reg_ptr R = reg_ptr R0 /\
    forall p it, reg_get R p = Some it ->
      match reg_get R0 p with
      | Some it0 => forall gd, it_state it = Unresolved gd -> it_state it0 = Unresolved gd
      | None => gen_item p it
      end.

  Lemma Inv_init : Inv R0.
  Proof. split; [reflexivity|]. intros p it H. rewrite H. auto. Qed.

  (** every item of the input is still there (items are replaced, never removed) *)
  Definition present (R : registry) : Prop := forall p, reg_get R0 p <> None -> reg_get R p <> None.
  Lemma present_init : present R0.
  Proof. intros p H; exact H. Qed.
  Lemma present_add R it : present R -> present (reg_add R it).
  Proof.
    intros HP p Hp. destruct (path_eqb_spec (it_path it) p) as [<-|Hne].
    - rewrite reg_get_add_same. discriminate.
    - rewrite reg_get_add_other by exact Hne. auto.
  Qed.

  (** an unresolved item of the current registry is an unresolved item of the input *)
  Lemma Inv_unresolved R p it gd :
    Inv R -> reg_get R p = Some it -> it_state it = Unresolved gd ->
    exists it0, reg_get R0 p = Some it0 /\ it_state it0 = Unresolved gd.
  Proof.
    intros [_ HI] Hg Hs. specialize (HI _ _ Hg). destruct (reg_get R0 p) as [it0|].
    - eauto.
    - destruct HI as (? & ? & ? & ? & ? & rs & _ & _ & _ & _ & _ & Hr & _).
      unfold item_resolved in Hr. rewrite Hs in Hr. discriminate.
  Qed.

  Lemma vstep_inv st st' p it gd td :
    collision_free -> Inv (st_reg st) ->
    reg_get (st_reg st) p = Some it -> it_state it = Unresolved gd -> gi_inner gd = GIType td ->
    vstep p td st st' ->
    Inv (st_reg st') /\ ext (st_reg st) (st_reg st') /\ reg_get (st_reg st') p = Some it.
  Proof.
    intros Hcf HI Hg Hs Hty [->|v fs vit Hlen Hvi Hadd]; [split; [exact HI | split; [apply ext_refl | exact Hg]]|].
    destruct (Inv_unresolved _ _ _ _ HI Hg Hs) as (it0 & Hg0 & Hs0).
    destruct (vftable_item_facts _ _ _ _ _ Hvi) as (Hvp & rs & Hrs & Hsz & Hal).
    assert (reg_get R0 (it_path vit) = None) as Hnone by (eapply Hcf; eauto; congruence).
    assert (it_path vit <> p) as Hne by (intros E; rewrite E in Hnone; congruence).
    rewrite (add_item_reg _ _ _ Hadd). destruct HI as [Hptr HI].
    split; [|split].
    - split; [rewrite reg_ptr_add; exact Hptr|]. intros q itq Hq.
      destruct (path_eqb_spec (it_path vit) q) as [<-|Hq'].
      + rewrite reg_get_add_same in Hq. inversion Hq; subst itq. rewrite Hnone.
        exists p, it0, gd, td, (List.length fs), rs. rewrite <- Hptr. repeat split; auto.
      + rewrite reg_get_add_other in Hq by exact Hq'. apply HI. exact Hq.
    - split; [reflexivity|]. split.
      2:{ intros owner vp ito ito' Hu Hvpo Hgo Hro Hgv. rewrite reg_get_add_other; [exact Hgv|].
          intros E. rewrite E in Hvp. assert (owner = p) as -> by (eapply vftable_path_inj; eauto).
          rewrite Hg in Hgo. inversion Hgo; subst ito. unfold item_is_resolved in Hro. rewrite Hs in Hro. discriminate. }
      intros q itq rsq Hq Hr.
      destruct (path_eqb_spec (it_path vit) q) as [<-|Hq'].
      + rewrite reg_get_add_same. exists vit, rs. split; [reflexivity|]. split; [exact Hrs|].
        specialize (HI _ _ Hq). rewrite Hnone in HI.
        destruct HI as (owner & it0' & gd' & td' & n & rs' & Hg0' & Hs0' & Hty' & Hvp' & Hlen' & Hr' & Hsz' & Hal').
        assert (owner = p) as -> by (eapply vftable_path_inj; eauto).
        rewrite Hg0 in Hg0'. inversion Hg0'; subst it0'. rewrite Hs0 in Hs0'. inversion Hs0'; subst gd'.
        rewrite Hty in Hty'. inversion Hty'; subst td'.
        rewrite (vft_len_unique _ _ _ Hlen' Hlen) in Hsz'.
        rewrite Hr in Hr'. inversion Hr'; subst rs'.
        repeat split; try congruence.
      + rewrite reg_get_add_other by exact Hq'. exists itq, rsq. repeat split; auto.
    - rewrite reg_get_add_other by exact Hne. exact Hg.
  Qed.
End Whole.

(** ** keys are the items' own paths *)
Definition keyed (R : registry) : Prop := forall p it, reg_get R p = Some it -> it_path it = p.

Lemma keyed_add R it : keyed R -> keyed (reg_add R it).
Proof.
  intros HK p it' H. destruct (path_eqb_spec (it_path it) p) as [<-|Hne].
  - rewrite reg_get_add_same in H. now inversion H.
  - rewrite reg_get_add_other in H by exact Hne. auto.
Qed.

Lemma foldM_preserves {A S} (P : S -> Prop) (f : S -> A -> outcome S) :
  (forall s a s', P s -> f s a = Ok s' -> P s') ->
  forall l s s', P s -> foldM f l s = Ok s' -> P s'.
Proof.
  intros Hf. induction l as [|a l IH]; intros s s' Hs H; cbn [foldM] in H.
  - now inversion H; subst.
  - inv_bind H. eauto.
Qed.

Lemma add_item_keyed st it st' : keyed (st_reg st) -> add_item st it = Ok st' -> keyed (st_reg st').
Proof. intros HK H. rewrite (add_item_reg _ _ _ H). now apply keyed_add. Qed.

Lemma sem_new_keyed ptr st : sem_new ptr = Ok st -> keyed (st_reg st).
Proof.
  unfold sem_new. apply (foldM_preserves (fun s => keyed (st_reg s))).
  - intros s a s' Hs H. eapply add_item_keyed; eauto.
  - intros p it H. discriminate.
Qed.

Lemma add_module_keyed st mp ast st' : keyed (st_reg st) -> add_module st mp ast = Ok st' -> keyed (st_reg st').
Proof.
  unfold add_module. intros HK H. inv_bind H. inv_bind H. inv_bind H.
  eapply (foldM_preserves (fun s => keyed (st_reg s))); [| |exact H].
  - intros s e s' Hs He. unfold add_extern_type in He. inv_bind He.
    destruct a2 as [[size|] [al|]]; try discriminate.
    destruct (reg_has _ _); [discriminate|]. eapply add_item_keyed; eauto.
  - eapply (foldM_preserves (fun s => keyed (st_reg s))); [| |exact Ha1].
    + intros s d s' Hs Hd. unfold add_definition in Hd. destruct (reg_has _ _); [discriminate|].
      eapply add_item_keyed; eauto.
    + exact HK.
Qed.

(** ** marking an item resolved *)
Lemma set_resolved_inv R0 st p it gd r :
  collision_free R0 -> Inv R0 (st_reg st) -> keyed (st_reg st) ->
  reg_get (st_reg st) p = Some it -> it_state it = Unresolved gd ->
  let st' := set_resolved st p r in
  Inv R0 (st_reg st') /\ keyed (st_reg st') /\ ext R0 (st_reg st) (st_reg st') /\
  (exists it', reg_get (st_reg st') p = Some it' /\ it_state it' = Resolved r) /\
  (forall q, q <> p -> reg_get (st_reg st') q = reg_get (st_reg st) q).
Proof.
  intros Hcf HI HK Hg Hs. cbn zeta. unfold set_resolved. rewrite Hg. cbn [st_reg].
  set (it' := {| it_vis := it_vis it; it_path := it_path it; it_state := Resolved r; it_cat := it_cat it |}).
  assert (it_path it' = p) as Hp by (cbn; auto).
  destruct (Inv_unresolved _ _ _ _ _ HI Hg Hs) as (it0 & Hg0 & Hs0).
  split; [|split; [|split; [|split]]].
  - destruct HI as [Hptr HI]. split; [exact Hptr|]. intros q itq Hq.
    destruct (path_eqb_spec (it_path it') q) as [<-|Hne].
    + rewrite reg_get_add_same in Hq. inversion Hq; subst itq. rewrite Hp, Hg0. intros gd'. cbn. discriminate.
    + rewrite reg_get_add_other in Hq by exact Hne. now apply HI.
  - now apply keyed_add.
  - split; [reflexivity|]. split.
    2:{ intros owner vp ito ito' Hu Hvpo Hgo Hro Hgv. rewrite reg_get_add_other; [exact Hgv|].
        rewrite Hp. intros E. subst vp. pose proof (Hcf owner p Hu Hvpo) as Hnone. congruence. }
    intros q itq rsq Hq Hr.
    destruct (path_eqb_spec (it_path it') q) as [<-|Hne].
    + rewrite Hp in Hq. rewrite Hg in Hq. inversion Hq; subst itq. unfold item_resolved in Hr.
      rewrite Hs in Hr. discriminate.
    + rewrite reg_get_add_other by exact Hne. exists itq, rsq. repeat split; auto.
  - exists it'. rewrite <- Hp at 1. rewrite reg_get_add_same. split; reflexivity.
  - intros q Hq. apply reg_get_add_other. rewrite Hp. congruence.
Qed.

(** ** the module table: keys in place; modules change only in their set of item paths *)
Definition mod_eq (m m' : smodule) : Prop :=
  m_path m = m_path m' /\ m_ast m = m_ast m' /\ m_impls m = m_impls m' /\
  m_extern_values m = m_extern_values m'.
Definition mods_rel (ms ms0 : list (path * smodule)) : Prop :=
  Forall2 (fun km km0 => fst km = fst km0 /\ mod_eq (snd km) (snd km0)) ms ms0.

Lemma mod_eq_refl m : mod_eq m m.
Proof. repeat split. Qed.
Lemma mod_eq_trans a b c : mod_eq a b -> mod_eq b c -> mod_eq a c.
Proof. intros (A1 & B1 & C1 & D1) (A2 & B2 & C2 & D2). repeat split; congruence. Qed.

Lemma mods_rel_refl ms : mods_rel ms ms.
Proof. induction ms as [|km ms IH]; constructor; [split; [reflexivity | apply mod_eq_refl] | exact IH]. Qed.

Lemma mods_rel_insert ms ms0 k m m' :
  mods_rel ms ms0 -> alookup k ms = Some m -> mod_eq m' m -> mods_rel (ainsert k m' ms) ms0.
Proof.
  induction 1 as [|[k1 m1] [k0 m0] ms ms0 [Hk He] Hrest IH]; cbn [alookup ainsert]; [discriminate|].
  cbn [fst snd] in *. subst k0. destruct (path_eqb_spec k k1) as [->|Hne]; intros Hl Hm.
  - inversion Hl; subst m1. constructor; [|exact Hrest]. split; [reflexivity|]. eapply mod_eq_trans; eauto.
  - constructor; [split; [reflexivity | exact He] | apply IH; assumption].
Qed.

Lemma mods_rel_lookup ms ms0 k m : mods_rel ms ms0 -> alookup k ms = Some m ->
  exists m0, alookup k ms0 = Some m0 /\ mod_eq m m0.
Proof.
  induction 1 as [|[k1 m1] [k0 m0] ms ms0 [Hk He] _ IH]; cbn [alookup]; [discriminate|].
  cbn [fst snd] in *. subst k0. destruct (path_eqb k k1); [intros H; inversion H; subst; eauto | exact IH].
Qed.

Lemma add_item_mods_rel st it st' ms0 : mods_rel (st_modules st) ms0 -> add_item st it = Ok st' ->
  mods_rel (st_modules st') ms0.
Proof.
  intros HM H. unfold add_item in H. destruct (path_parent (it_path it)) as [parent|]; [|discriminate].
  destruct (alookup parent (st_modules st)) as [m|] eqn:Em; [|discriminate].
  inversion H; subst st'. cbn [st_modules]. eapply mods_rel_insert; [exact HM | exact Em | repeat split].
Qed.

Lemma attempt_mods_rel st p gd st' o ms0 : mods_rel (st_modules st) ms0 -> attempt st p gd = (st', o) ->
  mods_rel (st_modules st') ms0.
Proof.
  intros HM H. unfold attempt in H. destruct (gi_inner gd) as [td|ed].
  - destruct (type_build_step _ _ _ _ _ _ H) as [->|v fs vit _ _ Hadd]; [exact HM | eapply add_item_mods_rel; eauto].
  - inversion H; subst. exact HM.
Qed.

Lemma set_resolved_modules st p r : st_modules (set_resolved st p r) = st_modules st.
Proof. unfold set_resolved. destruct (reg_get (st_reg st) p); reflexivity. Qed.

(** ** one attempt *)
Lemma attempt_inv R0 st p it gd st' o :
  collision_free R0 -> Inv R0 (st_reg st) -> keyed (st_reg st) ->
  reg_get (st_reg st) p = Some it -> it_state it = Unresolved gd -> attempt st p gd = (st', o) ->
  Inv R0 (st_reg st') /\ keyed (st_reg st') /\ ext R0 (st_reg st) (st_reg st') /\
  (forall q, reg_get R0 q <> None -> reg_get (st_reg st') q = reg_get (st_reg st) q).
Proof.
  intros Hcf HI HK Hg Hs H. unfold attempt in H. destruct (gi_inner gd) as [td|ed] eqn:Ety.
  - apply type_build_step in H.
    destruct (vstep_inv R0 _ _ _ _ _ _ Hcf HI Hg Hs Ety H) as (HI' & Hext & _).
    split; [exact HI'|]. split; [|split; [exact Hext|]].
    + destruct H as [->|v fs vit _ _ Hadd]; [exact HK | eapply add_item_keyed; eauto].
    + destruct H as [->|v fs vit _ Hvi Hadd]; [reflexivity|].
      intros q Hq. rewrite (add_item_reg _ _ _ Hadd). apply reg_get_add_other.
      destruct (vftable_item_facts _ _ _ _ _ Hvi) as (Hvp & _).
      destruct (Inv_unresolved _ _ _ _ _ HI Hg Hs) as (it0 & Hg0 & _).
      intros E. subst q. apply Hq. apply (Hcf p); [rewrite Hg0; discriminate | exact Hvp].
  - inversion H; subst. split; [exact HI | split; [exact HK | split; [apply ext_refl | reflexivity]]].
Qed.

(** ** the items of the final registry were built by attempts *)
Definition built (R0 : registry) (ms0 : list (path * smodule)) (st_a st_b : sstate) (p : path) (r : resolved) : Prop :=
  exists st_mid st_mid' it gd,
    ext R0 (st_reg st_a) (st_reg st_mid) /\ (Inv R0 (st_reg st_mid) /\ keyed (st_reg st_mid) /\ mods_rel (st_modules st_mid) ms0) /\
    reg_get (st_reg st_mid) p = Some it /\ it_state it = Unresolved gd /\
    attempt st_mid p gd = (st_mid', Ok r) /\ ext R0 (st_reg st_mid') (st_reg st_b) /\
    ext R0 (st_reg (set_resolved st_mid' p r)) (st_reg st_b).

Lemma built_weaken R0 ms0 st_a st_a' st_b st_b' p r :
  ext R0 (st_reg st_a') (st_reg st_a) -> ext R0 (st_reg st_b) (st_reg st_b') ->
  built R0 ms0 st_a st_b p r -> built R0 ms0 st_a' st_b' p r.
Proof.
  intros Ha Hb (m & m' & it & gd & H1 & H2 & H3 & H4 & H5 & H6 & H7).
  exists m, m', it, gd.
  split; [eapply ext_trans; eauto|]. split; [exact H2|]. split; [exact H3|]. split; [exact H4|].
  split; [exact H5|]. split; eapply ext_trans; eauto.
Qed.

Definition resolved_at (st : sstate) (p : path) (r : resolved) : Prop :=
  exists it, reg_get (st_reg st) p = Some it /\ it_state it = Resolved r.

Lemma resolve_pass_built R0 ms0 : collision_free R0 -> forall ps st st',
  Inv R0 (st_reg st) -> keyed (st_reg st) -> mods_rel (st_modules st) ms0 -> resolve_pass st ps = inl st' ->
  Inv R0 (st_reg st') /\ keyed (st_reg st') /\ mods_rel (st_modules st') ms0 /\ ext R0 (st_reg st) (st_reg st') /\
  forall p r, reg_get R0 p <> None -> resolved_at st' p r -> resolved_at st p r \/ built R0 ms0 st st' p r.
Proof.
  intros Hcf. induction ps as [|p ps IH]; intros st st' HI HK HM H; cbn [resolve_pass] in H.
  - inversion H; subst. split; [exact HI|]. split; [exact HK|]. split; [exact HM|]. split; [apply ext_refl|]. intros; now left.
  - destruct (reg_get (st_reg st) p) as [it|] eqn:Hg; [|discriminate].
    destruct (it_state it) as [gd|r0] eqn:Hs; [|now apply IH].
    destruct (attempt st p gd) as [st1 o] eqn:Hat.
    destruct (attempt_inv _ _ _ _ _ _ _ Hcf HI HK Hg Hs Hat) as (HI1 & HK1 & Hext1 & Hback1).
    pose proof (attempt_mods_rel _ _ _ _ _ _ HM Hat) as HM1.
    destruct (Inv_unresolved _ _ _ _ _ HI Hg Hs) as (it0 & Hg0 & Hs0).
    assert (reg_get (st_reg st1) p = Some it) as Hg1 by (rewrite Hback1; [exact Hg | congruence]).
    destruct o as [r| |m|m]; try discriminate.
    + (* resolved now *)
      destruct (set_resolved_inv R0 st1 p it gd r Hcf HI1 HK1 Hg1 Hs) as (HI2 & HK2 & Hext2 & (it2 & Hg2 & Hs2) & Hoth).
      assert (mods_rel (st_modules (set_resolved st1 p r)) ms0) as HM2 by (rewrite set_resolved_modules; exact HM1).
      destruct (IH _ _ HI2 HK2 HM2 H) as (HI' & HK' & HM' & Hext' & Hall).
      split; [exact HI'|]. split; [exact HK'|]. split; [exact HM'|]. split; [eauto using ext_trans|].
      intros q r' Hq Hres. destruct (Hall _ _ Hq Hres) as [(itq & Hgq & Hsq)|Hb].
      * destruct (path_eqb_spec q p) as [->|Hne].
        -- right. rewrite Hg2 in Hgq. inversion Hgq; subst itq. rewrite Hs2 in Hsq. inversion Hsq; subst r'.
           exists st, st1, it, gd. split; [apply ext_refl|]. split; [split; [exact HI | split; [exact HK | exact HM]]|]. split; [exact Hg|]. split; [exact Hs|].
           split; [exact Hat|]. split; [eapply ext_trans; eauto | exact Hext'].
        -- left. exists itq. split; [|exact Hsq]. rewrite Hoth in Hgq by exact Hne. rewrite Hback1 in Hgq by exact Hq. exact Hgq.
      * right. eapply built_weaken; [| apply ext_refl | exact Hb]. eauto using ext_trans.
    + (* deferred *)
      destruct (IH _ _ HI1 HK1 HM1 H) as (HI' & HK' & HM' & Hext' & Hall).
      split; [exact HI'|]. split; [exact HK'|]. split; [exact HM'|]. split; [eauto using ext_trans|].
      intros q r' Hq Hres. destruct (Hall _ _ Hq Hres) as [(itq & Hgq & Hsq)|Hb].
      * left. exists itq. split; [|exact Hsq]. rewrite Hback1 in Hgq by exact Hq. exact Hgq.
      * right. eapply built_weaken; [| apply ext_refl | exact Hb]. exact Hext1.
Qed.

Lemma resolve_pass_abort_not_ok : forall ps st r st', resolve_pass st ps = inr r -> r <> BOk st'.
Proof.
  induction ps as [|p ps IH]; intros st r st' H; cbn [resolve_pass] in H; [discriminate|].
  destruct (reg_get (st_reg st) p) as [it|]; [|inversion H; discriminate].
  destruct (it_state it) as [gd|r0]; [|eauto].
  destruct (attempt st p gd) as [st1 [r1| |m|m]]; eauto; inversion H; discriminate.
Qed.

Theorem resolve_loop_built R0 ms0 order : collision_free R0 -> forall fuel st st',
  Inv R0 (st_reg st) -> keyed (st_reg st) -> mods_rel (st_modules st) ms0 -> resolve_loop order fuel st = BOk st' ->
  Inv R0 (st_reg st') /\ mods_rel (st_modules st') ms0 /\ ext R0 (st_reg st) (st_reg st') /\
  forall p r, reg_get R0 p <> None -> resolved_at st' p r -> resolved_at st p r \/ built R0 ms0 st st' p r.
Proof.
  intros Hcf. induction fuel as [|fuel IH]; intros st st' HI HK HM H; cbn [resolve_loop] in H; [discriminate|].
  destruct (order (reg_unresolved (st_reg st))) as [|p0 ps] eqn:Eo.
  - inversion H; subst. split; [exact HI|]. split; [exact HM|]. split; [apply ext_refl|]. intros; now left.
  - destruct (resolve_pass st (p0 :: ps)) as [st1|res] eqn:Ep; [|subst; exfalso; eapply resolve_pass_abort_not_ok; eauto].
    destruct (Nat.eqb _ _); [discriminate|].
    destruct (resolve_pass_built R0 ms0 Hcf _ _ _ HI HK HM Ep) as (HI1 & HK1 & HM1 & Hext1 & Hall1).
    destruct (IH _ _ HI1 HK1 HM1 H) as (HI' & HM' & Hext' & Hall').
    split; [exact HI'|]. split; [exact HM'|]. split; [eauto using ext_trans|].
    intros q r Hq Hres. destruct (Hall' _ _ Hq Hres) as [Hr1|Hb].
    + destruct (Hall1 _ _ Hq Hr1) as [Hr0|Hb1]; [left; exact Hr0|].
      right. eapply built_weaken; [apply ext_refl | exact Hext' | exact Hb1].
    + right. eapply built_weaken; [exact Hext1 | apply ext_refl | exact Hb].
Qed.

(** ** the whole build *)
Lemma finish_build_reg st st' : finish_build st = BOk st' -> st_reg st' = st_reg st.
Proof.
  unfold finish_build. destruct (negb _); [discriminate|].
  destruct (mapM _ _); try discriminate. intros H; inversion H; reflexivity.
Qed.

(** every item of an accepted build that the input declared unresolved was produced by one
    attempt on its own description, in a state [st_mid] reached from the input state; everything
    that was resolved at that moment has the same size and alignment in the final registry *)
Theorem sem_build_items order st0 st :
  collision_free (st_reg st0) -> keyed (st_reg st0) -> sem_build order st0 = BOk st ->
  let R0 := st_reg st0 in
  ext R0 R0 (st_reg st) /\
  forall p it0 gd it r,
    reg_get R0 p = Some it0 -> it_state it0 = Unresolved gd ->
    reg_get (st_reg st) p = Some it -> it_state it = Resolved r ->
    exists st_mid st_mid',
      ext R0 R0 (st_reg st_mid) /\ attempt st_mid p gd = (st_mid', Ok r) /\
      ext R0 (st_reg st_mid) (st_reg st_mid') /\ ext R0 (st_reg st_mid') (st_reg st) /\
      ext R0 (st_reg (set_resolved st_mid' p r)) (st_reg st) /\
      (exists itm, reg_get (st_reg st_mid) p = Some itm /\ it_state itm = Unresolved gd /\ it_path itm = p) /\
      mods_rel (st_modules st_mid) (st_modules st0).
Proof.
  intros Hcf HK H. cbn zeta. unfold sem_build in H.
  destruct (resolve_loop order _ st0) as [st1| | | |] eqn:El; try discriminate.
  rewrite (finish_build_reg _ _ H).
  destruct (resolve_loop_built _ (st_modules st0) order Hcf _ _ _ (Inv_init _) HK (mods_rel_refl _) El) as (HI1 & _ & Hext & Hall).
  split; [exact Hext|]. intros p it0 gd it r Hg0 Hs0 Hg Hs.
  destruct (Hall p r) as [(it0' & Hg0' & Hs0')|(m & m' & itm & gdm & H1 & H2 & H3 & H4 & H5 & H6 & H7)].
  - rewrite Hg0; discriminate.
  - exists it; auto.
  - rewrite Hg0 in Hg0'. inversion Hg0'; subst. congruence.
  - destruct H2 as (H2 & H2k & H2m). destruct (Inv_unresolved _ _ _ _ _ H2 H3 H4) as (it0' & Hg0' & Hs0').
    rewrite Hg0 in Hg0'. inversion Hg0'; subst it0'. rewrite Hs0 in Hs0'. inversion Hs0'; subst gdm.
    destruct (attempt_inv _ _ _ _ _ _ _ Hcf H2 H2k H3 H4 H5) as (_ & _ & Hmm & _).
    exists m, m'. split; [exact H1|]. split; [exact H5|]. split; [exact Hmm|]. split; [exact H6|]. split; [exact H7|].
    split; [|exact H2m]. exists itm. split; [exact H3|]. split; [exact H4 | apply H2k; exact H3].
Qed.

(** the states pyxis builds its registry in: [sem_new], then [add_module] for every module *)
Definition input_state (ptr : N) (mods : list (path * gmodule)) : outcome sstate :=
  do st0 <- sem_new ptr; foldM (fun st pm => add_module st (fst pm) (snd pm)) mods st0.

Lemma input_state_keyed ptr mods st0 : input_state ptr mods = Ok st0 -> keyed (st_reg st0).
Proof.
  unfold input_state. intros H. inv_bind H.
  eapply (foldM_preserves (fun s => keyed (st_reg s))); [| |exact H].
  - intros s pm s2 Hs Hpm. cbn beta in Hpm. eapply add_module_keyed; eauto.
  - eapply sem_new_keyed; eauto.
Qed.

Lemma pyxis_resolve_input order ptr mods st :
  pyxis_resolve order ptr mods = BOk st ->
  exists st0, input_state ptr mods = Ok st0 /\ sem_build order st0 = BOk st.
Proof.
  unfold pyxis_resolve, input_state. destruct (bind _ _) as [st0| | |]; try discriminate. eauto.
Qed.

Theorem pyxis_resolve_items order ptr mods st0 st :
  input_state ptr mods = Ok st0 -> collision_free (st_reg st0) ->
  pyxis_resolve order ptr mods = BOk st ->
  let R0 := st_reg st0 in
  ext R0 R0 (st_reg st) /\
  forall p it0 gd it r,
    reg_get R0 p = Some it0 -> it_state it0 = Unresolved gd ->
    reg_get (st_reg st) p = Some it -> it_state it = Resolved r ->
    exists st_mid st_mid',
      ext R0 R0 (st_reg st_mid) /\ attempt st_mid p gd = (st_mid', Ok r) /\
      ext R0 (st_reg st_mid) (st_reg st_mid') /\ ext R0 (st_reg st_mid') (st_reg st) /\
      ext R0 (st_reg (set_resolved st_mid' p r)) (st_reg st) /\
      (exists itm, reg_get (st_reg st_mid) p = Some itm /\ it_state itm = Unresolved gd /\ it_path itm = p) /\
      mods_rel (st_modules st_mid) (st_modules st0).
Proof.
  intros Hin Hcf H. destruct (pyxis_resolve_input _ _ _ _ H) as (st0' & Hin' & Hb).
  rewrite Hin in Hin'. inversion Hin'; subst st0'.
  eapply sem_build_items; eauto using input_state_keyed.
Qed.

(** ** transporting the per-attempt layout facts to the final registry *)
Definition sized (R : registry) (r : region) : Prop := size_of R (r_type r) <> None.

Lemma region_sa_ext R0 R R' r : ext R0 R R' -> sized R r -> region_sa R' r = region_sa R r.
Proof.
  intros He Hs. unfold sized in Hs. unfold region_sa.
  destruct (size_of R (r_type r)) as [s|] eqn:Es; [|congruence].
  destruct (size_known_align_known _ _ _ Es) as [a Ea].
  now rewrite Ea, (size_of_ext _ _ _ He _ _ Es), (align_of_ext _ _ _ He _ _ Ea).
Qed.

Lemma map_region_sa_ext R0 R R' rs :
  ext R0 R R' -> Forall (sized R) rs -> map (region_sa R') rs = map (region_sa R) rs.
Proof.
  intros He. induction 1 as [|r rs Hr _ IH]; cbn [map]; [reflexivity|].
  now rewrite IH, (region_sa_ext _ _ _ _ He Hr).
Qed.

Lemma push_pending_sized R acc p acc' : push_pending R acc p = Ok acc' -> sized R (snd p).
Proof.
  unfold push_pending. intros H. inv_bind H. apply defer_opt_ok in H.
  unfold regions_push in H. unfold sized. destruct (size_of R (r_type (snd p))); [discriminate | discriminate].
Qed.

Lemma push_all_sized R : forall pending acc acc',
  foldM (push_pending R) pending acc = Ok acc' -> Forall (fun p => sized R (snd p)) pending.
Proof.
  induction pending as [|p pending IH]; intros acc acc' H; cbn [foldM] in H; [constructor|].
  inv_bind H. constructor; [eapply push_pending_sized; eauto | eauto].
Qed.

Lemma ignored_ext R0 R R' r : ext R0 R R' -> sized R r -> ignored R' r = ignored R r.
Proof.
  intros He Hs. unfold sized in Hs. unfold ignored.
  destruct (size_of R (r_type r)) as [s|] eqn:Es; [|congruence].
  now rewrite (size_of_ext _ _ _ He _ _ Es).
Qed.

Lemma declared_offsets_ext R0 R R' : ext R0 R R' -> forall pending last,
  Forall (fun p => sized R (snd p)) pending ->
  declared_offsets R' last pending = declared_offsets R last pending.
Proof.
  intros He. induction pending as [|[addr r] pending IH]; intros last H; cbn [declared_offsets]; [reflexivity|].
  inversion H as [|? ? Hr Hrest]; subst. cbn [snd] in Hr.
  now rewrite (ignored_ext _ _ _ _ He Hr), (region_sa_ext _ _ _ _ He Hr), IH.
Qed.

Lemma resolve_regions_pending_sized st owner v ts pending vfs st' regions vt size :
  resolve_regions st owner v ts pending vfs = Ok (st', regions, vt, size) ->
  Forall (fun p => sized (st_reg st') (snd p)) pending.
Proof.
  unfold resolve_regions. intros H. destruct (first_base_unresolved _ _); [discriminate|].
  inv_bind H. destruct a as [[st1 vt1] vr1]. inv_bind H. inv_bind H. inv_bind H. inv_bind H.
  destruct a2 as [named sz]. cbn [fst snd] in *.
  assert (st' = st1) as ->.
  { destruct ts as [t|]; [destruct (negb (sz =? t)%N); [discriminate|]|]; inversion H; auto. }
  eapply push_all_sized; eauto.
Qed.

Lemma reg_u8_ext R0 R R' : ext R0 R R' -> reg_u8 R -> reg_u8 R'.
Proof. unfold reg_u8. intros He H. eapply size_of_ext; eauto. Qed.

(** ** the predefined [u8] is in every input state (the hypothesis [reg_u8] of C01 is met) *)
Lemma sem_new_u8 ptr st : sem_new ptr = Ok st -> reg_u8 (st_reg st).
Proof. intros H. vm_compute in H. inversion H; subst. reflexivity. Qed.

Lemma add_fresh_keeps_u8 st it st' :
  reg_has (st_reg st) (it_path it) = false -> add_item st it = Ok st' ->
  reg_u8 (st_reg st) -> reg_u8 (st_reg st').
Proof.
  intros Hf Hadd Hu. unfold reg_u8 in *. cbn [size_of] in *. rewrite (add_item_reg _ _ _ Hadd).
  rewrite reg_get_add_other; [exact Hu|]. intros E. rewrite E in Hf. unfold reg_has, amem in Hf.
  unfold reg_get in Hu. destruct (alookup ["u8"] (reg_types (st_reg st))); discriminate.
Qed.

Lemma add_module_u8 st mp ast st' : reg_u8 (st_reg st) -> add_module st mp ast = Ok st' -> reg_u8 (st_reg st').
Proof.
  unfold add_module. intros HK H. inv_bind H. inv_bind H. inv_bind H.
  eapply (foldM_preserves (fun s => reg_u8 (st_reg s))); [| |exact H].
  - intros s e s' Hs He. unfold add_extern_type in He. inv_bind He.
    destruct a2 as [[size|] [al|]]; try discriminate.
    destruct (reg_has _ _) eqn:Eh; [discriminate|]. eapply add_fresh_keeps_u8; [|exact He|exact Hs]. exact Eh.
  - eapply (foldM_preserves (fun s => reg_u8 (st_reg s))); [| |exact Ha1].
    + intros s d s' Hs Hd. unfold add_definition in Hd. destruct (reg_has _ _) eqn:Eh; [discriminate|].
      eapply add_fresh_keeps_u8; [|exact Hd|exact Hs]. exact Eh.
    + exact HK.
Qed.

Lemma input_state_u8 ptr mods st0 : input_state ptr mods = Ok st0 -> reg_u8 (st_reg st0).
Proof.
  unfold input_state. intros H. inv_bind H.
  eapply (foldM_preserves (fun s => reg_u8 (st_reg s))); [| |exact H].
  - intros s pm s2 Hs Hpm. cbn beta in Hpm. eapply add_module_u8; eauto.
  - eapply sem_new_u8; eauto.
Qed.

(** ** C02, end to end: size and alignment of every struct of an accepted build, computed with
    the sizes the *final* registry gives to the field types *)
Theorem whole_build_layout order ptr mods st0 st p it0 gd td0 it r :
  input_state ptr mods = Ok st0 -> collision_free (st_reg st0) ->
  pyxis_resolve order ptr mods = BOk st ->
  reg_get (st_reg st0) p = Some it0 -> it_state it0 = Unresolved gd -> gi_inner gd = GIType td0 ->
  reg_get (st_reg st) p = Some it -> it_state it = Resolved r ->
  exists td, rs_inner r = IType td /\
    let fs := map (region_sa (st_reg st)) (td_regions td) in
    Forall (fun x => r_name x <> None) (td_regions td) /\
    rs_size r = total 0 fs /\
    (td_packed td = false ->
       struct_layout (rs_align r) fs = (prefix_sums 0 fs, rs_size r, rs_align r) /\
       is_power_of_two (rs_align r) = true) /\
    (td_packed td = true -> rs_align r = 1 /\ packed_layout fs = (prefix_sums 0 fs, rs_size r, 1)).
Proof.
  intros Hin Hcf Hres Hg0 Hs0 Hty Hg Hs.
  destruct (pyxis_resolve_items _ _ _ _ _ Hin Hcf Hres) as (_ & Hall).
  destruct (Hall _ _ _ _ _ Hg0 Hs0 Hg Hs) as (m & m' & _ & Hat & _ & Hext & _).
  unfold attempt in Hat. rewrite Hty in Hat.
  destruct (type_build_layout _ _ _ _ _ _ Hat) as (td & Hi & Hnames & Hsz & Hnp & Hp).
  destruct (type_build_inv _ _ _ _ _ _ Hat) as
      (parent & module & doc & ta & n & pending & vfs & regions & vt & size & funcs & A &
       _ & _ & _ & _ & Hrr & _ & Hr).
  assert (td_regions td = regions) as Hregs by (subst r; cbn in Hi; inversion Hi; reflexivity).
  pose proof (resolve_regions_sizes _ _ _ _ _ _ _ _ _ _ Hrr) as Hsized. rewrite <- Hregs in Hsized.
  exists td. split; [exact Hi|]. cbn zeta in *.
  rewrite (map_region_sa_ext _ _ _ _ Hext Hsized).
  split; [exact Hnames|]. split; [exact Hsz|]. split.
  - intros E. destruct (Hnp E) as (H1 & H2 & _). auto.
  - exact Hp.
Qed.

(** ** C01, end to end: every declared named field that is kept sits at its declared address, or
    at the end of its predecessor, under the Reference's algorithm applied with the final
    registry's sizes.  [pending] are the declared fields, with their types resolved in the state
    [R_mid] of the successful attempt (everything known there is unchanged in the final registry) *)
Theorem whole_build_offsets order ptr mods st0 st p it0 gd td0 it r :
  input_state ptr mods = Ok st0 -> collision_free (st_reg st0) ->
  pyxis_resolve order ptr mods = BOk st ->
  reg_get (st_reg st0) p = Some it0 -> it_state it0 = Unresolved gd -> gi_inner gd = GIType td0 ->
  reg_get (st_reg st) p = Some it -> it_state it = Resolved r ->
  exists td R_mid module n pending vfs start,
    rs_inner r = IType td /\
    ext (st_reg st0) (st_reg st0) R_mid /\ ext (st_reg st0) R_mid (st_reg st) /\
    foldM (process_statement R_mid (module_scope module)) (gt_stmts td0) (O, ([], None))
      = Ok (n, (pending, vfs)) /\
    let R := st_reg st in
    let fs := map (region_sa R) (td_regions td) in
    (start = 0 \/ (start = reg_ptr R /\
                   exists ty, hd_error (td_regions td) = Some (vftable_region_of (TConstPtr ty)))) /\
    Forall (fun x => r_name (snd x) <> None ->
                     In x (combine (field_offsets (td_packed td) (rs_align r) fs) (td_regions td)))
           (declared_offsets R start pending).
Proof.
  intros Hin Hcf Hres Hg0 Hs0 Hty Hg Hs.
  destruct (pyxis_resolve_items _ _ _ _ _ Hin Hcf Hres) as (_ & Hall).
  destruct (Hall _ _ _ _ _ Hg0 Hs0 Hg Hs) as (m & m' & Hext0 & Hat & Hmm' & Hext & _).
  unfold attempt in Hat. rewrite Hty in Hat.
  assert (reg_u8 (st_reg m')) as Hu8.
  { eapply reg_u8_ext; [exact Hmm'|]. eapply reg_u8_ext; [exact Hext0|]. eapply input_state_u8; eauto. }
  destruct (type_build_inv _ _ _ _ _ _ Hat) as
      (parent & module & doc & ta & n & pending & vfs & regions & vt & size & funcs & A &
       Hpar & Hmod & Hta & Hst & Hrr & Hca & Hr).
  destruct (resolve_regions_offsets _ _ _ _ _ _ _ _ _ _ Hrr Hu8) as (start & Hstart & Hall').
  destruct (resolve_regions_size _ _ _ _ _ _ _ _ _ _ Hrr) as (Hsz & _ & _).
  pose proof (resolve_regions_sizes _ _ _ _ _ _ _ _ _ _ Hrr) as Hsized.
  pose proof (resolve_regions_pending_sized _ _ _ _ _ _ _ _ _ _ Hrr) as Hpsized.
  exists {| td_regions := regions; td_doc := doc; td_assoc := funcs; td_vftable := vt;
            td_singleton := ta_singleton ta; td_copyable := ta_copyable ta;
            td_cloneable := ta_cloneable ta; td_defaultable := ta_defaultable ta;
            td_packed := ta_packed ta |}, (st_reg m), module, n, pending, vfs, start.
  subst r. cbn [rs_inner rs_align td_regions td_packed].
  split; [reflexivity|]. split; [exact Hext0|]. split; [eapply ext_trans; eauto|]. split; [exact Hst|].
  cbn zeta in *.
  rewrite (map_region_sa_ext _ _ _ _ Hext Hsized), (declared_offsets_ext _ _ _ Hext _ _ Hpsized).
  destruct Hext as [Hptr _]. rewrite <- Hptr. split.
  { destruct Hstart as [[-> _]|(-> & ty & fs & Hhd & _)]; [left; reflexivity | right; split; [reflexivity | eauto]]. }
  assert (field_offsets (ta_packed ta) A (map (region_sa (st_reg m')) regions)
          = prefix_sums 0 (map (region_sa (st_reg m')) regions)) as ->.
  { unfold field_offsets. destruct (ta_packed ta) eqn:Ep.
    - rewrite packed_layout_sums. reflexivity.
    - destruct (compute_alignment_layout _ _ _ _ _ Hca Ep Hsz) as (-> & _). reflexivity. }
  exact Hall'.
Qed.

(** ** the side condition is decidable *)
Definition collision_freeb (R0 : registry) : bool :=
  forallb (fun kv => match vftable_path (fst kv) with
                     | Some vp => negb (reg_has R0 vp)
                     | None => true
                     end) (reg_types R0).

Lemma alookup_in {V} k (l : list (path * V)) v : alookup k l = Some v -> exists k', In (k', v) l /\ k' = k.
Proof.
  induction l as [|[k2 v2] l IH]; cbn [alookup]; [discriminate|].
  destruct (path_eqb_spec k k2) as [->|Hne].
  - intros H; inversion H; subst. exists k2. split; [now left | reflexivity].
  - intros H. destruct (IH H) as (k' & Hin & Hk). exists k'. split; [now right | exact Hk].
Qed.

Lemma collision_freeb_sound R0 : collision_freeb R0 = true -> collision_free R0.
Proof.
  unfold collision_freeb, collision_free. rewrite forallb_forall. intros H owner vp Hk Hvp.
  destruct (reg_get R0 owner) as [it|] eqn:Eg; [|congruence]. unfold reg_get in Eg.
  destruct (alookup_in _ _ _ Eg) as (k' & Hin & ->).
  specialize (H _ Hin). cbn [fst] in H. rewrite Hvp in H. unfold reg_has, amem in H. unfold reg_get.
  destruct (alookup vp (reg_types R0)); [discriminate | reflexivity].
Qed.

(** ** the two shapes of the lifting, ready for the per-item theorems *)
Theorem whole_build_enum order ptr mods st0 st p it0 gd ed0 it r :
  input_state ptr mods = Ok st0 -> collision_free (st_reg st0) ->
  pyxis_resolve order ptr mods = BOk st ->
  reg_get (st_reg st0) p = Some it0 -> it_state it0 = Unresolved gd -> gi_inner gd = GIEnum ed0 ->
  reg_get (st_reg st) p = Some it -> it_state it = Resolved r ->
  exists st_mid, ext (st_reg st0) (st_reg st0) (st_reg st_mid) /\
                 ext (st_reg st0) (st_reg st_mid) (st_reg st) /\ enum_build st_mid p ed0 = Ok r.
Proof.
  intros Hin Hcf Hres Hg0 Hs0 Hty Hg Hs.
  destruct (pyxis_resolve_items _ _ _ _ _ Hin Hcf Hres) as (_ & Hall).
  destruct (Hall _ _ _ _ _ Hg0 Hs0 Hg Hs) as (m & m' & Hext0 & Hat & Hmm' & Hext & _).
  unfold attempt in Hat. rewrite Hty in Hat. inversion Hat; subst m'.
  exists m. auto.
Qed.

Theorem whole_build_type order ptr mods st0 st p it0 gd td0 it r :
  input_state ptr mods = Ok st0 -> collision_free (st_reg st0) ->
  pyxis_resolve order ptr mods = BOk st ->
  reg_get (st_reg st0) p = Some it0 -> it_state it0 = Unresolved gd -> gi_inner gd = GIType td0 ->
  reg_get (st_reg st) p = Some it -> it_state it = Resolved r ->
  exists st_mid st_mid',
    ext (st_reg st0) (st_reg st0) (st_reg st_mid) /\
    type_build st_mid p (gi_vis gd) td0 = (st_mid', Ok r) /\
    ext (st_reg st0) (st_reg st_mid) (st_reg st_mid') /\ ext (st_reg st0) (st_reg st_mid') (st_reg st).
Proof.
  intros Hin Hcf Hres Hg0 Hs0 Hty Hg Hs.
  destruct (pyxis_resolve_items _ _ _ _ _ Hin Hcf Hres) as (_ & Hall).
  destruct (Hall _ _ _ _ _ Hg0 Hs0 Hg Hs) as (m & m' & Hext0 & Hat & Hmm' & Hext & _).
  unfold attempt in Hat. rewrite Hty in Hat. exists m, m'. auto.
Qed.

(** ** the generated vftable struct of every type of an accepted build *)
Lemma process_statements_vfs_first R scope s rest gfs n pending vfs :
  gs_field s = GVftable gfs ->
  foldM (process_statement R scope) (s :: rest) (O, ([], None)) = Ok (n, (pending, vfs)) ->
  exists sz fs, vfs = Some fs /\ foldM scan_vftable_size_attr (gs_attrs s) None = Ok sz /\
                convert_functions R scope sz gfs = Ok fs.
Proof.
  intros Hf H. cbn [foldM] in H. inv_bind H. destruct a as [idx1 [pending1 vfs1]].
  unfold process_statement in Ha. rewrite Hf in Ha. cbn [Nat.eqb negb] in Ha. inv_bind Ha. inv_bind Ha.
  inversion Ha; subst. apply process_rest_keeps_vfs in H; [|discriminate]. subst vfs. eauto.
Qed.

Lemma vftable_path_total p parent : path_parent p = Some parent -> exists vp, vftable_path p = Some vp.
Proof.
  unfold vftable_path, path_parent, path_last. destruct p; [discriminate|]. eauto.
Qed.

Lemma vftable_build_some st owner v fb fs st1 vt vr vp :
  vftable_build st owner v fb (Some fs) = Ok (st1, vt, vr) -> vftable_path owner = Some vp ->
  exists vit bf, vftable_item (st_reg st) owner v fs = Some vit /\ it_path vit = vp /\
                 add_item st vit = Ok st1 /\
                 vt = Some {| vt_functions := fs; vt_base_field := bf; vt_type := TConstPtr (TRaw vp) |}.
Proof.
  unfold vftable_build. intros H Hvp.
  destruct (vftable_item (st_reg st) owner v fs) as [vit|] eqn:Evi.
  2:{ unfold vftable_item in Evi. rewrite Hvp in Evi. discriminate. }
  destruct (vftable_item_facts _ _ _ _ _ Evi) as (Hvp' & _). rewrite Hvp in Hvp'. inversion Hvp' as [Hvpe].
  inv_bind H. rename a into st_add. inv_bind H. exists vit.
  destruct a as [[bn bv]|].
  - destruct (_ <? _)%nat; [discriminate|]. destruct (negb _); [discriminate|]. inversion H; subst.
    exists (Some bn). repeat split; auto.
  - inversion H; subst. exists None. repeat split; auto.
Qed.

Lemma resolve_regions_vfb st owner v ts pending vfs st' regions vt size :
  resolve_regions st owner v ts pending vfs = Ok (st', regions, vt, size) ->
  exists vr, vftable_build st owner v (find r_is_base (map snd pending)) vfs = Ok (st', vt, vr).
Proof.
  unfold resolve_regions. intros H. destruct (first_base_unresolved _ _); [discriminate|].
  inv_bind H. destruct a as [[st1 vt1] vr1]. inv_bind H. inv_bind H. inv_bind H. inv_bind H.
  destruct a2 as [named sz]. cbn [fst snd] in *.
  assert (st' = st1 /\ vt = vt1) as [-> ->].
  { destruct ts as [t|]; [destruct (negb (sz =? t)%N); [discriminate|]|]; inversion H; auto. }
  eauto.
Qed.

Theorem whole_build_vftable order ptr mods st0 st p it0 gd td0 it r s rest gfs :
  input_state ptr mods = Ok st0 -> collision_free (st_reg st0) ->
  pyxis_resolve order ptr mods = BOk st ->
  reg_get (st_reg st0) p = Some it0 -> it_state it0 = Unresolved gd -> gi_inner gd = GIType td0 ->
  reg_get (st_reg st) p = Some it -> it_state it = Resolved r ->
  gt_stmts td0 = s :: rest -> gs_field s = GVftable gfs ->
  exists R_mid scope sz fs vp vit td vt,
    ext (st_reg st0) (st_reg st0) R_mid /\ ext (st_reg st0) R_mid (st_reg st) /\
    foldM scan_vftable_size_attr (gs_attrs s) None = Ok sz /\
    convert_functions R_mid scope sz gfs = Ok fs /\
    vftable_path p = Some vp /\
    vftable_item (st_reg st) p (gi_vis gd) fs = Some vit /\
    reg_get (st_reg st) vp = Some vit /\
    rs_inner r = IType td /\ td_vftable td = Some vt /\
    vt_functions vt = fs /\ vt_type vt = TConstPtr (TRaw vp).
Proof.
  intros Hin Hcf Hres Hg0 Hs0 Hty Hg Hs Hst Hf.
  destruct (pyxis_resolve_items _ _ _ _ _ Hin Hcf Hres) as (_ & Hall).
  destruct (Hall _ _ _ _ _ Hg0 Hs0 Hg Hs) as (m & m' & Hext0 & Hat & Hmm' & Hext & Hext2 & (itm & Hgm & Hsm & Hkm) & _).
  unfold attempt in Hat. rewrite Hty in Hat.
  destruct (type_build_inv _ _ _ _ _ _ Hat) as
      (parent & module & doc & ta & n & pending & vfs & regions & vt & size & funcs & A &
       Hpar & Hmod & Hta & Hstm & Hrr & Hca & Hr).
  rewrite Hst in Hstm. destruct (process_statements_vfs_first _ _ _ _ _ _ _ _ Hf Hstm) as (sz & fs & -> & Hsz & Hconv).
  destruct (vftable_path_total _ _ Hpar) as (vp & Hvp).
  destruct (resolve_regions_vfb _ _ _ _ _ _ _ _ _ _ Hrr) as (vr & Hvb).
  destruct (vftable_build_some _ _ _ _ _ _ _ _ _ Hvb Hvp) as (vit & bf & Evi & Hvpe & Hadd & Hvt).
  assert (reg_get (st_reg m') vp = Some vit) as Hgv.
  { rewrite (add_item_reg _ _ _ Hadd), <- Hvpe. apply reg_get_add_same. }
  assert (reg_get (st_reg st0) p <> None) as Hup by congruence.
  assert (vp <> p) as Hne.
  { intros E. rewrite E in Hvp. pose proof (Hcf p p Hup Hvp). congruence. }
  (* after the owner is marked resolved, its vftable struct is final *)
  destruct Hext2 as (Hptr2 & Hres2 & Hgen).
  destruct Hext as (Hptr1 & Hres1 & Hgen1).
  assert (reg_get (st_reg m') p = Some itm) as Hgp.
  { rewrite (add_item_reg _ _ _ Hadd). rewrite reg_get_add_other; [exact Hgm | congruence]. }
  set (itp' := {| it_vis := it_vis itm; it_path := it_path itm; it_state := Resolved r; it_cat := it_cat itm |}).
  assert (st_reg (set_resolved m' p r) = reg_add (st_reg m') itp') as Hsr.
  { unfold set_resolved. now rewrite Hgp. }
  assert (reg_get (st_reg (set_resolved m' p r)) p = Some itp') as Hgp'.
  { rewrite Hsr. assert (it_path itp' = p) as Hk' by exact Hkm. rewrite <- Hk' at 1. apply reg_get_add_same. }
  assert (reg_get (st_reg (set_resolved m' p r)) vp = Some vit) as Hgv'.
  { rewrite Hsr. rewrite reg_get_add_other; [exact Hgv | cbn [itp' it_path]; congruence]. }
  pose proof (Hgen p vp _ _ Hup Hvp Hgp' eq_refl Hgv') as Hfinal.
  exists (st_reg m), (module_scope module), sz, fs, vp, vit.
  eexists. eexists. subst r. cbn [rs_inner td_vftable].
  split; [exact Hext0|]. split; [eapply ext_trans; [exact Hmm' | split; [exact Hptr1 | split; [exact Hres1 | exact Hgen1]]]|].
  split; [exact Hsz|]. split; [exact Hconv|]. split; [exact Hvp|].
  split; [unfold vftable_item in *; rewrite <- Hptr1; destruct Hmm' as (Hpm & _); rewrite <- Hpm; exact Evi|].
  split; [exact Hfinal|]. split; [reflexivity|]. split; [exact Hvt|]. split; reflexivity.
Qed.

(** the associated functions of an accepted type: injected base functions, then the impl block *)
Lemma type_build_inv_assoc st p v d st' rs :
  type_build st p v d = (st', Ok rs) ->
  exists parent module td regions acc1 acc2,
    path_parent p = Some parent /\ alookup parent (st_modules st) = Some module /\
    rs_inner rs = IType td /\ td_regions td = regions /\
    inject_bases (st_reg st') (filter r_is_base regions) O
                 ([], match td_vftable td with Some v' => map sf_name (vt_functions v') | None => [] end) = Ok acc1 /\
    match alookup p (m_impls module) with
    | Some blk => foldM (add_impl_function (st_reg st') (module_scope module)) (gb_fns blk) acc1
    | None => Ok acc1
    end = Ok acc2 /\
    td_assoc td = fst acc2.
Proof.
  unfold type_build. intros H.
  destruct (path_parent p) as [parent|] eqn:Epar; [|inversion H].
  destruct (alookup parent (st_modules st)) as [module|] eqn:Emod; [|inversion H].
  match type of H with context [match ?pre with Ok _ => _ | Defer => _ | Err _ => _ | Panic _ => _ end] =>
    destruct pre as [[[doc ta] [pending vfs]]| | |] eqn:Epre end; try (inversion H; fail).
  destruct (resolve_regions st p v (ta_size ta) pending vfs) as [[[[st1 regions] vt] size]| | |] eqn:Err;
    try (inversion H; fail).
  inversion H as [[Hst Hpost]]. subst st'. clear H.
  inv_bind Hpost. inv_bind Hpost. inv_bind Hpost. inv_bind Hpost.
  inversion Hpost; subst. clear Hpost.
  do 6 eexists. cbn [rs_inner td_regions td_vftable td_assoc]. repeat split; eauto.
Qed.

Lemma FunctionLemmas_impl_kept R scope : forall fs acc acc',
  foldM (add_impl_function R scope) fs acc = Ok acc' ->
  exists new, fst acc' = fst acc ++ new /\
    Forall2 (fun f sf => function_build R scope false f = Ok sf) fs new.
Proof.
  induction fs as [|f fs IH]; intros acc acc' H; cbn [foldM] in H.
  - inversion H; subst. exists []. split; [now rewrite app_nil_r | constructor].
  - inv_bind H. unfold add_impl_function in Ha. destruct (str_mem (gf_name f) (snd acc)); [discriminate|].
    inv_bind Ha. inversion Ha; subst a. clear Ha.
    destruct (IH _ _ H) as (new & Hnew & Hall). cbn [fst] in Hnew.
    exists (a0 :: new). split; [rewrite Hnew, <- app_assoc; reflexivity | constructor; assumption].
Qed.

(** ** C05 / C16, end to end: every function declared in the impl block of a type of an accepted
    build is, in the final registry, an associated function of that type built by [function_build]
    from its declaration (so [C05_main] gives its address, parameters and return type, [C16_main]
    its calling convention), after the functions inherited from the bases *)
Theorem whole_build_impl_functions order ptr mods st0 st p it0 gd td0 it r parent module0 blk :
  input_state ptr mods = Ok st0 -> collision_free (st_reg st0) ->
  pyxis_resolve order ptr mods = BOk st ->
  reg_get (st_reg st0) p = Some it0 -> it_state it0 = Unresolved gd -> gi_inner gd = GIType td0 ->
  reg_get (st_reg st) p = Some it -> it_state it = Resolved r ->
  path_parent p = Some parent -> alookup parent (st_modules st0) = Some module0 ->
  alookup p (m_impls module0) = Some blk ->
  exists td R_mid inherited own,
    rs_inner r = IType td /\ ext (st_reg st0) R_mid (st_reg st) /\
    td_assoc td = inherited ++ own /\
    Forall2 (fun f sf => function_build R_mid (module_scope module0) false f = Ok sf) (gb_fns blk) own.
Proof.
  intros Hin Hcf Hres Hg0 Hs0 Hty Hg Hs Hpar0 Hmod0 Hblk.
  destruct (pyxis_resolve_items _ _ _ _ _ Hin Hcf Hres) as (_ & Hall).
  destruct (Hall _ _ _ _ _ Hg0 Hs0 Hg Hs) as (m & m' & Hext0 & Hat & Hmm' & Hext & _ & _ & HM).
  unfold attempt in Hat. rewrite Hty in Hat.
  destruct (type_build_inv_assoc _ _ _ _ _ _ Hat) as
      (parent' & module & td & regions & acc1 & acc2 & Hpar & Hmod & Hi & _ & _ & Himpl & Hassoc).
  rewrite Hpar0 in Hpar. inversion Hpar; subst parent'.
  destruct (mods_rel_lookup _ _ _ _ HM Hmod) as (m0 & Hm0 & (Hpath & Hast & Himpls & _)).
  rewrite Hmod0 in Hm0. inversion Hm0; subst m0.
  assert (module_scope module = module_scope module0) as Hscope by (unfold module_scope; congruence).
  rewrite Himpls, Hblk, Hscope in Himpl.
  destruct (FunctionLemmas_impl_kept _ _ _ _ _ Himpl) as (new & Hnew & Hall2).
  exists td, (st_reg m'), (fst acc1), new. split; [exact Hi|]. split; [exact Hext|].
  split; [rewrite Hassoc; exact Hnew | exact Hall2].
Qed.
