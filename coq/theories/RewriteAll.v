(** * RewriteAll (C20): descriptions that differ only in making implicit information explicit
    produce the same verdict class and, when accepted, byte-identical files -- END TO END.

    [lstep Ref p d d']: [d'] is obtained from [d] by ONE local rewrite of the item at path [p]:
      - [ls_index]   (R3) virtual functions get the [index] of their natural slot ([rw_index]);
      - [ls_enum]    (R4) enum values equal to the implicit ones are written out ([rw_enum]);
      - [ls_address] (R2) a field without [address] gets [address(A)], [A] the offset the placement
                          fold of [d] reaches at that field ([rw_address], [ok_address]);
      - [ls_gap]     (R5) a gap [_: unknown<n>] and the next field are replaced by that field with
                          [address(A)], [A] = the offset reached before the gap, plus [n]
                          ([rw_gap], [ok_gap]);
      - [ls_size]    (R1) a type without [size] gets [size(S)], [S] the size [resolve_regions]
                          computes for [d] ([rw_size], [ok_size]).
    The side conditions of R2, R5, R1 are semantic; they are stated in the reference states [Ref].
    [drw Ref p] is the reflexive, symmetric, transitive closure: any number of rewrites, in either
    direction ("and the reverse").  [rewritten Ref mods mods'] relates two inputs module by module
    and definition by definition.

    [rewritten_same_output]: the end-to-end theorem, for any set of reference states that covers the
    states the resolution of the first input visits ([covers]).  Instances:
    [rewritten_same_output_below] (the side conditions are asked in every state below the ideal),
    [rewritten_same_output_ideal] (only in the ideal states),
    [rewritten_same_output_accepted] (the first input is accepted: only in its final registry). *)
From Coq Require Import List NArith ZArith Bool Lia String Permutation.
From Coq Require Import Relations.Relation_Operators.
From PyxisModel Require Import Base Sexp Grammar SemTypes Registry Sem Emit SemLemmas ScopeLemmas
     PlacementLemmas FunctionLemmas VftableLemmas RewriteLemmas TotalityLemmas EmitLemmas WholeBuild Monotone
     OrderIndep SortUnique EmitInvariance FinalState OutputIndep Frame Unrelated ReorderReg ReorderAtt
     ConfluencePerm Reorder RewriteConf RewriteReg RewriteWhole RewriteAtt RewriteLocal RewriteSem RewriteLift.
From PyxisModel Require Confluence.
Import ListNotations.
Local Open Scope string_scope.
Local Open Scope list_scope.

(** ** the semantic rewrites on item definitions *)
Definition rw_address (d d' : gitemdef) (j : nat) (A : N) : Prop :=
  gi_vis d = gi_vis d' /\ gi_name d = gi_name d' /\
  exists td td', gi_inner d = GIType td /\ gi_inner d' = GIType td' /\ shape_address td td' j A.
Definition rw_gap (d d' : gitemdef) (j : nat) (n A : N) : Prop :=
  gi_vis d = gi_vis d' /\ gi_name d = gi_name d' /\
  exists td td', gi_inner d = GIType td /\ gi_inner d' = GIType td' /\ shape_gap td td' j n A.
Definition rw_size (d d' : gitemdef) (S : N) : Prop :=
  gi_vis d = gi_vis d' /\ gi_name d = gi_name d' /\
  exists td td', gi_inner d = GIType td /\ gi_inner d' = GIType td' /\ shape_size td td' S.

Lemma cls_eq_sym {A} (o o' : outcome A) : cls_eq o o' -> cls_eq o' o.
Proof. destruct o, o'; cbn; auto. Qed.
Lemma cls_eq_trans {A} (a b c : outcome A) : cls_eq a b -> cls_eq b c -> cls_eq a c.
Proof. destruct a, b, c; cbn; auto; try contradiction; congruence. Qed.

Section Steps.
  (** the reference states in which the semantic side conditions are stated *)
  Variable Ref : sstate -> Prop.

  Definition ok_address (p : path) (d : gitemdef) (j : nat) (A : N) : Prop :=
    forall st td, Ref st -> gi_inner d = GIType td ->
      forall off, field_offset_in st p (gi_vis d) td j off -> off = A.
  Definition ok_gap (p : path) (d : gitemdef) (j : nat) (n A : N) : Prop :=
    forall st td, Ref st -> gi_inner d = GIType td ->
      forall off, field_offset_in st p (gi_vis d) td j off -> A = (off + n)%N.
  Definition ok_size (p : path) (d : gitemdef) (S : N) : Prop :=
    forall st td, Ref st -> gi_inner d = GIType td ->
      forall sz, natural_size_in st p (gi_vis d) td sz -> sz = S.

  Inductive lstep (p : path) (d d' : gitemdef) : Prop :=
  | ls_index : rw_index d d' -> lstep p d d'
  | ls_enum : rw_enum d d' -> lstep p d d'
  | ls_address j A : rw_address d d' j A -> ok_address p d j A -> lstep p d d'
  | ls_gap j n A : rw_gap d d' j n A -> ok_gap p d j n A -> lstep p d d'
  | ls_size S : rw_size d d' S -> ok_size p d S -> lstep p d d'.

  Definition drw (p : path) : gitemdef -> gitemdef -> Prop := clos_refl_sym_trans gitemdef (lstep p).

  Definition rewritten (mods mods' : list (path * gmodule)) : Prop := rewritten_gen drw mods mods'.

  (** *** what one step keeps *)
  Lemma clean_stmt_adds s s' A : stmt_adds_address s s' A -> clean_stmt s' = clean_stmt s.
  Proof. intros [Hf _]. unfold clean_stmt. now rewrite Hf. Qed.

  Lemma vft_first_type d td : gi_inner d = GIType td ->
    (vft_first d <-> exists s rest gfs, gt_stmts td = s :: rest /\ gs_field s = GVftable gfs).
  Proof.
    intros Hi. split.
    - intros (td0 & s & rest & gfs & Hi0 & Hs & Hf). rewrite Hi in Hi0. inversion Hi0; subst. eauto.
    - intros (s & rest & gfs & Hs & Hf). exists td, s, rest, gfs. auto.
  Qed.

  Lemma head_vft_app (pre_s : list gstatement) x y post post' :
    (forall gfs, gs_field x <> GVftable gfs) -> (forall gfs, gs_field y <> GVftable gfs) ->
    ((exists s rest gfs, pre_s ++ x :: post = s :: rest /\ gs_field s = GVftable gfs) <->
     (exists s rest gfs, pre_s ++ y :: post' = s :: rest /\ gs_field s = GVftable gfs)).
  Proof.
    intros Hx Hy. destruct pre_s as [|a pre_s]; cbn [app].
    - split; intros (s & rest & gfs & E & Hf); inversion E; subst; exfalso; [eapply Hx | eapply Hy]; eauto.
    - split; intros (s & rest & gfs & E & Hf); inversion E; subst; eauto.
  Qed.

  Lemma is_field_not_vft s : is_field s -> forall gfs, gs_field s <> GVftable gfs.
  Proof. unfold is_field. intros H gfs E. now rewrite E in H. Qed.

  Lemma lstep_props p d d' : lstep p d d' ->
    gi_vis d = gi_vis d' /\ (vft_first d <-> vft_first d') /\ clean_def d = clean_def d'.
  Proof.
    intros [H|H|j A H _|j n A H _|S H _].
    - split; [apply H|]. split; [|now apply rw_index_clean].
      destruct H as (_ & _ & td & td' & Hi & Hi' & _ & Hs).
      rewrite (vft_first_type _ _ Hi), (vft_first_type _ _ Hi').
      inversion Hs as [|s s' l l' Hss Hl E1 E2]; subst.
      + split; intros (s & rest & gfs & E & _); discriminate.
      + pose proof (stmt_index_vft _ _ Hss) as Hv.
        split; intros (s0 & rest & gfs & E & Hf); inversion E; subst.
        * destruct (proj1 Hv (ex_intro _ gfs Hf)) as (gfs' & Hf'). eauto.
        * destruct (proj2 Hv (ex_intro _ gfs Hf)) as (gfs' & Hf'). eauto.
    - split; [apply H|]. split; [|now apply rw_enum_clean].
      destruct H as (_ & _ & ed & ed' & Hi & Hi' & _).
      split; intros (td & s & rest & gfs & Hi0 & _); congruence.
    - destruct H as (Hv & _ & td & td' & Hi & Hi' & Hattrs & pre_s & s & s' & post_s & Hs & Hs' & Hf & _ & Hadd & _).
      split; [exact Hv|]. split.
      + rewrite (vft_first_type _ _ Hi), (vft_first_type _ _ Hi'), Hs, Hs'.
        apply head_vft_app; [now apply is_field_not_vft | apply is_field_not_vft; now apply (is_field_adds s s' A)].
      + unfold clean_def. rewrite Hi, Hi', Hs, Hs', !forallb_app. cbn [forallb]. now rewrite (clean_stmt_adds _ _ _ Hadd).
    - destruct H as (Hv & _ & td & td' & Hi & Hi' & Hattrs & pre_s & g & s & s' & post_s & Hs & Hs' & (vg & Hg & _) & Hf & _ & Hadd & _).
      split; [exact Hv|]. split.
      + rewrite (vft_first_type _ _ Hi), (vft_first_type _ _ Hi'), Hs, Hs'.
        apply head_vft_app; [intros gfs E; congruence | apply is_field_not_vft; now apply (is_field_adds s s' A)].
      + unfold clean_def. rewrite Hi, Hi', Hs, Hs', !forallb_app. cbn [forallb]. rewrite (clean_stmt_adds _ _ _ Hadd).
        assert (clean_stmt g = true) as -> by (unfold clean_stmt; now rewrite Hg). reflexivity.
    - destruct H as (Hv & _ & td & td' & Hi & Hi' & Hs & _).
      split; [exact Hv|]. split.
      + rewrite (vft_first_type _ _ Hi), (vft_first_type _ _ Hi'), Hs. tauto.
      + unfold clean_def. now rewrite Hi, Hi', Hs.
  Qed.

  Lemma drw_props p d d' : drw p d d' ->
    gi_vis d = gi_vis d' /\ (vft_first d <-> vft_first d') /\ clean_def d = clean_def d'.
  Proof.
    induction 1 as [x y H|x|x y _ IH|x y z _ IH1 _ IH2].
    - now apply (lstep_props p).
    - repeat split; auto.
    - destruct IH as (A & B & C). repeat split; auto; apply B.
    - destruct IH1 as (A1 & B1 & C1), IH2 as (A2 & B2 & C2). split; [congruence|]. split; [|congruence].
      rewrite B1. exact B2.
  Qed.

  Theorem good_rel_drw : good_rel drw.
  Proof.
    constructor.
    - intros p d. apply rst_refl.
    - intros p d d' H. apply (drw_props p d d' H).
    - intros p d d' H. apply (drw_props p d d' H).
    - intros p d d' H. apply (drw_props p d d' H).
  Qed.

  (** *** one step, attempted in a state below a reference state *)
  Section OneState.
    Variable R0 : registry.
    Hypothesis Hcf : collision_free R0.
    Hypothesis Hu8 : user R0 ["u8"].
    Variables (st : sstate) (p : path).
    Hypothesis Hst8 : reg_u8 (st_reg st).
    Hypothesis Hcov : exists st', Ref st' /\ below R0 st st' p.

    Lemma lstep_attempt d d' : lstep p d d' -> clean_def d = true ->
      cls_eq (snd (attempt st p d)) (snd (attempt st p d')).
    Proof.
      destruct Hcov as (st' & Hr & Hb).
      intros [H|H|j A H Hok|j n A H Hok|S H Hok] Hc.
      - apply cls_eq_of_eq. f_equal. now apply rw_index_attempt.
      - apply cls_eq_of_eq. f_equal. now apply rw_enum_attempt.
      - destruct H as (Hv & _ & td & td' & Hi & Hi' & Hsh). unfold attempt. rewrite Hi, Hi', <- Hv.
        unfold clean_def in Hc. rewrite Hi in Hc.
        apply (address_type_build st p (gi_vis d) td td' j A Hst8 Hsh).
        intros off Hoff. apply (Hok st' td Hr Hi off). eapply field_offset_mono; eauto.
      - destruct H as (Hv & _ & td & td' & Hi & Hi' & Hsh). unfold attempt. rewrite Hi, Hi', <- Hv.
        unfold clean_def in Hc. rewrite Hi in Hc.
        apply (gap_type_build st p (gi_vis d) td td' j n A Hsh).
        intros off Hoff. apply (Hok st' td Hr Hi off). eapply field_offset_mono; eauto.
      - destruct H as (Hv & _ & td & td' & Hi & Hi' & Hsh). unfold attempt. rewrite Hi, Hi', <- Hv.
        unfold clean_def in Hc. rewrite Hi in Hc.
        apply (size_type_build st p (gi_vis d) td td' S Hsh).
        intros sz Hsz. apply (Hok st' td Hr Hi sz). eapply natural_size_mono; eauto.
    Qed.

    Lemma drw_attempt d d' : drw p d d' -> clean_def d = true ->
      cls_eq (snd (attempt st p d)) (snd (attempt st p d')).
    Proof.
      induction 1 as [x y H|x|x y H IH|x y z H1 IH1 H2 IH2]; intros Hc.
      - now apply lstep_attempt.
      - apply cls_eq_refl.
      - apply cls_eq_sym, IH. destruct (drw_props p _ _ H) as (_ & _ & E). congruence.
      - eapply cls_eq_trans; [apply IH1; exact Hc | apply IH2].
        destruct (drw_props p _ _ H1) as (_ & _ & E). congruence.
    Qed.
  End OneState.

  (** *** the reference states cover the states the resolution of the first input visits *)
  Definition covers (st0 : sstate) : Prop :=
    forall T, Confluence.ideal path resolved path_eqb (att st0) (items st0) (fun _ => None) T ->
    forall A k, Confluence.le path resolved A T -> In k (items st0) -> A k = None ->
      exists st', Ref st' /\ below (st_reg st0) (conc st0 A) st' k.

  Lemma mark_reg_u8 R A : reg_u8 R -> reg_u8 (mark R A).
  Proof.
    unfold reg_u8. cbn [size_of]. rewrite reg_get_mark. destruct (reg_get R ["u8"]) as [it|]; [|discriminate].
    cbn [option_map]. unfold mark_item, item_size, item_resolved. cbn [fst snd].
    destruct (it_state it) as [gd|r] eqn:Es; [discriminate|]. cbn [snd]. now rewrite Es.
  Qed.

  Theorem local_equiv_drw ptr mods st0 :
    input_state ptr mods = Ok st0 -> collision_free (st_reg st0) -> clean_stateb st0 = true ->
    covers st0 -> local_equiv drw st0.
  Proof.
    intros Hin Hcf Hcl Hcov T HT A k it gd gd' HA Hk Hn Hg Hs Hd.
    destruct (clean_stateb_sound _ Hcl) as [_ Hdefs].
    apply cls_eq_classify.
    apply (drw_attempt (st_reg st0) Hcf (reg_u8_user _ (input_state_u8 _ _ _ Hin)) (conc st0 A) k).
    - cbn [conc st_reg]. apply mark_reg_u8. eapply input_state_u8; eauto.
    - eapply Hcov; eauto.
    - exact Hd.
    - eapply Hdefs; eauto.
  Qed.

  (** ** the end-to-end theorem *)
  Theorem rewritten_same_output ptr mods mods' st0 o1 o2 :
    rewritten mods mods' ->
    input_state ptr mods = Ok st0 -> collision_free (st_reg st0) -> clean_stateb st0 = true ->
    covers st0 ->
    (forall l, Permutation (o1 l) l) -> (forall l, Permutation (o2 l) l) ->
    match pyxis_resolve o1 ptr mods, pyxis_resolve o2 ptr mods' with
    | BOk s1, BOk s2 => write_all s1 = write_all s2
    | BOk _, _ | _, BOk _ => False
    | _, _ => True
    end.
  Proof.
    intros HR Hin Hcf Hcl Hcov P1 P2.
    eapply (attempt_equiv_same_output drw); eauto using good_rel_drw.
    eapply local_equiv_drw; eauto.
  Qed.

  Theorem rewritten_same_build ptr mods mods' st0 o1 o2 :
    rewritten mods mods' ->
    input_state ptr mods = Ok st0 -> collision_free (st_reg st0) -> clean_stateb st0 = true ->
    covers st0 ->
    (forall l, Permutation (o1 l) l) -> (forall l, Permutation (o2 l) l) ->
    same_build2 (pyxis_resolve o1 ptr mods) (pyxis_resolve o2 ptr mods').
  Proof.
    intros HR Hin Hcf Hcl Hcov P1 P2.
    eapply (attempt_equiv_same_build drw); eauto using good_rel_drw.
    eapply local_equiv_drw; eauto.
  Qed.

  Theorem rewritten_registration ptr mods mods' :
    rewritten mods mods' -> is_ok (input_state ptr mods) = is_ok (input_state ptr mods').
  Proof. apply attempt_equiv_registration. apply good_rel_drw. Qed.
End Steps.

(** ** instances of the reference states *)

(** the states a resolution of the first input can visit *)
Section Instances.
  Variables (ptr : N) (mods : list (path * gmodule)) (st0 : sstate).
  Hypothesis Hin : input_state ptr mods = Ok st0.
  Hypothesis Hcf : collision_free (st_reg st0).
  Hypothesis Hclean : clean_stateb st0 = true.
  Let R0 := st_reg st0.

  Lemma below_conc A st' k :
    In k (items st0) -> usub R0 (mark R0 A) (st_reg st') -> mods_agree (st_modules st0) (st_modules st') ->
    chas R0 (st_reg st') -> below R0 (conc st0 A) st' k.
  Proof.
    intros Hk Hus Hm HC. destruct (clean_stateb_sound _ Hclean) as [Hmods _].
    split; [exact Hus|]. split; [exact Hm|]. split; [apply present_mark|]. split; [apply chas_mark|].
    split; [exact HC|]. split.
    - destruct (items_spec st0 (input_state_nodup _ _ _ Hin) k Hk) as (it & gd & Hg & _). unfold user. fold R0 in Hg. congruence.
    - intros parent m _ Hl. cbn [conc st_modules] in Hl. eapply clean_mods_lookup; eauto.
  Qed.

  (** every state below the ideal *)
  Definition Ref_below : sstate -> Prop :=
    fun st => exists T A, Confluence.ideal path resolved path_eqb (att st0) (items st0) (fun _ => None) T /\
                          Confluence.le path resolved A T /\ st = conc st0 A.

  Lemma covers_below : covers Ref_below st0.
  Proof.
    intros T HT A k HA Hk Hn. exists (conc st0 A). split; [exists T, A; auto|].
    apply below_conc; [exact Hk | apply usub_refl | apply mods_agree_refl | apply chas_mark].
  Qed.

  (** the ideal states only *)
  Definition Ref_ideal : sstate -> Prop :=
    fun st => exists T, Confluence.ideal path resolved path_eqb (att st0) (items st0) (fun _ => None) T /\ st = conc st0 T.

  Lemma covers_ideal : covers Ref_ideal st0.
  Proof.
    intros T HT A k HA Hk Hn. exists (conc st0 T). split; [exists T; auto|].
    apply below_conc; [exact Hk | now apply usub_mark | apply mods_agree_refl | apply chas_mark].
  Qed.

  (** the first input is accepted: its final registry, with the module table of the input *)
  Definition ref_state (t : sstate) : sstate := {| st_modules := st_modules st0; st_reg := st_reg t |}.
  Definition Ref_final (t : sstate) : sstate -> Prop := fun st => st = ref_state t.

  Lemma covers_final o1 t1 :
    (forall l, Permutation (o1 l) l) -> pyxis_resolve o1 ptr mods = BOk t1 -> covers (Ref_final t1) st0.
  Proof.
    intros P1 H1 T HT A k HA Hk Hn. exists (ref_state t1). split; [reflexivity|].
    destruct (clean_stateb_sound _ Hclean) as [Hm Hd].
    pose proof (input_state_keyed _ _ _ Hin) as HK0.
    pose proof (input_state_nodup _ _ _ Hin) as HND.
    pose proof (reg_u8_user _ (input_state_u8 _ _ _ Hin)) as Hu8.
    (* the loop of the accepted run, and the abstract state it stands for *)
    pose proof (pyxis_resolve_sem_build ptr mods st0 Hin o1) as E1. rewrite H1 in E1. unfold sem_build in E1.
    fold R0 in E1. change (S (List.length (reg_unresolved R0))) with (loop_fuel st0) in E1.
    destruct (resolve_loop o1 (loop_fuel st0) st0) as [s| | | |] eqn:EL; try discriminate.
    symmetry in E1. pose proof (finish_build_reg _ _ E1) as Ereg.
    pose proof (loop_sim st0 Hcf Hu8 Hm Hd HK0 HND o1 P1 (loop_fuel st0) _ _ (sim_init st0 HK0)) as HS.
    rewrite EL in HS.
    assert (List.length (Confluence.unres path resolved (items st0) (fun _ => None)) < loop_fuel st0) as Hf.
    { unfold Confluence.unres. rewrite filter_all_true; [unfold loop_fuel, items; lia | reflexivity]. }
    pose proof HT as [HTs HTm].
    pose proof (Confluence.strict_char path resolved path_eqb path_eqb_spec (att st0)
                  (att_M1 st0 Hcf Hu8 Hm Hd) (att_M2 st0 Hcf Hu8 Hm Hd) (items st0) o1 P1 (fun _ => None) T HT
                  (loop_fuel st0) (fun _ => None) (Confluence.le_refl _ _ _)
                  (Confluence.steps_le _ _ _ path_eqb_spec _ _ _ _ HTs) Hf) as HC.
    destruct (Confluence.loop path resolved path_eqb (att st0) (items st0) o1 true (loop_fuel st0) (fun _ => None))
      as [A1|A1| |]; cbn [abs_result] in HS; try contradiction.
    destruct HC as [Hag _].
    apply below_conc; cbn [ref_state st_reg st_modules]; [exact Hk | | apply mods_agree_refl |].
    - (* what [A] resolves, the accepted run resolves to the same value *)
      rewrite Ereg. destruct (sim_inv _ _ _ HS) as [Hptr _].
      split; [cbn [mark reg_ptr]; symmetry; exact Hptr|].
      intros q it Huq Hg Hr. rewrite (sim_user _ _ _ HS q Huq). fold R0. rewrite reg_get_mark in *.
      destruct (reg_get R0 q) as [it0|] eqn:Eg; [|discriminate]. cbn [option_map] in *. inversion Hg; subst it; clear Hg.
      f_equal. unfold mark_item in *. cbn [fst snd] in *.
      destruct (it_state it0) as [gd|r0] eqn:Es; [|reflexivity].
      destruct (A q) as [r|] eqn:EA.
      + assert (T q = Some r) as ET by (apply HA; exact EA).
        assert (In q (items st0)) as Hq.
        { destruct (in_dec (list_eq_dec string_dec) q (items st0)) as [Hi|Hni]; [exact Hi|].
          rewrite (Confluence.steps_outside _ _ _ path_eqb_spec _ _ _ _ HTs q Hni) in ET. discriminate. }
        now rewrite (Hag q Hq), ET.
      + cbn [snd] in Hr. unfold item_is_resolved in Hr. rewrite Es in Hr. discriminate.
    - rewrite Ereg. apply reach_chas. split; [apply (sim_inv _ _ _ HS) | apply (sim_present _ _ _ HS)].
  Qed.
End Instances.

(** ** C20 for the local rewrites *)

(** the side conditions asked in every state below the ideal *)
Theorem rewritten_same_output_below ptr mods mods' st0 o1 o2 :
  input_state ptr mods = Ok st0 -> collision_free (st_reg st0) -> clean_stateb st0 = true ->
  rewritten (Ref_below st0) mods mods' ->
  (forall l, Permutation (o1 l) l) -> (forall l, Permutation (o2 l) l) ->
  match pyxis_resolve o1 ptr mods, pyxis_resolve o2 ptr mods' with
  | BOk s1, BOk s2 => write_all s1 = write_all s2
  | BOk _, _ | _, BOk _ => False
  | _, _ => True
  end.
Proof.
  intros Hin Hcf Hcl HR P1 P2. eapply rewritten_same_output; eauto. eapply covers_below; eauto.
Qed.

(** the side conditions asked in the ideal states only *)
Theorem rewritten_same_output_ideal ptr mods mods' st0 o1 o2 :
  input_state ptr mods = Ok st0 -> collision_free (st_reg st0) -> clean_stateb st0 = true ->
  rewritten (Ref_ideal st0) mods mods' ->
  (forall l, Permutation (o1 l) l) -> (forall l, Permutation (o2 l) l) ->
  match pyxis_resolve o1 ptr mods, pyxis_resolve o2 ptr mods' with
  | BOk s1, BOk s2 => write_all s1 = write_all s2
  | BOk _, _ | _, BOk _ => False
  | _, _ => True
  end.
Proof.
  intros Hin Hcf Hcl HR P1 P2. eapply rewritten_same_output; eauto. eapply covers_ideal; eauto.
Qed.

(** the first input is accepted; the side conditions are asked in its final registry only; the
    second input is accepted too, under any schedule, and the files are the same *)
Theorem rewritten_same_output_accepted ptr mods mods' st0 o1 o2 t1 :
  input_state ptr mods = Ok st0 -> collision_free (st_reg st0) -> clean_stateb st0 = true ->
  (forall l, Permutation (o1 l) l) -> (forall l, Permutation (o2 l) l) ->
  pyxis_resolve o1 ptr mods = BOk t1 ->
  rewritten (Ref_final st0 t1) mods mods' ->
  exists t2, pyxis_resolve o2 ptr mods' = BOk t2 /\ write_all t1 = write_all t2.
Proof.
  intros Hin Hcf Hcl P1 P2 H1 HR.
  pose proof (rewritten_same_output (Ref_final st0 t1) ptr mods mods' st0 o1 o2 HR Hin Hcf Hcl
                (covers_final ptr mods st0 Hin Hcf Hcl o1 t1 P1 H1) P1 P2) as H.
  rewrite H1 in H. destruct (pyxis_resolve o2 ptr mods') as [t2| | | |]; try contradiction. eauto.
Qed.

(** the purely syntactic rewrites (R3, R4) need no reference state at all *)
Definition syn_step (d d' : gitemdef) : Prop := rw_index d d' \/ rw_enum d d'.
Definition drw_syn (p : path) : gitemdef -> gitemdef -> Prop := clos_refl_sym_trans gitemdef syn_step.

Lemma drw_syn_any Ref p d d' : drw_syn p d d' -> drw Ref p d d'.
Proof.
  induction 1 as [x y [H|H]|x|x y _ IH|x y z _ IH1 _ IH2].
  - apply rst_step. now apply ls_index.
  - apply rst_step. now apply ls_enum.
  - apply rst_refl.
  - now apply rst_sym.
  - eapply rst_trans; eauto.
Qed.

Definition rewritten_syn (mods mods' : list (path * gmodule)) : Prop := rewritten_gen drw_syn mods mods'.

Lemma rewritten_syn_any Ref mods mods' : rewritten_syn mods mods' -> rewritten Ref mods mods'.
Proof.
  induction 1 as [|[mp a] [mp' a'] l l' [Hk (A & B & C & E & F & G & H)] _ IH]; constructor; [|exact IH].
  split; [exact Hk|]. unfold ast_rel. cbn [fst snd] in *. repeat split; auto.
  clear - E. induction E as [|d d' l l' (Hn & Hv & Hd) _ IH]; constructor; [|exact IH].
  repeat split; auto. now apply drw_syn_any.
Qed.

Theorem rewritten_syn_same_output ptr mods mods' st0 o1 o2 :
  input_state ptr mods = Ok st0 -> collision_free (st_reg st0) -> clean_stateb st0 = true ->
  rewritten_syn mods mods' ->
  (forall l, Permutation (o1 l) l) -> (forall l, Permutation (o2 l) l) ->
  match pyxis_resolve o1 ptr mods, pyxis_resolve o2 ptr mods' with
  | BOk s1, BOk s2 => write_all s1 = write_all s2
  | BOk _, _ | _, BOk _ => False
  | _, _ => True
  end.
Proof.
  intros Hin Hcf Hcl HR P1 P2.
  eapply (rewritten_same_output_below ptr mods mods' st0); eauto. now apply rewritten_syn_any.
Qed.

(** ** reordering the definitions AND rewriting them: the two end-to-end theorems compose *)
Theorem reorder_rewrite_same_output Ref ptr mods mods1 mods' st0 o1 o2 :
  reordered mods mods1 ->
  input_state ptr mods = Ok st0 -> collision_free (st_reg st0) -> clean_stateb st0 = true ->
  (forall st1, input_state ptr mods1 = Ok st1 -> covers Ref st1) ->
  rewritten Ref mods1 mods' ->
  (forall l, Permutation (o1 l) l) -> (forall l, Permutation (o2 l) l) ->
  match pyxis_resolve o1 ptr mods, pyxis_resolve o2 ptr mods' with
  | BOk s1, BOk s2 => write_all s1 = write_all s2
  | BOk _, _ | _, BOk _ => False
  | _, _ => True
  end.
Proof.
  intros Hre Hin Hcf Hcl Hcov HR P1 P2.
  destruct (input_state_reordered _ _ _ _ Hre Hin) as (st1 & Hin1 & HS).
  pose proof (input_state_nodup _ _ _ Hin) as HN0. pose proof (input_state_nodup _ _ _ Hin1) as HN1.
  pose proof (srel_collision_free st0 st1 HS Hcf) as Hcf1.
  pose proof (srel_clean_stateb st0 st1 HS HN0 HN1 Hcl) as Hcl1.
  pose proof (pyxis_reorder_same_output' ptr mods mods1 st0 o1 o1 Hre Hin Hcf Hcl P1 P1) as A.
  pose proof (rewritten_same_output Ref ptr mods1 mods' st1 o1 o2 HR Hin1 Hcf1 Hcl1 (Hcov st1 Hin1) P1 P2) as B.
  destruct (pyxis_resolve o1 ptr mods) as [s1| | | |], (pyxis_resolve o1 ptr mods1) as [sm| | | |],
           (pyxis_resolve o2 ptr mods') as [s2| | | |]; try contradiction; try exact I; congruence.
Qed.
