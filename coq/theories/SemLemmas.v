(** * Lemmas about the resolution model (Sem.v): what an accepted attempt guarantees. *)
From Coq Require Import List NArith ZArith Bool Lia ZifyBool ZifyN String.
From PyxisModel Require Import Base Grammar SemTypes Registry Sem RustLayout LayoutLemmas.
Import ListNotations.
Local Open Scope N_scope.
Ltac Zify.zify_post_hook ::= Z.div_mod_to_equations.
Arguments N.add : simpl never. Arguments N.mul : simpl never.
Arguments N.modulo : simpl never. Arguments N.div : simpl never. Arguments N.gcd : simpl never.

(** ** outcome-monad inversion *)
Lemma bind_ok {A B} (x : outcome A) (f : A -> outcome B) b :
  bind x f = Ok b -> exists a, x = Ok a /\ f a = Ok b.
Proof. destruct x; cbn; try discriminate. eauto. Qed.

Ltac inv_bind H :=
  let a := fresh "a" in let Ha := fresh "Ha" in
  apply bind_ok in H as (a & Ha & H).

Lemma foldM_app {A S} (f : S -> A -> outcome S) l1 l2 s :
  foldM f (l1 ++ l2) s = bind (foldM f l1 s) (foldM f l2).
Proof.
  revert s; induction l1 as [|a l1 IH]; intros s; cbn [foldM app bind]; [reflexivity|].
  destruct (f s a); cbn [bind]; auto.
Qed.

(** ** sizes and alignments of regions as the layout algorithm sees them *)
Definition region_sa (R : registry) (r : region) : sa :=
  (match size_of R (r_type r) with Some s => s | None => 0 end,
   match align_of R (r_type r) with Some a => a | None => 0 end).
Definition region_known (R : registry) (r : region) : Prop :=
  size_of R (r_type r) <> None /\ align_of R (r_type r) <> None.

Lemma cfa_ok R : forall rs cur, check_fields_aligned R rs cur = Ok tt ->
  aligned_from cur (map (region_sa R) rs) = true /\ Forall (region_known R) rs.
Proof.
  induction rs as [|r rs IH]; intros cur H; cbn [check_fields_aligned map aligned_from] in *.
  - split; [reflexivity | constructor].
  - unfold region_sa at 1. unfold region_known.
    destruct (align_of R (r_type r)) as [a|] eqn:Ea; [|discriminate].
    destruct (size_of R (r_type r)) as [s|] eqn:Es; [|discriminate].
    destruct ((a =? 0) || negb (cur mod a =? 0)) eqn:E; [discriminate|].
    apply orb_false_iff in E as [E1 E2]. apply negb_false_iff in E2.
    destruct (IH _ H) as [H1 H2]. split.
    + rewrite E1, E2, H1. reflexivity.
    + constructor; [|exact H2]. rewrite Ea, Es. split; discriminate.
Qed.

Lemma flat_aligns_known R : forall rs, Forall (region_known R) rs ->
  flat_aligns R rs = map snd (map (region_sa R) rs).
Proof.
  induction rs as [|r rs IH]; intros H; cbn [flat_aligns map]; [reflexivity|].
  inversion H as [|? ? [_ Ha] Hr]; subst. unfold region_sa at 1. cbn [snd].
  destruct (align_of R (r_type r)); [|congruence]. now rewrite IH.
Qed.

(** ** lcm *)
Lemma checked_mul_some a b r : checked_mul a b = Some r -> r = a * b.
Proof. unfold checked_mul. destruct (fits_usize (a * b)); congruence. Qed.
Lemma checked_add_some a b r : checked_add a b = Some r -> r = a + b.
Proof. unfold checked_add. destruct (fits_usize (a + b)); congruence. Qed.

Lemma lcm2_spec acc x r : lcm2 acc x = Some r -> acc <> 0 -> x <> 0 ->
  N.divide acc r /\ N.divide x r /\ r <> 0.
Proof.
  unfold lcm2. intros H Hacc Hx.
  destruct (N.gcd acc x) as [|g] eqn:Eg.
  - apply N.gcd_eq_0_l in Eg. contradiction.
  - apply checked_mul_some in H. subst r.
    destruct (N.gcd_divide_l acc x) as [k Hk]. destruct (N.gcd_divide_r acc x) as [j Hj].
    rewrite Eg in Hk, Hj.
    assert (acc / N.pos g = k) as -> by (rewrite Hk; apply N.div_mul; discriminate).
    repeat split.
    + exists j. clear Hacc Hx Eg. subst acc x. ring.
    + exists k. reflexivity.
    + intros E. apply N.eq_mul_0 in E as [E|E]; [|contradiction]. subst k. apply Hacc. rewrite Hk. reflexivity.
Qed.

Lemma lcm_list_aux_spec : forall l acc L, lcm_list_aux l acc = Some L -> acc <> 0 ->
  Forall (fun x => x <> 0) l -> N.divide acc L /\ Forall (fun x => N.divide x L) l /\ L <> 0.
Proof.
  induction l as [|x l IH]; intros acc L H Hacc Hl; cbn [lcm_list_aux] in H.
  - inversion H; subst. repeat split; [apply N.divide_refl | constructor | exact Hacc].
  - inversion Hl as [|? ? Hx Hl']; subst.
    destruct (lcm2 acc x) as [a|] eqn:E; [|discriminate].
    destruct (lcm2_spec _ _ _ E Hacc Hx) as (D1 & D2 & Ha).
    destruct (IH _ _ H Ha Hl') as (D3 & D4 & HL).
    repeat split; [eapply N.divide_trans; eauto | | exact HL].
    constructor; [eapply N.divide_trans; eauto | exact D4].
Qed.

Lemma lcm_list_ge l L : lcm_list l = Some L -> Forall (fun x => x <> 0) l ->
  Forall (fun x => x <= L) l.
Proof.
  intros H Hl. destruct (lcm_list_aux_spec _ _ _ H ltac:(discriminate) Hl) as (_ & D & HL).
  eapply Forall_impl; [|exact D]. intros a Ha. apply N.divide_pos_le; [lia | exact Ha].
Qed.

Lemma aligned_from_nonzero : forall fs cur, aligned_from cur fs = true -> Forall (fun f => snd f <> 0) fs.
Proof.
  induction fs as [|[s a] r IH]; intros cur H; [constructor|].
  cbn [aligned_from] in H. apply andb_prop in H as [H1 H2]. apply andb_prop in H1 as [H0 _].
  constructor; [cbn; lia | eauto].
Qed.

(** ** compute_alignment: an accepted alignment makes repr(C, align(A)) reproduce the regions *)
Theorem compute_alignment_layout R ta regions size A :
  compute_alignment R ta regions size = Ok A -> ta_packed ta = false ->
  size = total 0 (map (region_sa R) regions) ->
  struct_layout A (map (region_sa R) regions) = (prefix_sums 0 (map (region_sa R) regions), size, A)
  /\ is_power_of_two A = true /\ Forall (region_known R) regions.
Proof.
  unfold compute_alignment. intros H Hp Hs. rewrite Hp in H.
  set (al := match ta_align ta with Some a => a | None => _ end) in H.
  destruct (is_power_of_two al) eqn:Epow; cbn [negb] in H; [|discriminate].
  destruct (lcm_list (flat_aligns R regions)) as [req|] eqn:El; [|discriminate].
  destruct (al <? req) eqn:Elt; [discriminate|].
  destruct (check_fields_aligned R regions 0) as [[]| | |] eqn:Ec; cbn [bind] in H; try discriminate.
  destruct (size mod al =? 0) eqn:Em; cbn [negb] in H; [|discriminate].
  inversion H; subst A. clear H.
  destruct (cfa_ok _ _ _ Ec) as [Hal Hk].
  split; [|split; assumption].
  subst size. apply regions_layout; [exact Hal | | lia].
  rewrite (flat_aligns_known _ _ Hk) in El.
  pose proof (aligned_from_nonzero _ _ Hal) as Hnz.
  assert (Forall (fun x => x <> 0) (map snd (map (region_sa R) regions))) as Hnz'.
  { apply Forall_forall. intros x Hx. apply in_map_iff in Hx as [f [<- Hf]].
    eapply Forall_forall in Hnz; eauto. }
  pose proof (lcm_list_ge _ _ El Hnz') as Hge.
  apply Forall_forall. intros f Hf.
  assert (snd f <= req). { eapply Forall_forall in Hge; [exact Hge|]. apply in_map. exact Hf. }
  lia.
Qed.

Theorem compute_alignment_packed R ta regions size A :
  compute_alignment R ta regions size = Ok A -> ta_packed ta = true ->
  A = 1 /\ ta_align ta = None.
Proof.
  unfold compute_alignment. intros H Hp. rewrite Hp in H.
  destruct (ta_align ta); [discriminate|]. inversion H. auto.
Qed.

(** ** the naming pass keeps types and yields the sum of the sizes *)
Lemma name_regions_spec R : forall rs s0 rs' s,
  name_regions R rs s0 = Ok (rs', s) ->
  map r_type rs' = map r_type rs /\ s = total s0 (map (region_sa R) rs) /\
  Forall (fun r => r_name r <> None) rs' /\
  Forall2 (fun r r' => r_name r <> None -> r' = r) rs rs'.
Proof.
  induction rs as [|r rs IH]; intros s0 rs' s H; cbn [name_regions] in H.
  - inversion H; subst. cbn. repeat split; constructor.
  - destruct (size_of R (r_type r)) as [rsz|] eqn:Es; [|discriminate].
    inv_bind H. destruct a as [rest s1]. inversion H; subst. clear H. cbn [fst snd] in *.
    destruct (IH _ _ _ Ha) as (H1 & H2 & H3 & H4).
    cbn [map total]. unfold region_sa at 1. rewrite Es. cbn [fst].
    repeat split.
    + f_equal; [|exact H1]. destruct (r_name r); reflexivity.
    + exact H2.
    + constructor; [|exact H3]. destruct (r_name r) eqn:En; [rewrite En; discriminate | cbn; discriminate].
    + constructor; [|exact H4]. intros Hn. destruct (r_name r); [reflexivity | congruence].
Qed.

Lemma region_sa_type R r r' : r_type r = r_type r' -> region_sa R r = region_sa R r'.
Proof. unfold region_sa. intros ->. reflexivity. Qed.
Lemma map_region_sa_types R rs rs' : map r_type rs = map r_type rs' ->
  map (region_sa R) rs = map (region_sa R) rs'.
Proof.
  revert rs'. induction rs as [|r rs IH]; intros [|r' rs'] H; cbn in *; try discriminate; [reflexivity|].
  inversion H. f_equal; [apply region_sa_type; assumption | auto].
Qed.

(** ** resolve_regions: the resolved size is the sum of the region sizes, every region is named *)
Lemma resolve_regions_size st owner v ts pending vfs st' regions vt size :
  resolve_regions st owner v ts pending vfs = Ok (st', regions, vt, size) ->
  size = total 0 (map (region_sa (st_reg st')) regions) /\
  Forall (fun r => r_name r <> None) regions /\
  (forall t, ts = Some t -> size = t).
Proof.
  unfold resolve_regions. intros H.
  destruct (first_base_unresolved _ _); [discriminate|].
  inv_bind H. destruct a as [[st1 vt1] vr1].
  inv_bind H. rename a into acc0. inv_bind H. rename a into acc1. inv_bind H. rename a into acc2.
  inv_bind H. destruct a as [named sz].
  destruct (name_regions_spec _ _ _ _ _ Ha3) as (Ht & Hs & Hn & _).
  cbn [fst snd] in H.
  assert (st' = st1 /\ regions = named /\ size = sz /\ (forall t, ts = Some t -> sz = t)) as (-> & -> & -> & Hts).
  { destruct ts as [t|].
    - destruct (sz =? t) eqn:E; cbn [negb] in H; [|discriminate].
      inversion H; subst. repeat split; auto. intros t' Ht'. inversion Ht'; subst. lia.
    - inversion H; subst. repeat split; auto. discriminate. }
  repeat split; auto.
  rewrite Hs. f_equal. apply map_region_sa_types. symmetry. exact Ht.
Qed.

(** ** type_build: what an accepted struct description guarantees about the emitted struct *)
Theorem type_build_layout st p v d st' rs :
  type_build st p v d = (st', Ok rs) ->
  exists td, rs_inner rs = IType td /\
    let R := st_reg st' in
    let fs := map (region_sa R) (td_regions td) in
    Forall (fun r => r_name r <> None) (td_regions td) /\
    rs_size rs = total 0 fs /\
    (td_packed td = false ->
       struct_layout (rs_align rs) fs = (prefix_sums 0 fs, rs_size rs, rs_align rs)
       /\ is_power_of_two (rs_align rs) = true /\ Forall (region_known R) (td_regions td)) /\
    (td_packed td = true ->
       rs_align rs = 1 /\ packed_layout fs = (prefix_sums 0 fs, rs_size rs, 1)).
Proof.
  unfold type_build. intros H.
  destruct (path_parent p) as [parent|]; [|inversion H].
  destruct (alookup parent (st_modules st)) as [module|]; [|inversion H].
  match type of H with context [match ?pre with Ok _ => _ | Defer => _ | Err _ => _ | Panic _ => _ end] =>
    destruct pre as [[[doc ta] [pending vfs]]| | |] eqn:Epre end; try (inversion H; fail).
  destruct (resolve_regions st p v (ta_size ta) pending vfs) as [[[[st1 regions] vt] size]| | |] eqn:Err;
    try (inversion H; fail).
  inversion H as [[Hst Hpost]]. subst st'. clear H.
  inv_bind Hpost. inv_bind Hpost. inv_bind Hpost. inv_bind Hpost. rename a2 into A.
  inversion Hpost; subst rs. clear Hpost. cbn [rs_inner rs_size rs_align].
  eexists. split; [reflexivity|]. cbn [td_regions td_packed].
  destruct (resolve_regions_size _ _ _ _ _ _ _ _ _ _ Err) as (Hsz & Hnamed & _).
  split; [exact Hnamed|]. split; [exact Hsz|]. split.
  - intros Hp. eapply compute_alignment_layout; eauto.
  - intros Hp. destruct (compute_alignment_packed _ _ _ _ _ Ha2 Hp) as [-> _].
    split; [reflexivity|]. rewrite Hsz. apply packed_layout_sums.
Qed.
