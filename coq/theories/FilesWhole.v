(** * FilesWhole: C14 end to end -- every module yields exactly one file containing exactly its
    own items.

    For every accepted, [collision_free] build of an input [mods] with pairwise distinct module
    paths ([pyxis_resolve order ptr mods = BOk st], [order] any schedule that does not drop work)
    and every successful run of the back end on its final state ([write_all st = Ok files]):

    1. FILE SET ([files_whole], [files_set], [files_no_other], [files_nodup]): the files are, up to
       order, exactly one file [(out_path k, f)] per module path [k <> []] of the INPUT, in input
       order before the final sort by name; nothing else is written (the root module [[]], which
       [sem_new] adds for the built-in types and which an input module of path [[]] would replace,
       gets no file).  File NAMES are pairwise distinct as soon as no path segment contains '/'
       (which holds of paths made from relative file paths); without that hypothesis two module
       paths can have the same [out_path].
    2. CONTENTS ([file_ok], field [fo_decls]): the struct/enum items of the file of module [(k, gm)],
       read back as (kind, name) pairs by [decl_of] ([item_kind], [struct_name], [enum_name]), are a
       permutation of [module_decls gm]: one [("struct", T)] per type definition, one
       [("enum", E)] per enum definition, and one [("struct", T ++ "Vftable")] per type definition
       with a vftable block -- in terms of [gm_defs gm] only.  [module_decls_nodup]: these names are
       pairwise distinct, so every declared item is there exactly once and nothing else is (no
       extern types, no built-ins, no items of other modules).
    3. OPAQUE TEXT ([file_ok], field [fo_text]): the items of the file are
       [opaque (rust_prologue gm) :: body ++ [opaque (rust_epilogue gm)]] where [body] contains no
       opaque text; [rust_prologue]/[rust_epilogue] are the [Some] prologues/epilogues of the blocks
       of [gm_backends gm] named "rust", in source order, joined by a line break.  Blocks of other
       backends do not occur in the definition, hence contribute nothing. *)
From Coq Require Import List NArith ZArith Bool Lia String Ascii Permutation.
From PyxisModel Require Import Base Sexp Grammar SemTypes Registry Sem SemLemmas FunctionLemmas
     ScopeLemmas PlacementLemmas TotalityLemmas Emit EmitLemmas WholeBuild Monotone OrderIndep
     EmitInvariance FinalState OutputIndep EmitReaders EmitShape EmitFinal EmitFind FilesInput FilesRead.
From PyxisModel Require Frame.
Import ListNotations.
Local Open Scope string_scope.
Local Open Scope list_scope.

(** ** the specification, in terms of the input module *)
Definition is_vftable_stmt (s : gstatement) : bool :=
  match gs_field s with GVftable _ => true | GField _ _ _ => false end.
(** the type definition has a vftable block *)
Definition declares_vftable (td : gtypedef) : bool := existsb is_vftable_stmt (gt_stmts td).
Definition def_has_vftable (d : gitemdef) : bool :=
  match gi_inner d with GIType td => declares_vftable td | GIEnum _ => false end.
Definition def_kind (d : gitemdef) : string :=
  match gi_inner d with GIType _ => "struct" | GIEnum _ => "enum" end.
Definition vftable_name (n : string) : string := n +++ "Vftable".

(** what one definition puts into the file of its module *)
Definition def_decls (d : gitemdef) : list (string * string) :=
  (def_kind d, gi_name d) :: (if def_has_vftable d then [("struct", vftable_name (gi_name d))] else []).
(** the struct and enum items the file of a module has to contain *)
Definition module_decls (gm : gmodule) : list (string * string) := flat_map def_decls (gm_defs gm).

(** the file [f] is the file of the input module [gm] *)
Record file_ok (gm : gmodule) (f : sexp) : Prop := {
  fo_text : exists body,
      file_items f = Some (opaque (rust_prologue gm) :: body ++ [opaque (rust_epilogue gm)]) /\
      Forall not_opaque body;
  fo_decls : Permutation (file_decls f) (module_decls gm) }.

(** the same, through the whole-file readers *)
Lemma file_ok_readers gm f :
  file_ok gm f ->
  file_prologue f = Some (rust_prologue gm) /\ file_epilogue f = Some (rust_epilogue gm) /\
  file_opaques f = [rust_prologue gm; rust_epilogue gm] /\
  Permutation (file_decls f) (module_decls gm).
Proof.
  intros [(body & Hf & Hb) Hd]. destruct (file_readers _ _ _ _ Hf Hb) as (_ & Ho & Hp & He). auto.
Qed.

(** ** small facts *)
Lemma in_alookup_nodup {V} k (v : V) : forall l, NoDup (map fst l) -> In (k, v) l -> alookup k l = Some v.
Proof.
  induction l as [|[k' v'] l IH]; intros HN Hin; [destruct Hin|].
  cbn [map fst] in HN. inversion HN as [|? ? Hn Hd]; subst. cbn [alookup]. destruct Hin as [E|Hin].
  - inversion E; subst. now rewrite path_eqb_refl.
  - destruct (path_eqb_spec k k') as [->|Hne]; [|auto].
    exfalso. apply Hn. apply in_map_iff. exists (k', v). auto.
Qed.

Lemma path_last_join k n : path_last (path_join k n) = Some n.
Proof.
  unfold path_last, path_join. destruct (k ++ [n]) eqn:E; [destruct k; discriminate|].
  rewrite <- E. now rewrite last_last.
Qed.

Lemma vftable_path_join k n : vftable_path (path_join k n) = Some (path_join k (vftable_name n)).
Proof. unfold vftable_path. now rewrite path_last_join, path_parent_join. Qed.

Lemma somes_app {A} (l1 l2 : list (option A)) : somes (l1 ++ l2) = somes l1 ++ somes l2.
Proof. induction l1 as [|[a|] l1 IH]; cbn [app somes]; [reflexivity| |]; now rewrite IH. Qed.

Lemma nodup_map_inj {A B} (f : A -> B) l :
  (forall x y, In x l -> In y l -> f x = f y -> x = y) -> NoDup l -> NoDup (map f l).
Proof.
  intros Hinj. induction 1 as [|a l Ha Hd IH]; cbn [map]; [constructor|]. constructor.
  - intros Hin. apply in_map_iff in Hin as (b & E & Hb). apply Ha.
    rewrite (Hinj a b); [exact Hb | now left | now right | now symmetry].
  - apply IH. intros x y Hx Hy. apply Hinj; now right.
Qed.

Lemma nodup_map_filter {A B} (f : A -> B) (p : A -> bool) l : NoDup (map f l) -> NoDup (map f (filter p l)).
Proof.
  induction l as [|a l IH]; cbn [map filter]; [auto|]. intros H. inversion H as [|? ? Hn Hd]; subst.
  destruct (p a); cbn [map]; [|auto]. constructor; [|auto].
  intros Hin. apply Hn. apply in_map_iff in Hin as (b & E & Hb). apply filter_In in Hb as [Hb _].
  apply in_map_iff. eauto.
Qed.

Lemma nodup_app_l {A} (l1 l2 : list A) : NoDup (l1 ++ l2) -> NoDup l1.
Proof.
  induction l1 as [|a l1 IH]; cbn [app]; [constructor|]. intros H. inversion H as [|? ? Hn Hd]; subst.
  constructor; [|auto]. intros Hin. apply Hn. apply in_or_app. now left.
Qed.

Lemma nodup_app_r {A} (l1 l2 : list A) : NoDup (l1 ++ l2) -> NoDup l2.
Proof. induction l1 as [|a l1 IH]; cbn [app]; [auto|]. intros H. inversion H; auto. Qed.

Lemma nodup_drop_mid {A} (a b c : list A) : NoDup (a ++ b ++ c) -> NoDup (a ++ c).
Proof.
  induction a as [|x a IH]; cbn [app]; [apply nodup_app_r|]. intros H. inversion H as [|? ? Hn Hd]; subst.
  constructor; [|auto]. intros Hin. apply Hn. rewrite !in_app_iff in *. tauto.
Qed.

Lemma filter_idem {A} (p : A -> bool) l : filter p (filter p l) = filter p l.
Proof.
  induction l as [|a l IH]; cbn [filter]; [reflexivity|]. destruct (p a) eqn:E; cbn [filter]; [|exact IH].
  now rewrite E, IH.
Qed.

(** ** vftable blocks: an accepted type has its vftable block first *)
Lemma process_late_no_vftable R scope : forall stmts idx pending vfs res,
  idx <> O -> foldM (process_statement R scope) stmts (idx, (pending, vfs)) = Ok res ->
  existsb is_vftable_stmt stmts = false.
Proof.
  induction stmts as [|s stmts IH]; intros idx pending vfs res Hidx H; cbn [foldM existsb] in *; [reflexivity|].
  inv_bind H. destruct a as [idx1 [pending1 vfs1]].
  unfold process_statement in Ha. unfold is_vftable_stmt at 1. destruct (gs_field s) as [v name t|gfs].
  - inv_bind Ha. inv_bind Ha. destruct (resolve_gtype R scope t); [|discriminate]. inversion Ha; subst.
    cbn [orb]. eapply IH; [|exact H]. discriminate.
  - destruct idx; [congruence|]. cbn in Ha. discriminate.
Qed.

Lemma accepted_vftable_first R scope stmts res :
  foldM (process_statement R scope) stmts (O, ([], None)) = Ok res ->
  existsb is_vftable_stmt stmts = true ->
  exists s rest gfs, stmts = s :: rest /\ gs_field s = GVftable gfs.
Proof.
  destruct stmts as [|s rest]; cbn [existsb]; [discriminate|]. intros H Hv.
  destruct (gs_field s) as [v name t|gfs] eqn:Ef; [|eauto].
  exfalso. cbn [foldM] in H. inv_bind H. destruct a as [idx1 [p1 v1]].
  unfold process_statement in Ha. rewrite Ef in Ha. inv_bind Ha. inv_bind Ha.
  destruct (resolve_gtype R scope t); [|discriminate]. inversion Ha; subst.
  apply process_late_no_vftable in H; [|discriminate].
  unfold is_vftable_stmt in Hv at 1. rewrite Ef in Hv. cbn [orb] in Hv. congruence.
Qed.

Lemma type_build_vftable_first st p v td st' r :
  type_build st p v td = (st', Ok r) -> declares_vftable td = true ->
  exists s rest gfs, gt_stmts td = s :: rest /\ gs_field s = GVftable gfs.
Proof.
  intros H Hv. destruct (type_build_inv _ _ _ _ _ _ H) as
      (parent & module & doc & ta & n & pending & vfs & regions & vt & size & funcs & A &
       _ & _ & _ & Hst & _).
  eapply accepted_vftable_first; eauto.
Qed.

Lemma vft_len_declares td n : vft_len_of td n -> declares_vftable td = true.
Proof.
  intros (s & rest & gfs & R & scope & sz & fs & Hs & Hf & _). unfold declares_vftable. rewrite Hs.
  cbn [existsb]. unfold is_vftable_stmt at 1. now rewrite Hf.
Qed.

Lemma enum_build_inner st p d r : enum_build st p d = Ok r -> exists ed, rs_inner r = IEnum ed.
Proof.
  unfold enum_build. destruct (path_parent p); [|discriminate]. destruct (alookup _ _); [|discriminate].
  destruct (resolve_gtype _ _ _); [|discriminate]. destruct (size_of _ _); [|discriminate].
  intros H. inv_bind H. inv_bind H. inv_bind H.
  destruct (ea_defaultable a1), (snd a) as [?|]; try discriminate;
    (destruct (align_of _ _); [|discriminate]; inversion H; cbn [rs_inner]; eauto).
Qed.

Lemma type_build_inner st p v td st' r : type_build st p v td = (st', Ok r) -> exists t, rs_inner r = IType t.
Proof.
  intros H. destruct (type_build_inv _ _ _ _ _ _ H) as
      (parent & module & doc & ta & n & pending & vfs & regions & vt & size & funcs & A &
       _ & _ & _ & _ & _ & _ & ->). cbn [rs_inner]. eauto.
Qed.

(** ** reading the declarations of a list of registered paths *)
Lemma flat_decl_map {A} R (pf : A -> path) (g : A -> list (string * string)) l :
  (forall a, In a l -> exists it, reg_get R (pf a) = Some it /\ item_decl it = g a) ->
  flat_map item_decl (somes (map (reg_get R) (map pf l))) = flat_map g l.
Proof.
  induction l as [|a l IH]; intros H; [reflexivity|]. cbn [map somes flat_map].
  destruct (H a (or_introl eq_refl)) as (it & -> & <-). cbn [flat_map]. f_equal.
  apply IH. intros b Hb. apply H. now right.
Qed.

Lemma flat_map_nil {A B} (l : list A) : flat_map (fun _ : A => @nil B) l = [].
Proof. induction l; cbn [flat_map app]; auto. Qed.

Lemma flat_map_single {A B} (h : A -> B) l : flat_map (fun a => [h a]) l = map h l.
Proof. induction l as [|a l IH]; cbn [flat_map map app]; [reflexivity | now rewrite IH]. Qed.

Lemma decls_perm defs :
  Permutation (map (fun d => (def_kind d, gi_name d)) defs ++
               map (fun d => ("struct", vftable_name (gi_name d))) (filter def_has_vftable defs))
              (flat_map def_decls defs).
Proof.
  induction defs as [|d defs IH]; [constructor|]. cbn [map filter flat_map app]. unfold def_decls at 1.
  destruct (def_has_vftable d); cbn [map app].
  - constructor. eapply Permutation_trans; [apply Permutation_sym, Permutation_middle|]. now constructor.
  - now constructor.
Qed.

(** ** accepted builds *)
Section Accepted.
  Variables (order : schedule) (ptr : N) (mods : list (path * gmodule)) (st0 st : sstate).
  Hypothesis Hin : input_state ptr mods = Ok st0.
  Hypothesis HN : NoDup (map fst mods).
  Hypothesis Hcf : collision_free (st_reg st0).
  Hypothesis Hord : keeps_work order.
  Hypothesis Hres : pyxis_resolve order ptr mods = BOk st.
  Let R0 := st_reg st0.
  Let R := st_reg st.

  Lemma accepted_loop :
    exists s, finish_build s = BOk st /\ LInv st0 s /\ Meta st0 (st_reg s).
  Proof.
    destruct (pyxis_resolve_input _ _ _ _ Hres) as (st0' & Hin' & Hb).
    rewrite Hin in Hin'. inversion Hin'; subst st0'. clear Hin'.
    unfold sem_build in Hb.
    destruct (resolve_loop order _ st0) as [s| | | |] eqn:El; try discriminate.
    pose proof (input_state_keyed _ _ _ Hin) as HK0.
    destruct (input_state_wf _ _ _ Hin) as [HU HW].
    pose proof (LInv_init st0 HK0 HW) as HL0.
    exists s. split; [exact Hb|]. split; [eapply resolve_loop_LInv; eauto|].
    eapply resolve_loop_Meta; eauto using Meta_init.
  Qed.

  (** the final state: registry invariants, and the module table *)
  Lemma final_modules :
    keyed R /\ Inv R0 R /\ Meta st0 R /\
    map fst (st_modules st) = map fst (st_modules st0) /\
    forall k m, In (k, m) (st_modules st) ->
      exists m0, alookup k (st_modules st0) = Some m0 /\ m_backends m = m_backends m0 /\
        NoDup (m_defpaths m) /\
        forall p, In p (m_defpaths m) <-> In p (m_defpaths m0) \/ gen_in st0 R k p.
  Proof.
    destruct accepted_loop as (s & F & (HI & HK & [HKeys HDm]) & HM).
    unfold R. rewrite (finish_build_reg _ _ F).
    split; [exact HK|]. split; [exact HI|]. split; [exact HM|].
    pose proof (mapM_ok _ _ _ (finish_build_mods _ _ F)) as F2.
    assert (map fst (st_modules s) = map fst (st_modules st)) as Hkeys.
    { eapply Forall2_fst_eq; [|exact F2]. intros a b Hab. cbn beta in Hab. inv_bind Hab. now inversion Hab. }
    split; [congruence|].
    intros k m Hm. destruct (Forall2_in_r _ _ _ _ F2 Hm) as ([k' ms] & Hms & Hg). cbn [fst snd] in Hg.
    inv_bind Hg. inversion Hg; subst k' a; clear Hg.
    destruct (input_state_wf _ _ _ Hin) as [_ [HND _]].
    assert (alookup k (st_modules s) = Some ms) as Hl.
    { apply in_alookup_nodup; [rewrite HKeys; exact HND | exact Hms]. }
    destruct (HDm _ _ Hl) as (m0 & Hm0 & (_ & _ & _ & _ & Hbk & _) & Hnd & Hset).
    unfold resolve_extern_values in Ha. inv_bind Ha. inversion Ha; subst m; clear Ha.
    cbn [m_backends m_defpaths]. exists m0. auto.
  Qed.

  (** *** the items of one input module in the final registry *)
  Section OneModule.
    Variables (k : path) (gm : gmodule) (m0 : smodule).
    Hypothesis Hreg : module_registered st0 k gm m0.

    (** a definition: resolved, [Defined], of the declared kind *)
    Lemma declared_final d :
      In d (gm_defs gm) ->
      exists it r, reg_get R (path_join k (gi_name d)) = Some it /\ it_state it = Resolved r /\
        item_decl it = [(def_kind d, gi_name d)] /\
        match gi_inner d with
        | GIType td0 => exists st_mid st_mid',
            type_build st_mid (path_join k (gi_name d)) (gi_vis d) td0 = (st_mid', Ok r)
        | GIEnum _ => True
        end.
    Proof.
      intros Hd. pose proof (mr_defs _ _ _ _ Hreg d Hd) as Hg0.
      destruct (accepted_declared_item order ptr mods st0 st _ _ d Hin HN Hcf Hord Hres Hg0 eq_refl)
        as (it & r & parent & m & Hg & Hs & Hp & _ & Hc & _).
      exists it, r. split; [exact Hg|]. split; [exact Hs|].
      assert (item_resolved it = Some r) as Hr by (unfold item_resolved; now rewrite Hs).
      unfold item_decl, def_kind. rewrite Hc, Hr, Hp, path_last_join.
      destruct (gi_inner d) as [td0|ed0] eqn:Ety.
      - destruct (whole_build_type order ptr mods st0 st _ _ d td0 it r Hin Hcf Hres Hg0 eq_refl Ety Hg Hs)
          as (sm & sm' & _ & Hb & _).
        destruct (type_build_inner _ _ _ _ _ _ Hb) as (t & ->). split; [reflexivity | eauto].
      - destruct (whole_build_enum order ptr mods st0 st _ _ d ed0 it r Hin Hcf Hres Hg0 eq_refl Ety Hg Hs)
          as (sm & _ & _ & Hb).
        destruct (enum_build_inner _ _ _ _ Hb) as (e & ->). split; [reflexivity | exact I].
    Qed.

    (** an extern type: emits nothing *)
    Lemma extern_final e :
      In e (gm_extern_types gm) ->
      exists it, reg_get R (path_join k (fst e)) = Some it /\ item_decl it = [].
    Proof.
      intros He. destruct (mr_externs _ _ _ _ Hreg e He) as (it0 & Hg0 & Hc0 & _).
      destruct final_modules as (_ & _ & HM & _).
      destruct (HM _ _ Hg0) as (it & Hg & _ & _ & Hc & _).
      exists it. split; [exact Hg|]. unfold item_decl. now rewrite Hc, Hc0.
    Qed.

    (** a type with a vftable block: the generated struct, named [<T>Vftable], which is not an item of
        the input *)
    Lemma vftable_final d :
      In d (gm_defs gm) -> def_has_vftable d = true ->
      exists vit, reg_get R (path_join k (vftable_name (gi_name d))) = Some vit /\
        item_decl vit = [("struct", vftable_name (gi_name d))] /\
        reg_get R0 (path_join k (vftable_name (gi_name d))) = None.
    Proof.
      intros Hd Hv. pose proof (mr_defs _ _ _ _ Hreg d Hd) as Hg0.
      destruct (declared_final d Hd) as (it & r & Hg & Hs & _ & Hb).
      unfold def_has_vftable in Hv. destruct (gi_inner d) as [td0|ed0] eqn:Ety; [|discriminate].
      destruct Hb as (sm & sm' & Hb).
      destruct (type_build_vftable_first _ _ _ _ _ _ Hb Hv) as (s & rest & gfs & Hst & Hf).
      destruct (whole_build_vftable order ptr mods st0 st _ _ d td0 it r s rest gfs Hin Hcf Hres Hg0 eq_refl Ety Hg Hs Hst Hf)
        as (Rm & scope & sz & fs & vp & vit & td & vt & _ & _ & _ & _ & Hvp & Hvi & Hgv & _).
      rewrite vftable_path_join in Hvp. inversion Hvp; subst vp. clear Hvp.
      exists vit. split; [exact Hgv|]. split.
      - unfold vftable_item in Hvi. rewrite vftable_path_join in Hvi. inversion Hvi; subst vit.
        unfold item_decl. cbn [it_cat item_resolved it_state it_path rs_inner]. now rewrite path_last_join.
      - unfold R0. apply (Hcf (path_join k (gi_name d))); [congruence | apply vftable_path_join].
    Qed.

    Definition vft_paths : list path :=
      map (fun d => path_join k (vftable_name (gi_name d))) (filter def_has_vftable (gm_defs gm)).

    (** a generated item of module [k] is the vftable struct of one of its types that has a vftable
        block *)
    Lemma generated_is_vftable p : gen_in st0 R k p -> In p vft_paths.
    Proof.
      intros (Hnone & Hsome & Hpar). destruct final_modules as (_ & [_ HI] & _). unfold R, R0 in *.
      destruct (reg_get (st_reg st) p) as [it|] eqn:Hg; [|congruence]. specialize (HI _ _ Hg).
      rewrite Hnone in HI.
      destruct HI as (owner & it0 & gd & td & n & rs & Hg0 & Hs0 & Hty & Hvp & Hlen & _).
      pose proof (Frame.vftable_path_parent _ _ Hvp) as Hpp. rewrite Hpar in Hpp.
      destruct (input_state_declared _ _ _ Hin HN _ _ _ Hg0 Hs0) as (_ & parent & m0' & Hpar' & Hm0' & Hd0).
      rewrite Hpar' in Hpp. inversion Hpp; subst parent. rewrite (mr_lookup _ _ _ _ Hreg) in Hm0'.
      inversion Hm0'; subst m0'. apply (mr_defpaths _ _ _ _ Hreg) in Hd0 as [Hd0|Hd0].
      - unfold def_paths in Hd0. apply in_map_iff in Hd0 as (d & Ho & Hd). subst owner.
        rewrite (mr_defs _ _ _ _ Hreg d Hd) in Hg0. inversion Hg0; subst it0. cbn [def_item it_state] in Hs0.
        inversion Hs0; subst gd. rewrite vftable_path_join in Hvp. inversion Hvp; subst p.
        unfold vft_paths. apply in_map_iff. exists d. split; [reflexivity|]. apply filter_In. split; [exact Hd|].
        unfold def_has_vftable. rewrite Hty. eapply vft_len_declares; eauto.
      - exfalso. unfold extern_paths in Hd0. apply in_map_iff in Hd0 as (e & Ho & He). subst owner.
        destruct (mr_externs _ _ _ _ Hreg e He) as (it' & Hg' & _ & Hr').
        rewrite Hg' in Hg0. inversion Hg0; subst it'. unfold item_is_resolved in Hr'. rewrite Hs0 in Hr'. discriminate.
    Qed.

    Lemma vft_paths_fresh p : In p vft_paths -> reg_get R0 p = None /\ gen_in st0 R k p.
    Proof.
      unfold vft_paths. intros Hp. apply in_map_iff in Hp as (d & <- & Hd). apply filter_In in Hd as [Hd Hv].
      destruct (vftable_final d Hd Hv) as (vit & Hg & _ & Hnone). split; [exact Hnone|].
      split; [exact Hnone|]. split; [unfold R in *; congruence | apply path_parent_join].
    Qed.

    Lemma declared_paths_nodup : NoDup (def_paths k gm ++ extern_paths k gm ++ vft_paths).
    Proof.
      pose proof (mr_names _ _ _ _ Hreg) as Hnames.
      rewrite app_assoc. apply nodup_app.
      - unfold def_paths, extern_paths.
        rewrite <- (map_map gi_name (path_join k)), <- (map_map fst (path_join k)), <- map_app.
        apply nodup_map_inj; [|exact Hnames]. intros x y _ _. apply path_join_inj.
      - unfold vft_paths. rewrite <- (map_map gi_name (fun n => path_join k (vftable_name n))).
        apply nodup_map_inj.
        + intros x y _ _ E. apply path_join_inj in E. unfold vftable_name in E. now apply append_cancel_r in E.
        + apply nodup_map_filter. eapply nodup_app_l; eauto.
      - intros p Hp Hv. destruct (vft_paths_fresh _ Hv) as [Hnone _].
        apply in_app_or in Hp as [Hp|Hp].
        + unfold def_paths in Hp. apply in_map_iff in Hp as (d & <- & Hd).
          pose proof (mr_defs _ _ _ _ Hreg d Hd) as X. unfold R0 in *. congruence.
        + unfold extern_paths in Hp. apply in_map_iff in Hp as (e & <- & He).
          destruct (mr_externs _ _ _ _ Hreg e He) as (it' & X & _). unfold R0 in *. congruence.
    Qed.

    (** the paths the final module lists: the declared definitions, the declared extern types, the
        generated vftable structs -- each once *)
    Lemma final_defpaths m :
      In (k, m) (st_modules st) ->
      Permutation (m_defpaths m) (def_paths k gm ++ extern_paths k gm ++ vft_paths).
    Proof.
      intros Hm. destruct final_modules as (_ & _ & _ & _ & Hmods).
      destruct (Hmods _ _ Hm) as (m0' & Hm0' & _ & Hnd & Hset).
      rewrite (mr_lookup _ _ _ _ Hreg) in Hm0'. inversion Hm0'; subst m0'.
      apply NoDup_Permutation; [exact Hnd | exact declared_paths_nodup|].
      intros p. rewrite Hset, (mr_defpaths _ _ _ _ Hreg), !in_app_iff. split.
      - intros [[H|H]|H]; auto. right; right. now apply generated_is_vftable.
      - intros [H|[H|H]]; auto. right. now apply vft_paths_fresh.
    Qed.

    (** CONTENTS, on the registry side: the declarations emitted for the final module are those of
        the input module *)
    Lemma final_module_decls m :
      In (k, m) (st_modules st) ->
      Permutation (flat_map item_decl (module_definitions R m)) (module_decls gm).
    Proof.
      intros Hm.
      eapply Permutation_trans; [apply (Permutation_flat_map item_decl), module_definitions_perm|].
      eapply Permutation_trans.
      { apply (Permutation_flat_map item_decl), somes_perm, Permutation_map, (final_defpaths m Hm). }
      rewrite !map_app, !somes_app, !flat_map_app.
      unfold def_paths, extern_paths, vft_paths.
      rewrite (flat_decl_map R (fun d => path_join k (gi_name d)) (fun d => [(def_kind d, gi_name d)])).
      2:{ intros d Hd. destruct (declared_final d Hd) as (it & r & Hg & _ & Hdecl & _). eauto. }
      rewrite (flat_decl_map R (fun e : string * list gattr => path_join k (fst e)) (fun _ => [])).
      2:{ intros e He. apply extern_final. exact He. }
      rewrite (flat_decl_map R (fun d => path_join k (vftable_name (gi_name d)))
                             (fun d => [("struct", vftable_name (gi_name d))])).
      2:{ intros d Hd. apply filter_In in Hd as [Hd Hv]. destruct (vftable_final d Hd Hv) as (vit & Hg & Hdecl & _). eauto. }
      rewrite flat_map_nil, !flat_map_single. cbn [app]. apply decls_perm.
    Qed.

    (** the names are pairwise distinct: every declaration is there exactly once *)
    Lemma module_decls_names_nodup : NoDup (map snd (module_decls gm)).
    Proof.
      eapply Permutation_NoDup; [apply Permutation_map, decls_perm|].
      rewrite map_app, !map_map. cbn [snd].
      pose proof (nodup_drop_mid _ _ _ declared_paths_nodup) as H2.
      unfold def_paths, vft_paths in H2.
      rewrite <- (map_map (fun d => vftable_name (gi_name d)) (path_join k)) in H2.
      rewrite <- (map_map gi_name (path_join k)) in H2. rewrite <- map_app in H2.
      eapply NoDup_map_inv; eauto.
    Qed.
  End OneModule.
End Accepted.

(** ** C14, end to end *)
(** one file per input module other than the root, in input order (before the sort by name), each
    the file of its module: FILE SET, CONTENTS and OPAQUE TEXT in one statement *)
Theorem files_whole order ptr mods st0 st files :
  input_state ptr mods = Ok st0 -> NoDup (map fst mods) -> collision_free (st_reg st0) ->
  keeps_work order -> pyxis_resolve order ptr mods = BOk st -> write_all st = Ok files ->
  exists fs : list (path * sexp),
    Permutation files (map file_of fs) /\
    map fst fs = filter nonroot (map fst mods) /\
    forall k gm f, In (k, gm) mods -> In (k, f) fs -> file_ok gm f.
Proof.
  intros Hin HN Hcf Hord Hres Hw.
  destruct (write_all_struct _ _ Hw) as (fs & Hperm & F).
  destruct (final_modules order ptr mods st0 st Hin Hcf Hres) as (_ & _ & _ & Hkeys & Hmods).
  exists fs. split; [exact Hperm|]. split.
  - rewrite (Forall2_fst_eq _ _ _ (fun a b H => proj1 H) F). unfold nonroot_mod.
    rewrite filter_map_fst, Hkeys, (input_state_keys _ _ _ Hin HN). cbn [filter nonroot]. apply filter_idem.
  - intros k gm f Hgm Hf. destruct (Forall2_in_l _ _ _ _ F Hf) as ([k' m] & Hm & Hk & Hfile).
    cbn [fst snd] in *. subst k'. apply filter_In in Hm as [Hm _].
    destruct (input_module_facts _ _ _ _ _ Hin HN Hgm) as (m0 & Hreg).
    destruct (module_file_read _ _ _ Hfile) as (body & Hitems & Hno & Hdecls).
    destruct (Hmods _ _ Hm) as (m0' & Hm0' & Hbk & _).
    rewrite (mr_lookup _ _ _ _ Hreg) in Hm0'. inversion Hm0'; subst m0'.
    destruct (rust_text_of_backends m gm) as [Hp He]; [rewrite Hbk; apply (mr_backends _ _ _ _ Hreg)|].
    rewrite Hp, He in Hitems.
    constructor; [eauto|]. destruct (file_readers _ _ _ _ Hitems Hno) as (-> & _). rewrite Hdecls.
    eapply final_module_decls; eauto.
Qed.

(** every declaration of an accepted module is there exactly once: the declared names (the
    generated vftable names included) are pairwise distinct *)
Theorem module_decls_nodup order ptr mods st0 st k gm :
  input_state ptr mods = Ok st0 -> NoDup (map fst mods) -> collision_free (st_reg st0) ->
  keeps_work order -> pyxis_resolve order ptr mods = BOk st -> In (k, gm) mods ->
  NoDup (map snd (module_decls gm)).
Proof.
  intros Hin HN Hcf Hord Hres Hgm. destruct (input_module_facts _ _ _ _ _ Hin HN Hgm) as (m0 & Hreg).
  eapply module_decls_names_nodup; eauto.
Qed.

Section Corollaries.
  Variables (order : schedule) (ptr : N) (mods : list (path * gmodule)) (st0 st : sstate)
            (files : list (string * sexp)).
  Hypothesis Hin : input_state ptr mods = Ok st0.
  Hypothesis HN : NoDup (map fst mods).
  Hypothesis Hcf : collision_free (st_reg st0).
  Hypothesis Hord : keeps_work order.
  Hypothesis Hres : pyxis_resolve order ptr mods = BOk st.
  Hypothesis Hw : write_all st = Ok files.

  (** 1. FILE SET: the file names are [out_path k] for the module paths [k <> []] of the input *)
  Theorem files_set :
    Permutation (map fst files) (map out_path (filter nonroot (map fst mods))) /\
    NoDup (filter nonroot (map fst mods)).
  Proof.
    destruct (files_whole _ _ _ _ _ _ Hin HN Hcf Hord Hres Hw) as (fs & Hperm & Hkeys & _).
    split; [|now apply NoDup_filter].
    rewrite <- Hkeys. eapply Permutation_trans; [apply Permutation_map, Hperm|].
    rewrite !map_map. reflexivity.
  Qed.

  (** every input module other than the root has its file *)
  Theorem files_for_module k gm :
    In (k, gm) mods -> k <> [] -> exists f, In (out_path k, f) files /\ file_ok gm f.
  Proof.
    intros Hgm Hk. destruct (files_whole _ _ _ _ _ _ Hin HN Hcf Hord Hres Hw) as (fs & Hperm & Hkeys & Hall).
    assert (In k (map fst fs)) as Hkin.
    { rewrite Hkeys. apply filter_In. split; [apply in_map_iff; exists (k, gm); auto | destruct k; [congruence | reflexivity]]. }
    apply in_map_iff in Hkin as ([k' f] & E & Hf). cbn [fst] in E. subst k'.
    exists f. split; [|eapply Hall; eauto].
    eapply Permutation_in; [apply Permutation_sym, Hperm|]. apply in_map_iff. exists (k, f). auto.
  Qed.

  (** and there is no other file *)
  Theorem files_no_other name f :
    In (name, f) files ->
    exists k gm, In (k, gm) mods /\ k <> [] /\ name = out_path k /\ file_ok gm f.
  Proof.
    intros Hf. destruct (files_whole _ _ _ _ _ _ Hin HN Hcf Hord Hres Hw) as (fs & Hperm & Hkeys & Hall).
    eapply Permutation_in in Hf; [|exact Hperm]. apply in_map_iff in Hf as ([k f'] & E & Hkf).
    unfold file_of in E. cbn [fst snd] in E. inversion E; subst name f'. clear E.
    assert (In k (filter nonroot (map fst mods))) as Hk.
    { rewrite <- Hkeys. apply in_map_iff. exists (k, f). auto. }
    apply filter_In in Hk as [Hk Hnr]. apply in_map_iff in Hk as ([k' gm] & E & Hgm). cbn [fst] in E. subst k'.
    exists k, gm. split; [exact Hgm|]. split; [destruct k; [discriminate | discriminate]|].
    split; [reflexivity | eapply Hall; eauto].
  Qed.

  Theorem files_count : List.length files = List.length (filter nonroot (map fst mods)).
  Proof.
    destruct files_set as [H _]. apply Permutation_length in H. now rewrite !map_length in H.
  Qed.
End Corollaries.

(** ** file names are pairwise distinct when no path segment contains a slash *)
Definition no_slash (s : string) : Prop := ~ In "/"%char (list_of_string s).
Definition slash_free (k : path) : Prop := Forall no_slash k.

Lemma list_of_string_app a b : list_of_string (a +++ b) = list_of_string a ++ list_of_string b.
Proof. induction a as [|c a IH]; cbn [String.append list_of_string app]; [reflexivity | now rewrite IH]. Qed.

Lemma split_concat_slash : forall l, l <> [] -> Forall no_slash l -> split_on "/" (concat_sep "/" l) = l.
Proof.
  unfold split_on. induction l as [|a l IH]; intros Hne Hall; [congruence|].
  inversion Hall as [|? ? Ha Hr]; subst. destruct l as [|b l].
  - cbn [concat_sep]. now rewrite split_on_aux_no_sep.
  - change (concat_sep "/" (a :: b :: l)) with (a +++ String "/" (concat_sep "/" (b :: l))).
    rewrite split_on_aux_app by exact Ha. cbn [String.append]. f_equal. apply IH; [discriminate | exact Hr].
Qed.

Lemma Forall_removelast {A} (P : A -> Prop) : forall l, Forall P l -> Forall P (removelast l).
Proof.
  induction l as [|a l IH]; intros H; [constructor|]. inversion H; subst. cbn [removelast].
  destruct l; [constructor | constructor; auto].
Qed.
Lemma Forall_last {A} (P : A -> Prop) d : forall l, l <> [] -> Forall P l -> P (last l d).
Proof.
  induction l as [|a l IH]; intros Hne H; [congruence|]. inversion H; subst. cbn [last].
  destruct l; [assumption | apply IH; [discriminate | assumption]].
Qed.

Lemma out_path_inj k1 k2 :
  k1 <> [] -> k2 <> [] -> slash_free k1 -> slash_free k2 -> out_path k1 = out_path k2 -> k1 = k2.
Proof.
  intros H1 H2 S1 S2 E. unfold out_path, path_last in E.
  destruct k1 as [|a1 r1]; [congruence|]. destruct k2 as [|a2 r2]; [congruence|].
  set (k1 := a1 :: r1) in *. set (k2 := a2 :: r2) in *.
  assert (forall k, k <> [] -> slash_free k -> Forall no_slash (removelast k ++ [last k "" +++ ".rs"])) as Hsf.
  { intros k Hk Sk. apply Forall_app. split; [now apply Forall_removelast|]. constructor; [|constructor].
    unfold no_slash. rewrite list_of_string_app, in_app_iff. intros [X|X].
    - revert X. apply (Forall_last no_slash "" k Hk Sk).
    - cbn in X. repeat (destruct X as [X|X]; [discriminate|]). exact X. }
  apply (f_equal (split_on "/")) in E.
  rewrite !split_concat_slash in E; try (apply Hsf; assumption); try (intros X; apply app_eq_nil in X as [_ X]; discriminate).
  apply app_inj_tail in E as [Er El]. apply append_cancel_r in El.
  rewrite (app_removelast_last "" H1), (app_removelast_last "" H2). now rewrite Er, El.
Qed.

Theorem files_nodup order ptr mods st0 st files :
  input_state ptr mods = Ok st0 -> NoDup (map fst mods) -> collision_free (st_reg st0) ->
  keeps_work order -> pyxis_resolve order ptr mods = BOk st -> write_all st = Ok files ->
  (forall k, In k (map fst mods) -> slash_free k) ->
  NoDup (map fst files).
Proof.
  intros Hin HN Hcf Hord Hres Hw Hsf.
  destruct (files_set _ _ _ _ _ _ Hin HN Hcf Hord Hres Hw) as [Hperm Hnd].
  eapply Permutation_NoDup; [apply Permutation_sym, Hperm|].
  apply nodup_map_inj; [|exact Hnd]. intros x y Hx Hy. apply filter_In in Hx as [Hx Hxr], Hy as [Hy Hyr].
  apply out_path_inj; auto; destruct x, y; discriminate.
Qed.

(** then THE file named [out_path k] is the file of module [k] *)
Theorem files_unique order ptr mods st0 st files k gm f :
  input_state ptr mods = Ok st0 -> NoDup (map fst mods) -> collision_free (st_reg st0) ->
  keeps_work order -> pyxis_resolve order ptr mods = BOk st -> write_all st = Ok files ->
  (forall k, In k (map fst mods) -> slash_free k) ->
  In (k, gm) mods -> k <> [] -> In (out_path k, f) files -> file_ok gm f.
Proof.
  intros Hin HN Hcf Hord Hres Hw Hsf Hgm Hk Hf.
  destruct (files_no_other _ _ _ _ _ _ Hin HN Hcf Hord Hres Hw _ _ Hf) as (k' & gm' & Hgm' & Hk' & E & Hok).
  assert (k = k') as <-.
  { apply out_path_inj; auto; apply Hsf; apply in_map_iff; [exists (k, gm) | exists (k', gm')]; auto. }
  pose proof (in_alookup_nodup _ _ _ HN Hgm) as L1. pose proof (in_alookup_nodup _ _ _ HN Hgm') as L2.
  rewrite L1 in L2. inversion L2; subst gm'. exact Hok.
Qed.

(** the same for permutation-valued schedules *)
Corollary files_whole_perm order ptr mods st0 st files :
  input_state ptr mods = Ok st0 -> NoDup (map fst mods) -> collision_free (st_reg st0) ->
  (forall l, Permutation (order l) l) -> pyxis_resolve order ptr mods = BOk st -> write_all st = Ok files ->
  exists fs : list (path * sexp),
    Permutation files (map file_of fs) /\
    map fst fs = filter nonroot (map fst mods) /\
    forall k gm f, In (k, gm) mods -> In (k, f) fs -> file_ok gm f.
Proof. intros Hin HN Hcf HP. apply (files_whole order ptr mods st0); auto. now apply perm_keeps_work. Qed.

Print Assumptions files_whole.
Print Assumptions module_decls_nodup.
Print Assumptions files_set.
Print Assumptions files_for_module.
Print Assumptions files_no_other.
Print Assumptions files_nodup.
Print Assumptions files_unique.
Print Assumptions files_whole_perm.
