(** * IntLitAgree: the two readers of an integer literal never disagree.

    pyxis reads the same literal text with [base10_parse::<usize>()] where a count is wanted (array
    length, [unknown<N>], attribute arguments) and with [base10_parse::<isize>()] where a value is
    wanted (enum values, integer expressions).  For every text: if both readers accept it they give
    the same number; a non-negated text accepted as an [isize] is accepted as a [usize]; a text
    accepted as a [usize] is accepted as an [isize] exactly when it is at most [isize::MAX]; and a
    negated text is never a [usize] while its [isize] reading is the negation of the plain one
    whenever both are in range. *)
From Coq Require Import String List ZArith NArith Bool Lia.
From PyxisModel Require Import Base Grammar Syntax IntLit IntLitSyntax.

Theorem readers_agree s n z :
  read_usize false s = Some n -> read_isize false s = Some z -> z = Z.of_N n.
Proof.
  intros Hu Hi. apply read_usize_spec in Hu. destruct Hu as (_ & sfx & Hl & _).
  apply read_isize_spec in Hi. destruct Hi as (n' & sfx' & Hl' & -> & _).
  rewrite Hl in Hl'. injection Hl' as <- <-. reflexivity.
Qed.

Theorem isize_reading_is_usize_reading s z :
  read_isize false s = Some z -> read_usize false s = Some (Z.to_N z).
Proof.
  intros Hi. apply read_isize_spec in Hi. destruct Hi as (n & sfx & Hl & -> & Hr).
  apply read_usize_spec. split; [reflexivity|]. exists sfx. cbn [signed] in *. rewrite N2Z.id.
  split; [assumption|]. unfold isize_max, usize_max in *. lia.
Qed.

Theorem usize_reading_is_isize_reading_iff s n :
  read_usize false s = Some n ->
  (read_isize false s = Some (Z.of_N n) <-> (Z.of_N n <= isize_max)%Z) /\
  (read_isize false s = None <-> (isize_max < Z.of_N n)%Z).
Proof.
  intros Hu. apply read_usize_spec in Hu. destruct Hu as (_ & sfx & Hl & _).
  destruct (read_isize_succeeds false s n sfx Hl) as [Hs Hn]. cbn [signed] in *.
  unfold isize_min, isize_max in *. split.
  - rewrite Hs. lia.
  - rewrite Hn. lia.
Qed.

Theorem negated_never_usize s : read_usize true s = None.
Proof. reflexivity. Qed.

Theorem negated_isize_is_opposite s z :
  read_isize false s = Some z -> read_isize true s = Some (- z)%Z.
Proof.
  intros Hi. apply read_isize_spec in Hi. destruct Hi as (n & sfx & Hl & -> & Hr).
  apply read_isize_spec. exists n, sfx. cbn [signed] in *.
  split; [assumption|]. split; [reflexivity|]. unfold isize_min, isize_max in *. lia.
Qed.

(** the one value that is an [isize] only when negated *)
Example isize_min_only_negated :
  read_isize true "9223372036854775808" = Some isize_min /\
  read_isize false "9223372036854775808" = None /\
  read_usize false "9223372036854775808" = Some 9223372036854775808%N.
Proof. vm_compute. repeat split. Qed.


(** the token model of [Syntax.v] and the text reader of a [usize] disagree on negated zero
    (DESIGN.md, section 11) and nowhere else *)
Theorem usize_token_vs_text neg s n sfx :
  lit_value s = Some (n, sfx) ->
  (usize_of (signed neg n) = read_usize neg s <-> ~ (neg = true /\ n = 0%N)).
Proof.
  intros Hl. split.
  - intros He [-> ->]. unfold read_usize in He. cbn in He. discriminate.
  - intros Hn. apply (usize_of_read neg s n sfx Hl). intros -> ->. apply Hn. split; reflexivity.
Qed.
