(** * Emit: the Rust back end (mirror of src/backends/rust.rs and the write loop of src/lib.rs).
    The output is the structured S-expression form that /verif/harness/src/rsdump.rs produces from
    the real emitted file: items are structured, types and bodies are token lists. *)
From PyxisModel Require Import Base Sexp Grammar SemTypes Registry Sem.
Local Open Scope string_scope.
Local Open Scope list_scope.

Definition tk (s : string) : sexp := Atom s.
Definition tks (l : list string) : list sexp := map Atom l.
Definition tint (n : N) (suffix : string) : sexp := SList [Atom "i"; sN n; Atom suffix].
Definition tstr (s : string) : sexp := SList [Atom "s"; Str s].
Definition paren (l : list sexp) : sexp := SList (Atom "paren" :: l).
Definition brace (l : list sexp) : sexp := SList (Atom "brace" :: l).
Definition bracket (l : list sexp) : sexp := SList (Atom "bracket" :: l).
Definition dcolon : list sexp := [tk ":"; tk ":"].

(** Rust keywords: an emitted identifier that is one makes [syn::parse_file] of the generated text
    fail ("Could not parse generated Rust code"), unless it is written raw *)
Definition rust_keywords : list string :=
  ["abstract"; "as"; "async"; "await"; "become"; "box"; "break"; "const"; "continue"; "crate"; "do"; "dyn";
   "else"; "enum"; "extern"; "false"; "final"; "fn"; "for"; "if"; "impl"; "in"; "let"; "loop"; "macro";
   "match"; "mod"; "move"; "mut"; "override"; "priv"; "pub"; "ref"; "return"; "Self"; "self"; "static";
   "struct"; "super"; "trait"; "true"; "try"; "type"; "typeof"; "unsafe"; "unsized"; "use"; "virtual";
   "where"; "while"; "yield"].
Definition not_keyword (s : string) : bool := negb (existsb (String.eqb s) rust_keywords).

(** identifiers that [format_ident!] accepts (ASCII) *)
(** bytes >= 128 belong to multi-byte UTF-8 letters: proc_macro2 accepts Unicode identifiers
    (XID); treating every such byte as an identifier character approximates that *)
Definition is_ident_start (c : ascii) : bool :=
  let n := N_of_ascii c in
  (((65 <=? n) && (n <=? 90)) || ((97 <=? n) && (n <=? 122)) || (n =? 95) || (128 <=? n))%N.
Definition is_ident_continue (c : ascii) : bool :=
  let n := N_of_ascii c in is_ident_start c || ((48 <=? n) && (n <=? 57))%N.
Definition plain_ident_ok (s : string) : bool :=
  match s with
  | EmptyString => false
  | String c r => is_ident_start c && forallb is_ident_continue (list_of_string r)
  end.
(** [format_ident!("{}", s)] also accepts a raw identifier [r#name] (quote's mk_ident), except for
    the path keywords that can never be raw *)
Definition ident_ok (s : string) : bool :=
  match s with
  | String "r" (String "#" rest) =>
    plain_ident_ok rest &&
    negb (String.eqb rest "crate" || String.eqb rest "self" || String.eqb rest "super" || String.eqb rest "Self"
          || String.eqb rest "_")
  | _ => plain_ident_ok s
  end.

(** a path segment may carry the "generics" hack ([Shared<Foo>]): split it into tokens *)
Fixpoint seg_tokens_aux (s : list ascii) (cur : list ascii) : list sexp :=
  let flush := match cur with [] => [] | _ => [Atom (string_of_list (rev cur))] end in
  match s with
  | [] => flush
  | c :: r =>
    if Ascii.eqb c "<" || Ascii.eqb c ">" then flush ++ Atom (String c "") :: seg_tokens_aux r []
    else seg_tokens_aux r (c :: cur)
  end.
Definition seg_tokens (s : string) : list sexp := seg_tokens_aux (list_of_string s) [].

Fixpoint path_tokens (p : path) : list sexp :=
  match p with
  | [] => []
  | [s] => seg_tokens s
  | s :: r => seg_tokens s ++ dcolon ++ path_tokens r
  end.

Definition is_void (p : path) : bool := match p with [s] => String.eqb s "void" | _ => false end.

(** fully_qualified_type_ref, as tokens *)
Definition raw_tokens (p : path) : list sexp :=
  if is_void p then dcolon ++ [tk "std"] ++ dcolon ++ [tk "ffi"] ++ dcolon ++ [tk "c_void"]
  else match p with
       | _ :: _ :: _ => tk "crate" :: dcolon ++ path_tokens p
       | _ => path_tokens p
       end.

Fixpoint commas (l : list (list sexp)) : list sexp :=
  match l with
  | [] => []
  | [x] => x
  | x :: r => x ++ tk "," :: commas r
  end.

Fixpoint type_tokens (t : stype) : list sexp :=
  match t with
  | TRaw p => raw_tokens p
  | TConstPtr t' => tk "*" :: tk "const" :: type_tokens t'
  | TMutPtr t' => tk "*" :: tk "mut" :: type_tokens t'
  | TArray t' n => [bracket (type_tokens t' ++ [tk ";"; tint n "-"])]
  | TFunction c args ret =>
    [tk "unsafe"; tk "extern"; tstr (cc_to_string c); tk "fn";
     paren (commas (map (fun a => tk (fst a) :: tk ":" :: type_tokens (snd a)) args))] ++
    match ret with
    | Some r => tk "-" :: tk ">" :: type_tokens r
    | None => []
    end
  end.

(** [sa_type_to_syn_type] parses the printed type with syn: a path segment that is not made of
    identifiers (and the [<]/[>] of the generics hack) is a parse error *)
Definition seg_ok (s : string) : bool :=
  match seg_tokens s with
  | [] => false
  | l => forallb (fun t => match t with
                           | Atom a => ident_ok a || String.eqb a "<" || String.eqb a ">"
                           | _ => false
                           end) l
  end.
Fixpoint stype_ok (t : stype) : bool :=
  match t with
  | TRaw p => match p with [] => false | _ => forallb seg_ok p end
  | TConstPtr t' | TMutPtr t' => stype_ok t'
  | TArray t' _ => stype_ok t'
  | TFunction _ args ret =>
    forallb (fun a => ident_ok (fst a) && not_keyword (fst a) && stype_ok (snd a)) args &&
    match ret with Some r => stype_ok r | None => true end
  end.

Definition vis_sexp (v : vis) : sexp := match v with Public => Atom "pub" | Private => Atom "priv" end.
Definition attr_outer (l : list sexp) : sexp := SList (Atom "attr" :: Atom "outer" :: l).
Definition attr_inner (l : list sexp) : sexp := SList (Atom "attr" :: Atom "inner" :: l).
Definition doc_lines (d : option string) : list string :=
  match d with Some s => split_on newline s | None => [] end.
Definition doc_attrs (d : option string) : list sexp :=
  map (fun l => attr_outer [tk "doc"; tk "="; tstr l]) (doc_lines d).
Definition attrs_sexp (l : list sexp) : sexp := SList (Atom "attrs" :: l).

(** ** functions *)
Definition param_sexp (a : sarg) : sexp :=
  match a with
  | SConstSelf => Atom "self"
  | SMutSelf => Atom "mutself"
  | SField n t => SList [Atom "arg"; SList [Atom "pat"; tk n]; SList (Atom "ty" :: type_tokens t)]
  end.
Definition lambda_arg (a : sarg) : list sexp :=
  match a with
  | SConstSelf => tks ["this"; ":"; "*"; "const"; "Self"]
  | SMutSelf => tks ["this"; ":"; "*"; "mut"; "Self"]
  | SField n t => tk n :: tk ":" :: type_tokens t
  end.
Definition call_arg (a : sarg) : list sexp :=
  match a with
  | SConstSelf => tks ["self"; "as"; "*"; "const"; "Self"; "as"; "_"]
  | SMutSelf => tks ["self"; "as"; "*"; "mut"; "Self"; "as"; "_"]
  | SField n _ => [tk n]
  end.
Definition call_args (f : sfunction) : list sarg :=
  filter (fun a => negb (fbody_is_field (sf_body f)) || negb (sarg_is_self a)) (sf_args f).
Definition ret_tokens (r : option stype) : list sexp :=
  match r with Some t => tk "-" :: tk ">" :: type_tokens t | None => [] end.

Definition function_body_tokens (f : sfunction) : list sexp :=
  match sf_body f with
  | BAddress a =>
    tks ["let"; "f"; ":"; "unsafe"; "extern"] ++ [tstr (cc_to_string (sf_cc f)); tk "fn";
      paren (commas (map lambda_arg (sf_args f)))] ++ ret_tokens (sf_ret f) ++
    [tk "="] ++ dcolon ++ [tk "std"] ++ dcolon ++ [tk "mem"] ++ dcolon ++
    [tk "transmute"; paren [tint a "-"; tk "as"; tk "usize"]; tk ";"; tk "f";
     paren (commas (map call_arg (call_args f)))]
  | BField field fname =>
    [tk "self"; tk "."; tk field; tk "."; tk fname; paren (commas (map call_arg (call_args f)))]
  | BVftable fname =>
    tks ["let"; "f"; "="; "std"; ":"; ":"; "ptr"; ":"; ":"; "addr_of"; "!"] ++
    [paren [paren [tk "*"; tk "self"; tk "."; tk "vftable"; paren []]; tk "."; tk fname];
     tk "."; tk "read"; paren []; tk ";"; tk "f"; paren (commas (map call_arg (call_args f)))]
  end.

Definition fn_sexp (attrs : list sexp) (v : vis) (is_unsafe : bool) (name : string)
           (params : list sexp) (ret : list sexp) (body : list sexp) : sexp :=
  SList [Atom "fn"; attrs_sexp attrs; vis_sexp v;
         SList (Atom "quals" :: if is_unsafe then [Atom "unsafe"] else []);
         Atom name; SList (Atom "params" :: params); SList (Atom "ret" :: ret);
         SList (Atom "body" :: body)].

Definition names_ok (f : sfunction) : bool :=
  ident_ok (sf_name f) &&
  forallb (fun a => match a with SField n _ => ident_ok n | _ => true end) (sf_args f) &&
  match sf_body f with
  | BField a b => ident_ok a && ident_ok b
  | BVftable a => ident_ok a
  | BAddress _ => true
  end.

Definition fn_types_ok (f : sfunction) : bool :=
  forallb (fun a => match a with SField _ t => stype_ok t | _ => true end) (sf_args f) &&
  match sf_ret f with Some t => stype_ok t | None => true end.

Definition build_function (f : sfunction) : outcome sexp :=
  if negb (names_ok f) then Panic "invalid identifier" else
  if negb (fn_types_ok f) then Err "type does not parse" else
  Ok (fn_sexp (doc_attrs (sf_doc f)) (sf_vis f) true (sf_name f)
              (map param_sexp (sf_args f))
              (match sf_ret f with Some t => type_tokens t | None => [] end)
              (function_body_tokens f)).

(** ** size check, shared by types and enums *)
Definition size_check (name : string) (size : N) : list sexp :=
  if (size =? 0)%N then [] else
  [fn_sexp [] Private false ("_" +++ name +++ "_size_check") [] []
     [tk "unsafe";
      brace (dcolon ++ [tk "std"] ++ dcolon ++ [tk "mem"] ++ dcolon ++ [tk "transmute"] ++ dcolon ++
             [tk "<"; bracket [tk "u8"; tk ";"; tint size "-"]; tk ","; tk name; tk ">";
              paren [bracket [tint 0 "u8"; tk ";"; tint size "-"]]; tk ";"]);
      tk "unreachable"; tk "!"; paren []]].

Definition impl_sexp (tr : sexp) (self_name : string) (items : list sexp) : sexp :=
  SList (Atom "impl" :: attrs_sexp [] :: tr :: SList [Atom "self"; tk self_name] :: items).

Definition derive_attr (base : list string) (copyable cloneable defaultable : bool) : list sexp :=
  let names := base ++ (if copyable then ["Copy"] else []) ++ (if cloneable then ["Clone"] else [])
                    ++ (if defaultable then ["Default"] else []) in
  match names with
  | [] => []
  | _ => [attr_outer [tk "derive"; paren (commas (map (fun n => [tk n]) names))]]
  end.

(** ** dfs_hierarchy *)
Fixpoint dfs_hierarchy (fuel : nat) (R : registry) (td : type_def) (fields : list string)
  : outcome (list (list string * stype)) :=
  match fuel with
  | O => Panic "model: hierarchy fuel exhausted"
  | S fu =>
    foldM (fun out r =>
             if negb (r_is_base r) then Ok out else
             do x <- region_name_and_typedef R r;
             match x with
             | None => Ok out
             | Some (name, btd) =>
               let fp := fields ++ [name] in
               do sub <- dfs_hierarchy fu R btd fp;
               Ok (out ++ (fp, r_type r) :: sub)
             end) (td_regions td) []
  end.

(** Display of a token stream for a Raw type path, as proc_macro2 prints it *)
Definition type_display (t : stype) : string :=
  match t with
  | TRaw p => if is_void p then ":: std :: ffi :: c_void"
              else match p with
                   | _ :: _ :: _ => "crate :: " +++ concat_sep " :: " p
                   | _ => concat_sep " :: " p
                   end
  | _ => "?"
  end.

Definition conflict_doc (name : string) (t : stype) (paths : list (list string)) : option string :=
  Some ("`AsRef` and `AsMut` implementations were not generated for `" +++ name +++ "` to `" +++
        type_display t +++ "`," +++ String newline "" +++
        "as there are multiple implementations of the same type in the hierarchy:" +++
        String.concat "" (map (fun p => String newline "" +++ "  - `" +++ concat_sep "." p +++ "`") paths)).

Definition as_ref_impls (self_name : string) (target : list sexp) (fields : list string) : list sexp :=
  let fp := flat_map (fun f => [tk "."; tk f]) fields in
  let tr (which : string) := SList (Atom "trait" :: tks ["std"; ":"; ":"; "convert"; ":"; ":"; which; "<"] ++ target ++ [tk ">"]) in
  let body_ref := match fields with [] => [tk "self"] | _ => tk "&" :: tk "self" :: fp end in
  let body_mut := match fields with [] => [tk "self"] | _ => tk "&" :: tk "mut" :: tk "self" :: fp end in
  [impl_sexp (tr "AsRef") self_name
     [fn_sexp [] Private false "as_ref" [Atom "self"] (tk "&" :: target) body_ref];
   impl_sexp (tr "AsMut") self_name
     [fn_sexp [] Private false "as_mut" [Atom "mutself"] (tk "&" :: tk "mut" :: target) body_mut]].

Definition conversions (R : registry) (fuel : nat) (name : string) (td : type_def) : outcome (list sexp) :=
  do h <- dfs_hierarchy fuel R td [];
  if negb (forallb (fun x => forallb ident_ok (fst x)) h) then Panic "invalid identifier" else
  if negb (forallb (fun x => stype_ok (snd x)) h) then Err "type does not parse" else
  let same t := filter (fun x => stype_eqb (snd x) t) h in
  Ok (flat_map (fun x =>
                  let impls := same (snd x) in
                  match impls with
                  | _ :: _ :: _ =>
                    [SList [Atom "const"; attrs_sexp (doc_attrs (conflict_doc name (snd x) (map fst impls)));
                            Atom "priv";
                            Atom ("_CONFLICTING_" +++ upper name +++ "_" +++ concat_sep "_" (map upper (fst x)));
                            SList [Atom "ty"; paren []]; SList [Atom "val"; paren []]]]
                  | _ => as_ref_impls name (type_tokens (snd x)) (fst x)
                  end) h ++ as_ref_impls name [tk name] []).

(** ** build_type *)
Definition region_field (r : region) : outcome sexp :=
  match r_name r with
  | None => Err "field name not present"
  | Some n =>
    if negb (ident_ok n) then Panic "invalid identifier" else
    if negb (stype_ok (r_type r)) then Err "type does not parse" else
    Ok (SList [Atom "field"; attrs_sexp (doc_attrs (r_doc r)); vis_sexp (r_vis r); Atom n;
               SList (Atom "ty" :: type_tokens (r_type r))])
  end.

Definition repr_attr (packed : bool) (alignment : N) : sexp :=
  attr_outer [tk "repr";
              paren (if packed then [tk "C"; tk ","; tk "packed"]
                     else [tk "C"; tk ","; tk "align"; paren [tint alignment "-"]])].

Definition singleton_struct_impl (name : string) (v : vis) (addr : N) : sexp :=
  impl_sexp (Atom "notrait") name
    [fn_sexp [] v true "get" []
       (tks ["Option"; "<"; "&"; "'"; "static"; "mut"; "Self"; ">"])
       [tk "unsafe";
        brace (tks ["let"; "ptr"; ":"; "*"; "mut"; "Self"; "="; "*"] ++
               [paren ([tint addr "usize"] ++ tks ["as"; "*"; "mut"; "*"; "mut"; "Self"]); tk ";";
                tk "ptr"; tk "."; tk "as_mut"; paren []])]].

Definition vftable_accessor (vt : tvftable) : outcome sexp :=
  let ty := type_tokens (vt_type vt) in
  if negb (stype_ok (vt_type vt)) then Err "type does not parse" else
  match vt_base_field vt with
  | Some f =>
    if negb (ident_ok f) then Panic "invalid identifier" else
    Ok (fn_sexp [] Public false "vftable" [Atom "self"] ty
                ([tk "self"; tk "."; tk f; tk "."; tk "vftable"; paren []; tk "as"] ++ ty))
  | None =>
    Ok (fn_sexp [] Public false "vftable" [Atom "self"] ty
                ([tk "self"; tk "."; tk "vftable"; tk "as"] ++ ty))
  end.

Definition build_type (R : registry) (fuel : nat) (p : path) (size alignment : N) (v : vis)
           (td : type_def) : outcome (list sexp) :=
  match path_last p with
  | None => Err "failed to get last of item path"
  | Some name =>
    if negb (ident_ok name) then Panic "invalid identifier" else
    do fields <- mapM region_field (td_regions td);
    if negb (ident_ok ("_" +++ name +++ "_size_check")) then Panic "invalid identifier" else
    do acc <- match td_vftable td with
              | Some vt => do a <- vftable_accessor vt; Ok [a]
              | None => Ok []
              end;
    do assoc <- mapM build_function (filter (fun f => negb (sf_is_internal f)) (td_assoc td));
    do vfns <- match td_vftable td with
               | Some vt => mapM build_function (filter (fun f => negb (sf_is_internal f)) (vt_functions vt))
               | None => Ok []
               end;
    do conv <- conversions R fuel name td;
    Ok ([SList (Atom "struct" ::
                 attrs_sexp (derive_attr [] (td_copyable td) (td_cloneable td) (td_defaultable td) ++
                             [repr_attr (td_packed td) alignment] ++ doc_attrs (td_doc td)) ::
                 vis_sexp v :: Atom name :: fields)] ++
        size_check name size ++
        match td_singleton td with Some a => [singleton_struct_impl name v a] | None => [] end ++
        [impl_sexp (Atom "notrait") name (acc ++ assoc ++ vfns)] ++
        conv)
  end.

(** ** build_enum *)
Definition disc_tokens (z : Z) : list sexp :=
  (if (z <? 0)%Z then [tk "-"] else []) ++ [tint (Z.abs_N z) "i64"; tk "as"; tk "_"].

Fixpoint enum_variants (fs : list (string * Z)) (idx : nat) (default_index : option nat) : outcome (list sexp) :=
  match fs with
  | [] => Ok []
  | (n, z) :: r =>
    if negb (ident_ok n) then Panic "invalid identifier" else
    do rest <- enum_variants r (S idx) default_index;
    let is_default := match default_index with Some i => Nat.eqb i idx | None => false end in
    Ok (SList [Atom "variant"; attrs_sexp (if is_default then [attr_outer [tk "default"]] else []);
               Atom n; SList (Atom "disc" :: disc_tokens z)] :: rest)
  end.

Definition build_enum (p : path) (size : N) (v : vis) (ed : enum_def) : outcome (list sexp) :=
  match path_last p with
  | None => Err "failed to get last of item path"
  | Some name =>
    if negb (ident_ok name) then Panic "invalid identifier" else
    if negb (stype_ok (ed_type ed)) then Err "type does not parse" else
    if negb (ident_ok ("_" +++ name +++ "_size_check")) then Panic "invalid identifier" else
    do variants <- enum_variants (ed_fields ed) O (ed_default_index ed);
    Ok ([SList (Atom "enum" ::
                 attrs_sexp ([attr_outer [tk "repr"; paren (type_tokens (ed_type ed))]] ++
                             derive_attr ["PartialEq"; "Eq"; "PartialOrd"; "Ord"; "Debug"]
                                         (ed_copyable ed) (ed_cloneable ed) (ed_defaultable ed) ++
                             doc_attrs (ed_doc ed)) ::
                 vis_sexp v :: Atom name :: variants)] ++
        size_check name size ++
        match ed_singleton ed with
        | Some a => [impl_sexp (Atom "notrait") name
                       [fn_sexp [] v true "get" [] [tk "Self"]
                          [tk "unsafe"; brace [paren ([tint a "-"] ++ tks ["as"; "*"; "const"; "Self"]);
                                               tk "."; tk "read"; paren []]]]]
        | None => []
        end)
  end.

Definition build_item (R : registry) (fuel : nat) (it : item) : outcome (list sexp) :=
  match item_resolved it with
  | None => Err "type was not resolved"
  | Some rs =>
    match it_cat it with
    | Defined => match rs_inner rs with
                 | IType td => build_type R fuel (it_path it) (rs_size rs) (rs_align rs) (it_vis it) td
                 | IEnum ed => build_enum (it_path it) (rs_size rs) (it_vis it) ed
                 end
    | _ => Ok []
    end
  end.

Definition build_extern_value (ev : sextern) : outcome sexp :=
  match ev_type ev with
  | None => Panic "received unresolved type"
  | Some t =>
    if negb (ident_ok ("get_" +++ ev_name ev)) then Panic "invalid identifier" else
    if negb (stype_ok t) then Err "type does not parse" else
    Ok (fn_sexp [] (ev_vis ev) true ("get_" +++ ev_name ev) []
                (tks ["&"; "'"; "static"; "mut"] ++ type_tokens t)
                [tk "unsafe";
                 brace [tk "&"; tk "mut"; tk "*";
                        paren ([tint (ev_address ev) "-"] ++ tks ["as"; "*"; "mut"] ++ type_tokens t)]])
  end.

(** ** write_module *)
Definition file_header (doc : option string) : list sexp :=
  [attr_inner [tk "allow"; paren (tks ["dead_code"; ","; "non_snake_case"; ","; "clippy"; ":"; ":";
                                       "missing_safety_doc"; ","; "clippy"; ":"; ":"; "unnecessary_cast"])];
   attr_inner [tk "cfg_attr"; paren [tk "any"; paren []; tk ","; tk "rustfmt"; tk ":"; tk ":"; tk "skip"]]] ++
  map (fun l => attr_inner [tk "doc"; tk "="; tstr l]) (doc_lines doc).

Definition rust_blocks (m : smodule) : list (option string * option string) :=
  map snd (filter (fun b => String.eqb (fst b) "rust") (m_backends m)).
Fixpoint somes {A} (l : list (option A)) : list A :=
  match l with [] => [] | Some a :: r => a :: somes r | None :: r => somes r end.
Definition newline_s : string := String newline "".
Definition prologue_text (m : smodule) : string := concat_sep newline_s (somes (map fst (rust_blocks m))).
Definition epilogue_text (m : smodule) : string := concat_sep newline_s (somes (map snd (rust_blocks m))).

Definition module_definitions (R : registry) (m : smodule) : list item :=
  sort (fun a b => path_leb (it_path a) (it_path b))
       (somes (map (reg_get R) (m_defpaths m))).

Definition ev_leb (a b : sextern) : bool :=
  match String.compare (ev_name a) (ev_name b) with Gt => false | _ => true end.

(** the names an item puts into the file in identifier position *)
Definition fn_names (f : sfunction) : list string :=
  sf_name f :: flat_map (fun a => match a with SField n _ => [n] | _ => [] end) (sf_args f).
Definition item_names (it : item) : list string :=
  match it_cat it, item_resolved it with
  | Defined, Some rs =>
    match path_last (it_path it) with Some n => [n] | None => [] end ++
    match rs_inner rs with
    | IType td =>
      flat_map (fun r => match r_name r with Some n => [n] | None => [] end) (td_regions td) ++
      flat_map fn_names (filter (fun f => negb (sf_is_internal f)) (td_assoc td)) ++
      match td_vftable td with
      | Some vt => flat_map fn_names (filter (fun f => negb (sf_is_internal f)) (vt_functions vt))
      | None => []
      end
    | IEnum ed => map fst (ed_fields ed)
    end
  | _, _ => []
  end.

Definition module_file (st : sstate) (m : smodule) : outcome sexp :=
  let R := st_reg st in
  let fuel := S (List.length (reg_types R)) in
  do items <- mapM (build_item R fuel) (module_definitions R m);
  do evs <- mapM build_extern_value (sort ev_leb (m_extern_values m));
  if negb (forallb not_keyword (flat_map item_names (module_definitions R m)))
  then Err "Could not parse generated Rust code to pretty-print" else
  Ok (SList (Atom "file" :: attrs_sexp (file_header (m_doc m)) ::
             [SList [Atom "opaque"; Str (prologue_text m)]] ++ List.concat items ++ evs ++
             [SList [Atom "opaque"; Str (epilogue_text m)]])).

(** output path of a module: the segments as directories, the last one with ".rs" appended *)
Definition out_path (key : path) : string :=
  match path_last key with
  | None => ""
  | Some l => concat_sep "/" (removelast key ++ [l +++ ".rs"])
  end.

Definition write_all (st : sstate) : outcome (list (string * sexp)) :=
  do files <- mapM (fun km => match fst km with
                              | [] => Ok None
                              | _ => do f <- module_file st (snd km); Ok (Some (out_path (fst km), f))
                              end) (st_modules st);
  Ok (sort (fun a b => match String.compare (fst a) (fst b) with Gt => false | _ => true end)
           (somes files)).
