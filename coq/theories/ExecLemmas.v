(** * Lemmas connecting the emitted function records with RustExec (C04, C05, C07, C15) *)
From Coq Require Import List NArith ZArith Bool Lia String.
From PyxisModel Require Import Base Grammar SemTypes Registry Sem SemLemmas RustLayout LayoutLemmas
     PlacementLemmas RustExec.
Import ListNotations.
Local Open Scope N_scope.

Section Exec.
  Variable R : registry.
  Variable mem : N -> N.
  Variable callee : N -> cc -> list N -> N.

  (** ** argument passing: receiver pointer first, then the declared arguments in order *)
  Lemma bind_args_fields self : forall (fs : list (string * stype)) vals,
    List.length vals = List.length fs ->
    bind_args (map (fun a => SField (fst a) (snd a)) fs) self vals = vals.
  Proof.
    induction fs as [|f fs IH]; intros [|v vals] H; cbn in *; try discriminate; [reflexivity|].
    f_equal. apply IH. lia.
  Qed.
  Lemma bind_args_self_first a (fs : list (string * stype)) self vals :
    sarg_is_self a = true -> List.length vals = List.length fs ->
    bind_args (a :: map (fun a => SField (fst a) (snd a)) fs) self vals = self :: vals.
  Proof.
    intros Ha H. destruct a; try discriminate; cbn [bind_args]; f_equal; apply bind_args_fields; exact H.
  Qed.

  (** ** C05: an address-bound method makes exactly one call, to its address *)
  Theorem exec_address_call fu p td name f a self vals :
    typedef_of R p = Some td -> find_method td name = Some f -> sf_body f = BAddress a ->
    call_method R mem callee (S fu) p name self vals =
    Some ([ECall a (sf_cc f) (bind_args (sf_args f) self vals)],
          callee a (sf_cc f) (bind_args (sf_args f) self vals)).
  Proof. intros Ht Hf Hb. cbn [call_method]. rewrite Ht, Hf, Hb. reflexivity. Qed.

  (** ** C04: a virtual-call wrapper loads the table pointer and calls the entry of its slot *)
  Theorem exec_vftable_call fu p td vt name f slot vp k self vals :
    typedef_of R p = Some td -> find_method td name = Some f -> sf_body f = BVftable slot ->
    td_vftable td = Some vt -> vftable_ptr R mem (S fu) p self = Some vp ->
    slot_index (vt_functions vt) slot 0 = Some k ->
    call_method R mem callee (S fu) p name self vals =
    let target := mem (vp + k * reg_ptr R) in
    Some ([ECall target (sf_cc f) (bind_args (sf_args f) self vals)],
          callee target (sf_cc f) (bind_args (sf_args f) self vals)).
  Proof.
    intros Ht Hf Hb Hvt Hvp Hk. cbn [call_method]. rewrite Ht, Hf, Hb, Hvp, Hvt, Hk. reflexivity.
  Qed.

  (** the slot found by name is the position of the function in the table *)
  Lemma slot_index_nth : forall fs k f start,
    nth_error fs k = Some f ->
    (forall j g, (j < k)%nat -> nth_error fs j = Some g -> sf_name g <> sf_name f) ->
    slot_index fs (sf_name f) start = Some (start + N.of_nat k).
  Proof.
    induction fs as [|g fs IH]; intros k f start Hn Hu; [destruct k; discriminate|].
    destruct k as [|k]; cbn [nth_error slot_index] in *.
    - inversion Hn; subst. rewrite String.eqb_refl. f_equal. lia.
    - destruct (String.eqb_spec (sf_name g) (sf_name f)) as [E|_].
      + exfalso. apply (Hu O g); [lia | reflexivity | exact E].
      + rewrite (IH k f (start + 1) Hn).
        * f_equal. lia.
        * intros j h Hj Hh. apply (Hu (S j) h); [lia | exact Hh].
  Qed.

  (** an own vftable pointer is the first field: the accessor loads the word at the object's address *)
  Lemma field_offset_head r rest name :
    r_name r = Some name -> size_of R (r_type r) <> None ->
    field_offset R (r :: rest) name 0 = Some (0, r_type r).
  Proof.
    intros Hn Hs. cbn [field_offset]. destruct (size_of R (r_type r)); [|congruence].
    rewrite Hn, String.eqb_refl. reflexivity.
  Qed.

  Theorem exec_vftable_ptr_own fu p td vt ty rest self :
    typedef_of R p = Some td -> td_vftable td = Some vt -> vt_base_field vt = None ->
    td_regions td = vftable_region_of (TConstPtr ty) :: rest ->
    vftable_ptr R mem (S fu) p self = Some (mem self).
  Proof.
    intros Ht Hvt Hb Hr. cbn [vftable_ptr]. rewrite Ht, Hvt, Hb, Hr.
    rewrite field_offset_head; [|reflexivity | cbn; discriminate]. f_equal. f_equal. lia.
  Qed.

  (** an inherited table pointer is the one stored in the base sub-object *)
  Theorem exec_vftable_ptr_base fu p td vt b off bp self :
    typedef_of R p = Some td -> td_vftable td = Some vt -> vt_base_field vt = Some b ->
    field_offset R (td_regions td) b 0 = Some (off, TRaw bp) ->
    vftable_ptr R mem (S fu) p self = vftable_ptr R mem fu bp (self + off).
  Proof. intros Ht Hvt Hb Ho. cbn [vftable_ptr]. rewrite Ht, Hvt, Hb, Ho. reflexivity. Qed.

  (** ** C07: a forwarded method has exactly the effect of the original on the base sub-object *)
  Theorem exec_field_forward fu p td name f b g off bp self vals :
    typedef_of R p = Some td -> find_method td name = Some f -> sf_body f = BField b g ->
    field_offset R (td_regions td) b 0 = Some (off, TRaw bp) ->
    call_method R mem callee (S fu) p name self vals =
    call_method R mem callee fu bp g (self + off) vals.
  Proof. intros Ht Hf Hb Ho. cbn [call_method]. rewrite Ht, Hf, Hb, Ho. reflexivity. Qed.

  (** field offsets of RustExec are the prefix sums of RustLayout (hence, by C01, the declared
      addresses) *)
  Lemma field_offset_in_offsets : forall rs name cur off ty,
    field_offset R rs name cur = Some (off, ty) ->
    exists r, In (off, r) (offsets_of R cur rs) /\ r_name r = Some name /\ r_type r = ty.
  Proof.
    induction rs as [|r rs IH]; intros name cur off ty H; cbn [field_offset] in H; [discriminate|].
    destruct (size_of R (r_type r)) as [s|] eqn:Es; [|discriminate].
    unfold offsets_of. cbn [map prefix_sums combine].
    assert (region_sa R r = (s, snd (region_sa R r))) as E by (unfold region_sa; rewrite Es; reflexivity).
    rewrite E. cbn [combine].
    destruct (r_name r) as [n|] eqn:En.
    - destruct (String.eqb_spec n name) as [->|Hne].
      + inversion H; subst. exists r. split; [left; reflexivity | auto].
      + destruct (IH _ _ _ _ H) as (r' & Hin & Hr'). exists r'. split; [right; exact Hin | exact Hr'].
    - destruct (IH _ _ _ _ H) as (r' & Hin & Hr'). exists r'. split; [right; exact Hin | exact Hr'].
  Qed.
End Exec.

(** ** the generated vftable struct: slot k is the k-th field, at byte offset k * pointer size *)
Lemma vftable_field_offset R owner : forall fs name k start,
  slot_index fs name start = Some k ->
  field_offset R (map (function_to_region owner) fs) name (start * reg_ptr R) =
  Some (k * reg_ptr R, r_type (function_to_region owner
         (match find (fun f => String.eqb (sf_name f) name) fs with Some f => f | None => padding_fn 0 end))).
Proof.
  induction fs as [|f fs IH]; intros name k start H; cbn [slot_index] in H; [discriminate|].
  cbn [map field_offset find]. cbn [function_to_region r_type r_name size_of].
  destruct (String.eqb (sf_name f) name) eqn:E.
  - inversion H; subst. reflexivity.
  - replace (start * reg_ptr R + reg_ptr R) with ((start + 1) * reg_ptr R) by lia.
    rewrite (IH _ _ _ H). reflexivity.
Qed.
