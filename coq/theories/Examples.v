(** * Examples: a concrete, realistic input (the AST the real parser produced for the .pyxis text in
    the comment) on which the hypotheses of the property theorems are met -- non-vacuity. *)
From PyxisModel Require Import Base Sexp Grammar SemTypes Registry Sem Emit Driver.
Local Open Scope string_scope.

(*
#[size(8), align(4)]
extern type Ext;
#[copyable]
pub enum E: i16 { A = -2, B, C = 0x10 }
type Base {
  vftable {
    pub fn f(&self, x: u32) -> u32;
    #[index(3)]
    pub fn g(&mut self, p: *const Ext);
  },
  pub x: u32,
}
impl Base {
  #[address(0x78)]
  pub fn meth(&mut self, t: u32) -> E;
}
#[size(32)]
pub type T {
  pub a: u32,
  #[address(8)]
  b: [u16; 2],
  _: unknown<2>,
  c: E,
  #[base, address(16)]
  pub base: Base,
  z: [u64; 0],
  #[address(24)]
  e: Ext,
}
#[packed]
type P { a: u8, b: u32, c: *const T }

*)
Definition ex_module_text : string := "(module (attrs) (uses) (extern_types (etype ""Ext"" (attrs (fn ""size"" (int 8)) (fn ""align"" (int 4))))) (extern_values) (defs (def pub ""E"" (enum (tid ""i16"") (attrs (ident ""copyable"")) (case (attrs) ""A"" (some (int -2))) (case (attrs) ""B"" none) (case (attrs) ""C"" (some (int 16))))) (def priv ""Base"" (type (attrs) (vftable (attrs) (func (attrs) pub ""f"" (args cself (named ""x"" (tid ""u32""))) (some (tid ""u32""))) (func (attrs (fn ""index"" (int 3))) pub ""g"" (args mself (named ""p"" (cptr (tid ""Ext"")))) none)) (field (attrs) pub ""x"" (tid ""u32"")))) (def pub ""T"" (type (attrs (fn ""size"" (int 32))) (field (attrs) pub ""a"" (tid ""u32"")) (field (attrs (fn ""address"" (int 8))) priv ""b"" (array (tid ""u16"") 2)) (field (attrs) priv ""_"" (unknown 2)) (field (attrs) priv ""c"" (tid ""E"")) (field (attrs (ident ""base"") (fn ""address"" (int 16))) pub ""base"" (tid ""Base"")) (field (attrs) priv ""z"" (array (tid ""u64"") 0)) (field (attrs (fn ""address"" (int 24))) priv ""e"" (tid ""Ext"")))) (def priv ""P"" (type (attrs (ident ""packed"")) (field (attrs) priv ""a"" (tid ""u8"")) (field (attrs) priv ""b"" (tid ""u32"")) (field (attrs) priv ""c"" (cptr (tid ""T"")))))) (impls (impl ""Base"" (attrs) (func (attrs (fn ""address"" (int 120))) pub ""meth"" (args mself (named ""t"" (tid ""u32""))) (some (tid ""E""))))) (backends))".

Definition module_of_text (s : string) : gmodule :=
  match parse_sexps s with
  | Some [e] => match gmodule_of_sexp e with Some m => m | None => empty_module end
  | _ => empty_module
  end.
Definition ex_module : gmodule := module_of_text ex_module_text.
Definition ex_mods : list (path * gmodule) := [(["m"], ex_module)].

Definition ex_state (ptr : N) : option sstate :=
  match pyxis_resolve (hook_schedule []) ptr ex_mods with BOk st => Some st | _ => None end.

Definition resolved_of (st : sstate) (p : path) : option resolved :=
  match reg_get (st_reg st) p with Some it => item_resolved it | None => None end.
