(** * EmitInheritExamples: non-vacuity of EmitInherit.v (C06 on the emitted text).

    One input, two modules (two files):
<<
// module a
pub type Base { vftable { /// first slot
                          pub fn f(&self, x: u32) -> u32; pub fn g(&mut self); }, pub x: u32 }
// module b;  use a::Base;
pub type Derived  { vftable { <f>; <g>; pub fn h(&self) -> u32; }, #[base] pub base: Base, pub y: u32 }
pub type Derived2 { #[base] pub base: Base, pub z: u32 }
pub type Derived3 { vftable { <f>; <g>; pub fn k(&mut self); }, #[base] pub d2: Derived2, pub w: u32 }
pub type Late     { pub pad: u32, #[base] pub base: Base }
pub type Own      { vftable { pub fn k(&mut self); }, pub z: u32 }
>>
    - [Derived]: own block extending [Base]'s (Part 1 with a block, Part 3 across two files);
    - [Derived2]: no block: the accessor casts to the BASE's table type;
    - [Derived3]: own block, first base [Derived2] whose table is inherited: origin [a::Base]
      ([emitted_vftable_prefix_whole_build_origin]);
    - [Late]: the base field is not the first field ([k = 1]);
    - [Own], [Base]: own pointer (Part 2).
    Every check is a closed boolean / closed term computed by [vm_compute]. *)
From Coq Require Import List String NArith ZArith Bool Permutation.
From PyxisModel Require Import Base Sexp Grammar SemTypes Registry Sem Emit Driver Examples RustLayout
     PlacementLemmas WholeBuild WholeBuildMore OrderIndep EmitReaders EmitShape EmitFinal EmitLayout
     EmitShapeExamples EmitFnReaders EmitFnShape EmitFnFinal EmitFnExamples EmitVftLayout EmitInherit.
Import ListNotations.
Local Open Scope string_scope.
Local Open Scope list_scope.

Definition ih_a_text : string := "(module (attrs) (uses) (extern_types) (extern_values) (defs (def pub ""Base"" (type (attrs) (vftable (attrs) (func (attrs (assign ""doc"" (str "" first slot""))) pub ""f"" (args cself (named ""x"" (tid ""u32""))) (some (tid ""u32""))) (func (attrs) pub ""g"" (args mself) none)) (field (attrs) pub ""x"" (tid ""u32""))))) (impls) (backends))".
Definition ih_b_text : string := "(module (attrs) (uses (path ""a"" ""Base"")) (extern_types) (extern_values) (defs (def pub ""Derived"" (type (attrs) (vftable (attrs) (func (attrs (assign ""doc"" (str "" first slot""))) pub ""f"" (args cself (named ""x"" (tid ""u32""))) (some (tid ""u32""))) (func (attrs) pub ""g"" (args mself) none) (func (attrs) pub ""h"" (args cself) (some (tid ""u32"")))) (field (attrs (ident ""base"")) pub ""base"" (tid ""Base"")) (field (attrs) pub ""y"" (tid ""u32"")))) (def pub ""Derived2"" (type (attrs) (field (attrs (ident ""base"")) pub ""base"" (tid ""Base"")) (field (attrs) pub ""z"" (tid ""u32"")))) (def pub ""Derived3"" (type (attrs) (vftable (attrs) (func (attrs (assign ""doc"" (str "" first slot""))) pub ""f"" (args cself (named ""x"" (tid ""u32""))) (some (tid ""u32""))) (func (attrs) pub ""g"" (args mself) none) (func (attrs) pub ""k"" (args mself) none)) (field (attrs (ident ""base"")) pub ""d2"" (tid ""Derived2"")) (field (attrs) pub ""w"" (tid ""u32"")))) (def pub ""Late"" (type (attrs) (field (attrs) pub ""pad"" (tid ""u32"")) (field (attrs (ident ""base"")) pub ""base"" (tid ""Base"")))) (def pub ""Own"" (type (attrs) (vftable (attrs) (func (attrs) pub ""k"" (args mself) none)) (field (attrs) pub ""z"" (tid ""u32""))))) (impls) (backends))".
Definition ih_mods : list (path * gmodule) :=
  [(["a"], module_of_text ih_a_text); (["b"], module_of_text ih_b_text)].
Definition ih_state (ptr : N) : option sstate :=
  match pyxis_resolve (hook_schedule []) ptr ih_mods with BOk st => Some st | _ => None end.
Definition ih_files (ptr : N) : option (list (string * sexp)) :=
  bindo (ih_state ptr) (fun st => match write_all st with Ok files => Some files | _ => None end).
Definition ih_items (ptr : N) (fname : string) : option (list sexp) :=
  bindo (ih_files ptr) (fun files =>
    bindo (option_map snd (find (fun kf => String.eqb (fst kf) fname) files)) file_items).
Definition ih_struct (ptr : N) (fname name : string) : option sexp :=
  bindo (ih_items ptr fname) (find_struct name).
Definition ih_fields (ptr : N) (fname name : string) : option (list efield) :=
  bindo (ih_struct ptr fname name) struct_fields.
Definition ih_impl (ptr : N) (fname name : string) : option (list sexp) :=
  bindo (ih_items ptr fname) (fun items => match impls_of name items with [fns] => Some fns | _ => None end).
Definition ih_accessor_fn (ptr : N) (fname name : string) : option sexp :=
  bindo (ih_impl ptr fname name) (find_fn "vftable").
Definition ih_sas (ptr : N) (p : path) : option (list sa) :=
  bindo (ih_state ptr) (fun st =>
    bindo (resolved_of st p) (fun r =>
      match rs_inner r with
      | IType td => Some (emitted_field_sas (st_reg st) td)
      | IEnum _ => None
      end)).
Definition ih_layout (ptr : N) (fname name : string) (p : path) : option (list (string * N) * N * N) :=
  bindo (ih_sas ptr p) (fun sas => bindo (ih_struct ptr fname name) (emitted_struct_layout sas)).

Definition crate_p (m n : string) : list sexp := tks ["crate"; ":"; ":"; m; ":"; ":"; n].
Definition const_ptr (m n : string) : list sexp := tks ["*"; "const"] ++ crate_p m n.
Definition mut_ptr (m n : string) : list sexp := tks ["*"; "mut"] ++ crate_p m n.

(** ** the build: two files; the structs in each *)
Example ih_files_written :
  option_map (map fst) (ih_files 4) = Some ["a.rs"; "b.rs"] /\
  option_map (all_somes struct_name) (ih_items 4 "a.rs") = Some ["Base"; "BaseVftable"] /\
  option_map (all_somes struct_name) (ih_items 4 "b.rs")
  = Some ["Derived"; "Derived2"; "Derived3"; "Derived3Vftable"; "DerivedVftable"; "Late"; "Own"; "OwnVftable"].
Proof. vm_compute. repeat split; reflexivity. Qed.

(** ** Part 1 on the text: shared pointer *)
(** [Derived]: no [vftable] field; the first field is the base field, of type [crate::a::Base] *)
Example ih_Derived_fields :
  option_map (map (fun e => (ef_name e, ef_vis e, ef_docs e, ef_ty e))) (ih_fields 4 "b.rs" "Derived")
  = Some [("base", Public, [], crate_p "a" "Base"); ("y", Public, [], [Atom "u32"])] /\
  option_map (map (fun e => (ef_name e, ef_ty e))) (ih_fields 4 "b.rs" "Derived2")
  = Some [("base", crate_p "a" "Base"); ("z", [Atom "u32"])] /\
  option_map (map (fun e => (ef_name e, ef_ty e))) (ih_fields 4 "b.rs" "Derived3")
  = Some [("d2", crate_p "b" "Derived2"); ("w", [Atom "u32"])] /\
  option_map (map (fun e => (ef_name e, ef_ty e))) (ih_fields 4 "b.rs" "Late")
  = Some [("pad", [Atom "u32"]); ("base", crate_p "a" "Base")].
Proof. vm_compute. repeat split; reflexivity. Qed.

(** the accessors: [pub fn vftable(&self) -> <ty> { self.<base>.vftable() as <ty> }]; [<ty>] is the
    type's own table when it declares a block ([Derived], [Derived3]), the base's otherwise
    ([Derived2], [Late]) *)
Example ih_shared_accessors :
  bindo (ih_accessor_fn 4 "b.rs" "Derived") fn_accessor = Some (Some "base", const_ptr "b" "DerivedVftable") /\
  bindo (ih_accessor_fn 4 "b.rs" "Derived") fn_ret = Some (const_ptr "b" "DerivedVftable") /\
  bindo (ih_accessor_fn 4 "b.rs" "Derived") fn_vis = Some Public /\
  bindo (ih_accessor_fn 4 "b.rs" "Derived") fn_unsafe = Some false /\
  bindo (ih_accessor_fn 4 "b.rs" "Derived") fn_params = Some [EPSelf] /\
  bindo (ih_accessor_fn 4 "b.rs" "Derived2") fn_accessor = Some (Some "base", const_ptr "a" "BaseVftable") /\
  bindo (ih_accessor_fn 4 "b.rs" "Derived3") fn_accessor = Some (Some "d2", const_ptr "b" "Derived3Vftable") /\
  bindo (ih_accessor_fn 4 "b.rs" "Late") fn_accessor = Some (Some "base", const_ptr "a" "BaseVftable").
Proof. vm_compute. repeat split; reflexivity. Qed.

(** the accessor is the first function of the inherent impl *)
Example ih_impl_names :
  option_map (map fn_name) (ih_impl 4 "b.rs" "Derived")
  = Some [Some "vftable"; Some "f"; Some "g"; Some "h"] /\
  option_map (map fn_name) (ih_impl 4 "b.rs" "Derived2")
  = Some [Some "vftable"; Some "f"; Some "g"].
Proof. vm_compute. split; reflexivity. Qed.

(** the Reference layout of the emitted structs: the base field at 0 ([Derived]) or after the
    fields before it ([Late]); no hidden pointer in front *)
Example ih_shared_layouts :
  ih_layout 4 "b.rs" "Derived" ["b"; "Derived"] = Some ([("base", 0); ("y", 8)], 12, 4)%N /\
  ih_layout 4 "b.rs" "Derived2" ["b"; "Derived2"] = Some ([("base", 0); ("z", 8)], 12, 4)%N /\
  ih_layout 4 "b.rs" "Late" ["b"; "Late"] = Some ([("pad", 0); ("base", 4)], 12, 4)%N.
Proof. vm_compute. repeat split; reflexivity. Qed.

(** ** Part 2 on the text: own pointer *)
Example ih_own_fields :
  option_map (map (fun e => (ef_name e, ef_vis e, ef_docs e, ef_ty e))) (ih_fields 4 "b.rs" "Own")
  = Some [("vftable", Private, [], const_ptr "b" "OwnVftable"); ("z", Public, [], [Atom "u32"])] /\
  option_map (map (fun e => (ef_name e, ef_vis e, ef_docs e, ef_ty e))) (ih_fields 4 "a.rs" "Base")
  = Some [("vftable", Private, [], const_ptr "a" "BaseVftable"); ("x", Public, [], [Atom "u32"])].
Proof. vm_compute. split; reflexivity. Qed.

Example ih_own_accessors :
  bindo (ih_accessor_fn 4 "b.rs" "Own") fn_accessor = Some (None, const_ptr "b" "OwnVftable") /\
  bindo (ih_accessor_fn 4 "b.rs" "Own") fn_ret = Some (const_ptr "b" "OwnVftable") /\
  bindo (ih_accessor_fn 4 "a.rs" "Base") fn_accessor = Some (None, const_ptr "a" "BaseVftable").
Proof. vm_compute. repeat split; reflexivity. Qed.

(** the pointer at offset 0, the next field one pointer later (the input is written for a 32-bit
    target: at width 8 [Base] would have size 12 and alignment 8 and is rejected) *)
Example ih_own_layouts :
  ih_layout 4 "b.rs" "Own" ["b"; "Own"] = Some ([("vftable", 0); ("z", 4)], 8, 4)%N /\
  ih_layout 4 "a.rs" "Base" ["a"; "Base"] = Some ([("vftable", 0); ("x", 4)], 8, 4)%N.
Proof. vm_compute. repeat split; reflexivity. Qed.

(** ** Part 3 on the text: [BaseVftable] (file a.rs) is a prefix of [DerivedVftable] (file b.rs) *)
Definition ih_slot (e : efield) := (ef_name e, ef_vis e, ef_docs e, read_fnptr (ef_ty e)).
Example ih_BaseVftable :
  option_map (map ih_slot) (ih_fields 4 "a.rs" "BaseVftable")
  = Some [("f", Public, [" first slot"],
           Some {| fp_abi := "thiscall";
                   fp_args := [("this", const_ptr "a" "Base"); ("x", [Atom "u32"])];
                   fp_ret := Some [Atom "u32"] |});
          ("g", Public, [],
           Some {| fp_abi := "thiscall"; fp_args := [("this", mut_ptr "a" "Base")]; fp_ret := None |})].
Proof. vm_compute. reflexivity. Qed.

Example ih_DerivedVftable :
  option_map (map ih_slot) (ih_fields 4 "b.rs" "DerivedVftable")
  = Some [("f", Public, [" first slot"],
           Some {| fp_abi := "thiscall";
                   fp_args := [("this", const_ptr "b" "Derived"); ("x", [Atom "u32"])];
                   fp_ret := Some [Atom "u32"] |});
          ("g", Public, [],
           Some {| fp_abi := "thiscall"; fp_args := [("this", mut_ptr "b" "Derived")]; fp_ret := None |});
          ("h", Public, [],
           Some {| fp_abi := "thiscall"; fp_args := [("this", const_ptr "b" "Derived")];
                   fp_ret := Some [Atom "u32"] |})].
Proof. vm_compute. reflexivity. Qed.

(** the layouts: slot k at k * ptr in both; the base's is the prefix of the derived's *)
Example ih_table_layouts :
  ih_layout 4 "a.rs" "BaseVftable" ["a"; "BaseVftable"] = Some ([("f", 0); ("g", 4)], 8, 4)%N /\
  ih_layout 4 "b.rs" "DerivedVftable" ["b"; "DerivedVftable"] = Some ([("f", 0); ("g", 4); ("h", 8)], 12, 4)%N /\
  ih_layout 4 "b.rs" "Derived3Vftable" ["b"; "Derived3Vftable"] = Some ([("f", 0); ("g", 4); ("k", 8)], 12, 4)%N.
Proof. vm_compute. repeat split; reflexivity. Qed.

(** a derived block that does not repeat the base's slot is rejected: [f] with another parameter
    type, and [g] before [f] *)
Definition ih_b_bad_param : string := "(module (attrs) (uses (path ""a"" ""Base"")) (extern_types) (extern_values) (defs (def pub ""Derived"" (type (attrs) (vftable (attrs) (func (attrs (assign ""doc"" (str "" first slot""))) pub ""f"" (args cself (named ""x"" (tid ""u16""))) (some (tid ""u32""))) (func (attrs) pub ""g"" (args mself) none) (func (attrs) pub ""h"" (args cself) (some (tid ""u32"")))) (field (attrs (ident ""base"")) pub ""base"" (tid ""Base"")) (field (attrs) pub ""y"" (tid ""u32"")))) (def pub ""Derived2"" (type (attrs) (field (attrs (ident ""base"")) pub ""base"" (tid ""Base"")) (field (attrs) pub ""z"" (tid ""u32"")))) (def pub ""Derived3"" (type (attrs) (vftable (attrs) (func (attrs (assign ""doc"" (str "" first slot""))) pub ""f"" (args cself (named ""x"" (tid ""u32""))) (some (tid ""u32""))) (func (attrs) pub ""g"" (args mself) none) (func (attrs) pub ""k"" (args mself) none)) (field (attrs (ident ""base"")) pub ""d2"" (tid ""Derived2"")) (field (attrs) pub ""w"" (tid ""u32"")))) (def pub ""Late"" (type (attrs) (field (attrs) pub ""pad"" (tid ""u32"")) (field (attrs (ident ""base"")) pub ""base"" (tid ""Base"")))) (def pub ""Own"" (type (attrs) (vftable (attrs) (func (attrs) pub ""k"" (args mself) none)) (field (attrs) pub ""z"" (tid ""u32""))))) (impls) (backends))".
Definition ih_b_bad_order : string := "(module (attrs) (uses (path ""a"" ""Base"")) (extern_types) (extern_values) (defs (def pub ""Derived"" (type (attrs) (vftable (attrs) (func (attrs) pub ""g"" (args mself) none) (func (attrs (assign ""doc"" (str "" first slot""))) pub ""f"" (args cself (named ""x"" (tid ""u32""))) (some (tid ""u32""))) (func (attrs) pub ""h"" (args cself) (some (tid ""u32"")))) (field (attrs (ident ""base"")) pub ""base"" (tid ""Base"")) (field (attrs) pub ""y"" (tid ""u32"")))) (def pub ""Derived2"" (type (attrs) (field (attrs (ident ""base"")) pub ""base"" (tid ""Base"")) (field (attrs) pub ""z"" (tid ""u32"")))) (def pub ""Derived3"" (type (attrs) (vftable (attrs) (func (attrs (assign ""doc"" (str "" first slot""))) pub ""f"" (args cself (named ""x"" (tid ""u32""))) (some (tid ""u32""))) (func (attrs) pub ""g"" (args mself) none) (func (attrs) pub ""k"" (args mself) none)) (field (attrs (ident ""base"")) pub ""d2"" (tid ""Derived2"")) (field (attrs) pub ""w"" (tid ""u32"")))) (def pub ""Late"" (type (attrs) (field (attrs) pub ""pad"" (tid ""u32"")) (field (attrs (ident ""base"")) pub ""base"" (tid ""Base"")))) (def pub ""Own"" (type (attrs) (vftable (attrs) (func (attrs) pub ""k"" (args mself) none)) (field (attrs) pub ""z"" (tid ""u32""))))) (impls) (backends))".
Definition ih_b_bad_missing : string := "(module (attrs) (uses (path ""a"" ""Base"")) (extern_types) (extern_values) (defs (def pub ""Derived"" (type (attrs) (vftable (attrs) (func (attrs (assign ""doc"" (str "" first slot""))) pub ""f"" (args cself (named ""x"" (tid ""u32""))) (some (tid ""u32"")))) (field (attrs (ident ""base"")) pub ""base"" (tid ""Base"")) (field (attrs) pub ""y"" (tid ""u32"")))) (def pub ""Derived2"" (type (attrs) (field (attrs (ident ""base"")) pub ""base"" (tid ""Base"")) (field (attrs) pub ""z"" (tid ""u32"")))) (def pub ""Derived3"" (type (attrs) (vftable (attrs) (func (attrs (assign ""doc"" (str "" first slot""))) pub ""f"" (args cself (named ""x"" (tid ""u32""))) (some (tid ""u32""))) (func (attrs) pub ""g"" (args mself) none) (func (attrs) pub ""k"" (args mself) none)) (field (attrs (ident ""base"")) pub ""d2"" (tid ""Derived2"")) (field (attrs) pub ""w"" (tid ""u32"")))) (def pub ""Late"" (type (attrs) (field (attrs) pub ""pad"" (tid ""u32"")) (field (attrs (ident ""base"")) pub ""base"" (tid ""Base"")))) (def pub ""Own"" (type (attrs) (vftable (attrs) (func (attrs) pub ""k"" (args mself) none)) (field (attrs) pub ""z"" (tid ""u32""))))) (impls) (backends))".
Definition ih_b_bad_doc : string := "(module (attrs) (uses (path ""a"" ""Base"")) (extern_types) (extern_values) (defs (def pub ""Derived"" (type (attrs) (vftable (attrs) (func (attrs) pub ""f"" (args cself (named ""x"" (tid ""u32""))) (some (tid ""u32""))) (func (attrs) pub ""g"" (args mself) none) (func (attrs) pub ""h"" (args cself) (some (tid ""u32"")))) (field (attrs (ident ""base"")) pub ""base"" (tid ""Base"")) (field (attrs) pub ""y"" (tid ""u32"")))) (def pub ""Derived2"" (type (attrs) (field (attrs (ident ""base"")) pub ""base"" (tid ""Base"")) (field (attrs) pub ""z"" (tid ""u32"")))) (def pub ""Derived3"" (type (attrs) (vftable (attrs) (func (attrs (assign ""doc"" (str "" first slot""))) pub ""f"" (args cself (named ""x"" (tid ""u32""))) (some (tid ""u32""))) (func (attrs) pub ""g"" (args mself) none) (func (attrs) pub ""k"" (args mself) none)) (field (attrs (ident ""base"")) pub ""d2"" (tid ""Derived2"")) (field (attrs) pub ""w"" (tid ""u32"")))) (def pub ""Late"" (type (attrs) (field (attrs) pub ""pad"" (tid ""u32"")) (field (attrs (ident ""base"")) pub ""base"" (tid ""Base"")))) (def pub ""Own"" (type (attrs) (vftable (attrs) (func (attrs) pub ""k"" (args mself) none)) (field (attrs) pub ""z"" (tid ""u32""))))) (impls) (backends))".
Definition ih_result (b : string) : build_result :=
  pyxis_resolve (hook_schedule []) 4 [(["a"], module_of_text ih_a_text); (["b"], module_of_text b)].

Example ih_mutations_rejected :
  ih_result ih_b_bad_param = BErr "vftable function differs from the base class's" /\
  ih_result ih_b_bad_order = BErr "vftable function differs from the base class's" /\
  ih_result ih_b_bad_doc = BErr "vftable function differs from the base class's" /\
  ih_result ih_b_bad_missing = BErr "vftable is missing functions from base class" /\
  (match ih_result ih_b_text with BOk _ => true | _ => false end) = true.
Proof. vm_compute. repeat split; reflexivity. Qed.

(** ** the hypotheses of the theorems of EmitInherit.v are met on this input: closed boolean
    checks, and their soundness *)
Definition is_root_parent (p : path) : bool := match path_parent p with Some [] => true | _ => false end.

(** the common hypotheses about the declared type [p]; [k] checks the rest *)
Definition with_type (ptr : N) (mods : list (path * gmodule)) (p : path)
           (k : sstate -> sstate -> gtypedef -> type_def -> bool) : bool :=
  match input_state ptr mods, pyxis_resolve (hook_schedule []) ptr mods with
  | Ok st0, BOk st =>
    collision_freeb (st_reg st0) && is_ok (write_all st) && negb (is_root_parent p) &&
    match reg_get (st_reg st0) p, reg_get (st_reg st) p with
    | Some it0, Some it =>
      match it_state it0, it_state it with
      | Unresolved gd, Resolved r =>
        match gi_inner gd, rs_inner r with
        | GIType td0, IType td => k st0 st td0 td
        | _, _ => false
        end
      | _, _ => false
      end
    | _, _ => false
    end
  | _, _ => false
  end.

Lemma with_type_sound ptr mods p k : with_type ptr mods p k = true ->
  exists st0 st files it0 gd td0 it r td,
    input_state ptr mods = Ok st0 /\ collision_free (st_reg st0) /\
    pyxis_resolve (hook_schedule []) ptr mods = BOk st /\ write_all st = Ok files /\
    reg_get (st_reg st0) p = Some it0 /\ it_state it0 = Unresolved gd /\ gi_inner gd = GIType td0 /\
    path_parent p <> Some [] /\
    reg_get (st_reg st) p = Some it /\ it_state it = Resolved r /\ rs_inner r = IType td /\
    k st0 st td0 td = true.
Proof.
  unfold with_type. intros H.
  destruct (input_state ptr mods) as [st0| | |] eqn:Ein; try discriminate.
  destruct (pyxis_resolve (hook_schedule []) ptr mods) as [st| | | |] eqn:Eres; try discriminate.
  apply andb_prop in H as [H H4]. apply andb_prop in H as [H H3]. apply andb_prop in H as [H1 H2].
  destruct (write_all st) as [files| | |] eqn:Ew; try discriminate.
  destruct (reg_get (st_reg st0) p) as [it0|] eqn:Eg0; [|discriminate].
  destruct (reg_get (st_reg st) p) as [it|] eqn:Eg; [|discriminate].
  destruct (it_state it0) as [gd|] eqn:Es0; [|discriminate].
  destruct (it_state it) as [|r] eqn:Es; [discriminate|].
  destruct (gi_inner gd) as [td0|] eqn:Ety; [|discriminate].
  destruct (rs_inner r) as [td|] eqn:Ei; [|discriminate].
  exists st0, st, files, it0, gd, td0, it, r, td.
  split; [reflexivity|]. split; [now apply collision_freeb_sound|].
  repeat (split; [reflexivity || eassumption|]).
  split. { unfold is_root_parent in H3. intros E. rewrite E in H3. discriminate. }
  repeat (split; [reflexivity || eassumption|]). exact H4.
Qed.

(** the first [#[base]] field has type [bp], whose item has a vftable in the final registry *)
Definition base_vftable (st : sstate) (td : type_def) (bp : path) : bool :=
  match find r_is_base (td_regions td) with
  | Some fb =>
    match r_type fb with
    | TRaw bp' =>
      path_eqb bp' bp &&
      match reg_get (st_reg st) bp with
      | Some itb =>
        match item_resolved itb with
        | Some rsb => match rs_inner rsb with
                      | IType tdb => match td_vftable tdb with Some _ => true | None => false end
                      | IEnum _ => false
                      end
        | None => false
        end
      | None => false
      end
    | _ => false
    end
  | None => false
  end.

Lemma base_vftable_sound st td bp : base_vftable st td bp = true ->
  exists fb itb rsb tdb bvt,
    find r_is_base (td_regions td) = Some fb /\ r_type fb = TRaw bp /\
    reg_get (st_reg st) bp = Some itb /\ item_resolved itb = Some rsb /\ rs_inner rsb = IType tdb /\
    td_vftable tdb = Some bvt.
Proof.
  unfold base_vftable. intros H.
  destruct (find r_is_base (td_regions td)) as [fb|]; [|discriminate].
  destruct (r_type fb) as [bp'| | | |] eqn:Et; try discriminate.
  apply andb_prop in H as [H1 H2]. apply path_eqb_eq in H1. subst bp'.
  destruct (reg_get (st_reg st) bp) as [itb|]; [|discriminate].
  destruct (item_resolved itb) as [rsb|] eqn:Er; [|discriminate].
  destruct (rs_inner rsb) as [tdb|] eqn:Ei; [|discriminate].
  destruct (td_vftable tdb) as [bvt|] eqn:Ev; [|discriminate].
  exists fb, itb, rsb, tdb, bvt. repeat split; reflexivity || assumption.
Qed.

(** there is no first [#[base]] field, or its type has no vftable *)
Definition base_no_vftable (st : sstate) (td : type_def) : bool :=
  match find r_is_base (td_regions td) with
  | None => true
  | Some fb =>
    match r_type fb with
    | TRaw bp =>
      match reg_get (st_reg st) bp with
      | Some itb =>
        match item_resolved itb with
        | Some rsb => match rs_inner rsb with
                      | IType tdb => match td_vftable tdb with None => true | Some _ => false end
                      | IEnum _ => false
                      end
        | None => false
        end
      | None => false
      end
    | _ => false
    end
  end.

Lemma base_no_vftable_sound st td : base_no_vftable st td = true ->
  forall fb bp itb rsb tdb,
    find r_is_base (td_regions td) = Some fb -> r_type fb = TRaw bp ->
    reg_get (st_reg st) bp = Some itb -> item_resolved itb = Some rsb -> rs_inner rsb = IType tdb ->
    td_vftable tdb = None.
Proof.
  unfold base_no_vftable. intros H. apply no_vftable_base_from_equations.
  destruct (find r_is_base (td_regions td)) as [fb|]; [right | now left].
  destruct (r_type fb) as [bp| | | |] eqn:Et; try discriminate.
  destruct (reg_get (st_reg st) bp) as [itb|] eqn:Eg; [|discriminate].
  destruct (item_resolved itb) as [rsb|] eqn:Er; [|discriminate].
  destruct (rs_inner rsb) as [tdb|] eqn:Ei; [|discriminate].
  destruct (td_vftable tdb) as [bvt|] eqn:Ev; [discriminate|].
  exists fb, bp, itb, rsb, tdb. repeat split; reflexivity || assumption.
Qed.

(** no declared field is called [name] *)
Definition no_field_namedb (name : string) (stmts : list gstatement) : bool :=
  forallb (fun s => match gs_field s with GField _ n _ => negb (String.eqb n name) | GVftable _ => true end) stmts.
Lemma no_field_namedb_sound name stmts : no_field_namedb name stmts = true -> no_field_named name stmts.
Proof.
  unfold no_field_namedb, no_field_named. intros H s v t Hs Hf. rewrite forallb_forall in H.
  specialize (H _ Hs). rewrite Hf, String.eqb_refl in H. discriminate.
Qed.

(** no declared item lives in the root module *)
Definition no_root_declb (R : registry) : bool :=
  forallb (fun kv => item_is_resolved (snd kv) || negb (is_root_parent (fst kv))) (reg_types R).
Lemma no_root_declb_sound st0 : no_root_declb (st_reg st0) = true -> no_root_decl st0.
Proof.
  unfold no_root_declb, no_root_decl. intros H q it0 gd Hg Hs E. rewrite forallb_forall in H.
  unfold reg_get in Hg. destruct (alookup_in _ _ _ Hg) as (k' & Hin & ->).
  specialize (H _ Hin). cbn [fst snd] in H. unfold item_is_resolved, is_root_parent in H.
  rewrite Hs, E in H. discriminate.
Qed.

Lemma ih_nodup : NoDup (map fst ih_mods).
Proof. cbn [ih_mods map fst]. constructor; [intros [E|[]]; discriminate E|]. constructor; [intros []|constructor]. Qed.
Lemma ih_keeps_work : keeps_work (hook_schedule []).
Proof. apply perm_keeps_work. apply hook_schedule_perm. Qed.

(** the checks *)
Example ih_shared_hypotheses :
  with_type 4 ih_mods ["b"; "Derived"] (fun _ st td0 td =>
     base_vftable st td ["a"; "Base"] && declares_vftable td0 && no_field_namedb "vftable" (gt_stmts td0)) = true /\
  with_type 4 ih_mods ["b"; "Derived2"] (fun _ st td0 td =>
     base_vftable st td ["a"; "Base"] && negb (declares_vftable td0) && no_field_namedb "vftable" (gt_stmts td0)) = true /\
  with_type 4 ih_mods ["b"; "Derived3"] (fun st0 st td0 td =>
     base_vftable st td ["b"; "Derived2"] && declares_vftable td0 && no_root_declb (st_reg st0)) = true /\
  with_type 4 ih_mods ["b"; "Late"] (fun _ st td0 td =>
     base_vftable st td ["a"; "Base"] && negb (declares_vftable td0)) = true.
Proof. vm_compute. repeat split; reflexivity. Qed.

Example ih_own_hypotheses :
  with_type 4 ih_mods ["b"; "Own"] (fun _ st td0 td =>
     declares_vftable td0 && base_no_vftable st td && no_field_namedb "vftable" (gt_stmts td0)) = true /\
  with_type 4 ih_mods ["a"; "Base"] (fun _ st td0 td =>
     declares_vftable td0 && base_no_vftable st td && no_field_namedb "vftable" (gt_stmts td0)) = true.
Proof. vm_compute. repeat split; reflexivity. Qed.

Example ih_prefix_hypotheses :
  with_type 4 ih_mods ["a"; "Base"] (fun _ _ td0 _ => declares_vftable td0) = true.
Proof. vm_compute. reflexivity. Qed.

(** ** the theorems applied: there IS an accepted build with written files for which their
    conclusions hold *)

(** Part 1 *)
Lemma shared_applied ptr mods p bp k :
  NoDup (map fst mods) ->
  (forall st0 st td0 td, k st0 st td0 td = true ->
     base_vftable st td bp = true /\ no_field_namedb "vftable" (gt_stmts td0) = true) ->
  with_type ptr mods p k = true ->
  exists st files td0 td bvt parent name base_name vt vp f items s efs ef kpos im fns a,
    pyxis_resolve (hook_schedule []) ptr mods = BOk st /\ write_all st = Ok files /\
    path_parent p = Some parent /\ path_last p = Some name /\ vftable_path p = Some vp /\
    td_vftable td = Some vt /\ vt_base_field vt = Some base_name /\
    vt_type vt = (if declares_vftable td0 then TConstPtr (TRaw vp) else vt_type bvt) /\
    In (out_path parent, f) files /\ file_items f = Some items /\ find_struct name items = Some s /\
    struct_fields s = Some efs /\ Forall (fun e => ef_name e <> "vftable") efs /\
    nth_error efs kpos = Some ef /\ ef_name ef = base_name /\ ef_ty ef = type_tokens (TRaw bp) /\
    emitted_struct_layout (emitted_field_sas (st_reg st) td) s <> None /\
    In im items /\ inherent_impl im = Some (name, fns) /\ find_fn "vftable" fns = Some a /\
    fn_ret a = Some (type_tokens (vt_type vt)) /\
    fn_accessor a = Some (Some base_name, type_tokens (vt_type vt)).
Proof.
  intros HN Hk H.
  destruct (with_type_sound _ _ _ _ H)
    as (st0 & st & files & it0 & gd & td0 & it & r & td & Hin & Hcf & Hres & Hw & Hg0 & Hs0 & Hty & Hroot & Hg & Hs & Hi & Hkk).
  destruct (Hk _ _ _ _ Hkk) as (Hb & Hnf).
  destruct (base_vftable_sound _ _ _ Hb) as (fb & itb & rsb & tdb & bvt & Hfb & Hbt & Hgb & Hrb & Hib & Hbv).
  destruct (emitted_shared_pointer_whole_build _ _ _ _ _ _ _ _ _ _ _ _ _ _ _ _ _ _ _
              Hin HN Hcf ih_keeps_work Hres Hw Hg0 Hs0 Hty Hroot Hg Hs Hi Hfb Hbt Hgb Hrb Hib Hbv)
    as (parent & name & base_name & vt & vp & f & items & s & efs & kpos & ef & im & fns & a & others &
        R_mid & module & n & pending & vfs &
        A1 & A2 & A3 & A4 & A5 & A6 & A7 & A8 & A9 & A10 & A11 & A12 & A13 & A14 & A15 & A16 & A17 & A18 & A19 &
        A20 & A21 & A22 & A23 & A24 & A25 & A26 & A27 & A28 & A29 & A30 & A31 & A32 & A33 & A34).
  exists st, files, td0, td, bvt, parent, name, base_name, vt, vp, f, items, s, efs, ef, kpos, im, fns, a.
  repeat (split; [assumption|]).
  split; [apply A15; now apply no_field_namedb_sound|].
  repeat (split; [assumption|]).
  split; [rewrite A23; discriminate|].
  repeat (split; [assumption|]). assumption.
Qed.

Example ih_shared_theorem_applied_Derived2 :
  exists st files td0 td bvt parent name base_name vt vp f items s efs ef kpos im fns a,
    pyxis_resolve (hook_schedule []) 4 ih_mods = BOk st /\ write_all st = Ok files /\
    path_parent ["b"; "Derived2"] = Some parent /\ path_last ["b"; "Derived2"] = Some name /\
    vftable_path ["b"; "Derived2"] = Some vp /\
    td_vftable td = Some vt /\ vt_base_field vt = Some base_name /\
    vt_type vt = (if declares_vftable td0 then TConstPtr (TRaw vp) else vt_type bvt) /\
    In (out_path parent, f) files /\ file_items f = Some items /\ find_struct name items = Some s /\
    struct_fields s = Some efs /\ Forall (fun e => ef_name e <> "vftable") efs /\
    nth_error efs kpos = Some ef /\ ef_name ef = base_name /\ ef_ty ef = type_tokens (TRaw ["a"; "Base"]) /\
    emitted_struct_layout (emitted_field_sas (st_reg st) td) s <> None /\
    In im items /\ inherent_impl im = Some (name, fns) /\ find_fn "vftable" fns = Some a /\
    fn_ret a = Some (type_tokens (vt_type vt)) /\
    fn_accessor a = Some (Some base_name, type_tokens (vt_type vt)).
Proof.
  eapply (shared_applied 4 ih_mods ["b"; "Derived2"] ["a"; "Base"]);
    [exact ih_nodup | | exact (proj1 (proj2 ih_shared_hypotheses))].
  intros st0 st td0 td H. apply andb_prop in H as [H H2]. apply andb_prop in H as [H1 _]. auto.
Qed.

(** Part 2 *)
Lemma own_applied ptr mods p k :
  NoDup (map fst mods) ->
  (forall st0 st td0 td, k st0 st td0 td = true ->
     declares_vftable td0 = true /\ base_no_vftable st td = true /\
     no_field_namedb "vftable" (gt_stmts td0) = true) ->
  with_type ptr mods p k = true ->
  exists st files td parent name vp f items s efs ef0 efs' im fns a,
    pyxis_resolve (hook_schedule []) ptr mods = BOk st /\ write_all st = Ok files /\
    path_parent p = Some parent /\ path_last p = Some name /\ vftable_path p = Some vp /\
    In (out_path parent, f) files /\ file_items f = Some items /\ find_struct name items = Some s /\
    struct_fields s = Some efs /\ efs = ef0 :: efs' /\ ef_own_pointer (TConstPtr (TRaw vp)) ef0 /\
    Forall (fun e => ef_name e <> "vftable") efs' /\
    hd_error (emitted_offsets (st_reg st) td efs) = Some ("vftable", 0%N) /\
    hd_error (emitted_field_sas (st_reg st) td) = Some (ptr, ptr) /\
    In im items /\ inherent_impl im = Some (name, fns) /\ find_fn "vftable" fns = Some a /\
    fn_accessor a = Some (None, type_tokens (TConstPtr (TRaw vp))).
Proof.
  intros HN Hk H.
  destruct (with_type_sound _ _ _ _ H)
    as (st0 & st & files & it0 & gd & td0 & it & r & td & Hin & Hcf & Hres & Hw & Hg0 & Hs0 & Hty & Hroot & Hg & Hs & Hi & Hkk).
  destruct (Hk _ _ _ _ Hkk) as (Hd & Hb & Hnf).
  destruct (emitted_own_pointer_whole_build _ _ _ _ _ _ _ _ _ _ _ _ _
              Hin HN Hcf ih_keeps_work Hres Hw Hg0 Hs0 Hty Hroot Hg Hs Hi Hd (base_no_vftable_sound _ _ Hb))
    as (parent & name & vp & fs & vt & f & items & s & efs & ef0 & efs' & im & fns & a & others &
        R_mid & module & n & pending &
        A1 & A2 & A3 & A4 & A5 & A6 & A7 & A8 & A9 & A10 & A11 & A12 & A13 & A14 & A15 & A16 & A17 & A18 & A19 &
        A20 & A21 & A22 & A23 & A24 & A25 & A26 & A27 & A28 & A29).
  exists st, files, td, parent, name, vp, f, items, s, efs, ef0, efs', im, fns, a.
  repeat (split; [assumption|]).
  split; [apply A15; now apply no_field_namedb_sound|].
  repeat (split; [assumption|]). assumption.
Qed.

Example ih_own_theorem_applied :
  exists st files td parent name vp f items s efs ef0 efs' im fns a,
    pyxis_resolve (hook_schedule []) 4 ih_mods = BOk st /\ write_all st = Ok files /\
    path_parent ["b"; "Own"] = Some parent /\ path_last ["b"; "Own"] = Some name /\
    vftable_path ["b"; "Own"] = Some vp /\
    In (out_path parent, f) files /\ file_items f = Some items /\ find_struct name items = Some s /\
    struct_fields s = Some efs /\ efs = ef0 :: efs' /\ ef_own_pointer (TConstPtr (TRaw vp)) ef0 /\
    Forall (fun e => ef_name e <> "vftable") efs' /\
    hd_error (emitted_offsets (st_reg st) td efs) = Some ("vftable", 0%N) /\
    hd_error (emitted_field_sas (st_reg st) td) = Some (4%N, 4%N) /\
    In im items /\ inherent_impl im = Some (name, fns) /\ find_fn "vftable" fns = Some a /\
    fn_accessor a = Some (None, type_tokens (TConstPtr (TRaw vp))).
Proof.
  eapply (own_applied 4 ih_mods ["b"; "Own"]); [exact ih_nodup | | exact (proj1 ih_own_hypotheses)].
  intros st0 st td0 td H. apply andb_prop in H as [H H3]. apply andb_prop in H as [H1 H2]. auto.
Qed.

(** Part 3: [Derived] over [Base] (two files), and [Derived3] over [Derived2] whose table comes
    from [Base] *)
Example ih_prefix_theorem_applied :
  exists st files td bvt,
    pyxis_resolve (hook_schedule []) 4 ih_mods = BOk st /\ write_all st = Ok files /\
    vftable_prefix_emitted 4 st files ["b"; "Derived"] td bvt ["a"; "Base"].
Proof.
  destruct (with_type_sound _ _ _ _ (proj1 ih_shared_hypotheses))
    as (st0 & st & files & it0 & gd & td0 & it & r & td & Hin & Hcf & Hres & Hw & Hg0 & Hs0 & Hty & Hroot & Hg & Hs & Hi & Hkk).
  apply andb_prop in Hkk as [Hkk _]. apply andb_prop in Hkk as [Hb Hd].
  destruct (base_vftable_sound _ _ _ Hb) as (fb & itb & rsb & tdb & bvt & Hfb & Hbt & Hgb & Hrb & Hib & Hbv).
  destruct (with_type_sound _ _ _ _ ih_prefix_hypotheses)
    as (st0' & st' & files' & itb0 & gdb & tdb0 & itb' & rb' & tdb' & Hin' & _ & Hres' & _ & Hgb0 & Hsb0 & Htyb & Hrootb & _ & _ & _ & Hdb).
  rewrite Hin in Hin'. inversion Hin'; subst st0'. clear Hin' Hres'.
  exists st, files, td, bvt. split; [exact Hres|]. split; [exact Hw|].
  eapply (emitted_vftable_prefix_whole_build _ _ _ _ _ _ _ _ _ _ _ _ _ _ _ _ _ _ _ _ _ _
            Hin ih_nodup Hcf Hres Hw Hg0 Hs0 Hty Hroot Hd Hg Hs Hi Hfb Hbt Hgb0 Hsb0 Htyb Hrootb Hdb Hgb Hrb Hib Hbv).
Qed.

Example ih_prefix_origin_theorem_applied :
  exists st0 st files td bvt q,
    input_state 4 ih_mods = Ok st0 /\
    pyxis_resolve (hook_schedule []) 4 ih_mods = BOk st /\ write_all st = Ok files /\
    vft_origin st0 st bvt q /\
    vftable_prefix_emitted 4 st files ["b"; "Derived3"] td bvt q.
Proof.
  destruct (with_type_sound _ _ _ _ (proj1 (proj2 (proj2 ih_shared_hypotheses))))
    as (st0 & st & files & it0 & gd & td0 & it & r & td & Hin & Hcf & Hres & Hw & Hg0 & Hs0 & Hty & Hroot & Hg & Hs & Hi & Hkk).
  apply andb_prop in Hkk as [Hkk Hnr]. apply andb_prop in Hkk as [Hb Hd].
  destruct (base_vftable_sound _ _ _ Hb) as (fb & itb & rsb & tdb & bvt & Hfb & Hbt & Hgb & Hrb & Hib & Hbv).
  destruct (emitted_vftable_prefix_whole_build_origin _ _ _ _ _ _ _ _ _ _ _ _ _ _ _ _ _ _ _
              Hin ih_nodup Hcf Hres Hw (no_root_declb_sound _ Hnr) Hg0 Hs0 Hty Hd Hg Hs Hi Hfb Hbt Hgb Hrb Hib Hbv)
    as (q & Ho & Hp).
  exists st0, st, files, td, bvt, q. auto.
Qed.

(** the origin found for [Derived3] is [a::Base]: its first base [Derived2] has no block of its own *)
Example ih_Derived3_origin :
  bindo (ih_state 4) (fun st => bindo (resolved_of st ["b"; "Derived2"]) (fun r =>
    match rs_inner r with
    | IType td => option_map vt_type (td_vftable td)
    | IEnum _ => None
    end)) = Some (TConstPtr (TRaw ["a"; "BaseVftable"])).
Proof. vm_compute. reflexivity. Qed.

Print Assumptions ih_shared_theorem_applied_Derived2.
Print Assumptions ih_own_theorem_applied.
Print Assumptions ih_prefix_theorem_applied.
Print Assumptions ih_prefix_origin_theorem_applied.
