(** * EmitDefaultExamples: the theorems of EmitDefault.v / DefaultClosed.v on real inputs
    (non-vacuity), and the [_refuted] witnesses of what pyxis does NOT check.

    All checks are closed boolean / equational computations on the files the model writes at pointer
    width 4.

    GOOD ([dg_]):
<<
#[defaultable] type Inner { a: u32, b: [u16; 2] }
#[defaultable, copyable] enum D: u8 { #[default] X = 1, Y }
#[defaultable, size(28)] pub type Outer { i: Inner, d: [D; 3], #[address(16)] z: u32, m: [[u8; 2]; 3] }
>>
    REFUTED, known-finding territory (the documented fragment: "arrays of at most 32 elements in
    defaultable types"):
    - [gap_]: [#[defaultable, size(36)] type Gap { a: u8, #[address(34)] b: u8 }] is accepted; the emitted
      struct derives [Default] and has the padding field [_field_1 : [u8; 33]], which is not [Default]
      (rustc: E0277, the trait [Default] is not implemented for [[u8; 33]]);
    - [big_]: the same with a declared [[u32; 33]] field;
    - [vd_]: [#[defaultable] type V { a: u32, v: void }] is accepted and [v] is written
      [::std::ffi::c_void], which is not [Default] (beside F9: a by-value [void] field);
    - [cp_]: [#[cloneable] type C { a: u32 }  #[copyable] type K { c: C }] is accepted and [K] is
      emitted with [derive(Copy, Clone)] although its field type [C] derives [Clone] only (F17:
      pyxis does not validate copyable / cloneable).
    REJECTED ([rej_]): [defaultable] with an own vftable, a pointer field, a function-free extern type
    field, a field of a user type that is not defaultable, an enum without / with two [default]
    variants. *)
From Coq Require Import List String NArith ZArith Bool Permutation.
From PyxisModel Require Import Base Sexp Grammar SemTypes Registry Sem Emit EmitLemmas Driver Examples
     WholeBuild OrderIndep EmitReaders EmitShape EmitFinal EmitShapeExamples EmitMarkers EmitMarkersEnum
     EmitPaths DefaultClosed EmitDefault.
Import ListNotations.
Local Open Scope string_scope.
Local Open Scope list_scope.

(** ** running the model *)
Definition one_mod (text : string) : list (path * gmodule) := [(["m"], module_of_text text)].

Definition run_files (mods : list (path * gmodule)) : option (list (string * sexp)) :=
  match pyxis_resolve (hook_schedule []) 4 mods with
  | BOk st => match write_all st with Ok files => Some files | _ => None end
  | _ => None
  end.
Definition run_error (mods : list (path * gmodule)) : option string :=
  match pyxis_resolve (hook_schedule []) 4 mods with BErr m => Some m | _ => None end.

Definition m_items (files : list (string * sexp)) : option (list sexp) :=
  bindo (option_map snd (find (fun kf => String.eqb (fst kf) "m.rs") files)) file_items.
Definition m_struct (files : list (string * sexp)) (name : string) : option sexp :=
  bindo (m_items files) (find_struct name).
Definition m_enum (files : list (string * sexp)) (name : string) : option sexp :=
  bindo (m_items files) (find_enum name).

(** per field: name, the spec predicate, the side condition *)
Definition field_verdicts (files : list (string * sexp)) (name : string) : option (list (string * bool * bool)) :=
  bindo (m_struct files name) (fun s =>
    option_map (map (fun ef => (ef_name ef, rust_default_ok files (ef_ty ef), default_side (ef_ty ef))))
               (struct_fields s)).

(** the hypotheses of the whole-build theorems, for a one-module input whose declared items are [names] *)
Definition hyps_check (mods : list (path * gmodule)) (names : list string) : bool :=
  match input_state 4 mods, pyxis_resolve (hook_schedule []) 4 mods with
  | Ok st0, BOk st =>
    collision_freeb (st_reg st0) && is_ok (write_all st) &&
    forallb (fun n => match reg_get (st_reg st0) ["m"; n] with
                      | Some it0 => match it_state it0 with Unresolved _ => true | _ => false end
                      | None => false
                      end) names
  | _, _ => false
  end.

Lemma one_mod_shape text :
  NoDup (map fst (one_mod text)) /\ ~ In [] (map fst (one_mod text)) /\ keeps_work (hook_schedule []).
Proof.
  split; [repeat constructor; intros []|]. split; [intros [H|[]]; discriminate|].
  apply perm_keeps_work. intros l. apply hook_schedule_perm.
Qed.

(** ** GOOD *)
Definition dg_text : string := "(module (attrs) (uses) (extern_types) (extern_values) (defs (def priv ""Inner"" (type (attrs (ident ""defaultable"")) (field (attrs) priv ""a"" (tid ""u32"")) (field (attrs) priv ""b"" (array (tid ""u16"") 2)))) (def priv ""D"" (enum (tid ""u8"") (attrs (ident ""defaultable"") (ident ""copyable"")) (case (attrs (ident ""default"")) ""X"" (some (int 1))) (case (attrs) ""Y"" none))) (def pub ""Outer"" (type (attrs (ident ""defaultable"") (fn ""size"" (int 28))) (field (attrs) priv ""i"" (tid ""Inner"")) (field (attrs) priv ""d"" (array (tid ""D"") 3)) (field (attrs (fn ""address"" (int 16))) priv ""z"" (tid ""u32"")) (field (attrs) priv ""m"" (array (array (tid ""u8"") 2) 3))))) (impls) (backends))".
Definition dg_mods := one_mod dg_text.
Definition dg_files : list (string * sexp) := match run_files dg_mods with Some f => f | None => [] end.

Example dg_hypotheses : hyps_check dg_mods ["Inner"; "D"; "Outer"] = true.
Proof. vm_compute. reflexivity. Qed.

(** every field of [Outer] -- the struct field, the array of enums, the generated paddings, the plain
    integer, the nested array -- is [Default] by Rust's rules, and meets the side condition *)
Example dg_outer_fields :
  field_verdicts dg_files "Outer" =
  Some [("i", true, true); ("d", true, true); ("_field_b", true, true); ("z", true, true);
        ("m", true, true); ("_field_1a", true, true)] /\
  option_map (map (fun ef => ef_ty ef)) (bindo (m_struct dg_files "Outer") struct_fields) =
  Some [type_tokens (TRaw ["m"; "Inner"]); type_tokens (TArray (TRaw ["m"; "D"]) 3);
        type_tokens (TArray (TRaw ["u8"]) 5); type_tokens (TRaw ["u32"]);
        type_tokens (TArray (TArray (TRaw ["u8"]) 2) 3); type_tokens (TArray (TRaw ["u8"]) 2)].
Proof. vm_compute. split; reflexivity. Qed.

Example dg_structs_ok :
  map (fun n => (bindo (m_struct dg_files n) struct_derives,
                 option_map (struct_default_ok dg_files) (m_struct dg_files n))) ["Inner"; "Outer"] =
  [(Some ["Default"], Some true); (Some ["Default"], Some true)].
Proof. vm_compute. reflexivity. Qed.

(** the items the fields name carry the impl in their own definitions *)
Example dg_named_items :
  map (path_default_ok dg_files) [["m"; "Inner"]; ["m"; "D"]; ["u32"]; ["m"; "Nope"]; ["void"]; ["usize"]] =
  [true; true; true; false; false; false].
Proof. vm_compute. reflexivity. Qed.

(** the enum: [#[default]] on [X] only, [Default] derived, exactly one *)
Example dg_enum :
  option_map (map (fun v => (evr_name v, evr_default v))) (bindo (m_enum dg_files "D") enum_variants_of) =
  Some [("X", true); ("Y", false)] /\
  bindo (m_enum dg_files "D") enum_derives =
  Some ["PartialEq"; "Eq"; "PartialOrd"; "Ord"; "Debug"; "Copy"; "Clone"; "Default"] /\
  option_map count_default (bindo (m_enum dg_files "D") enum_variants_of) = Some 1%nat /\
  option_map item_default_ok (m_enum dg_files "D") = Some true.
Proof. vm_compute. repeat split; reflexivity. Qed.

(** (d), (e) of the spec: pointers, function pointers, [c_void], unknown paths are not [Default];
    (b): 32 is the last length *)
Example spec_negative :
  map (fun t => rust_default_ok dg_files (type_tokens t))
      [TConstPtr (TRaw ["u32"]); TMutPtr (TRaw ["m"; "Inner"]); TArray (TConstPtr (TRaw ["u8"])) 2;
       TFunction CC_C [("x", TRaw ["u32"])] (Some (TRaw ["u32"])); TFunction CC_Thiscall [] None;
       TRaw ["void"]; TArray (TRaw ["void"]) 2; TRaw ["m"; "Ext"]; TRaw ["Ext"];
       TArray (TRaw ["u8"]) 32; TArray (TRaw ["u8"]) 33; TArray (TArray (TRaw ["m"; "Inner"]) 33) 2;
       TArray (TArray (TRaw ["m"; "Inner"]) 32) 0] =
  [false; false; false; false; false; false; false; false; false; true; false; false; true].
Proof. vm_compute. reflexivity. Qed.

(** ** REFUTED 1: a 33-byte gap in a defaultable type *)
Definition gap_text : string := "(module (attrs) (uses) (extern_types) (extern_values) (defs (def pub ""Gap"" (type (attrs (ident ""defaultable"") (fn ""size"" (int 36))) (field (attrs) priv ""a"" (tid ""u8"")) (field (attrs (fn ""address"" (int 34))) priv ""b"" (tid ""u8""))))) (impls) (backends))".
Definition gap_mods := one_mod gap_text.
Definition gap_files : list (string * sexp) := match run_files gap_mods with Some f => f | None => [] end.

Example gap_hypotheses : hyps_check gap_mods ["Gap"] = true.
Proof. vm_compute. reflexivity. Qed.

(** accepted; the emitted struct derives [Default]; its generated padding field is [[u8; 33]], which
    does not implement [Default]: [derive(Default)] is NOT satisfiable.  By
    [C13_emitted_default_fields] the side condition fails on exactly that field. *)
Theorem C13_default_padding_refuted :
  bindo (m_struct gap_files "Gap") struct_derives = Some ["Default"] /\
  option_map (map (fun ef => (ef_name ef, ef_ty ef))) (bindo (m_struct gap_files "Gap") struct_fields) =
  Some [("a", type_tokens (TRaw ["u8"])); ("_field_1", type_tokens (TArray (TRaw ["u8"]) 33));
        ("b", type_tokens (TRaw ["u8"])); ("_field_23", type_tokens (TArray (TRaw ["u8"]) 1))] /\
  field_verdicts gap_files "Gap" =
  Some [("a", true, true); ("_field_1", false, false); ("b", true, true); ("_field_23", true, true)] /\
  option_map (struct_default_ok gap_files) (m_struct gap_files "Gap") = Some false.
Proof. vm_compute. repeat split; reflexivity. Qed.
Print Assumptions C13_default_padding_refuted.

(** the same with a declared long array *)
Definition big_text : string := "(module (attrs) (uses) (extern_types) (extern_values) (defs (def pub ""Big"" (type (attrs (ident ""defaultable"")) (field (attrs) priv ""a"" (array (tid ""u32"") 33))))) (impls) (backends))".
Definition big_files : list (string * sexp) := match run_files (one_mod big_text) with Some f => f | None => [] end.
Theorem C13_default_array_refuted :
  bindo (m_struct big_files "Big") struct_derives = Some ["Default"] /\
  field_verdicts big_files "Big" = Some [("a", false, false)] /\
  option_map (struct_default_ok big_files) (m_struct big_files "Big") = Some false.
Proof. vm_compute. repeat split; reflexivity. Qed.

(** ** REFUTED 2: a by-value [void] field in a defaultable type *)
Definition vd_text : string := "(module (attrs) (uses) (extern_types) (extern_values) (defs (def pub ""V"" (type (attrs (ident ""defaultable"")) (field (attrs) priv ""a"" (tid ""u32"")) (field (attrs) priv ""v"" (tid ""void""))))) (impls) (backends))".
Definition vd_mods := one_mod vd_text.
Definition vd_files : list (string * sexp) := match run_files vd_mods with Some f => f | None => [] end.

Example vd_hypotheses : hyps_check vd_mods ["V"] = true.
Proof. vm_compute. reflexivity. Qed.

Theorem C13_default_void_refuted :
  bindo (m_struct vd_files "V") struct_derives = Some ["Default"] /\
  option_map (map (fun ef => (ef_name ef, ef_ty ef))) (bindo (m_struct vd_files "V") struct_fields) =
  Some [("a", type_tokens (TRaw ["u32"])); ("v", type_tokens (TRaw ["void"]))] /\
  field_verdicts vd_files "V" = Some [("a", true, true); ("v", false, false)] /\
  option_map (struct_default_ok vd_files) (m_struct vd_files "V") = Some false.
Proof. vm_compute. repeat split; reflexivity. Qed.
Print Assumptions C13_default_void_refuted.

(** ** REFUTED 3 (F17): copyable is not validated *)
Definition cp_text : string := "(module (attrs) (uses) (extern_types) (extern_values) (defs (def pub ""C"" (type (attrs (ident ""cloneable"")) (field (attrs) priv ""a"" (tid ""u32"")))) (def pub ""K"" (type (attrs (ident ""copyable"")) (field (attrs) priv ""c"" (tid ""C""))))) (impls) (backends))".
Definition cp_mods := one_mod cp_text.
Definition cp_files : list (string * sexp) := match run_files cp_mods with Some f => f | None => [] end.

Example cp_hypotheses : hyps_check cp_mods ["C"; "K"] = true.
Proof. vm_compute. reflexivity. Qed.

(** [K] is emitted with [derive(Copy, Clone)]; its only field has type [crate::m::C], whose own
    definition derives [Clone] only: [derive(Copy)] on [K] is NOT satisfiable (rustc: E0204) *)
Theorem C13_copy_refuted :
  bindo (m_struct cp_files "K") struct_derives = Some ["Copy"; "Clone"] /\
  option_map (map (fun ef => (ef_name ef, type_paths (ef_ty ef)))) (bindo (m_struct cp_files "K") struct_fields) =
  Some [("c", [["m"; "C"]])] /\
  bindo (m_struct cp_files "C") struct_derives = Some ["Clone"].
Proof. vm_compute. repeat split; reflexivity. Qed.
Print Assumptions C13_copy_refuted.

(** ** REJECTED: what [check_defaultable] and [enum_build] do refuse *)
(** own vftable; pointer field; extern type field; user type that is not defaultable *)
Definition rej_vft_text : string := "(module (attrs) (uses) (extern_types) (extern_values) (defs (def pub ""W"" (type (attrs (ident ""defaultable"")) (vftable (attrs) (func (attrs) pub ""f"" (args cself) none)) (field (attrs) priv ""a"" (tid ""u32""))))) (impls) (backends))".
Definition rej_ptr_text : string := "(module (attrs) (uses) (extern_types) (extern_values) (defs (def pub ""P"" (type (attrs (ident ""defaultable"")) (field (attrs) priv ""p"" (cptr (tid ""u32"")))))) (impls) (backends))".
Definition rej_ext_text : string := "(module (attrs) (uses) (extern_types (etype ""Ext"" (attrs (fn ""size"" (int 8)) (fn ""align"" (int 4))))) (extern_values) (defs (def pub ""X"" (type (attrs (ident ""defaultable"")) (field (attrs) priv ""e"" (tid ""Ext""))))) (impls) (backends))".
Definition rej_user_text : string := "(module (attrs) (uses) (extern_types) (extern_values) (defs (def pub ""N"" (type (attrs) (field (attrs) priv ""a"" (tid ""u32"")))) (def pub ""U"" (type (attrs (ident ""defaultable"")) (field (attrs) priv ""n"" (array (tid ""N"") 2))))) (impls) (backends))".
Definition rej_enum0_text : string := "(module (attrs) (uses) (extern_types) (extern_values) (defs (def pub ""E"" (enum (tid ""u8"") (attrs (ident ""defaultable"")) (case (attrs) ""A"" none)))) (impls) (backends))".
Definition rej_enum2_text : string := "(module (attrs) (uses) (extern_types) (extern_values) (defs (def pub ""E"" (enum (tid ""u8"") (attrs (ident ""defaultable"")) (case (attrs (ident ""default"")) ""A"" none) (case (attrs (ident ""default"")) ""B"" none)))) (impls) (backends))".
Definition rej_enum_nd_text : string := "(module (attrs) (uses) (extern_types) (extern_values) (defs (def pub ""E"" (enum (tid ""u8"") (attrs) (case (attrs (ident ""default"")) ""A"" none)))) (impls) (backends))".

Example rej_all :
  map (fun t => run_error (one_mod t))
      [rej_vft_text; rej_ptr_text; rej_ext_text; rej_user_text; rej_enum0_text; rej_enum2_text; rej_enum_nd_text] =
  [Some "field is not a defaultable type (pointer or function?)";
   Some "field is not a defaultable type (pointer or function?)";
   Some "field is not a defaultable type";
   Some "field is not a defaultable type";
   Some "enum is marked as defaultable but has no default variant set";
   Some "enum has multiple default variants";
   Some "enum has a default variant set but is not marked as defaultable"].
Proof. vm_compute. reflexivity. Qed.

(** the same inputs without [defaultable] are accepted (the rejection is the check's) *)
Definition acc_vft_text : string := "(module (attrs) (uses) (extern_types) (extern_values) (defs (def pub ""W"" (type (attrs) (vftable (attrs) (func (attrs) pub ""f"" (args cself) none)) (field (attrs) priv ""a"" (tid ""u32""))))) (impls) (backends))".
Example acc_without_marker :
  match run_files (one_mod acc_vft_text) with
  | Some files => option_map (map (fun ef => ef_name ef)) (bindo (m_struct files "W") struct_fields)
  | None => None
  end = Some ["vftable"; "a"].
Proof. vm_compute. reflexivity. Qed.
