(** * C03Vft, non-vacuity: descriptions with a vftable block, decided by the theorems of C03Vft.v.

    State: [input_state 4 [(["m"], module)]], then one [resolve_pass] over [Base] and [BaseV]
    (which registers [BaseVVftable]).

<<
#[align(4)] pub type Base { pub x: u32, pub y: u32 }
pub type BaseV  { vftable { pub fn f(&self, x: u32) -> u32; }, pub x: u32 }                       8, 4
pub type V      { vftable { pub fn f(&self, x: u32) -> u32; #[index(3)] pub fn g(&mut self); }, pub x: u32 }   accepted: 8, 4
type VMis       { vftable { pub fn f(&self); }, pub c: u8, pub w: u32 }            w at 5: misaligned
type VSmall     { #[size(1)] vftable { pub fn f(&self); pub fn g(&self); }, pub x: u32 }    size below the slot count
type VIdx       { vftable { pub fn f(&self); #[index(0)] pub fn g(&self); }, pub x: u32 }   index below position
type VAddr      { vftable { #[address(64)] pub fn f(&self); }, pub x: u32 }        address on a virtual function
#[defaultable] type VDflt { vftable { pub fn f(&self); }, pub x: u32 }             a pointer has no default
pub type VDer   { vftable { <f>; pub fn h(&self); }, #[base] pub base: BaseV, pub y: u32 }  accepted, pointer shared: 12, 4
type VDerBad    { vftable { pub fn h(&self); }, #[base] pub base: BaseV, pub y: u32 }       does not repeat the base's slot
type VPlain     { vftable { pub fn k(&self); }, #[base] pub base: Base }           accepted, own pointer then the base: 12, 4
type VClash     { vftable { pub fn f(&self); }, pub x: u32 }   impl VClash { #[address(80)] pub fn f(&self); }   name taken by the vftable
type VImpl      { vftable { pub fn f(&self); }, pub x: u32 }   impl VImpl  { #[address(80)] pub fn make() -> *const VImplVftable; }   accepted
>> *)
From Coq Require Import List NArith ZArith Bool Lia String.
From PyxisModel Require Import Base Grammar SemTypes Registry Sem SemLemmas PlacementLemmas
     WholeBuild WholeBuildMore Examples C03Whole C03Tail C03Bases C03Vft.
From PyxisModel Require C03Core.
Import ListNotations.
Local Open Scope N_scope.
Local Open Scope string_scope.
Module C := C03Core.

Definition vx_text : string := "(module (attrs) (uses) (extern_types) (extern_values) (defs (def pub ""Base"" (type (attrs (fn ""align"" (int 4))) (field (attrs) pub ""x"" (tid ""u32"")) (field (attrs) pub ""y"" (tid ""u32"")))) (def pub ""BaseV"" (type (attrs) (vftable (attrs) (func (attrs) pub ""f"" (args cself (named ""x"" (tid ""u32""))) (some (tid ""u32"")))) (field (attrs) pub ""x"" (tid ""u32"")))) (def pub ""V"" (type (attrs) (vftable (attrs) (func (attrs) pub ""f"" (args cself (named ""x"" (tid ""u32""))) (some (tid ""u32""))) (func (attrs (fn ""index"" (int 3))) pub ""g"" (args mself) none)) (field (attrs) pub ""x"" (tid ""u32"")))) (def priv ""VMis"" (type (attrs) (vftable (attrs) (func (attrs) pub ""f"" (args cself) none)) (field (attrs) pub ""c"" (tid ""u8"")) (field (attrs) pub ""w"" (tid ""u32"")))) (def priv ""VSmall"" (type (attrs) (vftable (attrs (fn ""size"" (int 1))) (func (attrs) pub ""f"" (args cself) none) (func (attrs) pub ""g"" (args cself) none)) (field (attrs) pub ""x"" (tid ""u32"")))) (def priv ""VIdx"" (type (attrs) (vftable (attrs) (func (attrs) pub ""f"" (args cself) none) (func (attrs (fn ""index"" (int 0))) pub ""g"" (args cself) none)) (field (attrs) pub ""x"" (tid ""u32"")))) (def priv ""VAddr"" (type (attrs) (vftable (attrs) (func (attrs (fn ""address"" (int 64))) pub ""f"" (args cself) none)) (field (attrs) pub ""x"" (tid ""u32"")))) (def priv ""VDflt"" (type (attrs (ident ""defaultable"")) (vftable (attrs) (func (attrs) pub ""f"" (args cself) none)) (field (attrs) pub ""x"" (tid ""u32"")))) (def pub ""VDer"" (type (attrs) (vftable (attrs) (func (attrs) pub ""f"" (args cself (named ""x"" (tid ""u32""))) (some (tid ""u32""))) (func (attrs) pub ""h"" (args cself) none)) (field (attrs (ident ""base"")) pub ""base"" (tid ""BaseV"")) (field (attrs) pub ""y"" (tid ""u32"")))) (def priv ""VDerBad"" (type (attrs) (vftable (attrs) (func (attrs) pub ""h"" (args cself) none)) (field (attrs (ident ""base"")) pub ""base"" (tid ""BaseV"")) (field (attrs) pub ""y"" (tid ""u32"")))) (def priv ""VPlain"" (type (attrs) (vftable (attrs) (func (attrs) pub ""k"" (args cself) none)) (field (attrs (ident ""base"")) pub ""base"" (tid ""Base"")))) (def priv ""VClash"" (type (attrs) (vftable (attrs) (func (attrs) pub ""f"" (args cself) none)) (field (attrs) pub ""x"" (tid ""u32"")))) (def priv ""VImpl"" (type (attrs) (vftable (attrs) (func (attrs) pub ""f"" (args cself) none)) (field (attrs) pub ""x"" (tid ""u32""))))) (impls (impl ""VClash"" (attrs) (func (attrs (fn ""address"" (int 80))) pub ""f"" (args cself) none)) (impl ""VImpl"" (attrs) (func (attrs (fn ""address"" (int 80))) pub ""make"" (args) (some (cptr (tid ""u8"")))))) (backends))".

Definition vx_module : gmodule := Examples.module_of_text vx_text.
Definition vx_mods : list (path * gmodule) := [(["m"], vx_module)].
Definition vx_path (name : string) : path := ["m"; name].
Definition vx_def (name : string) : gtypedef :=
  match find (fun gd => String.eqb (gi_name gd) name) (gm_defs vx_module) with
  | Some gd => match gi_inner gd with GIType td => td | GIEnum _ => {| gt_stmts := []; gt_attrs := [] |} end
  | None => {| gt_stmts := []; gt_attrs := [] |}
  end.
Definition vx_dummy : sstate := {| st_modules := []; st_reg := {| reg_types := []; reg_ptr := 4 |} |}.
Definition vx_st : sstate :=
  match input_state 4 vx_mods with
  | Ok st0 => match resolve_pass st0 [vx_path "Base"; vx_path "BaseV"] with
              | inl st1 => st1
              | inr _ => vx_dummy
              end
  | _ => vx_dummy
  end.

Definition vx_resolved (st : sstate) (name : string) : option (N * N) :=
  match reg_get (st_reg st) (vx_path name) with
  | Some it => option_map (fun r => (rs_size r, rs_align r)) (item_resolved it)
  | None => None
  end.

Example vx_state_shape :
  List.length (gm_defs vx_module) = 13%nat /\ List.length (gm_impls vx_module) = 2%nat /\
  (match input_state 4 vx_mods with
   | Ok st0 => match resolve_pass st0 [vx_path "Base"; vx_path "BaseV"] with inl _ => true | inr _ => false end
   | _ => false end) = true /\
  vx_resolved vx_st "Base" = Some (8, 4) /\ vx_resolved vx_st "BaseV" = Some (8, 4) /\
  vx_resolved vx_st "BaseVVftable" = Some (4, 4) /\ vx_resolved vx_st "V" = None /\
  reg_get (st_reg vx_st) (vx_path "VVftable") = None.
Proof. vm_compute. repeat split. Qed.

Local Notation vx_realisableb name :=
  (C.realisableb (vft_ptr vx_st (vx_path name) Public (vx_def name))
                 (vft_fields vx_st (vx_path name) Public (vx_def name))
                 (declared_size (vx_def name)) (declared_align (vx_def name)) (is_packed (vx_def name))).
Local Notation vx_accept name :=
  (C.accept (vft_ptr vx_st (vx_path name) Public (vx_def name))
            (vft_fields vx_st (vx_path name) Public (vx_def name))
            (declared_size (vx_def name)) (declared_align (vx_def name)) (is_packed (vx_def name))).

(** (in the class, attributes ok, the block converts, realisable, extras ok); when the block does
    not convert there is no member list to speak of ([vft_fields = []], trivially realisable) *)
Definition vx_verdict (name : string) : bool * bool * bool * bool * bool :=
  (class_vft_okb vx_st (vx_path name) Public (vx_def name), attrs_vft_okb (vx_def name),
   vtable_okb_of vx_st (vx_path name) (vx_def name), vx_realisableb name,
   vft_extras_okb vx_st (vx_path name) Public (vx_def name)).

Example vx_premises :
  vx_verdict "V"       = (true, true, true,  true,  true) /\
  vx_verdict "VMis"    = (true, true, true,  false, true) /\
  vx_verdict "VSmall"  = (true, true, false, true,  false) /\
  vx_verdict "VIdx"    = (true, true, false, true,  false) /\
  vx_verdict "VAddr"   = (true, true, false, true,  false) /\
  vx_verdict "VDflt"   = (true, true, true,  true,  false) /\
  vx_verdict "VDer"    = (true, true, true,  true,  true) /\
  vx_verdict "VDerBad" = (true, true, true,  true,  false) /\
  vx_verdict "VPlain"  = (true, true, true,  true,  true) /\
  vx_verdict "VClash"  = (true, true, true,  true,  false) /\
  vx_verdict "VImpl"   = (true, true, true,  true,  true).
Proof. vm_compute. repeat split. Qed.

(** the member lists: the pointer first ([V], [VPlain]); shared with the base ([VDer]) *)
Example vx_fields :
  vft_fields vx_st (vx_path "V") Public (vx_def "V") =
  [ {| C.addr := None; C.sz := 4; C.al := 4; C.zarr := false |};
    {| C.addr := None; C.sz := 4; C.al := 4; C.zarr := false |} ] /\
  vft_fields vx_st (vx_path "VDer") Public (vx_def "VDer") =
  [ {| C.addr := None; C.sz := 8; C.al := 4; C.zarr := false |};
    {| C.addr := None; C.sz := 4; C.al := 4; C.zarr := false |} ] /\
  vft_fields vx_st (vx_path "VPlain") Public (vx_def "VPlain") =
  [ {| C.addr := None; C.sz := 4; C.al := 4; C.zarr := false |};
    {| C.addr := None; C.sz := 8; C.al := 4; C.zarr := false |} ] /\
  vft_fields vx_st (vx_path "VMis") Public (vx_def "VMis") =
  [ {| C.addr := None; C.sz := 4; C.al := 4; C.zarr := false |};
    {| C.addr := None; C.sz := 1; C.al := 1; C.zarr := false |};
    {| C.addr := None; C.sz := 4; C.al := 4; C.zarr := false |} ].
Proof. vm_compute. repeat split. Qed.

Definition vx_accepted : list (string * (N * N)) :=
  [("V", (8, 4)); ("VDer", (12, 4)); ("VPlain", (12, 4)); ("VImpl", (8, 4))].
Definition vx_rejected : list string :=
  ["VMis"; "VSmall"; "VIdx"; "VAddr"; "VDflt"; "VDerBad"; "VClash"].

Example vx_accepted_by_theorem name s a : In (name, (s, a)) vx_accepted ->
  exists st' r, type_build vx_st (vx_path name) Public (vx_def name) = (st', Ok r) /\
                rs_size r = s /\ rs_align r = a /\
                (** the generated item is in the new state *)
                reg_has (st_reg st') (vx_path (name +++ "Vftable")) = true.
Proof.
  intros Hin.
  assert (class_vft_okb vx_st (vx_path name) Public (vx_def name) = true /\
          attrs_vft_okb (vx_def name) = true /\ vtable_okb_of vx_st (vx_path name) (vx_def name) = true /\
          vx_realisableb name = true /\ vft_extras_okb vx_st (vx_path name) Public (vx_def name) = true /\
          vx_accept name = Some (s, a) /\
          match vft_after vx_st (vx_path name) Public (vx_def name) with
          | Some (st', _) => reg_has (st_reg st') (vx_path (name +++ "Vftable"))
          | None => false end = true) as (Hc & Ha & Hv & Hr & Hex & Hacc & Hreg).
  { cbn [In vx_accepted] in Hin.
    repeat (destruct Hin as [Hin|Hin]; [inversion Hin; subst name s a; vm_compute; repeat split|]);
      destruct Hin. }
  destruct (proj2 (C03_vft_type_build_iff vx_st _ Public _ Hc)) as (st' & r & Hb).
  { split; [exact Ha|]. split; [exact Hv|]. split; [exact (proj1 (C.realisableb_spec _ _ _ _ _) Hr) | exact Hex]. }
  destruct (C03_vft_type_build_size_align _ _ _ _ _ _ Hc Hb) as [[vp Hva] Hsa].
  exists st', r. split; [exact Hb|]. rewrite Hsa in Hacc. inversion Hacc. rewrite Hva in Hreg. auto.
Qed.

Example vx_rejected_by_theorem name : In name vx_rejected ->
  exists s msg, type_build vx_st (vx_path name) Public (vx_def name) = (s, Err msg).
Proof.
  intros Hin.
  assert (class_vft_okb vx_st (vx_path name) Public (vx_def name) = true /\
          attrs_vft_okb (vx_def name) && vtable_okb_of vx_st (vx_path name) (vx_def name) &&
          vx_realisableb name && vft_extras_okb vx_st (vx_path name) Public (vx_def name) = false) as (Hc & Hn).
  { cbn [In vx_rejected] in Hin.
    repeat (destruct Hin as [<-|Hin]; [vm_compute; split; reflexivity|]); destruct Hin. }
  apply (C03_vft_type_build_rejects_otherwise _ _ _ _ Hc). intros (Ha & Hv & Hr & He).
  pose proof (proj2 (C.realisableb_spec _ _ _ _ _) Hr) as Hr'.
  rewrite Ha, Hv, Hr', He in Hn. discriminate Hn.
Qed.

(** the model itself, run on some of them (no theorem involved), agrees *)
Example vx_model_run :
  (match type_build vx_st (vx_path "V") Public (vx_def "V") with
   | (_, Ok r) => Some (rs_size r, rs_align r) | _ => None end) = Some (8, 4) /\
  (match type_build vx_st (vx_path "VDer") Public (vx_def "VDer") with
   | (_, Ok r) => Some (rs_size r, rs_align r) | _ => None end) = Some (12, 4) /\
  (match type_build vx_st (vx_path "VMis") Public (vx_def "VMis") with
   | (_, Err msg) => Some msg | _ => None end)
  = Some "field is located at an address not divisible by its alignment" /\
  (match type_build vx_st (vx_path "VDerBad") Public (vx_def "VDerBad") with
   | (_, Err msg) => Some msg | _ => None end) = Some "vftable function differs from the base class's" /\
  (match type_build vx_st (vx_path "VSmall") Public (vx_def "VSmall") with
   | (_, Err msg) => Some msg | _ => None end) = Some "vftable size below its slot count" /\
  (match type_build vx_st (vx_path "VDflt") Public (vx_def "VDflt") with
   | (_, Err msg) => Some msg | _ => None end) = Some "field is not a defaultable type (pointer or function?)".
Proof. vm_compute. repeat split. Qed.

Print Assumptions vx_accepted_by_theorem.
Print Assumptions vx_rejected_by_theorem.
