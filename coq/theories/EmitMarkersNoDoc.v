(** * EmitMarkersNoDoc: "... and on no other item" (Part 5 of EmitMarkers.v).

    The doc lines of an emitted item are read by one generic reader, [item_docs]: every item the
    back end prints is [(kind (attrs a...) ...)] and [item_docs] collects the [#[doc = ".."]] among
    [a...].  For every type / enum the input declares and every written file of an accepted build:
    the helper items -- the size-check function, the singleton impl and its [get], the inherent impl
    item itself and its [vftable()] accessor, the [AsRef] / [AsMut] impls and their functions, the
    [get_<name>] accessors of extern values -- carry no doc line; a conflict const carries only its
    explanatory doc ([conflict_doc]).  Together with Parts 1-4 (struct, fields, enum, wrappers,
    slots carry exactly the declared doc lines) this is the "and on no other item" clause. *)
From Coq Require Import List NArith ZArith Bool Lia String Permutation.
From PyxisModel Require Import Base Sexp Grammar SemTypes Registry Sem SemLemmas FunctionLemmas
     ScopeLemmas PlacementLemmas TotalityLemmas EnumLemmas Emit EmitLemmas WholeBuild WholeBuildMore FinalState
     EmitReaders EmitShape EmitFinal EmitFind EmitFnReaders EmitFnShape EmitFnFinal
     Monotone OrderIndep EmitInvariance OutputIndep EmitLayout ConvReaders ConvShape EmitMarkers EmitMarkersEnum EmitMarkersFn.
Import ListNotations.
Local Open Scope string_scope.
Local Open Scope list_scope.

(** ** the generic doc reader *)
Definition item_docs (e : sexp) : option (list string) :=
  match e with
  | SList (Atom _ :: attrs :: _) => option_map (all_somes read_doc_attr) (tagged "attrs" attrs)
  | _ => None
  end.
(** the items inside an [impl] *)
Definition inner_items (e : sexp) : option (list sexp) := option_map snd (impl_parts e).

(** it agrees with the specific readers *)
Lemma item_docs_struct e d : struct_docs e = Some d -> item_docs e = Some d.
Proof.
  unfold struct_docs, item_parts, item_docs.
  destruct e as [|?|[|[k| |] [|a [|b [|[nm| |] ms]]]]]; try discriminate.
  destruct (String.eqb k "struct"); [|discriminate]. destruct (tagged "attrs" a); [|discriminate].
  destruct (read_vis b); [|discriminate]. auto.
Qed.
Lemma item_docs_enum e d : enum_docs e = Some d -> item_docs e = Some d.
Proof.
  unfold enum_docs, item_parts, item_docs.
  destruct e as [|?|[|[k| |] [|a [|b [|[nm| |] ms]]]]]; try discriminate.
  destruct (String.eqb k "enum"); [|discriminate]. destruct (tagged "attrs" a); [|discriminate].
  destruct (read_vis b); [|discriminate]. auto.
Qed.
Lemma item_docs_fn e d : fn_docs e = Some d -> item_docs e = Some d.
Proof.
  unfold fn_docs, read_fn, item_docs.
  destruct e as [|?|[|[k| |] [|a [|b [|c [|[nm| |] [|x [|y [|z [|? ?]]]]]]]]]]; try discriminate.
  destruct (String.eqb k "fn"); [|discriminate]. destruct (tagged "attrs" a); [|discriminate].
  destruct (read_vis b); [|discriminate]. destruct (tagged "quals" c); [|discriminate].
  destruct (tagged "params" x); [|discriminate]. destruct (tagged "ret" y); [|discriminate].
  destruct (tagged "body" z); [|discriminate]. destruct (read_all read_param _); [|discriminate]. auto.
Qed.

(** an item without doc line, whose inner items (if it is an impl) have none either *)
Definition undocumented (e : sexp) : Prop :=
  item_docs e = Some [] /\ forall l, inner_items e = Some l -> Forall (fun g => item_docs g = Some []) l.

(** ** the printers *)
Lemma fn_sexp_docs attrs v u name params ret body :
  item_docs (fn_sexp attrs v u name params ret body) = Some (all_somes read_doc_attr attrs).
Proof. reflexivity. Qed.

Lemma fn_sexp_inner attrs v u name params ret body : inner_items (fn_sexp attrs v u name params ret body) = None.
Proof. unfold inner_items, impl_parts, fn_sexp. destruct u; reflexivity. Qed.

Lemma fn_sexp_undocumented v u name params ret body : undocumented (fn_sexp [] v u name params ret body).
Proof. split; [reflexivity|]. rewrite fn_sexp_inner. discriminate. Qed.

Lemma impl_sexp_docs tr name items : item_docs (impl_sexp tr name items) = Some [].
Proof. reflexivity. Qed.

Lemma impl_sexp_inner tr name items : inner_items (impl_sexp tr name items) = Some items.
Proof. unfold inner_items. now rewrite impl_parts_printed. Qed.

Lemma impl_sexp_undocumented tr name items :
  Forall (fun g => item_docs g = Some []) items -> undocumented (impl_sexp tr name items).
Proof. intros H. split; [reflexivity|]. rewrite impl_sexp_inner. intros l E. now inversion E; subst. Qed.

Lemma size_check_undocumented name size : Forall undocumented (size_check name size).
Proof. unfold size_check. destruct (size =? 0)%N; repeat constructor; try apply fn_sexp_undocumented. Qed.

Lemma singleton_undocumented name v a : undocumented (singleton_struct_impl name v a).
Proof. unfold singleton_struct_impl. apply impl_sexp_undocumented. repeat constructor. Qed.

Lemma as_ref_impls_undocumented name target fields : Forall undocumented (as_ref_impls name target fields).
Proof. unfold as_ref_impls. repeat constructor; apply impl_sexp_undocumented; repeat constructor. Qed.

Lemma accessor_undocumented vt a : vftable_accessor vt = Ok a -> item_docs a = Some [].
Proof.
  unfold vftable_accessor. destruct (negb (stype_ok _)); [discriminate|].
  destruct (vt_base_field vt) as [b|]; [destruct (negb (ident_ok b)); [discriminate|]|]; intros H; inversion H; reflexivity.
Qed.

Lemma extern_getter_undocumented ev e : build_extern_value ev = Ok e -> undocumented e.
Proof.
  unfold build_extern_value. destruct (ev_type ev) as [t|]; [|discriminate].
  destruct (negb (ident_ok _)); [discriminate|]. destruct (negb (stype_ok t)); [discriminate|].
  intros H; inversion H. apply fn_sexp_undocumented.
Qed.

(** a conflict const: its only doc is the explanation the back end writes *)
Definition conflict_documented (name : string) (e : sexp) : Prop :=
  item_kind e = Some "const" /\ inner_items e = None /\
  exists t paths, item_docs e = Some (doc_lines (conflict_doc name t paths)).

Lemma conversions_docs R fuel name td conv :
  conversions R fuel name td = Ok conv ->
  Forall (fun e => undocumented e \/ conflict_documented name e) conv.
Proof.
  intros H. destruct (conversions_inv _ _ _ _ _ H) as (h & _ & _ & _ & ->).
  apply Forall_app. split.
  - apply Forall_forall. intros e He. apply in_flat_map in He as (x & _ & He). unfold conv_items in He.
    destruct (repeated (snd x) h).
    + destruct He as [<-|[]]. right. split; [reflexivity|]. split; [reflexivity|].
      eexists _, _. unfold conflict_const, item_docs, attrs_sexp. cbn [tagged String.eqb Ascii.eqb Bool.eqb option_map].
      now rewrite docs_read.
    + left. pose proof (as_ref_impls_undocumented name (type_tokens (snd x)) (fst x)) as F.
      rewrite Forall_forall in F. now apply F.
  - eapply Forall_impl; [|apply as_ref_impls_undocumented]. intros e He. now left.
Qed.

(** ** Part 5, types *)
Theorem C17_no_doc_on_type_helpers order ptr mods st0 st files p it0 gd td0 :
  input_state ptr mods = Ok st0 -> NoDup (map fst mods) -> collision_free (st_reg st0) ->
  keeps_work order ->
  pyxis_resolve order ptr mods = BOk st -> write_all st = Ok files ->
  reg_get (st_reg st0) p = Some it0 -> it_state it0 = Unresolved gd -> gi_inner gd = GIType td0 ->
  path_parent p <> Some [] ->
  exists parent name it r td f pre s checks sing im conv post acc wrappers,
    path_parent p = Some parent /\ path_last p = Some name /\
    reg_get (st_reg st) p = Some it /\ it_state it = Resolved r /\ rs_inner r = IType td /\
    (* all the items of the type, contiguous in the file of the declaring module *)
    In (out_path parent, f) files /\
    file_items f = Some (pre ++ (s :: checks ++ sing ++ im :: conv) ++ post) /\
    find_struct name (pre ++ (s :: checks ++ sing ++ im :: conv) ++ post) = Some s /\
    (* the struct: the declared doc lines (Part 1) *)
    (exists docs, item_docs s = Some docs /\ docs_as_declared (gt_attrs td0) docs) /\
    (* size check and singleton impl: no doc *)
    Forall undocumented checks /\ Forall undocumented sing /\
    (* the inherent impl: no doc on the impl item and on the [vftable()] accessor; its other
       functions are exactly the wrappers of the type's function records (Part 4) *)
    item_docs im = Some [] /\ inner_items im = Some (acc ++ wrappers) /\
    Forall (fun a => item_docs a = Some []) acc /\
    Forall2 wrapper_shape
            (emitted_fns (td_assoc td) ++
             match td_vftable td with Some vt => emitted_fns (vt_functions vt) | None => [] end) wrappers /\
    (* conversions: no doc, except the explanation on a conflict const *)
    Forall (fun e => undocumented e \/ conflict_documented name e) conv.
Proof.
  intros Hin HN Hcf Hord Hres Hw Hg0 Hs0 Hty Hroot.
  destruct (emitted_type_items _ _ _ _ _ _ _ _ _ _ Hin HN Hcf Hord Hres Hw Hg0 Hs0 Hty Hroot)
    as (parent & name & it & r & td & f & pre & s & sing & im & conv & post & acc & assoc & vfns &
        Hpar & Hne & Hname & Hg & Hs & Hi & Hfile & Hitems & Hfind & Hsh & Hsing & Him & Hacc & Hassoc & Hvfns & Hconv).
  exists parent, name, it, r, td, f, pre, s, (size_check name (rs_size r)), sing, im, conv, post, acc, (assoc ++ vfns).
  split; [exact Hpar|]. split; [exact Hname|]. split; [exact Hg|]. split; [exact Hs|]. split; [exact Hi|].
  split; [exact Hfile|]. split; [exact Hitems|]. split; [exact Hfind|].
  split.
  { exists (doc_lines (td_doc td)). split; [apply item_docs_struct; apply Hsh|].
    apply docs_of_attrs_doc. eapply declared_type_doc; eauto. }
  split; [apply size_check_undocumented|].
  split; [subst sing; destruct (td_singleton td); repeat constructor; apply singleton_undocumented|].
  split; [subst im; reflexivity|]. split; [subst im; apply impl_sexp_inner|].
  split.
  { destruct (td_vftable td) as [vt|]; [|subst acc; constructor].
    destruct Hacc as (a & Ha & ->). constructor; [|constructor]. eapply accessor_undocumented; eauto. }
  split.
  { apply Forall2_app; [now apply wrappers_shape|].
    destruct (td_vftable td) as [vt|]; [now apply wrappers_shape | subst vfns; constructor]. }
  eapply conversions_docs; eauto.
Qed.

(** ** Part 5, enums *)
Lemma build_enum_helpers p size v ed e rest :
  build_enum p size v ed = Ok (e :: rest) -> Forall undocumented rest.
Proof.
  unfold build_enum. intros H. destruct (path_last p) as [name|]; [|discriminate].
  destruct (negb (ident_ok name)); [discriminate|]. destruct (negb (stype_ok _)); [discriminate|].
  destruct (negb (ident_ok _)); [discriminate|]. inv_bind H. inversion H; subst. clear H.
  apply Forall_app. split; [apply size_check_undocumented|].
  destruct (ed_singleton ed); [|constructor]. constructor; [|constructor].
  apply impl_sexp_undocumented. repeat constructor.
Qed.

Theorem C17_no_doc_on_enum_helpers order ptr mods st0 st files p it0 gd ed0 :
  input_state ptr mods = Ok st0 -> NoDup (map fst mods) -> collision_free (st_reg st0) ->
  keeps_work order ->
  pyxis_resolve order ptr mods = BOk st -> write_all st = Ok files ->
  reg_get (st_reg st0) p = Some it0 -> it_state it0 = Unresolved gd -> gi_inner gd = GIEnum ed0 ->
  path_parent p <> Some [] ->
  exists parent name f pre e rest post,
    path_parent p = Some parent /\ path_last p = Some name /\
    In (out_path parent, f) files /\
    (* all the items of the enum, contiguous in the file of the declaring module *)
    file_items f = Some (pre ++ (e :: rest) ++ post) /\
    find_enum name (pre ++ (e :: rest) ++ post) = Some e /\
    (* the enum: the declared doc lines (Part 3); size check and singleton impl: no doc *)
    (exists docs, item_docs e = Some docs /\ docs_as_declared (ged_attrs ed0) docs) /\
    Forall undocumented rest.
Proof.
  intros Hin HN Hcf Hord Hres Hw Hg0 Hs0 Hty Hroot.
  destruct (emitted_enum_master _ _ _ _ _ _ _ _ _ _ Hin HN Hcf Hord Hres Hw Hg0 Hs0 Hty Hroot)
    as (parent & name & it & r & ed & f & pre & e & rest & post &
        Hpar & Hname & Hg & Hs & Hi & Hdoc & Hlen & Hb & Hfile & Hitems & Hfind & Hshape).
  exists parent, name, f, pre, e, rest, post. repeat (split; [assumption|]).
  split; [|eapply build_enum_helpers; eauto].
  exists (doc_lines (ed_doc ed)). split; [apply item_docs_enum; apply Hshape | now apply docs_of_attrs_doc].
Qed.

(** * Part 0 (MODULE): the inner doc attributes of a file are the doc lines of its module *)
Definition read_attr_inner (e : sexp) : option (list sexp) :=
  match e with
  | SList (Atom a :: Atom o :: l) => if String.eqb a "attr" && String.eqb o "inner" then Some l else None
  | _ => None
  end.
(** [#![doc = "line"]] *)
Definition read_inner_doc (e : sexp) : option string :=
  match read_attr_inner e with
  | Some [Atom d; Atom eq; lit] => if String.eqb d "doc" && String.eqb eq "=" then read_strlit lit else None
  | _ => None
  end.
Definition file_docs (f : sexp) : option (list string) :=
  match tagged "file" f with
  | Some (attrs :: _) => option_map (all_somes read_inner_doc) (tagged "attrs" attrs)
  | _ => None
  end.

Lemma file_header_docs d : all_somes read_inner_doc (file_header d) = doc_lines d.
Proof.
  unfold file_header. cbn [app all_somes]. 
  change (read_inner_doc (attr_inner [tk "allow"; _])) with (@None string).
  change (read_inner_doc (attr_inner [tk "cfg_attr"; _])) with (@None string).
  cbn iota. now apply all_somes_map.
Qed.

(** ** the module table: the doc of an input module, in the input state and at the end *)
Definition mod_doc (ms : list (path * smodule)) (k : path) (d : option string) : Prop :=
  exists m, alookup k ms = Some m /\ m_doc m = d.

Lemma add_item_mod_doc st it st' k d :
  add_item st it = Ok st' -> mod_doc (st_modules st) k d -> mod_doc (st_modules st') k d.
Proof.
  unfold add_item. destruct (path_parent (it_path it)) as [parent|]; [|discriminate].
  destruct (alookup parent (st_modules st)) as [m|] eqn:Em; [|discriminate].
  intros H (m0 & Hm0 & Hd). inversion H; subst st'; clear H. cbn [st_modules].
  destruct (path_eqb_spec parent k) as [->|Hne].
  - rewrite Em in Hm0. inversion Hm0; subst m0. eexists. split; [apply alookup_ainsert_same | exact Hd].
  - exists m0. split; [rewrite alookup_ainsert_other by exact Hne; exact Hm0 | exact Hd].
Qed.

Lemma add_module_mod_doc_other st mp ast st' k d :
  mp <> k -> add_module st mp ast = Ok st' -> mod_doc (st_modules st) k d -> mod_doc (st_modules st') k d.
Proof.
  unfold add_module. intros Hne H HD. inv_bind H. inv_bind H. inv_bind H.
  eapply (foldM_preserves (fun s => mod_doc (st_modules s) k d)); [| |exact H].
  - intros s e s' Hs He. unfold add_extern_type in He. inv_bind He.
    destruct a2 as [[size|] [al|]]; try discriminate.
    destruct (reg_has _ _); [discriminate|]. eapply add_item_mod_doc; eauto.
  - eapply (foldM_preserves (fun s => mod_doc (st_modules s) k d)); [| |exact Ha1].
    + intros s d0 s' Hs Hd. unfold add_definition in Hd. destruct (reg_has _ _); [discriminate|].
      eapply add_item_mod_doc; eauto.
    + destruct HD as (m0 & Hm0 & Hd). exists m0. cbn [st_modules]. split; [|exact Hd].
      rewrite alookup_ainsert_other by exact Hne. exact Hm0.
Qed.

Lemma add_module_mod_doc st mp ast st' :
  add_module st mp ast = Ok st' -> exists d, attrs_doc (gm_attrs ast) = Ok d /\ mod_doc (st_modules st') mp d.
Proof.
  unfold add_module. intros H. inv_bind H. inv_bind H. inv_bind H.
  pose proof Ha0 as Hnew. unfold module_new in Hnew. inv_bind Hnew. inversion Hnew; subst a0. clear Hnew.
  exists a2. split; [exact Ha2|].
  eapply (foldM_preserves (fun s => mod_doc (st_modules s) mp a2)); [| |exact H].
  - intros s e s' Hs He. unfold add_extern_type in He. inv_bind He.
    destruct a0 as [[size|] [al|]]; try discriminate.
    destruct (reg_has _ _); [discriminate|]. eapply add_item_mod_doc; eauto.
  - eapply (foldM_preserves (fun s => mod_doc (st_modules s) mp a2)); [| |exact Ha1].
    + intros s d0 s' Hs Hd. unfold add_definition in Hd. destruct (reg_has _ _); [discriminate|].
      eapply add_item_mod_doc; eauto.
    + eexists. cbn [st_modules]. split; [apply alookup_ainsert_same | reflexivity].
Qed.

Lemma add_modules_mod_doc : forall mods st st' k d,
  ~ In k (map fst mods) -> foldM (fun st pm => add_module st (fst pm) (snd pm)) mods st = Ok st' ->
  mod_doc (st_modules st) k d -> mod_doc (st_modules st') k d.
Proof.
  induction mods as [|[mp ast] mods IH]; intros st st' k d Hk H HD; cbn [foldM] in H.
  - now inversion H; subst.
  - inv_bind H. cbn [fst snd map In] in *. eapply IH; [| exact H |].
    + intros X. apply Hk. now right.
    + eapply add_module_mod_doc_other; [|exact Ha | exact HD]. intros ->. apply Hk. now left.
Qed.

Theorem input_module_doc ptr mods st0 k gm :
  input_state ptr mods = Ok st0 -> NoDup (map fst mods) -> In (k, gm) mods ->
  exists d, attrs_doc (gm_attrs gm) = Ok d /\ mod_doc (st_modules st0) k d.
Proof.
  intros H HN Hin. destruct (in_split _ _ Hin) as (l1 & l2 & ->).
  unfold input_state in H. inv_bind H. rewrite foldM_app in H. inv_bind H. cbn [foldM fst snd] in H. inv_bind H.
  destruct (add_module_mod_doc _ _ _ _ Ha1) as (d & Hd & HD). exists d. split; [exact Hd|].
  eapply add_modules_mod_doc; [|exact H | exact HD].
  rewrite map_app in HN. cbn [map fst] in HN. apply NoDup_remove_2 in HN.
  intros X. apply HN. apply in_or_app. now right.
Qed.

Lemma finish_build_module_doc s t k m :
  finish_build s = BOk t -> alookup k (st_modules s) = Some m ->
  exists m', In (k, m') (st_modules t) /\ m_doc m' = m_doc m.
Proof.
  intros F Hm. apply finish_build_mods in F.
  destruct (alookup_in _ _ _ Hm) as (k' & Hin & ->).
  destruct (mapM_in _ _ _ _ F Hin) as ([k2 m'] & Hb & Hout). cbn [fst snd] in Hb.
  inv_bind Hb. inversion Hb; subst k2 m'. exists a. split; [exact Hout|].
  unfold resolve_extern_values in Ha. inv_bind Ha. inversion Ha; subst a. reflexivity.
Qed.

Lemma accepted_module_doc order ptr mods st0 st k d :
  input_state ptr mods = Ok st0 -> collision_free (st_reg st0) ->
  pyxis_resolve order ptr mods = BOk st -> mod_doc (st_modules st0) k d ->
  exists m, In (k, m) (st_modules st) /\ m_doc m = d.
Proof.
  intros Hin Hcf Hres (m0 & Hm0 & Hd).
  destruct (pyxis_resolve_input _ _ _ _ Hres) as (st0' & Hin' & Hb).
  rewrite Hin in Hin'. inversion Hin'; subst st0'. clear Hin'.
  unfold sem_build in Hb.
  destruct (resolve_loop order _ st0) as [s| | | |] eqn:El; try discriminate.
  pose proof (input_state_keyed _ _ _ Hin) as HK0.
  destruct (input_state_wf _ _ _ Hin) as [HU HW].
  pose proof (LInv_init st0 HK0 HW) as HL0.
  pose proof (resolve_loop_LInv st0 Hcf order _ _ _ HL0 El) as (HI & HK & HD).
  destruct HD as [HKeys HDm].
  assert (alookup k (st_modules s) <> None) as Hsome.
  { apply alookup_some_in_keys. rewrite HKeys. apply alookup_some_in_keys. congruence. }
  destruct (alookup k (st_modules s)) as [m|] eqn:Em; [|congruence].
  destruct (HDm _ _ Em) as (m0' & Hm0' & (_ & _ & _ & _ & _ & Hdoc) & _).
  rewrite Hm0 in Hm0'. inversion Hm0'; subst m0'.
  destruct (finish_build_module_doc _ _ _ _ Hb Em) as (m' & Hin' & Hdoc').
  exists m'. split; [exact Hin' | congruence].
Qed.

Theorem C17_emitted_module_docs order ptr mods st0 st files k gm :
  input_state ptr mods = Ok st0 -> NoDup (map fst mods) -> collision_free (st_reg st0) ->
  pyxis_resolve order ptr mods = BOk st -> write_all st = Ok files ->
  In (k, gm) mods -> k <> [] ->
  exists m f docs items evs,
    In (k, m) (st_modules st) /\ In (out_path k, f) files /\
    (* the inner doc attributes of the file: the doc lines written on the module, in order *)
    file_docs f = Some docs /\ docs_as_declared (gm_attrs gm) docs /\
    (* the file: opaque prologue, the items of the module's definitions, the [get_<name>]
       accessors of its extern values, opaque epilogue; the accessors carry no doc *)
    mapM (build_item (st_reg st) (S (List.length (reg_types (st_reg st))))) (module_definitions (st_reg st) m) = Ok items /\
    file_items f = Some (SList [Atom "opaque"; Str (prologue_text m)] :: List.concat items ++ evs ++
                         [SList [Atom "opaque"; Str (epilogue_text m)]]) /\
    List.length evs = List.length (m_extern_values m) /\ Forall undocumented evs.
Proof.
  intros Hin HN Hcf Hres Hw Hgm Hk.
  destruct (input_module_doc _ _ _ _ _ Hin HN Hgm) as (d & Hd & HD).
  destruct (accepted_module_doc _ _ _ _ _ _ _ Hin Hcf Hres HD) as (m & Hm & Hdoc).
  destruct (write_all_in _ _ _ _ Hw Hm Hk) as (f & Hf & Hfile).
  destruct (module_file_shape _ _ _ Hf) as (items & evs & Hitems & Hevs & ->).
  exists m. eexists. exists (doc_lines d), items, evs.
  split; [exact Hm|]. split; [exact Hfile|].
  split. { unfold file_docs, attrs_sexp. cbn [tagged String.eqb Ascii.eqb Bool.eqb option_map]. now rewrite file_header_docs, Hdoc. }
  split; [now apply docs_of_attrs_doc|]. split; [exact Hitems|]. split; [reflexivity|].
  pose proof (mapM_ok _ _ _ Hevs) as F. split.
  - rewrite <- (Forall2_length' _ _ _ F). symmetry. apply Permutation_length, sort_perm.
  - clear -F. induction F as [|ev e l l' He _ IH]; constructor; [eapply extern_getter_undocumented; eauto | exact IH].
Qed.

(** * Every item of every written file, classified by what documentation it may carry *)
(** the item [e], emitted for the registry item [it], is
    - the struct of a type item: its doc lines are those of the registry record ([td_doc]);
    - the enum of an enum item: likewise ([ed_doc]);
    - the inherent impl of a type item: no doc on the impl nor on the accessor, then exactly the
      wrappers of the item's function records, each with the record's doc ([wrapper_shape]);
    - a conflict const: only the explanation;
    - anything else (size check, singleton impl, AsRef / AsMut impls): no doc line at all *)
Inductive item_class (it : item) : sexp -> Prop :=
| ic_struct rs td name s :
    item_resolved it = Some rs -> rs_inner rs = IType td -> path_last (it_path it) = Some name ->
    struct_shape name (rs_align rs) (it_vis it) td s -> item_docs s = Some (doc_lines (td_doc td)) ->
    item_class it s
| ic_enum rs ed name e :
    item_resolved it = Some rs -> rs_inner rs = IEnum ed -> path_last (it_path it) = Some name ->
    enum_shape name (it_vis it) ed e -> item_docs e = Some (doc_lines (ed_doc ed)) ->
    item_class it e
| ic_impl rs td im acc wrappers :
    item_resolved it = Some rs -> rs_inner rs = IType td ->
    item_kind im = Some "impl" -> item_docs im = Some [] -> inner_items im = Some (acc ++ wrappers) ->
    Forall (fun a => item_docs a = Some []) acc ->
    Forall2 wrapper_shape
            (emitted_fns (td_assoc td) ++
             match td_vftable td with Some vt => emitted_fns (vt_functions vt) | None => [] end) wrappers ->
    item_class it im
| ic_conflict name e :
    path_last (it_path it) = Some name -> conflict_documented name e -> item_class it e
| ic_helper e : undocumented e -> item_class it e.

Theorem build_item_classified R fuel it its :
  build_item R fuel it = Ok its -> Forall (item_class it) its.
Proof.
  intros H. unfold build_item in H.
  destruct (item_resolved it) as [rs|] eqn:Er; [|discriminate].
  destruct (it_cat it); try (inversion H; subst; constructor).
  destruct (rs_inner rs) as [td|ed] eqn:Ei.
  - destruct (build_type_struct_shape _ _ _ _ _ _ _ _ H) as (name & s0 & checks0 & rest0 & Hname & Heq0 & Hsh & _).
    destruct (build_type_parts _ _ _ _ _ _ _ _ H)
      as (name' & fields & acc & assoc & vfns & conv & Hname' & _ & Hacc & Hassoc & Hvfns & Hconv & Heq).
    rewrite Hname in Hname'. inversion Hname'; subst name'. rewrite Heq in Heq0. injection Heq0 as Hs0 _.
    rewrite Heq. constructor.
    { subst s0. eapply ic_struct; eauto. apply item_docs_struct. apply Hsh. }
    apply Forall_app. split; [eapply Forall_impl; [|apply size_check_undocumented]; intros e He; now apply ic_helper|].
    apply Forall_app. split.
    { destruct (td_singleton td); [|constructor]. constructor; [|constructor]. apply ic_helper, singleton_undocumented. }
    constructor.
    { apply (ic_impl it rs td _ acc (assoc ++ vfns) Er Ei); [reflexivity | reflexivity | apply impl_sexp_inner | |].
      - destruct (td_vftable td) as [vt|]; [|subst acc; constructor].
        destruct Hacc as (a & Ha & ->). constructor; [|constructor]. eapply accessor_undocumented; eauto.
      - apply Forall2_app; [now apply wrappers_shape|].
        destruct (td_vftable td) as [vt|]; [now apply wrappers_shape | subst vfns; constructor]. }
    eapply Forall_impl; [|eapply conversions_docs; eauto].
    intros e [He|He]; [now apply ic_helper | eapply ic_conflict; eauto].
  - destruct (build_enum_shape _ _ _ _ _ H) as (name & e & checks & rest & Hname & -> & Hsh & _ & _).
    constructor; [eapply ic_enum; eauto; apply item_docs_enum; apply Hsh|].
    eapply Forall_impl; [|eapply build_enum_helpers; eauto]. intros e' He'. now apply ic_helper.
Qed.

(** the whole file: opaque text, the classified items of the module's definitions, undocumented
    accessors of the extern values *)
Theorem module_file_classified st m f :
  module_file st m = Ok f ->
  exists items, file_items f = Some items /\
    Forall (fun e =>
              (exists txt, e = SList [Atom "opaque"; Str txt]) \/
              (exists q it, In q (m_defpaths m) /\ reg_get (st_reg st) q = Some it /\ item_class it e) \/
              (item_kind e = Some "fn" /\ undocumented e)) items.
Proof.
  intros H. destruct (module_file_shape _ _ _ H) as (items & evs & Hitems & Hevs & ->).
  eexists. split; [reflexivity|]. cbn [app].
  constructor; [left; eauto|]. apply Forall_app. split; [|apply Forall_app; split].
  - apply Forall_forall. intros e He. apply in_concat in He as (its & Hits & He). right. left.
    pose proof (mapM_ok _ _ _ Hitems) as F.
    assert (exists it, In it (module_definitions (st_reg st) m) /\
                       build_item (st_reg st) (S (List.length (reg_types (st_reg st)))) it = Ok its) as (it & Hit & Hb).
    { clear -F Hits. induction F as [|x y l l' Hxy _ IH]; [destruct Hits|].
      destruct Hits as [<-|Hi]; [exists x; split; [now left | exact Hxy]|].
      destruct (IH Hi) as (it1 & A & B). exists it1. split; [now right | exact B]. }
    destruct (module_definitions_from _ _ _ Hit) as (q & Hq & Hgq).
    exists q, it. split; [exact Hq|]. split; [exact Hgq|].
    pose proof (build_item_classified _ _ _ _ Hb) as Fc. rewrite Forall_forall in Fc. now apply Fc.
  - pose proof (mapM_ok _ _ _ Hevs) as F. clear -F.
    induction F as [|ev e l l' He _ IH]; constructor; [|exact IH]. right. right.
    split; [|eapply extern_getter_undocumented; eauto].
    unfold build_extern_value in He. destruct (ev_type ev); [|discriminate].
    destruct (negb (ident_ok _)); [discriminate|]. destruct (negb (stype_ok _)); [discriminate|].
    inversion He. reflexivity.
  - constructor; [left; eauto | constructor].
Qed.

Print Assumptions module_file_classified.
Print Assumptions C17_no_doc_on_type_helpers.
Print Assumptions C17_no_doc_on_enum_helpers.
Print Assumptions C17_emitted_module_docs.
