(** * BindingWhole: C11 for a whole accepted build.

    [C11_main] (Properties/C11.v) is about ONE lookup in an arbitrary registry.  This file says what
    that means for an accepted BUILD of a collision-free, clean input:

    - STABILITY ([binding_stable], [binding_stable_spec], [binding_stable_gtype], [C11_binding_stable]):
      in every registry the build passes through ([reach R0 R]: the invariant [Inv] of WholeBuild.v
      plus presence of every input item; [build_registries_reach]: every registry in which an item
      was attempted, the registry after that attempt and the final registry are such), a clean name
      written in a module binds to what [lookup_spec] -- the four documented rules -- selects among
      the definitions of the INPUT (registry [R0] = all definitions of all modules, nothing
      generated).  So the definition a name was bound to when its user was attempted is the one the
      rules select in the final registry, and the one a reader of the input selects.
    - FIELDS ([C11_fields_whole_build], [C11_field_layout_entry]): the declared fields of every type,
      read in the attempt's registry, are the declared fields read in the input / final registry; every
      kept field is a region of the final item with that type; the size and alignment the layout uses
      for it are [size_of] / [align_of] of the final registry at that type, i.e. [rs_size] / [rs_align]
      of exactly the entry [lookup_spec] selects when the field is of a named type.
    - EMITTED TEXT ([C11_emitted_field], [selected_reference]): the field of the emitted struct carries
      [type_tokens] of that type: [crate :: <path selected by lookup_spec>].
    - FUNCTIONS, VFTABLE FUNCTIONS, ENUM BASE TYPES, EXTERN VALUES: see the second half. *)
From Coq Require Import List NArith ZArith Bool Lia String.
From PyxisModel Require Import Base Sexp Grammar SemTypes Registry Sem RustLayout LayoutLemmas SemLemmas
     PlacementLemmas ScopeLemmas VftableLemmas TotalityLemmas FunctionLemmas EnumLemmas WholeBuild Monotone
     OrderIndep OutputIndep.
Import ListNotations.
Local Open Scope string_scope.
Local Open Scope list_scope.

(** ** 0. the chain of WholeBuild.v once more, carrying [present] to the state of the attempt *)
Lemma attempt_present R0 st p it gd st' o :
  collision_free R0 -> Inv R0 (st_reg st) -> keyed (st_reg st) ->
  reg_get (st_reg st) p = Some it -> it_state it = Unresolved gd -> attempt st p gd = (st', o) ->
  present R0 (st_reg st) -> present R0 (st_reg st').
Proof.
  intros Hcf HI HK Hg Hs Hat HP q Hq.
  destruct (attempt_inv _ _ _ _ _ _ _ Hcf HI HK Hg Hs Hat) as (_ & _ & _ & Hback).
  rewrite (Hback q Hq). auto.
Qed.

Lemma set_resolved_present R0 st p it gd r :
  collision_free R0 -> Inv R0 (st_reg st) -> keyed (st_reg st) ->
  reg_get (st_reg st) p = Some it -> it_state it = Unresolved gd ->
  present R0 (st_reg st) -> present R0 (st_reg (set_resolved st p r)).
Proof.
  intros Hcf HI HK Hg Hs HP q Hq.
  destruct (set_resolved_inv R0 st p it gd r Hcf HI HK Hg Hs) as (_ & _ & _ & (it' & Hg' & _) & Hoth).
  destruct (path_eqb_spec q p) as [->|Hne].
  - rewrite Hg'. discriminate.
  - rewrite (Hoth q Hne). auto.
Qed.

Definition built3 (R0 : registry) (ms0 : list (path * smodule)) (st_a st_b : sstate) (p : path) (r : resolved) : Prop :=
  exists st_mid st_mid' it gd,
    ext R0 (st_reg st_a) (st_reg st_mid) /\
    (Inv R0 (st_reg st_mid) /\ keyed (st_reg st_mid) /\ mods_rel (st_modules st_mid) ms0 /\
     present R0 (st_reg st_mid)) /\
    reg_get (st_reg st_mid) p = Some it /\ it_state it = Unresolved gd /\
    attempt st_mid p gd = (st_mid', Ok r) /\ ext R0 (st_reg st_mid') (st_reg st_b).

Lemma built3_weaken R0 ms0 st_a st_a' st_b st_b' p r :
  ext R0 (st_reg st_a') (st_reg st_a) -> ext R0 (st_reg st_b) (st_reg st_b') ->
  built3 R0 ms0 st_a st_b p r -> built3 R0 ms0 st_a' st_b' p r.
Proof.
  intros Ha Hb (m & m' & it & gd & H1 & H2 & H3 & H4 & H5 & H6).
  exists m, m', it, gd.
  split; [eapply ext_trans; eauto|]. split; [exact H2|]. split; [exact H3|]. split; [exact H4|].
  split; [exact H5|]. eapply ext_trans; eauto.
Qed.

Lemma resolve_pass_built3 R0 ms0 : collision_free R0 -> forall ps st st',
  Inv R0 (st_reg st) -> keyed (st_reg st) -> mods_rel (st_modules st) ms0 -> present R0 (st_reg st) ->
  resolve_pass st ps = inl st' ->
  Inv R0 (st_reg st') /\ keyed (st_reg st') /\ mods_rel (st_modules st') ms0 /\ present R0 (st_reg st') /\
  ext R0 (st_reg st) (st_reg st') /\
  forall p r, reg_get R0 p <> None -> resolved_at st' p r -> resolved_at st p r \/ built3 R0 ms0 st st' p r.
Proof.
  intros Hcf. induction ps as [|p ps IH]; intros st st' HI HK HM HJ H; cbn [resolve_pass] in H.
  - inversion H; subst. split; [exact HI|]. split; [exact HK|]. split; [exact HM|]. split; [exact HJ|].
    split; [apply ext_refl|]. intros; now left.
  - destruct (reg_get (st_reg st) p) as [it|] eqn:Hg; [|discriminate].
    destruct (it_state it) as [gd|r0] eqn:Hs; [|now apply IH].
    destruct (attempt st p gd) as [st1 o] eqn:Hat.
    destruct (attempt_inv _ _ _ _ _ _ _ Hcf HI HK Hg Hs Hat) as (HI1 & HK1 & Hext1 & Hback1).
    pose proof (attempt_mods_rel _ _ _ _ _ _ HM Hat) as HM1.
    pose proof (attempt_present _ _ _ _ _ _ _ Hcf HI HK Hg Hs Hat HJ) as HJ1.
    destruct (Inv_unresolved _ _ _ _ _ HI Hg Hs) as (it0 & Hg0 & Hs0).
    assert (reg_get R0 p <> None) as Hp0 by congruence.
    assert (reg_get (st_reg st1) p = Some it) as Hg1 by (rewrite Hback1; [exact Hg | exact Hp0]).
    destruct o as [r| |m|m]; try discriminate.
    + destruct (set_resolved_inv R0 st1 p it gd r Hcf HI1 HK1 Hg1 Hs) as (HI2 & HK2 & Hext2 & (it2 & Hg2 & Hs2) & Hoth).
      assert (mods_rel (st_modules (set_resolved st1 p r)) ms0) as HM2 by (rewrite set_resolved_modules; exact HM1).
      pose proof (set_resolved_present R0 st1 p it gd r Hcf HI1 HK1 Hg1 Hs HJ1) as HJ2.
      destruct (IH _ _ HI2 HK2 HM2 HJ2 H) as (HI' & HK' & HM' & HJ' & Hext' & Hall).
      split; [exact HI'|]. split; [exact HK'|]. split; [exact HM'|]. split; [exact HJ'|].
      split; [eauto using ext_trans|].
      intros q r' Hq Hres. destruct (Hall _ _ Hq Hres) as [(itq & Hgq & Hsq)|Hb].
      * destruct (path_eqb_spec q p) as [->|Hne].
        -- right. rewrite Hg2 in Hgq. inversion Hgq; subst itq. rewrite Hs2 in Hsq. inversion Hsq; subst r'.
           exists st, st1, it, gd. split; [apply ext_refl|].
           split; [split; [exact HI | split; [exact HK | split; [exact HM | exact HJ]]]|].
           split; [exact Hg|]. split; [exact Hs|]. split; [exact Hat|]. eapply ext_trans; eauto.
        -- left. exists itq. split; [|exact Hsq]. rewrite Hoth in Hgq by exact Hne.
           rewrite Hback1 in Hgq by exact Hq. exact Hgq.
      * right. eapply built3_weaken; [| apply ext_refl | exact Hb]. eauto using ext_trans.
    + destruct (IH _ _ HI1 HK1 HM1 HJ1 H) as (HI' & HK' & HM' & HJ' & Hext' & Hall).
      split; [exact HI'|]. split; [exact HK'|]. split; [exact HM'|]. split; [exact HJ'|].
      split; [eauto using ext_trans|].
      intros q r' Hq Hres. destruct (Hall _ _ Hq Hres) as [(itq & Hgq & Hsq)|Hb].
      * left. exists itq. split; [|exact Hsq]. rewrite Hback1 in Hgq by exact Hq. exact Hgq.
      * right. eapply built3_weaken; [| apply ext_refl | exact Hb]. exact Hext1.
Qed.

Lemma resolve_loop_built3 R0 ms0 order : collision_free R0 -> forall fuel st st',
  Inv R0 (st_reg st) -> keyed (st_reg st) -> mods_rel (st_modules st) ms0 -> present R0 (st_reg st) ->
  resolve_loop order fuel st = BOk st' ->
  Inv R0 (st_reg st') /\ present R0 (st_reg st') /\ mods_rel (st_modules st') ms0 /\
  ext R0 (st_reg st) (st_reg st') /\
  forall p r, reg_get R0 p <> None -> resolved_at st' p r -> resolved_at st p r \/ built3 R0 ms0 st st' p r.
Proof.
  intros Hcf. induction fuel as [|fuel IH]; intros st st' HI HK HM HJ H; cbn [resolve_loop] in H; [discriminate|].
  destruct (order (reg_unresolved (st_reg st))) as [|p0 ps] eqn:Eo.
  - inversion H; subst. split; [exact HI|]. split; [exact HJ|]. split; [exact HM|]. split; [apply ext_refl|].
    intros; now left.
  - destruct (resolve_pass st (p0 :: ps)) as [st1|res] eqn:Ep; [|subst; exfalso; eapply resolve_pass_abort_not_ok; eauto].
    destruct (Nat.eqb _ _); [discriminate|].
    destruct (resolve_pass_built3 R0 ms0 Hcf _ _ _ HI HK HM HJ Ep) as (HI1 & HK1 & HM1 & HJ1 & Hext1 & Hall1).
    destruct (IH _ _ HI1 HK1 HM1 HJ1 H) as (HI' & HJ' & HM' & Hext' & Hall').
    split; [exact HI'|]. split; [exact HJ'|]. split; [exact HM'|]. split; [eauto using ext_trans|].
    intros q r Hq Hres. destruct (Hall' _ _ Hq Hres) as [Hr1|Hb].
    + destruct (Hall1 _ _ Hq Hr1) as [Hr0|Hb1]; [left; exact Hr0|].
      right. eapply built3_weaken; [apply ext_refl | exact Hext' | exact Hb1].
    + right. eapply built3_weaken; [exact Hext1 | apply ext_refl | exact Hb].
Qed.

(** the state the resolution loop ends in *)
Lemma pyxis_resolve_loop order ptr mods st0 st :
  input_state ptr mods = Ok st0 -> pyxis_resolve order ptr mods = BOk st ->
  exists st1, resolve_loop order (S (List.length (reg_unresolved (st_reg st0)))) st0 = BOk st1 /\
              finish_build st1 = BOk st /\ st_reg st = st_reg st1.
Proof.
  intros Hin Hres. destruct (pyxis_resolve_input _ _ _ _ Hres) as (st0' & Hin' & Hb).
  rewrite Hin in Hin'. inversion Hin'; subst st0'. unfold sem_build in Hb.
  destruct (resolve_loop order _ st0) as [st1| | | |] eqn:El; try discriminate.
  exists st1. split; [reflexivity|]. split; [exact Hb | eapply finish_build_reg; eauto].
Qed.

(** *** every registry of an accepted build is reachable: the final one, the one in which an item
    was (successfully) attempted, and the one right after that attempt *)
Theorem build_registries_reach order ptr mods st0 st :
  input_state ptr mods = Ok st0 -> collision_free (st_reg st0) ->
  pyxis_resolve order ptr mods = BOk st ->
  let R0 := st_reg st0 in
  reach R0 (st_reg st) /\ ext R0 R0 (st_reg st) /\
  forall p it0 gd it r,
    reg_get R0 p = Some it0 -> it_state it0 = Unresolved gd ->
    reg_get (st_reg st) p = Some it -> it_state it = Resolved r ->
    exists st_mid st_mid',
      attempt st_mid p gd = (st_mid', Ok r) /\
      reach R0 (st_reg st_mid) /\ reach R0 (st_reg st_mid') /\
      ext R0 R0 (st_reg st_mid) /\ ext R0 (st_reg st_mid) (st_reg st_mid') /\
      ext R0 (st_reg st_mid') (st_reg st) /\
      mods_rel (st_modules st_mid) (st_modules st0).
Proof.
  intros Hin Hcf Hres R0. subst R0.
  destruct (pyxis_resolve_loop _ _ _ _ _ Hin Hres) as (st1 & El & _ & Hreg). rewrite Hreg.
  pose proof (input_state_keyed _ _ _ Hin) as HK0.
  destruct (resolve_loop_built3 (st_reg st0) (st_modules st0) order Hcf _ _ _ (Inv_init _) HK0 (mods_rel_refl _)
                                (present_init _) El) as (HI1 & HJ1 & _ & Hext & Hall).
  split; [split; assumption|]. split; [exact Hext|].
  intros p it0 gd it r Hg0 Hs0 Hg Hs.
  destruct (Hall p r) as [(it0' & Hg0' & Hs0')|(m & m' & itm & gdm & H1 & H2 & H3 & H4 & H5 & H6)].
  - rewrite Hg0; discriminate.
  - exists it; auto.
  - rewrite Hg0 in Hg0'. inversion Hg0'; subst. congruence.
  - destruct H2 as (H2 & H2k & H2m & H2j).
    destruct (Inv_unresolved _ _ _ _ _ H2 H3 H4) as (it0' & Hg0' & Hs0').
    rewrite Hg0 in Hg0'. inversion Hg0'; subst it0'. rewrite Hs0 in Hs0'. inversion Hs0'; subst gdm.
    destruct (attempt_inv _ _ _ _ _ _ _ Hcf H2 H2k H3 H4 H5) as (HIm' & _ & Hmm & _).
    pose proof (attempt_present _ _ _ _ _ _ _ Hcf H2 H2k H3 H4 H5 H2j) as HJm'.
    exists m, m'. split; [exact H5|]. split; [split; assumption|]. split; [split; assumption|].
    split; [exact H1|]. split; [exact Hmm|]. split; [exact H6 | exact H2m].
Qed.

(** ** 1. STABILITY of a binding *)
(** the type obtained by binding every name of a written type with [sel] *)
Fixpoint bind_gtype (sel : string -> option path) (t : gtype) : option stype :=
  match t with
  | GConstPtr t' => option_map TConstPtr (bind_gtype sel t')
  | GMutPtr t' => option_map TMutPtr (bind_gtype sel t')
  | GArray t' n => option_map (fun x => TArray x n) (bind_gtype sel t')
  | GIdent s => option_map TRaw (sel s)
  | GUnknown n => Some (padding_type n)
  end.

Lemma bind_gtype_ext sel sel' : (forall s, sel s = sel' s) -> forall t, bind_gtype sel t = bind_gtype sel' t.
Proof. intros H. induction t; cbn [bind_gtype]; try (now rewrite IHt); [now rewrite H | reflexivity]. Qed.

(** [C11_main], lifted to written types: pointers and arrays wrap the binding of their element *)
Theorem resolve_gtype_spec R modpath uses : reg_has R modpath = false -> forall t,
  resolve_gtype R (modpath :: uses) t = bind_gtype (lookup_spec (reg_has R) modpath uses) t.
Proof.
  intros Hm. induction t; cbn [resolve_gtype bind_gtype]; try (now rewrite IHt); [|reflexivity].
  now apply resolve_string_spec.
Qed.

(** [lookup_spec] only asks about clean paths when the scope and the name are clean *)
Lemma lookup_spec_clean has has' modpath uses name :
  (forall c, clean_path c = true -> has c = has' c) ->
  forallb clean_path (modpath :: uses) = true -> ends_vft name = false ->
  lookup_spec has modpath uses name = lookup_spec has' modpath uses name.
Proof.
  intros H Hs Hn. cbn [forallb] in Hs. apply andb_prop in Hs as [_ Hu]. rewrite forallb_forall in Hu.
  assert (forall ip, clean_path (path_join ip name) = true) as Hj.
  { intros ip. unfold clean_path. now rewrite path_last_join, Hn. }
  unfold lookup_spec.
  assert (filter has uses = filter has' uses) as -> by (apply filter_ext_in; intros; apply H; auto).
  assert (filter (fun u => negb (has u)) uses = filter (fun u => negb (has' u)) uses) as ->
      by (apply filter_ext_in; intros; f_equal; apply H; auto).
  destruct (find _ (rev _)); [reflexivity|].
  rewrite (H [name]) by (apply (Hj [])). rewrite (H (path_join modpath name)) by apply Hj.
  destruct (has' [name]); [reflexivity|]. destruct (has' (path_join modpath name)); [reflexivity|].
  induction (filter _ uses) as [|u l IH]; cbn [map find]; [reflexivity|].
  rewrite (H (path_join u name)) by apply Hj. destruct (has' _); [reflexivity | exact IH].
Qed.

Section Stable.
  Variable R0 : registry.

  (** a clean name, looked up from a clean scope in any registry of the build, binds as in the
      registry of the input *)
  Theorem binding_stable R scope n :
    reach R0 R -> forallb clean_path scope = true -> ends_vft n = false ->
    resolve_string R scope n = resolve_string R0 scope n.
  Proof. intros HR. apply resolve_string_reach. now apply reach_chas. Qed.

  (** ... i.e. as the four rules say, applied to the definitions of the input *)
  Theorem binding_stable_spec R modpath uses n :
    reach R0 R -> forallb clean_path (modpath :: uses) = true -> ends_vft n = false ->
    reg_has R0 modpath = false ->
    resolve_string R (modpath :: uses) n = option_map TRaw (lookup_spec (reg_has R0) modpath uses n).
  Proof.
    intros HR Hs Hn Hm. rewrite (binding_stable _ _ _ HR Hs Hn). now apply resolve_string_spec.
  Qed.

  (** the same for written types (pointers, arrays, [unknown<n>]) *)
  Theorem binding_stable_gtype R scope t :
    reach R0 R -> forallb clean_path scope = true -> clean_gtype t = true ->
    resolve_gtype R scope t = resolve_gtype R0 scope t.
  Proof. intros HR Hs Hc. apply resolve_gtype_reach; auto. now apply reach_chas. Qed.

  Theorem binding_stable_gtype_spec R modpath uses t :
    reach R0 R -> forallb clean_path (modpath :: uses) = true -> clean_gtype t = true ->
    reg_has R0 modpath = false ->
    resolve_gtype R (modpath :: uses) t = bind_gtype (lookup_spec (reg_has R0) modpath uses) t.
  Proof.
    intros HR Hs Hc Hm. rewrite (binding_stable_gtype _ _ _ HR Hs Hc). now apply resolve_gtype_spec.
  Qed.

  (** the set of keys the rules look at is the same, so the rules themselves may be read in any
      registry of the build *)
  Theorem lookup_spec_stable R modpath uses n :
    reach R0 R -> forallb clean_path (modpath :: uses) = true -> ends_vft n = false ->
    lookup_spec (reg_has R) modpath uses n = lookup_spec (reg_has R0) modpath uses n.
  Proof. intros HR. apply lookup_spec_clean. intros c Hc. now apply reach_clean_has. Qed.

  (** what it binds to is an item of the input, present (under the same path) in every registry of
      the build *)
  Theorem binding_is_input_item R scope n p :
    reach R0 R -> forallb clean_path scope = true -> ends_vft n = false ->
    resolve_string R scope n = Some (TRaw p) ->
    clean_path p = true /\ reg_get R0 p <> None /\
    forall R', reach R0 R' -> reg_has R' p = true.
  Proof.
    intros HR Hs Hn H. pose proof (resolve_string_clean _ _ _ _ Hs Hn H) as Hc.
    pose proof (resolve_string_has _ _ _ _ H) as Hh.
    split; [exact Hc|]. split.
    - exact (has_user R0 R p (reach_chas _ _ HR) Hc Hh).
    - intros R' HR'. rewrite (reach_clean_has _ _ _ HR' Hc), <- (reach_clean_has _ _ _ HR Hc). exact Hh.
  Qed.

  (** the statement of the gap: the binding made in an intermediate registry is the binding in the
      final registry *)
  Theorem C11_binding_stable R_mid R_final scope n t :
    reach R0 R_mid -> reach R0 R_final -> forallb clean_path scope = true -> ends_vft n = false ->
    resolve_string R_mid scope n = Some t -> resolve_string R_final scope n = Some t.
  Proof.
    intros Hm Hf Hs Hn H. rewrite (binding_stable _ _ _ Hf Hs Hn), <- (binding_stable _ _ _ Hm Hs Hn). exact H.
  Qed.

  Theorem C11_binding_stable_gtype R_mid R_final scope t ty :
    reach R0 R_mid -> reach R0 R_final -> forallb clean_path scope = true -> clean_gtype t = true ->
    resolve_gtype R_mid scope t = Some ty -> resolve_gtype R_final scope t = Some ty.
  Proof.
    intros Hm Hf Hs Hc H.
    rewrite (binding_stable_gtype _ _ _ Hf Hs Hc), <- (binding_stable_gtype _ _ _ Hm Hs Hc). exact H.
  Qed.
End Stable.

(** *** the clean side condition, for the modules and descriptions of an input state *)
Lemma clean_state_module st0 k m :
  clean_stateb st0 = true -> alookup k (st_modules st0) = Some m -> clean_module m = true.
Proof.
  intros Hcl Hm. destruct (clean_stateb_sound _ Hcl) as [H _].
  destruct (alookup_in _ _ _ Hm) as (k' & Hin & _). exact (H _ Hin).
Qed.

Lemma clean_module_scope m : clean_module m = true -> forallb clean_path (module_scope m) = true.
Proof. unfold clean_module. intros H. apply andb_prop in H as [H _]. apply andb_prop in H as [H _]. exact H. Qed.

Lemma clean_state_def st0 p it gd :
  clean_stateb st0 = true -> reg_get (st_reg st0) p = Some it -> it_state it = Unresolved gd ->
  clean_def gd = true.
Proof. intros Hcl. destruct (clean_stateb_sound _ Hcl) as [_ H]. apply H. Qed.

(** STABILITY, for an accepted build: the module [m] of the input, a clean name, the registry
    [R_mid] of any successful attempt (or any other [reach]able registry) and the final registry *)
Theorem C11_binding_stable_whole_build order ptr mods st0 st k m n :
  input_state ptr mods = Ok st0 -> collision_free (st_reg st0) -> clean_stateb st0 = true ->
  pyxis_resolve order ptr mods = BOk st ->
  alookup k (st_modules st0) = Some m -> ends_vft n = false ->
  let R0 := st_reg st0 in
  forall R_mid, reach R0 R_mid ->
    resolve_string R_mid (module_scope m) n = resolve_string R0 (module_scope m) n /\
    resolve_string (st_reg st) (module_scope m) n = resolve_string R0 (module_scope m) n /\
    (reg_has R0 (m_path m) = false ->
     resolve_string R_mid (module_scope m) n
     = option_map TRaw (lookup_spec (reg_has R0) (m_path m) (gm_uses (m_ast m)) n) /\
     resolve_string (st_reg st) (module_scope m) n
     = option_map TRaw (lookup_spec (reg_has R0) (m_path m) (gm_uses (m_ast m)) n) /\
     lookup_spec (reg_has (st_reg st)) (m_path m) (gm_uses (m_ast m)) n
     = lookup_spec (reg_has R0) (m_path m) (gm_uses (m_ast m)) n).
Proof.
  intros Hin Hcf Hcl Hres Hm Hn R0 R_mid HR.
  destruct (build_registries_reach _ _ _ _ _ Hin Hcf Hres) as (HRf & _ & _).
  pose proof (clean_module_scope _ (clean_state_module _ _ _ Hcl Hm)) as Hs.
  split; [now apply binding_stable|]. split; [now apply binding_stable|].
  intros Hmp. unfold module_scope in *. split; [now apply binding_stable_spec|].
  split; [now apply binding_stable_spec | now apply lookup_spec_stable].
Qed.

(** the gap, closed, in the vocabulary of [pyxis_resolve_items]: every resolved declared item was produced
    by one attempt in a registry [R_mid] (and left the registry [R_mid']); whatever a clean name of any
    module of the input was bound to there, it is bound to in the final registry and in the input *)
Theorem C11_attempt_binding_is_final order ptr mods st0 st p it0 gd it r :
  input_state ptr mods = Ok st0 -> collision_free (st_reg st0) -> clean_stateb st0 = true ->
  pyxis_resolve order ptr mods = BOk st ->
  reg_get (st_reg st0) p = Some it0 -> it_state it0 = Unresolved gd ->
  reg_get (st_reg st) p = Some it -> it_state it = Resolved r ->
  let R0 := st_reg st0 in
  exists st_mid st_mid',
    attempt st_mid p gd = (st_mid', Ok r) /\
    ext R0 R0 (st_reg st_mid) /\ ext R0 (st_reg st_mid) (st_reg st_mid') /\ ext R0 (st_reg st_mid') (st_reg st) /\
    forall k m n t, alookup k (st_modules st0) = Some m -> ends_vft n = false ->
      resolve_string (st_reg st_mid) (module_scope m) n = Some t \/
      resolve_string (st_reg st_mid') (module_scope m) n = Some t ->
      resolve_string (st_reg st) (module_scope m) n = Some t /\ resolve_string R0 (module_scope m) n = Some t.
Proof.
  intros Hin Hcf Hcl Hres Hg0 Hs0 Hg Hs R0. subst R0.
  destruct (build_registries_reach _ _ _ _ _ Hin Hcf Hres) as (HRf & _ & Hall).
  destruct (Hall _ _ _ _ _ Hg0 Hs0 Hg Hs) as (m & m' & Hat & HRm & HRm' & Hext0 & Hmm' & Hext & _).
  exists m, m'. repeat (split; [assumption|]).
  intros k md n t Hmd Hn H.
  pose proof (clean_module_scope _ (clean_state_module _ _ _ Hcl Hmd)) as Hcs.
  assert (resolve_string (st_reg st0) (module_scope md) n = Some t) as H0.
  { destruct H as [H|H]; [rewrite <- (binding_stable _ _ _ _ HRm Hcs Hn) | rewrite <- (binding_stable _ _ _ _ HRm' Hcs Hn)];
      exact H. }
  split; [|exact H0]. now rewrite (binding_stable _ _ _ _ HRf Hcs Hn).
Qed.

(** ** 2. FIELDS *)
Definition is_field_stmt (s : gstatement) : bool :=
  match gs_field s with GField _ _ _ => true | GVftable _ => false end.

(** the pending entry [x] is the field statement [s], with its type read in [R] from [scope] *)
Definition stmt_field (R : registry) (scope : list path) (s : gstatement) (x : option N * region) : Prop :=
  exists v name t, gs_field s = GField v name t /\
    r_name (snd x) = (if String.eqb name "_" then None else Some name) /\ r_vis (snd x) = v /\
    resolve_gtype R scope t = Some (r_type (snd x)).

(** [process_statement] turns the field statements, in order, into the pending list *)
Lemma process_statements_fields R scope : forall stmts idx pend vfs n pending' vfs',
  foldM (process_statement R scope) stmts (idx, (pend, vfs)) = Ok (n, (pending', vfs')) ->
  exists new, pending' = pend ++ new /\ Forall2 (stmt_field R scope) (filter is_field_stmt stmts) new.
Proof.
  induction stmts as [|s stmts IH]; intros idx pend vfs n pending' vfs' H; cbn [foldM] in H.
  - inversion H; subst. exists []. split; [now rewrite app_nil_r | constructor].
  - inv_bind H. destruct a as [idx1 [pend1 vfs1]].
    unfold process_statement in Ha. cbn [filter]. unfold is_field_stmt at 1.
    destruct (gs_field s) as [v name t|gfs] eqn:Ef.
    + inv_bind Ha. inv_bind Ha. destruct (resolve_gtype R scope t) as [t'|] eqn:Et; [|discriminate].
      inversion Ha; subst idx1 pend1 vfs1. clear Ha.
      destruct (IH _ _ _ _ _ _ H) as (new & -> & Hall).
      eexists (_ :: new). split; [rewrite <- app_assoc; reflexivity|]. constructor; [|exact Hall].
      exists v, name, t. cbn [snd r_name r_vis r_type]. auto.
    + destruct (negb _); [discriminate|]. inv_bind Ha. inv_bind Ha. inversion Ha; subst idx1 pend1 vfs1.
      eapply IH; eauto.
Qed.

Lemma Forall2_and {A B} (P Q : A -> B -> Prop) : forall l l',
  Forall2 P l l' -> Forall2 Q l l' -> Forall2 (fun a b => P a b /\ Q a b) l l'.
Proof.
  induction 1 as [|a b l l' Hab _ IH]; intros HQ; [constructor|].
  inversion HQ; subst. constructor; auto.
Qed.

Lemma Forall2_impl {A B} (P Q : A -> B -> Prop) : (forall a b, P a b -> Q a b) ->
  forall l l', Forall2 P l l' -> Forall2 Q l l'.
Proof. intros H. induction 1; constructor; auto. Qed.

Lemma Forall2_in_r {A B} (P : A -> B -> Prop) : forall l l' b,
  Forall2 P l l' -> In b l' -> exists a, In a l /\ P a b.
Proof.
  induction 1 as [|a b0 l l' Hab _ IH]; intros Hin; [destruct Hin|].
  destruct Hin as [<-|Hin]; [exists a; split; [now left | exact Hab]|].
  destruct (IH Hin) as (a' & Ha' & HP). exists a'. split; [now right | exact HP].
Qed.

Lemma Forall2_in_l {A B} (P : A -> B -> Prop) : forall l l' a,
  Forall2 P l l' -> In a l -> exists b, In b l' /\ P a b.
Proof.
  induction 1 as [|a0 b l l' Hab _ IH]; intros Hin; [destruct Hin|].
  destruct Hin as [<-|Hin]; [exists b; split; [now left | exact Hab]|].
  destruct (IH Hin) as (b' & Hb' & HP). exists b'. split; [now right | exact HP].
Qed.

(** every declared field that is kept has a declared offset *)
Lemma declared_offsets_in R : forall pending last addr rg,
  In (addr, rg) pending -> ignored R rg = false -> exists off, In (off, rg) (declared_offsets R last pending).
Proof.
  induction pending as [|[a r0] pending IH]; intros last addr rg Hin Hig; [destruct Hin|].
  cbn [declared_offsets]. destruct Hin as [E|Hin].
  - inversion E; subst a r0. rewrite Hig. eexists. left. reflexivity.
  - destruct (IH (match a with Some a0 => a0 | None => last end + fst (region_sa R r0))%N _ _ Hin Hig) as (off & Hoff).
    exists off. apply in_or_app. now right.
Qed.

(** the pending entry [x] is the field statement [s] of a type of module [m0]; its type is what the
    written type denotes in the input registry, in the final registry, and under the four rules *)
Definition stmt_field_bound (R0 R : registry) (m0 : smodule) (s : gstatement) (x : option N * region) : Prop :=
  exists v name t, gs_field s = GField v name t /\
    r_name (snd x) = (if String.eqb name "_" then None else Some name) /\ r_vis (snd x) = v /\
    resolve_gtype R0 (module_scope m0) t = Some (r_type (snd x)) /\
    resolve_gtype R (module_scope m0) t = Some (r_type (snd x)) /\
    (reg_has R0 (m_path m0) = false ->
     bind_gtype (lookup_spec (reg_has R0) (m_path m0) (gm_uses (m_ast m0))) t = Some (r_type (snd x))).

Local Open Scope N_scope.

Theorem C11_fields_whole_build order ptr mods st0 st p it0 gd td0 it r parent m0 :
  input_state ptr mods = Ok st0 -> collision_free (st_reg st0) -> clean_stateb st0 = true ->
  pyxis_resolve order ptr mods = BOk st ->
  reg_get (st_reg st0) p = Some it0 -> it_state it0 = Unresolved gd -> gi_inner gd = GIType td0 ->
  reg_get (st_reg st) p = Some it -> it_state it = Resolved r ->
  path_parent p = Some parent -> alookup parent (st_modules st0) = Some m0 ->
  let R0 := st_reg st0 in
  let R := st_reg st in
  let scope := module_scope m0 in
  exists td n pending vfs start,
    rs_inner r = IType td /\
    (* the declared fields, read in the input registry or in the final one: the same list *)
    foldM (process_statement R0 scope) (gt_stmts td0) (O, ([], None)) = Ok (n, (pending, vfs)) /\
    foldM (process_statement R scope) (gt_stmts td0) (O, ([], None)) = Ok (n, (pending, vfs)) /\
    Forall2 (stmt_field_bound R0 R m0) (filter is_field_stmt (gt_stmts td0)) pending /\
    (* each has a size and an alignment in the final registry *)
    Forall (fun x => exists s a, size_of R (r_type (snd x)) = Some s /\ align_of R (r_type (snd x)) = Some a)
           pending /\
    (* C01 with the declared fields tied to the input: the named kept fields are regions of the final
       item, at their declared offsets *)
    let fs := map (region_sa R) (td_regions td) in
    (start = 0 \/ (start = reg_ptr R /\
                   exists ty, hd_error (td_regions td) = Some (vftable_region_of (TConstPtr ty)))) /\
    Forall (fun x => r_name (snd x) <> None ->
                     In x (combine (field_offsets (td_packed td) (rs_align r) fs) (td_regions td)))
           (declared_offsets R start pending) /\
    Forall (fun x => r_name (snd x) <> None -> ignored R (snd x) = false ->
                     exists off, In (off, snd x)
                                    (combine (field_offsets (td_packed td) (rs_align r) fs) (td_regions td)))
           pending.
Proof.
  intros Hin Hcf Hcl Hres Hg0 Hs0 Hty Hg Hs Hpar0 Hmod0 R0 R scope.
  destruct (build_registries_reach _ _ _ _ _ Hin Hcf Hres) as (HRf & _ & Hall).
  destruct (Hall _ _ _ _ _ Hg0 Hs0 Hg Hs) as (m & m' & Hat & HRm & HRm' & Hext0 & Hmm' & Hext & HM).
  unfold attempt in Hat. rewrite Hty in Hat.
  assert (reg_u8 (st_reg m')) as Hu8.
  { eapply reg_u8_ext; [exact Hmm'|]. eapply reg_u8_ext; [exact Hext0|]. eapply input_state_u8; eauto. }
  destruct (type_build_inv _ _ _ _ _ _ Hat) as
      (parent' & module & doc & ta & n & pending & vfs & regions & vt & size & funcs & A &
       Hpar & Hmod & Hta & Hst & Hrr & Hca & Hr).
  rewrite Hpar0 in Hpar. inversion Hpar; subst parent'.
  destruct (mods_rel_lookup _ _ _ _ HM Hmod) as (m0' & Hm0 & (Hpath & Hast & _)).
  rewrite Hmod0 in Hm0. inversion Hm0; subst m0'.
  assert (module_scope module = scope) as Hscope by (unfold scope, module_scope; congruence).
  rewrite Hscope in Hst.
  pose proof (clean_module_scope _ (clean_state_module _ _ _ Hcl Hmod0)) as Hcs. fold scope in Hcs.
  assert (forallb clean_stmt (gt_stmts td0) = true) as Hcd.
  { pose proof (clean_state_def _ _ _ _ Hcl Hg0 Hs0) as Hd. unfold clean_def in Hd. now rewrite Hty in Hd. }
  rewrite (process_statements_reach R0 _ (reach_chas _ _ HRm) _ Hcs _ _ Hcd) in Hst.
  pose proof Hst as HstR. rewrite <- (process_statements_reach R0 _ (reach_chas _ _ HRf) _ Hcs _ _ Hcd) in HstR.
  destruct (process_statements_fields _ _ _ _ _ _ _ _ _ Hst) as (new0 & E0 & F0).
  destruct (process_statements_fields _ _ _ _ _ _ _ _ _ HstR) as (new1 & E1 & F1).
  cbn [app] in E0, E1. subst new0 new1.
  destruct (resolve_regions_offsets _ _ _ _ _ _ _ _ _ _ Hrr Hu8) as (start & Hstart & Hall').
  destruct (resolve_regions_size _ _ _ _ _ _ _ _ _ _ Hrr) as (Hsz & _ & _).
  pose proof (resolve_regions_sizes _ _ _ _ _ _ _ _ _ _ Hrr) as Hsized.
  pose proof (resolve_regions_pending_sized _ _ _ _ _ _ _ _ _ _ Hrr) as Hpsized.
  exists {| td_regions := regions; td_doc := doc; td_assoc := funcs; td_vftable := vt;
            td_singleton := ta_singleton ta; td_copyable := ta_copyable ta;
            td_cloneable := ta_cloneable ta; td_defaultable := ta_defaultable ta;
            td_packed := ta_packed ta |}, n, pending, vfs, start.
  subst r. cbn [rs_inner rs_align td_regions td_packed].
  split; [reflexivity|]. split; [exact Hst|]. split; [exact HstR|].
  split.
  { eapply Forall2_impl; [|exact (Forall2_and _ _ _ _ F0 F1)].
    intros s x ((v & name & t & Hf & Hn & Hv & Ht0) & (v' & name' & t' & Hf' & _ & _ & Ht1)).
    rewrite Hf in Hf'. inversion Hf'; subst v' name' t'.
    exists v, name, t. repeat (split; [assumption|]).
    intros Hmp. unfold scope, module_scope in Ht0. rewrite resolve_gtype_spec in Ht0 by exact Hmp. exact Ht0. }
  split.
  { eapply Forall_impl; [|exact Hpsized]. intros x Hx. unfold sized in Hx.
    destruct (size_of (st_reg m') (r_type (snd x))) as [s|] eqn:Es; [|congruence].
    destruct (size_known_align_known _ _ _ Es) as [a Ea].
    exists s, a. split; [eapply size_of_ext; eauto | eapply align_of_ext; eauto]. }
  cbn zeta.
  assert (Forall (fun x => r_name (snd x) <> None ->
                     In x (combine (field_offsets (ta_packed ta) A (map (region_sa R) regions)) regions))
                 (declared_offsets R start pending)) as Hoffs.
  { unfold R. rewrite (map_region_sa_ext _ _ _ _ Hext Hsized), (declared_offsets_ext _ _ _ Hext _ _ Hpsized).
    assert (field_offsets (ta_packed ta) A (map (region_sa (st_reg m')) regions)
            = prefix_sums 0 (map (region_sa (st_reg m')) regions)) as ->.
    { unfold field_offsets. destruct (ta_packed ta) eqn:Ep.
      - rewrite packed_layout_sums. reflexivity.
      - destruct (compute_alignment_layout _ _ _ _ _ Hca Ep Hsz) as (-> & _). reflexivity. }
    exact Hall'. }
  split.
  { destruct Hext as [Hptr _]. unfold R. rewrite <- Hptr.
    destruct Hstart as [[-> _]|(-> & ty & fs & Hhd & _)]; [left; reflexivity | right; split; [reflexivity | eauto]]. }
  split; [exact Hoffs|].
  rewrite Forall_forall in Hoffs |- *. intros [addr rg] Hinx Hn Hig. cbn [snd] in *.
  destruct (declared_offsets_in R pending start addr rg Hinx Hig) as (off & Hoff).
  exists off. apply (Hoffs (off, rg) Hoff). exact Hn.
Qed.

(** *** one declared field.  [t] is the written type of the field [name] of the type [p] of module
    [m0]; [ty] is what it denotes -- in the input registry, in the final registry, and (when the module
    path is not itself an item path) under the four rules applied to the input's definitions; [sz],
    [al] are its size and alignment in the final registry; unless the field is dropped (a zero-sized
    array; or it is the anonymous [_]), the final item has a region of that name and type, at offset
    [off] of the Reference layout, and the layout uses exactly [(sz, al)] for it *)
Theorem C11_field_whole_build order ptr mods st0 st p it0 gd td0 it r parent m0 s v name t :
  input_state ptr mods = Ok st0 -> collision_free (st_reg st0) -> clean_stateb st0 = true ->
  pyxis_resolve order ptr mods = BOk st ->
  reg_get (st_reg st0) p = Some it0 -> it_state it0 = Unresolved gd -> gi_inner gd = GIType td0 ->
  reg_get (st_reg st) p = Some it -> it_state it = Resolved r ->
  path_parent p = Some parent -> alookup parent (st_modules st0) = Some m0 ->
  In s (gt_stmts td0) -> gs_field s = GField v name t ->
  let R0 := st_reg st0 in
  let R := st_reg st in
  let scope := module_scope m0 in
  exists td ty sz al,
    rs_inner r = IType td /\
    resolve_gtype R0 scope t = Some ty /\ resolve_gtype R scope t = Some ty /\
    (reg_has R0 (m_path m0) = false ->
     bind_gtype (lookup_spec (reg_has R0) (m_path m0) (gm_uses (m_ast m0))) t = Some ty) /\
    size_of R ty = Some sz /\ align_of R ty = Some al /\
    (name <> "_" -> (sz =? 0) && stype_is_array ty = false ->
     exists off rg,
       In (off, rg) (combine (field_offsets (td_packed td) (rs_align r) (map (region_sa R) (td_regions td)))
                             (td_regions td)) /\
       r_name rg = Some name /\ r_type rg = ty /\ r_vis rg = v /\ region_sa R rg = (sz, al)).
Proof.
  intros Hin Hcf Hcl Hres Hg0 Hs0 Hty Hg Hs Hpar0 Hmod0 Hs_in Hf R0 R scope.
  destruct (C11_fields_whole_build _ _ _ _ _ _ _ _ _ _ _ _ _ Hin Hcf Hcl Hres Hg0 Hs0 Hty Hg Hs Hpar0 Hmod0)
    as (td & n & pending & vfs & start & Hi & _ & _ & HF & Hsized & _ & _ & Hkept).
  cbn zeta in Hkept. fold R0 R in HF, Hsized, Hkept.
  assert (In s (filter is_field_stmt (gt_stmts td0))) as Hs_in'.
  { apply filter_In. split; [exact Hs_in|]. unfold is_field_stmt. now rewrite Hf. }
  destruct (Forall2_in_l _ _ _ _ HF Hs_in') as (x & Hx & (v' & name' & t' & Hf' & Hn & Hv & Ht0 & Ht1 & Hb)).
  rewrite Hf in Hf'. inversion Hf'; subst v' name' t'.
  rewrite Forall_forall in Hsized, Hkept.
  destruct (Hsized _ Hx) as (sz & al & Hsz & Hal).
  exists td, (r_type (snd x)), sz, al. repeat (split; [assumption|]).
  intros Hname Hkeep.
  assert ((name =? "_")%string = false) as Hne by (apply String.eqb_neq; exact Hname).
  rewrite Hne in Hn.
  destruct (Hkept _ Hx) as (off & Hoff).
  { rewrite Hn. discriminate. }
  { unfold ignored. fold R. now rewrite Hsz. }
  exists off, (snd x). split; [exact Hoff|]. repeat (split; [assumption || reflexivity|]).
  unfold region_sa. now rewrite Hsz, Hal.
Qed.

(** *** a field of a NAMED type: the rules select a definition [q] of the input; the final registry has
    it, resolved; the size and alignment the layout of the user uses are those of exactly that entry *)
Theorem C11_field_of_named_type order ptr mods st0 st p it0 gd td0 it r parent m0 s v name tn :
  input_state ptr mods = Ok st0 -> collision_free (st_reg st0) -> clean_stateb st0 = true ->
  pyxis_resolve order ptr mods = BOk st ->
  reg_get (st_reg st0) p = Some it0 -> it_state it0 = Unresolved gd -> gi_inner gd = GIType td0 ->
  reg_get (st_reg st) p = Some it -> it_state it = Resolved r ->
  path_parent p = Some parent -> alookup parent (st_modules st0) = Some m0 ->
  In s (gt_stmts td0) -> gs_field s = GField v name (GIdent tn) ->
  reg_has (st_reg st0) (m_path m0) = false ->
  let R0 := st_reg st0 in
  let R := st_reg st in
  exists td q itq rsq,
    rs_inner r = IType td /\
    lookup_spec (reg_has R0) (m_path m0) (gm_uses (m_ast m0)) tn = Some q /\
    lookup_spec (reg_has R) (m_path m0) (gm_uses (m_ast m0)) tn = Some q /\
    reg_get R0 q <> None /\
    resolve_string R (module_scope m0) tn = Some (TRaw q) /\
    reg_get R q = Some itq /\ item_resolved itq = Some rsq /\
    size_of R (TRaw q) = Some (rs_size rsq) /\ align_of R (TRaw q) = Some (rs_align rsq) /\
    (name <> "_" ->
     exists off rg,
       In (off, rg) (combine (field_offsets (td_packed td) (rs_align r) (map (region_sa R) (td_regions td)))
                             (td_regions td)) /\
       r_name rg = Some name /\ r_type rg = TRaw q /\ r_vis rg = v /\
       region_sa R rg = (rs_size rsq, rs_align rsq)).
Proof.
  intros Hin Hcf Hcl Hres Hg0 Hs0 Hty Hg Hs Hpar0 Hmod0 Hs_in Hf Hmp R0 R.
  destruct (C11_field_whole_build _ _ _ _ _ _ _ _ _ _ _ _ _ _ _ _ _ Hin Hcf Hcl Hres Hg0 Hs0 Hty Hg Hs Hpar0 Hmod0 Hs_in Hf)
    as (td & ty & sz & al & Hi & Ht0 & Ht1 & Hb & Hsz & Hal & Hkept).
  fold R0 R in Ht0, Ht1, Hb, Hsz, Hal, Hkept.
  specialize (Hb Hmp). cbn [bind_gtype] in Hb.
  destruct (lookup_spec (reg_has R0) (m_path m0) (gm_uses (m_ast m0)) tn) as [q|] eqn:El; [|discriminate].
  cbn [option_map] in Hb. inversion Hb; subst ty. cbn [resolve_gtype] in Ht0, Ht1.
  destruct (build_registries_reach _ _ _ _ _ Hin Hcf Hres) as (HRf & _ & _). fold R0 R in HRf.
  pose proof (clean_module_scope _ (clean_state_module _ _ _ Hcl Hmod0)) as Hcs.
  assert (ends_vft tn = false) as Hn.
  { pose proof (clean_state_def _ _ _ _ Hcl Hg0 Hs0) as Hd. unfold clean_def in Hd. rewrite Hty in Hd.
    rewrite forallb_forall in Hd. specialize (Hd _ Hs_in). unfold clean_stmt in Hd. rewrite Hf in Hd.
    cbn [clean_gtype] in Hd. now apply negb_true_iff in Hd. }
  destruct (binding_is_input_item R0 R _ _ _ HRf Hcs Hn Ht1) as (_ & Hq0 & _).
  cbn [size_of align_of] in Hsz, Hal.
  destruct (reg_get R q) as [itq|] eqn:Egq; [|discriminate].
  unfold item_size in Hsz. unfold item_align in Hal.
  destruct (item_resolved itq) as [rsq|] eqn:Er; [|discriminate]. cbn [option_map] in Hsz, Hal.
  inversion Hsz; subst sz. inversion Hal; subst al.
  exists td, q, itq, rsq. split; [exact Hi|]. split; [reflexivity|].
  split; [unfold module_scope in Hcs; now rewrite (lookup_spec_stable R0 R _ _ _ HRf Hcs Hn)|].
  split; [exact Hq0|]. split; [exact Ht1|]. split; [exact Egq|]. split; [exact Er|].
  split; [cbn [size_of]; rewrite Egq; unfold item_size; now rewrite Er|].
  split; [cbn [align_of]; rewrite Egq; unfold item_align; now rewrite Er|].
  intros Hname. apply Hkept; [exact Hname|]. cbn [stype_is_array]. apply andb_false_r.
Qed.

(** ** 3. FUNCTIONS: parameter and return types *)
Definition arg_bound (sel : string -> option path) (a : garg) (b : sarg) : Prop :=
  match a with
  | GConstSelf => b = SConstSelf
  | GMutSelf => b = SMutSelf
  | GNamed n t => exists ty, bind_gtype sel t = Some ty /\ b = SField n ty
  end.

(** the function record [sf] has the declared name, the declared arguments in order, each named
    argument with the type its written type denotes under [sel], and the declared return type *)
Definition fn_bound (sel : string -> option path) (f : gfunction) (sf : sfunction) : Prop :=
  sf_name sf = gf_name f /\ Forall2 (arg_bound sel) (gf_args f) (sf_args sf) /\
  match gf_ret f with
  | Some t => exists ty, bind_gtype sel t = Some ty /\ sf_ret sf = Some ty
  | None => sf_ret sf = None
  end.

Lemma function_build_bound R modpath uses isv f sf :
  reg_has R modpath = false -> function_build R (modpath :: uses) isv f = Ok sf ->
  fn_bound (lookup_spec (reg_has R) modpath uses) f sf.
Proof.
  intros Hm H. destruct (function_build_spec _ _ _ _ _ H) as (H1 & _ & _ & H4 & H5 & _).
  split; [exact H1|]. split.
  - eapply Forall2_impl; [|exact H4]. intros a b Hab. destruct a as [| |n t]; cbn [resolve_arg arg_bound] in *.
    + now inversion Hab.
    + now inversion Hab.
    + destruct (resolve_gtype R (modpath :: uses) t) as [ty|] eqn:Et; inversion Hab; subst b.
      exists ty. split; [|reflexivity]. now rewrite <- (resolve_gtype_spec R modpath uses Hm).
  - destruct (gf_ret f) as [t|]; [|exact H5]. destruct H5 as (ty & Ht & Hr). exists ty. split; [|exact Hr].
    now rewrite <- (resolve_gtype_spec R modpath uses Hm).
Qed.

(** the function record built from a declaration of module [m0]: the same in the input registry and in
    the final one, and (module path not an item path) bound by the four rules over the input *)
Definition fn_built_bound (R0 R : registry) (m0 : smodule) (isv : bool) (f : gfunction) (sf : sfunction) : Prop :=
  function_build R0 (module_scope m0) isv f = Ok sf /\
  function_build R (module_scope m0) isv f = Ok sf /\
  (reg_has R0 (m_path m0) = false ->
   fn_bound (lookup_spec (reg_has R0) (m_path m0) (gm_uses (m_ast m0))) f sf).

Lemma fn_built_bound_intro R0 R m0 isv f sf :
  function_build R0 (module_scope m0) isv f = Ok sf ->
  function_build R (module_scope m0) isv f = function_build R0 (module_scope m0) isv f ->
  fn_built_bound R0 R m0 isv f sf.
Proof.
  intros H0 HR. split; [exact H0|]. split; [now rewrite HR|].
  intros Hmp. unfold module_scope in H0. eapply function_build_bound; eauto.
Qed.

(** *** impl-block functions (C05): every function declared in the impl block of a type is, in the final
    registry item, the record [function_build] makes of it in the input registry = in the final one *)
Theorem C11_impl_functions_whole_build order ptr mods st0 st p it0 gd td0 it r parent m0 blk :
  input_state ptr mods = Ok st0 -> collision_free (st_reg st0) -> clean_stateb st0 = true ->
  pyxis_resolve order ptr mods = BOk st ->
  reg_get (st_reg st0) p = Some it0 -> it_state it0 = Unresolved gd -> gi_inner gd = GIType td0 ->
  reg_get (st_reg st) p = Some it -> it_state it = Resolved r ->
  path_parent p = Some parent -> alookup parent (st_modules st0) = Some m0 ->
  alookup p (m_impls m0) = Some blk ->
  exists td inherited own,
    rs_inner r = IType td /\ td_assoc td = inherited ++ own /\
    Forall2 (fn_built_bound (st_reg st0) (st_reg st) m0 false) (gb_fns blk) own.
Proof.
  intros Hin Hcf Hcl Hres Hg0 Hs0 Hty Hg Hs Hpar0 Hmod0 Hblk.
  destruct (build_registries_reach _ _ _ _ _ Hin Hcf Hres) as (HRf & _ & Hall).
  destruct (Hall _ _ _ _ _ Hg0 Hs0 Hg Hs) as (m & m' & Hat & HRm & HRm' & Hext0 & Hmm' & Hext & HM).
  unfold attempt in Hat. rewrite Hty in Hat.
  destruct (type_build_inv_assoc _ _ _ _ _ _ Hat) as
      (parent' & module & td & regions & acc1 & acc2 & Hpar & Hmod & Hi & _ & _ & Himpl & Hassoc).
  rewrite Hpar0 in Hpar. inversion Hpar; subst parent'.
  destruct (mods_rel_lookup _ _ _ _ HM Hmod) as (m0' & Hm0 & (Hpath & Hast & Himpls & _)).
  rewrite Hmod0 in Hm0. inversion Hm0; subst m0'.
  assert (module_scope module = module_scope m0) as Hscope by (unfold module_scope; congruence).
  rewrite Himpls, Hblk, Hscope in Himpl.
  destruct (FunctionLemmas_impl_kept _ _ _ _ _ Himpl) as (new & Hnew & Hall2).
  pose proof (clean_state_module _ _ _ Hcl Hmod0) as Hcm.
  pose proof (clean_module_scope _ Hcm) as Hcs.
  assert (forallb clean_fn (gb_fns blk) = true) as Hcb.
  { unfold clean_module in Hcm. apply andb_prop in Hcm as [Hcm _]. apply andb_prop in Hcm as [_ Hci].
    rewrite forallb_forall in Hci. destruct (alookup_in _ _ _ Hblk) as (k' & Hinb & _). apply (Hci _ Hinb). }
  rewrite forallb_forall in Hcb.
  exists td, (fst acc1), new. split; [exact Hi|]. split; [rewrite Hassoc; exact Hnew|].
  assert (forall f, In f (gb_fns blk) -> forall sf, function_build (st_reg m') (module_scope m0) false f = Ok sf ->
                    fn_built_bound (st_reg st0) (st_reg st) m0 false f sf) as Hone.
  { intros f Hf sf Hsf.
    rewrite (function_build_reach _ _ (reach_chas _ _ HRm') _ Hcs _ _ (Hcb _ Hf)) in Hsf.
    apply fn_built_bound_intro; [exact Hsf|].
    apply (function_build_reach _ _ (reach_chas _ _ HRf) _ Hcs _ _ (Hcb _ Hf)). }
  clear - Hall2 Hone. induction Hall2 as [|f sf fs sfs Hf _ IH]; constructor.
  - apply Hone; [now left | exact Hf].
  - apply IH. intros f' Hf'. apply Hone. now right.
Qed.

(** *** virtual functions (C04): the functions of the [vftable { ... }] block *)
Lemma convert_functions_built R scope sz gfs fs :
  convert_functions R scope sz gfs = Ok fs ->
  Forall (fun f => exists sf, function_build R scope true f = Ok sf /\ In sf fs) gfs.
Proof.
  unfold convert_functions. intros H. inv_bind H. rename a into out.
  destruct (convert_functions_slots _ _ _ _ _ Ha) as (idxs & pos & e & _ & _ & _ & _ & Hall & _).
  assert (forall sf, In sf out -> In sf fs) as Hsub.
  { intros sf Hsf. destruct sz as [s|]; [|inversion H; subst; exact Hsf].
    destruct (_ <? _)%N; [discriminate|]. inversion H; subst fs.
    destruct (pad_to_spec s out) as [-> _]. apply in_or_app. now left. }
  clear - Hall Hsub. induction Hall as [|f q fs' ps (sf & Hsf & Hnth) _ IH]; constructor; [|exact IH].
  exists sf. split; [exact Hsf|]. apply Hsub. eapply nth_error_In; eauto.
Qed.

Theorem C11_vftable_functions_whole_build order ptr mods st0 st p it0 gd td0 it r parent m0 s rest gfs :
  input_state ptr mods = Ok st0 -> collision_free (st_reg st0) -> clean_stateb st0 = true ->
  pyxis_resolve order ptr mods = BOk st ->
  reg_get (st_reg st0) p = Some it0 -> it_state it0 = Unresolved gd -> gi_inner gd = GIType td0 ->
  reg_get (st_reg st) p = Some it -> it_state it = Resolved r ->
  path_parent p = Some parent -> alookup parent (st_modules st0) = Some m0 ->
  gt_stmts td0 = s :: rest -> gs_field s = GVftable gfs ->
  exists sz fs td vt,
    foldM scan_vftable_size_attr (gs_attrs s) None = Ok sz /\
    convert_functions (st_reg st0) (module_scope m0) sz gfs = Ok fs /\
    convert_functions (st_reg st) (module_scope m0) sz gfs = Ok fs /\
    rs_inner r = IType td /\ td_vftable td = Some vt /\ vt_functions vt = fs /\
    Forall (fun f => exists sf, In sf fs /\ fn_built_bound (st_reg st0) (st_reg st) m0 true f sf) gfs.
Proof.
  intros Hin Hcf Hcl Hres Hg0 Hs0 Hty Hg Hs Hpar0 Hmod0 Hst Hf.
  destruct (build_registries_reach _ _ _ _ _ Hin Hcf Hres) as (HRf & _ & Hall).
  destruct (Hall _ _ _ _ _ Hg0 Hs0 Hg Hs) as (m & m' & Hat & HRm & HRm' & Hext0 & Hmm' & Hext & HM).
  unfold attempt in Hat. rewrite Hty in Hat.
  destruct (type_build_inv _ _ _ _ _ _ Hat) as
      (parent' & module & doc & ta & n & pending & vfs & regions & vt & size & funcs & A &
       Hpar & Hmod & Hta & Hstm & Hrr & Hca & Hr).
  rewrite Hpar0 in Hpar. inversion Hpar; subst parent'.
  destruct (mods_rel_lookup _ _ _ _ HM Hmod) as (m0' & Hm0 & (Hpath & Hast & _)).
  rewrite Hmod0 in Hm0. inversion Hm0; subst m0'.
  assert (module_scope module = module_scope m0) as Hscope by (unfold module_scope; congruence).
  rewrite Hscope, Hst in Hstm.
  destruct (process_statements_vfs_first _ _ _ _ _ _ _ _ Hf Hstm) as (sz & fs & -> & Hsz & Hconv).
  pose proof (clean_module_scope _ (clean_state_module _ _ _ Hcl Hmod0)) as Hcs.
  assert (forallb clean_fn gfs = true) as Hcg.
  { pose proof (clean_state_def _ _ _ _ Hcl Hg0 Hs0) as Hd. unfold clean_def in Hd. rewrite Hty, Hst in Hd.
    cbn [forallb] in Hd. apply andb_prop in Hd as [Hd _]. unfold clean_stmt in Hd. now rewrite Hf in Hd. }
  rewrite (convert_functions_reach _ _ (reach_chas _ _ HRm) _ Hcs _ _ Hcg) in Hconv.
  pose proof (convert_functions_reach _ _ (reach_chas _ _ HRf) _ Hcs sz _ Hcg) as HconvR.
  destruct (vftable_path_total _ _ Hpar0) as (vp & Hvp).
  destruct (resolve_regions_vfb _ _ _ _ _ _ _ _ _ _ Hrr) as (vr & Hvb).
  destruct (vftable_build_some _ _ _ _ _ _ _ _ _ Hvb Hvp) as (vit & bf & _ & _ & _ & Hvt).
  exists sz, fs. eexists. eexists. subst r. cbn [rs_inner td_vftable].
  split; [exact Hsz|]. split; [exact Hconv|]. split; [now rewrite HconvR|].
  split; [reflexivity|]. split; [exact Hvt|]. split; [reflexivity|].
  rewrite forallb_forall in Hcg.
  pose proof (convert_functions_built _ _ _ _ _ Hconv) as Hb. rewrite Forall_forall in Hb |- *.
  intros f Hfin. destruct (Hb _ Hfin) as (sf & Hsf & Hsfin). exists sf. split; [exact Hsfin|].
  apply fn_built_bound_intro; [exact Hsf|].
  apply (function_build_reach _ _ (reach_chas _ _ HRf) _ Hcs _ _ (Hcg _ Hfin)).
Qed.

(** ** 4. the base type of an enum *)
Theorem C11_enum_base_whole_build order ptr mods st0 st p it0 gd ed0 it r parent m0 :
  input_state ptr mods = Ok st0 -> collision_free (st_reg st0) -> clean_stateb st0 = true ->
  pyxis_resolve order ptr mods = BOk st ->
  reg_get (st_reg st0) p = Some it0 -> it_state it0 = Unresolved gd -> gi_inner gd = GIEnum ed0 ->
  reg_get (st_reg st) p = Some it -> it_state it = Resolved r ->
  path_parent p = Some parent -> alookup parent (st_modules st0) = Some m0 ->
  let R0 := st_reg st0 in
  let R := st_reg st in
  exists ed,
    rs_inner r = IEnum ed /\
    resolve_gtype R0 (module_scope m0) (ged_type ed0) = Some (ed_type ed) /\
    resolve_gtype R (module_scope m0) (ged_type ed0) = Some (ed_type ed) /\
    (reg_has R0 (m_path m0) = false ->
     bind_gtype (lookup_spec (reg_has R0) (m_path m0) (gm_uses (m_ast m0))) (ged_type ed0) = Some (ed_type ed)) /\
    size_of R (ed_type ed) = Some (rs_size r) /\ align_of R (ed_type ed) = Some (rs_align r).
Proof.
  intros Hin Hcf Hcl Hres Hg0 Hs0 Hty Hg Hs Hpar0 Hmod0 R0 R.
  destruct (build_registries_reach _ _ _ _ _ Hin Hcf Hres) as (HRf & _ & Hall).
  destruct (Hall _ _ _ _ _ Hg0 Hs0 Hg Hs) as (m & m' & Hat & HRm & HRm' & Hext0 & Hmm' & Hext & HM).
  fold R0 R in HRf. fold R0 in HRm.
  unfold attempt in Hat. rewrite Hty in Hat. inversion Hat as [[Hmm Hb]]. subst m'.
  destruct (enum_build_spec _ _ _ _ Hb) as (ed & es & module & Hi & Hmod & Ht & Hsz & Hal & _).
  assert (removelast p = parent) as Hrl.
  { unfold path_parent in Hpar0. destruct p; inversion Hpar0. reflexivity. }
  rewrite Hrl in Hmod.
  destruct (mods_rel_lookup _ _ _ _ HM Hmod) as (m0' & Hm0 & (Hpath & Hast & _)).
  rewrite Hmod0 in Hm0. inversion Hm0; subst m0'.
  assert (module_scope module = module_scope m0) as Hscope by (unfold module_scope; congruence).
  rewrite Hscope in Ht.
  pose proof (clean_module_scope _ (clean_state_module _ _ _ Hcl Hmod0)) as Hcs.
  assert (clean_gtype (ged_type ed0) = true) as Hcd.
  { pose proof (clean_state_def _ _ _ _ Hcl Hg0 Hs0) as Hd. unfold clean_def in Hd. now rewrite Hty in Hd. }
  rewrite (binding_stable_gtype R0 _ _ _ HRm Hcs Hcd) in Ht.
  exists ed. split; [exact Hi|]. split; [exact Ht|].
  split; [now rewrite (binding_stable_gtype R0 _ _ _ HRf Hcs Hcd)|].
  split.
  { intros Hmp. unfold module_scope in Ht. now rewrite <- (resolve_gtype_spec R0 _ _ Hmp). }
  split; [eapply size_of_ext; eauto | eapply align_of_ext; eauto].
Qed.

(** ** 5. extern values: they are resolved at the very end ([finish_build]), in the final registry *)
Theorem C11_extern_values_whole_build order ptr mods st0 st k m' :
  input_state ptr mods = Ok st0 -> collision_free (st_reg st0) -> clean_stateb st0 = true ->
  pyxis_resolve order ptr mods = BOk st ->
  In (k, m') (st_modules st) ->
  let R0 := st_reg st0 in
  let R := st_reg st in
  exists m0,
    In (k, m0) (st_modules st0) /\ m_path m' = m_path m0 /\ m_ast m' = m_ast m0 /\
    Forall2 (fun ev ev' =>
               exists ty,
                 resolve_gtype R0 (module_scope m0) (ev_gtype ev) = Some ty /\
                 resolve_gtype R (module_scope m0) (ev_gtype ev) = Some ty /\
                 (reg_has R0 (m_path m0) = false ->
                  bind_gtype (lookup_spec (reg_has R0) (m_path m0) (gm_uses (m_ast m0))) (ev_gtype ev) = Some ty) /\
                 ev_type ev' = Some ty /\ ev_address ev' = ev_address ev /\
                 ev_name ev' = ev_name ev /\ ev_vis ev' = ev_vis ev)
            (m_extern_values m0) (m_extern_values m').
Proof.
  intros Hin Hcf Hcl Hres Hkm R0 R.
  destruct (build_registries_reach _ _ _ _ _ Hin Hcf Hres) as (HRf & _ & _). fold R0 R in HRf.
  destruct (pyxis_resolve_loop _ _ _ _ _ Hin Hres) as (st1 & El & Hfin & Hreg).
  pose proof (input_state_keyed _ _ _ Hin) as HK0.
  destruct (resolve_loop_built3 R0 (st_modules st0) order Hcf _ _ _ (Inv_init _) HK0 (mods_rel_refl _)
                                (present_init _) El) as (_ & _ & HM & _ & _).
  pose proof (mapM_ok _ _ _ (OutputIndep.finish_build_mods _ _ Hfin)) as F.
  destruct (Forall2_in_r _ _ _ _ F Hkm) as ([k1 m1] & Hin1 & Hf1). cbn [fst snd] in Hf1.
  inv_bind Hf1. inversion Hf1; subst k1 a. clear Hf1.
  destruct (Forall2_in_l _ _ _ _ HM Hin1) as ([k0 m0] & Hin0 & Hk & (Hpath & Hast & _ & Hevs)).
  cbn [fst snd] in *. subst k0.
  assert (clean_module m0 = true) as Hcm.
  { destruct (clean_stateb_sound _ Hcl) as [H _]. exact (H _ Hin0). }
  pose proof (clean_module_scope _ Hcm) as Hcs.
  assert (module_scope m1 = module_scope m0) as Hscope by (unfold module_scope; congruence).
  unfold resolve_extern_values in Ha. inv_bind Ha. inversion Ha; subst m'. clear Ha.
  cbn [m_path m_ast m_extern_values].
  exists m0. split; [exact Hin0|]. split; [exact Hpath|]. split; [exact Hast|].
  rewrite <- Hevs. pose proof (mapM_ok _ _ _ Ha0) as F2. rewrite <- Hreg, Hscope in F2. fold R in F2.
  assert (forallb (fun ev => clean_gtype (ev_gtype ev)) (m_extern_values m1) = true) as Hce.
  { rewrite Hevs. unfold clean_module in Hcm. apply andb_prop in Hcm as [_ Hcm]. apply andb_prop in Hcm as [_ Hcm].
    exact Hcm. }
  rewrite forallb_forall in Hce.
  clear - F2 Hce HRf Hcs. induction F2 as [|ev ev' l l' Hx _ IH]; constructor.
  - destruct (resolve_gtype R (module_scope m0) (ev_gtype ev)) as [ty|] eqn:Et; inversion Hx; subst ev'.
    cbn [ev_type ev_address ev_name ev_vis]. exists ty.
    assert (resolve_gtype R0 (module_scope m0) (ev_gtype ev) = Some ty) as Ht0.
    { rewrite <- (binding_stable_gtype R0 R _ _ HRf Hcs (Hce _ (or_introl eq_refl))). exact Et. }
    split; [exact Ht0|]. split; [reflexivity|]. split; [|auto].
    intros Hmp. unfold module_scope in Ht0. now rewrite <- (resolve_gtype_spec R0 _ _ Hmp).
  - apply IH. intros ev0 Hev0. apply Hce. now right.
Qed.

(** ** why [reach] and not only [ext]: the two [ext] facts that the whole-build theorems of WholeBuild.v
    export about the registry of an attempt do not, on their own, fix a binding.  [ext] only says that
    what is RESOLVED stays (with its size and alignment); an unresolved entry may come and go.  Here
    [R_mid] has an unresolved [T] that neither the input [R0] nor the final registry has. *)
Definition cx_R0 : registry := {| reg_types := []; reg_ptr := 4 |}.
Definition cx_item : item :=
  {| it_vis := Public; it_path := ["T"];
     it_state := Unresolved {| gi_vis := Public; gi_name := "T";
                               gi_inner := GIType {| gt_stmts := []; gt_attrs := [] |} |};
     it_cat := Defined |}.
Definition cx_Rmid : registry := reg_add cx_R0 cx_item.

Example ext_alone_does_not_fix_a_binding :
  ext cx_R0 cx_R0 cx_Rmid /\ ext cx_R0 cx_Rmid cx_R0 /\
  clean_path ["T"] = true /\ ends_vft "T" = false /\
  resolve_string cx_Rmid [["m"]] "T" = Some (TRaw ["T"]) /\
  resolve_string cx_R0 [["m"]] "T" = None.
Proof.
  split; [|split; [|vm_compute; auto]].
  - split; [reflexivity|]. split.
    + intros p it rs H. discriminate.
    + intros owner vp ito it H. exfalso. apply H. reflexivity.
  - split; [reflexivity|]. split.
    + intros p it rs H Hr. exfalso. unfold cx_Rmid in H.
      destruct (path_eqb_spec (it_path cx_item) p) as [<-|Hne].
      * rewrite reg_get_add_same in H. inversion H; subst it. discriminate.
      * rewrite reg_get_add_other in H by exact Hne. discriminate.
    + intros owner vp ito it H. exfalso. apply H. reflexivity.
Qed.

Print Assumptions build_registries_reach.
Print Assumptions binding_stable.
Print Assumptions binding_stable_spec.
Print Assumptions binding_stable_gtype_spec.
Print Assumptions binding_is_input_item.
Print Assumptions C11_binding_stable.
Print Assumptions C11_binding_stable_gtype.
Print Assumptions C11_binding_stable_whole_build.
Print Assumptions C11_attempt_binding_is_final.
Print Assumptions C11_fields_whole_build.
Print Assumptions C11_field_whole_build.
Print Assumptions C11_field_of_named_type.
Print Assumptions C11_impl_functions_whole_build.
Print Assumptions C11_vftable_functions_whole_build.
Print Assumptions C11_enum_base_whole_build.
Print Assumptions C11_extern_values_whole_build.
Print Assumptions ext_alone_does_not_fix_a_binding.
