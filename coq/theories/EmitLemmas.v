(** * Lemmas about decoration and file assembly (C14, C17) *)
From Coq Require Import List NArith ZArith Bool Lia String Permutation Ascii Btauto.
From PyxisModel Require Import Base Sexp Grammar SemTypes Registry Sem SemLemmas Emit.
Import ListNotations.
Local Open Scope string_scope.
Local Open Scope list_scope.

(** ** marker attributes (C17) *)
Definition has_marker (name : string) (attrs : list gattr) : bool :=
  existsb (fun a => match a with AIdent n => String.eqb n name | _ => false end) attrs.

Lemma scan_type_attr_flags a ta ta' :
  scan_type_attr ta a = Ok ta' ->
  ta_copyable ta' = ta_copyable ta || has_marker "copyable" [a] /\
  ta_cloneable ta' = ta_cloneable ta || has_marker "copyable" [a] || has_marker "cloneable" [a] /\
  ta_defaultable ta' = ta_defaultable ta || has_marker "defaultable" [a] /\
  ta_packed ta' = ta_packed ta || has_marker "packed" [a].
Proof.
  unfold scan_type_attr, has_marker. cbn [existsb].
  destruct a as [n|n args|k e].
  - intros H; inversion H; subst. cbn. rewrite !orb_false_r. auto.
  - assert (forall t, Ok ta = Ok t -> 
      ta_copyable t = ta_copyable ta || false /\ ta_cloneable t = ta_cloneable ta || false || false /\
      ta_defaultable t = ta_defaultable ta || false /\ ta_packed t = ta_packed ta || false) as Same.
    { intros t Ht. inversion Ht; subst. rewrite !orb_false_r. auto. }
    destruct args as [|[v|?|?] [|? ?]]; try (apply Same).
    destruct (String.eqb n "size").
    { destruct (z_to_usize v); intros H; inversion H; subst; cbn; rewrite !orb_false_r; auto. }
    destruct (String.eqb n "singleton").
    { destruct (z_to_usize v); intros H; inversion H; subst; cbn; rewrite !orb_false_r; auto. }
    destruct (String.eqb n "align").
    { destruct (z_to_usize v); intros H; inversion H; subst; cbn; rewrite !orb_false_r; auto. }
    apply Same.
  - intros H; inversion H; subst. rewrite !orb_false_r. auto.
Qed.

Lemma scan_type_attrs_flags : forall attrs ta ta',
  foldM scan_type_attr attrs ta = Ok ta' ->
  ta_copyable ta' = ta_copyable ta || has_marker "copyable" attrs /\
  ta_cloneable ta' = ta_cloneable ta || has_marker "copyable" attrs || has_marker "cloneable" attrs /\
  ta_defaultable ta' = ta_defaultable ta || has_marker "defaultable" attrs /\
  ta_packed ta' = ta_packed ta || has_marker "packed" attrs.
Proof.
  induction attrs as [|a attrs IH]; intros ta ta' H; cbn [foldM] in H.
  - inversion H; subst. unfold has_marker. cbn. rewrite !orb_false_r. auto.
  - inv_bind H. destruct (scan_type_attr_flags _ _ _ Ha) as (A1 & A2 & A3 & A4).
    destruct (IH _ _ H) as (B1 & B2 & B3 & B4).
    assert (forall name, has_marker name (a :: attrs) = has_marker name [a] || has_marker name attrs) as Hc.
    { intros name. unfold has_marker. cbn [existsb]. now rewrite orb_false_r. }
    rewrite !Hc, B1, B2, B3, B4, A1, A2, A3, A4.
    repeat split; btauto.
Qed.

(** the derive list the back end prints *)
Definition derive_names (copyable cloneable defaultable : bool) : list string :=
  (if copyable then ["Copy"] else []) ++ (if cloneable then ["Clone"] else []) ++
  (if defaultable then ["Default"] else []).

Theorem derive_names_spec c cl d :
  (In "Copy" (derive_names c cl d) <-> c = true) /\
  (In "Clone" (derive_names c cl d) <-> cl = true) /\
  (In "Default" (derive_names c cl d) <-> d = true).
Proof.
  unfold derive_names. destruct c, cl, d; cbn; repeat split; intros; try tauto;
    try (repeat match goal with H : _ \/ _ |- _ => destruct H end; try discriminate; tauto).
Qed.

Lemma derive_attr_names base c cl d :
  derive_attr base c cl d =
  match base ++ derive_names c cl d with
  | [] => []
  | names => [attr_outer [tk "derive"; paren (commas (map (fun n => [tk n]) names))]]
  end.
Proof. unfold derive_attr, derive_names. destruct (base ++ _); reflexivity. Qed.

(** packed: a packed representation without an alignment argument; otherwise align(A) *)
Theorem repr_attr_spec packed A :
  repr_attr packed A =
  attr_outer [tk "repr"; paren (if packed then [tk "C"; tk ","; tk "packed"]
                                else [tk "C"; tk ","; tk "align"; paren [tint A "-"]])].
Proof. reflexivity. Qed.

(** ** documentation: line for line, in order (after the empty-line fix) *)
Definition no_newline (s : string) : Prop := ~ In newline (list_of_string s).

Lemma split_on_aux_no_sep sep : forall s cur,
  ~ In sep (list_of_string s) -> split_on_aux sep s cur = [cur +++ s].
Proof.
  induction s as [|c s IH]; intros cur Hn; cbn [split_on_aux list_of_string] in *.
  - unfold String.append. f_equal. induction cur; cbn; congruence.
  - destruct (Ascii.eqb_spec c sep) as [->|Hne]; [exfalso; apply Hn; now left|].
    rewrite IH by (intros X; apply Hn; now right).
    f_equal. clear. induction cur as [|x cur IHc]; cbn; [reflexivity|]. now rewrite IHc.
Qed.

Lemma split_on_aux_app sep : forall a b cur,
  ~ In sep (list_of_string a) ->
  split_on_aux sep (a +++ String sep b) cur = (cur +++ a) :: split_on_aux sep b "".
Proof.
  induction a as [|c a IH]; intros b cur Hn; cbn [String.append split_on_aux list_of_string] in *.
  - rewrite Ascii.eqb_refl. f_equal. clear. induction cur; cbn; congruence.
  - destruct (Ascii.eqb_spec c sep) as [->|Hne]; [exfalso; apply Hn; now left|].
    rewrite IH by (intros X; apply Hn; now right).
    f_equal. clear. induction cur as [|x cur IHc]; cbn; [reflexivity|]. now rewrite IHc.
Qed.

(** joining lines with newlines and splitting again gives the lines back *)
Fixpoint join_lines (ls : list string) : string :=
  match ls with
  | [] => ""
  | [l] => l
  | l :: r => l +++ String newline (join_lines r)
  end.

Theorem doc_lines_roundtrip : forall ls, ls <> [] -> Forall no_newline ls ->
  doc_lines (Some (join_lines ls)) = ls.
Proof.
  unfold doc_lines, split_on. induction ls as [|l ls IH]; intros Hne Hall; [congruence|].
  inversion Hall as [|? ? Hl Hr]; subst.
  destruct ls as [|l2 ls].
  - cbn [join_lines]. now rewrite split_on_aux_no_sep.
  - cbn [join_lines]. rewrite split_on_aux_app by exact Hl. cbn [String.append].
    f_equal. apply IH; [discriminate | exact Hr].
Qed.

Lemma sapp_assoc : forall a b c : string, (a +++ b) +++ c = a +++ (b +++ c).
Proof. induction a as [|x a IH]; intros; cbn; [reflexivity | now rewrite IH]. Qed.
Lemma sapp_nil_r : forall a : string, a +++ "" = a.
Proof. induction a as [|x a IH]; cbn; [reflexivity | now rewrite IH]. Qed.

(** the doc attributes of an item are collected in order, joined by newlines *)
Fixpoint doc_values (attrs : list gattr) : outcome (list string) :=
  match attrs with
  | [] => Ok []
  | AAssign k v :: r =>
    if String.eqb k "doc" then
      match v with
      | EStr s => do rest <- doc_values r; Ok (s :: rest)
      | _ => Err "doc attribute must be a string literal"
      end
    else doc_values r
  | _ :: r => doc_values r
  end.

Lemma attrs_doc_aux_spec : forall attrs acc d,
  attrs_doc_aux attrs acc = Ok d ->
  exists ls, doc_values attrs = Ok ls /\
  d = match acc, ls with
      | None, [] => None
      | None, _ => Some (join_lines ls)
      | Some a, [] => Some a
      | Some a, _ => Some (a +++ String newline (join_lines ls))
      end.
Proof.
  induction attrs as [|a attrs IH]; intros acc d H; cbn [attrs_doc_aux doc_values] in *.
  - inversion H; subst. exists []. split; [reflexivity|]. destruct d; reflexivity.
  - destruct a as [?|? ?|k v]; try (exact (IH _ _ H)).
    destruct (String.eqb k "doc") eqn:Ek; [|exact (IH _ _ H)].
    destruct v as [?|s|?]; try discriminate.
    destruct (IH _ _ H) as (ls & Hls & Hd). rewrite Hls. cbn [bind].
    exists (s :: ls). split; [reflexivity|]. rewrite Hd.
    destruct acc as [a0|]; destruct ls as [|l ls']; cbn [join_lines]; try reflexivity.
    rewrite sapp_assoc. reflexivity.
Qed.

Theorem attrs_doc_spec attrs d :
  attrs_doc attrs = Ok d ->
  exists ls, doc_values attrs = Ok ls /\ d = match ls with [] => None | _ => Some (join_lines ls) end.
Proof. intros H. destruct (attrs_doc_aux_spec _ _ _ H) as (ls & A & B). exists ls. auto. Qed.

(** C17 (documentation), assembled: the emitted doc lines of an item are exactly its doc attribute
    values, in order, when no value contains a line break *)
Theorem doc_carried attrs d :
  attrs_doc attrs = Ok d ->
  exists ls, doc_values attrs = Ok ls /\ (Forall no_newline ls -> doc_lines d = ls).
Proof.
  intros H. destruct (attrs_doc_spec _ _ H) as (ls & A & ->). exists ls. split; [exact A|].
  intros Hall. destruct ls as [|l ls]; [reflexivity|]. apply doc_lines_roundtrip; [discriminate | exact Hall].
Qed.

(** ** generated regions are private (C17) *)
Lemma name_regions_generated_private R : forall rs s0 rs' s,
  name_regions R rs s0 = Ok (rs', s) ->
  Forall2 (fun r r' => r_name r = None -> r_vis r' = Private /\ r_doc r' = None) rs rs'.
Proof.
  induction rs as [|r rs IH]; intros s0 rs' s H; cbn [name_regions] in H.
  - inversion H. constructor.
  - destruct (size_of R (r_type r)); [|discriminate]. inv_bind H. destruct a as [rest s1].
    inversion H; subst. constructor; [|eapply IH; eauto].
    intros Hn. rewrite Hn. cbn. auto.
Qed.

(** ** file assembly (C14) *)
Lemma insert_sorted_perm {A} (leb : A -> A -> bool) x : forall l, Permutation (x :: l) (insert_sorted leb x l).
Proof.
  induction l as [|y l IH]; cbn [insert_sorted]; [reflexivity|].
  destruct (leb y x); [|reflexivity].
  rewrite perm_swap. now constructor.
Qed.
Lemma sort_perm {A} (leb : A -> A -> bool) : forall l, Permutation l (sort leb l).
Proof.
  unfold sort. intros l.
  assert (G : forall l acc, Permutation (l ++ acc) (fold_left (fun acc x => insert_sorted leb x acc) l acc)).
  { induction l0 as [|x l0 IH]; intros acc; cbn [fold_left app]; [reflexivity|].
    rewrite <- IH. rewrite <- (insert_sorted_perm leb x acc).
    apply Permutation_middle. }
  specialize (G l []). now rewrite app_nil_r in G.
Qed.

(** the module's set of item paths never holds a path twice *)
Lemma nodup_snoc {A} (l : list A) p : NoDup l -> ~ In p l -> NoDup (l ++ [p]).
Proof.
  induction l as [|x l IH]; intros Hn Hp; cbn [app]; [constructor; [intros []|constructor]|].
  inversion Hn as [|? ? Hx Hl]; subst. constructor.
  - intros X. apply in_app_or in X as [X|[X|[]]]; [contradiction | subst; apply Hp; now left].
  - apply IH; [exact Hl | intros X; apply Hp; now right].
Qed.
Lemma path_mem_false p l : path_mem p l = false -> ~ In p l.
Proof.
  unfold path_mem. intros H X. assert (existsb (path_eqb p) l = true); [|congruence].
  apply existsb_exists. exists p. split; [exact X | apply path_eqb_refl].
Qed.
Lemma add_defpath_nodup p m : NoDup (m_defpaths m) -> NoDup (m_defpaths (add_defpath p m)).
Proof.
  intros H. unfold add_defpath. cbn [m_defpaths].
  destruct (path_mem p (m_defpaths m)) eqn:E; [exact H|].
  apply nodup_snoc; [exact H | apply path_mem_false; exact E].
Qed.

(** the definitions emitted for a module: the registry items of its paths, each once, in path order *)
Theorem module_definitions_perm R m :
  Permutation (module_definitions R m) (somes (map (reg_get R) (m_defpaths m))).
Proof. unfold module_definitions. apply Permutation_sym, sort_perm. Qed.

(** what a module's file consists of, in order *)
Theorem module_file_shape st m f :
  module_file st m = Ok f ->
  exists items evs,
    mapM (build_item (st_reg st) (S (List.length (reg_types (st_reg st))))) (module_definitions (st_reg st) m) = Ok items /\
    mapM build_extern_value (sort ev_leb (m_extern_values m)) = Ok evs /\
    f = SList (Atom "file" :: attrs_sexp (file_header (m_doc m)) ::
               [SList [Atom "opaque"; Str (prologue_text m)]] ++ List.concat items ++ evs ++
               [SList [Atom "opaque"; Str (epilogue_text m)]]).
Proof.
  unfold module_file. intros H. inv_bind H. inv_bind H. destruct (negb _); [discriminate|]. inversion H. eauto.
Qed.

(** predefined and extern items emit nothing *)
Theorem build_item_nothing_for_externs R fuel it l :
  build_item R fuel it = Ok l -> it_cat it <> Defined -> l = [].
Proof.
  unfold build_item. destruct (item_resolved it); [|discriminate].
  destruct (it_cat it); [congruence| |]; intros H _; inversion H; reflexivity.
Qed.

(** text of other backends is not included: only blocks named rust contribute *)
Theorem rust_blocks_only m b :
  In b (rust_blocks m) -> In ("rust", b) (m_backends m).
Proof.
  unfold rust_blocks. intros H. apply in_map_iff in H as ([n x] & E & Hin). cbn in E. subst x.
  apply filter_In in Hin as [Hin Hn]. cbn in Hn. apply String.eqb_eq in Hn. now subst.
Qed.

(** one output file per module other than the root, at the module's path + ".rs" *)
Theorem write_all_files st files :
  write_all st = Ok files ->
  Permutation (map fst files)
              (map out_path (filter (fun k => match k with [] => false | _ => true end) (map fst (st_modules st)))).
Proof.
  unfold write_all. intros H. inv_bind H. inversion H; subst files. clear H.
  rewrite <- sort_perm.
  revert a Ha. induction (st_modules st) as [|[k m] ms IH]; intros a Ha; cbn [mapM] in Ha.
  - inversion Ha. reflexivity.
  - inv_bind Ha. inv_bind Ha. inversion Ha; subst a. cbn [map filter fst somes].
    destruct k as [|s k].
    + inversion Ha0; subst. cbn [somes]. apply IH. exact Ha1.
    + inv_bind Ha0. inversion Ha0; subst. cbn [somes map fst]. constructor. apply IH. exact Ha1.
Qed.
