(** * EmitAccessorsExamples: non-vacuity of EmitAccessors.v / EmitExternOnce.v on really emitted files.

    - the second input of EmitFnExamples.v ([ex2_mods], pointer width 8): struct singleton 4096,
      enum singleton 8192, extern value 12288;
    - a new input [ex3_mods]: three extern values declared out of name order, one private, one with
      two [address] attributes (the last one wins), types that need the scope; a struct with two
      [singleton] attributes, a private enum singleton, a struct without singleton;
    - the hypotheses of the whole-build theorems checked on [ex3_mods], and the theorems
      instantiated on it;
    - rejected inputs: an extern value without address, a negative address, a negative singleton. *)
From Coq Require Import List String NArith ZArith Bool Permutation.
From PyxisModel Require Import Base Sexp Grammar SemTypes Registry Sem Emit Driver Examples
     WholeBuild OrderIndep EmitReaders EmitShape EmitFinal EmitShapeExamples EmitFnReaders EmitFnShape EmitFnExamples
     FilesInput FilesRead FilesWhole RustExec EmitAccessors EmitExternOnce EmitSingletonOnce.
Import ListNotations.
Local Open Scope string_scope.
Local Open Scope list_scope.

(** * 1. The second input of EmitFnExamples.v *)
Definition ex2_module : gmodule := module_of_text ex2_module_text.
Definition ex2_file : option sexp :=
  match pyxis_resolve (hook_schedule []) 8 ex2_mods with
  | BOk st => match write_all st with
              | Ok files => option_map snd (find (fun kf => String.eqb (fst kf) "w.rs") files)
              | _ => None
              end
  | _ => None
  end.
Definition ex2_reg : option registry :=
  match pyxis_resolve (hook_schedule []) 8 ex2_mods with BOk st => Some (st_reg st) | _ => None end.

(** what the declarations say *)
Example ex2_declared :
  map (fun d => (gi_name d,
                 declared_singleton (match gi_inner d with GIType t => gt_attrs t | GIEnum e => ged_attrs e end)))
      (gm_defs ex2_module) = [("World", Some 4096%Z); ("Mode", Some 8192%Z)] /\
  map (fun g => (gev_name g, declared_ev_address (gev_attrs g))) (gm_extern_values ex2_module)
  = [("counter", Some 12288%Z)].
Proof. vm_compute. split; reflexivity. Qed.

(** the accessors read back from w.rs: exactly the declared one *)
Example ex2_accessors :
  option_map file_extern_accessors ex2_file
  = Some [("get_counter", Public, 12288%N, tks ["*"; "mut"; "u32"])] /\
  option_map (fun f => map Some (file_extern_accessors f)) ex2_file
  = option_map (fun R => map (declared_accessor R ["w"] ex2_module) (sort gev_leb (gm_extern_values ex2_module))) ex2_reg /\
  option_map (fun f => List.length (file_get_fns f)) ex2_file = Some 1%nat.
Proof. vm_compute. repeat split; reflexivity. Qed.

(** the singleton impls: read back, and what their [get] returns in a memory where the word at 4096
    is 77 (resp. null), the byte at 8192 is 5 *)
Definition mem1 (a : N) : N := if N.eqb a 4096 then 77%N else if N.eqb a 8192 then 5%N else 0%N.
Definition mem0 (a : N) : N := 0%N.
Definition ex2_singleton_gets (name : string) : option (list sexp) :=
  bindo ex2_file (fun f => option_map (fun items => all_somes singleton_get_fn
                              (filter (fun e => match inherent_impl e with
                                                | Some (n, _) => String.eqb n name | None => false end) items))
                                      (file_items f)).
Example ex2_struct_get :
  option_map (map (fun g => (fn_name g, fn_vis g, fn_unsafe g, fn_params g, fn_singleton_addr g,
                             struct_get_result mem1 g, struct_get_result mem0 g)))
             (ex2_singleton_gets "World")
  = Some [(Some "get", Some Public, Some true, Some [], Some 4096%N, Some (Some 77%N), Some None)].
Proof. vm_compute. reflexivity. Qed.
Example ex2_enum_get :
  option_map (map (fun g => (fn_name g, fn_vis g, fn_unsafe g, fn_params g, fn_ret g,
                             fn_enum_singleton_addr g, enum_get_result mem1 g)))
             (ex2_singleton_gets "Mode")
  = Some [(Some "get", Some Public, Some true, Some [], Some [Atom "Self"], Some 8192%N, Some 5%N)].
Proof. vm_compute. reflexivity. Qed.

(** * 2. A richer input *)
(*
// w.pyxis
#[address(0x30), address(0x40)] pub extern zeta: *mut u32;
#[address(0x10)]                    extern alpha: World;
#[address(0x20)]                pub extern mid: *const Mode;
#[singleton(1), singleton(0x1000)] pub type World { pub tick: u32 }
#[singleton(0x2000)]                   enum Mode: u8 { A, B }
                                   pub type Plain { pub x: u32 }
*)
Definition ex3_text : string := "(module (attrs) (uses) (extern_types) (extern_values (evalue (attrs (fn ""address"" (int 48)) (fn ""address"" (int 64))) pub ""zeta"" (mptr (tid ""u32""))) (evalue (attrs (fn ""address"" (int 16))) priv ""alpha"" (tid ""World"")) (evalue (attrs (fn ""address"" (int 32))) pub ""mid"" (cptr (tid ""Mode"")))) (defs (def pub ""World"" (type (attrs (fn ""singleton"" (int 1)) (fn ""singleton"" (int 4096))) (field (attrs) pub ""tick"" (tid ""u32"")))) (def priv ""Mode"" (enum (tid ""u8"") (attrs (fn ""singleton"" (int 8192))) (case (attrs) ""A"" none) (case (attrs) ""B"" none))) (def pub ""Plain"" (type (attrs) (field (attrs) pub ""x"" (tid ""u32""))))) (impls) (backends))".
Definition ex3_module : gmodule := module_of_text ex3_text.
Definition ex3_mods : list (path * gmodule) := [(["w"], ex3_module)].

Definition ex3_dummy : sstate := {| st_modules := []; st_reg := {| reg_types := []; reg_ptr := 0 |} |}.
Definition ex3_st0 : sstate := match input_state 8 ex3_mods with Ok s => s | _ => ex3_dummy end.
Definition ex3_st : sstate := match pyxis_resolve (hook_schedule []) 8 ex3_mods with BOk s => s | _ => ex3_dummy end.
Definition ex3_files : list (string * sexp) := match write_all ex3_st with Ok l => l | _ => [] end.
Definition ex3_file : option sexp := option_map snd (find (fun kf => String.eqb (fst kf) "w.rs") ex3_files).

Example ex3_parsed :
  map (fun g => (gev_name g, gev_vis g, declared_ev_address (gev_attrs g))) (gm_extern_values ex3_module)
  = [("zeta", Public, Some 64%Z); ("alpha", Private, Some 16%Z); ("mid", Public, Some 32%Z)] /\
  map (fun d => (gi_name d, gi_vis d,
                 declared_singleton (match gi_inner d with GIType t => gt_attrs t | GIEnum e => ged_attrs e end)))
      (gm_defs ex3_module)
  = [("World", Public, Some 4096%Z); ("Mode", Private, Some 8192%Z); ("Plain", Public, None)].
Proof. vm_compute. split; reflexivity. Qed.

Definition crate_w (n : string) : list sexp := tks ["crate"; ":"; ":"; "w"; ":"; ":"; n].

(** the accessors of w.rs: the three declared ones, sorted by name, last address wins, declared
    visibility, the types bound in the module's scope *)
Example ex3_accessors :
  option_map file_extern_accessors ex3_file
  = Some [("get_alpha", Private, 16%N, crate_w "World");
          ("get_mid", Public, 32%N, tks ["*"; "const"] ++ crate_w "Mode");
          ("get_zeta", Public, 64%N, tks ["*"; "mut"; "u32"])].
Proof. vm_compute. reflexivity. Qed.

(** ... which is what the declarations ask for, and these are all the [get_*] functions *)
Example ex3_accessors_declared :
  option_map (fun f => map Some (file_extern_accessors f)) ex3_file
  = Some (map (declared_accessor (st_reg ex3_st) ["w"] ex3_module) (sort gev_leb (gm_extern_values ex3_module))) /\
  option_map (fun f => map read_extern_accessor (file_get_fns f)) ex3_file
  = Some (map (declared_accessor (st_reg ex3_st) ["w"] ex3_module) (sort gev_leb (gm_extern_values ex3_module))) /\
  option_map (fun f => List.length (file_get_fns f)) ex3_file = Some 3%nat /\
  map gev_name (sort gev_leb (gm_extern_values ex3_module)) = ["alpha"; "mid"; "zeta"].
Proof. vm_compute. repeat split; reflexivity. Qed.

(** each accessor: header, return type and body, through the readers of EmitFnShape.v *)
Example ex3_accessor_items :
  option_map (fun f => map (fun g => (fn_name g, fn_vis g, fn_unsafe g, fn_params g, fn_ret_static_mut g,
                                      fn_extern_target g, extern_get_result g)) (file_get_fns f)) ex3_file
  = Some [(Some "get_alpha", Some Private, Some true, Some [], Some (crate_w "World"),
           Some (16%N, crate_w "World"), Some 16%N);
          (Some "get_mid", Some Public, Some true, Some [], Some (tks ["*"; "const"] ++ crate_w "Mode"),
           Some (32%N, tks ["*"; "const"] ++ crate_w "Mode"), Some 32%N);
          (Some "get_zeta", Some Public, Some true, Some [], Some (tks ["*"; "mut"; "u32"]),
           Some (64%N, tks ["*"; "mut"; "u32"]), Some 64%N)].
Proof. vm_compute. reflexivity. Qed.

(** the singleton impls of w.rs: [World] reads the word at 4096 (the LAST attribute), the private
    enum [Mode] has a private [get]; [Plain] has none *)
Definition ex3_singleton_gets (name : string) : option (list sexp) :=
  bindo ex3_file (fun f => option_map (fun items => all_somes singleton_get_fn
                              (filter (fun e => match inherent_impl e with
                                                | Some (n, _) => String.eqb n name | None => false end) items))
                                      (file_items f)).
Example ex3_singletons :
  option_map (map (fun g => (fn_name g, fn_vis g, fn_singleton_addr g, struct_get_result mem1 g)))
             (ex3_singleton_gets "World")
  = Some [(Some "get", Some Public, Some 4096%N, Some (Some 77%N))] /\
  option_map (map (fun g => (fn_name g, fn_vis g, fn_enum_singleton_addr g, enum_get_result mem1 g)))
             (ex3_singleton_gets "Mode")
  = Some [(Some "get", Some Private, Some 8192%N, Some 5%N)] /\
  ex3_singleton_gets "Plain" = Some [].
Proof. vm_compute. repeat split; reflexivity. Qed.

(** ALL the singleton accessors of w.rs, per type name: one for [World], one for [Mode], none for
    [Plain]; no struct template under an enum name or vice versa *)
Example ex3_singletons_once :
  option_map (fun f => map (fun n => (n, file_singleton_addrs n f, file_enum_singleton_addrs n f))
                           ["World"; "Mode"; "Plain"]) ex3_file
  = Some [("World", [4096%N], []); ("Mode", [], [8192%N]); ("Plain", [], [])].
Proof. vm_compute. reflexivity. Qed.

(** the literal items: what the model prints *)
Example ex3_singleton_items :
  option_map (fun f => match file_items f with
                       | Some items => (existsb (fun e => sexp_eqb e (singleton_struct_impl "World" Public 4096)) items,
                                        existsb (fun e => sexp_eqb e (enum_singleton_impl "Mode" Private 8192)) items)
                       | None => (false, false)
                       end) ex3_file = Some (true, true).
Proof. vm_compute. reflexivity. Qed.

(** ** the hypotheses of the theorems hold of [ex3_mods] *)
Lemma ex3_input : input_state 8 ex3_mods = Ok ex3_st0.
Proof. vm_compute. reflexivity. Qed.
Lemma ex3_accepted : pyxis_resolve (hook_schedule []) 8 ex3_mods = BOk ex3_st.
Proof. vm_compute. reflexivity. Qed.
Lemma ex3_written : write_all ex3_st = Ok ex3_files.
Proof. vm_compute. reflexivity. Qed.
Lemma ex3_collision_free : collision_free (st_reg ex3_st0).
Proof. apply collision_freeb_sound. vm_compute. reflexivity. Qed.
Lemma ex3_clean : clean_stateb ex3_st0 = true.
Proof. vm_compute. reflexivity. Qed.
Lemma ex3_paths_distinct : NoDup (map fst ex3_mods).
Proof. change (map fst ex3_mods) with [["w"]]. constructor; [intros [] | constructor]. Qed.
Lemma ex3_keeps_work : keeps_work (hook_schedule []).
Proof. apply perm_keeps_work. intros l. apply hook_schedule_perm. Qed.
Lemma ex3_module_not_item : reg_has (st_reg ex3_st0) ["w"] = false.
Proof. vm_compute. reflexivity. Qed.

(** ... so they give, without looking at the files: *)
Example ex3_theorems_apply :
  (exists f, In ("w.rs", f) ex3_files /\ file_ok ex3_module f /\ extern_file_ok (st_reg ex3_st) ["w"] ex3_module f) /\
  (forall d td0, In d (gm_defs ex3_module) -> gi_inner d = GIType td0 ->
     exists r f pre s sing im fns conv post,
       In ("w.rs", f) ex3_files /\
       file_items f = Some (pre ++ (s :: size_check (gi_name d) (rs_size r) ++ sing ++ im :: conv) ++ post) /\
       find_struct (gi_name d) (pre ++ (s :: size_check (gi_name d) (rs_size r) ++ sing ++ im :: conv) ++ post) = Some s /\
       im = impl_sexp (Atom "notrait") (gi_name d) fns /\ Forall is_impl_or_const conv /\
       match declared_singleton (gt_attrs td0) with
       | Some A => (0 <= A)%Z /\
                   exists e, sing = [e] /\ e = singleton_struct_impl (gi_name d) (gi_vis d) (Z.to_N A) /\
                             singleton_shape (gi_name d) (gi_vis d) (Z.to_N A) e
       | None => sing = []
       end) /\
  (forall gev, In gev (gm_extern_values ex3_module) ->
     declared_accessor (st_reg ex3_st) ["w"] ex3_module gev
     = declared_accessor_spec (st_reg ex3_st0) ["w"] ex3_module gev).
Proof.
  pose proof ex3_input as Hin. pose proof ex3_accepted as Hres. pose proof ex3_written as Hw.
  pose proof ex3_collision_free as Hcf. pose proof ex3_paths_distinct as HN. pose proof ex3_keeps_work as Hord.
  assert (In (["w"], ex3_module) ex3_mods) as Hgm by now left.
  assert (["w"] <> ([] : path)) as Hk by discriminate.
  split; [|split].
  - exact (extern_accessors_for_module _ _ _ _ _ _ _ _ Hin HN Hcf Hord Hres Hw Hgm Hk).
  - intros d td0 Hd Hty.
    exact (C15_struct_singleton_of_module _ _ _ _ _ _ _ _ _ _ Hin HN Hcf Hord Hres Hw Hgm Hk Hd Hty).
  - intros gev Hgev.
    exact (proj2 (declared_accessor_bound _ _ _ _ _ _ _ _ Hin HN Hcf ex3_clean Hres Hgm Hgev ex3_module_not_item)).
Qed.

(** * 3. Rejected inputs *)
Definition bad_mods (text : string) : list (path * gmodule) := [(["w"], module_of_text text)].

(** an extern value without [#[address]] *)
Definition bad1_text : string := "(module (attrs) (uses) (extern_types) (extern_values (evalue (attrs (fn ""address"" (int 16))) pub ""ok"" (tid ""u32"")) (evalue (attrs) pub ""counter"" (tid ""u32""))) (defs) (impls) (backends))".
Example bad1_rejected :
  map (fun g => declared_ev_address (gev_attrs g)) (gm_extern_values (module_of_text bad1_text)) = [Some 16%Z; None] /\
  pyxis_resolve (hook_schedule []) 8 (bad_mods bad1_text)
  = BErr "failed to find address attribute for extern value".
Proof. vm_compute. split; reflexivity. Qed.

(** [#[address("x")]] is not an address attribute either *)
Definition bad2_text : string := "(module (attrs) (uses) (extern_types) (extern_values (evalue (attrs (fn ""address"" (str ""x""))) pub ""counter"" (tid ""u32""))) (defs) (impls) (backends))".
Example bad2_rejected :
  map (fun g => declared_ev_address (gev_attrs g)) (gm_extern_values (module_of_text bad2_text)) = [None] /\
  pyxis_resolve (hook_schedule []) 8 (bad_mods bad2_text)
  = BErr "failed to find address attribute for extern value".
Proof. vm_compute. split; reflexivity. Qed.

(** a negative address, a negative singleton (struct, enum) *)
Definition bad3_text : string := "(module (attrs) (uses) (extern_types) (extern_values (evalue (attrs (fn ""address"" (int -16))) pub ""counter"" (tid ""u32""))) (defs) (impls) (backends))".
Definition bad4_text : string := "(module (attrs) (uses) (extern_types) (extern_values) (defs (def pub ""World"" (type (attrs (fn ""singleton"" (int -1)) (fn ""singleton"" (int 4096))) (field (attrs) pub ""tick"" (tid ""u32""))))) (impls) (backends))".
Definition bad5_text : string := "(module (attrs) (uses) (extern_types) (extern_values) (defs (def pub ""Mode"" (enum (tid ""u8"") (attrs (fn ""singleton"" (int -8192))) (case (attrs) ""A"" none)))) (impls) (backends))".
Example bad345_rejected :
  pyxis_resolve (hook_schedule []) 8 (bad_mods bad3_text) = BErr "failed to convert attribute into usize" /\
  pyxis_resolve (hook_schedule []) 8 (bad_mods bad4_text) = BErr "failed to convert singleton attribute into usize" /\
  pyxis_resolve (hook_schedule []) 8 (bad_mods bad5_text) = BErr "failed to convert singleton attribute into usize".
Proof. vm_compute. repeat split; reflexivity. Qed.

(** the rejection theorem applies to [bad1_text] *)
Example bad1_by_theorem :
  exists msg, pyxis_resolve (hook_schedule []) 8 (bad_mods bad1_text) = BErr msg.
Proof.
  assert (exists gev, In gev (gm_extern_values (module_of_text bad1_text)) /\
                      declared_ev_address (gev_attrs gev) = None) as (gev & Hg & Hn).
  { eexists. split; [right; left; reflexivity | vm_compute; reflexivity]. }
  destruct (extern_without_address_rejected (hook_schedule []) 8 (bad_mods bad1_text) ["w"] _ gev
              (or_introl eq_refl) Hg Hn) as (msg & _ & H).
  eauto.
Qed.

(** [C15_struct_singleton_once_of_module] / [C15_enum_singleton_once_of_module] on [ex3_mods] *)
Example ex3_exactly_once :
  (forall d td0, In d (gm_defs ex3_module) -> gi_inner d = GIType td0 ->
     exists f, In ("w.rs", f) ex3_files /\
       file_singleton_addrs (gi_name d) f
       = match declared_singleton (gt_attrs td0) with Some A => [Z.to_N A] | None => [] end /\
       file_enum_singleton_addrs (gi_name d) f = []) /\
  (forall d ed0, In d (gm_defs ex3_module) -> gi_inner d = GIEnum ed0 ->
     exists f, In ("w.rs", f) ex3_files /\
       file_enum_singleton_addrs (gi_name d) f
       = match declared_singleton (ged_attrs ed0) with Some A => [Z.to_N A] | None => [] end /\
       file_singleton_addrs (gi_name d) f = []).
Proof.
  pose proof ex3_input as Hin. pose proof ex3_accepted as Hres. pose proof ex3_written as Hw.
  pose proof ex3_collision_free as Hcf. pose proof ex3_paths_distinct as HN. pose proof ex3_keeps_work as Hord.
  assert (In (["w"], ex3_module) ex3_mods) as Hgm by now left.
  assert (["w"] <> ([] : path)) as Hk by discriminate.
  split; intros d x Hd Hty.
  - exact (C15_struct_singleton_once_of_module _ _ _ _ _ _ _ _ _ _ Hin HN Hcf Hord Hres Hw Hgm Hk Hd Hty).
  - exact (C15_enum_singleton_once_of_module _ _ _ _ _ _ _ _ _ _ Hin HN Hcf Hord Hres Hw Hgm Hk Hd Hty).
Qed.

Print Assumptions ex3_theorems_apply.
Print Assumptions ex3_exactly_once.
Print Assumptions bad1_by_theorem.
