(** * PathsClosed: every path of every resolved type is an entry of the registry (C13, first clause).

    [C13_paths_resolve_partial] ([ScopeLemmas.resolve_gtype_paths]) is per lookup: a type that
    [resolve_gtype] returns only mentions entries of the registry it was resolved in.  This file
    carries that through the whole resolution loop as an INVARIANT of the state ([PInv]):
    every resolved item of the registry is [item_closed] -- the types of its regions, the
    parameter and return types of its associated functions and of its vftable functions, the type
    of its vftable pointer, the representation type of an enum only mention paths that the SAME
    registry has ([reg_has]).  The registry only grows ([sub]), so what was closed stays closed;
    inherited functions and an inherited vftable are copies from an item that is closed already;
    the generated [<T>Vftable] item mentions its functions' types and the owner itself.

    RESULT ([final_closed]): for every accepted build (no hypothesis besides [input_state] and
    [pyxis_resolve ... = BOk st]) every item of the final registry is closed in the final registry
    and the resolved type of every extern value of every final module is. *)
From Coq Require Import List NArith ZArith Bool Lia String Ascii.
From PyxisModel Require Import Base Sexp Grammar SemTypes Registry Sem SemLemmas ScopeLemmas PlacementLemmas
     Emit NoPanic WholeBuild FinalState OutputIndep ReorderReg NoPanicBase NoPanicNames.
Import ListNotations.
Local Open Scope string_scope.
Local Open Scope list_scope.

(** ** closedness *)
Definition has (R : registry) (p : path) : Prop := reg_has R p = true.
Definition ty_closed (R : registry) (t : stype) : Prop := Forall (has R) (stype_paths t).
Definition arg_closed (R : registry) (a : sarg) : Prop :=
  match a with SField _ t => ty_closed R t | _ => True end.
Definition ret_closed (R : registry) (r : option stype) : Prop :=
  match r with Some t => ty_closed R t | None => True end.
Definition fn_closed (R : registry) (f : sfunction) : Prop :=
  Forall (arg_closed R) (sf_args f) /\ ret_closed R (sf_ret f).
Definition region_closed (R : registry) (r : region) : Prop := ty_closed R (r_type r).
Definition vt_closed (R : registry) (vt : tvftable) : Prop :=
  Forall (fn_closed R) (vt_functions vt) /\ ty_closed R (vt_type vt).
Definition ovt_closed (R : registry) (o : option tvftable) : Prop :=
  match o with Some vt => vt_closed R vt | None => True end.
Definition td_closed (R : registry) (td : type_def) : Prop :=
  Forall (region_closed R) (td_regions td) /\ Forall (fn_closed R) (td_assoc td) /\
  ovt_closed R (td_vftable td).
Definition inner_closed (R : registry) (i : item_inner) : Prop :=
  match i with IType td => td_closed R td | IEnum ed => ty_closed R (ed_type ed) end.
Definition item_closed (R : registry) (it : item) : Prop :=
  match it_state it with Resolved rs => inner_closed R (rs_inner rs) | Unresolved _ => True end.

(** the invariant *)
Definition PInv (st : sstate) : Prop :=
  has (st_reg st) ["u8"] /\
  forall p it, reg_get (st_reg st) p = Some it -> item_closed (st_reg st) it.

(** ** the registry only grows *)
Definition sub (R R' : registry) : Prop := forall q, has R q -> has R' q.

Lemma sub_refl R : sub R R.
Proof. intros q H; exact H. Qed.
Lemma sub_trans R1 R2 R3 : sub R1 R2 -> sub R2 R3 -> sub R1 R3.
Proof. intros H1 H2 q H. auto. Qed.
Lemma sub_add R it : sub R (reg_add R it).
Proof. intros q H. unfold has in *. rewrite reg_has_add. now destruct (path_eqb (it_path it) q). Qed.
Lemma has_add_same R it : has (reg_add R it) (it_path it).
Proof. unfold has. rewrite reg_has_add. now rewrite path_eqb_refl. Qed.
Lemma get_has R p it : reg_get R p = Some it -> has R p.
Proof. unfold has, reg_has, amem, reg_get. now intros ->. Qed.

Lemma ty_closed_sub R R' t : sub R R' -> ty_closed R t -> ty_closed R' t.
Proof. intros HS H. eapply Forall_impl; [|exact H]. exact HS. Qed.
Lemma arg_closed_sub R R' a : sub R R' -> arg_closed R a -> arg_closed R' a.
Proof. destruct a; cbn [arg_closed]; auto. apply ty_closed_sub. Qed.
Lemma ret_closed_sub R R' r : sub R R' -> ret_closed R r -> ret_closed R' r.
Proof. destruct r; cbn [ret_closed]; auto. apply ty_closed_sub. Qed.
Lemma fn_closed_sub R R' f : sub R R' -> fn_closed R f -> fn_closed R' f.
Proof.
  intros HS [Ha Hr]. split; [|eapply ret_closed_sub; eauto].
  eapply Forall_impl; [|exact Ha]. intros a. now apply arg_closed_sub.
Qed.
Lemma fns_closed_sub R R' fs : sub R R' -> Forall (fn_closed R) fs -> Forall (fn_closed R') fs.
Proof. intros HS H. eapply Forall_impl; [|exact H]. intros f. now apply fn_closed_sub. Qed.
Lemma region_closed_sub R R' r : sub R R' -> region_closed R r -> region_closed R' r.
Proof. apply ty_closed_sub. Qed.
Lemma regions_closed_sub R R' rs : sub R R' -> Forall (region_closed R) rs -> Forall (region_closed R') rs.
Proof. intros HS H. eapply Forall_impl; [|exact H]. intros r. now apply region_closed_sub. Qed.
Lemma vt_closed_sub R R' vt : sub R R' -> vt_closed R vt -> vt_closed R' vt.
Proof. intros HS [Hf Ht]. split; [eapply fns_closed_sub; eauto | eapply ty_closed_sub; eauto]. Qed.
Lemma ovt_closed_sub R R' o : sub R R' -> ovt_closed R o -> ovt_closed R' o.
Proof. destruct o; cbn [ovt_closed]; auto. apply vt_closed_sub. Qed.
Lemma td_closed_sub R R' td : sub R R' -> td_closed R td -> td_closed R' td.
Proof.
  intros HS (H1 & H2 & H3). split; [eapply regions_closed_sub; eauto|].
  split; [eapply fns_closed_sub; eauto | eapply ovt_closed_sub; eauto].
Qed.
Lemma item_closed_sub R R' it : sub R R' -> item_closed R it -> item_closed R' it.
Proof.
  unfold item_closed. intros HS. destruct (it_state it) as [d|rs]; [auto|].
  destruct (rs_inner rs) as [td|ed]; cbn [inner_closed]; [now apply td_closed_sub | now apply ty_closed_sub].
Qed.

(** ** [resolve_gtype] *)
Lemma resolve_gtype_closed R scope t t' :
  has R ["u8"] -> resolve_gtype R scope t = Some t' -> ty_closed R t'.
Proof. intros Hu H. exact (resolve_gtype_paths R scope Hu t t' H). Qed.

Lemma padding_closed R n : has R ["u8"] -> ty_closed R (padding_type n).
Proof. intros Hu. unfold ty_closed, padding_type. cbn [stype_paths]. constructor; [exact Hu | constructor]. Qed.

(** ** function_build *)
Lemma function_build_closed R scope v f sf :
  has R ["u8"] -> function_build R scope v f = Ok sf -> fn_closed R sf.
Proof.
  unfold function_build. intros Hu H.
  inv_bind H. inv_bind H. destruct (fst a0) as [body|] eqn:Eb; [|discriminate].
  inv_bind H. inv_bind H. inversion H; subst sf; clear H. unfold fn_closed. cbn [sf_args sf_ret]. split.
  - eapply mapM_forall; [|exact Ha1]. intros g s _ Hg. unfold resolve_arg in Hg.
    destruct g as [| |n t]; try (inversion Hg; subst; exact I).
    destruct (resolve_gtype R scope t) as [t'|] eqn:Et; [|discriminate]. inversion Hg; subst.
    cbn [arg_closed]. eapply resolve_gtype_closed; eauto.
  - destruct (gf_ret f) as [t|]; [|inversion Ha2; subst; exact I].
    destruct (resolve_gtype R scope t) as [t'|] eqn:Et; [|discriminate]. inversion Ha2; subst.
    cbn [ret_closed]. eapply resolve_gtype_closed; eauto.
Qed.

(** ** the vftable functions *)
Lemma padding_fn_closed R k : fn_closed R (padding_fn k).
Proof. split; cbn [padding_fn sf_args sf_ret ret_closed]; [repeat constructor | exact I]. Qed.

Lemma pad_vfuncs_closed R : forall n out, Forall (fn_closed R) out -> Forall (fn_closed R) (pad_vfuncs n out).
Proof.
  induction n as [|n IH]; intros out H; cbn [pad_vfuncs]; [exact H|].
  apply IH. apply Forall_app. split; [exact H|]. constructor; [apply padding_fn_closed | constructor].
Qed.

Lemma convert_functions_closed R scope sz fs out :
  has R ["u8"] -> convert_functions R scope sz fs = Ok out -> Forall (fn_closed R) out.
Proof.
  unfold convert_functions. intros Hu H. inv_bind H.
  assert (Forall (fn_closed R) a) as Ha'.
  { refine (foldM_inv_in (fun o => Forall (fn_closed R) o) _ fs _ _ _ _ Ha); [|constructor].
    intros s g s' _ Hs Hg. unfold convert_one in Hg. inv_bind Hg. inv_bind Hg. inv_bind Hg.
    inversion Hg; subst s'. apply Forall_app. split.
    - destruct a0 as [i|]; [|inversion Ha1; subst; exact Hs].
      destruct (_ <? _)%N; [discriminate|]. inversion Ha1; subst. apply pad_vfuncs_closed. exact Hs.
    - constructor; [|constructor]. eapply function_build_closed; eauto. }
  destruct sz as [s|]; [|inversion H; subst; exact Ha'].
  destruct (_ <? _)%N; [discriminate|]. inversion H; subst. apply pad_vfuncs_closed. exact Ha'.
Qed.

(** ** statements *)
Definition stmts_closed (R : registry) (acc : nat * stmt_state) : Prop :=
  Forall (region_closed R) (map snd (fst (snd acc))) /\
  forall fs, snd (snd acc) = Some fs -> Forall (fn_closed R) fs.

Lemma process_statement_closed R scope acc s acc' :
  has R ["u8"] -> stmts_closed R acc -> process_statement R scope acc s = Ok acc' -> stmts_closed R acc'.
Proof.
  unfold process_statement. destruct acc as [idx [pending vfs]]. intros Hu [Hp Hv] H. cbn [fst snd] in *.
  destruct (gs_field s) as [v name t|gfs].
  - inv_bind H. inv_bind H. destruct (resolve_gtype R scope t) as [t'|] eqn:Et; [|discriminate].
    inversion H; subst acc'. split; cbn [fst snd]; [|exact Hv].
    rewrite map_app. apply Forall_app. split; [exact Hp|]. constructor; [|constructor]. cbn [snd map].
    unfold region_closed. cbn [r_type]. eapply resolve_gtype_closed; eauto.
  - destruct (negb _); [discriminate|]. inv_bind H. inv_bind H. inversion H; subst acc'.
    split; cbn [fst snd]; [exact Hp|]. intros fs E. inversion E; subst. eapply convert_functions_closed; eauto.
Qed.

Lemma process_statements_closed R scope stmts n pending vfs :
  has R ["u8"] ->
  foldM (process_statement R scope) stmts (O, ([], None)) = Ok (n, (pending, vfs)) ->
  Forall (region_closed R) (map snd pending) /\ forall fs, vfs = Some fs -> Forall (fn_closed R) fs.
Proof.
  intros Hu H.
  apply (foldM_inv_in (stmts_closed R) (process_statement R scope) stmts) in H.
  - exact H.
  - intros; eapply process_statement_closed; eauto.
  - split; cbn; [constructor | discriminate].
Qed.

(** ** registering an item *)
Lemma add_item_PInv st it st' :
  PInv st -> item_closed (reg_add (st_reg st) it) it -> add_item st it = Ok st' ->
  PInv st' /\ sub (st_reg st) (st_reg st').
Proof.
  intros (Hu & HR) Hit H. unfold PInv. rewrite (add_item_reg _ _ _ H).
  pose proof (sub_add (st_reg st) it) as HS. split; [|exact HS]. split; [apply HS; exact Hu|].
  intros p it' Hg. destruct (path_eqb_spec (it_path it) p) as [<-|Hne].
  - rewrite reg_get_add_same in Hg. inversion Hg; subst. exact Hit.
  - rewrite reg_get_add_other in Hg by exact Hne. eapply item_closed_sub; [exact HS|]. eauto.
Qed.

(** the generated vftable item mentions the types of its functions and its owner *)
Lemma function_to_region_closed R owner f :
  has R owner -> fn_closed R f -> region_closed R (function_to_region owner f).
Proof.
  intros Ho [Ha Hr]. unfold region_closed, ty_closed, function_to_region. cbn [r_type stype_paths].
  apply Forall_app. split.
  - apply Forall_flat_map. apply Forall_forall. intros x Hx. apply in_map_iff in Hx as (a & <- & Hin).
    rewrite Forall_forall in Ha. specialize (Ha _ Hin).
    destruct a as [| |n t]; cbn [snd stype_paths]; [repeat constructor; exact Ho | repeat constructor; exact Ho | exact Ha].
  - destruct (sf_ret f); [exact Hr | constructor].
Qed.

Lemma vftable_item_closed R R' owner v fs vit :
  has R' owner -> Forall (fn_closed R') fs -> vftable_item R owner v fs = Some vit -> item_closed R' vit.
Proof.
  unfold vftable_item. intros Ho Hfs H. destruct (vftable_path owner) as [vp|]; [|discriminate].
  inversion H; subst vit; clear H. unfold item_closed. cbn [it_state rs_inner inner_closed].
  split; cbn [td_regions td_assoc td_vftable ovt_closed]; [|split; [constructor | exact I]].
  apply Forall_forall. intros r Hr. apply in_map_iff in Hr as (f & <- & Hf).
  rewrite Forall_forall in Hfs. now apply function_to_region_closed; [|apply Hfs].
Qed.

(** a base region that names a resolved struct: the struct is closed *)
Lemma PInv_td st p it rs td :
  PInv st -> reg_get (st_reg st) p = Some it -> item_resolved it = Some rs -> rs_inner rs = IType td ->
  td_closed (st_reg st) td.
Proof.
  intros (_ & HR) Hg Hr Hi. specialize (HR _ _ Hg). unfold item_closed, item_resolved in *.
  destruct (it_state it); [discriminate|]. inversion Hr; subst. rewrite Hi in HR. exact HR.
Qed.

Lemma opt_rnv_closed st fb base :
  PInv st -> opt_region_name_and_vftable (st_reg st) fb = Ok base ->
  forall n bvt, base = Some (n, bvt) -> vt_closed (st_reg st) bvt.
Proof.
  unfold opt_region_name_and_vftable. intros HN H n bvt E. destruct fb as [b|]; [|inversion H; subst; discriminate].
  inv_bind H. inversion H as [Hb]; clear H. rewrite <- Hb in E. clear Hb. destruct a as [[name td]|]; [|discriminate].
  destruct (region_name_and_typedef_some _ _ _ _ Ha) as (Hn & p & it & rs & _ & Hg & Hr & Hi).
  pose proof (PInv_td _ _ _ _ _ HN Hg Hr Hi) as (_ & _ & Hvt).
  destruct (td_vftable td) as [vt|] eqn:Ev; [|discriminate]. cbn [option_map] in E. inversion E; subst. exact Hvt.
Qed.

Lemma vftable_build_closed st owner v fb vfs st' vt vr :
  PInv st -> has (st_reg st) owner -> (forall fs, vfs = Some fs -> Forall (fn_closed (st_reg st)) fs) ->
  vftable_build st owner v fb vfs = Ok (st', vt, vr) ->
  PInv st' /\ sub (st_reg st) (st_reg st') /\ ovt_closed (st_reg st') vt /\
  (forall r, vr = Some r -> region_closed (st_reg st') r).
Proof.
  unfold vftable_build. intros HN Ho Hvfs H. destruct vfs as [fs|].
  - specialize (Hvfs _ eq_refl).
    destruct (vftable_item (st_reg st) owner v fs) as [vit|] eqn:Evi.
    2:{ inversion H; subst. split; [exact HN|]. split; [apply sub_refl|]. split; [exact I | intros; discriminate]. }
    inv_bind H. rename a into st1. inv_bind H.
    pose proof (sub_add (st_reg st) vit) as HS0.
    assert (item_closed (reg_add (st_reg st) vit) vit) as Hvit.
    { eapply vftable_item_closed; [| |exact Evi]; [apply HS0; exact Ho | eapply fns_closed_sub; eauto]. }
    destruct (add_item_PInv _ _ _ HN Hvit Ha) as [HN1 HS1].
    pose proof (opt_rnv_closed _ _ _ HN1 Ha0) as Hbase.
    assert (Forall (fn_closed (st_reg st1)) fs) as Hfs1 by (eapply fns_closed_sub; eauto).
    assert (ty_closed (st_reg st1) (TConstPtr (TRaw (it_path vit)))) as Hptr.
    { unfold ty_closed. cbn [stype_paths]. constructor; [|constructor].
      rewrite (add_item_reg _ _ _ Ha). apply has_add_same. }
    destruct a as [[bn bvt]|].
    + destruct (_ <? _)%nat; [discriminate|]. destruct (negb _); [discriminate|]. inversion H; subst.
      split; [exact HN1|]. split; [exact HS1|]. split; [|intros; discriminate].
      cbn [ovt_closed]. split; cbn [vt_functions vt_type]; assumption.
    + inversion H; subst. split; [exact HN1|]. split; [exact HS1|]. split.
      * cbn [ovt_closed]. split; cbn [vt_functions vt_type]; assumption.
      * intros r E; inversion E; subst. exact Hptr.
  - inv_bind H. pose proof (opt_rnv_closed _ _ _ HN Ha) as Hbase. destruct a as [[bn bvt]|].
    + inversion H; subst. destruct (Hbase _ _ eq_refl) as [Hf Ht].
      split; [exact HN|]. split; [apply sub_refl|]. split; [|intros; discriminate].
      cbn [ovt_closed]. split; cbn [vt_functions vt_type]; assumption.
    + inversion H; subst. split; [exact HN|]. split; [apply sub_refl|]. split; [exact I | intros; discriminate].
Qed.

(** ** regions *)
Lemma regions_push_closed R acc r acc' :
  Forall (region_closed R) (fst acc) -> region_closed R r -> regions_push R acc r = Some acc' ->
  Forall (region_closed R) (fst acc').
Proof.
  unfold regions_push. intros Ha Hr H. destruct (size_of R (r_type r)); [|discriminate].
  destruct (_ && _); [inversion H; subst; exact Ha|].
  destruct (checked_add _ _); [|discriminate]. inversion H; subst. cbn [fst].
  apply Forall_app. split; [exact Ha | constructor; [exact Hr | constructor]].
Qed.

Lemma push_pending_closed R acc p acc' :
  has R ["u8"] -> Forall (region_closed R) (fst acc) -> region_closed R (snd p) ->
  push_pending R acc p = Ok acc' -> Forall (region_closed R) (fst acc').
Proof.
  unfold push_pending. intros Hu Ha Hp H. inv_bind H. apply defer_opt_ok in H.
  eapply regions_push_closed; [| exact Hp | exact H].
  destruct (fst p); [|inversion Ha0; subst; exact Ha].
  destruct (_ <? _)%N; [discriminate|]. apply defer_opt_ok in Ha0.
  eapply regions_push_closed; [exact Ha | | exact Ha0]. now apply padding_closed.
Qed.

Lemma name_regions_closed R : forall rs s rs' s',
  Forall (region_closed R) rs -> name_regions R rs s = Ok (rs', s') -> Forall (region_closed R) rs'.
Proof.
  induction rs as [|r rs IH]; intros s rs' s' Hrs H; cbn [name_regions] in H.
  - inversion H; constructor.
  - destruct (size_of R (r_type r)); [|discriminate]. inv_bind H. destruct a as [rest s1].
    inversion H; subst; clear H. cbn [fst]. inversion Hrs as [|? ? Hr Hrest]; subst.
    constructor; [|eapply IH; eauto].
    destruct (r_name r); [exact Hr|]. exact Hr.
Qed.

Lemma resolve_regions_closed st owner v ts pending vfs st' regions vt size :
  PInv st -> has (st_reg st) owner -> (forall fs, vfs = Some fs -> Forall (fn_closed (st_reg st)) fs) ->
  Forall (region_closed (st_reg st)) (map snd pending) ->
  resolve_regions st owner v ts pending vfs = Ok (st', regions, vt, size) ->
  PInv st' /\ sub (st_reg st) (st_reg st') /\ Forall (region_closed (st_reg st')) regions /\
  ovt_closed (st_reg st') vt.
Proof.
  unfold resolve_regions. intros HN Ho Hvfs Hp H.
  destruct (first_base_unresolved _ _); [discriminate|].
  inv_bind H. destruct a as [[st1 vt1] vr1].
  destruct (vftable_build_closed _ _ _ _ _ _ _ _ HN Ho Hvfs Ha) as (HN1 & HS1 & Hvt & Hvr).
  inv_bind H. inv_bind H. inv_bind H. inv_bind H. destruct a2 as [named sz]. cbn [fst snd] in *.
  assert (st' = st1 /\ regions = named /\ vt = vt1) as (-> & -> & ->).
  { destruct ts as [t|]; [destruct (negb (sz =? t)%N); [discriminate|]|]; inversion H; auto. }
  split; [exact HN1|]. split; [exact HS1|]. split; [|exact Hvt].
  pose proof (proj1 HN1) as Hu1.
  assert (Forall (region_closed (st_reg st1)) (map snd pending)) as Hp1 by (eapply regions_closed_sub; eauto).
  eapply name_regions_closed; [|exact Ha3].
  assert (Forall (region_closed (st_reg st1)) (fst a)) as H0.
  { destruct vr1 as [vr|]; [|inversion Ha0; constructor]. apply defer_opt_ok in Ha0.
    eapply regions_push_closed; [|apply Hvr; reflexivity|exact Ha0]. constructor. }
  assert (Forall (region_closed (st_reg st1)) (fst a0)) as H1.
  { refine (foldM_inv_in (fun acc => Forall (region_closed (st_reg st1)) (fst acc)) _ pending _ _ _ H0 Ha1).
    intros s p s' Hin Hs Hpp. eapply push_pending_closed; [exact Hu1 | exact Hs | | exact Hpp].
    rewrite Forall_forall in Hp1. apply Hp1. now apply in_map. }
  destruct ts as [t|]; [|inversion Ha2; subst; exact H1].
  destruct (_ <? _)%N; [|inversion Ha2; subst; exact H1]. apply defer_opt_ok in Ha2.
  eapply regions_push_closed; [exact H1 | | exact Ha2]. now apply padding_closed.
Qed.

(** ** inherited functions *)
Lemma add_functions_closed R base_name :
  forall fs acc, Forall (fn_closed R) fs -> Forall (fn_closed R) (fst acc) ->
                 Forall (fn_closed R) (fst (add_functions base_name fs acc)).
Proof.
  unfold add_functions. induction fs as [|f fs IH]; intros acc Hfs Hacc; cbn [fold_left]; [exact Hacc|].
  inversion Hfs as [|? ? Hf Hrest]; subst. apply IH; [exact Hrest|].
  destruct (sf_is_public f); [|exact Hacc]. cbn [fst]. apply Forall_app. split; [exact Hacc|].
  constructor; [|constructor]. exact Hf.
Qed.

Lemma inject_bases_closed st : PInv st -> forall bases i acc acc',
  Forall (fn_closed (st_reg st)) (fst acc) -> inject_bases (st_reg st) bases i acc = Ok acc' ->
  Forall (fn_closed (st_reg st)) (fst acc').
Proof.
  intros HN. induction bases as [|b bases IH]; intros i acc acc' Hacc H; cbn [inject_bases] in H.
  - now inversion H; subst.
  - inv_bind H. destruct a as [[base_name td]|]; [|eapply IH; eauto].
    destruct (region_name_and_typedef_some _ _ _ _ Ha) as (Hn & p & it & rs & _ & Hg & Hr & Hi).
    pose proof (PInv_td _ _ _ _ _ HN Hg Hr Hi) as (_ & Hassoc & Hvt).
    eapply IH; [|exact H].
    pose proof (add_functions_closed _ base_name _ acc Hassoc Hacc) as H1.
    destruct i; [exact H1|]. destruct (td_vftable td) as [vt|]; [|exact H1].
    apply add_functions_closed; [|exact H1]. exact (proj1 Hvt).
Qed.

Lemma add_impl_functions_closed R scope fs acc acc' :
  has R ["u8"] -> Forall (fn_closed R) (fst acc) ->
  foldM (add_impl_function R scope) fs acc = Ok acc' -> Forall (fn_closed R) (fst acc').
Proof.
  intros Hu Hacc H.
  refine (foldM_inv_in (fun a => Forall (fn_closed R) (fst a)) _ fs _ _ _ Hacc H).
  intros s f s' _ Hs Hf. unfold add_impl_function in Hf. destruct (str_mem _ _); [discriminate|].
  inv_bind Hf. inversion Hf; subst. cbn [fst]. apply Forall_app. split; [exact Hs|].
  constructor; [|constructor]. eapply function_build_closed; eauto.
Qed.

(** ** one struct attempt *)
Lemma type_build_closed st p v d st' o :
  PInv st -> has (st_reg st) p -> type_build st p v d = (st', o) ->
  PInv st' /\ sub (st_reg st) (st_reg st') /\
  forall r, o = Ok r -> inner_closed (st_reg st') (rs_inner r).
Proof.
  unfold type_build. intros HN Ho H.
  assert (forall (x : outcome resolved), (st, x) = (st', o) -> (forall r, x <> Ok r) ->
          PInv st' /\ sub (st_reg st) (st_reg st') /\
          forall r, o = Ok r -> inner_closed (st_reg st') (rs_inner r)) as Hsame.
  { intros x E Hx. inversion E; subst. split; [exact HN|]. split; [apply sub_refl|].
    intros r Er. exfalso. eapply Hx; eauto. }
  destruct (path_parent p) as [parent|]; [|eapply Hsame; [exact H | discriminate]].
  destruct (alookup parent (st_modules st)) as [module|] eqn:Emod; [|eapply Hsame; [exact H | discriminate]].
  match type of H with context [match ?pre with Ok _ => _ | Defer => _ | Err _ => _ | Panic _ => _ end] =>
    destruct pre as [[[doc ta] [pending vfs]]| | |] eqn:Epre end;
    try (eapply Hsame; [exact H | discriminate]).
  inv_bind Epre. inv_bind Epre. inv_bind Epre. destruct a1 as [n [pending' vfs']].
  inversion Epre; subst doc ta pending' vfs'. clear Epre.
  pose proof (proj1 HN) as Hu.
  destruct (process_statements_closed _ _ _ _ _ _ Hu Ha1) as [Hpend Hvfs].
  destruct (resolve_regions st p v (ta_size a0) pending vfs) as [[[[st1 regions] vt] size]| | |] eqn:Err;
    try (eapply Hsame; [exact H | discriminate]).
  - inversion H; subst st1 o. clear H.
    destruct (resolve_regions_closed _ _ _ _ _ _ _ _ _ _ HN Ho Hvfs Hpend Err) as (HN1 & HS1 & Hregs & Hvt).
    split; [exact HN1|]. split; [exact HS1|]. intros r Hr. inv_bind Hr. inv_bind Hr. inv_bind Hr. inv_bind Hr.
    inversion Hr; subst r; clear Hr. cbn [rs_inner inner_closed]. unfold td_closed. cbn [td_regions td_assoc td_vftable].
    split; [exact Hregs|]. split; [|exact Hvt].
    pose proof (proj1 HN1) as Hu1.
    assert (Forall (fn_closed (st_reg st')) (fst a1)) as H1.
    { eapply (inject_bases_closed _ HN1); [|exact Ha2]. constructor. }
    destruct (alookup p (m_impls module)) as [blk|]; [|inversion Ha3; subst; exact H1].
    eapply add_impl_functions_closed; [exact Hu1 | exact H1 | exact Ha3].
  - destruct (first_base_unresolved _ _); [eapply Hsame; [exact H | discriminate]|].
    destruct (vftable_build st p v _ vfs) as [[[st2 vt2] vr2]| | |] eqn:Ev;
      try (eapply Hsame; [exact H | discriminate]).
    inversion H; subst. destruct (vftable_build_closed _ _ _ _ _ _ _ _ HN Ho Hvfs Ev) as (HN1 & HS1 & _).
    split; [exact HN1|]. split; [exact HS1 | discriminate].
Qed.

(** ** one enum attempt *)
Lemma enum_build_closed st p d r :
  PInv st -> enum_build st p d = Ok r -> inner_closed (st_reg st) (rs_inner r).
Proof.
  unfold enum_build. intros HN H. destruct (path_parent p); [|discriminate].
  destruct (alookup _ _); [|discriminate]. cbn zeta in H.
  destruct (resolve_gtype _ _ _) as [ty|] eqn:Et; [|discriminate]. destruct (size_of _ ty); [|discriminate].
  inv_bind H. inv_bind H. inv_bind H.
  pose proof (resolve_gtype_closed _ _ _ _ (proj1 HN) Et) as Hc.
  destruct (ea_defaultable a1), (snd a); try discriminate; destruct (align_of _ ty); try discriminate;
    inversion H; subst; exact Hc.
Qed.

(** ** the step of the loop *)
Lemma PInv_step st p it gd st' o :
  PInv st -> reg_get (st_reg st) p = Some it -> it_state it = Unresolved gd -> attempt st p gd = (st', o) ->
  match o with Ok r => PInv (set_resolved st' p r) | Defer => PInv st' | _ => True end.
Proof.
  intros HN Hg Hs H. pose proof (get_has _ _ _ Hg) as Ho.
  assert (PInv st' /\ forall r, o = Ok r -> inner_closed (st_reg st') (rs_inner r)) as (HN' & Hin).
  { unfold attempt in H. destruct (gi_inner gd) as [td|ed].
    - destruct (type_build_closed _ _ _ _ _ _ HN Ho H) as (A & _ & B). split; assumption.
    - inversion H; subst. split; [exact HN|]. intros r E. eapply enum_build_closed; eauto. }
  destruct o as [r| | |]; auto.
  specialize (Hin _ eq_refl). destruct HN' as (Hu' & HR').
  unfold set_resolved. destruct (reg_get (st_reg st') p) as [it'|] eqn:Hg'; [|split; assumption].
  unfold PInv. cbn [st_reg].
  set (itn := {| it_vis := it_vis it'; it_path := it_path it'; it_state := Resolved r; it_cat := it_cat it' |}).
  pose proof (sub_add (st_reg st') itn) as HS. split; [apply HS; exact Hu'|].
  intros q itq Hq. destruct (path_eqb_spec (it_path itn) q) as [<-|Hne].
  - rewrite reg_get_add_same in Hq. inversion Hq; subst itq. unfold item_closed. cbn [itn it_state].
    destruct (rs_inner r) as [td|ed]; cbn [inner_closed] in *; [eapply td_closed_sub; eauto | eapply ty_closed_sub; eauto].
  - rewrite reg_get_add_other in Hq by exact Hne. eapply item_closed_sub; [exact HS|]. eauto.
Qed.

Lemma resolve_loop_PInv order fuel st st' : PInv st -> resolve_loop order fuel st = BOk st' -> PInv st'.
Proof. apply resolve_loop_lift. exact PInv_step. Qed.

(** ** the input state *)
Lemma reg_u8_has R : reg_u8 R -> has R ["u8"].
Proof.
  unfold reg_u8, has, reg_has, amem. cbn [size_of]. unfold reg_get.
  destruct (alookup ["u8"] (reg_types R)); [reflexivity | discriminate].
Qed.

Lemma PInv_init ptr mods st0 : input_state ptr mods = Ok st0 -> PInv st0.
Proof.
  intros Hin. split; [apply reg_u8_has; eapply input_state_u8; eauto|].
  intros p it Hg. unfold item_closed. destruct (it_state it) as [d|rs] eqn:Es; [exact I|].
  destruct (input_state_trivial _ _ _ Hin p it rs Hg) as (_ & td & Hi & H1 & H2 & H3).
  { unfold item_resolved. now rewrite Es. }
  rewrite Hi. cbn [inner_closed]. unfold td_closed. rewrite H1, H2, H3. repeat split; constructor.
Qed.

(** ** extern values: resolved by [finish_build] in the final registry *)
Definition ev_closed (R : registry) (ev : sextern) : Prop :=
  match ev_type ev with Some t => ty_closed R t | None => True end.

Lemma resolve_extern_values_closed R m m' :
  has R ["u8"] -> resolve_extern_values R m = Ok m' -> Forall (ev_closed R) (m_extern_values m').
Proof.
  unfold resolve_extern_values. intros Hu H. inv_bind H. inversion H; subst m'; clear H. cbn [m_extern_values].
  eapply mapM_forall; [|exact Ha]. intros ev ev' _ Hev. cbn beta in Hev.
  destruct (resolve_gtype _ _ _) as [t|] eqn:Et; [|discriminate]. inversion Hev; subst.
  unfold ev_closed. cbn [ev_type]. eapply resolve_gtype_closed; eauto.
Qed.

Lemma finish_build_closed s t :
  has (st_reg s) ["u8"] -> finish_build s = BOk t ->
  Forall (fun km => Forall (ev_closed (st_reg t)) (m_extern_values (snd km))) (st_modules t).
Proof.
  intros Hu H. rewrite (finish_build_reg _ _ H). apply finish_build_mods in H.
  eapply mapM_forall; [|exact H]. intros km km' _ Hkm. cbn beta in Hkm. inv_bind Hkm. inversion Hkm; subst.
  cbn [snd]. eapply resolve_extern_values_closed; eauto.
Qed.

(** ** RESULT: the final state of an accepted build is closed *)
Theorem final_closed order ptr mods st0 st :
  input_state ptr mods = Ok st0 -> pyxis_resolve order ptr mods = BOk st ->
  has (st_reg st) ["u8"] /\
  (forall p it, reg_get (st_reg st) p = Some it -> item_closed (st_reg st) it) /\
  (forall k m ev, In (k, m) (st_modules st) -> In ev (m_extern_values m) -> ev_closed (st_reg st) ev).
Proof.
  intros Hin H. destruct (pyxis_resolve_input _ _ _ _ H) as (st0' & Hin' & Hb).
  rewrite Hin in Hin'. inversion Hin'; subst st0'. unfold sem_build in Hb.
  destruct (resolve_loop order _ st0) as [s| | | |] eqn:El; try discriminate.
  pose proof (resolve_loop_PInv _ _ _ _ (PInv_init _ _ _ Hin) El) as (Hu & HR).
  pose proof (finish_build_closed _ _ Hu Hb) as Hev. rewrite (finish_build_reg _ _ Hb).
  split; [exact Hu|]. split; [exact HR|].
  intros k m ev Hm He. rewrite Forall_forall in Hev. specialize (Hev _ Hm). cbn [snd] in Hev.
  rewrite Forall_forall in Hev. rewrite <- (finish_build_reg _ _ Hb). auto.
Qed.

(** the unfolded form for a struct item *)
Corollary final_type_closed order ptr mods st0 st p it rs td :
  input_state ptr mods = Ok st0 -> pyxis_resolve order ptr mods = BOk st ->
  reg_get (st_reg st) p = Some it -> item_resolved it = Some rs -> rs_inner rs = IType td ->
  td_closed (st_reg st) td.
Proof.
  intros Hin H Hg Hr Hi. destruct (final_closed _ _ _ _ _ Hin H) as (_ & HR & _).
  specialize (HR _ _ Hg). unfold item_closed, item_resolved in *.
  destruct (it_state it); [discriminate|]. inversion Hr; subst. rewrite Hi in HR. exact HR.
Qed.

Corollary final_enum_closed order ptr mods st0 st p it rs ed :
  input_state ptr mods = Ok st0 -> pyxis_resolve order ptr mods = BOk st ->
  reg_get (st_reg st) p = Some it -> item_resolved it = Some rs -> rs_inner rs = IEnum ed ->
  ty_closed (st_reg st) (ed_type ed).
Proof.
  intros Hin H Hg Hr Hi. destruct (final_closed _ _ _ _ _ Hin H) as (_ & HR & _).
  specialize (HR _ _ Hg). unfold item_closed, item_resolved in *.
  destruct (it_state it); [discriminate|]. inversion Hr; subst. rewrite Hi in HR. exact HR.
Qed.

Print Assumptions final_closed.
