(** * HierSpec: the base-class hierarchy of a type, as a SPEC, and [dfs_hierarchy] against it.

    C07, second half (AsRef/AsMut), part 1.  [bases_of R td pre h]: [h] lists, pre-order and in
    region order, every direct or transitive base sub-object of an object of type [td]: its field
    path (prefixed by [pre]) and its type.  The relation is defined by structural recursion on a
    derivation; it mentions only the registry ([RustExec.typedef_of]) and the regions of the types,
    not the emitter and not the front half.

    Proved here:
    - [dfs_hierarchy_sound]: an [Ok] result of the emitter's [dfs_hierarchy] is THE list of the spec
      ([bases_of_functional]: the relation is a partial function);
    - [dfs_hierarchy_complete]: if the spec has a list, every large enough fuel computes it;
    - [dfs_hierarchy_prefix]: [dfs_hierarchy fuel R td pre] is [dfs_hierarchy fuel R td []] with
      [pre] prepended to every path (on every outcome), and the same for the relation;
    - [dfs_hierarchy_stable], [dfs_hierarchy_fuel_irrelevant]: every outcome other than the
      model's own ["model: hierarchy fuel exhausted"] panic is the outcome with every larger fuel;
      two [Ok] results with different fuels are equal. *)
From Coq Require Import List String NArith Bool Lia.
From PyxisModel Require Import Base Sexp Grammar SemTypes Registry Sem SemLemmas RustExec Emit.
Import ListNotations.
Local Open Scope string_scope.
Local Open Scope list_scope.

(** ** the spec *)
(** a base region that contributes a sub-object: marked [#[base]], named, of a user type [TRaw bp]
    whose item is resolved to a type definition *)
Definition base_of (R : registry) (r : region) (name : string) (bp : path) (btd : type_def) : Prop :=
  r_is_base r = true /\ r_name r = Some name /\ r_type r = TRaw bp /\ typedef_of R bp = Some btd.

(** a base region whose type is registered but not resolved yet contributes nothing
    (pyxis: [get_region_name_and_type_definition] returns [None]); this cannot happen in the
    registry of an accepted build, where every item is resolved *)
Definition base_pending (R : registry) (r : region) : Prop :=
  r_is_base r = true /\ exists name bp it,
    r_name r = Some name /\ r_type r = TRaw bp /\ reg_get R bp = Some it /\ item_resolved it = None.

Inductive bases_regs (R : registry) : list region -> list string -> list (list string * stype) -> Prop :=
| br_nil pre : bases_regs R [] pre []
| br_field r rs pre h :
    r_is_base r = false -> bases_regs R rs pre h -> bases_regs R (r :: rs) pre h
| br_pending r rs pre h :
    base_pending R r -> bases_regs R rs pre h -> bases_regs R (r :: rs) pre h
| br_base r rs pre name bp btd sub h :
    base_of R r name bp btd ->
    bases_regs R (td_regions btd) (pre ++ [name]) sub ->
    bases_regs R rs pre h ->
    bases_regs R (r :: rs) pre ((pre ++ [name], TRaw bp) :: sub ++ h).

Definition bases_of (R : registry) (td : type_def) (pre : list string) (h : list (list string * stype)) : Prop :=
  bases_regs R (td_regions td) pre h.

(** ** the look-up of the emitter, in terms of the spec *)
Lemma typedef_lookup_some R r name btd :
  region_name_and_typedef R r = Ok (Some (name, btd)) ->
  exists bp, r_name r = Some name /\ r_type r = TRaw bp /\ typedef_of R bp = Some btd.
Proof.
  unfold region_name_and_typedef, typedef_of. destruct (r_name r) as [n|]; [|discriminate].
  destruct (r_type r) as [bp| | | |]; try discriminate.
  destruct (reg_get R bp) as [it|] eqn:Eg; [|discriminate].
  destruct (item_resolved it) as [rs|] eqn:Er; [|discriminate].
  destruct (rs_inner rs) eqn:Ei; [|discriminate]. intros H. inversion H; subst. exists bp.
  rewrite Eg, Er, Ei. auto.
Qed.

Lemma typedef_lookup_none R r :
  region_name_and_typedef R r = Ok None ->
  exists name bp it, r_name r = Some name /\ r_type r = TRaw bp /\ reg_get R bp = Some it /\ item_resolved it = None.
Proof.
  unfold region_name_and_typedef. destruct (r_name r) as [n|]; [|discriminate].
  destruct (r_type r) as [bp| | | |]; try discriminate.
  destruct (reg_get R bp) as [it|] eqn:Eg; [|discriminate].
  destruct (item_resolved it) as [rs|] eqn:Er; [destruct (rs_inner rs); discriminate|].
  intros _. exists n, bp, it. auto.
Qed.

Lemma base_of_lookup R r name bp btd :
  base_of R r name bp btd -> region_name_and_typedef R r = Ok (Some (name, btd)).
Proof.
  intros (_ & Hn & Ht & Htd). unfold region_name_and_typedef, typedef_of in *. rewrite Hn, Ht.
  destruct (reg_get R bp) as [it|]; [|discriminate].
  destruct (item_resolved it) as [rs|]; [|discriminate].
  destruct (rs_inner rs); [|discriminate]. now inversion Htd.
Qed.

Lemma base_pending_lookup R r : base_pending R r -> region_name_and_typedef R r = Ok None.
Proof.
  intros (_ & name & bp & it & Hn & Ht & Hg & Hr). unfold region_name_and_typedef. now rewrite Hn, Ht, Hg, Hr.
Qed.

(** ** the relation is a partial function *)
Lemma base_of_not_pending R r name bp btd : base_of R r name bp btd -> base_pending R r -> False.
Proof.
  intros H1 H2. apply base_of_lookup in H1. apply base_pending_lookup in H2. congruence.
Qed.

Theorem bases_regs_functional R rs pre h1 :
  bases_regs R rs pre h1 -> forall h2, bases_regs R rs pre h2 -> h1 = h2.
Proof.
  induction 1 as [pre|r rs pre h Hb _ IH|r rs pre h Hp _ IH|r rs pre name bp btd sub h Hb _ IHs _ IHr];
    intros h2 H2; inversion H2; subst.
  - reflexivity.
  - now apply IH.
  - destruct H1 as [E _]; congruence.
  - destruct H1 as [E _]; congruence.
  - destruct Hp as [E _]; congruence.
  - now apply IH.
  - exfalso. eapply base_of_not_pending; eauto.
  - destruct Hb as [E _]; congruence.
  - exfalso. eapply base_of_not_pending; eauto.
  - pose proof (base_of_lookup _ _ _ _ _ Hb) as L1. pose proof (base_of_lookup _ _ _ _ _ H1) as L2.
    rewrite L1 in L2. inversion L2; subst.
    destruct Hb as (_ & _ & T1 & _), H1 as (_ & _ & T2 & _). rewrite T1 in T2. inversion T2; subst.
    f_equal. f_equal; [now apply IHs | now apply IHr].
Qed.

Theorem bases_of_functional R td pre h1 h2 : bases_of R td pre h1 -> bases_of R td pre h2 -> h1 = h2.
Proof. unfold bases_of. intros H1 H2. eapply bases_regs_functional; eauto. Qed.

(** every entry is a user type whose definition is a resolved struct, and its path extends [pre] *)
Lemma bases_regs_entries R rs pre h : bases_regs R rs pre h ->
  Forall (fun x => exists bp btd rest, snd x = TRaw bp /\ typedef_of R bp = Some btd /\
                                        fst x = pre ++ rest /\ rest <> []) h.
Proof.
  induction 1 as [pre|r rs pre h Hb _ IH|r rs pre h Hp _ IH|r rs pre name bp btd sub h Hb _ IHs _ IHr];
    try assumption; [constructor|].
  constructor.
  - destruct Hb as (_ & _ & _ & Htd). exists bp, btd, [name]. cbn. repeat split; auto. discriminate.
  - apply Forall_app. split; [|exact IHr]. revert IHs. apply Forall_impl.
    intros x (bp' & btd' & rest & A & B & C & D). exists bp', btd', (name :: rest).
    repeat split; auto; [|discriminate]. rewrite C, <- app_assoc. reflexivity.
Qed.

(** ** prefixes *)
Definition prepend (pre : list string) (x : list string * stype) : list string * stype := (pre ++ fst x, snd x).

Lemma prepend_nil h : map (prepend []) h = h.
Proof. induction h as [|[a b] h IH]; cbn; [reflexivity|]. now rewrite IH. Qed.

Lemma prepend_prepend a b h : map (prepend a) (map (prepend b) h) = map (prepend (a ++ b)) h.
Proof.
  rewrite map_map. apply map_ext. intros [f t]. unfold prepend. cbn. now rewrite app_assoc.
Qed.

Lemma bases_regs_prepend R rs pre h : bases_regs R rs pre h ->
  forall q, bases_regs R rs (q ++ pre) (map (prepend q) h).
Proof.
  induction 1 as [pre|r rs pre h Hb _ IH|r rs pre h Hp _ IH|r rs pre name bp btd sub h Hb _ IHs _ IHr]; intros q.
  - constructor.
  - now apply br_field.
  - now apply br_pending.
  - cbn [map]. rewrite map_app. unfold prepend at 1. cbn [fst snd]. rewrite app_assoc.
    eapply br_base; eauto. rewrite <- app_assoc. apply IHs.
Qed.

(** the hierarchy under a prefix is the hierarchy from the empty prefix, with the prefix prepended *)
Theorem bases_regs_prefix R rs pre h : bases_regs R rs pre h ->
  exists h0, bases_regs R rs [] h0 /\ h = map (prepend pre) h0.
Proof.
  induction 1 as [pre|r rs pre h Hb _ IH|r rs pre h Hp _ IH|r rs pre name bp btd sub h Hb _ IHs _ IHr].
  - exists []. split; constructor.
  - destruct IH as (h0 & A & B). exists h0. split; [now apply br_field | exact B].
  - destruct IH as (h0 & A & B). exists h0. split; [now apply br_pending | exact B].
  - destruct IHs as (s0 & As & Bs), IHr as (h0 & Ar & Br).
    exists (([] ++ [name], TRaw bp) :: map (prepend ([] ++ [name])) s0 ++ h0). split.
    + eapply br_base; eauto. pose proof (bases_regs_prepend _ _ _ _ As ([] ++ [name])) as X.
      now rewrite app_nil_r in X.
    + cbn [map app]. rewrite map_app, prepend_prepend. unfold prepend at 1. cbn [fst snd]. now rewrite Bs, Br.
Qed.

Theorem bases_of_prefix R td pre h : bases_of R td pre h ->
  exists h0, bases_of R td [] h0 /\ h = map (prepend pre) h0.
Proof. apply bases_regs_prefix. Qed.

(** ** [dfs_hierarchy] *)
(** one step of the emitter's fold, with the fuel left for the sub-objects *)
Definition dfs_step (fu : nat) (R : registry) (fields : list string)
           (out : list (list string * stype)) (r : region) : outcome (list (list string * stype)) :=
  if negb (r_is_base r) then Ok out else
  do x <- region_name_and_typedef R r;
  match x with
  | None => Ok out
  | Some (name, btd) =>
    let fp := fields ++ [name] in
    do sub <- dfs_hierarchy fu R btd fp;
    Ok (out ++ (fp, r_type r) :: sub)
  end.

Lemma dfs_hierarchy_S fu R td fields :
  dfs_hierarchy (S fu) R td fields = foldM (dfs_step fu R fields) (td_regions td) [].
Proof. reflexivity. Qed.

(** *** soundness *)
Lemma dfs_sound : forall fuel R,
  (forall td pre h, dfs_hierarchy fuel R td pre = Ok h -> bases_of R td pre h).
Proof.
  induction fuel as [|fu IH]; intros R td pre h H; [discriminate|].
  rewrite dfs_hierarchy_S in H. unfold bases_of.
  assert (forall rs acc out, foldM (dfs_step fu R pre) rs acc = Ok out ->
                             exists h, out = acc ++ h /\ bases_regs R rs pre h) as G.
  { induction rs as [|r rs IHr]; intros acc out Hf; cbn [foldM] in Hf.
    - inversion Hf; subst. exists []. split; [now rewrite app_nil_r | constructor].
    - apply bind_ok in Hf as (a & Ha & Hf). unfold dfs_step in Ha. destruct (r_is_base r) eqn:Eb; cbn [negb] in Ha.
      + apply bind_ok in Ha as (x & Hx & Ha). destruct x as [[name btd]|].
        * apply bind_ok in Ha as (sub & Hsub & Ha). inversion Ha; subst a; clear Ha.
          destruct (IHr _ _ Hf) as (h' & -> & Hh').
          destruct (typedef_lookup_some _ _ _ _ Hx) as (bp & Hn & Ht & Htd).
          exists ((pre ++ [name], r_type r) :: sub ++ h'). split.
          { rewrite <- !app_assoc. reflexivity. }
          rewrite Ht. eapply br_base; [repeat split; eauto | apply (IH R _ _ _ Hsub) | exact Hh'].
        * inversion Ha; subst a. destruct (IHr _ _ Hf) as (h' & -> & Hh'). exists h'. split; [reflexivity|].
          apply br_pending; [|exact Hh']. split; [exact Eb|]. now apply typedef_lookup_none.
      + inversion Ha; subst a. destruct (IHr _ _ Hf) as (h' & -> & Hh'). exists h'. split; [reflexivity|].
        now apply br_field. }
  destruct (G _ _ _ H) as (h' & -> & Hh'). exact Hh'.
Qed.

Theorem dfs_hierarchy_sound fuel R td pre h :
  dfs_hierarchy fuel R td pre = Ok h -> bases_of R td pre h.
Proof. apply dfs_sound. Qed.

(** so an [Ok] result is THE list of the spec *)
Corollary dfs_hierarchy_spec fuel R td pre h h' :
  dfs_hierarchy fuel R td pre = Ok h -> bases_of R td pre h' -> h = h'.
Proof. intros H H'. eapply bases_of_functional; [eapply dfs_hierarchy_sound; eauto | exact H']. Qed.

(** *** completeness: enough fuel computes the list of the spec *)
Lemma dfs_complete_regs R rs pre h : bases_regs R rs pre h ->
  exists n, forall fu, n <= fu -> forall acc, foldM (dfs_step fu R pre) rs acc = Ok (acc ++ h).
Proof.
  induction 1 as [pre|r rs pre h Hb _ IH|r rs pre h Hp _ IH|r rs pre name bp btd sub h Hb _ IHs _ IHr].
  - exists O. intros fu _ acc. cbn. now rewrite app_nil_r.
  - destruct IH as (n & Hn). exists n. intros fu Hfu acc. cbn [foldM]. unfold dfs_step at 1. rewrite Hb.
    cbn [negb bind]. now apply Hn.
  - destruct IH as (n & Hn). exists n. intros fu Hfu acc. cbn [foldM]. unfold dfs_step at 1.
    destruct Hp as [Eb Hp']. rewrite Eb. cbn [negb]. rewrite (base_pending_lookup R r (conj Eb Hp')).
    cbn [bind]. now apply Hn.
  - destruct IHs as (n1 & Hn1), IHr as (n2 & Hn2). exists (S n1 + n2). intros fu Hfu acc.
    cbn [foldM]. unfold dfs_step at 1. pose proof Hb as (Eb & _ & Ht & _). rewrite Eb. cbn [negb].
    rewrite (base_of_lookup _ _ _ _ _ Hb). cbn [bind].
    destruct fu as [|fu']; [lia|]. rewrite dfs_hierarchy_S, (Hn1 fu' ltac:(lia) []). cbn [bind app].
    rewrite (Hn2 (S fu') ltac:(lia)), Ht, <- !app_assoc. reflexivity.
Qed.

Theorem dfs_hierarchy_complete R td pre h : bases_of R td pre h ->
  exists n, forall fuel, n <= fuel -> dfs_hierarchy fuel R td pre = Ok h.
Proof.
  intros H. destruct (dfs_complete_regs _ _ _ _ H) as (n & Hn). exists (S n). intros fuel Hf.
  destruct fuel as [|fu]; [lia|]. rewrite dfs_hierarchy_S. apply (Hn fu ltac:(lia) []).
Qed.

(** *** the prefix, on every outcome *)
Definition omap {A B} (f : A -> B) (o : outcome A) : outcome B := do x <- o; Ok (f x).

Theorem dfs_hierarchy_prefix : forall fuel R td pre,
  dfs_hierarchy fuel R td pre = omap (map (prepend pre)) (dfs_hierarchy fuel R td []).
Proof.
  induction fuel as [|fu IH]; intros R td pre; [reflexivity|].
  rewrite !dfs_hierarchy_S.
  assert (forall rs acc, foldM (dfs_step fu R pre) rs (map (prepend pre) acc)
                         = omap (map (prepend pre)) (foldM (dfs_step fu R []) rs acc)) as G.
  { induction rs as [|r rs IHr]; intros acc; cbn [foldM]; [reflexivity|].
    unfold dfs_step at 1 3. destruct (r_is_base r); cbn [negb bind]; [|apply IHr].
    destruct (region_name_and_typedef R r) as [[[name btd]|]| | |]; cbn [bind omap]; try reflexivity; [|apply IHr].
    rewrite (IH R btd (pre ++ [name])), (IH R btd ([] ++ [name])).
    destruct (dfs_hierarchy fu R btd []) as [sub| | |]; cbn [bind omap]; try reflexivity.
    rewrite <- IHr. f_equal. rewrite map_app. cbn [map]. rewrite prepend_prepend.
    unfold prepend at 3. cbn [fst snd app]. reflexivity. }
  apply (G (td_regions td) []).
Qed.

Corollary dfs_hierarchy_prefix_ok fuel R td pre h :
  dfs_hierarchy fuel R td pre = Ok h ->
  exists h0, dfs_hierarchy fuel R td [] = Ok h0 /\ h = map (prepend pre) h0.
Proof.
  rewrite dfs_hierarchy_prefix. destruct (dfs_hierarchy fuel R td []) as [h0| | |]; cbn; try discriminate.
  intros H. inversion H. eauto.
Qed.

(** *** the fuel *)
Definition fuel_panic {A} : outcome A := Panic "model: hierarchy fuel exhausted".

(** every outcome but the fuel panic is the outcome with every larger fuel *)
Theorem dfs_hierarchy_stable : forall fuel R td pre o,
  dfs_hierarchy fuel R td pre = o -> o <> fuel_panic ->
  forall fuel', fuel <= fuel' -> dfs_hierarchy fuel' R td pre = o.
Proof.
  induction fuel as [|fu IH]; intros R td pre o H Hne fuel' Hle.
  - cbn in H. subst o. now elim Hne.
  - destruct fuel' as [|fu']; [lia|]. rewrite dfs_hierarchy_S in *.
    assert (forall rs acc o, foldM (dfs_step fu R pre) rs acc = o -> o <> fuel_panic ->
                             foldM (dfs_step fu' R pre) rs acc = o) as G.
    { induction rs as [|r rs IHr]; intros acc o' Hf Hne'; cbn [foldM] in *; [exact Hf|].
      assert (dfs_step fu R pre acc r = fuel_panic \/ dfs_step fu' R pre acc r = dfs_step fu R pre acc r) as [E|E].
      { unfold dfs_step. destruct (r_is_base r); cbn [negb]; [|now right].
        destruct (region_name_and_typedef R r) as [[[name btd]|]| | |]; cbn [bind]; try now right.
        destruct (dfs_hierarchy fu R btd (pre ++ [name])) as [sub| | |m] eqn:Ed.
        - right. rewrite (IH R btd _ _ Ed ltac:(discriminate) fu' ltac:(lia)). reflexivity.
        - right. rewrite (IH R btd _ _ Ed ltac:(discriminate) fu' ltac:(lia)). reflexivity.
        - right. rewrite (IH R btd _ _ Ed ltac:(discriminate) fu' ltac:(lia)). reflexivity.
        - destruct (string_dec m "model: hierarchy fuel exhausted") as [->|Hm].
          + left. reflexivity.
          + right. rewrite (IH R btd _ _ Ed) ; [reflexivity| |lia].
            unfold fuel_panic. intros X. inversion X. contradiction. }
      - rewrite E in Hf. cbn [bind fuel_panic] in Hf. subst o'. now elim Hne'.
      - rewrite E. destruct (dfs_step fu R pre acc r) as [a| | |]; cbn [bind] in *; try exact Hf.
        now apply IHr. }
    now apply G.
Qed.

(** two [Ok] results with different fuels are equal *)
Theorem dfs_hierarchy_fuel_irrelevant f1 f2 R td pre h1 h2 :
  dfs_hierarchy f1 R td pre = Ok h1 -> dfs_hierarchy f2 R td pre = Ok h2 -> h1 = h2.
Proof.
  intros H1 H2. eapply bases_of_functional; eapply dfs_hierarchy_sound; eauto.
Qed.

(** the only outcome that depends on the fuel is the fuel panic: two runs differ only if one of
    them is the fuel panic *)
Corollary dfs_hierarchy_fuel_only f1 f2 R td pre :
  dfs_hierarchy f1 R td pre = dfs_hierarchy f2 R td pre \/
  dfs_hierarchy f1 R td pre = fuel_panic \/ dfs_hierarchy f2 R td pre = fuel_panic.
Proof.
  destruct (Nat.le_ge_cases f1 f2) as [L|L].
  - destruct (dfs_hierarchy f1 R td pre) as [h| |m|m] eqn:E.
    + left. symmetry. eapply dfs_hierarchy_stable; eauto. discriminate.
    + left. symmetry. eapply dfs_hierarchy_stable; eauto. discriminate.
    + left. symmetry. eapply dfs_hierarchy_stable; eauto. discriminate.
    + destruct (string_dec m "model: hierarchy fuel exhausted") as [->|Hm]; [right; left; reflexivity|].
      left. symmetry. eapply dfs_hierarchy_stable; eauto. intros X. inversion X. contradiction.
  - destruct (dfs_hierarchy f2 R td pre) as [h| |m|m] eqn:E.
    + left. eapply dfs_hierarchy_stable; eauto. discriminate.
    + left. eapply dfs_hierarchy_stable; eauto. discriminate.
    + left. eapply dfs_hierarchy_stable; eauto. discriminate.
    + destruct (string_dec m "model: hierarchy fuel exhausted") as [->|Hm]; [right; right; reflexivity|].
      left. eapply dfs_hierarchy_stable; eauto. intros X. inversion X. contradiction.
Qed.

Print Assumptions dfs_hierarchy_sound.
Print Assumptions dfs_hierarchy_complete.
Print Assumptions dfs_hierarchy_prefix.
Print Assumptions dfs_hierarchy_stable.
Print Assumptions dfs_hierarchy_fuel_only.
