(** * Reorder (C20): reordering the type definitions of a module leaves the output identical.

    [reordered mods mods'] (ReorderReg.v): same module paths in the same order, each module of
    [mods'] is the module of [mods] with [gm_defs] permuted.  For inputs whose registration is
    [collision_free] and [clean_stateb], under any two permutation-valued order functions, the two
    builds fall in the same verdict class, and when accepted the back end writes the same files.

    Route: ReorderReg ([srel] between the two input states), ReorderAtt (the abstract attempt
    functions coincide, the item lists are permutations of each other), ConfluencePerm (the abstract
    loop does not depend on the order of the item list), then the final states: registries equal as
    maps and of equal length, module tables related by [mods_out_rel], and [write_all_same]. *)
From Coq Require Import List NArith ZArith Bool Lia String Permutation.
From PyxisModel Require Import Base Sexp Grammar SemTypes Registry Sem Emit SemLemmas ScopeLemmas
     PlacementLemmas TotalityLemmas EmitLemmas WholeBuild Monotone OrderIndep SortUnique
     EmitInvariance FinalState OutputIndep Frame Unrelated ReorderReg ReorderAtt ConfluencePerm Examples.
From PyxisModel Require Confluence.
Import ListNotations.
Local Open Scope string_scope.
Local Open Scope list_scope.

(** verdict classes: accepted / anything else *)
Definition same_accept (r1 r2 : build_result) : Prop :=
  match r1, r2 with
  | BOk _, BOk _ => True
  | BOk _, _ | _, BOk _ => False
  | _, _ => True
  end.

(** finer: accepted / no progress / error-or-panic *)
Definition same_class (r1 r2 : build_result) : Prop :=
  match r1, r2 with
  | BOk _, BOk _ => True
  | BNoProgress _, BNoProgress _ => True
  | BErr _, BErr _ | BErr _, BPanic _ | BPanic _, BErr _ | BPanic _, BPanic _ => True
  | _, _ => False
  end.

Lemma same_class_accept r1 r2 : same_class r1 r2 -> same_accept r1 r2.
Proof. destruct r1, r2; cbn; auto. Qed.

(** [finish_build]'s extern-value pass on two modules with the same scope and extern values *)
Lemma resolve_extern_values_rel_w R1 R2 m1 m2 m1' m2' :
  reg_same R1 R2 -> module_scope m1 = module_scope m2 -> m_extern_values m1 = m_extern_values m2 ->
  m_backends m1 = m_backends m2 -> m_doc m1 = m_doc m2 ->
  Permutation (m_defpaths m1) (m_defpaths m2) ->
  resolve_extern_values R1 m1 = Ok m1' -> resolve_extern_values R2 m2 = Ok m2' ->
  mod_out_rel m1' m2'.
Proof.
  intros HR Hsc He Hb Hd HP H1 H2. unfold resolve_extern_values in *.
  inv_bind H1. inv_bind H2. inversion H1; subst m1'. inversion H2; subst m2'. clear H1 H2.
  unfold mod_out_rel. cbn [m_doc m_backends m_extern_values m_defpaths].
  split; [exact Hd|]. split; [exact Hb|]. split; [|exact HP].
  rewrite He, Hsc in Ha.
  erewrite mapM_ext_in in Ha; [rewrite Ha in Ha0; now inversion Ha0|].
  intros ev _. cbn beta. now rewrite (resolve_gtype_same R1 R2 _ HR).
Qed.

Definition mod_loop_w (m1 m2 : smodule) : Prop :=
  module_scope m1 = module_scope m2 /\ m_extern_values m1 = m_extern_values m2 /\
  m_backends m1 = m_backends m2 /\ m_doc m1 = m_doc m2 /\
  Permutation (m_defpaths m1) (m_defpaths m2).

Lemma finish_build_out_rel_w s1 s2 t1 t2 :
  reg_same (st_reg s1) (st_reg s2) ->
  Forall2 (fun km1 km2 => fst km1 = fst km2 /\ mod_loop_w (snd km1) (snd km2)) (st_modules s1) (st_modules s2) ->
  finish_build s1 = BOk t1 -> finish_build s2 = BOk t2 ->
  mods_out_rel (st_modules t1) (st_modules t2).
Proof.
  intros HR HM F1 F2. apply finish_build_mods in F1. apply finish_build_mods in F2.
  unfold mods_out_rel.
  eapply mapM_Forall2_out; [|exact HM | exact F1 | exact F2].
  intros [k1 m1] [k2 m2] [k1' m1'] [k2' m2'] [Hk (A & B & C & D & E)] H1 H2. cbn [fst snd] in *.
  inv_bind H1. inv_bind H2. inversion H1; inversion H2; subst. split; [reflexivity|].
  eapply resolve_extern_values_rel_w; eauto.
Qed.

Section Cross.
  Variables (ptr : N) (mods mods' : list (path * gmodule)) (st0 st0' : sstate).
  Let R0 := st_reg st0.
  Let R0' := st_reg st0'.
  Hypothesis HRe : reordered mods mods'.
  Hypothesis Hin : input_state ptr mods = Ok st0.
  Hypothesis Hin' : input_state ptr mods' = Ok st0'.
  Hypothesis Hcf : collision_free R0.
  Hypothesis Hclean : clean_stateb st0 = true.

  Lemma cross_srel : srel st0 st0'.
  Proof. eapply input_states_srel; eauto. Qed.
  Lemma cross_nodup : NoDup (map fst (reg_types R0)).
  Proof. eapply input_state_nodup; eauto. Qed.
  Lemma cross_nodup' : NoDup (map fst (reg_types R0')).
  Proof. eapply input_state_nodup; eauto. Qed.
  Lemma cross_same : reg_same R0 R0'.
  Proof. apply cross_srel. Qed.
  Lemma cross_cf' : collision_free R0'.
  Proof. apply (srel_collision_free st0 st0' cross_srel). exact Hcf. Qed.
  Lemma cross_clean' : clean_stateb st0' = true.
  Proof. apply (srel_clean_stateb st0 st0' cross_srel cross_nodup cross_nodup'). exact Hclean. Qed.
  Lemma cross_items_iff k : In k (items st0) <-> In k (items st0').
  Proof. apply (srel_items_iff st0 st0' cross_srel cross_nodup cross_nodup'). Qed.
  Lemma cross_user k : user R0 k <-> user R0' k.
  Proof. unfold user. now rewrite (cross_same k). Qed.

  Lemma cross_fuel : loop_fuel st0 = loop_fuel st0'.
  Proof.
    unfold loop_fuel. f_equal. apply Permutation_length.
    apply (srel_items_perm st0 st0' cross_srel cross_nodup cross_nodup').
  Qed.

  (** ** two loop states standing for abstract states that agree on the items *)
  Section Sims.
    Variables (s1 s2 : sstate) (A1 A2 : astate).
    Hypothesis S1 : sim st0 s1 A1.
    Hypothesis S2 : sim st0' s2 A2.
    Hypothesis Hag : forall k, In k (items st0) -> A1 k = A2 k.

    Lemma cross_mark p : reg_get (mark R0 A1) p = reg_get (mark R0' A2) p.
    Proof.
      rewrite (mark_agree st0 A1 A2 Hag (sim_supp _ _ _ S1)).
      - apply (mark_same st0 st0' cross_srel).
      - intros q Hq. apply cross_items_iff. apply (sim_supp _ _ _ S2 q Hq).
    Qed.

    Lemma cross_user_agree p : user R0 p -> reg_get (st_reg s1) p = reg_get (st_reg s2) p.
    Proof.
      intros Hu. rewrite (sim_user _ _ _ S1 p Hu), (sim_user _ _ _ S2 p (proj1 (cross_user p) Hu)).
      apply cross_mark.
    Qed.

    Lemma cross_clean_agree k : clean_path k = true -> reg_get (st_reg s1) k = reg_get (st_reg s2) k.
    Proof.
      intros Hc. destruct (reg_get R0 k) eqn:E0.
      - apply cross_user_agree. unfold user. fold R0. congruence.
      - assert (~ user R0 k) as Hu by (unfold user; fold R0; congruence).
        assert (~ user R0' k) as Hu' by (rewrite <- cross_user; exact Hu).
        now rewrite (sim_clean_nonuser _ _ _ _ S1 Hu Hc), (sim_clean_nonuser _ _ _ _ S2 Hu' Hc).
    Qed.

    Lemma cross_impls_ok : impls_ok (st_reg s1) (st_modules s1) = impls_ok (st_reg s2) (st_modules s2).
    Proof.
      rewrite (impls_ok_rel _ _ _ (sim_mods _ _ _ S1)), (impls_ok_rel _ _ _ (sim_mods _ _ _ S2)).
      destruct (clean_stateb_sound _ Hclean) as [Hm _].
      destruct cross_srel as (_ & _ & HM). unfold impls_ok.
      induction HM as [|km km' l l' [_ Hmr] _ IH]; cbn [forallb]; [reflexivity|].
      rewrite IH by (intros; apply Hm; now right). f_equal.
      destruct Hmr as (_ & _ & Hi & _). rewrite <- Hi. apply forallb_ext_in. intros kb Hkb.
      pose proof (Hm km (or_introl eq_refl)) as Hc. unfold clean_module in Hc. apply andb_prop in Hc as [_ Hc].
      apply andb_prop in Hc as [Hc _]. rewrite forallb_forall in Hc. specialize (Hc _ Hkb).
      unfold impl_is_defined_type. now rewrite (cross_clean_agree _ Hc).
    Qed.

    Lemma cross_all_evs_ok :
      all_evs_ok (st_reg s1) (st_modules s1) = all_evs_ok (st_reg s2) (st_modules s2).
    Proof.
      destruct (clean_stateb_sound _ Hclean) as [Hm _]. destruct (clean_stateb_sound _ cross_clean') as [Hm' _].
      assert (forall st s A, sim st s A -> chas (st_reg st) (st_reg s)) as HC
          by (intros st s A HS; apply reach_chas; split; [apply (sim_inv _ _ _ HS) | apply (sim_present _ _ _ HS)]).
      rewrite (all_evs_rel st0 _ (HC _ _ _ S1) _ _ (sim_mods _ _ _ S1) Hm).
      rewrite (all_evs_rel st0' _ (HC _ _ _ S2) _ _ (sim_mods _ _ _ S2) Hm').
      destruct cross_srel as (_ & _ & HM). unfold all_evs_ok. clear Hm Hm'.
      induction HM as [|km km' l l' [_ Hmr] _ IH]; cbn [forallb]; [reflexivity|].
      rewrite IH. f_equal. pose proof (mrel_weq _ _ Hmr) as [Hsc _]. destruct Hmr as (_ & _ & _ & He & _).
      unfold evs_ok. rewrite Hsc, He. apply forallb_ext. intros ev.
      fold R0 R0'. now rewrite (resolve_gtype_same R0 R0' _ cross_same).
    Qed.

    Lemma cross_finish_class : same_class (finish_build s1) (finish_build s2).
    Proof.
      pose proof (finish_build_class s1) as C1. pose proof (finish_build_class s2) as C2.
      rewrite cross_impls_ok, cross_all_evs_ok in C1.
      destruct (finish_build s1) as [t1|m1|l1|m1|], (finish_build s2) as [t2|m2|l2|m2|]; cbn [same_class];
        try contradiction; auto.
      - destruct C1 as (_ & I1 & V1). rewrite I1, V1 in C2. discriminate.
      - destruct C1 as (_ & I1 & V1). rewrite I1, V1 in C2. discriminate.
      - destruct C2 as (_ & I2 & V2). rewrite I2, V2 in C1. discriminate.
      - destruct C2 as (_ & I2 & V2). rewrite I2, V2 in C1. discriminate.
    Qed.
  End Sims.

  (** ** accepted runs of the two builds *)
  Section Accepted.
    Variables (o1 o2 : schedule) (t1 t2 : sstate).
    Hypothesis P1 : forall l, Permutation (o1 l) l.
    Hypothesis P2 : forall l, Permutation (o2 l) l.
    Hypothesis H1 : pyxis_resolve o1 ptr mods = BOk t1.
    Hypothesis H2 : pyxis_resolve o2 ptr mods' = BOk t2.

    (** a generated item of the first build is, literally, in the second *)
    Lemma gen_item_cross ptr1 mods1 st1 ptr2 mods2 st2 oa ob ta tb p ita :
      input_state ptr1 mods1 = Ok st1 -> input_state ptr2 mods2 = Ok st2 ->
      collision_free (st_reg st1) -> collision_free (st_reg st2) ->
      clean_stateb st1 = true -> clean_stateb st2 = true ->
      reg_same (st_reg st1) (st_reg st2) -> reg_ptr (st_reg st1) = reg_ptr (st_reg st2) ->
      (forall l, Permutation (oa l) l) -> (forall l, Permutation (ob l) l) ->
      pyxis_resolve oa ptr1 mods1 = BOk ta -> pyxis_resolve ob ptr2 mods2 = BOk tb ->
      (forall q, user (st_reg st1) q -> reg_get (st_reg ta) q = reg_get (st_reg tb) q) ->
      reg_get (st_reg st1) p = None -> reg_get (st_reg ta) p = Some ita -> reg_get (st_reg tb) p = Some ita.
    Proof.
      intros Hi1 Hi2 Hc1 Hc2 Hl1 Hl2 Hsame Hptr Pa Pb Ha Hb Hagr Hnone Hg1.
      destruct (run_facts ptr1 mods1 st1 Hi1 Hc1 Hl1 oa ta Pa Ha) as (sa & Aa & _ & Fa & Sa & _ & Ua).
      destruct (run_facts ptr2 mods2 st2 Hi2 Hc2 Hl2 ob tb Pb Hb) as (sb & Ab & _ & Fb & Sb & _ & Ub).
      pose proof (finish_build_reg _ _ Fa) as Ea. pose proof (finish_build_reg _ _ Fb) as Eb.
      destruct (sim_inv _ _ _ Sa) as [Hpa HIa]. destruct (sim_inv _ _ _ Sb) as [Hpb _].
      rewrite Ea in Hg1. specialize (HIa _ _ Hg1). rewrite Hnone in HIa.
      destruct HIa as (owner & it0 & gd & td & n & rs & Hg0 & Hs0 & Hty & Hvp & Hlen & _).
      destruct Hlen as (s & rest & gfs & _ & _ & _ & _ & Hst & Hf & _).
      destruct (user_resolved ptr1 mods1 st1 Hi1 _ _ _ _ _ Sa Ua Hg0 Hs0) as (ito & r & Hgo1 & Hso1).
      assert (reg_get (st_reg tb) owner = Some ito) as Hgo2.
      { rewrite <- Hagr by (unfold user; congruence). now rewrite Ea. }
      rewrite <- Ea in Hgo1.
      assert (reg_get (st_reg st2) owner = Some it0) as Hg0' by (now rewrite <- (Hsame owner)).
      destruct (whole_build_vftable oa ptr1 mods1 st1 ta owner it0 gd td ito r s rest gfs Hi1 Hc1 Ha Hg0 Hs0 Hty Hgo1 Hso1 Hst Hf)
        as (_ & _ & _ & fs1 & vp1 & vit1 & td1 & vt1 & _ & _ & _ & _ & Hvp1 & Hvi1 & Hgv1 & Hi1' & Hvt1 & Hfs1 & _).
      destruct (whole_build_vftable ob ptr2 mods2 st2 tb owner it0 gd td ito r s rest gfs Hi2 Hc2 Hb Hg0' Hs0 Hty Hgo2 Hso1 Hst Hf)
        as (_ & _ & _ & fs2 & vp2 & vit2 & td2 & vt2 & _ & _ & _ & _ & Hvp2 & Hvi2 & Hgv2 & Hi2' & Hvt2 & Hfs2 & _).
      rewrite Hvp in Hvp1, Hvp2. inversion Hvp1; subst vp1. inversion Hvp2; subst vp2.
      rewrite Hi1' in Hi2'. inversion Hi2'; subst td2. rewrite Hvt1 in Hvt2. inversion Hvt2; subst vt2.
      rewrite Hfs1 in Hfs2. subst fs2.
      rewrite (vftable_item_ptr (st_reg ta) (st_reg tb)) in Hvi1 by (rewrite Ea, Eb; congruence).
      rewrite Hvi1 in Hvi2. inversion Hvi2; subst vit2.
      rewrite <- Ea in Hg1. rewrite Hg1 in Hgv1. inversion Hgv1; subst vit1. exact Hgv2.
    Qed.

    Variables (s1 s2 : sstate) (A1 A2 : astate).
    Hypothesis S1 : sim st0 s1 A1.
    Hypothesis S2 : sim st0' s2 A2.
    Hypothesis Hag : forall k, In k (items st0) -> A1 k = A2 k.
    Hypothesis F1 : finish_build s1 = BOk t1.
    Hypothesis F2 : finish_build s2 = BOk t2.
    Hypothesis L1 : LInv st0 s1.
    Hypothesis L2 : LInv st0' s2.

    (** the two final registries are equal as maps *)
    Lemma cross_final_regs : reg_same (st_reg t1) (st_reg t2).
    Proof.
      pose proof (finish_build_reg _ _ F1) as E1. pose proof (finish_build_reg _ _ F2) as E2.
      assert (forall q, user R0 q -> reg_get (st_reg t1) q = reg_get (st_reg t2) q) as Hu.
      { intros q Hq. rewrite E1, E2. now apply (cross_user_agree s1 s2 A1 A2 S1 S2 Hag). }
      intros p. destruct (reg_get R0 p) as [it0|] eqn:E0; [apply Hu; unfold user; fold R0; congruence|].
      destruct (reg_get (st_reg t1) p) as [it1|] eqn:G1.
      - symmetry. eapply (gen_item_cross ptr mods st0 ptr mods' st0' o1 o2 t1 t2); eauto.
        + apply cross_cf'.
        + apply cross_clean'.
        + apply cross_same.
        + apply cross_srel.
      - destruct (reg_get (st_reg t2) p) as [it2|] eqn:G2; [|reflexivity].
        rewrite <- G1. eapply (gen_item_cross ptr mods' st0' ptr mods st0 o2 o1 t2 t1); eauto.
        + apply cross_cf'.
        + apply cross_clean'.
        + apply reg_same_sym, cross_same.
        + symmetry. apply cross_srel.
        + intros q Hq. symmetry. apply Hu. now apply cross_user.
        + fold R0'. now rewrite <- (cross_same p).
    Qed.

    Lemma cross_final_length : List.length (reg_types (st_reg t1)) = List.length (reg_types (st_reg t2)).
    Proof.
      apply alookup_same_length.
      - rewrite (finish_build_reg _ _ F1). eapply evolves_nodup; [exact cross_nodup | apply (sim_ev _ _ _ S1)].
      - rewrite (finish_build_reg _ _ F2). eapply evolves_nodup; [exact cross_nodup' | apply (sim_ev _ _ _ S2)].
      - exact cross_final_regs.
    Qed.

    (** the two module tables at the end of the loops *)
    Lemma cross_mods_loop :
      Forall2 (fun km1 km2 => fst km1 = fst km2 /\ mod_loop_w (snd km1) (snd km2)) (st_modules s1) (st_modules s2).
    Proof.
      destruct L1 as (_ & _ & [HK1 HD1]). destruct L2 as (_ & _ & [HK2 HD2]).
      destruct (input_state_wf _ _ _ Hin) as [_ [HN _]].
      pose proof cross_srel as (_ & _ & HM).
      assert (reg_same (st_reg s1) (st_reg s2)) as HRs.
      { intros p. rewrite <- (finish_build_reg _ _ F1), <- (finish_build_reg _ _ F2). apply cross_final_regs. }
      apply (Forall2_of_alookup mod_loop_w).
      - now rewrite HK1.
      - rewrite HK1, HK2. now apply mods_srel_keys.
      - intros k m1 m2 G1 G2.
        destruct (HD1 _ _ G1) as (m0 & Hm0 & Hs1 & Hn1 & Hset1).
        destruct (HD2 _ _ G2) as (m0' & Hm0' & Hs2 & Hn2 & Hset2).
        pose proof (mods_srel_lookup _ _ k HM) as Hl. rewrite Hm0, Hm0' in Hl.
        pose proof (mrel_weq _ _ Hl) as [Hsc _].
        destruct Hl as (_ & _ & _ & He & Hb & Hd & Hdp).
        destruct Hs1 as (a1 & b1 & c1 & d1 & e1 & f1). destruct Hs2 as (a2 & b2 & c2 & d2 & e2 & f2).
        unfold mod_loop_w. split; [|split; [congruence | split; [congruence | split; [congruence|]]]].
        + unfold module_scope in *. rewrite a1, b1, a2, b2. exact Hsc.
        + apply NoDup_Permutation; [exact Hn1 | exact Hn2|].
          intros p. rewrite Hset1, Hset2, (Hdp p). unfold gen_in. fold R0 R0'.
          rewrite (cross_same p), (HRs p). tauto.
    Qed.

    Theorem cross_write_all : write_all t1 = write_all t2.
    Proof.
      apply write_all_same.
      - exact cross_final_regs.
      - rewrite (finish_build_reg _ _ F1). apply L1.
      - exact cross_final_length.
      - eapply finish_build_out_rel_w; [| exact cross_mods_loop | exact F1 | exact F2].
        intros p. rewrite <- (finish_build_reg _ _ F1), <- (finish_build_reg _ _ F2). apply cross_final_regs.
    Qed.
  End Accepted.

  (** ** the two loops *)
  Definition loop_rel (r1 r2 : build_result) : Prop :=
    match r1, r2 with
    | BOk s1, BOk s2 => exists A1 A2, sim st0 s1 A1 /\ sim st0' s2 A2 /\ forall k, In k (items st0) -> A1 k = A2 k
    | BNoProgress l1, BNoProgress l2 => Permutation l1 l2
    | BErr _, BErr _ | BErr _, BPanic _ | BPanic _, BErr _ | BPanic _, BPanic _ => True
    | _, _ => False
    end.

  (** same verdict class of the two resolution loops; the same stuck items (up to order); on
      acceptance both final states stand for abstract states that agree on every item *)
  Theorem reorder_loops o1 o2 :
    (forall l, Permutation (o1 l) l) -> (forall l, Permutation (o2 l) l) ->
    loop_rel (resolve_loop o1 (loop_fuel st0) st0) (resolve_loop o2 (loop_fuel st0') st0').
  Proof.
    intros P1 P2.
    destruct (clean_stateb_sound _ Hclean) as [Hm Hd]. destruct (clean_stateb_sound _ cross_clean') as [Hm' Hd'].
    pose proof (input_state_keyed _ _ _ Hin) as HK0. pose proof (input_state_keyed _ _ _ Hin') as HK0'.
    pose proof (reg_u8_user _ (input_state_u8 _ _ _ Hin)) as Hu8.
    pose proof (reg_u8_user _ (input_state_u8 _ _ _ Hin')) as Hu8'.
    pose proof (loop_sim st0 Hcf Hu8 Hm Hd HK0 cross_nodup o1 P1 (loop_fuel st0) _ _ (sim_init st0 HK0)) as S1.
    pose proof (loop_sim st0' cross_cf' Hu8' Hm' Hd' HK0' cross_nodup' o2 P2 (loop_fuel st0') _ _ (sim_init st0' HK0')) as S2.
    assert (forall st, List.length (Confluence.unres path resolved (items st) (fun _ => None)) < loop_fuel st) as Hf.
    { intros st. unfold Confluence.unres. rewrite filter_all_true; [unfold loop_fuel, items; lia | reflexivity]. }
    pose proof (order_independent_perm path resolved path_eqb path_eqb_spec (att st0) (att st0')
                  (att_reordered st0 st0' cross_srel Hm)
                  (att_M1 st0 Hcf Hu8 Hm Hd) (att_M2 st0 Hcf Hu8 Hm Hd)
                  (items st0) (items st0') cross_items_iff o1 o2 P1 P2
                  (loop_fuel st0) (loop_fuel st0') (fun _ => None) (Hf st0) (Hf st0')) as OI.
    destruct (resolve_loop o1 (loop_fuel st0) st0) as [s1|m1|l1|m1|],
             (Confluence.loop _ _ _ (att st0) _ o1 _ _ _) as [A1|A1| |];
      cbn [abs_result] in S1; try contradiction;
    destruct (resolve_loop o2 (loop_fuel st0') st0') as [s2|m2|l2|m2|],
             (Confluence.loop _ _ _ (att st0') _ o2 _ _ _) as [A2|A2| |];
      cbn [abs_result] in S2; try contradiction; cbn [same_outcome2 loop_rel] in *; try contradiction; auto.
    - exists A1, A2. auto.
    - eapply Permutation_trans; [exact S1|]. eapply Permutation_trans; [|apply Permutation_sym; exact S2].
      apply NoDup_Permutation.
      + apply NoDup_filter. now apply reg_unresolved_nodup, cross_nodup.
      + apply NoDup_filter. now apply reg_unresolved_nodup, cross_nodup'.
      + intros k. rewrite !Confluence.unres_in, <- cross_items_iff.
        split; intros [Hi Hk]; (split; [exact Hi|]); [rewrite <- OI | rewrite OI]; assumption.
  Qed.

  (** ** the whole front half, and the output *)
  Theorem reorder_same_output o1 o2 :
    (forall l, Permutation (o1 l) l) -> (forall l, Permutation (o2 l) l) ->
    match pyxis_resolve o1 ptr mods, pyxis_resolve o2 ptr mods' with
    | BOk s1, BOk s2 => write_all s1 = write_all s2
    | BOk _, _ | _, BOk _ => False
    | _, _ => True
    end.
  Proof.
    intros P1 P2. pose proof (reorder_loops o1 o2 P1 P2) as HL.
    pose proof (pyxis_resolve_sem_build ptr mods st0 Hin o1) as E1.
    pose proof (pyxis_resolve_sem_build ptr mods' st0' Hin' o2) as E2.
    unfold sem_build in E1, E2. fold R0 in E1. fold R0' in E2.
    change (S (List.length (reg_unresolved R0))) with (loop_fuel st0) in E1.
    change (S (List.length (reg_unresolved R0'))) with (loop_fuel st0') in E2.
    destruct (resolve_loop o1 (loop_fuel st0) st0) as [s1|m1|l1|m1|] eqn:EL1,
             (resolve_loop o2 (loop_fuel st0') st0') as [s2|m2|l2|m2|] eqn:EL2;
      cbn [loop_rel] in HL; try contradiction; rewrite E1, E2; try exact I.
    destruct HL as (A1 & A2 & S1 & S2 & Hag). cbv iota beta in E1, E2 |- *.
    pose proof (cross_finish_class s1 s2 A1 A2 S1 S2 Hag) as HC.
    destruct (finish_build s1) as [t1|x1|x1|x1|] eqn:F1, (finish_build s2) as [t2|x2|x2|x2|] eqn:F2;
      cbn [same_class] in HC; try contradiction; try exact I.
    pose proof (input_state_keyed _ _ _ Hin) as HK0. pose proof (input_state_keyed _ _ _ Hin') as HK0'.
    destruct (input_state_wf _ _ _ Hin) as [_ HW]. destruct (input_state_wf _ _ _ Hin') as [_ HW'].
    eapply (cross_write_all o1 o2 t1 t2 P1 P2 E1 E2 s1 s2 A1 A2 S1 S2 Hag F1 F2).
    - eapply resolve_loop_LInv; [exact Hcf | | exact EL1]. now apply LInv_init.
    - eapply resolve_loop_LInv; [exact cross_cf' | | exact EL2]. now apply LInv_init.
  Qed.
  (** the finer statement: same verdict class (accepted / no progress with the same stuck items /
      error or panic), and on acceptance the same final registry as a map: every item, input or
      generated, is resolved to the same value *)
  Definition same_build2 (r1 r2 : build_result) : Prop :=
    match r1, r2 with
    | BOk t1, BOk t2 => reg_same (st_reg t1) (st_reg t2) /\
                        List.length (reg_types (st_reg t1)) = List.length (reg_types (st_reg t2))
    | BNoProgress l1, BNoProgress l2 => Permutation l1 l2
    | BErr _, BErr _ | BErr _, BPanic _ | BPanic _, BErr _ | BPanic _, BPanic _ => True
    | _, _ => False
    end.

  Theorem reorder_same_build o1 o2 :
    (forall l, Permutation (o1 l) l) -> (forall l, Permutation (o2 l) l) ->
    same_build2 (pyxis_resolve o1 ptr mods) (pyxis_resolve o2 ptr mods').
  Proof.
    intros P1 P2. pose proof (reorder_loops o1 o2 P1 P2) as HL.
    pose proof (pyxis_resolve_sem_build ptr mods st0 Hin o1) as E1.
    pose proof (pyxis_resolve_sem_build ptr mods' st0' Hin' o2) as E2.
    unfold sem_build in E1, E2. fold R0 in E1. fold R0' in E2.
    change (S (List.length (reg_unresolved R0))) with (loop_fuel st0) in E1.
    change (S (List.length (reg_unresolved R0'))) with (loop_fuel st0') in E2.
    destruct (resolve_loop o1 (loop_fuel st0) st0) as [s1|m1|l1|m1|] eqn:EL1,
             (resolve_loop o2 (loop_fuel st0') st0') as [s2|m2|l2|m2|] eqn:EL2;
      cbn [loop_rel] in HL; try contradiction; rewrite E1, E2; try exact I; try exact HL.
    destruct HL as (A1 & A2 & S1 & S2 & Hag). cbv iota beta in E1, E2 |- *.
    pose proof (cross_finish_class s1 s2 A1 A2 S1 S2 Hag) as HC. pose proof (finish_build_class s1) as K1.
    destruct (finish_build s1) as [t1|x1|x1|x1|] eqn:F1, (finish_build s2) as [t2|x2|x2|x2|] eqn:F2;
      cbn [same_class] in HC; try contradiction; try exact I.
    cbn [same_build2]. split.
    - exact (cross_final_regs o1 o2 t1 t2 P1 P2 E1 E2 s1 s2 A1 A2 S1 S2 Hag F1 F2).
    - exact (cross_final_length o1 o2 t1 t2 P1 P2 E1 E2 s1 s2 A1 A2 S1 S2 Hag F1 F2).
  Qed.
End Cross.

(** ** C20 for the model *)

(** the statement with both registrations assumed *)
Theorem pyxis_reorder_same_output ptr mods mods' st0 st0' o1 o2 :
  reordered mods mods' ->
  input_state ptr mods = Ok st0 -> input_state ptr mods' = Ok st0' ->
  collision_free (st_reg st0) -> clean_stateb st0 = true ->
  (forall l, Permutation (o1 l) l) -> (forall l, Permutation (o2 l) l) ->
  match pyxis_resolve o1 ptr mods, pyxis_resolve o2 ptr mods' with
  | BOk s1, BOk s2 => write_all s1 = write_all s2
  | BOk _, _ | _, BOk _ => False
  | _, _ => True
  end.
Proof. intros HR Hin Hin' Hcf Hcl P1 P2. eapply reorder_same_output; eauto. Qed.

(** the second registration is not a hypothesis: it succeeds because the first does *)
Theorem pyxis_reorder_same_output' ptr mods mods' st0 o1 o2 :
  reordered mods mods' ->
  input_state ptr mods = Ok st0 ->
  collision_free (st_reg st0) -> clean_stateb st0 = true ->
  (forall l, Permutation (o1 l) l) -> (forall l, Permutation (o2 l) l) ->
  match pyxis_resolve o1 ptr mods, pyxis_resolve o2 ptr mods' with
  | BOk s1, BOk s2 => write_all s1 = write_all s2
  | BOk _, _ | _, BOk _ => False
  | _, _ => True
  end.
Proof.
  intros HR Hin Hcf Hcl P1 P2. destruct (input_state_reordered _ _ _ _ HR Hin) as (st0' & Hin' & _).
  eapply pyxis_reorder_same_output; eauto.
Qed.

(** same verdict class; same stuck items; on acceptance the same registry as a map *)
Theorem pyxis_reorder_same_build ptr mods mods' st0 o1 o2 :
  reordered mods mods' ->
  input_state ptr mods = Ok st0 ->
  collision_free (st_reg st0) -> clean_stateb st0 = true ->
  (forall l, Permutation (o1 l) l) -> (forall l, Permutation (o2 l) l) ->
  same_build2 (pyxis_resolve o1 ptr mods) (pyxis_resolve o2 ptr mods').
Proof.
  intros HR Hin Hcf Hcl P1 P2. destruct (input_state_reordered _ _ _ _ HR Hin) as (st0' & Hin' & _).
  eapply reorder_same_build; eauto.
Qed.

(** when the registration itself fails, it fails for both inputs, and neither build is accepted *)
Theorem pyxis_reorder_registration_fails ptr mods mods' o1 o2 :
  reordered mods mods' -> is_ok (input_state ptr mods) = false ->
  is_ok (input_state ptr mods') = false /\
  (forall s, pyxis_resolve o1 ptr mods <> BOk s) /\ (forall s, pyxis_resolve o2 ptr mods' <> BOk s).
Proof.
  intros HR H. pose proof (input_state_reordered_ok ptr _ _ HR) as E. rewrite H in E. split; [now symmetry|].
  split; intros s Hs; apply pyxis_resolve_input in Hs as (st & Hi & _); rewrite Hi in *; discriminate.
Qed.

(** with the decidable side conditions *)
Corollary pyxis_reorder_same_output_b ptr mods mods' st0 o1 o2 :
  reordered mods mods' ->
  input_state ptr mods = Ok st0 ->
  collision_freeb (st_reg st0) = true -> clean_stateb st0 = true ->
  (forall l, Permutation (o1 l) l) -> (forall l, Permutation (o2 l) l) ->
  match pyxis_resolve o1 ptr mods, pyxis_resolve o2 ptr mods' with
  | BOk s1, BOk s2 => write_all s1 = write_all s2
  | BOk _, _ | _, BOk _ => False
  | _, _ => True
  end.
Proof. intros HR Hin Hcf. apply pyxis_reorder_same_output'; [exact HR | exact Hin | now apply collision_freeb_sound]. Qed.

(** ** a concrete pair of inputs: three types (one embeds another by value, one has a vftable and an
    impl block), registered in two different orders, in two modules *)
Definition reord_m1_text : string := "(module (attrs) (uses) (extern_types) (extern_values) (defs (def pub ""A"" (type (attrs) (field (attrs) pub ""x"" (tid ""u32"")) (field (attrs) pub ""b"" (tid ""B"")))) (def pub ""B"" (type (attrs) (field (attrs) pub ""y"" (tid ""u32"")))) (def pub ""V"" (type (attrs) (vftable (attrs) (func (attrs) pub ""f"" (args cself (named ""x"" (tid ""u32""))) (some (tid ""u32"")))) (field (attrs) pub ""x"" (tid ""u32""))))) (impls (impl ""V"" (attrs) (func (attrs (fn ""address"" (int 120))) pub ""meth"" (args mself (named ""t"" (tid ""u32""))) (some (tid ""B""))))) (backends))".
Definition reord_m2_text : string := "(module (attrs) (uses) (extern_types) (extern_values) (defs (def pub ""V"" (type (attrs) (vftable (attrs) (func (attrs) pub ""f"" (args cself (named ""x"" (tid ""u32""))) (some (tid ""u32"")))) (field (attrs) pub ""x"" (tid ""u32"")))) (def pub ""B"" (type (attrs) (field (attrs) pub ""y"" (tid ""u32"")))) (def pub ""A"" (type (attrs) (field (attrs) pub ""x"" (tid ""u32"")) (field (attrs) pub ""b"" (tid ""B""))))) (impls (impl ""V"" (attrs) (func (attrs (fn ""address"" (int 120))) pub ""meth"" (args mself (named ""t"" (tid ""u32""))) (some (tid ""B""))))) (backends))".
Definition reord_n_text : string := "(module (attrs) (uses (path ""m"")) (extern_types) (extern_values) (defs (def pub ""C"" (type (attrs) (field (attrs) pub ""a"" (tid ""A"")) (field (attrs) pub ""v"" (cptr (tid ""V"")))))) (impls) (backends))".
Definition reord_mods : list (path * gmodule) :=
  [(["m"], Examples.module_of_text reord_m1_text); (["n"], Examples.module_of_text reord_n_text)].
Definition reord_mods' : list (path * gmodule) :=
  [(["m"], Examples.module_of_text reord_m2_text); (["n"], Examples.module_of_text reord_n_text)].

Example reord_is_reordered : reordered reord_mods reord_mods'.
Proof.
  constructor; [|constructor; [|constructor]].
  - split; [reflexivity|]. vm_compute. repeat split.
    eapply perm_trans; [apply perm_swap|]. eapply perm_trans; [apply perm_skip, perm_swap|]. apply perm_swap.
  - split; [reflexivity | apply ast_perm_refl].
Qed.

(** the side conditions hold, and both builds are accepted under two different hook schedules, with
    the same (non-empty) output *)
Example reord_side_conditions :
  exists st0, input_state 4 reord_mods = Ok st0 /\ collision_freeb (st_reg st0) = true /\ clean_stateb st0 = true /\
    items st0 = [["m"; "A"]; ["m"; "B"]; ["m"; "V"]; ["n"; "C"]].
Proof. vm_compute. eexists. repeat split; reflexivity. Qed.

Example reord_items_permuted :
  exists st0', input_state 4 reord_mods' = Ok st0' /\
    items st0' = [["m"; "V"]; ["m"; "B"]; ["m"; "A"]; ["n"; "C"]].
Proof. vm_compute. eexists. repeat split; reflexivity. Qed.

Example reord_accepted_same_files :
  match pyxis_resolve (hook_schedule []) 4 reord_mods, pyxis_resolve (hook_schedule [5; 3; 1; 2; 7]%N) 4 reord_mods' with
  | BOk s1, BOk s2 => write_all s1 = write_all s2 /\
                      match write_all s1 with Ok fs => List.length fs = 2%nat | _ => False end
  | _, _ => False
  end.
Proof. vm_compute. split; reflexivity. Qed.

(** the theorem applies to this pair, for all permutation-valued order functions *)
Example reord_theorem_applies o1 o2 :
  (forall l, Permutation (o1 l) l) -> (forall l, Permutation (o2 l) l) ->
  match pyxis_resolve o1 4 reord_mods, pyxis_resolve o2 4 reord_mods' with
  | BOk s1, BOk s2 => write_all s1 = write_all s2
  | BOk _, _ | _, BOk _ => False
  | _, _ => True
  end.
Proof.
  intros P1 P2. destruct reord_side_conditions as (st0 & Hin & Hcf & Hcl & _).
  exact (pyxis_reorder_same_output_b 4 reord_mods reord_mods' st0 o1 o2 reord_is_reordered Hin Hcf Hcl P1 P2).
Qed.

(** registration errors are shared too: a duplicate definition is rejected in either order *)
Definition reord_dup1_text : string := "(module (attrs) (uses) (extern_types) (extern_values) (defs (def pub ""A"" (type (attrs) (field (attrs) pub ""x"" (tid ""u32"")))) (def pub ""B"" (type (attrs) (field (attrs) pub ""y"" (tid ""u32"")))) (def pub ""A"" (type (attrs) (field (attrs) pub ""z"" (tid ""u64""))))) (impls) (backends))".
Definition reord_dup2_text : string := "(module (attrs) (uses) (extern_types) (extern_values) (defs (def pub ""A"" (type (attrs) (field (attrs) pub ""z"" (tid ""u64"")))) (def pub ""A"" (type (attrs) (field (attrs) pub ""x"" (tid ""u32"")))) (def pub ""B"" (type (attrs) (field (attrs) pub ""y"" (tid ""u32""))))) (impls) (backends))".
Example reord_duplicate_rejected_both :
  reordered [(["m"], Examples.module_of_text reord_dup1_text)] [(["m"], Examples.module_of_text reord_dup2_text)] /\
  is_ok (input_state 4 [(["m"], Examples.module_of_text reord_dup1_text)]) = false /\
  is_ok (input_state 4 [(["m"], Examples.module_of_text reord_dup2_text)]) = false.
Proof.
  split; [|split; vm_compute; reflexivity].
  constructor; [|constructor]. split; [reflexivity|]. vm_compute. repeat split.
  eapply perm_trans; [apply perm_skip, perm_swap|]. apply perm_swap.
Qed.
